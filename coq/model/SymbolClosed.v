(** An executable closure check of a SymbolMap.v state (group bridge): every id stored in a payload, in a per-file
    symbol list or in an interval map is allocated, and every payload has the shape of its arena.  It is what the
    `expect("invalid … id")` lookups of document_symbol / hover / inlay_hint need (proofs/SymbolClosedProofs.v);
    PipelineAllJson.v evaluates it on the joined state of every analysis ("closed"), and tools/bridge_selftest.py
    requires it to be true on every compared workspace: a checked hypothesis, like Pipeline.an_shape once was. *)
From Coq Require Import List NArith Bool.
From TG.Model Require Import SymbolMap.
Import ListNotations.
Open Scope N_scope.

Definition vid (S : symbol_map) (k : sym_kind) (i : N) : bool := i <? len_N (get_arena S k).
Definition vsid (S : symbol_map) (s : symbol_id) : bool := vid S (fst s) (snd s).

Definition payload_ok (S : symbol_map) (k : sym_kind) (p : payload) : bool :=
  match k, p with
  | KRecord, PRecord _ targs fields _ =>
      forallb (vid S KTemplateArg) (amap_values targs) && forallb (vid S KRecordField) (amap_values fields)
  | KTemplateArg, PTemplateArg _ => true
  | KRecordField, PRecordField _ parent => vid S KRecord parent
  | KVariable, PVariable _ => true
  | KDefset, PDefset _ defs => forallb (vid S KRecord) defs
  | KMulticlass, PMulticlass targs _ => forallb (vid S KTemplateArg) (amap_values targs)
  | KDefm, PDefm _ => true
  | _, _ => false
  end.

Definition all_kinds : list sym_kind := [KRecord; KTemplateArg; KRecordField; KVariable; KDefset; KMulticlass; KDefm].

Definition sm_closedb (S : symbol_map) : bool :=
  forallb (fun k => forallb (fun e => payload_ok S k (e_payload e)) (get_arena S k)) all_kinds
  && forallb (fun fl : fileid * list symbol_id => forallb (vsid S) (snd fl)) (sm_file_syms S)
  && forallb (fun fm : fileid * list ivl => forallb (fun e : ivl => vsid S (snd e)) (snd fm)) (sm_pos S).
