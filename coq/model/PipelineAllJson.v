(** Rendering of the answers of PipelineAll.v as a JSON-like value, in the shape of harness/src/bin/idedump.rs, so that
    the hand-written driver (coq/extract/bridgeall_driver.ml) only prints [jv] values.  Files are file numbers
    (lib/bridgelib.py maps them to paths through "files").  Executable definitions only; nothing is proved about
    the rendering (it is part of the trusted comparison harness, DESIGN section 2). *)
From Coq Require Import List NArith Bool String.
From TG.Gen Require Import GenTokens GenCompletion.
From TG.Model Require Import Chars Tree ParserPrims CoreAst AstToCore Scope Indexer Pipeline PipelineAll.
From TG.Model Require SymbolMap Outline DocComments SymbolClosed.
Import ListNotations.
Open Scope string_scope.
Open Scope N_scope.
Open Scope list_scope.

Inductive jv : Type :=
| JNull | JBool (b : bool) | JNum (n : N)
| JStr (t : text)            (* code points *)
| JLit (s : string)          (* an ASCII literal *)
| JArr (l : list jv)
| JObj (l : list (string * jv)).

Definition j_opt {A} (f : A -> jv) (o : option A) : jv := match o with Some a => f a | None => JNull end.
Definition j_list {A} (f : A -> jv) (l : list A) : jv := JArr (map f l).
Definition j_rng (r : rng) : jv := JArr [JNum (r_file r); JNum (r_lo r); JNum (r_hi r)].
Definition j_fr (r : SymbolMap.file_range) : jv :=
  JArr [JNum (SymbolMap.fr_file r); JNum (SymbolMap.fr_lo r); JNum (SymbolMap.fr_hi r)].
Definition j_pair (p : N * N) : jv := JArr [JNum (fst p); JNum (snd p)].

Definition err_string (e : SymbolMap.sm_error) : string :=
  match e with
  | SymbolMap.EInvalidId _ => "invalid id" | SymbolMap.EIntervalEmpty => "interval empty"
  | SymbolMap.EAnonymousNotDef => "anonymous not def" | SymbolMap.ENoCursor => "no cursor"
  | SymbolMap.EIdMismatch => "id mismatch" | SymbolMap.EOutOfFuel => "out of fuel"
  end.
Definition j_sres {A} (f : A -> jv) (r : SymbolMap.sres A) : jv :=
  match r with SymbolMap.SOk a => f a | SymbolMap.SErr e => JObj [("panic", JLit (err_string e))] end.

Definition dk_string (k : Outline.ds_kind) : string :=
  match k with
  | Outline.DKClass => "Class" | Outline.DKTemplateArgument => "TemplateArgument" | Outline.DKField => "Field"
  | Outline.DKDef => "Def" | Outline.DKVariable => "Variable" | Outline.DKDefset => "Defset"
  | Outline.DKMulticlass => "Multiclass"
  end.
Fixpoint j_docsym (d : Outline.docsym) : jv :=
  match d with
  | Outline.DocSym nm typ lo hi k ch =>
      JObj [("name", JStr nm); ("typ", JStr typ); ("range", JArr [JNum lo; JNum hi]); ("kind", JLit (dk_string k));
            ("children", JArr (map j_docsym ch))]
  end.

Definition j_doc (d : DocComments.doc_result) : jv :=
  match d with DocComments.DocSome t => JStr t | DocComments.DocNone => JNull | DocComments.DocOutOfFuel => JLit "OOF" end.
Definition j_hover (h : text * DocComments.doc_result) : jv := JObj [("sig", JStr (fst h)); ("doc", j_doc (snd h))].

Definition ik_string (k : item_kind) : string :=
  match k with IKKeyword => "Keyword" | IKType => "Type" | IKClass => "Class" end.
Definition j_item (i : comp_item) : jv :=
  let '(label, snip, k) := i in JArr [JStr label; j_opt JStr snip; JLit (ik_string k)].

Definition j_hint (h : Outline.hint) : jv :=
  JArr [JNum (Outline.h_pos h); JStr (Outline.h_label h);
        JLit (match Outline.h_kind h with Outline.HKTemplateArg => "TemplateArg" | Outline.HKFieldLet => "FieldLet" end)].

Definition dkind_string (k : dkind) : string :=
  match k with
  | DClassNotFound => "ClassNotFound" | DMulticlassNotFound => "MulticlassNotFound"
  | DSymbolNotFound => "SymbolNotFound" | DIncludeNotFound => "IncludeNotFound" | DSelfInherit => "SelfInherit"
  | DTooManyArgs => "TooManyArgs" | DArgOnce => "ArgOnce" | DArgNotExist => "ArgNotExist" | DArgType => "ArgType"
  | DArgMissing => "ArgMissing" | DNamedArgBad => "NamedArgBad" | DFieldIncompat => "FieldIncompat"
  | DCannotAccessField => "CannotAccessField" | DExpectAnnot => "ExpectAnnot" | DUnexpectAnnot => "UnexpectAnnot"
  | DArity => "Arity" | DOperand => "Operand" | DSyntax => "Syntax"
  end.
(** [lo, hi, "parse", message] / [lo, hi, "index", class] *)
Definition j_diag (d : N * N * dmsg) : jv :=
  let '(lo, hi, m) := d in
  match m with
  | DParse pm => JArr [JNum lo; JNum hi; JLit "parse"; JLit (msg_text pm)]
  | DIndex k => JArr [JNum lo; JNum hi; JLit "index"; JLit (dkind_string k)]
  end.

(** "/a/b.td" *)
Definition path_text (p : fpath) : text := flat_map (fun c => 47 :: c) p.

(** the per-offset entry of idedump ("def", "refs", "hover", "comp", "compbang"), plus the definition / references of the
    symbol-map model on the joined state *)
Definition bang : text := [33].
Definition j_at (A : all_answers) (f p : N) : jv :=
  JObj [("def", j_opt j_rng (q_goto A f p));
        ("refs", j_opt (j_list j_rng) (q_references A f p));
        ("hover", j_sres (j_opt j_hover) (q_hover A f p));
        ("comp", j_opt (j_list j_item) (q_completion A f p None));
        ("compbang", j_opt (j_list j_item) (q_completion A f p (Some bang)));
        ("def_sm", j_sres (j_opt j_fr) (q_goto_sm A f p));
        ("refs_sm", j_sres (j_opt (j_list j_fr)) (q_references_sm A f p))].

(** every char-boundary offset 0..=len of a text *)
Fixpoint char_offsets_from (o : N) (t : text) : list N :=
  match t with [] => [o] | c :: r => o :: char_offsets_from (o + utf8_len c) r end.
Definition file_offsets (A : all_answers) (f : N) : list N :=
  match nth_error (an_files (aa_an A)) (N.to_nat f) with
  | Some fp => char_offsets_from 0 (pf_text (snd fp))
  | None => []
  end.
Definition j_at_file (A : all_answers) (f : N) : list (N * jv) := map (fun p => (p, j_at A f p)) (file_offsets A f).

Definition file_numbers (A : all_answers) : list N := map fst (number_from 0 (an_files (aa_an A))).

Definition j_whole (A : all_answers) : jv :=
  let fs := file_numbers A in
  JObj [("files", JArr (map (fun fp : N * pfile => JStr (path_text (pf_path (snd fp)))) (an_files (aa_an A))));
        ("lens", JArr (map (fun fp : N * pfile => JNum (pf_len (snd fp))) (an_files (aa_an A))));
        ("sm_ok", JBool (aa_sm_ok A));
        ("closed", JBool (SymbolClosed.sm_closedb (aa_sm A)));
        ("bad", JBool (s_bad (aa_st A)));
        ("diagnostics", JArr (map (fun f => j_opt (j_list j_diag) (q_diagnostics A f)) fs));
        ("symbols", JArr (map (fun f => j_sres (j_opt (j_list j_docsym)) (q_outline A f)) fs));
        ("folding", JArr (map (fun f => j_opt (j_list j_pair) (q_folding A f)) fs));
        ("links", JArr (map (fun f => j_opt (j_list (fun l : N * N * N => JArr [JNum (fst (fst l)); JNum (snd (fst l)); JNum (snd l)]))
                                           (q_links A f)) fs))].

Definition j_hints (A : all_answers) (f lo hi : N) : jv :=
  JArr [JNum f; JNum lo; JNum hi; j_sres (j_opt (j_list j_hint)) (q_inlay A f lo hi)].

(** the file number of an input path *)
Fixpoint path_eqb (a b : fpath) : bool :=
  match a, b with
  | [], [] => true
  | x :: a', y :: b' => list_eqb x y && path_eqb a' b'
  | _, _ => false
  end.
Definition file_number (A : all_answers) (path : text) : option N :=
  let p := components path in
  (fix go (l : list (N * pfile)) (k : N) : option N :=
     match l with
     | [] => None
     | fp :: r => if path_eqb (pf_path (snd fp)) p then Some k else go r (k + 1)
     end) (an_files (aa_an A)) 0.
