(** The ranges and identifiers a CoreAst carries (specification-level collectors used by the statements of
    proofs/BridgeProofs.v): [PR r] = a range the indexer may use for a diagnostic or a symbol location,
    [PI i] = an identifier occurrence (range + name).  Executable definitions only. *)
From Coq Require Import List NArith Bool.
From TG.Model Require Import CoreAst.
Import ListNotations.
Open Scope N_scope.

Inductive part : Type := PR (r : rng) | PI (i : ident).

Fixpoint ty_parts (t : ty) : list part :=
  match t with
  | TyList t' => ty_parts t'
  | TyClass i => [PI i]
  | _ => []
  end.

Definition suffix_parts (s : suffix) : list part :=
  match s with
  | SufField i r => [PI i; PR r]
  | _ => []
  end.

Fixpoint value_parts (v : value) : list part :=
  match v with
  | Val r inners => PR r :: flat_map inner_parts inners
  end
with inner_parts (x : inner) : list part :=
  match x with
  | Inner s sufs => simple_parts s ++ flat_map suffix_parts sufs
  end
with simple_parts (s : simple) : list part :=
  match s with
  | SBits vs | SList vs | SDag vs | SCond vs => flat_map value_parts vs
  | SId i => [PI i]
  | SClassVal i a r => PI i :: PR r :: flat_map arg_parts a
  | SBang _ annot vs r =>
      PR r :: match annot with Some (t, tr) => PR tr :: ty_parts t | None => [] end ++ flat_map value_parts vs
  | _ => []
  end
with arg_parts (a : arg) : list part :=
  match a with
  | APos v r | ANamed _ v r => PR r :: value_parts v
  | ANamedBad r => [PR r]
  end.

Definition opt_parts {A : Type} (f : A -> list part) (o : option A) : list part :=
  match o with Some a => f a | None => [] end.

Definition classref_parts (c : classref) : list part :=
  match c with CRef i a r => PI i :: PR r :: flat_map arg_parts a end.
Definition targ_parts (a : targ) : list part :=
  match a with TArg t i d => ty_parts t ++ PI i :: opt_parts value_parts d end.
Definition item_parts (it : item) : list part :=
  match it with
  | IField t i v => ty_parts t ++ PI i :: opt_parts value_parts v
  | ILet i v | IDefvar i v => PI i :: value_parts v
  | IAssert c m => value_parts c ++ value_parts m
  | IDump v => value_parts v
  end.

Fixpoint stmt_parts (s : stmt) : list part :=
  match s with
  | SInclude r _ => [PR r]
  | SAssert c m => value_parts c ++ value_parts m
  | SClass i ta ps b =>
      PI i :: opt_parts (flat_map targ_parts) ta ++ flat_map classref_parts ps ++ flat_map item_parts b
  | SDef nm r ps b =>
      opt_parts value_parts nm ++ PR r :: flat_map classref_parts ps ++ flat_map item_parts b
  | SDefm nm r ps => opt_parts value_parts nm ++ PR r :: flat_map classref_parts ps
  | SDefset t i b => ty_parts t ++ PI i :: flat_map stmt_parts b
  | SDefvar i v => PI i :: value_parts v
  | SDump v => value_parts v
  | SForeach i init b =>
      PI i :: match init with FeRange => [] | FeValue v => value_parts v end ++ flat_map stmt_parts b
  | SIf c th el => value_parts c ++ flat_map stmt_parts th ++ opt_parts (flat_map stmt_parts) el
  | SLet vs b => flat_map value_parts vs ++ flat_map stmt_parts b
  | SMulticlass i ta ps b =>
      PI i :: opt_parts (flat_map targ_parts) ta ++ flat_map classref_parts ps ++ flat_map stmt_parts b
  end.

(** all ranges (identifier ranges included) and all identifiers of a file *)
Definition part_rng (p : part) : rng := match p with PR r => r | PI i => i_rng i end.
Definition file_rngs (ss : list stmt) : list rng := map part_rng (flat_map stmt_parts ss).
Definition file_idents (ss : list stmt) : list ident :=
  flat_map (fun p => match p with PI i => [i] | PR _ => [] end) (flat_map stmt_parts ss).

(** the include targets (file numbers) a statement list refers to *)
Fixpoint stmt_targets (s : stmt) : list N :=
  match s with
  | SInclude _ (Some g) => [g]
  | SDefset _ _ b | SForeach _ _ b | SLet _ b | SMulticlass _ _ _ b => flat_map stmt_targets b
  | SIf _ th el => flat_map stmt_targets th ++ match el with Some e => flat_map stmt_targets e | None => [] end
  | _ => []
  end.
Definition file_targets (ss : list stmt) : list N := flat_map stmt_targets ss.
