(** M-handlercompapi (group outline): the vocabulary of coq/gen/GenHandlersCompletion.v, the rendering of the BODY of
    handlers/completion.rs `exec` (context dispatch).  The four vocabulary methods of `CompletionContext` and `complete_classes` are
    NOT rendered here: they are the item tables / format constants that group grammar's t_completion.py reads
    (GenCompletion.v, Completion.v); a call `ctx.complete_x()` is `ctx ++ <that table>`. *)
From Coq Require Import List NArith Bool String.
From TG.Gen Require Import GenTokens GenCompletion GenAst.
From TG.Model Require Import Chars Tree TreeNav SymbolMap HandlerApi HandlerSymApi Completion.
Import ListNotations.
Close Scope string_scope.
Open Scope N_scope.

(** `root.token_at_offset(off).left_biased()`: the first non-empty leaf whose range [lo, hi] contains [off] (rowan skips empty
    children), as a cursor -- the zipper version of Completion.anc_at *)
Fixpoint tok_at (fuel : nat) (off base : N) (t : tree) (ctx : list frame) : option cursor :=
  match fuel with
  | O => None
  | S n =>
    match t with
    | Tok _ txt => if (negb (bytes txt =? 0)) && (base <=? off) && (off <=? base + bytes txt) then Some (t, ctx) else None
    | Node k cs =>
        (fix go (b : N) (left_rev : list tree) (l : list tree) : option cursor :=
           match l with
           | [] => None
           | c :: r =>
               let len := tree_len c in
               if (negb (len =? 0)) && (b <=? off) && (off <=? b + len) then tok_at n off b c (mkFrame k left_rev r :: ctx)
               else go (b + len) (c :: left_rev) r
           end) base [] cs
    end
  end.
(** on a root node *)
Definition rw_token_at_offset_left (c : cursor) (off : N) : option cursor :=
  tok_at (S (tree_depth (fst c))) off 0 (fst c) (snd c).

Definition ast_type_can_cast (k : SyntaxKind) : bool := existsb (sk_eqb k) (ast_enum_kinds "Type"%string).
Definition opt_text_eqb (a b : option text) : bool :=
  match a, b with Some x, Some y => list_eqb x y | None, None => true | _, _ => false end.

(** the classes `complete_classes` iterates over: `symbol_map.iter_class()` = the values of `name_to_class` (a HashMap: the
    order is unspecified; the association-list order is used here), each looked up in the record arena *)
Definition cm_classes (S : symbol_map) : list class_sym :=
  flat_map (fun id => match get_entry S (KRecord, id) with
                      | Some e => [{| cs_name := e_name e; cs_ntargs := List.length (p_targs (e_payload e)) |}]
                      | None => []
                      end) (amap_values (sm_name_to_class S)).
