(** M-server (a): the publication protocol of crates/lsp/src/server.rs (C11) and the plumbing between the
    ide-level results and the LSP values sent to the client (C09).

    Part 1 (C11).  Server::{did_open, did_change, update_diagnostics, bump_diagnostic_version}: every
    notification reads the counter [diagnostic_version] (the value BEFORE the increment is the version of
    the task) and spawns a task that publishes one notification per file of the diagnostic map of its
    snapshot, plus an empty list for every file that is in [published_files] but not in the map, and then
    replaces [published_files] by the key set of the map.  Here the tasks run one after the other in spawn
    order; that this is what every schedule of the concurrent server produces is theorem [pub_trace] of
    SchedProofs.v (a diagnostics task is spawned only after a salsa write, which waits for every earlier task).
    The order of the notifications of ONE task is the iteration order of a HashMap: the model fixes one order;
    the statements below are per file, and the check compares per task as a multiset.

    Part 2 (C09).  Which LineIndex each handler uses and what to_proto::{location, range, diagnostic,
    document_symbol, folding_range, inlay_hint, document_link} do with it, over the model of line_index.rs /
    to_proto.rs in LineIndex.v.  Executable definitions only; proofs in proofs/ServerProofs.v. *)
From Coq Require Import List Bool Arith NArith.
From TG.Model Require Import Chars LineIndex Sched.
Import ListNotations.

Set Implicit Arguments.

Definition file := nat.                       (* FileId *)

(* ------------------------------------------------------------------------------------------ *)
(** * 1. Publication protocol *)

Section Proto.
Context {D : Type}.                           (* one converted diagnostic *)

Definition dmap := list (file * list D).      (* Analysis::diagnostics(): one entry per file of the workspace *)

Record pub := mkPub { pfile : file; pdiags : list D; pver : nat }.
Record server := mkServer { version : nat; published : list file }.
Definition init_server : server := mkServer 0 [].

Definition keys (m : dmap) : list file := map fst m.
Definition memb (f : file) (l : list file) : bool := existsb (Nat.eqb f) l.

(** published_files.difference(&current_files) *)
Definition left_files (pubd : list file) (m : dmap) : list file :=
  filter (fun f => negb (memb f (keys m))) pubd.

(** the notifications of one diagnostics task *)
Definition task_pubs (pubd : list file) (m : dmap) (v : nat) : list pub :=
  map (fun e => mkPub (fst e) (snd e) v) m ++ map (fun f => mkPub f [] v) (left_files pubd m).

(** before fix 3457fbf: no record of what was published *)
Definition task_pubs_old (pubd : list file) (m : dmap) (v : nat) : list pub :=
  map (fun e => mkPub (fst e) (snd e) v) m.

Definition notify (sv : server) (m : dmap) : server * list pub :=
  (mkServer (S (version sv)) (keys m), task_pubs (published sv) m (version sv)).
Definition notify_old (sv : server) (m : dmap) : server * list pub :=
  (mkServer (S (version sv)) (keys m), task_pubs_old (published sv) m (version sv)).

Fixpoint run_server (sv : server) (h : list dmap) : server :=
  match h with [] => sv | m :: r => run_server (fst (notify sv m)) r end.

(** everything published for a history of notifications (the diagnostic map of the snapshot taken after each) *)
Fixpoint publications (sv : server) (h : list dmap) : list pub :=
  match h with [] => [] | m :: r => snd (notify sv m) ++ publications (fst (notify sv m)) r end.
Fixpoint publications_old (sv : server) (h : list dmap) : list pub :=
  match h with [] => [] | m :: r => snd (notify_old sv m) ++ publications_old (fst (notify_old sv m)) r end.

(** the client's view: the most recent publication for a file *)
Definition last_pub (f : file) (l : list pub) : option pub := find (fun p => Nat.eqb (pfile p) f) (rev l).

(** messages handled by the main loop, and the corresponding scripts of the lock-protocol LTS *)
Inductive msg := MsgNotif (k : nat) (m : dmap) | MsgReq (kd : kind).

Fixpoint items_of (sv : server) (msgs : list msg) : list (item pub) :=
  match msgs with
  | [] => []
  | MsgNotif k m :: r => INotif k (snd (notify sv m)) :: items_of (fst (notify sv m)) r
  | MsgReq kd :: r => IReq kd :: items_of sv r
  end.

Fixpoint history (msgs : list msg) : list dmap :=
  match msgs with [] => [] | MsgNotif _ m :: r => m :: history r | MsgReq _ :: r => history r end.

End Proto.

Arguments pub : clear implicits.
Arguments dmap : clear implicits.
Arguments msg : clear implicits.

(* ------------------------------------------------------------------------------------------ *)
(** * 2. Location plumbing *)

Open Scope N_scope.

Definition rng := (N * N)%type.               (* TextRange: byte offsets *)
Definition lpos := (N * N)%type.              (* lsp_types::Position: line, UTF-16 column *)
Definition lrange := (lpos * lpos)%type.

Fixpoint mapM {A B : Type} (f : A -> res B) (l : list A) : res (list B) :=
  match l with
  | [] => Ok []
  | x :: r => y <- f x ;; ys <- mapM f r ;; Ok (y :: ys)
  end.

Section Loc.
Variable content : file -> text.              (* salsa input file_content of the snapshot *)

(** db.line_index(file_id) = LineIndex::new(&db.file_content(file_id)) *)
Definition line_index (f : file) : res LineIndex := li_new (content f).

(** to_proto::location: the URI is UrlExt::from_file_path(vfs.path_for_file(file)); URIs are identified
    with file ids (the file set is a bijection between ids and paths) *)
Definition location (li : LineIndex) (fr : file * rng) : res (file * lrange) :=
  r <- to_proto_range li (snd fr) ;; Ok (fst fr, r).

(** server.rs definition (after fix 5c4888d): the index of the file the location names *)
Definition h_definition (reqf : file) (result : option (file * rng)) : res (option (file * lrange)) :=
  _ <- line_index reqf ;;                                   (* from_proto::file_pos *)
  match result with
  | None => Ok None
  | Some loc => li <- line_index (fst loc) ;; l <- location li loc ;; Ok (Some l)
  end.

(** before the fix: the requesting file's index *)
Definition h_definition_old (reqf : file) (result : option (file * rng)) : res (option (file * lrange)) :=
  li <- line_index reqf ;;
  match result with
  | None => Ok None
  | Some loc => l <- location li loc ;; Ok (Some l)
  end.

Definition h_references (reqf : file) (result : option (list (file * rng))) : res (option (list (file * lrange))) :=
  _ <- line_index reqf ;;
  match result with
  | None => Ok None
  | Some locs => ls <- mapM (fun it => li <- line_index (fst it) ;; location li it) locs ;; Ok (Some ls)
  end.

Definition h_references_old (reqf : file) (result : option (list (file * rng))) : res (option (list (file * lrange))) :=
  li <- line_index reqf ;;
  match result with
  | None => Ok None
  | Some locs => ls <- mapM (location li) locs ;; Ok (Some ls)
  end.

(** document symbols: a tree of ranges (names, kinds, details are copied verbatim) *)
Inductive dsym := DSym (r : rng) (children : list dsym).
Inductive lsym := LSym (r sel : lrange) (children : list lsym).

Fixpoint document_symbol (li : LineIndex) (s : dsym) : res lsym :=
  match s with
  | DSym r ch =>
    lr <- to_proto_range li r ;;
    ch' <- (fix go (l : list dsym) : res (list lsym) :=
              match l with
              | [] => Ok []
              | x :: xs => y <- document_symbol li x ;; ys <- go xs ;; Ok (y :: ys)
              end) ch ;;
    Ok (LSym lr lr ch')
  end.

Definition h_document_symbol (f : file) (result : option (list dsym)) : res (option (list lsym)) :=
  li <- line_index f ;;                                     (* from_proto::file *)
  match result with None => Ok None | Some l => r <- mapM (document_symbol li) l ;; Ok (Some r) end.

(** to_proto::folding_range: start_line / end_line only (the model of the lines group, rendered from the source by
    t_lineindex.py) *)
Definition folding_range (li : LineIndex) (r : rng) : res (N * N) := to_proto_folding_range li r.

Definition h_folding_range (f : file) (result : option (list rng)) : res (option (list (N * N))) :=
  li <- line_index f ;;
  match result with None => Ok None | Some l => r <- mapM (folding_range li) l ;; Ok (Some r) end.

(** to_proto::inlay_hint: the position (labels copied verbatim) *)
Definition h_inlay_hint (f : file) (result : option (list N)) : res (option (list lpos)) :=
  li <- line_index f ;;                                     (* from_proto::file_range *)
  match result with None => Ok None | Some l => r <- mapM (to_proto_position li) l ;; Ok (Some r) end.

(** to_proto::document_link: range in the requested file, target = URI of the linked file *)
Definition document_link (li : LineIndex) (l : rng * file) : res (lrange * file) :=
  r <- to_proto_range li (fst l) ;; Ok (r, snd l).

Definition h_document_link (f : file) (result : option (list (rng * file))) : res (option (list (lrange * file))) :=
  li <- line_index f ;;
  match result with None => Ok None | Some l => r <- mapM (document_link li) l ;; Ok (Some r) end.

(** update_diagnostics: each entry of the map is converted with the index of ITS file and sent under its URI *)
Section Diag.
Context {M : Type}.                           (* message text *)
Definition diagnostic (li : LineIndex) (d : rng * M) : res (lrange * M) :=
  r <- to_proto_range li (fst d) ;; Ok (r, snd d).
Definition h_diagnostics_entry (e : file * list (rng * M)) : res (file * list (lrange * M)) :=
  li <- line_index (fst e) ;; ds <- mapM (diagnostic li) (snd e) ;; Ok (fst e, ds).
Definition h_diagnostics (dm : list (file * list (rng * M))) : res (list (file * list (lrange * M))) :=
  mapM h_diagnostics_entry dm.
End Diag.

(** ** what "denotes the analysed span" means (specification side: LineIndex.pos_of) *)
Definition spec_range (f : file) (r : rng) : lrange := (pos_of (content f) (fst r), pos_of (content f) (snd r)).
Definition spec_lines (f : file) (r : rng) : N * N := (fst (pos_of (content f) (fst r)), fst (pos_of (content f) (snd r))).
Fixpoint spec_symbol (f : file) (s : dsym) : lsym :=
  match s with DSym r ch => LSym (spec_range f r) (spec_range f r) (map (spec_symbol f) ch) end.

(** hypotheses of the statements: the file is below 4 GiB and the analysis returns offsets on character
    boundaries of the file the result names (C17) *)
Definition small (f : file) : Prop := bytes (content f) <= u32_max.
Definition range_ok (f : file) (r : rng) : Prop :=
  on_char_boundary (content f) (fst r) /\ on_char_boundary (content f) (snd r).
Fixpoint sym_ok (f : file) (s : dsym) : Prop :=
  match s with DSym r ch => range_ok f r /\ (fix all (l : list dsym) : Prop :=
                                               match l with [] => True | x :: xs => sym_ok f x /\ all xs end) ch end.

End Loc.
