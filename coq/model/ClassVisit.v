(** ClassVisit (group symmap): which classes a Core workspace DECLARES, read off the typed AST alone (specification side
    of C20's class clause at pipeline level; the names of the CoreAst are the texts of identifier tokens by the bridge).
    [cvisit] follows the statements in the order index.rs visits them:
    - an `include` enters the target file the first time it is met (indexed-once guard);
    - a `class` statement declares a class; its template parameters are the DISTINCT names of those template-argument
      declarations whose type resolves (a template argument whose type names an undeclared class is dropped by the `?`
      of TemplateArgDecl::index; the class itself is already declared while its parameters are read);
    - the body of a defset whose type names an undeclared class is skipped (the `?` of Defset::index);
    - foreach / if (both branches) / let / multiclass bodies are visited.
    A later declaration of the same name replaces the earlier one ([last_decl]: the list is newest first).
    Executable definitions only. *)
From Coq Require Import List NArith Bool.
From TG.Model Require Import CoreAst Scope.
Import ListNotations.
Open Scope N_scope.

Definition known (nm : name) (l : list name) : bool := existsb (name_eqb nm) l.
Fixpoint ty_known (kn : list name) (t : ty) : bool :=
  match t with TyList e => ty_known kn e | TyClass i => known (i_name i) kn | _ => true end.
(** IndexMap::insert on the key list: a new key goes to the end, an existing key keeps its place *)
Definition kins (k : name) (keys : list name) : list name := if known k keys then keys else keys ++ [k].
Definition reg_targs (kn : list name) (targs : option (list targ)) : list name :=
  match targs with
  | None => []
  | Some l => fold_left (fun acc a => match a with TArg t i _ => if ty_known kn t then kins (i_name i) acc else acc end) l []
  end.

(** indexed files; declared classes, newest first, each with its registered template-parameter names *)
Record cvst := mkCV { cv_indexed : list N; cv_classes : list (name * list name) }.

Section Visit.
  Variable files : list (list stmt).
  Fixpoint cvisit (fuel : nat) (x : stmt) (v : cvst) : cvst :=
    match fuel with
    | O => v
    | S n =>
      let many := fun (b : list stmt) (v : cvst) => fold_left (fun a y => cvisit n y a) b v in
      match x with
      | SInclude _ None => v
      | SInclude _ (Some g) =>
          if existsb (N.eqb g) (cv_indexed v) then v
          else let v1 := mkCV (g :: cv_indexed v) (cv_classes v) in
               match nthN files g with
               | None => v1
               | Some body => many body v1
               end
      | SClass i targs _ _ =>
          mkCV (cv_indexed v) ((i_name i, reg_targs (i_name i :: map fst (cv_classes v)) targs) :: cv_classes v)
      | SDefset t _ b => if ty_known (map fst (cv_classes v)) t then many b v else v
      | SMulticlass _ _ _ b | SForeach _ _ b | SLet _ b => many b v
      | SIf _ th el => match el with Some e => many e (many th v) | None => many th v end
      | SAssert _ _ | SDef _ _ _ _ | SDefm _ _ _ | SDefvar _ _ | SDump _ => v
      end
    end.
End Visit.

Definition cv0 : cvst := mkCV [0] [].
Definition cvisit_ws (w : workspace) : cvst :=
  match ws_files w with
  | [] => cv0
  | root :: _ => fold_left (fun a y => cvisit (ws_files w) (ws_fuel w) y a) root cv0
  end.

(** (name, number of template parameters) of every class declaration, newest first *)
Definition declared_classes (w : workspace) : list (name * nat) :=
  map (fun c => (fst c, length (snd c))) (cv_classes (cvisit_ws w)).
(** the last declaration of a name wins *)
Definition last_decl (n : name) (l : list (name * nat)) : option nat := alookup n l.
