(** M-pipeline: the whole analysis of a workspace, end to end inside Coq:

      texts --raw_lex / prep / parse_with grammar_prog--> trees            (Lexer, Prep, ParserPrims, GInterp, GenGrammar)
            --list_includes / collect_sources-----------> workspace files, include maps, document links
                                                                           (Includes.v, Host.v over the trees)
            --core_of_tree (generated accessor table)---> CoreAst.workspace (AstToCore.v over GenAst.v)
            --index_ws / diagnostics / goto_definition--> answers           (Scope.v, BangOps.v, Indexer.v)

    It mirrors `fn run` of harness/src/bin/coreast.rs (MemFs + AnalysisHost::set_file_content +
    set_root_file, files numbered by ascending FileId, per-file links from Analysis::document_link)
    followed by what coq/extract/scope_driver.ml does with the serialisation.  Executable definitions only. *)
From Coq Require Import List NArith Bool String.
From TG.Gen Require Import GenTokens GenAst GenGrammar.
From TG.Model Require Import Chars Lexer Prep Tree ParserPrims GInterp AstAccess.
From TG.Model Require Includes Host.
From TG.Model Require Import CoreAst AstToCore Scope Indexer.
Import ListNotations.
Close Scope string_scope.
Open Scope N_scope.
Open Scope list_scope.

(** * Paths: std::path::PathBuf compared by components *)
Definition fpath : Type := list text.                     (* the normal components of an absolute path *)

(** split at '/', dropping empty and "." components (Path::components) *)
Fixpoint split_slash (cur : text) (s : text) : list text :=
  match s with
  | [] => [rev cur]
  | c :: r => if c =? 47 then rev cur :: split_slash [] r else split_slash (c :: cur) r
  end.
Definition is_normal_seg (s : text) : bool :=
  match s with
  | [] => false
  | [46] => false
  | _ => true
  end.
Definition components (s : text) : fpath := filter is_normal_seg (split_slash [] s).
Definition is_absolute (s : text) : bool := match s with 47 :: _ => true | _ => false end.

Fixpoint fpath_eqb (a b : fpath) : bool :=
  match a, b with
  | [], [] => true
  | x :: a', y :: b' => list_eqb x y && fpath_eqb a' b'
  | _, _ => false
  end.

(** FilePath::parent / FilePath::join (PathBuf::join: an absolute argument replaces the base) *)
Global Instance FPathAlg : Includes.PathAlg fpath text :=
  {| Includes.path_eqb := fpath_eqb;
     Includes.parent := fun p => match p with [] => None | _ => Some (removelast p) end;
     Includes.join := fun d s => if is_absolute s then components s else d ++ components s |}.

(** * One parsed file *)
Record pfile : Type := mkPf {
  pf_path : fpath;
  pf_text : text;
  pf_out : parse_out                                      (* syntax::parse *)
}.
Definition pf_len (p : pfile) : N := bytes (pf_text p).   (* byte length of the text *)
Definition parse_file (pfuel : nat) (path : fpath) (txt : text) : pfile :=
  mkPf path txt (parse_with pfuel grammar_prog grammar_entry txt).

Definition pf_tree (p : pfile) : option tree :=
  match pf_out p with ParseOk t _ _ => Some t | _ => None end.
Definition pf_errors (p : pfile) : list (N * N * parse_msg) :=
  match pf_out p with ParseOk _ es _ => es | _ => [] end.

(** utils::range_excluding_trivia(node): from the node start to the end of its last non-trivia, non-empty token
    (the same definition as Folding.range_excluding_trivia of group outline; BridgeText.link_range_folding) *)
Fixpoint last_sig (ls : list (SyntaxKind * N * N * text)) (acc : option N) : option N :=
  match ls with
  | [] => acc
  | (k, lo, hi, _) :: r => last_sig r (if negb (sk_is_trivia k) && negb (lo =? hi) then Some hi else acc)
  end.
Definition range_excluding_trivia (off : N) (t : tree) : N * N :=
  (off, match last_sig (leaves_from off t) None with Some hi => hi | None => off end).

(** the items of file_system.rs::list_includes / handlers/document_link.rs: the Include descendants in
    document order with the include string (String::value) and the link range (range_excluding_trivia of
    the path node); both go through the generated accessor [path] *)
Definition include_items (t : tree) : list (Includes.item text) :=
  flat_map (fun d : N * N * tree =>
              let '(lo, hi, n) := d in
              if sk_eqb (kind_of n) S_Include then
                [Includes.IInc (lo, hi) true
                   match field (lo, n) "path" with
                   | [] => None
                   | s :: _ => Some (m_string_value s, range_excluding_trivia (fst s) (snd s))
                   end]
              else []) (descendants t).

(** list_includes starts with SourceFile::cast(root)?: a tree whose root is not a SourceFile has no includes *)
Definition content_of (tag : N) (p : pfile) : Includes.content text :=
  {| Includes.c_tag := tag;
     Includes.c_items := match pf_tree p with
                         | Some t => if sk_eqb (kind_of t) S_SourceFile then include_items t else []
                         | None => []
                         end |}.

Fixpoint number_from {A : Type} (k : N) (l : list A) : list (N * A) :=
  match l with [] => [] | x :: r => (k, x) :: number_from (k + 1) r end.

(** * The analysis *)
Record analysis : Type := mkAn {
  an_files : list (N * pfile);                  (* workspace files by ascending FileId; position = file number *)
  an_perrs : list (N * N * N * parse_msg);      (* (file number, lo, hi, message) of every parse error *)
  an_cores : list (res (list stmt));            (* per file, in file-number order *)
  an_core : res workspace;                      (* Err = coreast.rs "noncore": the first file that fails *)
  an_shape : bool                               (* AstToCore.ident_shape holds for every tree (checked hypothesis
                                                   of BridgeProofs.core_idents_are_id_tokens) *)
}.

Fixpoint insert_sorted (f : N) (l : list N) : list N :=
  match l with
  | [] => [f]
  | g :: r => if f <=? g then f :: l else g :: insert_sorted f r
  end.
Definition sort_ids (l : list N) : list N := fold_right insert_sorted [] l.

Fixpoint index_of (f : N) (l : list N) (k : N) : option N :=
  match l with
  | [] => None
  | g :: r => if g =? f then Some k else index_of f r (k + 1)
  end.

Fixpoint firstErr {A : Type} (l : list (res A)) : res (list A) :=
  match l with
  | [] => Ok []
  | Ok a :: r => match firstErr r with Ok l' => Ok (a :: l') | Err e => Err e | Fuel => Fuel end
  | Err e :: _ => Err e
  | Fuel :: _ => Fuel
  end.

(** the links of file [f] as coreast.rs computes them: Analysis::document_link, targets renumbered by position
    in the sorted id list (links to files outside the workspace are dropped: `num.get(&l.target)`) *)
Definition links_for (ids : list N) (doclinks : N -> list (Includes.rng * N)) (f : N) : list (N * N * N) :=
  flat_map (fun lt : Includes.rng * N =>
              match index_of (snd lt) ids 0 with
              | Some k => [(fst (fst lt), snd (fst lt), k)]
              | None => []
              end) (doclinks f).

Definition core_of_pfile (ids : list N) (doclinks : N -> list (Includes.rng * N)) (kfp : N * (N * pfile)) : res (list stmt) :=
  match pf_tree (snd (snd kfp)) with
  | Some t => core_of_tree (fst kfp) (links_for ids doclinks (fst (snd kfp))) t
  | None => Err "parser panic or out of fuel"%string
  end.

(** the per-file loop of `fn run` and the final assembly: [ids] = the workspace's FileIds in ascending order,
    [wsf] = (FileId, parsed file) in the same order *)
Definition assemble (ids : list N) (doclinks : N -> list (Includes.rng * N)) (wsf : list (N * pfile)) : analysis :=
  let cores := map (core_of_pfile ids doclinks) (number_from 0 wsf) in
  let perrs := flat_map (fun kfp : N * (N * pfile) =>
                           map (fun e : N * N * parse_msg => (fst kfp, fst (fst e), snd (fst e), snd e))
                               (pf_errors (snd (snd kfp)))) (number_from 0 wsf) in
  mkAn wsf perrs cores
       (match firstErr cores with
        | Ok fl => Ok (mkWs fl (map (fun e => mkR (fst (fst (fst e))) (snd (fst (fst e))) (snd (fst e))) perrs))
        | Err e => Err e
        | Fuel => Fuel
        end)
       (forallb (fun fp : N * pfile => match pf_tree (snd fp) with Some t => ident_shape t | None => true end) wsf).

Fixpoint all_some {A : Type} (l : list (option A)) : option (list A) :=
  match l with
  | [] => Some []
  | Some a :: r => match all_some r with Some r' => Some (a :: r') | None => None end
  | None :: _ => None
  end.

(** [analyze pfuel cfuel files root]: [files] = the in-memory disk (path string, text), [root] the root path
    string; [pfuel] bounds the parser's interpreter, [cfuel] the number of files collect_sources visits.
    [None] = a modelled panic of the host layer (salsa input read before it was set, no parent directory) or
    [cfuel] too small. *)
Definition analyze (pfuel cfuel : nat) (files : list (text * text)) (root : text) : option analysis :=
  let parsed : list pfile := map (fun pt => parse_file pfuel (components (fst pt)) (snd pt)) files in
  let tagged := number_from 0 parsed in
  let disk_files := map (fun tp => (pf_path (snd tp), content_of (fst tp) (snd tp))) tagged in
  let w : Includes.world fpath text := {| Includes.disk := fun p => Includes.assoc p disk_files; Includes.extra := [] |} in
  let rootp := components root in
  (* fs.id(root); host.set_file_content(root_id, contents[root] or ""); host.set_root_file(&mut fs, root_id):
     Host.touch on the initial state (its set_open of the root's own content changes nothing: the only path it
     overlays is the root's, with the content the disk has for it, or with the empty text of an absent root,
     which includes nothing) *)
  let root_content := match Includes.assoc rootp disk_files with
                      | Some c => c
                      | None => {| Includes.c_tag := N.of_nat (List.length files); Includes.c_items := [] |}
                      end in
  match Host.touch cfuel w Host.st_init rootp root_content with
  | Includes.Done (fs2, db2) =>
      match Includes.sroot db2 with
      | None => None
      | Some (fset, _) =>
          let ids := sort_ids (map fst fset) in
          let pfile_of (f : N) : option (N * pfile) :=
            match Includes.fc db2 f with
            | Some c => match nth_error parsed (N.to_nat (Includes.c_tag c)) with
                        | Some p => Some (f, p)
                        | None => Some (f, parse_file pfuel rootp [])       (* a root that is not on the disk: "" *)
                        end
            | None => None                                                  (* db.parse(f) on an unset input: panic *)
            end in
          let doclinks (f : N) : list (Includes.rng * N) :=
            match Host.document_link db2 f with Includes.Done l => l | _ => [] end in
          match all_some (map pfile_of ids) with
          | Some wsf => Some (assemble ids doclinks wsf)
          | None => None
          end
      end
  | _ => None
  end.

(** what coq/extract/scope_driver.ml `model` computes from the serialisation *)
Definition an_state (w : workspace) : st := index_ws w.
Definition an_diagnostics (w : workspace) : list (rng * dkind) := diagnostics w.
Definition an_goto (s : st) (f p : N) : option rng := goto_definition s f p.
Definition an_references (s : st) (f p : N) : option (list rng) := references s f p.
