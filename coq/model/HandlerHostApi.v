(** M-handlerhostapi (group outline): the vocabulary of coq/gen/GenHandlersHost.v, the rendering of handlers/document_link.rs `exec`
    and handlers/diagnostics.rs `exec`.  The database is the record [host_db] of the salsa queries these two handlers read
    (salsa returns the value for the current inputs: assumed, DESIGN section 2); HashMap<FileId, _> is an association list
    (iteration order of a HashMap is unspecified: the theorems speak about the per-key contents). *)
From Coq Require Import List NArith Bool String.
From TG.Gen Require Import GenTokens GenAst.
From TG.Model Require Import Chars Tree TreeNav SymbolMap Includes AstAccess HandlerApi HandlerSymApi.
Import ListNotations.
Close Scope string_scope.
Open Scope N_scope.

Definition perr : Type := (trange * text)%type.                  (* SyntaxError { range, message } *)
Definition diag : Type := (file_range * text)%type.              (* Diagnostic { location, message } *)
Definition mk_diagnostic (loc : file_range) (msg : text) : diag := (loc, msg).
Definition dg_location (d : diag) : file_range := fst d.
Definition pe_range (e : perr) : trange := fst e.
Definition pe_message (e : perr) : text := snd e.

Record host_db := mkHdb {
  hdb_rim : fileid -> list (rng * N);            (* resolved_include_map(file), insertion order (Includes.im_get) *)
  hdb_parse : fileid -> tree * list perr;        (* parse(file): syntax_node(), errors() *)
  hdb_files : list fileid;                       (* source_root().iter_files() *)
  hdb_index_diags : list diag                    (* index().diagnostics() *)
}.
Definition hdb_resolved_include_map (db : host_db) (f : fileid) : list (rng * N) := hdb_rim db f.
Definition hdb_parse_of (db : host_db) (f : fileid) : tree * list perr := hdb_parse db f.
Definition hp_syntax_node (p : tree * list perr) : cursor := cur_root (fst p).
Definition hp_errors (p : tree * list perr) : list perr := snd p.
Definition hdb_source_root (db : host_db) : list fileid := hdb_files db.
Definition hdb_index (db : host_db) : list diag := hdb_index_diags db.

(** IncludeId(SyntaxNodePtr::new(node)): kind + range of the node; the kind is Include at every use, the range identifies it *)
Definition node_ptr (c : cursor) : rng := cur_range c.
Definition incmap_get (m : list (rng * N)) (id : rng) : option N := im_get id m.
Definition mk_document_link (r : trange) (target : fileid) : rng * N := (r, target).

(** typed AST: an accessor of the GENERATED table GenAst.ast_nodes, `support::child` (first child node of the kind set) *)
Definition ast_field_child (c : cursor) (f : string) : option cursor :=
  match find (fun a => String.eqb (fst (fst a)) f) (accessors_of (kind_of (fst c))) with
  | Some a => hd_error (child_node_cursors (fun k => kind_in k (acc_kinds a)) c)
  | None => None
  end.

(** HashMap<FileId, Vec<Diagnostic>> *)
Definition dmap : Type := list (fileid * list diag).
Fixpoint hm_get (m : dmap) (k : fileid) : option (list diag) :=
  match m with [] => None | (k', v) :: r => if k' =? k then Some v else hm_get r k end.
(** `m.insert(k, v)` *)
Fixpoint hm_insert (m : dmap) (k : fileid) (v : list diag) : dmap :=
  match m with
  | [] => [(k, v)]
  | (k', v') :: r => if k' =? k then (k, v) :: r else (k', v') :: hm_insert r k v
  end.
(** `m.entry(k).or_insert_with(Vec::new).push(x)` *)
Fixpoint hm_push (m : dmap) (k : fileid) (x : diag) : dmap :=
  match m with
  | [] => [(k, [x])]
  | (k', v') :: r => if k' =? k then (k', v' ++ [x]) :: r else (k', v') :: hm_push r k x
  end.
