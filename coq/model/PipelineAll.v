(** M-pipeline-all: the COMPLETE analysis of a workspace inside Coq.  [Pipeline.analyze] goes from the texts to the
    typed AST and the indexer state; this file adds everything the nine query handlers of crates/ide read, and the
    nine answers themselves, each computed by the model of the group that owns the handler:

      goto_definition, references   Scope.goto_definition / Scope.references on Indexer.index_ws      (b-scope)
      diagnostics                   handlers/diagnostics.rs exec: every workspace file seeded with [], the parse errors
                                    of every file, then the index diagnostics, pushed per file        (parser, b-scope)
      document_symbol               Outline.document_symbol                                           (b-outline)
      hover                         Outline.hover + DocComments.extract_doc_comments                  (b-outline)
      inlay_hint                    Outline.inlay_hint                                                (b-outline)
      folding_range                 Folding.folding_model                                             (b-outline)
      document_link                 Host.document_link (renumbered as Pipeline.links_for)             (b-host)
      completion                    Completion.completion_model (HandlerCompApi.cm_classes M)         (b-grammar/b-outline)

    The symbol-table handlers read a SymbolMap.symbol_map.  No single model produced a complete one from the typed AST:
    IndexerOps.absN (b-symmap) rebuilds arenas, references, interval maps, name maps and index diagnostics from the
    indexer model's state but leaves type strings, a field's parent record, defset member lists and the per-file symbol
    lists empty; OutlineIndex.oix (b-outline) emits exactly those for records, template arguments, fields, defsets and
    multiclasses but has no variables, defms, references or value positions.  [full_state] joins the two: entry by entry,
    define_loc / reference_locs from absN, name and payload from oix (both number each arena in allocation order), the
    payload of a variable from the indexer model's inferred type through [mty_string] (= `impl Display for Type`),
    per-file symbol lists from oix (plus the variables and named defms), everything else from absN.  [aa_sm_ok] records that the arenas of the two models have
    the same shape (same length, same define_locs); tools/bridge_selftest.py compares all nine answers with the real
    Analysis at every offset.  Executable definitions only. *)
From Coq Require Import List NArith Bool String.
From TG.Gen Require Import GenTokens GenAst GenGrammar GenCompletion.
From TG.Model Require Import Chars Lexer Prep Tree ParserPrims GInterp AstAccess.
From TG.Model Require Includes Host.
From TG.Model Require Import CoreAst AstToCore Scope Indexer Pipeline.
From TG.Model Require SymbolMap IndexerOps Outline OutlineIndex DocComments Folding Completion HandlerCompApi.
Import ListNotations.
Close Scope string_scope.
Open Scope N_scope.
Open Scope list_scope.

(** * `impl Display for Type` (symbol_map/typ.rs) on the indexer model's types *)
Fixpoint mty_string (t : mty) : text :=
  match t with
  | MBit => Outline.s2n "bit" | MInt => Outline.s2n "int" | MString => Outline.s2n "string"
  | MCode => Outline.s2n "code" | MDag => Outline.s2n "dag"
  | MBits n => Outline.s2n "bits<" ++ OutlineIndex.dec n ++ Outline.s2n ">"
  | MList e => Outline.s2n "list<" ++ mty_string e ++ Outline.s2n ">"
  | MRecord _ nm => nm
  | MUninit => Outline.s2n "uninitialized"
  | MUnknown => Outline.s2n "unknown"
  | MAny => Outline.s2n "any"
  end.

(** * The complete symbol map *)
(** one arena: define_loc and references from the indexer model, name and payload from the outline slice (the indexer
    model does not name anonymous defs) *)
Fixpoint join_arena (l1 l2 : list SymbolMap.entry) : list SymbolMap.entry * bool :=
  match l1, l2 with
  | [], [] => ([], true)
  | e1 :: r1, e2 :: r2 =>
      let '(r, ok) := join_arena r1 r2 in
      (SymbolMap.mkEntry (SymbolMap.e_name e2) (SymbolMap.e_def e1) (SymbolMap.e_refs e1) (SymbolMap.e_payload e2) :: r,
       ok && SymbolMap.fr_eqb (SymbolMap.e_def e1) (SymbolMap.e_def e2))
  | l, [] => (l, false)
  | [], _ => ([], false)
  end.

(** variables: `Variable::new(name, typ, ..)` with the inferred type *)
Definition var_entries (s : st) : list SymbolMap.entry :=
  map (fun p : N * leaf =>
         let e := IndexerOps.leaf_entry s (fst p) (snd p) in
         SymbolMap.mkEntry (SymbolMap.e_name e) (SymbolMap.e_def e) (SymbolMap.e_refs e)
                           (SymbolMap.PVariable (mty_string (lf_ty (snd p)))))
      (filter (fun p : N * leaf => IndexerOps.leafkind_eqb (lf_kind (snd p)) LVar) (IndexerOps.indexed (s_leaves s))).

(** `file_to_symbol_list`: the outline slice has the records, defsets and multiclasses of a file in allocation order;
    variables (always listed) and named defms are appended.  document_symbol maps every listed id on its own and shows
    nothing for a variable or a defm, so only their presence is observable (None / Some []); a named defm that the real
    code does not list sits in a defset of the same file, which is listed. *)
Definition in_pos (S : SymbolMap.symbol_map) (sid : SymbolMap.symbol_id) (loc : SymbolMap.file_range) : bool :=
  match SymbolMap.fmap_get (SymbolMap.sm_pos S) (SymbolMap.fr_file loc) with
  | Some m => existsb (fun e : SymbolMap.ivl =>
                         let '(lo, hi, x) := e in
                         (lo =? SymbolMap.fr_lo loc) && (hi =? SymbolMap.fr_hi loc) && SymbolMap.sid_eqb x sid) m
  | None => false
  end.
Definition extra_file_syms (S : SymbolMap.symbol_map) : list (SymbolMap.fileid * SymbolMap.symbol_id) :=
  map (fun p : N * SymbolMap.entry => (SymbolMap.fr_file (SymbolMap.e_def (snd p)), (SymbolMap.KVariable, fst p)))
      (IndexerOps.indexed (SymbolMap.sm_vars S))
  ++ flat_map (fun p : N * SymbolMap.entry =>
                 if in_pos S (SymbolMap.KDefm, fst p) (SymbolMap.e_def (snd p))
                 then [(SymbolMap.fr_file (SymbolMap.e_def (snd p)), (SymbolMap.KDefm, fst p))] else [])
              (IndexerOps.indexed (SymbolMap.sm_defms S)).

Definition full_state (s : st) (o : OutlineIndex.ostate) : SymbolMap.symbol_map * bool :=
  let S1 := IndexerOps.absN s in
  let S2 := OutlineIndex.oi_sm o in
  let '(recs, ok1) := join_arena (SymbolMap.sm_records S1) (SymbolMap.sm_records S2) in
  let '(targs, ok2) := join_arena (SymbolMap.sm_targs S1) (SymbolMap.sm_targs S2) in
  let '(fields, ok3) := join_arena (SymbolMap.sm_fields S1) (SymbolMap.sm_fields S2) in
  let '(dsets, ok4) := join_arena (SymbolMap.sm_defsets S1) (SymbolMap.sm_defsets S2) in
  let '(mcs, ok5) := join_arena (SymbolMap.sm_multiclasses S1) (SymbolMap.sm_multiclasses S2) in
  let S3 := SymbolMap.mkSM recs targs fields (var_entries s) dsets mcs (SymbolMap.sm_defms S1)
     (SymbolMap.sm_name_to_class S1) (SymbolMap.sm_name_to_def S1) (SymbolMap.sm_name_to_multiclass S1)
     (SymbolMap.sm_name_to_defset S1)
     (SymbolMap.sm_file_syms S2) (SymbolMap.sm_pos S1) None (SymbolMap.sm_diags S1) in
  (fold_left (fun S x => SymbolMap.push_file_sym S (fst x) (snd x)) (extra_file_syms S3) S3,
   ok1 && ok2 && ok3 && ok4 && ok5 && negb (OutlineIndex.oi_bad o) && negb (s_bad s)).

(** * Document links of every workspace file (the same walk as [Pipeline.analyze], kept beside it because other
      groups' proofs unfold [analyze]): per file number, (lo, hi, target file number) *)
Definition analyze_links (pfuel cfuel : nat) (files : list (text * text)) (root : text) : option (list (list (N * N * N))) :=
  let parsed : list pfile := map (fun pt => parse_file pfuel (components (fst pt)) (snd pt)) files in
  let tagged := number_from 0 parsed in
  let disk_files := map (fun tp => (pf_path (snd tp), content_of (fst tp) (snd tp))) tagged in
  let w : Includes.world fpath text := {| Includes.disk := fun p => Includes.assoc p disk_files; Includes.extra := [] |} in
  let rootp := components root in
  let root_content := match Includes.assoc rootp disk_files with
                      | Some c => c
                      | None => {| Includes.c_tag := N.of_nat (List.length files); Includes.c_items := [] |}
                      end in
  match Host.touch cfuel w Host.st_init rootp root_content with
  | Includes.Done (fs2, db2) =>
      match Includes.sroot db2 with
      | None => None
      | Some (fset, _) =>
          let ids := sort_ids (map fst fset) in
          let doclinks (f : N) : list (Includes.rng * N) :=
            match Host.document_link db2 f with Includes.Done l => l | _ => [] end in
          Some (map (links_for ids doclinks) ids)
      end
  | _ => None
  end.

(** * The record *)
Inductive dmsg := DParse (m : parse_msg) | DIndex (k : dkind).

Record all_answers : Type := mkAll {
  aa_an : analysis;
  aa_ws : workspace;                          (* an_core aa_an = Ok aa_ws *)
  aa_st : st;                                 (* Indexer.index_ws aa_ws *)
  aa_sm : SymbolMap.symbol_map;               (* full_state *)
  aa_sm_ok : bool;
  aa_trees : list (option tree);              (* per file number *)
  aa_links : list (list (N * N * N));
  aa_diags : list (list (N * N * dmsg))       (* per file number, in push order *)
}.

Definition diags_of_file (a : analysis) (s : st) (k : N) : list (N * N * dmsg) :=
  flat_map (fun e : N * N * N * parse_msg =>
              let '(f, lo, hi, m) := e in if f =? k then [(lo, hi, DParse m)] else []) (an_perrs a)
  ++ flat_map (fun d : rng * dkind => if r_file (fst d) =? k then [(r_lo (fst d), r_hi (fst d), DIndex (snd d))] else [])
              (rev (s_diags s)).

Definition analyze_all (pfuel cfuel : nat) (files : list (text * text)) (root : text) : option all_answers :=
  match analyze pfuel cfuel files root with
  | None => None
  | Some a =>
      match an_core a with
      | Ok w =>
          let s := index_ws w in
          let '(sm, ok) := full_state s (OutlineIndex.oix w) in
          Some (mkAll a w s sm ok
                      (map (fun fp : N * pfile => pf_tree (snd fp)) (an_files a))
                      (match analyze_links pfuel cfuel files root with Some l => l | None => [] end)
                      (map (fun kp : N * (N * pfile) => diags_of_file a s (fst kp)) (number_from 0 (an_files a))))
      | _ => None
      end
  end.

(** * The nine queries.  Files are file numbers (position in [an_files]), offsets are byte offsets. *)
Definition aa_tree (A : all_answers) (f : N) : option tree :=
  match nth_error (aa_trees A) (N.to_nat f) with Some (Some t) => Some t | _ => None end.

Definition q_goto (A : all_answers) (f p : N) : option rng := Scope.goto_definition (aa_st A) f p.
Definition q_references (A : all_answers) (f p : N) : option (list rng) := Scope.references (aa_st A) f p.
Definition q_diagnostics (A : all_answers) (f : N) : option (list (N * N * dmsg)) := nth_error (aa_diags A) (N.to_nat f).
Definition q_outline (A : all_answers) (f : N) : SymbolMap.sres (option (list Outline.docsym)) :=
  Outline.document_symbol (aa_sm A) f.
Definition q_hover (A : all_answers) (f p : N) : SymbolMap.sres (option (text * DocComments.doc_result)) :=
  Outline.hover (aa_sm A) (aa_tree A) f p.
Definition q_inlay (A : all_answers) (f lo hi : N) : SymbolMap.sres (option (list Outline.hint)) :=
  Outline.inlay_hint (aa_sm A) (aa_tree A) (SymbolMap.mkFR f lo hi).
Definition q_folding (A : all_answers) (f : N) : option (list (N * N)) :=
  option_map Folding.folding_model (aa_tree A f).
Definition q_links (A : all_answers) (f : N) : option (list (N * N * N)) := nth_error (aa_links A) (N.to_nat f).
Definition q_completion (A : all_answers) (f p : N) (trigger : option text) : option (list comp_item) :=
  match aa_tree A f with
  | Some t => Completion.completion_model (HandlerCompApi.cm_classes (aa_sm A)) t p trigger
  | None => None
  end.

(** the same definition/references through the symbol-map model on the joined state (what C06 talks about); the
    selftest checks that they coincide with the Scope.v answers at every offset *)
Definition q_goto_sm (A : all_answers) (f p : N) : SymbolMap.sres (option SymbolMap.file_range) :=
  SymbolMap.goto_definition (aa_sm A) f p.
Definition q_references_sm (A : all_answers) (f p : N) : SymbolMap.sres (option (list SymbolMap.file_range)) :=
  SymbolMap.references (aa_sm A) f p.
