(** M-lines: position mapping (property C10, used by C09).

    Part 1: executable SPEC [pos_of] / [off_of] (DESIGN.md Appendix A.1): line terminators are
            exactly LF, CR LF (once) and a lone CR; columns are UTF-16 code units; columns past the
            line content and lines past the last one clamp.
    Part 2: notions used by the property statements (independent of the line-start table).
    Part 3: faithful model of the implementation as it is in /repo:
              crates/ide/src/line_index.rs   LineIndex::{new,pos_to_line,line_to_pos,utf16_col,offset_at}
              crates/lsp/src/to_proto.rs     position, range, folding_range (and the wrappers location, diagnostic,
                                             document_link, inlay_hint, document_symbol, which only call position / range)
              crates/lsp/src/from_proto.rs   position, range
            one definition per Rust function, same branching and order of effects, explicit [Panic]
            wherever Rust can panic (u32 conversions, usize underflow, str slicing, u32 sum overflow in
            a debug build, the TextRange::new assertion).

    Texts are lists of Unicode scalar values; offsets are byte offsets into the UTF-8 encoding.
    Executable definitions only; the proofs are in TG.Proofs.LineIndexProofs. *)
From Coq Require Import List NArith Bool.
From TG.Model Require Import Chars.
Import ListNotations.
Open Scope N_scope.

(* ------------------------------------------------------------------------------------------ *)
(** * 1. Specification *)

(** line starts (byte offsets) after offset [off] *)
Fixpoint starts_from (off : N) (t : text) : list N :=
  match t with
  | [] => []
  | c :: r =>
    let off' := off + utf8_len c in
    if c =? 10 then off' :: starts_from off' r
    else if c =? 13 then match r with 10 :: _ => starts_from off' r | _ => off' :: starts_from off' r end
    else starts_from off' r
  end.
Definition line_starts (t : text) : list N := 0 :: starts_from 0 t.
Definition line_of (t : text) (o : N) : N :=
  N.of_nat (length (filter (fun s => s <=? o) (line_starts t))) - 1.
Definition nth_start (t : text) (l : N) : N := nth (N.to_nat l) (line_starts t) (bytes t).

(** UTF-16 length of the slice [a, b) given in byte offsets *)
Fixpoint u16_between (off a b : N) (t : text) : N :=
  match t with
  | [] => 0
  | c :: r => (if (a <=? off) && (off <? b) then utf16_len c else 0) + u16_between (off + utf8_len c) a b r
  end.

Definition pos_of (t : text) (o : N) : N * N :=
  let l := line_of t o in (l, u16_between 0 (nth_start t l) o t).

(** byte offset reached from [off] by consuming characters of the line content while the UTF-16
    budget [col] suffices; stops at a terminator character *)
Fixpoint advance (off : N) (col : N) (t : text) : N :=
  match t with
  | [] => off
  | c :: r =>
    if (c =? 10) || (c =? 13) then off
    else if utf16_len c <=? col then advance (off + utf8_len c) (col - utf16_len c) r else off
  end.
Fixpoint drop_bytes (n : N) (off : N) (t : text) : text :=
  match t with
  | [] => []
  | c :: r => if off <? n then drop_bytes n (off + utf8_len c) r else t
  end.
Definition off_of (t : text) (l c : N) : N :=
  if N.of_nat (length (line_starts t)) <=? l then bytes t
  else let s := nth_start t l in advance s c (drop_bytes s 0 t).

(* ------------------------------------------------------------------------------------------ *)
(** * 2. Notions for the property statements (no line-start table involved) *)

(** UTF-16 length of a text *)
Fixpoint u16 (t : text) : N := match t with [] => 0 | c :: r => utf16_len c + u16 r end.

(** number of line terminators of [p]: every LF, and every CR not immediately followed by LF
    (so CR LF counts once) *)
Fixpoint count_terms (p : text) : N :=
  match p with
  | [] => 0
  | c :: r =>
    (if c =? 10 then 1
     else if c =? 13 then match r with 10 :: _ => 0 | _ => 1 end
     else 0) + count_terms r
  end.

(** the part of [p] after its last CR / LF character (all of [p] when it has none) *)
Fixpoint last_line (p : text) : text :=
  match p with
  | [] => []
  | c :: r => if existsb is_newline r then last_line r else if is_newline c then r else c :: r
  end.

Definition no_newline (x : text) : Prop := forallb (fun c => negb (is_newline c)) x = true.

(** [o] is the byte offset of a character boundary of [t] (0 and [bytes t] included) *)
Definition on_char_boundary (t : text) (o : N) : Prop := exists p s, t = p ++ s /\ o = bytes p.
(** [o] lies strictly inside a CR LF pair *)
Definition inside_crlf (t : text) (o : N) : Prop := exists p s, t = p ++ 13 :: 10 :: s /\ o = bytes p + 1.

(** [t = q ++ content ++ rest] where [q] consists of exactly [l] complete lines (terminators
    included), [content] is the content of line [l] and [rest] is empty (last line, no final
    terminator) or starts with the terminator of line [l]. *)
Definition is_line (t : text) (l : N) (q content rest : text) : Prop :=
  t = q ++ content ++ rest /\
  count_terms q = l /\ last_line q = [] /\
  ~ inside_crlf t (bytes q) /\
  no_newline content /\
  (rest = [] \/ exists c r, rest = c :: r /\ is_newline c = true).

(* ------------------------------------------------------------------------------------------ *)
(** * 3. Model of the implementation *)

Inductive panic_site :=
| PTooLarge       (* TextSize::try_from(usize).expect("text is too large") / TextSize::of: > u32::MAX *)
| PLineRange      (* to_proto::position: line.try_into().expect("line out of range") *)
| PSubOverflow    (* usize subtraction below zero (debug build): partition_point(..) - 1, end -= 1 *)
| PSlice          (* str slice index not on a char boundary / out of range / start > end *)
| PSumOverflow    (* u32 sum overflow in Iterator::sum (debug build) *)
| PRangeAssert    (* TextRange::new: assert!(start <= end) *)
| PLineUnwrap     (* to_proto::folding_range: pos_to_line(..).try_into().unwrap() (usize -> u32) *)
| POutOfFuel.     (* model artefact: loop fuel exhausted (proved unreachable) *)

Inductive res (A : Type) : Type := Ok (a : A) | Panic (p : panic_site).
Arguments Ok {A} a.
Arguments Panic {A} p.
Definition bind {A B : Type} (r : res A) (f : A -> res B) : res B :=
  match r with Ok a => f a | Panic p => Panic p end.
Notation "x <- r ;; k" := (bind r (fun x => k)) (at level 61, r at next level, right associativity).

Definition u32_max : N := 4294967295.
Definition to_u32 (site : panic_site) (x : N) : res N := if x <=? u32_max then Ok x else Panic site.

(** ** Rust std contracts, as modelled *)

(** the String's bytes: UTF-8 encoding *)
Definition utf8_bytes (c : N) : list N :=
  if c <? 128 then [c]
  else if c <? 2048 then [192 + c / 64; 128 + c mod 64]
  else if c <? 65536 then [224 + c / 4096; 128 + (c / 64) mod 64; 128 + c mod 64]
  else [240 + c / 262144; 128 + (c / 4096) mod 64; 128 + (c / 64) mod 64; 128 + c mod 64].
Fixpoint encode (t : text) : list N := match t with [] => [] | c :: r => utf8_bytes c ++ encode r end.

Fixpoint lenN (bs : list N) : N := match bs with [] => 0 | _ :: r => 1 + lenN r end.
(** [bytes.get(i)] *)
Fixpoint nthN (bs : list N) (i : N) : option N :=
  match bs with
  | [] => None
  | b :: r => if i =? 0 then Some b else nthN r (i - 1)
  end.
(** [Vec::get(i)] *)
Definition get (l : list N) (i : N) : option N := nth_error l (N.to_nat i).

(** [str::is_char_boundary]: index 0, index == len, or a byte that is not a continuation byte
    ((b as i8) >= -0x40, i.e. b < 128 or b >= 192) *)
Definition is_char_boundary (bs : list N) (i : N) : bool :=
  if i =? 0 then true
  else match nthN bs i with
       | None => i =? lenN bs
       | Some b => (b <? 128) || (192 <=? b)
       end.

(** [slice::partition_point(pred)] on a slice that is partitioned by [pred] (all elements
    satisfying it come first): the length of that prefix.  That the slice is partitioned is the
    documented precondition; it is proved for [line_starts] (lemma [starts_partitioned]). *)
Fixpoint partition_point (p : N -> bool) (l : list N) : N :=
  match l with
  | [] => 0
  | x :: r => if p x then 1 + partition_point p r else 0
  end.

(** [s[a..b].chars()] once the index check passed: the scalar values of [t] that start in [a, b) *)
Fixpoint chars_between (off a b : N) (t : text) : text :=
  match t with
  | [] => []
  | c :: r =>
    let rest := chars_between (off + utf8_len c) a b r in
    if (a <=? off) && (off <? b) then c :: rest else rest
  end.
(** [s[a..].chars()] once the index check passed *)
Fixpoint chars_from (off a : N) (t : text) : text :=
  match t with
  | [] => []
  | c :: r => if a <=? off then t else chars_from (off + utf8_len c) a r
  end.

(** ** crates/ide/src/line_index.rs *)

Record LineIndex := mkLI { li_text : text; li_bytes : list N; li_starts : list N }.

(** the loop of [LineIndex::new] over [bytes.iter().enumerate()] from index [i] *)
Fixpoint scan_bytes (i : N) (bs : list N) : res (list N) :=
  match bs with
  | [] => Ok []
  | b :: r =>
    let next_is_lf := match r with n :: _ => n =? 10 | [] => false end in
    if (b =? 10) || ((b =? 13) && negb next_is_lf) then
      s <- to_u32 PTooLarge (i + 1) ;;
      l <- scan_bytes (i + 1) r ;;
      Ok (s :: l)
    else scan_bytes (i + 1) r
  end.

Definition li_new (t : text) : res LineIndex :=
  let bs := encode t in
  l <- scan_bytes 0 bs ;;
  Ok (mkLI t bs (0 :: l)).

(** [TextSize::of(self.text.as_str())] *)
Definition text_size_of (li : LineIndex) : res N := to_u32 PTooLarge (lenN (li_bytes li)).

Definition pos_to_line (li : LineIndex) (pos : N) : res N :=
  let k := partition_point (fun start => start <=? pos) (li_starts li) in
  if k =? 0 then Panic PSubOverflow else Ok (k - 1).

Definition line_to_pos (li : LineIndex) (line : N) : res N :=
  match get (li_starts li) line with
  | Some start => Ok start
  | None => text_size_of li
  end.

(** [while !self.text.is_char_boundary(end) { end -= 1; }] *)
Fixpoint walk_back (fuel : nat) (bs : list N) (e : N) : res N :=
  match fuel with
  | O => Panic POutOfFuel
  | S f =>
    if is_char_boundary bs e then Ok e
    else if e =? 0 then Panic PSubOverflow
    else walk_back f bs (e - 1)
  end.

(** [&self.text[a..b]] then [.chars()] *)
Definition str_slice (li : LineIndex) (a b : N) : res text :=
  if (a <=? b) && is_char_boundary (li_bytes li) a && is_char_boundary (li_bytes li) b
  then Ok (chars_between 0 a b (li_text li)) else Panic PSlice.
(** [&self.text[a..]] then [.chars()] *)
Definition str_slice_from (li : LineIndex) (a : N) : res text :=
  if is_char_boundary (li_bytes li) a then Ok (chars_from 0 a (li_text li)) else Panic PSlice.

Definition sum_utf16 (cs : text) : N := fold_left (fun acc c => acc + utf16_len c) cs 0.

Definition utf16_col (li : LineIndex) (pos : N) : res N :=
  line <- pos_to_line li pos ;;
  start <- line_to_pos li line ;;
  let e0 := N.min pos (lenN (li_bytes li)) in
  e <- walk_back (S (N.to_nat e0)) (li_bytes li) e0 ;;
  cs <- str_slice li start (N.max e start) ;;
  to_u32 PSumOverflow (sum_utf16 cs).

(** the [for c in self.text[offset..].chars()] loop of [offset_at] *)
Fixpoint offset_loop (offset rest : N) (cs : text) : N :=
  match cs with
  | [] => offset
  | c :: r =>
    let width := utf16_len c in
    if (c =? 10) || (c =? 13) || (rest <? width) then offset
    else offset_loop (offset + utf8_len c) (rest - width) r
  end.

Definition offset_at (li : LineIndex) (line col : N) : res N :=
  match get (li_starts li) line with
  | None => text_size_of li
  | Some start =>
    cs <- str_slice_from li start ;;
    to_u32 PTooLarge (offset_loop start col cs)
  end.

(** ** crates/lsp/src/to_proto.rs, from_proto.rs *)

Definition to_proto_position (li : LineIndex) (position : N) : res (N * N) :=
  line <- pos_to_line li position ;;
  line32 <- to_u32 PLineRange line ;;
  col <- utf16_col li position ;;
  Ok (line32, col).

Definition to_proto_range (li : LineIndex) (range : N * N) : res ((N * N) * (N * N)) :=
  s <- to_proto_position li (fst range) ;;
  e <- to_proto_position li (snd range) ;;
  Ok (s, e).

(** [to_proto::folding_range]: start_line / end_line = pos_to_line(range.start() / range.end()), no columns *)
Definition to_proto_folding_range (li : LineIndex) (range : N * N) : res (N * N) :=
  s <- pos_to_line li (fst range) ;;
  s32 <- to_u32 PLineUnwrap s ;;
  e <- pos_to_line li (snd range) ;;
  e32 <- to_u32 PLineUnwrap e ;;
  Ok (s32, e32).

(** [to_proto::inlay_hint] converts its position with [position]; [to_proto::{location, diagnostic,
    document_link}] convert their range with [range]; [to_proto::document_symbol] converts the symbol's range
    once with [range] and uses it for both [range] and [selection_range] (children likewise, in order) *)
Definition to_proto_inlay_hint_position := to_proto_position.
Definition to_proto_location_range := to_proto_range.
Definition to_proto_diagnostic_range := to_proto_range.
Definition to_proto_document_link_range := to_proto_range.
Definition to_proto_document_symbol_range (li : LineIndex) (range : N * N) :=
  r <- to_proto_range li range ;; Ok (r, r).

(** [position.line.try_into().unwrap()] (u32 -> usize) cannot fail on the supported targets *)
Definition from_proto_position (li : LineIndex) (position : N * N) : res N :=
  offset_at li (fst position) (snd position).

Definition from_proto_range (li : LineIndex) (range : (N * N) * (N * N)) : res (N * N) :=
  s <- from_proto_position li (fst range) ;;
  e <- from_proto_position li (snd range) ;;
  if s <=? e then Ok (s, e) else Panic PRangeAssert.

(** whole pipeline on a text (what the observers call) *)
Definition text_to_position (t : text) (o : N) : res (N * N) := li <- li_new t ;; to_proto_position li o.
Definition text_from_position (t : text) (l c : N) : res N := li <- li_new t ;; from_proto_position li (l, c).

(* ------------------------------------------------------------------------------------------ *)
(** * 4. Combinators for the translated source (coq/gen/GenLineIndex.v, translator T-lines)

    tools/translate/t_lineindex.py renders the CURRENT text of line_index.rs and of the position / range /
    folding_range functions of to_proto.rs and from_proto.rs with the Rust std contracts of part 3 and the
    control-flow combinators below; TG.Proofs.GenLineIndexEq proves that rendering equal to the model of part 3. *)

(** unsigned subtraction ([a - b], [a -= b]): panics below zero (debug build) *)
Definition usub (a b : N) : res N := if a <? b then Panic PSubOverflow else Ok (a - b).
(** u32 / TextSize addition: panics above u32::MAX *)
Definition uadd32 (a b : N) : res N := to_u32 PSumOverflow (a + b).
(** [x as u32] *)
Definition as_u32 (x : N) : N := x mod 4294967296.
(** [==] on [Option<u8>] / [Option<&u8>] *)
Definition opt_eqb (a b : option N) : bool :=
  match a, b with
  | Some x, Some y => x =? y
  | None, None => true
  | _, _ => false
  end.
(** [slice.iter().enumerate()] from index [i] *)
Fixpoint enumerate_from (i : N) (l : list N) : list (N * N) :=
  match l with [] => [] | x :: r => (i, x) :: enumerate_from (i + 1) r end.
(** [Iterator<Item = u32>::sum::<u32>()] *)
Definition sum_u32 (l : list N) : res N := to_u32 PSumOverflow (fold_left N.add l 0).
(** [TextRange::new] *)
Definition text_range_new (a b : N) : res (N * N) := if a <=? b then Ok (a, b) else Panic PRangeAssert.
(** [LineIndex { text: String, line_starts }]: a String is its scalar values together with their UTF-8 encoding *)
Definition mk_line_index (t : text) (starts : list N) : LineIndex := mkLI t (encode t) starts.

(** [for x in xs { body }] over the mutable state [St]; the body says [Continue] or [Break] *)
Inductive ctl (St : Type) : Type := Continue (s : St) | Break (s : St).
Arguments Continue {St} s.
Arguments Break {St} s.
Fixpoint for_loop {A St : Type} (xs : list A) (body : A -> St -> res (ctl St)) (s : St) : res St :=
  match xs with
  | [] => Ok s
  | x :: r => c <- body x s ;; match c with Break s' => Ok s' | Continue s' => for_loop r body s' end
  end.
(** [while cond { body }] over the mutable state [St]; the fuel is chosen by the translator (initial value of
    the variable the body decrements, plus one) and [POutOfFuel] is proved unreachable *)
Fixpoint while_loop {St : Type} (fuel : nat) (cond : St -> bool) (body : St -> res St) (s : St) : res St :=
  match fuel with
  | O => Panic POutOfFuel
  | S f => if cond s then (s' <- body s ;; while_loop f cond body s') else Ok s
  end.
