(** PrepSpec: reference evaluation of well-nested #define / #ifdef / #ifndef / #else / #endif
    arrangements over the raw token list (TableGen Programmer's Reference, "Preprocessing
    Facilities"): a conditional region is enabled iff its macro is (not) defined; a macro is
    defined only by an earlier ENABLED #define; disabled text contributes nothing.

    The specification is independent of the preprocessor model: from Prep.v it uses only the
    record type [rtok] of raw tokens (kind, parked lexer error, text).  It is a structural
    recursion over the nesting STRUCTURE (a tree of items), whereas the implementation (and its
    model) scans the flat token list with a depth counter. *)
From Coq Require Import List NArith Bool.
From TG.Gen Require Import GenTokens.
From TG.Model Require Import Chars Lexer Prep.
Import ListNotations.
Open Scope N_scope.

Inductive ifkind := IfDef | IfNdef.

(** "#directive  <trivia>*  NAME" *)
Record head := mkhead { h_dir : rtok; h_gap : list rtok; h_name : rtok }.

(** a well-nested arrangement is a list of items *)
Inductive item :=
| ITok (t : rtok)                                   (* any raw token that is not a directive *)
| IDefine (h : head)                                (* #define NAME *)
| ICond (k : ifkind) (h : head) (th : list item)    (* #ifdef/#ifndef NAME  then-items *)
        (el : option (rtok * list item))            (* optional  #else  else-items *)
        (en : rtok).                                (* #endif *)

(** * Rendering to the raw token list *)
Definition render_head (h : head) : list rtok := h_dir h :: h_gap h ++ [h_name h].

Fixpoint render_item (i : item) : list rtok :=
  match i with
  | ITok t => [t]
  | IDefine h => render_head h
  | ICond _ h th el en =>
      render_head h ++ flat_map render_item th
      ++ match el with Some (et, els) => et :: flat_map render_item els | None => [] end
      ++ [en]
  end.
Definition render_items (l : list item) : list rtok := flat_map render_item l.

(** * Well-formedness of the pieces (what makes the token list a rendering of THIS structure) *)
Definition is_directive_kind (k : TokenKind) : bool :=
  tk_eqb k T_Ifdef || tk_eqb k T_Ifndef || tk_eqb k T_Else || tk_eqb k T_Endif || tk_eqb k T_Define.

(** a plain token: not a directive, not Eof, not the PreProcessor pseudo-kind (the lexer never
    produces it); an Error token carries its message and only an Error token does (true of every
    token the lexer produces: LexBasics.raw_lex_err) *)
Definition plain_tok (t : rtok) : bool :=
  negb (is_directive_kind (rk t)) && negb (tk_eqb (rk t) T_Eof) && negb (tk_eqb (rk t) T_PreProcessor)
  && Bool.eqb (tk_eqb (rk t) T_Error) (match rerr t with Some _ => true | None => false end).

Definition gap_tok (t : rtok) : bool :=
  (tk_eqb (rk t) T_Whitespace || tk_eqb (rk t) T_LineComment || tk_eqb (rk t) T_BlockComment)
  && match rerr t with Some _ => false | None => true end.

Definition head_ok (dir : TokenKind) (h : head) : bool :=
  tk_eqb (rk (h_dir h)) dir && forallb gap_tok (h_gap h) && tk_eqb (rk (h_name h)) T_Id.

Definition if_dir (k : ifkind) : TokenKind := match k with IfDef => T_Ifdef | IfNdef => T_Ifndef end.

Fixpoint item_ok (i : item) : bool :=
  match i with
  | ITok t => plain_tok t
  | IDefine h => head_ok T_Define h
  | ICond k h th el en =>
      head_ok (if_dir k) h && forallb item_ok th
      && match el with Some (et, els) => tk_eqb (rk et) T_Else && forallb item_ok els | None => true end
      && tk_eqb (rk en) T_Endif
  end.
Definition items_ok (l : list item) : bool := forallb item_ok l.

(** * Reference evaluation *)
Definition defined (ms : list text) (m : text) : bool := existsb (list_eqb m) ms.
Definition define (ms : list text) (m : text) : list text := if defined ms m then ms else m :: ms.
Definition taken (k : ifkind) (ms : list text) (m : text) : bool :=
  match k with IfDef => defined ms m | IfNdef => negb (defined ms m) end.

(** [select_item ms i] = (macros after i, tokens of i that are selected), in enabled context *)
Fixpoint select_item (ms : list text) (i : item) : list text * list rtok :=
  match i with
  | ITok t => (ms, [t])
  | IDefine h => (define ms (rtext (h_name h)), [])
  | ICond k h th el _ =>
      let go := fix go (ms : list text) (l : list item) : list text * list rtok :=
        match l with
        | [] => (ms, [])
        | i :: r => let '(ms1, a) := select_item ms i in
                    let '(ms2, b) := go ms1 r in (ms2, a ++ b)
        end in
      if taken k ms (rtext (h_name h)) then go ms th
      else match el with Some (_, els) => go ms els | None => (ms, []) end
  end.
Fixpoint select (ms : list text) (l : list item) : list text * list rtok :=
  match l with
  | [] => (ms, [])
  | i :: r => let '(ms1, a) := select_item ms i in
              let '(ms2, b) := select ms1 r in (ms2, a ++ b)
  end.

(** every raw token that lies in a region the reference evaluation does NOT select (the complement
    of [select]: disabled branches, with everything nested in them) *)
Fixpoint disabled_item (ms : list text) (i : item) : list rtok :=
  match i with
  | ITok _ => []
  | IDefine _ => []
  | ICond k h th el _ =>
      let go := fix go (ms : list text) (l : list item) : list rtok :=
        match l with
        | [] => []
        | i :: r => disabled_item ms i ++ go (fst (select_item ms i)) r
        end in
      if taken k ms (rtext (h_name h)) then
        go ms th ++ match el with Some (_, els) => render_items els | None => [] end
      else
        render_items th ++ match el with Some (_, els) => go ms els | None => [] end
  end.
Fixpoint disabled (ms : list text) (l : list item) : list rtok :=
  match l with
  | [] => []
  | i :: r => disabled_item ms i ++ disabled (fst (select_item ms i)) r
  end.

(** * What the parser is handed for a selected token: its kind, its byte length, and - for an Error
    token - the lexer's message, which ParserBase::save fetches with take_error *)
Definition deliver (t : rtok) : TokenKind * N * option any_err :=
  (rk t, rlen t, if tk_eqb (rk t) T_Error then option_map ErrLex (rerr t) else None).

Definition entry_kind (x : TokenKind * N * option any_err) : TokenKind := fst (fst x).
Definition not_pp (x : TokenKind * N * option any_err) : bool := negb (tk_eqb (entry_kind x) T_PreProcessor).
Definition not_trivia (x : TokenKind * N * option any_err) : bool := negb (is_trivia (entry_kind x)).
Definition eof_entry : TokenKind * N * option any_err := (T_Eof, 0, None).

(** * Arrangements cut off by the end of the file inside one or more conditionals *)
Inductive partial :=
| PThen (k : ifkind) (h : head) (body : list item) (more : option partial)
    (* #ifdef NAME body [deeper unterminated conditional] <EOF> *)
| PElse (k : ifkind) (h : head) (th : list item) (et : rtok) (body : list item) (more : option partial).
    (* #ifdef NAME th #else body [deeper unterminated conditional] <EOF> *)

Fixpoint render_partial (p : partial) : list rtok :=
  match p with
  | PThen _ h body more =>
      render_head h ++ render_items body ++ match more with Some q => render_partial q | None => [] end
  | PElse _ h th et body more =>
      render_head h ++ render_items th ++ et :: render_items body
      ++ match more with Some q => render_partial q | None => [] end
  end.

Fixpoint partial_ok (p : partial) : bool :=
  match p with
  | PThen k h body more =>
      head_ok (if_dir k) h && items_ok body && match more with Some q => partial_ok q | None => true end
  | PElse k h th et body more =>
      head_ok (if_dir k) h && items_ok th && tk_eqb (rk et) T_Else && items_ok body
      && match more with Some q => partial_ok q | None => true end
  end.

(** selected tokens of an arrangement cut off by the end of the file *)
Fixpoint select_partial (ms : list text) (p : partial) : list rtok :=
  match p with
  | PThen k h body more =>
      if taken k ms (rtext (h_name h)) then
        let '(ms1, a) := select ms body in
        a ++ match more with Some q => select_partial ms1 q | None => [] end
      else []
  | PElse k h th et body more =>
      if taken k ms (rtext (h_name h)) then snd (select ms th)
      else let '(ms1, a) := select ms body in
           a ++ match more with Some q => select_partial ms1 q | None => [] end
  end.

(** * A directive that lacks its macro name: "#directive <trivia>* X" with X not an identifier, or
    the end of the file *)
Definition missing_name (dir : rtok) (gap : list rtok) (rest : list rtok) : bool :=
  (tk_eqb (rk dir) T_Ifdef || tk_eqb (rk dir) T_Ifndef || tk_eqb (rk dir) T_Define)
  && forallb gap_tok gap
  && match rest with
     | [] => true
     | x :: _ => negb (tk_eqb (rk x) T_Id) && negb (is_trivia (rk x))
     end.
Definition missing_name_err (dir : rtok) : prep_err :=
  if tk_eqb (rk dir) T_Ifdef then PEIfdefName
  else if tk_eqb (rk dir) T_Ifndef then PEIfndefName else PEDefineName.
