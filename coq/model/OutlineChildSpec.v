(** S-outline-children (C18): the FULL registration stream of a workspace, stated on the AST alone: besides the declarations
    (OutlineSpec.v) every template argument and every field a record gets, in order.

    The visit keeps a purely syntactic table: for each record declared so far (classes and defs, numbered in visit order)
    the fields declared or overridden in its body so far (name -> declared type, one entry per name, first-declaration order)
    and its resolved parent classes; and the class table (name -> record number, the latest declaration wins).
    * a template argument `T a` is registered when T resolves (primitive types always; a class name when declared so far);
    * a body item `T f;` registers field f of type T when T resolves;
    * a body item `let f = ..;` registers an override of f -- with f's declared type -- when f is VISIBLE in the record:
      declared or overridden earlier in the same body, or inherited: looked up depth-first through the resolved parent
      classes in the order they are written, each ancestor once ([sp_find], the TableGen field lookup);
    * a parent `: C<..>` is resolved when C is declared so far and is not the record itself.
    Executable definitions only. *)
From Coq Require Import List NArith Bool String.
From TG.Model Require Import Chars CoreAst SymbolMap Outline OutlineIndex OutlineSpec.
Import ListNotations.
Open Scope N_scope.

Record srec := mkSR { sr_fields : list (SymbolMap.name * SymbolMap.name); sr_parents : list N }.

Inductive cev :=
| CRec (file : N) (k : record_kind) (nm : SymbolMap.name) (lo hi : N) (global : bool)
| CAnon (file : N) (nm : SymbolMap.name) (lo hi : N)
| CDefset (file : N) (nm typ : SymbolMap.name) (lo hi : N)
| CMc (file : N) (nm : SymbolMap.name) (lo hi : N)
| CTArg (file : N) (nm typ : SymbolMap.name) (lo hi : N)
| CField (file : N) (nm typ : SymbolMap.name) (lo hi : N).

(** what an op registers *)
Definition op_cev (o : op) : list cev :=
  match o with
  | OpAddRecord n k loc g _ => [CRec (fr_file loc) k n (fr_lo loc) (fr_hi loc) g]
  | OpAddAnonymousDef n loc _ => [CAnon (fr_file loc) n (fr_lo loc) (fr_hi loc)]
  | OpAddDefset n typ loc _ => [CDefset (fr_file loc) n typ (fr_lo loc) (fr_hi loc)]
  | OpAddMulticlass n loc _ => [CMc (fr_file loc) n (fr_lo loc) (fr_hi loc)]
  | OpAddTemplateArg n typ loc _ => [CTArg (fr_file loc) n typ (fr_lo loc) (fr_hi loc)]
  | OpAddRecordField n typ loc _ _ => [CField (fr_file loc) n typ (fr_lo loc) (fr_hi loc)]
  | _ => []
  end.
Definition ops_cevs (ops : list op) : list cev := flat_map op_cev ops.

Record cstate := mkC {
  c_indexed : list N;
  c_cls : list (SymbolMap.name * N);      (* class name -> record number *)
  c_recs : list srec;                     (* record number -> fields so far, resolved parents *)
  c_anon : N;
  c_skipped : bool }.

Definition c0 : cstate := mkC [0] [] [] 0 false.

(** the Display string of a type, when it resolves *)
Fixpoint ty_str (cls : list (SymbolMap.name * N)) (t : ty) : option SymbolMap.name :=
  match t with
  | TyBit => Some (s2n "bit") | TyInt => Some (s2n "int") | TyString => Some (s2n "string")
  | TyCode => Some (s2n "code") | TyDag => Some (s2n "dag")
  | TyBits n => Some (s2n "bits<" ++ dec n ++ s2n ">")
  | TyList e => match ty_str cls e with Some x => Some (s2n "list<" ++ x ++ s2n ">") | None => None end
  | TyClass i => match amap_get cls (i_name i) with Some _ => Some (i_name i) | None => None end
  end.

(** field lookup through the table: own fields, then the parents depth-first in order, each ancestor once.
    None = the lookup does not complete (a dangling parent number / fuel): never for tables built by the visit. *)
Fixpoint sp_find_in (fuel : nat) (recs : list srec) (r : N) (n : SymbolMap.name) (visited : list N)
  : option (option SymbolMap.name * list N) :=
  match fuel with
  | O => None
  | S fuel' =>
      match nth_error recs (N.to_nat r) with
      | None => None
      | Some sr =>
          match amap_get (sr_fields sr) n with
          | Some t => Some (Some t, visited)
          | None =>
              (fix go (ps : list N) (vis : list N) : option (option SymbolMap.name * list N) :=
                 match ps with
                 | [] => Some (None, vis)
                 | p :: ps' =>
                     if vis_mem p vis then go ps' vis
                     else match sp_find_in fuel' recs p n (p :: vis) with
                          | Some (Some t, vis') => Some (Some t, vis')
                          | Some (None, vis') => go ps' vis'
                          | None => None
                          end
                 end) (sr_parents sr) visited
          end
      end
  end.
Definition sp_find (recs : list srec) (r : N) (n : SymbolMap.name) : option (option SymbolMap.name) :=
  option_map fst (sp_find_in (S (List.length recs)) recs r n []).

Fixpoint upd_rec (recs : list srec) (i : nat) (f : srec -> srec) : list srec :=
  match recs, i with
  | [], _ => []
  | x :: r, O => f x :: r
  | x :: r, S j => x :: upd_rec r j f
  end.

Definition set_recs (c : cstate) (recs : list srec) : cstate :=
  mkC (c_indexed c) (c_cls c) recs (c_anon c) (c_skipped c).

(** TemplateArgDecl *)
Definition sp_targ (g : N) (a : targ) (c : cstate) : list cev :=
  match a with
  | TArg t i _ => match ty_str (c_cls c) t with
                  | Some typ => [CTArg g (i_name i) typ (r_lo (i_rng i)) (r_hi (i_rng i))]
                  | None => []
                  end
  end.

(** a parent class reference of record [rid] *)
Definition sp_parent (rid : N) (p : classref) (c : cstate) : cstate :=
  match p with
  | CRef i _ _ =>
      match amap_get (c_cls c) (i_name i) with
      | Some cid => if cid =? rid then c
                    else set_recs c (upd_rec (c_recs c) (N.to_nat rid) (fun sr => mkSR (sr_fields sr) (sr_parents sr ++ [cid])))
      | None => c
      end
  end.

Definition add_field (c : cstate) (rid : N) (n typ : SymbolMap.name) : cstate :=
  set_recs c (upd_rec (c_recs c) (N.to_nat rid) (fun sr => mkSR (amap_insert (sr_fields sr) n typ) (sr_parents sr))).

(** a body item of record [rid] *)
Definition sp_item (g rid : N) (it : item) (c : cstate) : option (list cev * cstate) :=
  match it with
  | IField t i _ =>
      match ty_str (c_cls c) t with
      | Some typ => Some ([CField g (i_name i) typ (r_lo (i_rng i)) (r_hi (i_rng i))], add_field c rid (i_name i) typ)
      | None => Some ([], c)
      end
  | ILet i _ =>
      match sp_find (c_recs c) rid (i_name i) with
      | Some (Some typ) => Some ([CField g (i_name i) typ (r_lo (i_rng i)) (r_hi (i_rng i))], add_field c rid (i_name i) typ)
      | Some None => Some ([], c)
      | None => None
      end
  | _ => Some ([], c)
  end.

Fixpoint sp_items (g rid : N) (b : list item) (c : cstate) : option (list cev * cstate) :=
  match b with
  | [] => Some ([], c)
  | it :: r => match sp_item g rid it c with
               | None => None
               | Some (e1, c1) => match sp_items g rid r c1 with
                                  | None => None
                                  | Some (e2, c2) => Some (e1 ++ e2, c2)
                                  end
               end
  end.

Definition sp_record_body (g rid : N) (ps : list classref) (b : list item) (c : cstate) : option (list cev * cstate) :=
  sp_items g rid b (fold_left (fun a p => sp_parent rid p a) ps c).

Definition sp_targs (g : N) (targs : option (list targ)) (c : cstate) : list cev :=
  match targs with Some l => flat_map (fun a => sp_targ g a c) l | None => [] end.

Definition new_rec (c : cstate) : cstate := set_recs c (c_recs c ++ [mkSR [] []]).
Definition rid_of (c : cstate) : N := N.of_nat (List.length (c_recs c)).

Section VisitC.
  Variable files : list (list stmt).

  Fixpoint svc (fuel : nat) (g : N) (dset : bool) (x : stmt) (c : cstate) : option (list cev * cstate) :=
    match fuel with
    | O => None
    | S n =>
      let many := fix many (g : N) (d : bool) (b : list stmt) (c : cstate) : option (list cev * cstate) :=
        match b with
        | [] => Some ([], c)
        | y :: r => match svc n g d y c with
                    | None => None
                    | Some (e1, c1) => match many g d r c1 with
                                       | None => None
                                       | Some (e2, c2) => Some (e1 ++ e2, c2)
                                       end
                    end
        end in
      match x with
      | SInclude _ None => Some ([], c)
      | SInclude _ (Some f) =>
          if existsb (N.eqb f) (c_indexed c) then Some ([], c)
          else let c1 := mkC (f :: c_indexed c) (c_cls c) (c_recs c) (c_anon c) (c_skipped c) in
               match nth_error files (N.to_nat f) with
               | None => Some ([], c1)
               | Some body => many f false body c1
               end
      | SClass i targs ps b =>
          let rid := rid_of c in
          let c1 := new_rec (mkC (c_indexed c) (amap_insert (c_cls c) (i_name i) rid) (c_recs c) (c_anon c) (c_skipped c)) in
          match sp_record_body g rid ps b c1 with
          | None => None
          | Some (eb, c2) =>
              Some (CRec g RKClass (i_name i) (r_lo (i_rng i)) (r_hi (i_rng i)) true :: sp_targs g targs c1 ++ eb, c2)
          end
      | SDef (Some nm) _ ps b =>
          match value_first_ident nm with
          | Some i =>
              let rid := rid_of c in
              match sp_record_body g rid ps b (new_rec c) with
              | None => None
              | Some (eb, c2) => Some (CRec g RKDef (i_name i) (r_lo (i_rng i)) (r_hi (i_rng i)) (negb dset) :: eb, c2)
              end
          | None => Some ([], c)
          end
      | SDef None r ps b =>
          let rid := rid_of c in
          let c1 := new_rec (mkC (c_indexed c) (c_cls c) (c_recs c) (c_anon c + 1) (c_skipped c)) in
          match sp_record_body g rid ps b c1 with
          | None => None
          | Some (eb, c2) => Some (CAnon g (anonymous_name (c_anon c)) (r_lo r) (r_hi r) :: eb, c2)
          end
      | SDefm None _ _ => Some ([], mkC (c_indexed c) (c_cls c) (c_recs c) (c_anon c + 1) (c_skipped c))
      | SDefm (Some _) _ _ => Some ([], c)
      | SDefset t i b =>
          match ty_str (c_cls c) t with
          | Some typ =>
              match many g true b c with
              | None => None
              | Some (e, c') => Some (CDefset g (i_name i) typ (r_lo (i_rng i)) (r_hi (i_rng i)) :: e, c')
              end
          | None => Some ([], mkC (c_indexed c) (c_cls c) (c_recs c) (c_anon c) true)
          end
      | SMulticlass i targs _ b =>
          match many g dset b c with
          | None => None
          | Some (e, c') => Some (CMc g (i_name i) (r_lo (i_rng i)) (r_hi (i_rng i)) :: sp_targs g targs c ++ e, c')
          end
      | SForeach _ _ b | SLet _ b => many g dset b c
      | SIf _ th el =>
          match many g dset th c with
          | None => None
          | Some (e1, c1) =>
              match el with
              | None => Some (e1, c1)
              | Some e => match many g dset e c1 with
                          | None => None
                          | Some (e2, c2) => Some (e1 ++ e2, c2)
                          end
              end
          end
      | SAssert _ _ | SDefvar _ _ | SDump _ => Some ([], c)
      end
    end.

  Fixpoint svc_list (fuel : nat) (g : N) (d : bool) (b : list stmt) (c : cstate) : option (list cev * cstate) :=
    match b with
    | [] => Some ([], c)
    | y :: r => match svc fuel g d y c with
                | None => None
                | Some (e1, c1) => match svc_list fuel g d r c1 with
                                   | None => None
                                   | Some (e2, c2) => Some (e1 ++ e2, c2)
                                   end
                end
    end.
End VisitC.

Definition visitc_ws (w : workspace) : option (list cev * cstate) :=
  match ws_files w with
  | [] => Some ([], c0)
  | root :: _ => svc_list (ws_files w) (ws_fuel w) 0 false root c0
  end.
