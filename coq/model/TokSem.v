(** M-toksem: the token-level semantics of the grammar DSL (model/GInterp.v): the same interpreter over an abstract
    parser state that only keeps the upcoming NON-TRIVIA token kinds, the number of recorded errors and the
    `is_after_error` flag.  Node events are no-ops.  proofs/TokRefine.v shows that every run of the full parser model
    ([gexec] over [pst]) that does not panic is mirrored by this semantics, so that statements about which token
    sequences are accepted without error can be proved on token lists. *)
From Coq Require Import List NArith Bool String.
From TG.Gen Require Import GenTokens.
From TG.Model Require Import Chars Lexer Prep Tree ParserPrims GInterp.
Import ListNotations.
Close Scope string_scope.
Close Scope N_scope.
Open Scope nat_scope.
Open Scope list_scope.

Record tst := { tks : list TokenKind;      (* upcoming token kinds, head = current; [] = at Eof *)
                terr : nat;                (* number of recorded errors *)
                tafter : bool }.           (* is_after_error *)
Definition tcur (ts : tst) : TokenKind := match tks ts with k :: _ => k | [] => T_Eof end.

Inductive tres :=
| TVal (v : val) (en : env) (ts : tst)
| TBrk (en : env) (ts : tst)
| TRet (v : val) (en : env) (ts : tst)
| TStuck          (* a Rust panic (assert!), eating at Eof or eating a lexical Error token: outside what this semantics describes *)
| TOOF.

Definition t_error (ts : tst) : tst := {| tks := tks ts; terr := S (terr ts); tafter := true |}.
(** ParserBase::eat on a non-Eof, non-Error token: the token is saved (is_after_error := false), the next one becomes current *)
Definition t_eat (ts : tst) : option tst :=
  match tks ts with
  | [] => None
  | k :: r => if tk_eqb k T_Error then None else Some {| tks := r; terr := terr ts; tafter := false |}
  end.
Definition t_at_set (ts : tst) (ks : list TokenKind) : bool := existsb (tk_eqb (tcur ts)) ks.

Definition tlift (o : option tst) (en : env) : tres := match o with Some ts => TVal (VB true) en ts | None => TStuck end.

Definition texec_prim (p : prog) (pr : prim) (en : env) (ts : tst) : tres :=
  match pr with
  | PStartNode _ | PFinishNode => TVal (VB true) en ts
  | PCheckpoint => TVal (VN 0) en ts
  | PStartNodeAt x _ => match env_get en x with Some (VN _) => TVal (VB true) en ts | _ => TStuck end
  | PAssert k => if tk_eqb (tcur ts) k then tlift (t_eat ts) en else TStuck
  | PExpect k _ =>
      if tk_eqb (tcur ts) k then tlift (t_eat ts) en
      else if tafter ts then TVal (VB true) en ts else TVal (VB true) en (t_error ts)
  | PEat => tlift (t_eat ts) en
  | PEatIf k =>
      if tk_eqb (tcur ts) k then match t_eat ts with Some ts' => TVal (VB true) en ts' | None => TStuck end
      else TVal (VB false) en ts
  | PSkip => TVal (VB true) en ts
  | PError _ => TVal (VB true) en (t_error ts)
  | PErrorAndEat _ => tlift (t_eat (t_error ts)) en
  | PErrorAndRecover _ =>
      let ts1 := t_error ts in
      if negb (t_at_set ts1 (recover_tokens p)) && negb (tk_eqb (tcur ts1) T_Eof) then tlift (t_eat ts1) en
      else TVal (VB true) en ts1
  | PAtSet ks => TVal (VB (t_at_set ts ks)) en ts
  end.

Fixpoint texec (fuel : nat) (p : prog) (e : expr) (en : env) (ts : tst) : tres :=
  match fuel with
  | O => TOOF
  | S n =>
    match e with
    | EB b => TVal (VB b) en ts
    | EVar x => match env_get en x with Some v => TVal v en ts | None => TStuck end
    | ENot a =>
        match texec n p a en ts with
        | TVal (VB b) en1 ts1 => TVal (VB (negb b)) en1 ts1
        | TVal (VN _) _ _ => TStuck
        | r => r
        end
    | EPrim pr => texec_prim p pr en ts
    | ECall f arg =>
        match fn_body p f with
        | None => TStuck
        | Some body =>
            let cen := match arg with
                       | Some (x, _) => match env_get en x with Some v => Some [v] | None => None end
                       | None => Some []
                       end in
            match cen with
            | None => TStuck
            | Some cen0 =>
                let back (v : val) (cen1 : env) (ts1 : tst) :=
                  match arg with
                  | Some (x, true) => match env_get cen1 0 with
                                      | Some w => TVal v (env_set en x w) ts1
                                      | None => TStuck end
                  | _ => TVal v en ts1
                  end in
                match texec n p body cen0 ts with
                | TVal v cen1 ts1 => back v cen1 ts1
                | TRet v cen1 ts1 => back v cen1 ts1
                | TBrk _ _ => TStuck
                | TStuck => TStuck
                | TOOF => TOOF
                end
            end
        end
    | ESeq a b =>
        match texec n p a en ts with
        | TVal _ en1 ts1 => texec n p b en1 ts1
        | r => r
        end
    | EIf c a b =>
        match texec n p c en ts with
        | TVal (VB true) en1 ts1 => texec n p a en1 ts1
        | TVal (VB false) en1 ts1 => texec n p b en1 ts1
        | TVal (VN _) _ _ => TStuck
        | r => r
        end
    | EWhile c b =>
        match texec n p c en ts with
        | TVal (VB true) en1 ts1 =>
            match texec n p b en1 ts1 with
            | TVal _ en2 ts2 => texec n p (EWhile c b) en2 ts2
            | TBrk en2 ts2 => TVal (VB true) en2 ts2
            | r => r
            end
        | TVal (VB false) en1 ts1 => TVal (VB true) en1 ts1
        | TVal (VN _) _ _ => TStuck
        | r => r
        end
    | EBreak => TBrk en ts
    | EReturn a =>
        match texec n p a en ts with
        | TVal v en1 ts1 => TRet v en1 ts1
        | r => r
        end
    | ESet x a =>
        match texec n p a en ts with
        | TVal v en1 ts1 => TVal (VB true) (env_set en1 x v) ts1
        | r => r
        end
    end
  end.
