(** M-pipeline-all over an arbitrary host state: [PipelineAll.analyze_all] (b-bridge: the complete analysis and
    the nine queries) assembled from ANY session state, as [PipelineHost.analyze_from_state] does for
    [Pipeline.analyze]: files in walk order.  [aa_obs]: everything the nine queries read of an [all_answers]
    (all fields but the FileIds kept inside [aa_an]).  Executable definitions only. *)
From Coq Require Import List NArith Bool String.
From TG.Gen Require Import GenTokens GenAst GenGrammar GenCompletion.
From TG.Model Require Import Chars Lexer Prep Tree ParserPrims GInterp AstAccess.
From TG.Model Require Includes Host.
From TG.Model Require Import CoreAst AstToCore Scope Indexer Pipeline PipelineHost PipelineAll.
From TG.Model Require SymbolMap OutlineIndex.
Import ListNotations.
Close Scope string_scope.
Open Scope N_scope.
Open Scope list_scope.

(** the document links of every workspace file, in walk order (PipelineAll.analyze_links from a state) *)
Definition links_from_state (st : @Host.state fpath text) : option (list (list (N * N * N))) :=
  let '(fs2, db2) := st in
  match Includes.sroot db2 with
  | None => None
  | Some (fset, _) =>
      let ids := rev (map fst fset) in
      let doclinks (f : N) : list (Includes.rng * N) :=
        match Host.document_link db2 f with Includes.Done l => l | _ => [] end in
      Some (map (links_for ids doclinks) ids)
  end.

Definition all_from_state (pfuel : nat) (files : list (text * text)) (st : @Host.state fpath text)
  : option all_answers :=
  match analyze_from_state pfuel files st with
  | None => None
  | Some a =>
      match an_core a with
      | Ok w =>
          let s := index_ws w in
          let '(sm, ok) := full_state s (OutlineIndex.oix w) in
          Some (mkAll a w s sm ok
                      (map (fun fp : N * pfile => pf_tree (snd fp)) (an_files a))
                      (match links_from_state st with Some l => l | None => [] end)
                      (map (fun kp : N * (N * pfile) => diags_of_file a s (fst kp)) (number_from 0 (an_files a))))
      | _ => None
      end
  end.

Definition aa_obs (A : all_answers) :=
  (aa_ws A, aa_st A, aa_sm A, aa_sm_ok A, aa_trees A, aa_links A, aa_diags A).
