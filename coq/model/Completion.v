(** M-completion: model of crates/ide/src/handlers/completion.rs over the GENERATED vocabularies and
    dispatch table (gen/GenCompletion.v), the lexer model and the parser model.
    Executable definitions and the specification predicates of property C20 (no proofs here). *)
From Coq Require Import List NArith Bool String Decimal.
From TG.Gen Require Import GenTokens GenLexTables GenCompletion GenGrammar GenAst.
From TG.Model Require Import Chars Lexer Prep Tree ParserPrims GInterp.
Import ListNotations.
Close Scope string_scope.
Open Scope list_scope.
Open Scope N_scope.

(** * Vocabularies *)
Definition item_label (i : comp_item) : text := fst (fst i).
Definition item_snippet (i : comp_item) : option text := snd (fst i).
Definition labels (l : list comp_item) : list text := map item_label l.

Definition offered_keywords : list text := labels toplevel_keyword_items.
Definition offered_types : list text := labels primitive_type_items.
Definition offered_values : list text := labels primitive_value_items.
Definition offered_bangops : list text := labels bang_operator_items.

(** * Lexing one word: "the lexer recognises [w] as exactly one token of kind [k]" *)
Definition lexes_as (w : text) (k : TokenKind) : Prop :=
  lex_text w = [(k, None, w); (T_Eof, None, [])].

(** executable form *)
Definition lex_single (w : text) : option TokenKind :=
  match lex_text w with
  | [(k, None, a); (T_Eof, None, [])] => if list_eqb a w then Some k else None
  | _ => None
  end.

(** a keyword / type name / boolean literal is closed under the lexer: the T! macro gives the kind
    the spelling denotes, the lexer produces exactly that single token, and it is neither a plain
    identifier nor a lexical error *)
Definition keyword_ok (w : text) : Prop :=
  exists k, lookup spelling_table w = Some k /\ lexes_as w k /\ k <> T_Id /\ k <> T_Error.
Definition keyword_ok_b (w : text) : bool :=
  match lookup spelling_table w, lex_single w with
  | Some k, Some k' => tk_eqb k k' && negb (tk_eqb k T_Id) && negb (tk_eqb k T_Error)
  | _, _ => false
  end.

(** the text typed when a bang operator completion is accepted after `!` *)
Definition bang_text (o : text) : text := bang_trigger ++ o.
Definition is_operator_kind (k : TokenKind) : bool := is_bang_operator k || is_cond_operator k.
(** an operator name is closed under the lexer: `!name` is exactly one operator token, and when the
    T! macro knows the spelling `!name` it denotes that same kind *)
Definition bangop_ok (o : text) : Prop :=
  exists k, lexes_as (bang_text o) k /\ is_operator_kind k = true /\
            (forall k', lookup spelling_table (bang_text o) = Some k' -> k' = k).
Definition bangop_ok_b (o : text) : bool :=
  match lex_single (bang_text o) with
  | Some k => is_operator_kind k &&
              match lookup spelling_table (bang_text o) with Some k' => tk_eqb k' k | None => true end
  | None => false
  end.

(** * A statement keyword starts a statement the parser accepts *)
Definition first_stmt (t : tree) : option tree :=
  match t with
  | Node S_SourceFile cs =>
      match child_nodes (fun k => sk_eqb k S_StatementList) t with
      | sl :: _ => hd_error (filter is_node (children_of sl))
      | [] => None
      end
  | _ => None
  end.
Definition first_leaf_text (t : tree) : option text :=
  match leaves t with (_, _, _, txt) :: _ => Some txt | [] => None end.
Definition statement_kinds : list SyntaxKind := ast_enum_kinds "Statement"%string.

Definition parse_fuel : nat := 4000.
(** [src] parses without any syntax error and its first top-level statement is a node of a
    Statement kind whose first token is the keyword [w] *)
Definition accepted_statement_from (w src : text) : Prop :=
  exists fuel t st stmt, parse_with fuel grammar_prog grammar_entry src = ParseOk t [] st /\
     first_stmt t = Some stmt /\ In (kind_of stmt) statement_kinds /\ first_leaf_text stmt = Some w.
Definition accepted_statement_from_b (w src : text) : bool :=
  match parse_with parse_fuel grammar_prog grammar_entry src with
  | ParseOk t [] _ =>
      match first_stmt t with
      | Some stmt => existsb (sk_eqb (kind_of stmt)) statement_kinds &&
                     match first_leaf_text stmt with Some a => list_eqb a w | None => false end
      | None => false
      end
  | _ => false
  end.
Definition starts_statement (w : text) : Prop := exists rest, accepted_statement_from w (w ++ rest).

(** * complete_classes *)
Record class_sym := { cs_name : text; cs_ntargs : nat }.

Fixpoint chars_of_uint (u : Decimal.uint) : text :=
  match u with
  | Nil => []
  | D0 r => 48 :: chars_of_uint r | D1 r => 49 :: chars_of_uint r | D2 r => 50 :: chars_of_uint r
  | D3 r => 51 :: chars_of_uint r | D4 r => 52 :: chars_of_uint r | D5 r => 53 :: chars_of_uint r
  | D6 r => 54 :: chars_of_uint r | D7 r => 55 :: chars_of_uint r | D8 r => 56 :: chars_of_uint r
  | D9 r => 57 :: chars_of_uint r
  end.
(** Rust `format!("{}", n)` for an unsigned integer: decimal, no leading zeros, "0" for zero *)
Definition dec (n : N) : text := chars_of_uint (N.to_uint n).

Fixpoint join (sep : text) (l : list text) : text :=
  match l with
  | [] => []
  | [a] => a
  | a :: r => a ++ sep ++ join sep r
  end.

Definition placeholder (i : nat) : text := cls_ph_pre ++ dec (N.of_nat i + cls_ph_offset) ++ cls_ph_post.
Definition arg_snippet (n : nat) : text := join cls_sep (map placeholder (seq 0 n)).
Definition class_snippet (c : class_sym) : text :=
  cls_item_pre ++ cs_name c ++ cls_item_mid ++
  (match arg_snippet (cs_ntargs c) with [] => [] | a => cls_args_open ++ a ++ cls_args_close end) ++
  cls_item_post.
Definition class_item (c : class_sym) : comp_item := (cs_name c, Some (class_snippet c), IKClass).
Definition complete_classes (cl : list class_sym) : list comp_item := map class_item cl.

(** * exec: context dispatch *)
Definition dispatch (gp : SyntaxKind) : option comp_action :=
  match find (fun arm => existsb (sk_eqb gp) (fst arm)) dispatch_arms with
  | Some arm => Some (snd arm)
  | None => None
  end.
Definition action_items (cl : list class_sym) (a : comp_action) : list comp_item :=
  match a with
  | ActToplevelKeywords => toplevel_keyword_items
  | ActPrimitiveValues => primitive_value_items
  | ActClasses => complete_classes cl
  | ActPrimitiveTypes => primitive_type_items
  end.
Definition context_items (cl : list class_sym) (trigger : option text) (gp : SyntaxKind) : list comp_item :=
  (match trigger with
   | Some t => if list_eqb t bang_trigger then bang_operator_items else []
   | None => [] end) ++
  match dispatch gp with Some a => action_items cl a | None => [] end.

(** kinds of the ancestors (nearest first) of the token `token_at_offset(off).left_biased()`:
    the first non-empty leaf whose range [lo, hi] contains [off] (rowan skips empty children) *)
Fixpoint anc_at (fuel : nat) (off base : N) (t : tree) (anc : list SyntaxKind) : option (list SyntaxKind) :=
  match fuel with
  | O => None
  | S n =>
    match t with
    | Tok _ txt => if (negb (bytes txt =? 0)) && (base <=? off) && (off <=? base + bytes txt) then Some anc else None
    | Node k cs =>
        (fix go (b : N) (l : list tree) : option (list SyntaxKind) :=
           match l with
           | [] => None
           | c :: r =>
               let len := tree_len c in
               if (negb (len =? 0)) && (b <=? off) && (off <=? b + len) then anc_at n off b c (k :: anc)
               else go (b + len) r
           end) base cs
    end
  end.
Fixpoint tree_depth (t : tree) : nat :=
  match t with
  | Tok _ _ => 1
  | Node _ cs => S (fold_right (fun c a => Nat.max (tree_depth c) a) O cs)
  end.
Definition ancestors_at (t : tree) (off : N) : option (list SyntaxKind) := anc_at (S (tree_depth t)) off 0 t [].

(** handlers::completion::exec on a parsed file (None = the `?` early returns) *)
Definition completion_model (cl : list class_sym) (t : tree) (off : N) (trigger : option text) : option (list comp_item) :=
  match ancestors_at t off with
  | Some (_ :: gp :: _) => Some (context_items cl trigger gp)
  | _ => None
  end.

(** * LSP snippet tab stops: `$n` and `${n}` (the only snippet syntax completion.rs emits) *)
Definition digit_of (c : N) (r : Decimal.uint) : option Decimal.uint :=
  if c =? 48 then Some (D0 r) else if c =? 49 then Some (D1 r) else if c =? 50 then Some (D2 r)
  else if c =? 51 then Some (D3 r) else if c =? 52 then Some (D4 r) else if c =? 53 then Some (D5 r)
  else if c =? 54 then Some (D6 r) else if c =? 55 then Some (D7 r) else if c =? 56 then Some (D8 r)
  else if c =? 57 then Some (D9 r) else None.
(** longest digit prefix as a Decimal.uint, and the rest *)
Fixpoint read_uint (s : text) : Decimal.uint * text :=
  match s with
  | c :: r => if is_ascii_digit c
              then let '(u, rest) := read_uint r in
                   match digit_of c u with Some u' => (u', rest) | None => (Nil, s) end
              else (Nil, s)
  | [] => (Nil, [])
  end.
Definition uint_is_nil (u : Decimal.uint) : bool := match u with Nil => true | _ => false end.
Definition starts_with (c : N) (s : text) : bool := match s with d :: _ => d =? c | [] => false end.

(** tab stop numbers in order of occurrence.  Structural: after a `$` the scan continues with the
    next character (digits, `{` and `}` never start a tab stop, so nothing is counted twice). *)
Definition tabstop_at (r : text) : option N :=
  if starts_with 123 r then
    let '(u, rest) := read_uint (tl r) in
    if negb (uint_is_nil u) && starts_with 125 rest then Some (N.of_uint u) else None
  else
    let '(u, _) := read_uint r in
    if uint_is_nil u then None else Some (N.of_uint u).
Fixpoint tabstops (s : text) : list N :=
  match s with
  | [] => []
  | c :: r =>
      if c =? 36 then
        match tabstop_at r with Some n => n :: tabstops r | None => tabstops r end
      else tabstops r
  end.
