(** M-gramabs: abstract execution of the generated grammar program against the documented grammar.

    Every grammar function is either an *NT function* (it parses one documented nonterminal: on every
    error-free path the tokens it consumes form a word of that nonterminal, or - when it returns false -
    it consumes nothing) or an *inline function* (executed in the context of its caller).  The abstract
    state is a set of possible look-ahead kinds, the known boolean locals, a *residual* regular expression
    (partial derivative of the documented right-hand side by what has been consumed so far; nonterminal
    letters stand for calls of NT functions; nonterminals without a function are unfolded) and a flag
    "something was consumed".  Error-recording primitives are dead ends (only error-free paths matter).
    [check_all] is evaluated by vm_compute on the generated program; its soundness is proved in
    proofs/GramSound.v. *)
From Coq Require Import List NArith Bool String.
From TG.Gen Require Import GenTokens.
From TG.Model Require Import Chars Lexer Prep Tree ParserPrims GInterp DocGrammar.
Import ListNotations.
Close Scope string_scope.
Open Scope list_scope.

(** * Regular expressions: equality, nullability, partial derivatives *)
Fixpoint kinds_eqb (a b : list TokenKind) : bool :=
  match a, b with
  | [], [] => true
  | x :: a', y :: b' => tk_eqb x y && kinds_eqb a' b'
  | _, _ => false
  end.
Definition dsym_eqb (a b : dsym) : bool :=
  match a, b with
  | DTok x, DTok y => kinds_eqb x y
  | DNT x, DNT y => Nat.eqb x y
  | _, _ => false
  end.
Fixpoint rx_eqb (a b : rx) : bool :=
  match a, b with
  | RNone, RNone | REps, REps => true
  | RSym x, RSym y => dsym_eqb x y
  | RSeq a1 a2, RSeq b1 b2 | RAlt a1 a2, RAlt b1 b2 => rx_eqb a1 b1 && rx_eqb a2 b2
  | RStar x, RStar y => rx_eqb x y
  | _, _ => false
  end.

Definition mk_seq (a b : rx) : rx :=
  match a with
  | REps => b
  | RNone => RNone
  | _ => RSeq a b
  end.

Section Deriv.
  Variable G : grammar.
  Variable unf : nat -> bool.        (* nonterminals that are unfolded (no grammar function parses them) *)

  (** nullable: a nonterminal letter is nullable only through unfolding *)
  Fixpoint nullable (fuel : nat) (r : rx) : bool :=
    match fuel with
    | O => false
    | S n =>
      match r with
      | RNone => false
      | REps => true
      | RSym (DTok _) => false
      | RSym (DNT m) => if unf m then match nth_error G m with Some rhs => nullable n rhs | None => false end else false
      | RSeq a b => nullable n a && nullable n b
      | RAlt a b => nullable n a || nullable n b
      | RStar _ => true
      end
    end.

  (** partial derivatives by a letter: a token kind (inl) or a nonterminal (inr) *)
  Definition letter := (TokenKind + nat)%type.
  Fixpoint pd (fuel : nat) (l : letter) (r : rx) : list rx :=
    match fuel with
    | O => []
    | S n =>
      match r with
      | RNone | REps => []
      | RSym (DTok ks) => match l with inl k => if existsb (tk_eqb k) ks then [REps] else [] | inr _ => [] end
      | RSym (DNT m) =>
          (match l with inr m' => if Nat.eqb m m' then [REps] else [] | inl _ => [] end) ++
          (if unf m then match nth_error G m with Some rhs => pd n l rhs | None => [] end else [])
      | RSeq a b => map (fun a' => mk_seq a' b) (pd n l a) ++ (if nullable n a then pd n l b else [])
      | RAlt a b => pd n l a ++ pd n l b
      | RStar a => map (fun a' => mk_seq a' (RStar a)) (pd n l a)
      end
    end.
End Deriv.

Fixpoint dedup_rx (l : list rx) : list rx :=
  match l with
  | [] => []
  | x :: r => if existsb (rx_eqb x) r then dedup_rx r else x :: dedup_rx r
  end.

(** * Abstract states *)
Record astate := { aL : list TokenKind; aenv : list (option bool); ar : list rx; ac : bool }.   (* ar: a SET of residuals *)
Definition aval := option bool.                       (* None: unknown / not a boolean *)

Definition kset_mem (k : TokenKind) (s : list TokenKind) : bool := existsb (tk_eqb k) s.
Definition kset_inter (a b : list TokenKind) := filter (fun k => kset_mem k b) a.
Definition kset_diff (a b : list TokenKind) := filter (fun k => negb (kset_mem k b)) a.

Definition oeqb (a b : option bool) : bool :=
  match a, b with
  | None, None => true
  | Some x, Some y => Bool.eqb x y
  | _, _ => false
  end.
Fixpoint env_eqb (a b : list (option bool)) : bool :=
  match a, b with
  | [], [] => true
  | x :: a', y :: b' => oeqb x y && env_eqb a' b'
  | _, _ => false
  end.
Definition rxset_sub (a b : list rx) : bool := forallb (fun x => existsb (rx_eqb x) b) a.
Definition astate_eqb (a b : astate) : bool :=
  kinds_eqb (aL a) (aL b) && env_eqb (aenv a) (aenv b) && rxset_sub (ar a) (ar b) && rxset_sub (ar b) (ar a) &&
  Bool.eqb (ac a) (ac b).

Definition aenv_get (en : list (option bool)) (x : nat) : aval :=
  match nth_error en x with Some v => v | None => None end.
Fixpoint aenv_set (en : list (option bool)) (x : nat) (v : aval) : list (option bool) :=
  match x, en with
  | O, [] => [v]
  | O, _ :: r => v :: r
  | S n, [] => None :: aenv_set [] n v
  | S n, a :: r => a :: aenv_set r n v
  end.

Record aouts := { o_norm : list (aval * astate); o_brk : list astate; o_ret : list (aval * astate) }.
Definition outs_nil : aouts := {| o_norm := []; o_brk := []; o_ret := [] |}.
Definition outs_app (a b : aouts) : aouts :=
  {| o_norm := o_norm a ++ o_norm b; o_brk := o_brk a ++ o_brk b; o_ret := o_ret a ++ o_ret b |}.

Inductive fn_mode := FInline | FNT (n : nat) (can_true can_false : bool).

(** the certificate: mode of every grammar function, the unfolded nonterminals, fuel for derivatives *)
Record cert := { c_mode : nat -> fn_mode; c_unf : nat -> bool; c_dfuel : nat }.

Section Abs.
  Variable G : grammar.
  Variable p : prog.
  Variable C : cert.

  Definition all_kinds : list TokenKind := all_token_kinds.
  Definition a_pd (l : letter) (rs : list rx) : list rx := dedup_rx (flat_map (pd G (c_unf C) (c_dfuel C) l) rs).
  Definition a_nullable (rs : list rx) : bool := existsb (nullable G (c_unf C) (c_dfuel C)) rs.

  (** consume one token of kind [k]: None when the documented right-hand side allows no such token here *)
  Definition consume (k : TokenKind) (st : astate) : option (list astate) :=
    if sk_is_trivia (sk_of_tk k) then Some [{| aL := all_kinds; aenv := aenv st; ar := ar st; ac := true |}]
    else match a_pd (inl k) (ar st) with
         | [] => None
         | rs => Some [{| aL := all_kinds; aenv := aenv st; ar := rs; ac := true |}]
         end.
  Definition with_L (st : astate) (L : list TokenKind) : astate :=
    {| aL := L; aenv := aenv st; ar := ar st; ac := ac st |}.
  Definition with_env (st : astate) (en : list (option bool)) : astate :=
    {| aL := aL st; aenv := en; ar := ar st; ac := ac st |}.

  (** `p.eat()`: the current token may be any kind of the look-ahead set; every one must be allowed *)
  Fixpoint eat_any (st : astate) (ks : list TokenKind) : option (list (aval * astate)) :=
    match ks with
    | [] => Some []
    | k :: r => match consume k st, eat_any st r with
                | Some l, Some l' => Some (map (fun s => (Some true, s)) l ++ l')
                | _, _ => None
                end
    end.

  (** result of an abstract step: [None] = the check fails *)
  Definition aprim (pr : prim) (st : astate) : option (list (aval * astate)) :=
    let unit_ok := Some [(Some true, st)] in
    match pr with
    | PStartNode _ | PFinishNode | PStartNodeAt _ _ => unit_ok
    | PCheckpoint => Some [(None, st)]
    | PAssert k | PExpect k _ =>
        if kset_mem k (aL st)
        then match consume k st with Some l => Some (map (fun s => (Some true, s)) l) | None => None end
        else Some []
    | PEat => eat_any st (aL st)
    | PEatIf k =>
        let no := match kset_diff (aL st) [k] with [] => [] | L' => [(Some false, with_L st L')] end in
        if kset_mem k (aL st)
        then match consume k st with Some l => Some (map (fun s => (Some true, s)) l ++ no) | None => None end
        else Some no
    | PSkip => Some [(Some true, {| aL := all_kinds; aenv := aenv st; ar := ar st; ac := true |})]
    | PError _ | PErrorAndEat _ | PErrorAndRecover _ => Some []
    | PAtSet ks =>
        Some ((match kset_inter (aL st) ks with [] => [] | L' => [(Some true, with_L st L')] end) ++
              (match kset_diff (aL st) ks with [] => [] | L' => [(Some false, with_L st L')] end))
    end.

  Definition dedup_states (l : list astate) : list astate :=
    (fix go (l : list astate) : list astate :=
       match l with
       | [] => []
       | x :: r => if existsb (astate_eqb x) r then go r else x :: go r
       end) l.
  Definition subset_states (a b : list astate) : bool := forallb (fun x => existsb (astate_eqb x) b) a.

  (** run [f] from every state of a list and collect *)
  Definition run_all (f : astate -> option aouts) (l : list astate) : option aouts :=
    fold_right (fun st acc => match f st, acc with Some o, Some o' => Some (outs_app o o') | _, _ => None end)
               (Some outs_nil) l.
  (** continue from the normal exits of [o] with [k] (which may look at the value) *)
  Definition bind_norm (o : aouts) (k : aval -> astate -> option aouts) : option aouts :=
    fold_right (fun vs acc => match k (fst vs) (snd vs), acc with
                              | Some o1, Some o2 => Some (outs_app o1 o2) | _, _ => None end)
               (Some {| o_norm := []; o_brk := o_brk o; o_ret := o_ret o |}) (o_norm o).

  Definition neg_aval (v : aval) : aval := match v with Some b => Some (negb b) | None => None end.

  (** one round of a loop from a set of head states [I]: (exits = condition false or break; returns), next head states *)
  Definition wround (exc exb : astate -> option aouts) (I : list astate) : option (aouts * list astate) :=
    match run_all exc I with
    | None => None
    | Some oc =>
      match o_brk oc with
      | _ :: _ => None                 (* a `break` inside a loop condition *)
      | [] =>
        match bind_norm {| o_norm := filter (fun vs => match fst vs with Some false => false | _ => true end) (o_norm oc);
                           o_brk := []; o_ret := [] |} (fun _ st1 => exb st1) with
        | None => None
        | Some ob =>
            let exits := map snd (filter (fun vs => match fst vs with Some true => false | _ => true end) (o_norm oc)) ++ o_brk ob in
            Some ({| o_norm := map (fun s => (Some true, s)) exits; o_brk := []; o_ret := o_ret oc ++ o_ret ob |},
                  map snd (o_norm ob))
        end
      end
    end.
  (** grow the head set until it is inductive (the next heads are already in it); the result is that of the last round *)
  Fixpoint witer (exc exb : astate -> option aouts) (k : nat) (I : list astate) : option aouts :=
    match k with
    | O => None
    | S k' =>
        match wround exc exb I with
        | None => None
        | Some (res, next) =>
            if subset_states next I then Some res else witer exc exb k' (I ++ next)
        end
    end.

  Fixpoint aexec (fuel : nat) (e : expr) (st : astate) : option aouts :=
    match fuel with
    | O => None
    | S n =>
      match e with
      | EB b => Some {| o_norm := [(Some b, st)]; o_brk := []; o_ret := [] |}
      | EVar x => Some {| o_norm := [(aenv_get (aenv st) x, st)]; o_brk := []; o_ret := [] |}
      | ENot a =>
          match aexec n a st with
          | Some o => Some {| o_norm := map (fun vs => (neg_aval (fst vs), snd vs)) (o_norm o); o_brk := o_brk o; o_ret := o_ret o |}
          | None => None
          end
      | EPrim pr =>
          match aprim pr st with
          | Some l => Some {| o_norm := l; o_brk := []; o_ret := [] |}
          | None => None
          end
      | ECall f arg =>
          match c_mode C f with
          | FNT m ct cf =>
              match arg with
              | Some (_, true) => None                       (* by-reference argument: must be inline *)
              | _ =>
                  let ds := a_pd (inr m) (ar st) in
                  match ct, ds with
                  | true, [] => None                           (* the documented right-hand side allows no [m] here *)
                  | _, _ =>
                      Some {| o_norm :=
                                (if ct then [(Some true, {| aL := all_kinds; aenv := aenv st; ar := ds; ac := true |})] else []) ++
                                (if cf then [(Some false, st)] else []);
                              o_brk := []; o_ret := [] |}
                  end
              end
          | FInline =>
              match fn_body p f with
              | None => None
              | Some body =>
                  let cen := match arg with Some (x, _) => [aenv_get (aenv st) x] | None => [] end in
                  match aexec n body (with_env st cen) with
                  | None => None
                  | Some o =>
                      match o_brk o with
                      | _ :: _ => None
                      | [] =>
                          let back (vs : aval * astate) : aval * astate :=
                            match arg with
                            | Some (x, true) => (fst vs, with_env (snd vs) (aenv_set (aenv st) x (aenv_get (aenv (snd vs)) 0)))
                            | _ => (fst vs, with_env (snd vs) (aenv st))
                            end in
                          Some {| o_norm := map back (o_norm o ++ o_ret o); o_brk := []; o_ret := [] |}
                      end
                  end
              end
          end
      | ESeq a b =>
          match aexec n a st with
          | Some o => bind_norm o (fun _ st1 => aexec n b st1)
          | None => None
          end
      | EIf c a b =>
          match aexec n c st with
          | Some o => bind_norm o (fun v st1 =>
                        match v with
                        | Some true => aexec n a st1
                        | Some false => aexec n b st1
                        | None => match aexec n a st1, aexec n b st1 with
                                  | Some o1, Some o2 => Some (outs_app o1 o2) | _, _ => None end
                        end)
          | None => None
          end
      | EWhile c b => witer (aexec n c) (aexec n b) n [st]
      | EBreak => Some {| o_norm := []; o_brk := [st]; o_ret := [] |}
      | EReturn a =>
          match aexec n a st with
          | Some o => Some {| o_norm := []; o_brk := o_brk o; o_ret := o_norm o ++ o_ret o |}
          | None => None
          end
      | ESet x a =>
          match aexec n a st with
          | Some o => Some {| o_norm := map (fun vs => (Some true, with_env (snd vs) (aenv_set (aenv (snd vs)) x (fst vs)))) (o_norm o);
                              o_brk := o_brk o; o_ret := o_ret o |}
          | None => None
          end
      end
    end.

  (** * The check of one NT function and of the program *)
  Definition init_state (rhs : rx) : astate :=
    {| aL := all_kinds; aenv := [None]; ar := [rhs]; ac := false |}.

  Definition exit_ok (ct cf : bool) (vs : aval * astate) : bool :=
    match fst vs with
    | Some true => ct && a_nullable (ar (snd vs))       (* returned true: the consumed word is a word of the nonterminal *)
    | Some false => cf && negb (ac (snd vs))            (* returned false: nothing was consumed *)
    | None => false
    end.

  Definition check_fn (fuel : nat) (f : nat) : bool :=
    match c_mode C f with
    | FInline => true
    | FNT m ct cf =>
        match fn_body p f, nth_error G m with
        | Some body, Some rhs =>
            match aexec fuel body (init_state rhs) with
            | None => false
            | Some o => match o_brk o with [] => forallb (exit_ok ct cf) (o_norm o ++ o_ret o) | _ => false end
            end
        | _, _ => false
        end
    end.

  Definition check_all (fuel : nat) (entry start : nat) : bool :=
    forallb (check_fn fuel) (seq 0 (List.length (fns p))) &&
    match c_mode C entry with FNT m true false => Nat.eqb m start | _ => false end.
End Abs.
