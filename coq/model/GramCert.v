(** Certificate for the inclusion check of proofs/GramSound.v (untrusted: [check_all] verifies it):
    which grammar function parses which documented nonterminal.  Keyed by NAMES (function names of the
    generated program, nonterminal names of the generated documented grammar), so that it survives
    re-numbering; a function that is not listed is executed inline in its callers. *)
From Coq Require Import List NArith Bool String.
From TG.Gen Require Import GenTokens GenGrammar GenDocGrammar.
From TG.Model Require Import GInterp DocGrammar GramAbs.
Import ListNotations.
Open Scope string_scope.

(** function name, documented nonterminal, may return true (having parsed it), may return false (having consumed nothing) *)
Definition nt_functions : list (string * (string * bool * bool)) :=
  [ ("source_file", ("SourceFile", true, false))
  ; ("statement_list_TopLevel", ("StatementList", true, false))
  ; ("statement", ("Statement", true, false))
  ; ("include", ("Include", true, false)); ("assert", ("Assert", true, false)); ("class", ("Class", true, false))
  ; ("def", ("Def", true, false)); ("let", ("Let", true, false))
  ; ("let_item", ("LetItem", true, false)); ("multi_class", ("MultiClass", true, false))
  ; ("multi_class_statement", ("MultiClassStatement", true, false)); ("defm", ("Defm", true, false))
  ; ("defset", ("Defset", true, false)); ("defvar", ("Defvar", true, false)); ("dump", ("Dump", true, false))
  ; ("foreach", ("Foreach", true, false)); ("foreach_iterator", ("ForeachIterator", true, false))
  ; ("foreach_iterator_init", ("ForeachIteratorInit", true, false)); ("if", ("If", true, false))
  ; ("template_arg_list", ("TemplateArgList", true, false)); ("template_arg_decl", ("TemplateArgDecl", true, false))
  ; ("record_body", ("RecordBody", true, false))
  ; ("class_ref", ("ClassRef", true, false)); ("arg_value_list", ("ArgValueList_Trail", true, false))
  ; ("body_item", ("BodyItem", true, true))
  ; ("field_def", ("FieldDef", true, false)); ("field_let", ("FieldLet", true, false))
  ; ("type", ("Type", true, false)); ("bit_type", ("BitType", true, false)); ("int_type", ("IntType", true, false))
  ; ("string_type", ("StringType", true, false)); ("dag_type", ("DagType", true, false)); ("bits_type", ("BitsType", true, false))
  ; ("list_type", ("ListType", true, false)); ("code_type", ("CodeType", true, false)); ("class_id", ("ClassId", true, false))
  ; ("value", ("Value", true, false)); ("inner_value", ("InnerValue", true, false)); ("simple_value", ("SimpleValue", true, false))
  ; ("name_value", ("Value", true, false)); ("inner_name_value", ("InnerValue", true, false))
  
  
  ; ("bits", ("Bits", true, false)); ("list", ("List", true, false)); ("dag", ("Dag", true, false))
  ; ("dagarg", ("DagArg", true, false))
  
  ; ("value_suffix", ("ValueSuffix", true, true)); ("range_suffix", ("RangeSuffix", true, false))
  ; ("range_piece", ("RangePiece", true, false))
  ; ("slice_suffix", ("SliceSuffix", true, false))
  ; ("slice_element", ("SliceElement", true, false)); ("field_suffix", ("FieldSuffix", true, false))
  ; ("bang_operator", ("BangOperator", true, false)); ("cond_operator", ("CondOperator", true, false))
  ; ("cond_clause", ("CondClause", true, false)) ].

Fixpoint index_of (s : string) (l : list string) (i : nat) : option nat :=
  match l with
  | [] => None
  | x :: r => if String.eqb x s then Some i else index_of s r (S i)
  end.
Definition nt_index (s : string) : option nat := index_of s doc_nt_names 0.
Definition fn_name (f : nat) : string := nth f grammar_fn_names "".

Definition cert_mode (f : nat) : fn_mode :=
  match find (fun e => String.eqb (fst e) (fn_name f)) nt_functions with
  | Some (_, (nt, ct, cf)) => match nt_index nt with Some m => FNT m ct cf | None => FInline end
  | None => FInline
  end.
(** a nonterminal is unfolded iff no listed function parses it *)
Definition cert_unf (m : nat) : bool :=
  negb (existsb (fun e => match nt_index (fst (fst (snd e))) with Some m' => Nat.eqb m m' | None => false end) nt_functions).

Definition grammar_cert : cert := {| c_mode := cert_mode; c_unf := cert_unf; c_dfuel := 40 |}.
Definition check_fuel : nat := 60.
