(** M-host: the executable instance used by extraction and by the Examples: paths and include
    strings are lists of segments (numbers interned by the driver), [join d s = d ++ s],
    [parent p] drops the last segment ([None] for the empty path, as Path::parent of ""). *)
From Coq Require Import List NArith Bool.
From TG.Model Require Import Includes Host.
Import ListNotations.
Open Scope N_scope.

Definition spath := list N.

Fixpoint lN_eqb (a b : list N) : bool :=
  match a, b with
  | [], [] => true
  | x :: a', y :: b' => (x =? y) && lN_eqb a' b'
  | _, _ => false
  end.

Definition sparent (p : spath) : option spath :=
  match p with [] => None | _ => Some (removelast p) end.

Global Instance SegPath : PathAlg spath spath :=
  {| path_eqb := lN_eqb; parent := sparent; join := fun d s => d ++ s |}.

Definition scontent := content spath.
Definition sworld := world spath spath.

Definition mk_world (files : list (spath * scontent)) (ex : list spath) : sworld :=
  {| disk := fun p => assoc p files; extra := ex |}.

Definition sstate := @state spath spath.

(** one step of a history: kind 0 = touch (Server::set_file_content), 1 = raw set_file_content *)
Definition step (fuel : nat) (w : sworld) (st : sstate) (raw : bool) (p : spath) (c : scontent)
  : outcome sstate :=
  if raw then Done (raw_set_content st p c) else touch fuel w st p c.
