(** M-host: the executable instance used by extraction and by the Examples: paths and include
    strings are lists of segments (numbers interned by the driver), [join d s = d ++ s],
    [parent p] drops the last segment ([None] for the empty path, as Path::parent of ""). *)
From Coq Require Import List NArith Bool.
From TG.Model Require Import Includes Host.
Import ListNotations.
Open Scope N_scope.

Definition spath := list N.

Fixpoint lN_eqb (a b : list N) : bool :=
  match a, b with
  | [], [] => true
  | x :: a', y :: b' => (x =? y) && lN_eqb a' b'
  | _, _ => false
  end.

Definition sparent (p : spath) : option spath :=
  match p with [] => None | _ => Some (removelast p) end.

Global Instance SegPath : PathAlg spath spath :=
  {| path_eqb := lN_eqb; parent := sparent; join := fun d s => d ++ s |}.

Definition scontent := content spath.
Definition sworld := world spath spath.

Definition mk_world (files : list (spath * scontent)) (ex : list spath) : sworld :=
  {| disk := fun p => assoc p files; extra := ex |}.

Definition sstate := @state spath spath.

(** one step of a history: kind 0 = touch (Server::set_file_content), 1 = raw set_file_content *)
Definition step (fuel : nat) (w : sworld) (st : sstate) (raw : bool) (p : spath) (c : scontent)
  : outcome sstate :=
  if raw then Done (raw_set_content st p c) else touch fuel w st p c.

(** a flat numeric digest of a session state (id table order, per file: id, content tag, include map;
    source root; the index trace), used by the checks to cross-check the extracted OCaml code against
    [vm_compute] inside Coq on a slice of every batch *)
Definition ev_digest (e : event) : list N :=
  match e with
  | EvFile f => [1; f]
  | EvDecl f n => [2; f; n]
  | EvNotFound f (lo, hi) => [3; f; lo; hi]
  end.

Definition digest (fuel : nat) (st : sstate) : list N :=
  let '(fs, db) := st in
  flat_map (fun pf : spath * N =>
              let f := snd pf in
              f :: match fc db f with Some c => 1 + c_tag c | None => 0 end
                :: match rim db f with
                   | Some m => (1 + N.of_nat (length m))
                               :: flat_map (fun x : rng * N => [fst (fst x); snd (fst x); snd x]) m
                   | None => [0]
                   end)
           (rev (ids fs))
  ++ match sroot db with
     | Some (fset, root) => (1 + root) :: map fst fset
     | None => [0]
     end
  ++ match sroot db with
     | None => []
     | Some _ => match index fuel db with
                 | Done tr => 1 :: flat_map ev_digest tr
                 | OutOfFuel => [2]
                 | Panic _ => [3]
                 end
     end.

Fixpoint run_digests (fuel : nat) (w : sworld) (st : sstate) (h : list (bool * spath * scontent))
  : list (list N) :=
  match h with
  | [] => []
  | (raw, p, c) :: r =>
      match step fuel w st raw p c with
      | Done st' => digest fuel st' :: run_digests fuel w st' r
      | OutOfFuel => [[777777]]
      | Panic _ => [[888888]]
      end
  end.
