(** ParserMonad: the hand-written part of the SHALLOW embedding in which tools/translate/t_parser.py renders
    crates/syntax/src/parser.rs (coq/gen/GenParser.v, regenerated from the sources on every run).

    Defined here ONCE (trusted / modelled, like ScanMonad.v for the lexer and PrepMonad.v for the preprocessor):
    - the state of `ParserBase<PreProcessor<Lexer>>` (= `Parser`): the inner token stream (the PreProcessor state of
      PrepMonad.v), `current`, `current_range` (a pair of byte offsets), the rowan `GreenNodeBuilder` (the record
      ParserPrims.builder), `errors` (`Vec<SyntaxError>` as a list in PUSH ORDER of (start, end, message string)),
      `is_after_error`;
    - the state monad [QM R A] / whole functions [QF A] over that state (results [pres] / [fres] of PrepMonad.v),
      loops with fuel (fuel = characters left in the innermost scanner + 2 at loop entry: every iteration of `skip`
      lexes one token of the preprocessor and every trivia token is non-empty);
    - the calls on the generic parameter `T: TokenStream`, instantiated with `PreProcessor<Lexer>`: they run the
      GENERATED functions GenPrep.gp_eat / gp_cursor / gp_text / gp_take_error on the field [pb_ts];
    - rowan::GreenNodeBuilder: token / start_node / start_node_at / finish_node / checkpoint / finish bound to
      ParserPrims.b_* (the trusted contract of rowan, as before; [None] of the contract = a rowan assertion = Panic);
    - `assert!`, `Option::expect`, `TextRange::new` (asserts start <= end), `usize -> TextSize` (`try_into`, assumed
      to succeed: texts shorter than 4 GiB), `SyntaxError::new`, `Vec::new / push`, `[T]::contains`.
    Everything else of the parser primitives is GENERATED. *)
From Coq Require Import List NArith Bool String.
From TG.Gen Require Import GenTokens GenPrep.
From TG.Model Require Import Chars ScanMonad PrepMonad Tree ParserPrims.
Import ListNotations.
Open Scope N_scope.

(** * State of ParserBase<PreProcessor<Lexer>> *)
Definition syntax_error := (N * N * string)%type.          (* SyntaxError { range: start..end, message } *)
Record gps := mk_gps {
  pb_ts : PrepMonad.pp;
  pb_current : TokenKind;
  pb_range : N * N;
  pb_builder : builder;
  pb_errors : list syntax_error;                             (* Vec in push order: oldest first *)
  pb_after : bool
}.

(** * The monad (same shape as PrepMonad.PM, over [gps]) *)
Definition QM (R A : Type) : Type := gps -> pres R A * gps.
Definition qret {R A} (a : A) : QM R A := fun st => (PNorm a, st).
Definition qbind {R A B} (m : QM R A) (f : A -> QM R B) : QM R B :=
  fun st => match m st with
            | (PNorm a, st') => f a st'
            | (PRet r, st') => (PRet r, st')
            | (PPanic, st') => (PPanic, st')
            | (POof, st') => (POof, st')
            end.
Definition qearly {R A} (r : R) : QM R A := fun st => (PRet r, st).
Definition q_unreachable {R A} : QM R A := fun st => (PPanic, st).
Definition q_panic {R A} : QM R A := fun st => (PPanic, st).
Definition QF (A : Type) : Type := gps -> fres A * gps.
Definition qfn_body {A} (m : QM A A) : QF A :=
  fun st => match m st with
            | (PNorm a, st') => (FNorm a, st')
            | (PRet a, st') => (FNorm a, st')
            | (PPanic, st') => (FPanic, st')
            | (POof, st') => (FOof, st')
            end.
Definition qcall {R A} (f : QF A) : QM R A :=
  fun st => match f st with
            | (FNorm a, st') => (PNorm a, st')
            | (FPanic, st') => (PPanic, st')
            | (FOof, st') => (POof, st')
            end.

Declare Scope q_scope.
Delimit Scope q_scope with q.
Notation "x <- m ;; k" := (qbind m (fun x => k)) (at level 61, m at next level, right associativity) : q_scope.
Notation "m ;;; k" := (qbind m (fun _ => k)) (at level 61, right associativity) : q_scope.

(** * Loops *)
Fixpoint q_loop {R S} (fuel : nat) (body : S -> QM R (ctl S)) (s : S) : QM R S :=
  match fuel with
  | O => fun st => (POof, st)
  | Datatypes.S n => qbind (body s) (fun c => match c with Continue s' => q_loop n body s' | Break s' => qret s' end)
  end.
Definition q_loop_fuel {R} : QM R nat :=
  fun st => (PNorm (Datatypes.S (Datatypes.S (List.length (sc_after (l_s (p_ts (pb_ts st))))))), st).

(** * The generic parameter `T: TokenStream`, instantiated with `PreProcessor<Lexer>` *)
Definition lift_pts {R A} (f : PrepMonad.PF A) : QM R A :=
  fun st =>
    let put t := mk_gps t (pb_current st) (pb_range st) (pb_builder st) (pb_errors st) (pb_after st) in
    match f (pb_ts st) with
    | (FNorm a, t) => (PNorm a, put t)
    | (FPanic, t) => (PPanic, put t)
    | (FOof, t) => (POof, put t)
    end.
Definition pts_eat {R} : QM R TokenKind := lift_pts gp_eat.
Definition pts_cursor {R} : QM R N := lift_pts gp_cursor.
Definition pts_text {R} (range : N * N) : QM R text := lift_pts (gp_text range).
Definition pts_take_error {R} : QM R (option string) := lift_pts gp_take_error.
(** inside `ParserBase::new(mut token_stream: T)` the parameter is the state (PrepMonad.PM): its value *)
Definition ts_self {R} : PrepMonad.PM R PrepMonad.pp := fun st => (PNorm st, st).

(** * Fields *)
Definition get_current {R} : QM R TokenKind := fun st => (PNorm (pb_current st), st).
Definition set_current {R} (k : TokenKind) : QM R unit :=
  fun st => (PNorm tt, mk_gps (pb_ts st) k (pb_range st) (pb_builder st) (pb_errors st) (pb_after st)).
Definition get_range {R} : QM R (N * N) := fun st => (PNorm (pb_range st), st).
Definition set_range {R} (r : N * N) : QM R unit :=
  fun st => (PNorm tt, mk_gps (pb_ts st) (pb_current st) r (pb_builder st) (pb_errors st) (pb_after st)).
Definition get_after {R} : QM R bool := fun st => (PNorm (pb_after st), st).
Definition set_after {R} (b : bool) : QM R unit :=
  fun st => (PNorm tt, mk_gps (pb_ts st) (pb_current st) (pb_range st) (pb_builder st) (pb_errors st) b).
Definition get_errors {R} : QM R (list syntax_error) := fun st => (PNorm (pb_errors st), st).
(** Vec::push *)
Definition errors_push {R} (e : syntax_error) : QM R unit :=
  fun st => (PNorm tt, mk_gps (pb_ts st) (pb_current st) (pb_range st) (pb_builder st) (pb_errors st ++ [e]) (pb_after st)).
Definition vec_new {A} : list A := [].
Definition get_builder {R} : QM R builder := fun st => (PNorm (pb_builder st), st).

(** * rowan::GreenNodeBuilder (contract: the ParserPrims.b_ functions) *)
Definition builder_new : builder := builder_init.
Definition with_builder (st : gps) (b : builder) : gps :=
  mk_gps (pb_ts st) (pb_current st) (pb_range st) b (pb_errors st) (pb_after st).
Definition bld_token {R} (k : SyntaxKind) (t : text) : QM R unit :=
  fun st => (PNorm tt, with_builder st (b_token (pb_builder st) k t)).
Definition bld_start_node {R} (k : SyntaxKind) : QM R unit :=
  fun st => (PNorm tt, with_builder st (b_start_node (pb_builder st) k)).
Definition bld_start_node_at {R} (cp : nat) (k : SyntaxKind) : QM R unit :=
  fun st => match b_start_node_at (pb_builder st) cp k with
            | Some b => (PNorm tt, with_builder st b)
            | None => (PPanic, st)
            end.
Definition bld_finish_node {R} : QM R unit :=
  fun st => match b_finish_node (pb_builder st) with
            | Some b => (PNorm tt, with_builder st b)
            | None => (PPanic, st)
            end.
Definition bld_checkpoint {R} : QM R nat := fun st => (PNorm (b_checkpoint (pb_builder st)), st).
Definition bld_finish {R} : QM R tree :=
  fun st => match b_finish (pb_builder st) with
            | Some t => (PNorm t, st)
            | None => (PPanic, st)
            end.

(** * Rust std / rowan helpers *)
(** `assert!(c)` *)
Definition qassert {R} (c : bool) : QM R unit := fun st => if c then (PNorm tt, st) else (PPanic, st).
(** Option::expect / Result::expect *)
Definition qexpect {R A} (o : option A) : QM R A :=
  fun st => match o with Some a => (PNorm a, st) | None => (PPanic, st) end.
(** usize -> TextSize (u32): assumed to succeed (a text shorter than 4 GiB) *)
Definition try_into_text_size (n : N) : option N := Some n.
(** TextRange::new: `assert!(start <= end)` *)
Definition text_range_new {R} (a b : N) : QM R (N * N) :=
  fun st => if a <=? b then (PNorm (a, b), st) else (PPanic, st).
(** SyntaxError::new(range, message) *)
Definition syntax_error_new (range : N * N) (message : string) : syntax_error := (fst range, snd range, message).
(** [TokenKind]::contains(&x) *)
Definition slice_contains (set : list TokenKind) (x : TokenKind) : bool := existsb (tk_eqb x) set.
