(** Indexer: hand model of crates/ide/src/index.rs (+ the three variable-binding arms of
    index/bang_operator.rs) over the typed AST of CoreAst.v: one definition per `impl Indexable`, same
    order of effects on the state of Scope.v, the `?` early returns and the eager/lazy iterator behaviour
    modelled literally.  All recursion is on one fuel argument (CoreAst.ws_fuel suffices; exhaustion sets
    [s_bad]).  Executable definitions only. *)
From Coq Require Import List NArith Bool.
From TG.Model Require Import CoreAst Scope BangOps.
Import ListNotations.
Open Scope N_scope.
Open Scope ix_scope.

(** FileRange::new(ctx.current_file_id(), range) *)
Definition here (r : rng) : M rng := get (fun s => mkR (current_file s) (r_lo r) (r_hi r)).
Definition err (r : rng) (k : dkind) : M unit := loc <- here r ;; error loc k.
Definition emit (l : list dg) : M unit := iterM (fun d => err (fst d) (snd d)) l.
Definition state : M st := get (fun s => s).
Definition leaf_of (id : N) : M leaf := s <- state ;; lift (nthN (s_leaves s) id).

Definition value_rng (v : value) : rng := match v with Val r _ => r end.
(** `v.inner_values().next()?.simple_value()` is an Identifier *)
Definition value_first_ident (v : value) : option ident :=
  match v with Val _ (Inner (SId i) _ :: _) => Some i | _ => None end.
Definition name_NAME : name := [78; 65; 77; 69].

(** impl Indexable for ast::Type *)
Fixpoint index_ty (t : ty) : M mty :=
  match t with
  | TyBit => ret MBit | TyInt => ret MInt | TyString => ret MString | TyCode => ret MCode | TyDag => ret MDag
  | TyBits n => ret (MBits n)
  | TyList e => x <- index_ty e ;; ret (MList x)
  | TyClass i =>
    loc <- here (i_rng i) ;;
    s <- state ;;
    match find_class s (i_name i) with
    | Some c => add_reference (SyRecord c) loc ;; ret (MRecord c (i_name i))
    | None => error loc DClassNotFound ;; none
    end
  end.

(** ---------------------------------------------------------------------------------------------
    check_template_args *)
Definition argv : Type := (option name * mty * rng)%type.
Fixpoint remove_name (n : name) (l : list name) : bool * list name :=
  match l with
  | [] => (false, [])
  | x :: r => if name_eqb n x then (true, r) else let '(b, r') := remove_name n r in (b, x :: r')
  end.
Definition find_targ (n : name) (targs : list leaf) : option leaf :=
  find (fun a => name_eqb (lf_name a) n) targs.

Fixpoint cta_loop (s : st) (targs : list leaf) (idx : nat) (unsolved : list name) (args : list (option argv))
  : list dg * list name :=
  match args with
  | [] => ([], unsolved)
  | None :: rest => cta_loop s targs (S idx) unsolved rest
  | Some (onm, vty, vr) :: rest =>
    let '(d1, unsolved1, target) :=
      match onm with
      | None =>
        match nth_error targs idx with
        | Some a => ([], snd (remove_name (lf_name a) unsolved), Some a)
        | None => ([], unsolved, None)     (* unreachable: guarded by the length test *)
        end
      | Some nm =>
        let a := find_targ nm targs in
        let '(was, u') := remove_name nm unsolved in
        if was then ([], u', a)
        else match a with
             | Some _ => ([(vr, DArgOnce)], u', None)
             | None => ([(vr, DArgNotExist)], u', None)
             end
      end in
    let d2 := match target with
              | Some a => if can_cast s vty (lf_ty a) then [] else [(vr, DArgType)]
              | None => []
              end in
    let '(d3, u3) := cta_loop s targs (S idx) unsolved1 rest in
    (d1 ++ d2 ++ d3, u3)
  end.

Definition check_template_args (s : st) (targs : list leaf) (args : list (option argv)) (r : rng) : list dg :=
  if Nat.ltb (length targs) (length args) then [(r, DTooManyArgs)]
  else
    let '(d, unsolved) := cta_loop s targs 0 (map lf_name targs) args in
    d ++ flat_map (fun u => match find_targ u targs with
                            | Some a => if lf_default a then [] else [(r, DArgMissing)]
                            | None => []
                            end) unsolved.

(** `iter_template_arg().map(|id| template_arg(id)).cloned().collect()` *)
Definition targ_leaves (s : st) (m : list (name * N)) : list leaf :=
  flat_map (fun e => match nthN (s_leaves s) (snd e) with Some l => [l] | None => [] end) m.

Definition first_some {A} (l : list (option A)) : option A :=
  find_map (fun x => x) l.

(** bang_operator.rs common::{expect,unexpect}_type_annotation and the optional annotation of !getdagop *)
Definition index_annot (op : bop) (annot : option (ty * rng)) (r : rng) : M (option mty) :=
  match bang_annot op with
  | AnUnexpect =>
    match annot with Some (_, tr) => err tr DUnexpectAnnot | None => ret tt end ;; ret None
  | AnExpect =>
    match annot with
    | Some (t, _) => try_ (index_ty t)
    | None => err r DExpectAnnot ;; ret None
    end
  | AnOptional =>
    match annot with Some (t, _) => try_ (index_ty t) | None => ret None end
  end.
(** common::expect_values: the arity diagnostic covers the whole operator node *)
Definition check_arity (op : bop) (vs : list value) (r : rng) : M unit :=
  if arity_ok (bang_arity op) (length vs) then ret tt else err r DArity.

(** ---------------------------------------------------------------------------------------------
    values *)
Fixpoint index_value (fuel : nat) (v : value) : M mty :=
  match fuel with
  | O => bad
  | S n =>
    match v with
    | Val _ [] => none
    | Val _ (first :: rest) =>
      t1 <- try_ (index_inner n first) ;;
      iterM (index_inner n) rest ;;
      match rest with [] => lift t1 | _ => ret MString end
    end
  end

with index_inner (fuel : nat) (x : inner) : M mty :=
  match fuel with
  | O => bad
  | S n =>
    match x with
    | Inner sv sufs =>
      t0 <- index_simple n sv ;;
      (fix sufs_loop (t : mty) (l : list suffix) : M mty :=
         match l with
         | [] => ret t
         | sf :: r =>
           t' <- match sf with
                 | SufRange => lift (match t with MBits _ => Some MBit | _ => None end)
                 | SufSlice single => if single then lift (element_typ t) else ret t
                 | SufField i fr =>
                   loc <- here (i_rng i) ;;
                   s <- state ;;
                   match ty_find_field s t (i_name i) with
                   | None => match t with MUnknown => none | _ => err fr DCannotAccessField ;; none end
                   | Some f => add_reference (SyLeaf f) loc ;; lf <- leaf_of f ;; ret (lf_ty lf)
                   end
                 end ;;
           sufs_loop t' r
         end) t0 sufs
    end
  end

with index_simple (fuel : nat) (sv : simple) : M mty :=
  match fuel with
  | O => bad
  | S n =>
    match sv with
    | SInt => ret MInt
    | SString => ret MString
    | SCode => ret MCode
    | SBool => ret MBit
    | SUninit => ret MUninit
    | SBits vs => iterM (index_value n) vs ;; ret (MBits (lenN vs))
    | SList vs =>
      os <- mapM_opt (index_value n) vs ;;
      ret (MList (match first_some os with Some t => t | None => MAny end))
    | SDag vs => iterM (index_value n) vs ;; ret MDag
    | SId i =>
      loc <- here (i_rng i) ;;
      s <- state ;;
      match resolve_id s (i_name i) with
      | None =>
        if name_eqb (i_name i) name_NAME then ret MString
        else error loc DSymbolNotFound ;; none
      | Some sym =>
        add_reference sym loc ;;
        s' <- state ;;
        match sym with
        | SyRecord rid =>
          r <- lift (nthN (s_recs s') rid) ;;
          if rc_class r then none
          else d <- lift (find_def s' (i_name i)) ;; ret (MRecord d (i_name i))
        | SyMc _ => none
        | SyLeaf lid =>
          l <- lift (nthN (s_leaves s') lid) ;;
          match lf_kind l with LDefm => none | _ => ret (lf_ty l) end
        end
      end
    | SClassVal i args r =>
      loc <- here (i_rng i) ;;
      s <- state ;;
      match find_class s (i_name i) with
      | None => error loc DClassNotFound ;; none
      | Some cid =>
        add_reference (SyRecord cid) loc ;;
        s1 <- state ;;
        rc <- lift (nthN (s_recs s1) cid) ;;
        let targs := targ_leaves s1 (rc_targs rc) in
        avs <- mapM_opt (index_arg n) args ;;
        s2 <- state ;;
        emit (check_template_args s2 targs avs r) ;;
        ret (MRecord cid (i_name i))
      end
    | SBang op annot vs r => index_bang n op annot vs r
    | SCond vs => iterM (index_value n) vs ;; none
    end
  end

with index_arg (fuel : nat) (a : arg) : M argv :=
  match fuel with
  | O => bad
  | S n =>
    match a with
    | APos v r =>
      o <- try_ (index_value n v) ;; ret (None, match o with Some t => t | None => MUnknown end, r)
    | ANamed nm v r =>
      o <- try_ (index_value n v) ;; ret (Some nm, match o with Some t => t | None => MUnknown end, r)
    | ANamedBad r => err r DNamedArgBad ;; none
    end
  end

with index_bang (fuel : nat) (op : bop) (annot : option (ty * rng)) (vs : list value) (r : rng) : M mty :=
  match fuel with
  | O => bad
  | S n =>
    a <- index_annot op annot r ;;
    check_arity op vs r ;;
    index_bang_ops n op a vs r
  end

with index_bang_ops (fuel : nat) (op : bop) (a : option mty) (vs : list value) (r : rng) : M mty :=
  match fuel with
  | O => bad
  | S n =>
    let bind_var (i : ident) (t : mty) : M unit :=
        loc <- here (i_rng i) ;; scopes_add_variable (mkLeaf LVar (i_name i) t false loc) in
    match op with
    | XFilter =>
      var <- lift (nth_error vs 0) ;; lst <- lift (nth_error vs 1) ;; pred <- lift (nth_error vs 2) ;;
      lt <- index_value n lst ;;
      vt <- lift (element_typ lt) ;;
      i <- lift (value_first_ident var) ;;
      scoped KXFilter (bind_var i vt ;; index_value n pred) ;;
      ret lt
    | XFoldl =>
      init <- lift (nth_error vs 0) ;; lst <- lift (nth_error vs 1) ;; acc <- lift (nth_error vs 2) ;;
      var <- lift (nth_error vs 3) ;; expr <- lift (nth_error vs 4) ;;
      it <- index_value n init ;;
      lt <- index_value n lst ;;
      et <- lift (element_typ lt) ;;
      ia <- lift (value_first_ident acc) ;;
      iv <- lift (value_first_ident var) ;;
      scoped KXFoldl (bind_var ia it ;; bind_var iv et ;; index_value n expr) ;;
      ret it
    | XForEach =>
      var <- lift (nth_error vs 0) ;; sq <- lift (nth_error vs 1) ;; expr <- lift (nth_error vs 2) ;;
      st_ <- index_value n sq ;;
      vt <- lift (element_typ st_) ;;
      i <- lift (value_first_ident var) ;;
      et <- try_ (scoped KXForeach (bind_var i vt ;; index_value n expr)) ;;
      ret (MList (match et with Some t => t | None => MUnknown end))
    | _ =>
      match bang_check_each op with
      | Some expected =>
        iterM (fun v =>
                 o <- try_ (index_value n v) ;;
                 match o with
                 | Some t => s <- state ;;
                             if can_cast s t expected then ret tt else err (value_rng v) DOperand
                 | None => ret tt
                 end) vs ;;
        s <- state ;;
        lift (snd (bang_post s op a []))
      | None =>
        os <- mapM_opt (index_value n) vs ;;
        s <- state ;;
        let '(ds, t) := bang_post s op a (combine (map value_rng vs) os) in
        iterM (fun d => err (fst d) DOperand) ds ;;      (* every diagnostic of bang_post is of class DOperand *)
        lift t
      end
    end
  end.

(** ---------------------------------------------------------------------------------------------
    class references, parent lists *)
Definition index_args (fuel : nat) (args : list arg) : M (list (option argv)) := mapM_opt (index_arg fuel) args.

Definition resolve_class_ref_as_class (fuel : nat) (c : classref) : M N :=
  match c with
  | CRef i args r =>
    loc <- here (i_rng i) ;;
    s <- state ;;
    match find_class s (i_name i) with
    | None => error loc DClassNotFound ;; none
    | Some cid =>
      add_reference (SyRecord cid) loc ;;
      s1 <- state ;;
      rc <- lift (nthN (s_recs s1) cid) ;;
      let targs := targ_leaves s1 (rc_targs rc) in
      avs <- index_args fuel args ;;
      s2 <- state ;;
      emit (check_template_args s2 targs avs r) ;;
      ret cid
    end
  end.

Definition resolve_class_ref_as_multiclass (fuel : nat) (c : classref) : M N :=
  match c with
  | CRef i args r =>
    loc <- here (i_rng i) ;;
    s <- state ;;
    match find_multiclass s (i_name i) with
    | None => error loc DMulticlassNotFound ;; none
    | Some mid =>
      add_reference (SyMc mid) loc ;;
      s1 <- state ;;
      mc <- lift (nthN (s_mcs s1) mid) ;;
      let targs := targ_leaves s1 (mc_targs mc) in
      avs <- index_args fuel args ;;
      s2 <- state ;;
      emit (check_template_args s2 targs avs r) ;;
      ret mid
    end
  end.

Definition classref_rng (c : classref) : rng := match c with CRef _ _ r => r end.

(** impl Indexable for ast::ParentClassList *)
Definition index_parents (fuel : nat) (ps : list classref) : M unit :=
  s <- state ;;
  match current_record_id s with
  | Some rid =>
    iterM (fun cr =>
             o <- try_ (resolve_class_ref_as_class fuel cr) ;;
             match o with
             | Some cid => if cid =? rid then err (classref_rng cr) DSelfInherit
                           else record_mut rid (rec_add_parent cid)
             | None => ret tt
             end) ps
  | None =>
    match current_multiclass_id s with
    | Some mid =>
      iterM (fun cr =>
               o <- try_ (resolve_class_ref_as_multiclass fuel cr) ;;
               match o with
               | Some p => multiclass_mut mid (mc_add_parent p)
               | None => ret tt
               end) ps
    | None =>
      match current_defm_id s with
      | Some _ => iterM (fun cr => resolve_class_ref_as_multiclass fuel cr) ps   (* defm.add_parent: not observed *)
      | None => bad
      end
    end
  end.

(** impl Indexable for ast::TemplateArgDecl *)
Definition index_targ (fuel : nat) (a : targ) : M unit :=
  match a with
  | TArg t i dflt =>
    loc <- here (i_rng i) ;;
    typ <- index_ty t ;;
    let has_default := match dflt with Some _ => true | None => false end in
    tid <- add_leaf (mkLeaf LTArg (i_name i) typ has_default loc) ;;
    s <- state ;;
    match current_record_id s with
    | Some rid => record_mut rid (rec_add_targ (i_name i) tid)
    | None => match current_multiclass_id s with
              | Some mid => multiclass_mut mid (mc_add_targ (i_name i) tid)
              | None => bad
              end
    end ;;
    match dflt with Some v => index_value fuel v ;; none | None => none end
  end.

(** impl Indexable for ast::BodyItem (FieldDef, FieldLet, Defvar, Assert, Dump) *)
Definition index_defvar (fuel : nat) (i : ident) (v : value) : M unit :=
  loc <- here (i_rng i) ;;
  o <- try_ (index_value fuel v) ;;
  scopes_add_variable (mkLeaf LVar (i_name i) (match o with Some t => t | None => MUnknown end) false loc).

Definition index_item (fuel : nat) (it : item) : M unit :=
  match it with
  | IField t i v =>
    s <- state ;;
    match current_record_id s with
    | None => bad
    | Some rid =>
      loc <- here (i_rng i) ;;
      typ <- index_ty t ;;
      fid <- add_leaf (mkLeaf LField (i_name i) typ false loc) ;;
      record_mut rid (rec_add_field (i_name i) fid) ;;
      v' <- lift v ;;
      vt <- index_value fuel v' ;;
      s' <- state ;;
      if can_cast s' vt typ then none else err (value_rng v') DFieldIncompat
    end
  | ILet i v =>
    loc <- here (i_rng i) ;;
    s <- state ;;
    match current_record_id s with
    | None => bad
    | Some rid =>
      fid <- lift (find_field (rec_fuel s) (s_recs s) rid (i_name i)) ;;
      f <- leaf_of fid ;;
      let ftyp := lf_ty f in
      nid <- add_leaf (mkLeaf LField (i_name i) ftyp false loc) ;;
      record_mut rid (rec_add_field (i_name i) nid) ;;
      add_reference (SyLeaf fid) loc ;;
      vt <- index_value fuel v ;;
      s' <- state ;;
      if can_cast s' vt ftyp then none else err (value_rng v) DFieldIncompat
    end
  | IDefvar i v => index_defvar fuel i v
  | IAssert c m => index_value fuel m ;; index_value fuel c ;; none
  | IDump v => index_value fuel v ;; none
  end.

(** impl Indexable for ast::RecordBody: parent_class_list()?.index; body()?.index *)
Definition index_record_body (fuel : nat) (ps : list classref) (b : list item) : M unit :=
  index_parents fuel ps ;; iterM (index_item fuel) b.

(** index_name_value *)
Definition index_name_value (nm : value) : M (name * rng) :=
  match nm with
  | Val _ (Inner (SId i) _ :: _) => loc <- here (i_rng i) ;; ret (i_name i, loc)
  | _ => none
  end.

(** ---------------------------------------------------------------------------------------------
    statements *)
Section Statements.
  Variable files : list (list stmt).

  Fixpoint index_stmt (fuel : nat) (x : stmt) : M unit :=
    match fuel with
    | O => bad
    | S n =>
      match x with
      | SInclude r target =>
        match target with
        | None => err r DIncludeNotFound ;; none
        | Some f =>
          s <- state ;;
          if existsb (N.eqb f) (s_indexed s) then none
          else
            upd (fun s => set_files (s_trace s) (f :: s_indexed s) s) ;;
            body <- lift (nthN files f) ;;
            push_file f ;;
            iterM (index_stmt n) body ;;
            pop_file
        end
      | SAssert c m => index_value n m ;; index_value n c ;; none
      | SClass i targs ps b =>
        loc <- here (i_rng i) ;;
        rid <- add_record (i_name i) true loc ;;
        scoped (KRecord rid)
               (match targs with Some l => iterM (index_targ n) l | None => ret tt end ;;
                index_record_body n ps b)
      | SDef nm r ps b =>
        did <- match nm with
               | Some v => p <- index_name_value v ;; add_record (fst p) false (snd p)
               | None => next_anonymous ;; loc <- here r ;; add_anonymous_def [] loc
               end ;;
        scoped (KRecord did) (index_record_body n ps b)
      | SDefm nm r ps =>
        did <- match nm with
               | Some v => p <- index_name_value v ;; add_leaf (mkLeaf LDefm (fst p) MUnknown false (snd p))
               | None => next_anonymous ;; loc <- here r ;; add_leaf_nopos (mkLeaf LDefm [] MUnknown false loc)
               end ;;
        scoped (KDefm did) (index_parents n ps)
      | SDefset t i b =>
        loc <- here (i_rng i) ;;
        typ <- index_ty t ;;
        did <- add_defset (mkLeaf LDefset (i_name i) typ false loc) ;;
        scoped (KDefset did) (iterM (index_stmt n) b)
      | SDefvar i v => index_defvar n i v
      | SDump v => index_value n v ;; none
      | SForeach i init b =>
        loc <- here (i_rng i) ;;
        o <- try_ (match init with
                   | FeRange => ret MInt
                   | FeValue v => t <- index_value n v ;; lift (element_typ t)
                   end) ;;
        vid <- add_leaf (mkLeaf LVar (i_name i) (match o with Some t => t | None => MUnknown end) false loc) ;;
        scoped (KForeach (i_name i) vid) (iterM (index_stmt n) b)
      | SIf c th el =>
        index_value n c ;;
        iterM (fun body => scoped KBlock (iterM (index_stmt n) body))
              (th :: match el with Some e => [e] | None => [] end)
      | SLet vs b =>
        iterM (index_value n) vs ;;
        scoped KBlock (iterM (index_stmt n) b)
      | SMulticlass i targs ps b =>
        loc <- here (i_rng i) ;;
        mid <- add_multiclass (i_name i) loc ;;
        scoped (KMulticlass mid)
               (match targs with Some l => iterM (index_targ n) l | None => ret tt end ;;
                index_parents n ps ;;
                iterM (index_stmt n) b)
      end
    end.
End Statements.

(** fn index(db): the root file is file 0 *)
Definition index_ws (w : workspace) : st :=
  match ws_files w with
  | [] => st0
  | root :: _ => snd (iterM (index_stmt (ws_files w) (ws_fuel w)) root st0)
  end.

(** handlers/diagnostics.rs exec: parse errors of every workspace file, then the index diagnostics *)
Definition diagnostics (w : workspace) : list (rng * dkind) :=
  map (fun r => (r, DSyntax)) (ws_perrs w) ++ rev (s_diags (index_ws w)).
