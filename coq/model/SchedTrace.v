(** Trace inclusion: is a sequence of hook-H2 events recorded on the real server a trace of the LTS of Sched.v?

    Events are the hook points ([main.*] on the main loop, [task.*] on a task; the check resolves which task a
    pool thread is running).  Actions without a hook point (guard drops, the mutex, analysis calls, publish,
    the snapshot drop, the salsa writes inside set_root_file) are "unobserved": they are executed eagerly
    ([settle]) as soon as they are enabled.  Eager execution is complete for them: each of them only
    releases something or is local, or (mutex) opens a critical section that contains no observed event and no
    blocking action, so taking it early never disables a later observed step.
    [accepts] executes only steps of [exec]: an accepted event sequence IS the observable projection of a
    run of the LTS ([accepts_sound] in proofs/SchedTraceProofs.v). *)
From Coq Require Import List Bool Arith.
From TG.Model Require Import Sched.
Import ListNotations.

Set Implicit Arguments.

Inductive mev := EBarrierBefore | EBarrierAfter | EVfsWriteBefore | EVfsWriteAcquired | ESetContentBefore
  | ESetContentAfter | ESetRootAfter | EVfsWriteReleased | EUpdateDiagnostics | ESpawn.
Inductive wev := EStart | EVfsRead (s : site) | EVfsAcquired | EPublishedLock | ESnapshotDrop | EEnd.
Inductive ev := EvMain (e : mev) | EvWorker (i : nat) (e : wev).

Inductive reason := RNoSuchTask | RThreadFinished | RMismatch | RBlocked.
Inductive verdict := Accepted (fin : bool) | Rejected (pos : nat) (why : reason).

Definition site_eqb (a b : site) : bool :=
  match a, b with
  | SFilePos, SFilePos | SFile, SFile | SFileRange, SFileRange | SDefinition, SDefinition
  | SReferences, SReferences | SDocumentLink, SDocumentLink | SDiagnostics, SDiagnostics => true
  | _, _ => false
  end.

Section Trace.
Context {P : Type}.

Definition mev_matches (e : mev) (a : mact P) : bool :=
  match e, a with
  | EBarrierBefore, MNote PBarrierBefore => true
  | EBarrierAfter, MBar => true
  | EVfsWriteBefore, MNote PVfsWriteBefore => true
  | EVfsWriteAcquired, MVW => true
  | ESetContentBefore, MNote PSetContentBefore => true
  | ESetContentAfter, MQW QContent => true
  | ESetRootAfter, MQW QRoot => true
  | EVfsWriteReleased, MNote PVfsWriteReleased => true
  | EUpdateDiagnostics, MNote PUpdateDiagnostics => true
  | ESpawn, MSpawn _ => true
  | _, _ => false
  end.

Definition wev_matches (e : wev) (a : wact P) : bool :=
  match e, a with
  | EStart, WStart => true
  | EVfsRead s, WReqV s' => site_eqb s s'
  | EVfsAcquired, WAcqV => true
  | EPublishedLock, WReqP => true
  | ESnapshotDrop, WDrop => true
  | EEnd, WEnd => true
  | _, _ => false
  end.

Definition m_unobs (a : mact P) : bool := match a with MQW QRootInner | MVWu => true | _ => false end.
(** [od] = the build has the optional hook task.snapshot_drop (Drop of ServerSnapshot): the drop is then an observed event *)
Definition w_unobs (od : bool) (a : wact P) : bool :=
  match a with WRelV | WCompute | WAcqP | WRelP | WPub _ => true | WDrop => negb od | _ => false end.

(** first worker (index >= i) whose next action is unobserved and enabled *)
Fixpoint settle_worker (od : bool) (pol : policy) (s : st P) (l : list (worker P)) (i : nat) : option (st P) :=
  match l with
  | [] => None
  | w :: r =>
    match rem w with
    | a :: _ => if w_unobs od a
                then match exec pol (LWorker i) s with Some s' => Some s' | None => settle_worker od pol s r (S i) end
                else settle_worker od pol s r (S i)
    | [] => settle_worker od pol s r (S i)
    end
  end.

Definition settle1 (od : bool) (pol : policy) (s : st P) : option (st P) :=
  match mpc s with
  | a :: _ => if m_unobs a
              then match exec pol LMain s with Some s' => Some s' | None => settle_worker od pol s (ws s) 0 end
              else settle_worker od pol s (ws s) 0
  | [] => settle_worker od pol s (ws s) 0
  end.

Fixpoint settle (od : bool) (pol : policy) (fuel : nat) (s : st P) : st P :=
  match fuel with
  | O => s
  | S f => match settle1 od pol s with Some s' => settle od pol f s' | None => s end
  end.

Fixpoint accepts (od : bool) (pol : policy) (evs : list ev) (pos : nat) (s0 : st P) : verdict :=
  let s := settle od pol (measure s0) s0 in
  match evs with
  | [] => Accepted (final_b s)
  | EvMain e :: r =>
    match mpc s with
    | [] => Rejected pos RThreadFinished
    | a :: _ => if mev_matches e a
                then match exec pol LMain s with
                     | Some s' => accepts od pol r (S pos) s'
                     | None => Rejected pos RBlocked
                     end
                else Rejected pos RMismatch
    end
  | EvWorker i e :: r =>
    match nth_error (ws s) i with
    | None => Rejected pos RNoSuchTask
    | Some w =>
      match rem w with
      | [] => Rejected pos RThreadFinished
      | a :: _ => if wev_matches e a
                  then match exec pol (LWorker i) s with
                       | Some s' => accepts od pol r (S pos) s'
                       | None => Rejected pos RBlocked
                       end
                  else Rejected pos RMismatch
      end
    end
  end.

(** the check: the script of the messages handled by the main loop passes the static discipline, and the event
    sequence is accepted from the initial state under the most permissive policy *)
Definition check_trace (old od : bool) (items : list (item P)) (evs : list ev) : bool * verdict :=
  let script := if old then script_old items else script_of items in
  (script_ok false true script && pub_ok true script, accepts od ReaderPref evs 0 (init script)).

End Trace.
