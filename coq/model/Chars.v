(** M-chars: texts as lists of Unicode scalar values, UTF-8/UTF-16 lengths, the character
    classes the lexer uses, and the unscanny primitives as list functions. *)
From Coq Require Import List NArith Bool.
From TG.Gen Require Import GenUnicode.
Import ListNotations.
Open Scope N_scope.

Definition text := list N.

Definition utf8_len (c : N) : N :=
  if c <? 128 then 1 else if c <? 2048 then 2 else if c <? 65536 then 3 else 4.
Definition utf16_len (c : N) : N := if c <? 65536 then 1 else 2.
Fixpoint bytes (t : text) : N := match t with [] => 0 | c :: r => utf8_len c + bytes r end.

Fixpoint in_ranges (rs : list (N * N)) (c : N) : bool :=
  match rs with
  | [] => false
  | (lo, hi) :: r => ((lo <=? c) && (c <=? hi)) || in_ranges r c
  end.

Definition is_whitespace (c : N) : bool := in_ranges whitespace_ranges c.
Definition is_alphabetic (c : N) : bool := in_ranges alphabetic_ranges c.
Definition is_ascii_whitespace (c : N) : bool :=
  (c =? 32) || (c =? 9) || (c =? 10) || (c =? 12) || (c =? 13).
Definition is_ascii_digit (c : N) : bool := (48 <=? c) && (c <=? 57).
Definition is_ascii_alphabetic (c : N) : bool :=
  ((65 <=? c) && (c <=? 90)) || ((97 <=? c) && (c <=? 122)).
Definition is_ascii_alphanumeric (c : N) : bool := is_ascii_alphabetic c || is_ascii_digit c.
Definition is_ascii_hexdigit (c : N) : bool :=
  is_ascii_digit c || ((65 <=? c) && (c <=? 70)) || ((97 <=? c) && (c <=? 102)).
Definition is_bin_digit (c : N) : bool := (c =? 48) || (c =? 49).
Definition is_identifier_start (c : N) : bool := is_ascii_alphabetic c || (c =? 95).
Definition is_identifier_continue (c : N) : bool := is_ascii_alphanumeric c || (c =? 95).
Definition is_newline (c : N) : bool := (c =? 13) || (c =? 10).

(** unscanny: [eat_while p s] = (consumed prefix, rest). *)
Fixpoint eat_while (p : N -> bool) (s : text) : text * text :=
  match s with
  | c :: r => if p c then let '(a, b) := eat_while p r in (c :: a, b) else ([], s)
  | [] => ([], [])
  end.
Definition eat_until (p : N -> bool) (s : text) : text * text := eat_while (fun c => negb (p c)) s.

(** [eat_until "xy"]: consume up to (not including) the first occurrence of the two-char pattern. *)
Fixpoint eat_until2 (x y : N) (s : text) : text * text :=
  match s with
  | c :: r =>
      match r with
      | d :: _ => if (c =? x) && (d =? y) then ([], s)
                  else let '(a, b) := eat_until2 x y r in (c :: a, b)
      | [] => ([c], [])
      end
  | [] => ([], [])
  end.

Fixpoint list_eqb (a b : list N) : bool :=
  match a, b with
  | [], [] => true
  | x :: a', y :: b' => (x =? y) && list_eqb a' b'
  | _, _ => false
  end.

Fixpoint lookup {A} (tbl : list (list N * A)) (k : list N) : option A :=
  match tbl with
  | [] => None
  | (k', v) :: r => if list_eqb k' k then Some v else lookup r k
  end.

Fixpoint lookup1 {A} (tbl : list (N * A)) (k : N) : option A :=
  match tbl with
  | [] => None
  | (k', v) :: r => if k' =? k then Some v else lookup1 r k
  end.
