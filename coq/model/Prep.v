(** M-prep: hand model of crates/syntax/src/preprocessor.rs over the *raw token list* of the
    lexer (the lexer does not depend on preprocessor state, so the text is lexed once and every
    preprocessor loop is structural recursion on that list; reading past the end yields Eof again,
    as Lexer::next_token does at the end of input). *)
From Coq Require Import List NArith Bool String.
From TG.Gen Require Import GenTokens GenLexTables.
From TG.Model Require Import Chars Lexer.
Import ListNotations.
Open Scope N_scope.

Record rtok := { rk : TokenKind; rerr : option lex_err; rtext : text }.
Definition rlen (t : rtok) : N := bytes (rtext t).
Definition eof_tok : rtok := {| rk := T_Eof; rerr := None; rtext := [] |}.

(** raw token list of a text (without the final Eof; [raw_eat] supplies it) *)
Definition raw_lex (s : text) : list rtok :=
  filter (fun t => negb (tk_eqb (rk t) T_Eof))
         (map (fun '(k, e, a) => {| rk := k; rerr := e; rtext := a |}) (lex_text s)).

Inductive prep_err := PEIfdefName | PEIfndefName | PEDefineName | PEUnterminated.
Definition prep_err_msg (e : prep_err) : string :=
  match e with
  | PEIfdefName => "expected macro name after #ifdef"
  | PEIfndefName => "expected macro name after #ifndef"
  | PEDefineName => "expected macro name after #define"
  | PEUnterminated => "reached EOF without matching #endif"
  end%string.

(** macros: set of names; perr: the preprocessor's one-slot error; lerr: the lexer's one-slot error
    (set whenever a raw Error token is read, taken by take_error); openc: open conditionals *)
Record pstate := { macros : list text; perr : option prep_err; lerr : option lex_err; openc : N }.
Definition pinit : pstate := {| macros := []; perr := None; lerr := None; openc := 0 |}.

Definition mem_macro (m : text) (ms : list text) : bool := existsb (list_eqb m) ms.

(** Lexer::eat through the TokenStream interface: head of the raw list, Eof forever at the end *)
Definition raw_eat (st : pstate) (raw : list rtok) : rtok * pstate * list rtok :=
  match raw with
  | [] => (eof_tok, st, [])
  | t :: r =>
      let st' := match rerr t with
                 | Some e => {| macros := macros st; perr := perr st; lerr := Some e; openc := openc st |}
                 | None => st end in
      (t, st', r)
  end.

(** next_not_trivia: returns the first non-trivia raw token, the bytes of trivia skipped before
    it, the state and the remaining raw tokens *)
Fixpoint next_not_trivia (st : pstate) (raw : list rtok) (skipped : N) : rtok * N * pstate * list rtok :=
  match raw with
  | [] => (eof_tok, skipped, st, [])
  | t :: r =>
      let '(_, st', _) := raw_eat st raw in
      if is_trivia (rk t) then next_not_trivia st' r (skipped + rlen t)
      else (t, skipped, st', r)
  end.

Definition set_perr (st : pstate) (e : prep_err) : pstate :=
  {| macros := macros st; perr := Some e; lerr := lerr st; openc := openc st |}.
Definition set_openc (st : pstate) (n : N) : pstate :=
  {| macros := macros st; perr := perr st; lerr := lerr st; openc := n |}.
Definition add_macro (st : pstate) (m : text) : pstate :=
  {| macros := if mem_macro m (macros st) then macros st else m :: macros st;
     perr := perr st; lerr := lerr st; openc := openc st |}.

(** eat_until_else_or_endif: [depth] as in the code (starts at 1); returns bytes consumed *)
Fixpoint eat_until_else_or_endif (depth : N) (st : pstate) (raw : list rtok) (eaten : N)
  : N * pstate * list rtok :=
  match raw with
  | [] => (eaten, st, [])                      (* Eof: break *)
  | t :: r =>
      let '(_, st', _) := raw_eat st raw in
      let eaten' := eaten + rlen t in
      match rk t with
      | T_Ifdef | T_Ifndef => eat_until_else_or_endif (depth + 1) st' r eaten'
      | T_Endif =>
          if 2 <=? depth then eat_until_else_or_endif (depth - 1) st' r eaten'
          else if depth =? 1 then (eaten', set_openc st' (N.pred (openc st')), r)
          else eat_until_else_or_endif depth st' r eaten'
      | T_Else =>
          if depth =? 1 then (eaten', st', r) else eat_until_else_or_endif depth st' r eaten'
      | _ => eat_until_else_or_endif depth st' r eaten'
      end
  end.

(** PreProcessor::next_token.  Returns (kind, byte length of the delivered token, state, rest). *)
Definition prep_next (st : pstate) (raw : list rtok) : TokenKind * N * pstate * list rtok :=
  let '(t, st1, r1) := raw_eat st raw in
  let process_if (defined_wanted : bool) :=
    let '(n, skipped, st2, r2) := next_not_trivia st1 r1 0 in
    let len := rlen t + skipped + rlen n in
    match rk n with
    | T_Id =>
        let macro_defined := mem_macro (rtext n) (macros st2) in
        let st3 := set_openc st2 (openc st2 + 1) in
        if Bool.eqb defined_wanted macro_defined then (T_PreProcessor, len, st3, r2)
        else let '(eaten, st4, r3) := eat_until_else_or_endif 1 st3 r2 0 in
             (T_PreProcessor, len + eaten, st4, r3)
    | _ => (T_Error, len, set_perr st2 (if defined_wanted then PEIfdefName else PEIfndefName), r2)
    end in
  match rk t with
  | T_Ifdef => process_if true
  | T_Ifndef => process_if false
  | T_Else =>
      let '(eaten, st2, r2) := eat_until_else_or_endif 1 st1 r1 0 in
      (T_PreProcessor, rlen t + eaten, st2, r2)
  | T_Endif => (T_PreProcessor, rlen t, set_openc st1 (N.pred (openc st1)), r1)
  | T_Define =>
      let '(n, skipped, st2, r2) := next_not_trivia st1 r1 0 in
      let len := rlen t + skipped + rlen n in
      match rk n with
      | T_Id => (T_PreProcessor, len, add_macro st2 (rtext n), r2)
      | _ => (T_Error, len, set_perr st2 PEDefineName, r2)
      end
  | T_Eof =>
      (* the length of every delivered token is the length of what was eaten (0 for the lexer's Eof) *)
      if 0 <? openc st1 then (T_Error, rlen t, set_perr (set_openc st1 0) PEUnterminated, r1)
      else (T_Eof, rlen t, st1, r1)
  | k => (k, rlen t, st1, r1)
  end.

(** PreProcessor::take_error: own slot first, else the lexer's *)
Inductive any_err := ErrPrep (e : prep_err) | ErrLex (e : lex_err).
Definition any_err_msg (e : any_err) : string :=
  match e with ErrPrep e => prep_err_msg e | ErrLex e => lex_err_msg e end.
Definition take_error (st : pstate) : option any_err * pstate :=
  match perr st with
  | Some e => (Some (ErrPrep e), {| macros := macros st; perr := None; lerr := lerr st; openc := openc st |})
  | None => match lerr st with
            | Some e => (Some (ErrLex e), {| macros := macros st; perr := None; lerr := None; openc := openc st |})
            | None => (None, st)
            end
  end.

(** the whole preprocessed token stream (kinds, byte lengths, taken error for Error tokens as the
    parser's save() would take it), ending with the first Eof.  Fuel: every non-Eof delivery consumes
    at least one raw token or resets openc (at most once per run of Eof), so |raw| + 2 suffices. *)
Fixpoint prep_all (fuel : nat) (st : pstate) (raw : list rtok) : list (TokenKind * N * option any_err) :=
  match fuel with
  | O => []
  | S n =>
      let '(k, len, st1, r1) := prep_next st raw in
      match k with
      | T_Eof => [(k, len, None)]
      | T_Error => let '(e, st2) := take_error st1 in (k, len, e) :: prep_all n st2 r1
      | _ => (k, len, None) :: prep_all n st1 r1
      end
  end.
Definition prep_text (s : text) := let raw := raw_lex s in prep_all (S (S (List.length raw))) pinit raw.
