(** IndexerOps (group symmap, bridge to group scope): the symbol-map state that a state of the indexer model
    (Scope.v / Indexer.v, group scope) stands for.

    [abs : Scope.st -> SymbolMap.symbol_map] rebuilds, from the indexer model's own tables, the state of the
    symbol-map model (SymbolMap.v) that the indexer's calls would have produced:
    - records and multiclasses keep their ids; the merged "leaves" arena of Scope.v is split into the five arenas
      (template arguments, record fields, variables, defsets, defms): leaf [i] becomes (kind, number of earlier leaves
      of that kind) = the id `Arena::alloc` gave it;
    - `reference_locs` of a symbol = the global reference log filtered by the symbol, oldest first;
    - the interval map of a file = the position log replayed oldest first through [ivl_insert];
    - index diagnostics = the diagnostics log, oldest first (ranges only).
    Not represented in Scope.v and therefore left empty here: the name maps (Scope.v has its own), the per-file
    symbol lists, defset member lists, defm parents, `is_global`, the parent record of a field, type strings.
    None of them is read by the queries of C03 / C06 / C17 (find_symbol_at, goto_definition, references,
    iter_symbols_in_range, find_field, is_subclass_of, diagnostics ranges).  Executable definitions only. *)
From Coq Require Import List NArith Bool.
From TG.Model Require Import CoreAst Scope.
From TG.Model Require SymbolMap.
Import ListNotations.
Open Scope N_scope.



Definition cv (r : rng) : SymbolMap.file_range := SymbolMap.mkFR (r_file r) (r_lo r) (r_hi r).

Definition lk_kind (k : leafkind) : SymbolMap.sym_kind :=
  match k with
  | LTArg => SymbolMap.KTemplateArg | LField => SymbolMap.KRecordField | LVar => SymbolMap.KVariable
  | LDefset => SymbolMap.KDefset | LDefm => SymbolMap.KDefm
  end.
Definition leafkind_eqb (a b : leafkind) : bool :=
  match a, b with
  | LTArg, LTArg | LField, LField | LVar, LVar | LDefset, LDefset | LDefm, LDefm => true
  | _, _ => false
  end.

(** number of leaves of kind [k] in a list = the next id of that arena *)
Fixpoint count_kind (k : leafkind) (l : list leaf) : N :=
  match l with
  | [] => 0
  | x :: r => (if leafkind_eqb (lf_kind x) k then 1 else 0) + count_kind k r
  end.

(** the arena id of leaf [i] *)
Definition leaf_sid (ls : list leaf) (i : N) : option SymbolMap.symbol_id :=
  match nthN ls i with
  | Some l => Some (lk_kind (lf_kind l), count_kind (lf_kind l) (firstn (N.to_nat i) ls))
  | None => None
  end.
Definition sid_of (s : st) (id : symid) : SymbolMap.symbol_id :=
  match id with
  | SyRecord i => (SymbolMap.KRecord, i)
  | SyMc i => (SymbolMap.KMulticlass, i)
  | SyLeaf i => match leaf_sid (s_leaves s) i with Some x => x | None => (SymbolMap.KVariable, i) end
  end.

Definition refs_of (s : st) (id : symid) : list SymbolMap.file_range := map cv (reference_locs s id).
Definition map_leaf_ids (s : st) (m : list (name * N)) : list (name * N) :=
  map (fun e => (fst e, snd (sid_of s (SyLeaf (snd e))))) m.

Definition rec_entry (s : st) (i : N) (r : recd) : SymbolMap.entry :=
  SymbolMap.mkEntry (rc_name r) (cv (rc_loc r)) (refs_of s (SyRecord i))
    (SymbolMap.PRecord (if rc_class r then SymbolMap.RKClass else SymbolMap.RKDef)
                (map_leaf_ids s (rc_targs r)) (map_leaf_ids s (rc_fields r)) (rc_parents r)).
Definition mc_entry (s : st) (i : N) (m : mcd) : SymbolMap.entry :=
  SymbolMap.mkEntry (mc_name m) (cv (mc_loc m)) (refs_of s (SyMc i))
    (SymbolMap.PMulticlass (map_leaf_ids s (mc_targs m)) (mc_parents m)).
Definition leaf_payload (k : leafkind) : SymbolMap.payload :=
  match k with
  | LTArg => SymbolMap.PTemplateArg []
  | LField => SymbolMap.PRecordField [] 0
  | LVar => SymbolMap.PVariable []
  | LDefset => SymbolMap.PDefset [] []
  | LDefm => SymbolMap.PDefm []
  end.
Definition leaf_entry (s : st) (i : N) (l : leaf) : SymbolMap.entry :=
  SymbolMap.mkEntry (lf_name l) (cv (lf_loc l)) (refs_of s (SyLeaf i)) (leaf_payload (lf_kind l)).

(** a list with the positions of its elements *)
Fixpoint indexed_from {A} (i : N) (l : list A) : list (N * A) :=
  match l with [] => [] | x :: r => (i, x) :: indexed_from (i + 1) r end.
Definition indexed {A} (l : list A) : list (N * A) := indexed_from 0 l.

Definition arena_recs (s : st) : list SymbolMap.entry := map (fun p => rec_entry s (fst p) (snd p)) (indexed (s_recs s)).
Definition arena_mcs (s : st) : list SymbolMap.entry := map (fun p => mc_entry s (fst p) (snd p)) (indexed (s_mcs s)).
Definition arena_leaves (s : st) (k : leafkind) : list SymbolMap.entry :=
  map (fun p => leaf_entry s (fst p) (snd p))
      (filter (fun p => leafkind_eqb (lf_kind (snd p)) k) (indexed (s_leaves s))).

(** `add_to_pos_to_symbol_map` on the bare table *)
Definition pos_ins (P : list (SymbolMap.fileid * list SymbolMap.ivl)) (loc : SymbolMap.file_range) (sid : SymbolMap.symbol_id)
  : list (SymbolMap.fileid * list SymbolMap.ivl) :=
  if SymbolMap.fr_is_empty loc then P
  else SymbolMap.fmap_set P (SymbolMap.fr_file loc)
         (SymbolMap.ivl_insert (match SymbolMap.fmap_get P (SymbolMap.fr_file loc) with Some m => m | None => [] end)
                        (SymbolMap.fr_lo loc) (SymbolMap.fr_hi loc) sid).
(** the position log, replayed oldest first *)
Definition abs_pos (s : st) : list (SymbolMap.fileid * list SymbolMap.ivl) :=
  fold_right (fun e P => pos_ins P (cv (fst e)) (sid_of s (snd e))) [] (s_pos s).

Definition abs (s : st) : SymbolMap.symbol_map :=
  SymbolMap.mkSM (arena_recs s) (arena_leaves s LTArg) (arena_leaves s LField) (arena_leaves s LVar)
          (arena_leaves s LDefset) (arena_mcs s) (arena_leaves s LDefm)
          [] [] [] [] [] (abs_pos s) None (map (fun d => cv (fst d)) (rev (s_diags s))).


(** ---- the name maps.  Scope.v keeps its own (newest binding first, shadowed bindings kept); the HashMaps of
    symbol_map.rs hold one binding per name: [amap_of] replays the bindings oldest first through the model's insert.
    [absN s] = [abs s] with the four name maps filled in (used by C20's class clause, which reads `iter_class`). *)
Definition amap_of (l : list (name * N)) : list (name * N) :=
  fold_right (fun e m => SymbolMap.amap_insert m (fst e) (snd e)) [] l.
Definition absN (s : st) : SymbolMap.symbol_map :=
  SymbolMap.set_name_to_defset
    (SymbolMap.set_name_to_multiclass
       (SymbolMap.set_name_to_def
          (SymbolMap.set_name_to_class (abs s) (amap_of (s_nclass s)))
          (amap_of (s_ndef s)))
       (amap_of (s_nmc s)))
    (amap_of (map_leaf_ids s (s_ndset s))).

(** ---- helpers for the extracted comparison driver (ixbridge_driver.ml): arenas by a numeric kind code, so that the
    driver needs no constructor of the two kind types (their names clash after extraction) *)
Definition kinds_coded : list (N * SymbolMap.sym_kind) :=
  [(0, SymbolMap.KRecord); (1, SymbolMap.KTemplateArg); (2, SymbolMap.KRecordField); (3, SymbolMap.KVariable); (4, SymbolMap.KDefset);
   (5, SymbolMap.KMulticlass); (6, SymbolMap.KDefm)].
Definition kind_code (k : SymbolMap.sym_kind) : N :=
  match k with
  | SymbolMap.KRecord => 0 | SymbolMap.KTemplateArg => 1 | SymbolMap.KRecordField => 2 | SymbolMap.KVariable => 3 | SymbolMap.KDefset => 4
  | SymbolMap.KMulticlass => 5 | SymbolMap.KDefm => 6
  end.
Definition entry_is_class (e : SymbolMap.entry) : bool :=
  match SymbolMap.p_record_kind (SymbolMap.e_payload e) with Some SymbolMap.RKClass => true | _ => false end.

(** ---- the single-visit condition on the position log (newest first): the hypothesis of C06_coherent_core_partial.
    An entry whose range is the definition range of its symbol must be the first entry with that range; any other
    (reference) entry may only be preceded, at the same range, by definitions at that very range (the `let` pair). *)
Definition is_def (s : st) (e : rng * symid) : bool :=
  match define_loc s (snd e) with Some d => rng_eqb d (fst e) | None => false end.
Fixpoint log_okb (s : st) (lg : list (rng * symid)) : bool :=
  match lg with
  | [] => true
  | e :: older =>
      (if is_def s e then forallb (fun e' => negb (rng_eqb (fst e') (fst e))) older
       else forallb (fun e' => implb (rng_eqb (fst e') (fst e)) (is_def s e')) older)
      && log_okb s older
  end.
Definition log_fresh (s : st) : bool := log_okb s (s_pos s).
