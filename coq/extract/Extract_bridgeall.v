(** Extraction of the complete analysis (model/PipelineAll.v, rendered by model/PipelineAllJson.v) to OCaml
    (unit "bridgeall"; ExtrOcamlBasic only; N/positive/nat stay the extracted inductives; no Extract Constant
    of our own).  The driver only touches [analyze_all], the [j_*] renderers and the [jv] values they return. *)
Require Extraction.
Require ExtrOcamlBasic.
From Coq Require Import List NArith String.
From TG.Model Require Import Chars PipelineAll PipelineAllJson.

Extraction Language OCaml.
Extraction "extract/bridgeall_core.ml"
  analyze_all j_whole j_at_file j_hints file_number file_numbers.
