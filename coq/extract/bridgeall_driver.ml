(* bridgeall_run: hand-written driver around the extracted complete analysis (trusted; DESIGN section 2).
   A text is a space-separated list of decimal Unicode scalar values.

   bridgeall_run all   stdin: one workspace per line
                         <root path> ; <path> | <text> [| lo hi lo hi ..] ; <path> | <text> [| ..] ...
                       (the optional third part of a file: inlay-hint request ranges for that file)
                       stdout: one JSON object per line
                         {"files":[path..], "lens":[..], "sm_ok":bool, "closed":bool (SymbolClosed.sm_closedb of the joined state), "bad":bool,
                          "diagnostics":[per file [[lo,hi,"parse",msg] | [lo,hi,"index",class] ..]],
                          "symbols":[per file outline | null | {"panic":..}], "folding":[per file [[lo,hi]..] | null],
                          "links":[per file [[lo,hi,target file number]..] | null],
                          "at":[per file [{"o":off,"def":..,"refs":..,"hover":..,"comp":..,"compbang":..,"def_sm":..,"refs_sm":..}..]]
                               (run-length compressed like harness idedump: an entry when it differs from the previous offset's),
                          "hints":[[file number, lo, hi, hints | null | {"panic":..}] ..]}
                         | {"noncore":true} (collect_sources failed, or a file outside the typed AST)
                       = PipelineAll.analyze_all and the nine queries, everything inside the extracted model; the
                         rendering itself is PipelineAllJson.v, this file only prints the [jv] values. *)
type ostring = Stdlib.String.t
open Bridgeall_core
type cstring = Bridgeall_core.string

let rec pos_of_int (i : int) : positive =
  if i = 1 then XH else if i land 1 = 0 then XO (pos_of_int (i lsr 1)) else XI (pos_of_int (i lsr 1))
let n_of_int (i : int) : n = if i = 0 then N0 else Npos (pos_of_int i)
let rec int_of_pos (p : positive) : int =
  match p with XH -> 1 | XO q -> 2 * int_of_pos q | XI q -> 2 * int_of_pos q + 1
let int_of_n (x : n) : int = match x with N0 -> 0 | Npos p -> int_of_pos p
let rec nat_of_int (i : int) : nat = if i <= 0 then O else S (nat_of_int (i - 1))

let char_of_ascii (Ascii (b0, b1, b2, b3, b4, b5, b6, b7)) =
  let v b k = if b then 1 lsl k else 0 in
  Char.chr (v b0 0 + v b1 1 + v b2 2 + v b3 3 + v b4 4 + v b5 5 + v b6 6 + v b7 7)
let rec ocaml_string (s : cstring) : ostring =
  match s with EmptyString -> "" | String (a, r) -> String.make 1 (char_of_ascii a) ^ ocaml_string r

let split_ws (line : ostring) : ostring list =
  List.filter (fun s -> s <> "") (String.split_on_char ' ' line)
let text_of (s : ostring) : n list = List.map (fun s -> n_of_int (int_of_string s)) (split_ws s)

let json_escape_into (b : Buffer.t) (s : ostring) : unit =
  String.iter (fun c -> match c with
    | '"' -> Buffer.add_string b "\\\"" | '\\' -> Buffer.add_string b "\\\\"
    | '\n' -> Buffer.add_string b "\\n" | '\r' -> Buffer.add_string b "\\r" | '\t' -> Buffer.add_string b "\\t"
    | c when Char.code c < 32 -> Buffer.add_string b (Printf.sprintf "\\u%04x" (Char.code c))
    | c -> Buffer.add_char b c) s

let utf8_of (t : n list) : ostring =
  let b = Buffer.create 64 in
  List.iter (fun c -> Buffer.add_utf_8_uchar b (Uchar.of_int (int_of_n c))) t;
  Buffer.contents b

let rec print_jv (b : Buffer.t) (v : jv) : unit =
  match v with
  | JNull -> Buffer.add_string b "null"
  | JBool x -> Buffer.add_string b (if x then "true" else "false")
  | JNum x -> Buffer.add_string b (string_of_int (int_of_n x))
  | JStr t -> Buffer.add_char b '"'; json_escape_into b (utf8_of t); Buffer.add_char b '"'
  | JLit s -> Buffer.add_char b '"'; json_escape_into b (ocaml_string s); Buffer.add_char b '"'
  | JArr l ->
    Buffer.add_char b '[';
    List.iteri (fun i x -> if i > 0 then Buffer.add_char b ','; print_jv b x) l;
    Buffer.add_char b ']'
  | JObj l ->
    Buffer.add_char b '{';
    List.iteri (fun i (k, x) ->
        if i > 0 then Buffer.add_char b ',';
        Buffer.add_char b '"'; json_escape_into b (ocaml_string k); Buffer.add_string b "\":"; print_jv b x) l;
    Buffer.add_char b '}'

let big_fuel = nat_of_int 1000000

let rec pairs = function
  | a :: b :: r -> (a, b) :: pairs r
  | [] -> []
  | _ -> failwith "hint ranges: odd number of bounds"

let cmd_all line =
  match String.split_on_char ';' line with
  | root :: files ->
    let files = List.map (fun f -> match String.split_on_char '|' f with
        | [p; t] -> (text_of p, text_of t, [])
        | [p; t; h] -> (text_of p, text_of t, pairs (List.map int_of_string (split_ws h)))
        | _ -> failwith "all: expected  path | text [| ranges]") files in
    let total = List.fold_left (fun a (_, t, _) -> a + List.length t) 0 files in
    let inputs = List.map (fun (p, t, _) -> (p, t)) files in
    (match analyze_all big_fuel (nat_of_int (total / 7 + List.length files + 8)) inputs (text_of root) with
     | None -> "{\"noncore\":true}"
     | Some a ->
       let b = Buffer.create 65536 in
       (match j_whole a with
        | JObj l ->
          Buffer.add_char b '{';
          List.iter (fun (k, x) ->
              Buffer.add_char b '"'; Buffer.add_string b (ocaml_string k); Buffer.add_string b "\":"; print_jv b x;
              Buffer.add_char b ',') l
        | _ -> failwith "j_whole");
       Buffer.add_string b "\"at\":[";
       List.iteri (fun i f ->
           if i > 0 then Buffer.add_char b ',';
           Buffer.add_char b '[';
           let prev = ref None in
           let first = ref true in
           List.iter (fun (o, e) ->
               if !prev <> Some e then begin
                 if not !first then Buffer.add_char b ',';
                 first := false;
                 (match e with
                  | JObj l ->
                    Buffer.add_string b (Printf.sprintf "{\"o\":%d" (int_of_n o));
                    List.iter (fun (k, x) ->
                        Buffer.add_string b ",\""; Buffer.add_string b (ocaml_string k); Buffer.add_string b "\":"; print_jv b x) l;
                    Buffer.add_char b '}'
                  | _ -> failwith "j_at");
                 prev := Some e
               end) (j_at_file a f);
           Buffer.add_char b ']') (file_numbers a);
       Buffer.add_string b "],\"hints\":[";
       let first = ref true in
       List.iter (fun (p, _, hs) ->
           match file_number a p with
           | None -> ()
           | Some f ->
             List.iter (fun (lo, hi) ->
                 if not !first then Buffer.add_char b ',';
                 first := false;
                 print_jv b (j_hints a f (n_of_int lo) (n_of_int hi))) hs) files;
       Buffer.add_string b "]}";
       Buffer.contents b)
  | [] -> failwith "all: empty line"

let each_line (f : ostring -> ostring) =
  (try
     while true do
       let line = input_line stdin in
       print_string (try f line with Failure m ->
           let b = Buffer.create 64 in json_escape_into b m; "{\"error\":\"" ^ Buffer.contents b ^ "\"}");
       print_char '\n'
     done
   with End_of_file -> ());
  flush stdout

let () =
  match Sys.argv with
  | [| _; "all" |] -> each_line cmd_all
  | _ -> prerr_endline "usage: bridgeall_run all"; exit 2
