(* host_run: hand-written driver around the extracted M-host model (trusted; DESIGN section 2).
   stdin: one case per line, a space separated list of non-negative integers:
     case    := fuel nContents {content} nDisk {path cidx} nExtra {path} nHist {kind path cidx}
     content := tag nItems {item}
     item    := 0 name | 1 lo hi reached haspath [istr llo lhi]
     path, istr := nSeg {seg}
     kind    := 0 (touch = Server::set_file_content) | 1 (raw AnalysisHost::set_file_content)
   stdout: one JSON line per case: the observation after every step of the history.
   Paths are printed as their segment numbers joined by "/". *)
type ostring = Stdlib.String.t
open Host_core

let rec pos_of_int (i : int) : positive =
  if i = 1 then XH else if i land 1 = 0 then XO (pos_of_int (i lsr 1)) else XI (pos_of_int (i lsr 1))
let n_of_int (i : int) : n = if i = 0 then N0 else Npos (pos_of_int i)
let rec int_of_pos (p : positive) : int =
  match p with XH -> 1 | XO q -> 2 * int_of_pos q | XI q -> 2 * int_of_pos q + 1
let int_of_n (x : n) : int = match x with N0 -> 0 | Npos p -> int_of_pos p
let rec nat_of_int (i : int) : nat = if i <= 0 then O else S (nat_of_int (i - 1))

(* ---- reader *)
let toks : int array ref = ref [||]
let cur = ref 0
let nxt () = let v = !toks.(!cur) in incr cur; v
let rd_list (f : unit -> 'a) : 'a list =
  let k = nxt () in
  let rec go i acc = if i = 0 then List.rev acc else let x = f () in go (i - 1) (x :: acc) in
  go k []
let rd_path () : spath = rd_list (fun () -> n_of_int (nxt ()))
let rd_item () : spath item =
  match nxt () with
  | 0 -> IDecl (n_of_int (nxt ()))
  | _ ->
      let lo = nxt () in let hi = nxt () in
      let reached = nxt () <> 0 in
      let hasp = nxt () <> 0 in
      let tgt =
        if hasp then begin
          let s = rd_path () in
          let llo = nxt () in let lhi = nxt () in
          Some (s, (n_of_int llo, n_of_int lhi)) end
        else None in
      IInc ((n_of_int lo, n_of_int hi), reached, tgt)
let rd_content () : scontent =
  let tag = nxt () in
  let items = rd_list rd_item in
  { c_tag = n_of_int tag; c_items = items }

(* ---- printers *)
let pstr (p : spath) : ostring =
  "\"" ^ String.concat "/" (List.map (fun s -> string_of_int (int_of_n s)) p) ^ "\""
let jlist (xs : ostring list) : ostring = "[" ^ String.concat "," xs ^ "]"
let jrng ((a, b) : rng) : ostring = Printf.sprintf "%d,%d" (int_of_n a) (int_of_n b)
let panic_name = function
  | PUnsetContent -> "unset-file-content" | PNoPath -> "no-path" | PNoParent -> "no-parent"
  | PUnsetIncludeMap -> "unset-include-map" | PNoSourceRoot -> "no-source-root"

let path_of (fs : (spath, spath) fsys) (f : n) : ostring =
  match path_for_file fs f with Some p -> pstr p | None -> Printf.sprintf "\"?%d\"" (int_of_n f)

let rec take k l = if k = 0 then [] else match l with [] -> [] | x :: r -> x :: take (k - 1) r

let dump (fuel : nat) (before : (spath, spath) fsys) ((fs, db) : sstate) : ostring =
  let all = List.rev (ids fs) in
  let ids_j = jlist (List.map (fun (p, f) -> Printf.sprintf "[%s,%d]" (pstr p) (int_of_n f)) all) in
  let fc_j = jlist (List.map (fun (p, f) ->
      Printf.sprintf "[%s,%s]" (pstr p)
        (match fc db f with Some c -> string_of_int (int_of_n c.c_tag) | None -> "null")) all) in
  let rim_j = jlist (List.map (fun (p, f) ->
      Printf.sprintf "[%s,%s]" (pstr p)
        (match rim db f with
         | Some m -> jlist (List.map (fun (r, t) -> Printf.sprintf "[%s,%s]" (jrng r) (path_of fs t)) m)
         | None -> "null")) all) in
  let nreads = List.length (rlog fs) - List.length (rlog before) in
  let reads_j = jlist (List.map pstr (List.rev (take nreads (rlog fs)))) in
  let root_j, files_j, fset =
    match sroot db with
    | Some (fset, root) -> path_of fs root, jlist (List.map (fun (_, p) -> pstr p) (List.rev fset)), List.rev fset
    | None -> "null", "null", [] in
  let links_j = jlist (List.map (fun (f, p) ->
      Printf.sprintf "[%s,%s]" (pstr p)
        (match document_link db f with
         | Done l -> jlist (List.map (fun (r, t) -> Printf.sprintf "[%s,%s]" (jrng r) (path_of fs t)) l)
         | OutOfFuel -> "\"out-of-fuel\""
         | Panic e -> "\"panic:" ^ panic_name e ^ "\"")) fset) in
  let index_j =
    match sroot db with
    | None -> "\"index\":null"
    | Some _ ->
      match index fuel db with
      | Done tr ->
          let nf = jlist (List.map (fun (f, p) ->
              Printf.sprintf "[%s,%s]" (pstr p) (jlist (List.map (fun r -> "[" ^ jrng r ^ "]") (notfound_of f tr)))) fset) in
          let ol = jlist (List.map (fun (f, p) ->
              Printf.sprintf "[%s,%s]" (pstr p) (jlist (List.map (fun x -> string_of_int (int_of_n x)) (outline_of f tr)))) fset) in
          let fl = jlist (List.map (path_of fs) (files_of tr)) in
          Printf.sprintf "\"index\":\"done\",\"notfound\":%s,\"outline\":%s,\"indexed\":%s" nf ol fl
      | OutOfFuel -> "\"index\":\"out-of-fuel\""
      | Panic e -> "\"index\":\"panic:" ^ panic_name e ^ "\"" in
  let digest_j = jlist (List.map (fun x -> string_of_int (int_of_n x)) (digest fuel (fs, db))) in
  Printf.sprintf "{\"outcome\":\"done\",\"ids\":%s,\"fc\":%s,\"rim\":%s,\"reads\":%s,\"root\":%s,\"files\":%s,\"links\":%s,\"digest\":%s,%s}"
    ids_j fc_j rim_j reads_j root_j files_j links_j digest_j index_j

let run_case (line : ostring) : ostring =
  let ws = List.filter (fun s -> s <> "") (String.split_on_char ' ' line) in
  toks := Array.of_list (List.map int_of_string ws);
  cur := 0;
  let fuel = nat_of_int (nxt ()) in
  let contents = Array.of_list (rd_list rd_content) in
  let disk = rd_list (fun () -> let p = rd_path () in let c = nxt () in (p, contents.(c))) in
  let extra = rd_list rd_path in
  let hist = rd_list (fun () -> let k = nxt () in let p = rd_path () in let c = nxt () in (k <> 0, p, contents.(c))) in
  let w = mk_world disk extra in
  let rec go (st : sstate) h acc =
    match h with
    | [] -> List.rev acc
    | (raw, p, c) :: r ->
        (match step fuel w st raw p c with
         | Done st' -> go st' r (dump fuel (fst st) st' :: acc)
         | OutOfFuel -> List.rev ("{\"outcome\":\"out-of-fuel\"}" :: acc)
         | Panic e -> List.rev (("{\"outcome\":\"panic:" ^ panic_name e ^ "\"}") :: acc)) in
  jlist (go st_init hist [])

let () =
  (try
     while true do
       let line = input_line stdin in
       print_string (run_case line); print_char '\n'
     done
   with End_of_file -> ());
  flush stdout
