(* outline_run: hand-written driver around the extracted C18/C19 models (trusted; DESIGN section 2).
   Protocol: `outline_run <cmd>`; stdin = one case per line; stdout = one result line per case.
   A tree is the one-line format of lib/treeio.py:  ( k child .. )  /  [ k cp cp .. ]   (k = SyntaxKind index,
   cp = decimal Unicode scalar values of the token text). *)
type ostring = Stdlib.String.t
open Outline_core
type cstring = Outline_core.string

let rec pos_of_int (i : int) : positive =
  if i = 1 then XH else if i land 1 = 0 then XO (pos_of_int (i lsr 1)) else XI (pos_of_int (i lsr 1))
let n_of_int (i : int) : n = if i = 0 then N0 else Npos (pos_of_int i)
let rec int_of_pos (p : positive) : int =
  match p with XH -> 1 | XO q -> 2 * int_of_pos q | XI q -> 2 * int_of_pos q + 1
let int_of_n (x : n) : int = match x with N0 -> 0 | Npos p -> int_of_pos p

let split_ws (line : ostring) : ostring list =
  List.filter (fun s -> s <> "") (String.split_on_char ' ' line)

let sk_table : syntaxKind array = Array.of_list all_syntax_kinds
let sk_of_index (i : int) : syntaxKind = sk_table.(i)

let parse_tree (toks : ostring list) : tree * ostring list =
  let rec one toks = match toks with
    | "(" :: k :: rest ->
        let rec kids acc r = (match r with
          | ")" :: r' -> (List.rev acc, r')
          | _ -> let (c, r') = one r in kids (c :: acc) r') in
        let (cs, r') = kids [] rest in (Node (sk_of_index (int_of_string k), cs), r')
    | "[" :: k :: rest ->
        let rec cps acc r = (match r with
          | "]" :: r' -> (List.rev acc, r')
          | x :: r' -> cps (n_of_int (int_of_string x) :: acc) r'
          | [] -> failwith "unterminated token") in
        let (txt, r') = cps [] rest in (Tok (sk_of_index (int_of_string k), txt), r')
    | _ -> failwith "bad tree" in
  one toks

let each_line (f : ostring -> ostring) =
  (try
     while true do
       let line = input_line stdin in
       print_string (try f line with Failure m -> "DRIVER-ERROR " ^ m); print_char '\n'
     done
   with End_of_file -> ());
  flush stdout

(* fold: tree -> "lo:hi lo:hi ..." *)
let cmd_fold line =
  let (t, _) = parse_tree (split_ws line) in
  String.concat " " (List.map (fun (lo, hi) -> Printf.sprintf "%d:%d" (int_of_n lo) (int_of_n hi)) (folding_model t))

(* doc: "lo hi | tree" -> "S cp cp .." (Some doc) / "N" (None) / "OOF" *)
let split_bar (line : ostring) : ostring * ostring =
  match String.index_opt line '|' with
  | Some i -> (String.sub line 0 i, String.sub line (i + 1) (String.length line - i - 1))
  | None -> failwith "missing |"
let doc_string r = match r with
  | DocSome d -> "S" ^ String.concat "" (List.map (fun c -> " " ^ string_of_int (int_of_n c)) d)
  | DocNone -> "N"
  | DocOutOfFuel -> "OOF"
let cmd_doc_with f line =
  let (hd, tl) = split_bar line in
  match split_ws hd with
  | [lo; hi] ->
      let (t, _) = parse_tree (split_ws tl) in
      doc_string (f t (n_of_int (int_of_string lo)) (n_of_int (int_of_string hi)))
  | _ -> failwith "doc: expected `lo hi | tree`"

(* ---------------------------------------------------------------------------------------------
   sym: one workspace per line.  Sections separated by " || ":
     OP <code> <args..>     one symbol-map op (hook H3 log line, encoded by lib/outlib.py: names/types as
                            comma-separated code points, "-" = empty)
     FILE <fid> <tree>      the real tree of a workspace file
     Q outline <fid> | Q hover <fid> <off> <off> .. | Q hints <fid> <lo> <hi>
   Output: one JSON object: {"err": "..."} when the op log does not replay, else {"results": [...]} with one
   entry per query. *)
let name_of_tok (s : ostring) : n list =
  if s = "-" then [] else List.map (fun x -> n_of_int (int_of_string x)) (String.split_on_char ',' s)
let ni s = n_of_int (int_of_string s)
let fr f lo hi = { fr_file = ni f; fr_lo = ni lo; fr_hi = ni hi }
let kind_of_tok = function
  | "record" -> KRecord | "template_arg" -> KTemplateArg | "record_field" -> KRecordField | "variable" -> KVariable
  | "defset" -> KDefset | "multiclass" -> KMulticlass | "defm" -> KDefm | s -> failwith ("kind " ^ s)
let parse_op (toks : ostring list) : op =
  match toks with
  | ["AR"; nm; k; f; lo; hi; g; id] -> OpAddRecord (name_of_tok nm, (if k = "C" then RKClass else RKDef), fr f lo hi, g = "1", ni id)
  | ["AAD"; nm; f; lo; hi; id] -> OpAddAnonymousDef (name_of_tok nm, fr f lo hi, ni id)
  | ["ATA"; nm; ty; f; lo; hi; id] -> OpAddTemplateArg (name_of_tok nm, name_of_tok ty, fr f lo hi, ni id)
  | ["ARF"; nm; ty; f; lo; hi; par; id] -> OpAddRecordField (name_of_tok nm, name_of_tok ty, fr f lo hi, ni par, ni id)
  | ["AV"; nm; ty; f; lo; hi; id] -> OpAddVariable (name_of_tok nm, name_of_tok ty, fr f lo hi, ni id)
  | ["ADS"; nm; ty; f; lo; hi; id] -> OpAddDefset (name_of_tok nm, name_of_tok ty, fr f lo hi, ni id)
  | ["AMC"; nm; f; lo; hi; id] -> OpAddMulticlass (name_of_tok nm, fr f lo hi, ni id)
  | ["ADM"; nm; f; lo; hi; g; id] -> OpAddDefm (name_of_tok nm, fr f lo hi, g = "1", ni id)
  | ["AADM"; nm; f; lo; hi; id] -> OpAddAnonymousDefm (name_of_tok nm, fr f lo hi, ni id)
  | ["REF"; k; idx; f; lo; hi] -> OpAddReference ((kind_of_tok k, ni idx), fr f lo hi)
  | ["RM"; id] -> OpRecordMut (ni id)
  | ["DSM"; id] -> OpDefsetMut (ni id)
  | ["MCM"; id] -> OpMulticlassMut (ni id)
  | ["DMM"; id] -> OpDefmMut (ni id)
  | ["RTA"; nm; id] -> OpRecAddTemplateArg (name_of_tok nm, ni id)
  | ["RF"; nm; id] -> OpRecAddField (name_of_tok nm, ni id)
  | ["RP"; id] -> OpRecAddParent (ni id)
  | ["DAD"; id] -> OpDefsetAddDef (ni id)
  | ["MTA"; nm; id] -> OpMcAddTemplateArg (name_of_tok nm, ni id)
  | ["MP"; id] -> OpMcAddParent (ni id)
  | ["DMP"; id] -> OpDefmAddParent (ni id)
  | ["ERR"; f; lo; hi] -> OpError (fr f lo hi)
  | _ -> failwith ("bad op: " ^ String.concat " " toks)

let split_sections (line : ostring) : ostring list list =
  (* split the token list at "||" *)
  let rec go acc cur = function
    | [] -> List.rev (List.rev cur :: acc)
    | "||" :: r -> go (List.rev cur :: acc) [] r
    | x :: r -> go acc (x :: cur) r in
  List.filter (fun s -> s <> []) (go [] [] (split_ws line))

let jname (nm : n list) : ostring = "[" ^ String.concat "," (List.map (fun c -> string_of_int (int_of_n c)) nm) ^ "]"
let dk_string = function
  | DKClass -> "Class" | DKTemplateArgument -> "TemplateArgument" | DKField -> "Field" | DKDef -> "Def"
  | DKVariable -> "Variable" | DKDefset -> "Defset" | DKMulticlass -> "Multiclass"
let rec jdocsym (DocSym (nm, typ, lo, hi, k, ch)) : ostring =
  Printf.sprintf "{\"name\":%s,\"typ\":%s,\"range\":[%d,%d],\"kind\":\"%s\",\"children\":[%s]}"
    (jname nm) (jname typ) (int_of_n lo) (int_of_n hi) (dk_string k) (String.concat "," (List.map jdocsym ch))
let err_string = function
  | EInvalidId _ -> "invalid id" | EIntervalEmpty -> "interval empty" | EAnonymousNotDef -> "anonymous not def"
  | ENoCursor -> "no cursor" | EIdMismatch -> "id mismatch" | EOutOfFuel -> "out of fuel"
let jdoc = function
  | DocSome d -> jname d | DocNone -> "null" | DocOutOfFuel -> "\"OOF\""

let cmd_sym line =
  let secs = split_sections line in
  let ops = List.filter_map (function "OP" :: r -> Some (parse_op r) | _ -> None) secs in
  let files = List.filter_map (function "FILE" :: fid :: r -> Some (int_of_string fid, fst (parse_tree r)) | _ -> None) secs in
  let trees (f : n) = List.assoc_opt (int_of_n f) files in
  match run_ops ops with
  | SErr e -> "{\"err\":\"op log does not replay: " ^ err_string e ^ "\"}"
  | SOk st ->
      let q = function
        | ["Q"; "outline"; fid] ->
            (match document_symbol st (ni fid) with
             | SErr e -> Some ("{\"panic\":\"" ^ err_string e ^ "\"}")
             | SOk None -> Some "null"
             | SOk (Some l) -> Some ("[" ^ String.concat "," (List.map jdocsym l) ^ "]"))
        | "Q" :: "hover" :: fid :: offs ->
            let b = Buffer.create 1024 in
            let prev = ref "" in
            let first = ref true in
            List.iter (fun o ->
              let e =
                match hover st trees (ni fid) (ni o), goto_definition st (ni fid) (ni o) with
                | SErr e, _ | _, SErr e -> "{\"panic\":\"" ^ err_string e ^ "\"}"
                | SOk h, SOk d ->
                    let hs = (match h with None -> "null"
                              | Some (sg, doc) -> Printf.sprintf "{\"sig\":%s,\"doc\":%s}" (jname sg) (jdoc doc)) in
                    let ds = (match d with None -> "null"
                              | Some r -> Printf.sprintf "[%d,%d,%d]" (int_of_n r.fr_file) (int_of_n r.fr_lo) (int_of_n r.fr_hi)) in
                    Printf.sprintf "\"hover\":%s,\"def\":%s" hs ds in
              if e <> !prev then begin
                if not !first then Buffer.add_char b ',';
                first := false;
                Buffer.add_string b (Printf.sprintf "{\"o\":%s,%s}" o e);
                prev := e
              end) offs;
            Some ("[" ^ Buffer.contents b ^ "]")
        | ["Q"; "hints"; fid; lo; hi] ->
            (match inlay_hint st trees (fr fid lo hi) with
             | SErr e -> Some ("{\"panic\":\"" ^ err_string e ^ "\"}")
             | SOk None -> Some "null"
             | SOk (Some l) ->
                 Some ("[" ^ String.concat "," (List.map (fun h ->
                   Printf.sprintf "[%d,%s,\"%s\"]" (int_of_n h.h_pos) (jname h.h_label)
                     (match h.h_kind with HKTemplateArg -> "TemplateArg" | HKFieldLet -> "FieldLet")) l) ^ "]"))
        | "Q" :: _ -> failwith "bad query"
        | _ -> None in
      "{\"results\":[" ^ String.concat "," (List.filter_map q secs) ^ "]}"

(* ---------------------------------------------------------------------------------------------
   oix: the outline-relevant slice of the indexer (OutlineIndex.v) on the typed AST printed by harness `coreast`.
   Input line: the "ast" s-expression of one workspace.  Output: one JSON object
     {"bad": bool, "ops": ["AR 65 C 0 6 7 1 0", ...], "outline": [<per file number: outline | null | {"panic":..}>]}
   (ops in the token form of lib/outlib.encode_op).  The s-expression reader is the one of scope_driver.ml. *)
type sx = A of ostring | L of sx list

let parse_sexp (s : ostring) : sx =
  let n = String.length s in
  let pos = ref 0 in
  let rec skip () = if !pos < n && (s.[!pos] = ' ' || s.[!pos] = '\n' || s.[!pos] = '\t') then (incr pos; skip ()) in
  let rec one () : sx =
    skip ();
    if !pos >= n then failwith "sexp: eof";
    if s.[!pos] = '(' then begin
      incr pos;
      let items = ref [] in
      let rec loop () =
        skip ();
        if !pos >= n then failwith "sexp: unclosed";
        if s.[!pos] = ')' then incr pos
        else (items := one () :: !items; loop ()) in
      loop ();
      L (List.rev !items)
    end else begin
      let st = !pos in
      while !pos < n && s.[!pos] <> ' ' && s.[!pos] <> '(' && s.[!pos] <> ')' do incr pos done;
      A (String.sub s st (!pos - st))
    end in
  one ()

let num = function A a -> n_of_int (int_of_string a) | _ -> failwith "num"
let rng3 f lo hi = { r_file = num f; r_lo = num lo; r_hi = num hi }
let ident = function
  | L (A "id" :: f :: lo :: hi :: cps) -> { i_rng = rng3 f lo hi; i_name = List.map num cps }
  | _ -> failwith "ident"
let name_of = function L (A "n" :: cps) -> List.map num cps | _ -> failwith "name"
let rec typ = function
  | L [A "bit"] -> TyBit | L [A "int"] -> TyInt | L [A "string"] -> TyString | L [A "code"] -> TyCode
  | L [A "dag"] -> TyDag
  | L [A "bits"; k] -> TyBits (num k)
  | L [A "list"; t] -> TyList (typ t)
  | L [A "class"; i] -> TyClass (ident i)
  | _ -> failwith "typ"
(* values only matter through the first identifier of a def name: everything else is read structurally *)
let rec value = function
  | L (A "val" :: f :: lo :: hi :: inners) -> Val (rng3 f lo hi, List.map inner inners)
  | _ -> failwith "value"
and inner = function
  | L (A "in" :: sv :: _sufs) -> Inner (simple sv, [])
  | _ -> failwith "inner"
and simple = function
  | L (A "id" :: _) as i -> SId (ident i)
  | _ -> SUninit
let opt_value = function
  | L [A "some"; v] -> Some (value v) | L [A "none"] -> None | _ -> failwith "opt value"
let targs = function
  | L [A "none"] -> None
  | L [A "some"; L (A "targs" :: l)] ->
    Some (List.map (function L [A "ta"; t; i; d] -> TArg (typ t, ident i, opt_value d) | _ -> failwith "ta") l)
  | _ -> failwith "targs"
let parents = function
  | L (A "parents" :: l) ->
    List.map (function L [A "cr"; i; _a; f; lo; hi] -> CRef (ident i, [], rng3 f lo hi) | _ -> failwith "cr") l
  | _ -> failwith "parents"
let dummy_value = Val ({ r_file = N0; r_lo = N0; r_hi = N0 }, [])
let item = function
  | L [A "field"; t; i; _v] -> IField (typ t, ident i, None)
  | L [A "let"; i; _v] -> ILet (ident i, dummy_value)
  | L [A "defvar"; i; _v] -> IDefvar (ident i, dummy_value)
  | L [A "assert"; _c; _m] -> IAssert (dummy_value, dummy_value)
  | L [A "dump"; _v] -> IDump dummy_value
  | _ -> failwith "item"
let body = function L (A "body" :: l) -> List.map item l | _ -> failwith "body"
let rec stmts = function L (A "stmts" :: l) -> List.map stmt l | _ -> failwith "stmts"
and stmt = function
  | L [A "include"; f; lo; hi; t] ->
    SInclude (rng3 f lo hi, (match t with L [A "some"; k] -> Some (num k) | _ -> None))
  | L [A "assert"; _c; _m] -> SAssert (dummy_value, dummy_value)
  | L [A "class"; i; ta; ps; b] -> SClass (ident i, targs ta, parents ps, body b)
  | L [A "def"; nm; f; lo; hi; ps; b] -> SDef (opt_value nm, rng3 f lo hi, parents ps, body b)
  | L [A "defm"; nm; f; lo; hi; _ps] -> SDefm (opt_value nm, rng3 f lo hi, [])
  | L [A "defset"; t; i; b] -> SDefset (typ t, ident i, stmts b)
  | L [A "defvar"; i; _v] -> SDefvar (ident i, dummy_value)
  | L [A "dump"; _v] -> SDump dummy_value
  | L [A "foreach"; i; _init; b] -> SForeach (ident i, FeRange, stmts b)
  | L [A "if"; _c; th; el] ->
    SIf (dummy_value, stmts th, (match el with L [A "some"; e] -> Some (stmts e) | _ -> None))
  | L [A "let"; _vs; b] -> SLet ([], stmts b)
  | L [A "multiclass"; i; ta; _ps; b] -> SMulticlass (ident i, targs ta, [], stmts b)
  | _ -> failwith "stmt"
let workspace_of (sexp : sx) : workspace =
  match sexp with
  | L (A "ws" :: fs) ->
    { ws_files = List.map (function L [A "file"; s] -> stmts s | _ -> failwith "file") fs; ws_perrs = [] }
  | _ -> failwith "ws"

let tok_name (nm : n list) : ostring =
  if nm = [] then "-" else String.concat "," (List.map (fun c -> string_of_int (int_of_n c)) nm)
let i_ x = string_of_int (int_of_n x)
let frs r = Printf.sprintf "%s %s %s" (i_ r.fr_file) (i_ r.fr_lo) (i_ r.fr_hi)
let b_ x = if x then "1" else "0"
let kind_tok = function
  | KRecord -> "record" | KTemplateArg -> "template_arg" | KRecordField -> "record_field" | KVariable -> "variable"
  | KDefset -> "defset" | KMulticlass -> "multiclass" | KDefm -> "defm"
let op_string (o : op) : ostring =
  match o with
  | OpAddRecord (nm, k, loc, g, id) ->
      Printf.sprintf "AR %s %s %s %s %s" (tok_name nm) (match k with RKClass -> "C" | RKDef -> "D") (frs loc) (b_ g) (i_ id)
  | OpAddAnonymousDef (nm, loc, id) -> Printf.sprintf "AAD %s %s %s" (tok_name nm) (frs loc) (i_ id)
  | OpAddTemplateArg (nm, ty, loc, id) -> Printf.sprintf "ATA %s %s %s %s" (tok_name nm) (tok_name ty) (frs loc) (i_ id)
  | OpAddRecordField (nm, ty, loc, par, id) ->
      Printf.sprintf "ARF %s %s %s %s %s" (tok_name nm) (tok_name ty) (frs loc) (i_ par) (i_ id)
  | OpAddVariable (nm, ty, loc, id) -> Printf.sprintf "AV %s %s %s %s" (tok_name nm) (tok_name ty) (frs loc) (i_ id)
  | OpAddDefset (nm, ty, loc, id) -> Printf.sprintf "ADS %s %s %s %s" (tok_name nm) (tok_name ty) (frs loc) (i_ id)
  | OpAddMulticlass (nm, loc, id) -> Printf.sprintf "AMC %s %s %s" (tok_name nm) (frs loc) (i_ id)
  | OpAddDefm (nm, loc, g, id) -> Printf.sprintf "ADM %s %s %s %s" (tok_name nm) (frs loc) (b_ g) (i_ id)
  | OpAddAnonymousDefm (nm, loc, id) -> Printf.sprintf "AADM %s %s %s" (tok_name nm) (frs loc) (i_ id)
  | OpAddReference ((k, idx), loc) -> Printf.sprintf "REF %s %s %s" (kind_tok k) (i_ idx) (frs loc)
  | OpRecordMut id -> "RM " ^ i_ id | OpDefsetMut id -> "DSM " ^ i_ id
  | OpMulticlassMut id -> "MCM " ^ i_ id | OpDefmMut id -> "DMM " ^ i_ id
  | OpRecAddTemplateArg (nm, id) -> Printf.sprintf "RTA %s %s" (tok_name nm) (i_ id)
  | OpRecAddField (nm, id) -> Printf.sprintf "RF %s %s" (tok_name nm) (i_ id)
  | OpRecAddParent id -> "RP " ^ i_ id
  | OpDefsetAddDef id -> "DAD " ^ i_ id
  | OpMcAddTemplateArg (nm, id) -> Printf.sprintf "MTA %s %s" (tok_name nm) (i_ id)
  | OpMcAddParent id -> "MP " ^ i_ id
  | OpDefmAddParent id -> "DMP " ^ i_ id
  | OpError loc -> "ERR " ^ frs loc

let cmd_oix line =
  let w = workspace_of (parse_sexp line) in
  let st = oix w in
  let nfiles = List.length w.ws_files in
  let outl = List.init nfiles (fun k ->
    match outline_of_ws w (n_of_int k) with
    | SErr e -> "{\"panic\":\"" ^ err_string e ^ "\"}"
    | SOk None -> "null"
    | SOk (Some l) -> "[" ^ String.concat "," (List.map jdocsym l) ^ "]") in
  (* side condition of C18_outline_source_complete (single file, no include statement): counts of registered / source declarations *)
  let src = (match w.ws_files with
    | [root] when List.for_all no_include root ->
        Printf.sprintf "[%d,%d]" (List.length (ops_decls (oix_ops w))) (List.length (program_decls root))
    | _ -> "null") in
  (* the full registration stream (declarations, template arguments, fields) against the AST-only visit of OutlineChildSpec.v *)
  let child = (match visitc_ws w with
    | None -> "\"incomplete\""
    | Some (evs, _) -> if evs = ops_cevs (oix_ops w) then "\"equal\"" else "\"different\"") in
  Printf.sprintf "{\"bad\":%s,\"decls_wf\":%s,\"children_stream\":%s,\"ops\":[%s],\"outline\":[%s],\"decl_counts\":%s}" (if st.oi_bad then "true" else "false")
    (if decls_wf w then "true" else "false") child
    (String.concat "," (List.map (fun o -> "\"" ^ op_string o ^ "\"") (oix_ops w)))
    (String.concat "," outl) src

let () =
  match Sys.argv with
  | [| _; "oix" |] -> each_line cmd_oix
  | [| _; "sym" |] -> each_line cmd_sym
  | [| _; "fold" |] -> each_line cmd_fold
  | [| _; "doc" |] -> each_line (cmd_doc_with extract_doc_comments)
  | [| _; "docrowan" |] -> each_line (cmd_doc_with extract_doc_comments_rowan)
  | _ -> prerr_endline "usage: outline_run <cmd>"; exit 2
