(* outline_run: hand-written driver around the extracted C18/C19 models (trusted; DESIGN section 2).
   Protocol: `outline_run <cmd>`; stdin = one case per line; stdout = one result line per case.
   A tree is the one-line format of lib/treeio.py:  ( k child .. )  /  [ k cp cp .. ]   (k = SyntaxKind index,
   cp = decimal Unicode scalar values of the token text). *)
type ostring = Stdlib.String.t
open Outline_core
type cstring = Outline_core.string

let rec pos_of_int (i : int) : positive =
  if i = 1 then XH else if i land 1 = 0 then XO (pos_of_int (i lsr 1)) else XI (pos_of_int (i lsr 1))
let n_of_int (i : int) : n = if i = 0 then N0 else Npos (pos_of_int i)
let rec int_of_pos (p : positive) : int =
  match p with XH -> 1 | XO q -> 2 * int_of_pos q | XI q -> 2 * int_of_pos q + 1
let int_of_n (x : n) : int = match x with N0 -> 0 | Npos p -> int_of_pos p

let split_ws (line : ostring) : ostring list =
  List.filter (fun s -> s <> "") (String.split_on_char ' ' line)

let sk_table : syntaxKind array = Array.of_list all_syntax_kinds
let sk_of_index (i : int) : syntaxKind = sk_table.(i)

let parse_tree (toks : ostring list) : tree * ostring list =
  let rec one toks = match toks with
    | "(" :: k :: rest ->
        let rec kids acc r = (match r with
          | ")" :: r' -> (List.rev acc, r')
          | _ -> let (c, r') = one r in kids (c :: acc) r') in
        let (cs, r') = kids [] rest in (Node (sk_of_index (int_of_string k), cs), r')
    | "[" :: k :: rest ->
        let rec cps acc r = (match r with
          | "]" :: r' -> (List.rev acc, r')
          | x :: r' -> cps (n_of_int (int_of_string x) :: acc) r'
          | [] -> failwith "unterminated token") in
        let (txt, r') = cps [] rest in (Tok (sk_of_index (int_of_string k), txt), r')
    | _ -> failwith "bad tree" in
  one toks

let each_line (f : ostring -> ostring) =
  (try
     while true do
       let line = input_line stdin in
       print_string (try f line with Failure m -> "DRIVER-ERROR " ^ m); print_char '\n'
     done
   with End_of_file -> ());
  flush stdout

(* fold: tree -> "lo:hi lo:hi ..." *)
let cmd_fold line =
  let (t, _) = parse_tree (split_ws line) in
  String.concat " " (List.map (fun (lo, hi) -> Printf.sprintf "%d:%d" (int_of_n lo) (int_of_n hi)) (folding_model t))

(* doc: "lo hi | tree" -> "S cp cp .." (Some doc) / "N" (None) / "OOF" *)
let split_bar (line : ostring) : ostring * ostring =
  match String.index_opt line '|' with
  | Some i -> (String.sub line 0 i, String.sub line (i + 1) (String.length line - i - 1))
  | None -> failwith "missing |"
let doc_string r = match r with
  | DocSome d -> "S" ^ String.concat "" (List.map (fun c -> " " ^ string_of_int (int_of_n c)) d)
  | DocNone -> "N"
  | DocOutOfFuel -> "OOF"
let cmd_doc_with f line =
  let (hd, tl) = split_bar line in
  match split_ws hd with
  | [lo; hi] ->
      let (t, _) = parse_tree (split_ws tl) in
      doc_string (f t (n_of_int (int_of_string lo)) (n_of_int (int_of_string hi)))
  | _ -> failwith "doc: expected `lo hi | tree`"

let () =
  match Sys.argv with
  | [| _; "fold" |] -> each_line cmd_fold
  | [| _; "doc" |] -> each_line (cmd_doc_with extract_doc_comments)
  | [| _; "docrowan" |] -> each_line (cmd_doc_with extract_doc_comments_rowan)
  | _ -> prerr_endline "usage: outline_run <cmd>"; exit 2
