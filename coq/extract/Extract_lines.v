(** Extraction of the position-mapping models (unit "lines") to OCaml (ExtrOcamlBasic only;
    N/positive/nat stay the extracted inductives; no Extract Constant of our own). *)
Require Extraction.
Require ExtrOcamlBasic.
From Coq Require Import List NArith.
From TG.Model Require Import Chars LineIndex.

Extraction Language OCaml.
Extraction "extract/lines_core.ml"
  bytes encode pos_of off_of
  li_new to_proto_position to_proto_range from_proto_position from_proto_range
  to_proto_folding_range to_proto_inlay_hint_position to_proto_location_range to_proto_diagnostic_range
  to_proto_document_link_range to_proto_document_symbol_range.
