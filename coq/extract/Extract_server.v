(** Extraction of the server models (unit "server": lock-protocol trace checker, publication protocol,
    location plumbing) to OCaml (ExtrOcamlBasic only; no Extract Constant of our own). *)
Require Extraction.
Require ExtrOcamlBasic.
From Coq Require Import List NArith.
From TG.Model Require Import Chars LineIndex Sched SchedTrace ServerProto.

Extraction Language OCaml.
Extraction "extract/server_core.ml"
  check_trace skeleton diag
  publications publications_old
  h_definition h_definition_old h_references h_references_old h_document_symbol h_folding_range
  h_inlay_hint h_document_link h_diagnostics pos_of.
