(** Extraction of the C18/C19 models (group outline) to OCaml (ExtrOcamlBasic only). *)
Require Extraction.
Require ExtrOcamlBasic.
From Coq Require Import List NArith String.
From TG.Gen Require Import GenTokens GenFoldKinds.
From TG.Model Require Import Chars Tree TreeNav Folding DocComments SymbolMap Outline CoreAst OutlineIndex OutlineSpec OutlineChildSpec.

Extraction Language OCaml.
Extraction "extract/outline_core.ml"
  sk_index sk_name all_syntax_kinds bytes tree_len
  folding_model extract_doc_comments extract_doc_comments_rowan
  run_ops document_symbol hover extract_symbol_signature goto_definition inlay_hint iter_symbols_in_file
  mkWs oix oix_ops oi_bad oi_sm outline_of_ws ops_decls program_decls no_include decls_wf visitc_ws ops_cevs c_skipped.
