(* ixbridge_run: hand-written driver (trusted) around the extracted bridge unit: the indexer model of group scope
   (Indexer.index_ws over the typed Core AST) followed by IndexerOps.abs, i.e. the symbol-map state the indexer
   model's result stands for.  The CoreAst reader below is a copy of the one in scope_driver.ml (group scope).
   stdin : one workspace per line, same format as scope_run:  len0 len1 ... ; f lo hi ... ; <sexp>
   stdout: one JSON line per workspace:
     {"bad":bool, "pos":{"f":[[lo,hi,code,id],...]}, "arenas":{"code":[{"name":..,"def":[f,lo,hi],"refs":[...],
       "class":bool,"targs":[[name,id]..],"fields":[[name,id]..],"parents":[..]}, ...]}, "diags":[[f,lo,hi],...]}
   kind codes: 0 record, 1 template_arg, 2 record_field, 3 variable, 4 defset, 5 multiclass, 6 defm. *)
open Ixbridge_core

let rec pos_of_int (i : int) : positive =
  if i = 1 then XH else if i land 1 = 0 then XO (pos_of_int (i lsr 1)) else XI (pos_of_int (i lsr 1))
let n_of_int (i : int) : n = if i = 0 then N0 else Npos (pos_of_int i)
let rec int_of_pos (p : positive) : int =
  match p with XH -> 1 | XO q -> 2 * int_of_pos q | XI q -> 2 * int_of_pos q + 1
let int_of_n (x : n) : int = match x with N0 -> 0 | Npos p -> int_of_pos p

type sx = A of string | L of sx list

let parse_sexp (s : string) : sx =
  let n = String.length s in
  let pos = ref 0 in
  let rec skip () = if !pos < n && (s.[!pos] = ' ' || s.[!pos] = '\n' || s.[!pos] = '\t') then (incr pos; skip ()) in
  let rec one () : sx =
    skip ();
    if !pos >= n then failwith "sexp: eof";
    if s.[!pos] = '(' then begin
      incr pos;
      let items = ref [] in
      let rec loop () =
        skip ();
        if !pos >= n then failwith "sexp: unclosed";
        if s.[!pos] = ')' then incr pos
        else (items := one () :: !items; loop ()) in
      loop ();
      L (List.rev !items)
    end else begin
      let st = !pos in
      while !pos < n && s.[!pos] <> ' ' && s.[!pos] <> '(' && s.[!pos] <> ')' do incr pos done;
      A (String.sub s st (!pos - st))
    end in
  one ()

let num = function A a -> n_of_int (int_of_string a) | _ -> failwith "num"
let rng3 f lo hi = { r_file = num f; r_lo = num lo; r_hi = num hi }

let ident = function
  | L (A "id" :: f :: lo :: hi :: cps) -> { i_rng = rng3 f lo hi; i_name = List.map num cps }
  | _ -> failwith "ident"
let name_of = function L (A "n" :: cps) -> List.map num cps | _ -> failwith "name"

let rec typ = function
  | L [A "bit"] -> TyBit | L [A "int"] -> TyInt | L [A "string"] -> TyString | L [A "code"] -> TyCode
  | L [A "dag"] -> TyDag
  | L [A "bits"; k] -> TyBits (num k)
  | L [A "list"; t] -> TyList (typ t)
  | L [A "class"; i] -> TyClass (ident i)
  | _ -> failwith "typ"

let bop_of = function
  | "XAdd" -> XAdd | "XAnd" -> XAnd | "XMul" -> XMul | "XOr" -> XOr | "XXor" -> XXor | "XDiv" -> XDiv
  | "XSub" -> XSub | "XSrl" -> XSrl | "XSra" -> XSra | "XShl" -> XShl | "XCast" -> XCast | "XCon" -> XCon
  | "XDag" -> XDag | "XEmpty" -> XEmpty | "XEq" -> XEq | "XNe" -> XNe | "XExists" -> XExists
  | "XFilter" -> XFilter | "XFind" -> XFind | "XFoldl" -> XFoldl | "XForEach" -> XForEach | "XGe" -> XGe
  | "XGt" -> XGt | "XLe" -> XLe | "XLt" -> XLt | "XGetDagArg" -> XGetDagArg | "XGetDagName" -> XGetDagName
  | "XGetDagOp" -> XGetDagOp | "XHead" -> XHead | "XIf" -> XIf | "XInitialized" -> XInitialized
  | "XInterleave" -> XInterleave | "XIsA" -> XIsA | "XListConcat" -> XListConcat
  | "XListFlatten" -> XListFlatten | "XListRemove" -> XListRemove | "XListSplat" -> XListSplat
  | "XLog2" -> XLog2 | "XNot" -> XNot | "XRange" -> XRange | "XRepr" -> XRepr | "XSetDagArg" -> XSetDagArg
  | "XSetDagName" -> XSetDagName | "XSetDagOp" -> XSetDagOp | "XSize" -> XSize | "XStrConcat" -> XStrConcat
  | "XSubst" -> XSubst | "XSubstr" -> XSubstr | "XTail" -> XTail | "XToLower" -> XToLower
  | "XToUpper" -> XToUpper
  | s -> failwith ("bop " ^ s)

let rec value = function
  | L (A "val" :: f :: lo :: hi :: inners) -> Val (rng3 f lo hi, List.map inner inners)
  | _ -> failwith "value"
and inner = function
  | L (A "in" :: sv :: sufs) -> Inner (simple sv, List.map suffix sufs)
  | _ -> failwith "inner"
and suffix = function
  | L [A "rs"] -> SufRange
  | L [A "sl"; A b] -> SufSlice (b = "1")
  | L [A "fs"; i; f; lo; hi] -> SufField (ident i, rng3 f lo hi)
  | _ -> failwith "suffix"
and args = function
  | L (A "args" :: l) -> List.map arg l
  | _ -> failwith "args"
and arg = function
  | L [A "pos"; v; f; lo; hi] -> APos (value v, rng3 f lo hi)
  | L [A "named"; nm; v; f; lo; hi] -> ANamed (name_of nm, value v, rng3 f lo hi)
  | L [A "namedbad"; f; lo; hi] -> ANamedBad (rng3 f lo hi)
  | _ -> failwith "arg"
and simple = function
  | L [A "i"] -> SInt | L [A "s"] -> SString | L [A "c"] -> SCode | L [A "b"] -> SBool | L [A "u"] -> SUninit
  | L (A "bits" :: vs) -> SBits (List.map value vs)
  | L (A "lst" :: vs) -> SList (List.map value vs)
  | L (A "dag" :: vs) -> SDag (List.map value vs)
  | L (A "id" :: _) as i -> SId (ident i)
  | L [A "cv"; i; a; f; lo; hi] -> SClassVal (ident i, args a, rng3 f lo hi)
  | L [A "bang"; A k; ty; L (A "vals" :: vs); f; lo; hi] ->
    let annot = match ty with
      | L [A "noty"] -> None
      | L [A "ty"; t; tf; tlo; thi] -> Some (typ t, rng3 tf tlo thi)
      | _ -> failwith "bang ty" in
    SBang (bop_of k, annot, List.map value vs, rng3 f lo hi)
  | L (A "cond" :: vs) -> SCond (List.map value vs)
  | _ -> failwith "simple"

let opt_value = function
  | L [A "some"; v] -> Some (value v) | L [A "none"] -> None | _ -> failwith "opt value"
let targs = function
  | L [A "none"] -> None
  | L [A "some"; L (A "targs" :: l)] ->
    Some (List.map (function L [A "ta"; t; i; d] -> TArg (typ t, ident i, opt_value d) | _ -> failwith "ta") l)
  | _ -> failwith "targs"
let parents = function
  | L (A "parents" :: l) ->
    List.map (function L [A "cr"; i; a; f; lo; hi] -> CRef (ident i, args a, rng3 f lo hi) | _ -> failwith "cr") l
  | _ -> failwith "parents"
let item = function
  | L [A "field"; t; i; v] -> IField (typ t, ident i, opt_value v)
  | L [A "let"; i; v] -> ILet (ident i, value v)
  | L [A "defvar"; i; v] -> IDefvar (ident i, value v)
  | L [A "assert"; c; m] -> IAssert (value c, value m)
  | L [A "dump"; v] -> IDump (value v)
  | _ -> failwith "item"
let body = function L (A "body" :: l) -> List.map item l | _ -> failwith "body"

let rec stmts = function L (A "stmts" :: l) -> List.map stmt l | _ -> failwith "stmts"
and stmt = function
  | L [A "include"; f; lo; hi; t] ->
    SInclude (rng3 f lo hi, (match t with L [A "some"; k] -> Some (num k) | _ -> None))
  | L [A "assert"; c; m] -> SAssert (value c, value m)
  | L [A "class"; i; ta; ps; b] -> SClass (ident i, targs ta, parents ps, body b)
  | L [A "def"; nm; f; lo; hi; ps; b] -> SDef (opt_value nm, rng3 f lo hi, parents ps, body b)
  | L [A "defm"; nm; f; lo; hi; ps] -> SDefm (opt_value nm, rng3 f lo hi, parents ps)
  | L [A "defset"; t; i; b] -> SDefset (typ t, ident i, stmts b)
  | L [A "defvar"; i; v] -> SDefvar (ident i, value v)
  | L [A "dump"; v] -> SDump (value v)
  | L [A "foreach"; i; init; b] ->
    SForeach (ident i, (match init with L [A "range"] -> FeRange | L [A "v"; v] -> FeValue (value v)
                                   | _ -> failwith "foreach init"), stmts b)
  | L [A "if"; c; th; el] ->
    SIf (value c, stmts th, (match el with L [A "some"; e] -> Some (stmts e) | _ -> None))
  | L [A "let"; L (A "vals" :: vs); b] -> SLet (List.map value vs, stmts b)
  | L [A "multiclass"; i; ta; ps; b] -> SMulticlass (ident i, targs ta, parents ps, stmts b)
  | _ -> failwith "stmt"

let workspace_of (sexp : sx) (perrs : rng list) : workspace =
  match sexp with
  | L (A "ws" :: fs) ->
    { ws_files = List.map (function L [A "file"; s] -> stmts s | _ -> failwith "file") fs; ws_perrs = perrs }
  | _ -> failwith "ws"


let split_ws (line : string) : string list =
  List.filter (fun s -> s <> "") (String.split_on_char ' ' line)
let split3 (line : string) =
  let i = String.index line ';' in
  let j = String.index_from line (i + 1) ';' in
  (String.sub line 0 i, String.sub line (i + 1) (j - i - 1), String.sub line (j + 1) (String.length line - j - 1))
let rec triples = function
  | a :: b :: c :: r -> { r_file = n_of_int a; r_lo = n_of_int b; r_hi = n_of_int c } :: triples r
  | [] -> []
  | _ -> failwith "perrs"
let parse_line line =
  let (_a, b, c) = split3 line in
  let perrs = triples (List.map int_of_string (split_ws b)) in
  workspace_of (parse_sexp c) perrs

let json_escape (s : string) : string =
  let b = Buffer.create (String.length s + 8) in
  String.iter (fun c -> match c with
    | '"' -> Buffer.add_string b "\\\"" | '\\' -> Buffer.add_string b "\\\\"
    | c when Char.code c < 32 -> Buffer.add_string b (Printf.sprintf "\\u%04x" (Char.code c))
    | c -> Buffer.add_char b c) s;
  Buffer.contents b
let encode (cs : n list) : string =
  let b = Buffer.create 16 in
  List.iter (fun c -> Buffer.add_utf_8_uchar b (Uchar.of_int (int_of_n c))) cs;
  Buffer.contents b
let jname n = "\"" ^ json_escape (encode n) ^ "\""
let jlist f l = "[" ^ String.concat "," (List.map f l) ^ "]"
let jfr (r : file_range) =
  Printf.sprintf "[%d,%d,%d]" (int_of_n r.fr_file) (int_of_n r.fr_lo) (int_of_n r.fr_hi)
let jmap m = jlist (fun (n, v) -> Printf.sprintf "[%s,%d]" (jname n) (int_of_n v)) m

let cmd line =
  let w = parse_line line in
  let s = index_ws w in
  let st = abs s in
  let b = Buffer.create 4096 in
  let add = Buffer.add_string b in
  add (Printf.sprintf "{\"bad\":%s,\"log_fresh\":%s,\"pos\":{" (if s_bad s then "true" else "false") (if log_fresh s then "true" else "false"));
  add (String.concat "," (List.map (fun (f, m) ->
    Printf.sprintf "\"%d\":%s" (int_of_n f)
      (jlist (fun ((lo, hi), (k, i)) -> Printf.sprintf "[%d,%d,%d,%d]" (int_of_n lo) (int_of_n hi) (int_of_n (kind_code k)) (int_of_n i)) m))
    (sm_pos st)));
  add "},\"arenas\":{";
  add (String.concat "," (List.map (fun (code, k) ->
    Printf.sprintf "\"%d\":%s" (int_of_n code)
      (jlist (fun (e : entry) ->
         Printf.sprintf "{\"name\":%s,\"def\":%s,\"refs\":%s,\"class\":%s,\"targs\":%s,\"fields\":%s,\"parents\":%s}"
           (jname e.e_name) (jfr e.e_def) (jlist jfr e.e_refs)
           (if entry_is_class e then "true" else "false")
           (jmap (p_targs e.e_payload)) (jmap (p_fields e.e_payload))
           (jlist (fun p -> string_of_int (int_of_n p)) (p_parents e.e_payload)))
         (get_arena st k))) kinds_coded));
  add "},\"diags\":"; add (jlist jfr (sm_diags st));
  let stn = absN s in
  add ",\"name_to_class\":"; add (jmap (sm_name_to_class stn));
  add ",\"name_to_def\":"; add (jmap (sm_name_to_def stn));
  add ",\"declared_classes\":";
  let rec int_of_nat = function O -> 0 | S k -> 1 + int_of_nat k in
  add (jlist (fun (n, k) -> Printf.sprintf "[%s,%d]" (jname n) (int_of_nat k)) (declared_classes w));
  add "}";
  Buffer.contents b

let () =
  (try
     while true do
       let line = input_line stdin in
       print_string (try cmd line with Failure m -> "{\"error\":\"" ^ json_escape m ^ "\"}"); print_char '\n'
     done
   with End_of_file -> ());
  flush stdout
