(** Extraction of the indexer model and the (typed) declarative resolver ScopeSpecT (unit "scope") to OCaml
    (ExtrOcamlBasic only; N/positive/nat stay the extracted inductives; no Extract Constant of our own). *)
Require Extraction.
Require ExtrOcamlBasic.
From Coq Require Import List NArith.
From TG.Model Require Import CoreAst Scope BangOps Indexer ScopeSpecT.

Extraction Language OCaml.
Extraction "extract/scope_core.ml"
  mkWs index_ws diagnostics goto_definition references s_bad s_pos s_uses
  spec_uses frag_ws well_scoped.
