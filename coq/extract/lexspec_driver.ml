(* lexspec_run: hand-written driver around the extracted SPECIFICATION of the token language
   (coq/model/LexSpec.v); trusted glue, see design/notes-C14.md.
   Protocol: `lexspec_run <cmd>`; stdin = one case per line; stdout = one result line per case.

   pieces : a line is a blank-separated list of pieces  kindindex:cp,cp,cp  (decimal TokenKind index in
            the enum order of the CURRENT token_kind.rs, decimal Unicode scalar values; the lexeme of a
            piece is never empty).  Output:  <d-bits> <not_merged> <separated> <v-bits> <outside_known> <no_conservative>
            d-bits = valid_piece_d of every piece (one 0/1 character per piece, "-" for the empty list),
            v-bits = valid_piece of every piece (directives excluded),
            outside_known = 1 when no piece is in the known class D26 (an Id that begins with 0x / 0b).
   tok    : a line is  kindindex | cp cp cp  ; output: spec_tok spec_sep spec_directive as three 0/1 characters.
   follow : a line is  kindindex | cp cp cp  ; output: follow_ok kind text as 0/1.
   tables : no input; prints one line per entry of the specification's tables:
            <table> <kindindex> <spelling>   with table in keywords bangs puncts directives, and
            word <spelling> for directive_words.
   kinds  : no input; prints  <index> <name>  for every TokenKind of the specification's kind type.
   uni    : a line is a blank-separated list of scalar values; output: for each value two 0/1 characters
            (Chars.is_whitespace, Chars.is_alphabetic of the lexer MODEL), values separated by blanks.
   unitables : no input; prints  whitespace lo hi  /  alphabetic lo hi  for every row of the generated tables. *)
type ostring = Stdlib.String.t
open Lexspec_core
type cstring = Lexspec_core.string

let rec pos_of_int (i : int) : positive =
  if i = 1 then XH else if i land 1 = 0 then XO (pos_of_int (i lsr 1)) else XI (pos_of_int (i lsr 1))
let n_of_int (i : int) : n = if i = 0 then N0 else Npos (pos_of_int i)
let rec int_of_pos (p : positive) : int =
  match p with XH -> 1 | XO q -> 2 * int_of_pos q | XI q -> 2 * int_of_pos q + 1
let int_of_n (x : n) : int = match x with N0 -> 0 | Npos p -> int_of_pos p

let char_of_ascii (Ascii (b0, b1, b2, b3, b4, b5, b6, b7)) =
  let v b k = if b then 1 lsl k else 0 in
  Char.chr (v b0 0 + v b1 1 + v b2 2 + v b3 3 + v b4 4 + v b5 5 + v b6 6 + v b7 7)
let rec ocaml_string (s : cstring) : ostring =
  match s with EmptyString -> "" | String (a, r) -> String.make 1 (char_of_ascii a) ^ ocaml_string r

let split_on (c : char) (line : ostring) : ostring list =
  List.filter (fun s -> s <> "") (String.split_on_char c line)
let text_of_line (line : ostring) : n list = List.map (fun s -> n_of_int (int_of_string s)) (split_on ' ' line)

let kinds : tokenKind array = Array.of_list all_token_kinds
let kind_of_index (i : int) : tokenKind =
  if i < 0 || i >= Array.length kinds then failwith ("kind index out of range: " ^ string_of_int i) else kinds.(i)

let each_line (f : ostring -> ostring) =
  (try
     while true do
       let line = input_line stdin in
       print_string (f line); print_char '\n'
     done
   with End_of_file -> ());
  flush stdout

let bit b = if b then "1" else "0"

let piece_of_string (s : ostring) : piece =
  match String.index_opt s ':' with
  | None -> failwith ("bad piece: " ^ s)
  | Some i ->
      let k = kind_of_index (int_of_string (String.sub s 0 i)) in
      let w = List.map (fun x -> n_of_int (int_of_string x))
                (split_on ',' (String.sub s (i + 1) (String.length s - i - 1))) in
      { pk = k; pw = w }

let cmd_pieces line =
  let ps = List.map piece_of_string (split_on ' ' line) in
  let bits f = if ps = [] then "-" else String.concat "" (List.map (fun p -> bit (f p)) ps) in
  Printf.sprintf "%s %s %s %s %s %s" (bits valid_piece_d) (bit (not_merged ps)) (bit (separated ps)) (bits valid_piece)
    (bit (outside_known ps)) (bit (no_conservative ps))

let split_bar (line : ostring) : ostring * ostring =
  match String.index_opt line '|' with
  | None -> failwith ("bad line (no |): " ^ line)
  | Some i -> (String.trim (String.sub line 0 i), String.sub line (i + 1) (String.length line - i - 1))

let cmd_tok line =
  let (ks, ts) = split_bar line in
  let k = kind_of_index (int_of_string ks) and w = text_of_line ts in
  bit (spec_tok k w) ^ bit (spec_sep k w) ^ bit (spec_directive k w)

let cmd_follow line =
  let (ks, ts) = split_bar line in
  bit (follow_ok (kind_of_index (int_of_string ks)) (text_of_line ts))

let cmd_uni line =
  String.concat " " (List.map (fun c -> bit (is_whitespace c) ^ bit (is_alphabetic c)) (text_of_line line))

let print_table name tbl =
  List.iter (fun (s, k) -> Printf.printf "%s %d %s\n" name (int_of_n (tk_index k)) (ocaml_string s)) tbl

let () =
  match Sys.argv with
  | [| _; "pieces" |] -> each_line cmd_pieces
  | [| _; "tok" |] -> each_line cmd_tok
  | [| _; "follow" |] -> each_line cmd_follow
  | [| _; "tables" |] ->
      print_table "keywords" keywords; print_table "bangs" bangs; print_table "puncts" puncts;
      print_table "directives" directives;
      List.iter (fun s -> Printf.printf "word %s\n" (ocaml_string s)) directive_words
  | [| _; "kinds" |] ->
      List.iter (fun k -> Printf.printf "%d %s\n" (int_of_n (tk_index k)) (ocaml_string (tk_name k))) all_token_kinds
  | [| _; "uni" |] -> each_line cmd_uni
  | [| _; "unitables" |] ->
      List.iter (fun (a, b) -> Printf.printf "whitespace %d %d\n" (int_of_n a) (int_of_n b)) whitespace_ranges;
      List.iter (fun (a, b) -> Printf.printf "alphabetic %d %d\n" (int_of_n a) (int_of_n b)) alphabetic_ranges
  | _ -> prerr_endline "usage: lexspec_run pieces|tok|follow|tables|kinds|uni|unitables"; exit 2
