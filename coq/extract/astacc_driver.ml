(* astacc_run: hand-written driver around the extracted accessor model (trusted; DESIGN section 2).
   `astacc_run check`: stdin one tree per line (format of lib/treeio.py); stdout per line:
     nonconforming node kinds (indices) " | " unreached (parent:child kind indices)
   `astacc_run table`: the child-frame table  kind: k*n k*n ; ... *)
type ostring = Stdlib.String.t
open Astacc_core

let rec pos_of_int (i : int) : positive =
  if i = 1 then XH else if i land 1 = 0 then XO (pos_of_int (i lsr 1)) else XI (pos_of_int (i lsr 1))
let n_of_int (i : int) : n = if i = 0 then N0 else Npos (pos_of_int i)
let rec int_of_pos (p : positive) : int =
  match p with XH -> 1 | XO q -> 2 * int_of_pos q | XI q -> 2 * int_of_pos q + 1
let int_of_n (x : n) : int = match x with N0 -> 0 | Npos p -> int_of_pos p
let rec int_of_nat (x : nat) : int = match x with O -> 0 | S y -> 1 + int_of_nat y

let split_ws (line : ostring) : ostring list =
  List.filter (fun s -> s <> "") (String.split_on_char ' ' line)
let sk_of_index i = List.nth all_syntax_kinds i

let parse_tree (toks : ostring list) : tree * ostring list =
  let rec one toks = match toks with
    | "(" :: k :: rest ->
        let rec kids acc r = (match r with
          | ")" :: r' -> (List.rev acc, r')
          | _ -> let (c, r') = one r in kids (c :: acc) r') in
        let (cs, r') = kids [] rest in (Node (sk_of_index (int_of_string k), cs), r')
    | "[" :: k :: rest ->
        let rec cps acc r = (match r with
          | "]" :: r' -> (List.rev acc, r')
          | x :: r' -> cps (n_of_int (int_of_string x) :: acc) r'
          | [] -> failwith "unterminated token") in
        let (txt, r') = cps [] rest in (Tok (sk_of_index (int_of_string k), txt), r')
    | _ -> failwith "bad tree" in
  one toks

let ki k = string_of_int (int_of_n (sk_index k))
let cmd_check line =
  let (t, _) = parse_tree (split_ws line) in
  String.concat " " (List.map ki (nonconforming t)) ^ " | " ^
  String.concat " " (List.map (fun (a, b) -> ki a ^ ":" ^ ki b) (unreached t))

let () =
  match Sys.argv with
  | [| _; "check" |] ->
      (try while true do print_string (cmd_check (input_line stdin)); print_char '\n' done with End_of_file -> ()); flush stdout
  | [| _; "table" |] ->
      List.iter (fun (k, f) -> print_string (ki k ^ ": " ^ String.concat " " (List.map (fun (c, n) -> ki c ^ "*" ^ string_of_int (int_of_nat n)) f) ^ "\n")) kid_frames;
      print_string ("known: " ^ String.concat " " (List.map (fun (a, b) -> ki a ^ ":" ^ ki b) known_unreachable) ^ "\n"); flush stdout
  | _ -> prerr_endline "usage: astacc_run <check|table>"; exit 2
