(** Extraction of the symbol-map model (unit "symmap", group C03/C06/C17) to OCaml
    (ExtrOcamlBasic only; N/positive/nat stay the extracted inductives; no Extract Constant of our own). *)
Require Extraction.
Require ExtrOcamlBasic.
From Coq Require Import List NArith.
From TG.Model Require Import Chars SymbolMap SymbolWf.

Extraction Language OCaml.
Extraction "extract/symmap_core.ml"
  sm_empty apply_op run_ops run_ops_from
  get_entry get_arena next_id
  find_symbol_id_at find_symbol_at goto_definition references
  iter_symbols_in_file iter_symbols_in_range iter_symbols_in_range_g
  find_class find_def find_multiclass iter_class iter_def
  record_targs record_fields record_parents record_kind_of multiclass_targs multiclass_parents defm_parents defset_defs
  find_field is_subclass_of
  tok_name toks_sorted pos_get op_coh_ok op_ids_ok op_range_ok op_wf
  first_bad_from ops_wf ops_ids_wf ops_ranges_wf range_valid is_boundary
  coherent_at tok_at.
