(* symmap_run: hand-written driver around the extracted symbol-map model (trusted; DESIGN section 2).
   stdin: a sequence of workspaces, each a block of lines
     W                                 begin
     F <fid> <bytelen>                 a workspace file
     X <fid> <cp> <cp> ...             its text as decimal Unicode scalar values (optional; for range validity)
     T <fid> <lo> <hi> <text>          an identifier token (in (fid, lo) order)
     O<TAB><raw line of the H3 op log>  (tab separated, exactly as `ide::symbol_map::verif_take_oplog` returns it;
                                         optional trailing fields are ignored, except a trailing type string on
                                         add_template_argument/add_record_field/add_variable/add_defset)
     Q noguard                         evaluate iter_symbols_in_range without the empty-range guard too
     E                                 end: one JSON line is printed
   The JSON line has: run (ok | err), ids_bad / coh_bad / wf_bad (index of the first op violating the side
   conditions or null), ranges_bad (indices), toks_sorted, pos, syms, at (goto/references at every offset
   0..=len of every file, run-length compressed like symdump), incoherent (offsets where the four clauses of
   C06 fail on the model state), file_syms, records, recursion (find_field / is_subclass_of outcomes). *)
type ostring = Stdlib.String.t
open Symmap_core

let rec pos_of_int (i : int) : positive =
  if i = 1 then XH else if i land 1 = 0 then XO (pos_of_int (i lsr 1)) else XI (pos_of_int (i lsr 1))
let n_of_int (i : int) : n = if i = 0 then N0 else Npos (pos_of_int i)
let rec int_of_pos (p : positive) : int =
  match p with XH -> 1 | XO q -> 2 * int_of_pos q | XI q -> 2 * int_of_pos q + 1
let int_of_n (x : n) : int = match x with N0 -> 0 | Npos p -> int_of_pos p
let rec nat_of_int (i : int) : nat = if i <= 0 then O else S (nat_of_int (i - 1))

(* UTF-8 decoding of a name into scalar values (invalid bytes are kept as they are) *)
let decode (s : ostring) : n list =
  let len = String.length s in
  let rec go i acc =
    if i >= len then List.rev acc
    else
      let c = Char.code s.[i] in
      let cont k = if i + k < len then Char.code s.[i + k] land 0x3f else 0 in
      if c < 0x80 then go (i + 1) (n_of_int c :: acc)
      else if c < 0xe0 then go (i + 2) (n_of_int (((c land 0x1f) lsl 6) lor cont 1) :: acc)
      else if c < 0xf0 then go (i + 3) (n_of_int (((c land 0x0f) lsl 12) lor (cont 1 lsl 6) lor cont 2) :: acc)
      else go (i + 4) (n_of_int (((c land 0x07) lsl 18) lor (cont 1 lsl 12) lor (cont 2 lsl 6) lor cont 3) :: acc)
  in
  go 0 []

let encode (cs : n list) : ostring =
  let b = Buffer.create 16 in
  List.iter (fun c -> Buffer.add_utf_8_uchar b (Uchar.of_int (int_of_n c))) cs;
  Buffer.contents b

let json_escape (s : ostring) : ostring =
  let b = Buffer.create (String.length s + 8) in
  String.iter (fun c -> match c with
    | '"' -> Buffer.add_string b "\\\"" | '\\' -> Buffer.add_string b "\\\\"
    | '\n' -> Buffer.add_string b "\\n" | '\r' -> Buffer.add_string b "\\r" | '\t' -> Buffer.add_string b "\\t"
    | c when Char.code c < 32 -> Buffer.add_string b (Printf.sprintf "\\u%04x" (Char.code c))
    | c -> Buffer.add_char b c) s;
  Buffer.contents b

let kind_of_string = function
  | "record" -> KRecord | "template_arg" -> KTemplateArg | "record_field" -> KRecordField
  | "variable" -> KVariable | "defset" -> KDefset | "multiclass" -> KMulticlass | "defm" -> KDefm
  | s -> failwith ("bad symbol kind " ^ s)
let string_of_kind = function
  | KRecord -> "record" | KTemplateArg -> "template_arg" | KRecordField -> "record_field"
  | KVariable -> "variable" | KDefset -> "defset" | KMulticlass -> "multiclass" | KDefm -> "defm"
let all_kinds = [KRecord; KTemplateArg; KRecordField; KVariable; KDefset; KMulticlass; KDefm]

let ni s = n_of_int (int_of_string s)
let fr f lo hi = { fr_file = ni f; fr_lo = ni lo; fr_hi = ni hi }
let opt_typ = function [] -> [] | t :: _ -> decode t

let parse_op (fields : ostring list) : op =
  match fields with
  | "add_record" :: n :: k :: f :: lo :: hi :: g :: id :: _ ->
    OpAddRecord (decode n, (match k with "Class" -> RKClass | "Def" -> RKDef | _ -> failwith "record kind"),
                 fr f lo hi, g = "1", ni id)
  | "add_anonymous_def" :: n :: f :: lo :: hi :: id :: _ -> OpAddAnonymousDef (decode n, fr f lo hi, ni id)
  | "add_template_argument" :: n :: f :: lo :: hi :: id :: rest -> OpAddTemplateArg (decode n, opt_typ rest, fr f lo hi, ni id)
  | "add_record_field" :: n :: f :: lo :: hi :: parent :: id :: rest ->
    OpAddRecordField (decode n, opt_typ rest, fr f lo hi, ni parent, ni id)
  | "add_variable" :: n :: f :: lo :: hi :: id :: rest -> OpAddVariable (decode n, opt_typ rest, fr f lo hi, ni id)
  | "add_defset" :: n :: f :: lo :: hi :: id :: rest -> OpAddDefset (decode n, opt_typ rest, fr f lo hi, ni id)
  | "add_multiclass" :: n :: f :: lo :: hi :: id :: _ -> OpAddMulticlass (decode n, fr f lo hi, ni id)
  | "add_defm" :: n :: f :: lo :: hi :: g :: id :: _ -> OpAddDefm (decode n, fr f lo hi, g = "1", ni id)
  | "add_anonymous_defm" :: n :: f :: lo :: hi :: id :: _ -> OpAddAnonymousDefm (decode n, fr f lo hi, ni id)
  | "add_reference" :: k :: id :: f :: lo :: hi :: _ -> OpAddReference ((kind_of_string k, ni id), fr f lo hi)
  | "record_mut" :: id :: _ -> OpRecordMut (ni id)
  | "defset_mut" :: id :: _ -> OpDefsetMut (ni id)
  | "multiclass_mut" :: id :: _ -> OpMulticlassMut (ni id)
  | "defm_mut" :: id :: _ -> OpDefmMut (ni id)
  | "record.add_template_arg" :: n :: id :: _ -> OpRecAddTemplateArg (decode n, ni id)
  | "record.add_record_field" :: n :: id :: _ -> OpRecAddField (decode n, ni id)
  | "record.add_parent" :: id :: _ -> OpRecAddParent (ni id)
  | "defset.add_def" :: id :: _ -> OpDefsetAddDef (ni id)
  | "multiclass.add_template_arg" :: n :: id :: _ -> OpMcAddTemplateArg (decode n, ni id)
  | "multiclass.add_parent" :: id :: _ -> OpMcAddParent (ni id)
  | "defm.add_parent" :: id :: _ -> OpDefmAddParent (ni id)
  | "error" :: f :: lo :: hi :: _ -> OpError (fr f lo hi)
  | l -> failwith ("unknown op line: " ^ String.concat "|" l)

let string_of_err = function
  | EInvalidId k -> "invalid_id:" ^ string_of_kind k
  | EIntervalEmpty -> "interval_empty"
  | EAnonymousNotDef -> "anonymous_not_def"
  | ENoCursor -> "no_cursor"
  | EIdMismatch -> "id_mismatch"
  | EOutOfFuel -> "out_of_fuel"

let jfr (r : file_range) = Printf.sprintf "[%d,%d,%d]" (int_of_n r.fr_file) (int_of_n r.fr_lo) (int_of_n r.fr_hi)
let jlist f l = "[" ^ String.concat "," (List.map f l) ^ "]"
let jopt f = function None -> "null" | Some x -> f x
let jsid ((k, i) : symbol_id) = Printf.sprintf "[\"%s\",%d]" (string_of_kind k) (int_of_n i)
let jname n = "\"" ^ json_escape (encode n) ^ "\""

(* run the ops one by one to report the index of the failing op *)
let run_indexed (ops : op list) : (symbol_map, int * sm_error * symbol_map) result =
  let rec go s i = function
    | [] -> Ok s
    | o :: r -> (match apply_op s o with SOk s' -> go s' (i + 1) r | SErr e -> Error (i, e, s))
  in
  go sm_empty 0 ops

let process files texts toks ops noguard =
  let b = Buffer.create 65536 in
  let add = Buffer.add_string b in
  let first_bad ok = jopt (fun i -> string_of_int (int_of_n i)) (first_bad_from ok sm_empty ops N0) in
  let st, run =
    match run_indexed ops with
    | Ok s -> s, "\"ok\""
    | Error (i, e, s) -> s, Printf.sprintf "{\"err\":\"%s\",\"op\":%d}" (string_of_err e) i
  in
  add "{\"run\":"; add run;
  add ",\"nops\":"; add (string_of_int (List.length ops));
  add ",\"ids_bad\":"; add (first_bad op_ids_ok);
  add ",\"coh_bad\":"; add (first_bad (op_coh_ok toks));
  add ",\"wf_bad\":"; add (first_bad (op_wf toks));
  add ",\"ops_wf\":"; add (string_of_bool (ops_wf toks ops));
  add ",\"ops_ids_wf\":"; add (string_of_bool (ops_ids_wf ops));
  add ",\"toks_sorted\":"; add (string_of_bool (toks_sorted toks));
  if texts <> [] then begin
    add ",\"ops_ranges_wf\":"; add (string_of_bool (ops_ranges_wf texts ops));
    add ",\"ranges_bad\":";
    add (jlist string_of_int (List.filter_map (fun x -> x)
           (List.mapi (fun i o -> if op_range_ok texts o then None else Some i) ops)))
  end;
  (* final state *)
  add ",\"pos\":{";
  add (String.concat "," (List.map (fun (f, m) ->
    Printf.sprintf "\"%d\":%s" (int_of_n f)
      (jlist (fun ((lo, hi), (k, i)) -> Printf.sprintf "[%d,%d,\"%s\",%d]" (int_of_n lo) (int_of_n hi) (string_of_kind k) (int_of_n i)) m))
    st.sm_pos));
  add "},\"syms\":{";
  let first = ref true in
  List.iter (fun k ->
    List.iteri (fun i (e : entry) ->
      if not !first then add ",";
      first := false;
      add (Printf.sprintf "\"%s:%d\":{\"name\":%s,\"def\":%s,\"refs\":%s}" (string_of_kind k) i
             (jname e.e_name) (jfr e.e_def) (jlist jfr e.e_refs)))
      (get_arena st k)) all_kinds;
  add "},\"file_syms\":{";
  add (String.concat "," (List.map (fun (f, l) -> Printf.sprintf "\"%d\":%s" (int_of_n f) (jlist jsid l)) st.sm_file_syms));
  add "},\"records\":[";
  add (String.concat "," (List.mapi (fun i (e : entry) ->
    let id = n_of_int i in
    let jm m = jlist (fun (n, v) -> Printf.sprintf "[%s,%d]" (jname n) (int_of_n v)) m in
    Printf.sprintf "{\"kind\":\"%s\",\"targs\":%s,\"fields\":%s,\"parents\":%s}"
      (match record_kind_of st id with Some RKClass -> "Class" | Some RKDef -> "Def" | None -> "?")
      (jm (record_targs st id)) (jm (record_fields st id))
      (jlist (fun p -> string_of_int (int_of_n p)) (record_parents st id)))
    st.sm_records));
  add "],\"defsets\":[";
  add (String.concat "," (List.mapi (fun i (_ : entry) ->
    jlist (fun p -> string_of_int (int_of_n p)) (defset_defs st (n_of_int i))) st.sm_defsets));
  add "],\"multiclasses\":[";
  add (String.concat "," (List.mapi (fun i (_ : entry) ->
    jlist (fun (n, v) -> Printf.sprintf "[%s,%d]" (jname n) (int_of_n v)) (multiclass_targs st (n_of_int i))) st.sm_multiclasses));
  add "],\"name_to_class\":";
  add (jlist (fun (n, v) -> Printf.sprintf "[%s,%d]" (jname n) (int_of_n v)) st.sm_name_to_class);
  add ",\"name_to_def\":";
  add (jlist (fun (n, v) -> Printf.sprintf "[%s,%d]" (jname n) (int_of_n v)) st.sm_name_to_def);
  add ",\"ndiags\":"; add (string_of_int (List.length st.sm_diags));
  add ",\"diags\":"; add (jlist jfr st.sm_diags);
  (* goto / references at every offset, run-length compressed *)
  add ",\"at\":{";
  let incoh = ref [] in
  let qerr = ref [] in
  add (String.concat "," (List.map (fun (f, len) ->
    let runs = ref [] in
    let prev = ref "" in
    for o = 0 to len do
      let fo = n_of_int f and oo = n_of_int o in
      let d = goto_definition st fo oo and r = references st fo oo in
      let e =
        match d, r with
        | SOk d, SOk r -> Printf.sprintf "\"def\":%s,\"refs\":%s" (jopt jfr d) (jopt (jlist jfr) r)
        | _ -> qerr := (f, o) :: !qerr; "\"def\":\"error\",\"refs\":\"error\""
      in
      if e <> !prev then begin
        runs := Printf.sprintf "{\"o\":%d,%s}" o e :: !runs;
        prev := e
      end;
      if not (coherent_at toks st fo oo) then incoh := (f, o) :: !incoh
    done;
    Printf.sprintf "\"%d\":[%s]" f (String.concat "," (List.rev !runs))) files));
  add "},\"incoherent\":"; add (jlist (fun (f, o) -> Printf.sprintf "[%d,%d]" f o) (List.rev !incoh));
  add ",\"query_errors\":"; add (jlist (fun (f, o) -> Printf.sprintf "[%d,%d]" f o) (List.rev !qerr));
  (* iter_symbols_in_range over the whole file, the empty range, and (optionally) without the guard *)
  add ",\"range_queries\":{";
  add (String.concat "," (List.map (fun (f, len) ->
    let q g lo hi =
      match iter_symbols_in_range_g g st { fr_file = n_of_int f; fr_lo = n_of_int lo; fr_hi = n_of_int hi } with
      | SOk None -> "null"
      | SOk (Some l) -> jlist (fun (r, s) -> Printf.sprintf "[%s,%s]" (jfr r) (jsid s)) l
      | SErr e -> "\"" ^ string_of_err e ^ "\""
    in
    Printf.sprintf "\"%d\":{\"whole\":%s,\"empty\":%s%s}" f (q true 0 (len + 1)) (q true 0 0)
      (if noguard then ",\"empty_noguard\":" ^ q false 0 0 else "")) files));
  add "}";
  (* recursion through parent_list: every record x every field name; every pair for is_subclass_of (small states) *)
  let nrec = List.length st.sm_records in
  let fuel = nat_of_int (nrec + 1) in
  let names = List.sort_uniq compare (List.map (fun (e : entry) -> e.e_name) st.sm_fields) in
  let ff_err = ref 0 and ff_n = ref 0 and sc_err = ref 0 and sc_n = ref 0 in
  if nrec <= 400 then begin
    for r = 0 to nrec - 1 do
      List.iter (fun n ->
        incr ff_n;
        match find_field fuel st (n_of_int r) n with SOk _ -> () | SErr _ -> incr ff_err) (decode "__none__" :: names);
      if nrec <= 60 then
        for o = 0 to nrec - 1 do
          incr sc_n;
          match is_subclass_of fuel st (n_of_int r) (n_of_int o) with SOk _ -> () | SErr _ -> incr sc_err
        done
    done
  end;
  add (Printf.sprintf ",\"recursion\":{\"find_field\":%d,\"find_field_err\":%d,\"is_subclass_of\":%d,\"is_subclass_of_err\":%d}"
         !ff_n !ff_err !sc_n !sc_err);
  add "}";
  print_endline (Buffer.contents b)

let () =
  let files = ref [] and texts = ref [] and toks = ref [] and ops = ref [] and noguard = ref false in
  let bad = ref None in
  let reset () = files := []; texts := []; toks := []; ops := []; noguard := false; bad := None in
  (try
     while true do
       let line = input_line stdin in
       let n = String.length line in
       if n = 0 then ()
       else match line.[0] with
         | 'W' -> reset ()
         | 'F' ->
           (match String.split_on_char ' ' line with
            | _ :: f :: len :: _ -> files := (int_of_string f, int_of_string len) :: !files
            | _ -> failwith "bad F line")
         | 'X' ->
           (match List.filter (fun s -> s <> "") (String.split_on_char ' ' line) with
            | _ :: f :: cps -> texts := (ni f, List.map ni cps) :: !texts
            | _ -> failwith "bad X line")
         | 'T' ->
           (match String.split_on_char ' ' line with
            | _ :: f :: lo :: hi :: rest -> toks := (fr f lo hi, decode (String.concat " " rest)) :: !toks
            | _ -> failwith "bad T line")
         | 'O' ->
           (match String.split_on_char '\t' line with
            | _ :: fields ->
              (* a log line the model does not know (a new mutating call): this workspace is reported as not replayable *)
              (try ops := parse_op fields :: !ops with Failure m -> if !bad = None then bad := Some m)
            | _ -> failwith "bad O line")
         | 'Q' -> noguard := true
         | 'E' ->
           (match !bad with
            | Some m -> print_endline (Printf.sprintf "{\"model_crash\":\"%s\"}" (json_escape m))
            | None -> process (List.rev !files) (List.rev !texts) (List.rev !toks) (List.rev !ops) !noguard);
           reset ()
         | _ -> failwith ("bad line: " ^ line)
     done
   with End_of_file -> ())
