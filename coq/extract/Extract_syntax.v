(** Extraction of the executable models to OCaml (ExtrOcamlBasic only; N/positive/nat/Z stay
    the extracted inductives; no Extract Constant of our own). *)
Require Extraction.
Require ExtrOcamlBasic.
From Coq Require Import List NArith String.
From TG.Gen Require Import GenTokens GenLexTables GenGrammar.
From TG.Model Require Import Chars Lexer Prep Tree ParserPrims GInterp.

Extraction Language OCaml.
Extraction "extract/syntax_core.ml"
  tk_index sk_index tk_name sk_name bytes
  lex_text lex_err_msg
  prep_text any_err_msg
  parse_with grammar_prog grammar_entry tree_len nlex nstart msg_text.
