(* compl_run: hand-written driver around the extracted completion model (trusted; DESIGN section 2).
   Protocol: `compl_run <cmd>`; stdin = one case per line; stdout = one result line per case.
   Texts are comma-separated decimal Unicode scalar values ("-" = empty text). *)
type ostring = Stdlib.String.t
open Compl_core
type cstring = Compl_core.string

let rec pos_of_int (i : int) : positive =
  if i = 1 then XH else if i land 1 = 0 then XO (pos_of_int (i lsr 1)) else XI (pos_of_int (i lsr 1))
let n_of_int (i : int) : n = if i = 0 then N0 else Npos (pos_of_int i)
let rec int_of_pos (p : positive) : int =
  match p with XH -> 1 | XO q -> 2 * int_of_pos q | XI q -> 2 * int_of_pos q + 1
let int_of_n (x : n) : int = match x with N0 -> 0 | Npos p -> int_of_pos p
let rec nat_of_int (i : int) : nat = if i <= 0 then O else S (nat_of_int (i - 1))

let char_of_ascii (Ascii (b0, b1, b2, b3, b4, b5, b6, b7)) =
  let v b k = if b then 1 lsl k else 0 in
  Char.chr (v b0 0 + v b1 1 + v b2 2 + v b3 3 + v b4 4 + v b5 5 + v b6 6 + v b7 7)
let rec ocaml_string (s : cstring) : ostring =
  match s with EmptyString -> "" | String (a, r) -> String.make 1 (char_of_ascii a) ^ ocaml_string r

let split_ws (line : ostring) : ostring list =
  List.filter (fun s -> s <> "") (String.split_on_char ' ' line)
let text_of_field (f : ostring) : n list =
  if f = "-" then [] else List.map (fun s -> n_of_int (int_of_string s)) (String.split_on_char ',' f)
let field_of_text (t : n list) : ostring =
  if t = [] then "-" else String.concat "," (List.map (fun c -> string_of_int (int_of_n c)) t)

let sk_of_index i = List.nth all_syntax_kinds i

let parse_tree (toks : ostring list) : tree * ostring list =
  let rec one toks = match toks with
    | "(" :: k :: rest ->
        let rec kids acc r = (match r with
          | ")" :: r' -> (List.rev acc, r')
          | _ -> let (c, r') = one r in kids (c :: acc) r') in
        let (cs, r') = kids [] rest in (Node (sk_of_index (int_of_string k), cs), r')
    | "[" :: k :: rest ->
        let rec cps acc r = (match r with
          | "]" :: r' -> (List.rev acc, r')
          | x :: r' -> cps (n_of_int (int_of_string x) :: acc) r'
          | [] -> failwith "unterminated token") in
        let (txt, r') = cps [] rest in (Tok (sk_of_index (int_of_string k), txt), r')
    | _ -> failwith "bad tree" in
  one toks

let each_line (f : ostring -> ostring) =
  (try
     while true do
       let line = input_line stdin in
       print_string (f line); print_char '\n'
     done
   with End_of_file -> ());
  flush stdout

let kind_string (k : item_kind) = match k with IKKeyword -> "Keyword" | IKType -> "Type" | IKClass -> "Class"
let item_string (((l, s), k) : comp_item) : ostring =
  Printf.sprintf "%s|%s|%s" (field_of_text l) (match s with None -> "null" | Some t -> field_of_text t) (kind_string k)
let items_string (l : comp_item list) : ostring = String.concat " " (List.map item_string l)

(* split a token list at ";" *)
let rec split_semi (toks : ostring list) : ostring list list =
  let rec go cur acc = function
    | [] -> List.rev (List.rev cur :: acc)
    | ";" :: r -> go [] (List.rev cur :: acc) r
    | x :: r -> go (x :: cur) acc r in
  go [] [] toks

(* comp: "<trig 0|1> ; <class>* ; <off>* ; <tree>"   class = namecodes:ntargs
   output: one result per offset separated by " ; " : NONE | items *)
let cmd_comp line =
  match split_semi (split_ws line) with
  | [ [trig]; classes; offs; tree ] ->
      let cl = List.map (fun c -> match String.split_on_char ':' c with
        | [nm; n] -> { cs_name = text_of_field nm; cs_ntargs = nat_of_int (int_of_string n) }
        | _ -> failwith "bad class") classes in
      let (tr, _) = parse_tree tree in
      let trigger = if trig = "1" then Some bang_trigger else None in
      String.concat " ; " (List.map (fun o ->
        match completion_model cl tr (n_of_int (int_of_string o)) trigger with
        | None -> "NONE"
        | Some its -> "ITEMS " ^ items_string its) offs)
  | _ -> "BAD-INPUT"

(* lex: "<text>" -> tokens kind:bytelen:err ; single=<kind|-> kw=<0|1> bang=<0|1> (bang: the text WITHOUT the leading trigger) *)
let us s = String.map (fun c -> if c = ' ' then '_' else c) s
let cmd_lex line =
  let t = text_of_field (String.trim line) in
  let toks = lex_text t in
  String.concat " " (List.map (fun ((k, e), lexeme) ->
    Printf.sprintf "%d:%d:%s" (int_of_n (tk_index k)) (int_of_n (bytes lexeme))
      (match e with None -> "-" | Some e -> us (ocaml_string (lex_err_msg e)))) toks)
  ^ Printf.sprintf " ; single=%s kw=%d bang=%d"
      (match lex_single t with None -> "-" | Some k -> string_of_int (int_of_n (tk_index k)))
      (if keyword_ok_b t then 1 else 0) (if bangop_ok_b t then 1 else 0)

(* stmt: "<keyword> <src>" -> accepted=<0|1> errors=<n|PANIC|OOF> *)
let cmd_stmt line =
  match split_ws line with
  | [w; src] ->
      let w = text_of_field w and src = text_of_field src in
      let e = match parse_with parse_fuel grammar_prog grammar_entry src with
        | ParseOk (_, errs, _) -> string_of_int (List.length errs)
        | ParsePanic -> "PANIC" | ParseOOF -> "OOF" in
      Printf.sprintf "accepted=%d errors=%s" (if accepted_statement_from_b w src then 1 else 0) e
  | _ -> "BAD-INPUT"

(* snip: "<name> <ntargs>" -> snippet text ; tab stops *)
let cmd_snip line =
  match split_ws line with
  | [nm; n] ->
      let s = class_snippet { cs_name = text_of_field nm; cs_ntargs = nat_of_int (int_of_string n) } in
      field_of_text s ^ " ; " ^ String.concat "," (List.map (fun x -> string_of_int (int_of_n x)) (tabstops s))
  | _ -> "BAD-INPUT"

(* tabs: "<snippet text>" -> tab stops *)
let cmd_tabs line =
  String.concat "," (List.map (fun x -> string_of_int (int_of_n x)) (tabstops (text_of_field (String.trim line))))

(* tables: dumps the generated vocabularies as seen by the model (no input) *)
let cmd_tables () =
  let words name l = print_string (name ^ " " ^ String.concat " " (List.map field_of_text l) ^ "\n") in
  words "keywords" offered_keywords; words "types" offered_types; words "values" offered_values;
  words "bangops" offered_bangops;
  words "lexer_bangops" (List.map fst bangop_table);
  words "lexer_keywords" (List.map fst keyword_table);
  print_string ("witnesses " ^ String.concat " " (List.map (fun (k, w) -> field_of_text k ^ "=" ^ field_of_text w) stmt_witness_table) ^ "\n");
  print_string ("items_keywords " ^ items_string toplevel_keyword_items ^ "\n");
  print_string ("items_types " ^ items_string primitive_type_items ^ "\n");
  print_string ("items_values " ^ items_string primitive_value_items ^ "\n");
  print_string ("items_bangops " ^ items_string bang_operator_items ^ "\n");
  flush stdout

(* ---------------------------------------------------------------------------------------------
   symcomp: one workspace file per line; sections separated by "||":
     OP <code> <args..>   one symbol-map op (hook H3 log line encoded by lib/complib.py; names as comma-separated code points)
     T <tree>             the real tree of the file the offsets refer to
     Q <off> <off> ..     completion (no trigger) at these offsets
   Output: "ERR <why>" when the log does not replay, else
     "CLASSES name:ntargs .. ; <result per offset separated by ' ; '>"   result = NONE | ITEMS item.. *)
let name_of_tok (s : ostring) : n list = if s = "-" then [] else List.map (fun x -> n_of_int (int_of_string x)) (String.split_on_char ',' s)
let ni s = n_of_int (int_of_string s)
let fr f lo hi = { fr_file = ni f; fr_lo = ni lo; fr_hi = ni hi }
let kind_of_tok = function
  | "record" -> KRecord | "template_arg" -> KTemplateArg | "record_field" -> KRecordField | "variable" -> KVariable
  | "defset" -> KDefset | "multiclass" -> KMulticlass | "defm" -> KDefm | s -> failwith ("kind " ^ s)
let parse_op (toks : ostring list) : op =
  match toks with
  | ["AR"; nm; k; f; lo; hi; g; id] -> OpAddRecord (name_of_tok nm, (if k = "C" then RKClass else RKDef), fr f lo hi, g = "1", ni id)
  | ["AAD"; nm; f; lo; hi; id] -> OpAddAnonymousDef (name_of_tok nm, fr f lo hi, ni id)
  | ["ATA"; nm; ty; f; lo; hi; id] -> OpAddTemplateArg (name_of_tok nm, name_of_tok ty, fr f lo hi, ni id)
  | ["ARF"; nm; ty; f; lo; hi; par; id] -> OpAddRecordField (name_of_tok nm, name_of_tok ty, fr f lo hi, ni par, ni id)
  | ["AV"; nm; ty; f; lo; hi; id] -> OpAddVariable (name_of_tok nm, name_of_tok ty, fr f lo hi, ni id)
  | ["ADS"; nm; ty; f; lo; hi; id] -> OpAddDefset (name_of_tok nm, name_of_tok ty, fr f lo hi, ni id)
  | ["AMC"; nm; f; lo; hi; id] -> OpAddMulticlass (name_of_tok nm, fr f lo hi, ni id)
  | ["ADM"; nm; f; lo; hi; g; id] -> OpAddDefm (name_of_tok nm, fr f lo hi, g = "1", ni id)
  | ["AADM"; nm; f; lo; hi; id] -> OpAddAnonymousDefm (name_of_tok nm, fr f lo hi, ni id)
  | ["REF"; k; idx; f; lo; hi] -> OpAddReference ((kind_of_tok k, ni idx), fr f lo hi)
  | ["RM"; id] -> OpRecordMut (ni id)
  | ["DSM"; id] -> OpDefsetMut (ni id)
  | ["MCM"; id] -> OpMulticlassMut (ni id)
  | ["DMM"; id] -> OpDefmMut (ni id)
  | ["RTA"; nm; id] -> OpRecAddTemplateArg (name_of_tok nm, ni id)
  | ["RF"; nm; id] -> OpRecAddField (name_of_tok nm, ni id)
  | ["RP"; id] -> OpRecAddParent (ni id)
  | ["DAD"; id] -> OpDefsetAddDef (ni id)
  | ["MTA"; nm; id] -> OpMcAddTemplateArg (name_of_tok nm, ni id)
  | ["MP"; id] -> OpMcAddParent (ni id)
  | ["DMP"; id] -> OpDefmAddParent (ni id)
  | ["ERR"; f; lo; hi] -> OpError (fr f lo hi)
  | _ -> failwith ("bad op: " ^ String.concat " " toks)
let split_sections (line : ostring) : ostring list list =
  let rec go acc cur = function
    | [] -> List.rev (List.rev cur :: acc)
    | "||" :: r -> go (List.rev cur :: acc) [] r
    | x :: r -> go acc (x :: cur) r in
  List.filter (fun s -> s <> []) (go [] [] (split_ws line))
let err_string = function
  | EInvalidId _ -> "invalid id" | EIntervalEmpty -> "interval empty" | EAnonymousNotDef -> "anonymous not def"
  | ENoCursor -> "no cursor" | EIdMismatch -> "id mismatch" | EOutOfFuel -> "out of fuel"
let rec int_of_nat (x : nat) : int = match x with O -> 0 | S y -> 1 + int_of_nat y
let cmd_symcomp line =
  try
    let secs = split_sections line in
    let ops = List.filter_map (function "OP" :: r -> Some (parse_op r) | _ -> None) secs in
    let tree = List.find_map (function "T" :: r -> Some (fst (parse_tree r)) | _ -> None) secs in
    let offs = List.concat (List.filter_map (function "Q" :: r -> Some r | _ -> None) secs) in
    match run_ops ops with
    | SErr e -> "ERR op log does not replay: " ^ err_string e
    | SOk st ->
        (match class_syms st, tree with
         | SErr e, _ -> "ERR class_syms panics: " ^ err_string e
         | SOk cl, None -> "CLASSES " ^ String.concat " " (List.map (fun c -> field_of_text c.cs_name ^ ":" ^ string_of_int (int_of_nat c.cs_ntargs)) cl)
         | SOk cl, Some tr ->
             "CLASSES " ^ String.concat " " (List.map (fun c -> field_of_text c.cs_name ^ ":" ^ string_of_int (int_of_nat c.cs_ntargs)) cl) ^ " ; " ^
             String.concat " ; " (List.map (fun o ->
               match completion_sm st tr (n_of_int (int_of_string o)) None with
               | SErr e -> "ERR " ^ err_string e
               | SOk None -> "NONE"
               | SOk (Some its) -> "ITEMS " ^ items_string its) offs))
  with Failure m -> "ERR driver: " ^ m

let () =
  match Sys.argv with
  | [| _; "symcomp" |] -> each_line cmd_symcomp
  | [| _; "comp" |] -> each_line cmd_comp
  | [| _; "lex" |] -> each_line cmd_lex
  | [| _; "stmt" |] -> each_line cmd_stmt
  | [| _; "snip" |] -> each_line cmd_snip
  | [| _; "tabs" |] -> each_line cmd_tabs
  | [| _; "tables" |] -> cmd_tables ()
  | _ -> prerr_endline "usage: compl_run <comp|lex|stmt|snip|tabs|tables>"; exit 2
