(** Extraction unit "lexspec" (property C14): the SPECIFICATION of the token language (LexSpec.v, written
    from the TableGen Programmer's Reference; it does not import the lexer model), so that checks/C14.py can
    tie (1) its instance generator and its Python reference lexer to the Coq specification (valid_piece_d on
    every generated instance and every negative, not_merged / separated / outside_known on every generated
    sequence) and
    (2) its hand-written spelling -> kind table to the lists keywords / bangs / puncts / directives.
    (3) the Unicode predicates of the lexer MODEL (Chars.is_whitespace / is_alphabetic over the generated
    range tables) are extracted too, so that the check can compare them with the Rust std (unidump).
    ExtrOcamlBasic only; N/positive/nat stay the extracted inductives; no Extract Constant of our own. *)
Require Extraction.
Require ExtrOcamlBasic.
From Coq Require Import List NArith String.
From TG.Gen Require Import GenTokens.
From TG.Gen Require Import GenUnicode.
From TG.Model Require Import Chars LexSpec.

Extraction Language OCaml.
Extraction "extract/lexspec_core.ml"
  tk_index tk_name all_token_kinds
  cps keywords bangs puncts directives directive_words
  spec_tok spec_sep spec_directive follow_ok
  mkpiece valid_piece valid_piece_d render not_merged separated adjacent_ok
  known_d26 outside_known conservative no_conservative
  is_whitespace is_alphabetic whitespace_ranges alphabetic_ranges.
