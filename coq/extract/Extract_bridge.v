(** Extraction of the bridge (model/AstToCore.v) and of the end-to-end pipeline (model/Pipeline.v) to OCaml
    (unit "bridge"; ExtrOcamlBasic only; N/positive/nat/Z stay the extracted inductives; no Extract Constant
    of our own). *)
Require Extraction.
Require ExtrOcamlBasic.
From Coq Require Import List NArith String.
From TG.Gen Require Import GenTokens GenAst GenGrammar.
From TG.Model Require Import Chars Lexer Prep Tree ParserPrims GInterp AstAccess CoreAst AstToCore TreeComplete Scope Indexer Pipeline.

Extraction Language OCaml.
Extraction "extract/bridge_core.ml"
  bytes msg_text
  parse_with grammar_prog grammar_entry
  core_of_tree tree_complete
  analyze an_files an_perrs an_cores an_core an_shape pf_path pf_len
  an_state an_diagnostics an_goto an_references s_bad.
