(* lines_run: hand-written driver around the extracted position-mapping models (trusted; DESIGN section 2).
   Usage: lines_run impl | spec | enc ; stdin = one case per line; stdout = one result line per case.
   Case line:  olo ohi llo lhi clo chi rg ; cp cp cp ...  (decimal; the text is a list of Unicode scalar values;
                rg = 1: also the two range sections, rg = 0: they stay empty)
   Result line (impl):  six sections separated by '|':
     to_proto::position  for o in olo..ohi                          ->  l:c   or ! (panic)
     from_proto::position for l in llo..lhi, c in clo..chi          ->  o     or !
     to_proto::range     for a in olo..ohi, b in a..min(a+2,ohi)    ->  l:c-l:c or !
     from_proto::range   for consecutive positions P[k],P[k+1] of the enumeration above, both orders -> a-b or !
     to_proto::folding_range for the same (a, b) as to_proto::range      ->  startline-endline or !
     wrappers            for the same (a, b): "=" when inlay_hint / location / diagnostic / document_link /
                         document_symbol give exactly what position / range give, else the first wrapper that differs
   If LineIndex::new panics the whole line is "!new".
   spec: same first two sections computed with pos_of / off_of (no panics possible).
   enc: prints the model's UTF-8 encoding of the text as decimal bytes. *)
open Lines_core

let rec pos_of_int (i : int) : positive =
  if i = 1 then XH else if i land 1 = 0 then XO (pos_of_int (i lsr 1)) else XI (pos_of_int (i lsr 1))
let n_of_int (i : int) : n = if i = 0 then N0 else Npos (pos_of_int i)
let rec int_of_pos (p : positive) : int =
  match p with XH -> 1 | XO q -> 2 * int_of_pos q | XI q -> 2 * int_of_pos q + 1
let int_of_n (x : n) : int = match x with N0 -> 0 | Npos p -> int_of_pos p

let split_ws (line : string) : string list =
  List.filter (fun s -> s <> "") (String.split_on_char ' ' line)

let parse (line : string) =
  match String.split_on_char ';' line with
  | [hd; tl] ->
    (match List.map int_of_string (split_ws hd) with
     | [olo; ohi; llo; lhi; clo; chi; rg] ->
       ((olo, ohi, llo, lhi, clo, chi, rg), List.map (fun s -> n_of_int (int_of_string s)) (split_ws tl))
     | _ -> failwith "bad header")
  | _ -> failwith "bad case line"

let range lo hi = let rec go i acc = if i < lo then acc else go (i - 1) (i :: acc) in go hi []

let show_pos (l, c) = Printf.sprintf "%d:%d" (int_of_n l) (int_of_n c)

let positions (_, _, llo, lhi, clo, chi, _) =
  List.concat_map (fun l -> List.map (fun c -> (l, c)) (range clo chi)) (range llo lhi)

let rec consecutive = function
  | a :: (b :: _ as r) -> (a, b) :: (b, a) :: consecutive r
  | _ -> []

let cmd_impl line =
  let ((olo, ohi, _, _, _, _, rg) as h, t) = parse line in
  match li_new t with
  | Panic _ -> "!new"
  | Ok li ->
    let b = Buffer.create 256 in
    let sep = ref "" in
    let add s = Buffer.add_string b !sep; Buffer.add_string b s; sep := " " in
    List.iter (fun o ->
      add (match to_proto_position li (n_of_int o) with Ok p -> show_pos p | Panic _ -> "!")) (range olo ohi);
    Buffer.add_char b '|'; sep := "";
    let ps = positions h in
    List.iter (fun (l, c) ->
      add (match from_proto_position li (n_of_int l, n_of_int c) with
           | Ok o -> string_of_int (int_of_n o) | Panic _ -> "!")) ps;
    Buffer.add_char b '|'; sep := "";
    if rg = 1 then List.iter (fun a ->
      List.iter (fun e ->
        add (match to_proto_range li (n_of_int a, n_of_int e) with
             | Ok (p, q) -> show_pos p ^ "-" ^ show_pos q | Panic _ -> "!")) (range a (min (a + 2) ohi))) (range olo ohi);
    Buffer.add_char b '|'; sep := "";
    if rg = 1 then List.iter (fun ((l1, c1), (l2, c2)) ->
      add (match from_proto_range li ((n_of_int l1, n_of_int c1), (n_of_int l2, n_of_int c2)) with
           | Ok (x, y) -> Printf.sprintf "%d-%d" (int_of_n x) (int_of_n y) | Panic _ -> "!")) (consecutive ps);
    Buffer.add_char b '|'; sep := "";
    let pairs = List.concat_map (fun a -> List.map (fun e -> (a, e)) (range a (min (a + 2) ohi))) (range olo ohi) in
    if rg = 1 then List.iter (fun (a, e) ->
      add (match to_proto_folding_range li (n_of_int a, n_of_int e) with
           | Ok (x, y) -> Printf.sprintf "%d-%d" (int_of_n x) (int_of_n y) | Panic _ -> "!")) pairs;
    Buffer.add_char b '|'; sep := "";
    (* wrappers of to_proto.rs against position / range: "=" when every wrapper gives what position / range give *)
    if rg = 1 then List.iter (fun (a, e) ->
      let r = (n_of_int a, n_of_int e) in
      let base = to_proto_range li r in
      let w =
        if to_proto_inlay_hint_position li (n_of_int a) <> to_proto_position li (n_of_int a) then "inlay_hint"
        else if to_proto_location_range li r <> base then "location"
        else if to_proto_diagnostic_range li r <> base then "diagnostic"
        else if to_proto_document_link_range li r <> base then "document_link"
        else if to_proto_document_symbol_range li r <> (match base with Ok x -> Ok (x, x) | Panic p -> Panic p)
        then "document_symbol" else "=" in
      add w) pairs;
    Buffer.contents b

let cmd_spec line =
  let ((olo, ohi, _, _, _, _, _) as h, t) = parse line in
  let a = String.concat " " (List.map (fun o -> show_pos (pos_of t (n_of_int o))) (range olo ohi)) in
  let c = String.concat " " (List.map (fun (l, c) -> string_of_int (int_of_n (off_of t (n_of_int l) (n_of_int c)))) (positions h)) in
  a ^ "|" ^ c

let cmd_enc line =
  let (_, t) = parse line in
  String.concat " " (List.map (fun x -> string_of_int (int_of_n x)) (encode t))

let each_line (f : string -> string) =
  (try
     while true do
       let line = input_line stdin in
       print_string (f line); print_char '\n'
     done
   with End_of_file -> ());
  flush stdout

let () =
  match Sys.argv with
  | [| _; "impl" |] -> each_line cmd_impl
  | [| _; "spec" |] -> each_line cmd_spec
  | [| _; "enc" |] -> each_line cmd_enc
  | _ -> prerr_endline "usage: lines_run impl|spec|enc"; exit 2
