(** Extraction of M-host (Includes.v, Host.v, HostInst.v) to OCaml (ExtrOcamlBasic only). *)
Require Extraction.
Require ExtrOcamlBasic.
From Coq Require Import List NArith.
From TG.Model Require Import Includes Host HostInst.

Extraction Language OCaml.
Extraction "extract/host_core.ml"
  SegPath mk_world st_init step
  ids next opened rlog fc rim sroot
  path_for_file file_for_path
  index document_link workspace notfound_of outline_of files_of digest.
