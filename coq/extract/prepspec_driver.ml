(* prepspec_run: hand-written driver around the extracted preprocessor model (Prep.v, PrepRun.v) and the
   extracted SPECIFICATION PrepSpec.v (trusted glue; used by checks/C15.py).
   Protocol: `prepspec_run <cmd>`; stdin = one case per line; stdout = one result line per case.
   A text is a space-separated list of decimal Unicode scalar values (empty = empty text).

   prepm    <text>
            -> the preprocessed stream of the MODEL as  kind:bytelen:err ...  (err = - when none, blanks as _)
               then " | " and the final macro set, each name as comma-separated code points.
   select   <text> | <arrangement>
            the arrangement refers to the raw tokens of `raw_lex text` (Eof excluded) BY INDEX:
              items   := item*
              item    := T i  |  D head  |  C (d|n) head [ items ] else i        (last i = the #endif)
              else    := -    |  [ i items ]                                    (i = the #else)
              head    := ( i i* )           first = directive, last = name, between = the gap
              partial := P (d|n) head [ items ] ( - | E i [ items ] ) more      (cut off by the end of file)
              more    := .  |  partial
              line    := items [ partial ]
            -> "items_ok render_ok partial_ok | selected | macros | disabled"
               items_ok   = PrepSpec.items_ok items
               render_ok  = (render_items items ++ render_partial p) = raw_lex text   (structural equality of
                            kind, parked lexer error and text of every token)
               partial_ok = PrepSpec.partial_ok p   (1 when there is no partial)
               selected   = snd (select [] items) ++ select_partial (fst (select [] items)) p,
                            each token as  kind:haserr:cp,cp,...
               macros     = fst (select [] items)
               disabled   = PrepSpec.disabled [] items   (same token format)
   missing  <text> | i j
            dir = raw[i], gap = raw[i+1 .. j-1], rest = raw[j ..]
            -> "b msg"  with b = PrepSpec.missing_name dir gap rest, msg = prep_err_msg (missing_name_err dir) *)
type ostring = Stdlib.String.t
open Prepspec_core
type cstring = Prepspec_core.string

let rec pos_of_int (i : int) : positive =
  if i = 1 then XH else if i land 1 = 0 then XO (pos_of_int (i lsr 1)) else XI (pos_of_int (i lsr 1))
let n_of_int (i : int) : n = if i = 0 then N0 else Npos (pos_of_int i)
let rec int_of_pos (p : positive) : int =
  match p with XH -> 1 | XO q -> 2 * int_of_pos q | XI q -> 2 * int_of_pos q + 1
let int_of_n (x : n) : int = match x with N0 -> 0 | Npos p -> int_of_pos p

let char_of_ascii (Ascii (b0, b1, b2, b3, b4, b5, b6, b7)) =
  let v b k = if b then 1 lsl k else 0 in
  Char.chr (v b0 0 + v b1 1 + v b2 2 + v b3 3 + v b4 4 + v b5 5 + v b6 6 + v b7 7)
let rec ocaml_string (s : cstring) : ostring =
  match s with EmptyString -> "" | String (a, r) -> String.make 1 (char_of_ascii a) ^ ocaml_string r

let split_ws (line : ostring) : ostring list =
  List.filter (fun s -> s <> "") (String.split_on_char ' ' line)
let text_of_line (line : ostring) : n list = List.map (fun s -> n_of_int (int_of_string s)) (split_ws line)

let each_line (f : ostring -> ostring) =
  (try
     while true do
       let line = input_line stdin in
       print_string (try f line with Failure m -> "BAD " ^ m | Not_found -> "BAD not_found"
                                   | Invalid_argument m -> "BAD " ^ m);
       print_char '\n'
     done
   with End_of_file -> ());
  flush stdout

let us s = String.map (fun c -> if c = ' ' then '_' else c) s
let cps (t : n list) : ostring = String.concat "," (List.map (fun c -> string_of_int (int_of_n c)) t)
let names (ms : n list list) : ostring = String.concat " " (List.map (fun m -> if m = [] then "e" else cps m) ms)

(* ---- prepm *)
let cmd_prepm line =
  let t = text_of_line line in
  let stream = String.concat " " (List.map (fun ((k, len), e) ->
    Printf.sprintf "%d:%d:%s" (int_of_n (tk_index k)) (int_of_n len)
      (match e with None -> "-" | Some e -> us (ocaml_string (any_err_msg e)))) (prep_text t)) in
  stream ^ " | " ^ names (prep_macros t)

(* ---- select *)
let split_bar (line : ostring) : ostring * ostring =
  match String.index_opt line '|' with
  | None -> (line, "")
  | Some i -> (String.sub line 0 i, String.sub line (i + 1) (String.length line - i - 1))

let tok_string (t : rtok) : ostring =
  Printf.sprintf "%d:%d:%s" (int_of_n (tk_index t.rk)) (match t.rerr with None -> 0 | Some _ -> 1) (cps t.rtext)
let toks_string (l : rtok list) : ostring = String.concat " " (List.map tok_string l)

let parse_arrangement (raw : rtok array) (ws : ostring array) : item list * partial option =
  let pos = ref 0 in
  let n = Array.length ws in
  let peek () = if !pos < n then ws.(!pos) else "" in
  let next () = let w = peek () in if w = "" then failwith "unexpected_end"; incr pos; w in
  let expect w = let x = next () in if x <> w then failwith ("expected_" ^ w ^ "_got_" ^ x) in
  let idx () =
    let w = next () in
    let i = (try int_of_string w with _ -> failwith ("index_" ^ w)) in
    if i < 0 || i >= Array.length raw then failwith ("index_out_of_range_" ^ w);
    raw.(i) in
  let is_int w = w <> "" && (match w.[0] with '0' .. '9' -> true | _ -> false) in
  let head () =
    expect "(";
    let d = idx () in
    let rec more acc = if is_int (peek ()) then more (idx () :: acc) else acc in
    let rest = List.rev (more []) in
    expect ")";
    (match List.rev rest with
     | [] -> failwith "head_without_name"
     | nm :: gap_rev -> { h_dir = d; h_gap = List.rev gap_rev; h_name = nm }) in
  let kind () = match next () with "d" -> IfDef | "n" -> IfNdef | w -> failwith ("ifkind_" ^ w) in
  let rec items () : item list =
    match peek () with
    | "T" -> ignore (next ()); let t = idx () in let i = ITok t in i :: items ()
    | "D" -> ignore (next ()); let h = head () in let i = IDefine h in i :: items ()
    | "C" ->
        ignore (next ());
        let k = kind () in
        let h = head () in
        expect "[";
        let th = items () in
        expect "]";
        let el = (match next () with
                  | "-" -> None
                  | "[" -> let et = idx () in let els = items () in expect "]"; Some (et, els)
                  | w -> failwith ("else_" ^ w)) in
        let en = idx () in
        let i = ICond (k, h, th, el, en) in
        i :: items ()
    | _ -> [] in
  let rec partial () : partial =
    expect "P";
    let k = kind () in
    let h = head () in
    expect "[";
    let a = items () in
    expect "]";
    (match next () with
     | "-" -> let m = more () in PThen (k, h, a, m)
     | "E" -> let et = idx () in expect "["; let b = items () in expect "]";
              let m = more () in PElse (k, h, a, et, b, m)
     | w -> failwith ("partial_" ^ w))
  and more () : partial option =
    match peek () with
    | "." -> ignore (next ()); None
    | "P" -> Some (partial ())
    | w -> failwith ("more_" ^ w) in
  let its = items () in
  let p = if peek () = "P" then Some (partial ()) else None in
  if !pos <> n then failwith ("trailing_" ^ peek ());
  (its, p)

let b2i b = if b then 1 else 0

let cmd_select line =
  let (lt, la) = split_bar line in
  let t = text_of_line lt in
  let rawl = raw_lex t in
  let raw = Array.of_list rawl in
  let (its, p) = parse_arrangement raw (Array.of_list (split_ws la)) in
  let ok = items_ok its in
  let rendered = app (render_items its) (match p with None -> [] | Some q -> render_partial q) in
  let render_ok = (rendered = rawl) in
  let pok = (match p with None -> true | Some q -> partial_ok q) in
  let (ms, sel) = select [] its in
  let sel = app sel (match p with None -> [] | Some q -> select_partial ms q) in
  Printf.sprintf "%d %d %d | %s | %s | %s" (b2i ok) (b2i render_ok) (b2i pok)
    (toks_string sel) (names ms) (toks_string (disabled [] its))

(* ---- missing *)
let cmd_missing line =
  let (lt, la) = split_bar line in
  let t = text_of_line lt in
  let raw = Array.of_list (raw_lex t) in
  match List.map int_of_string (split_ws la) with
  | [i; j] ->
      let n = Array.length raw in
      if i < 0 || i >= n || j <= i || j > n then failwith "range";
      let dir = raw.(i) in
      let gap = Array.to_list (Array.sub raw (i + 1) (j - i - 1)) in
      let rest = Array.to_list (Array.sub raw j (n - j)) in
      Printf.sprintf "%d %s" (b2i (missing_name dir gap rest)) (us (ocaml_string (prep_err_msg (missing_name_err dir))))
  | _ -> failwith "missing_args"

let () =
  match Sys.argv with
  | [| _; "prepm" |] -> each_line cmd_prepm
  | [| _; "select" |] -> each_line cmd_select
  | [| _; "missing" |] -> each_line cmd_missing
  | _ -> prerr_endline "usage: prepspec_run prepm|select|missing"; exit 2
