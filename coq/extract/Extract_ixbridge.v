(** Extraction of the bridge between the indexer model (group scope) and the symbol-map model (group symmap):
    unit "ixbridge" = CoreAst + Indexer.index_ws + IndexerOps.abs (ExtrOcamlBasic only). *)
Require Extraction.
Require ExtrOcamlBasic.
From Coq Require Import List NArith.
From TG.Model Require Import CoreAst Scope BangOps Indexer IndexerOps ClassVisit.
From TG.Model Require SymbolMap.

Extraction Language OCaml.
Extraction "extract/ixbridge_core.ml"
  mkWs index_ws s_bad abs absN declared_classes kinds_coded kind_code entry_is_class log_fresh
  SymbolMap.get_arena SymbolMap.sm_pos SymbolMap.sm_diags SymbolMap.sm_name_to_class SymbolMap.sm_name_to_def SymbolMap.sm_name_to_multiclass SymbolMap.p_targs SymbolMap.p_fields SymbolMap.p_parents.
