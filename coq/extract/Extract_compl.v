(** Extraction of M-completion (model/Completion.v) to OCaml (ExtrOcamlBasic only). *)
Require Extraction.
Require ExtrOcamlBasic.
From Coq Require Import List NArith String.
From TG.Gen Require Import GenTokens GenLexTables GenCompletion GenGrammar GenAst.
From TG.Model Require Import Chars Lexer Prep Tree ParserPrims GInterp Completion SymbolMap CompletionSM.

Extraction Language OCaml.
Extraction "extract/compl_core.ml"
  tk_index sk_index all_syntax_kinds all_token_kinds bytes
  lex_text lex_err_msg lex_single keyword_ok_b bangop_ok_b
  completion_model ancestors_at tabstops class_snippet
  accepted_statement_from_b parse_with parse_fuel grammar_prog grammar_entry
  offered_keywords offered_types offered_values offered_bangops
  toplevel_keyword_items primitive_type_items primitive_value_items bang_operator_items
  bangop_table keyword_table stmt_witness_table bang_trigger
  run_ops class_syms completion_sm last_class_decl.
