(* modelrun: hand-written driver around the extracted models (trusted; see DESIGN section 2).
   Protocol: `modelrun <cmd>`; stdin = one case per line; stdout = one result line per case.
   A text is a space-separated list of decimal Unicode scalar values (empty line = empty text). *)
type ostring = Stdlib.String.t
open Syntax_core
type cstring = Syntax_core.string

let rec pos_of_int (i : int) : positive =
  if i = 1 then XH else if i land 1 = 0 then XO (pos_of_int (i lsr 1)) else XI (pos_of_int (i lsr 1))
let n_of_int (i : int) : n = if i = 0 then N0 else Npos (pos_of_int i)
let rec int_of_pos (p : positive) : int =
  match p with XH -> 1 | XO q -> 2 * int_of_pos q | XI q -> 2 * int_of_pos q + 1
let int_of_n (x : n) : int = match x with N0 -> 0 | Npos p -> int_of_pos p
let rec int_of_nat (x : nat) : int = match x with O -> 0 | S y -> 1 + int_of_nat y
let rec nat_of_int (i : int) : nat = if i <= 0 then O else S (nat_of_int (i - 1))

let bool_of_b b = b
let char_of_ascii (Ascii (b0, b1, b2, b3, b4, b5, b6, b7)) =
  let v b k = if b then 1 lsl k else 0 in
  Char.chr (v b0 0 + v b1 1 + v b2 2 + v b3 3 + v b4 4 + v b5 5 + v b6 6 + v b7 7)
let rec ocaml_string (s : cstring) : ostring =
  match s with EmptyString -> "" | String (a, r) -> String.make 1 (char_of_ascii a) ^ ocaml_string r

let split_ws (line : ostring) : ostring list =
  List.filter (fun s -> s <> "") (String.split_on_char ' ' line)
let text_of_line (line : ostring) : n list = List.map (fun s -> n_of_int (int_of_string s)) (split_ws line)

let json_escape (s : ostring) : ostring =
  let b = Buffer.create (String.length s + 8) in
  String.iter (fun c -> match c with
    | '"' -> Buffer.add_string b "\\\"" | '\\' -> Buffer.add_string b "\\\\"
    | '\n' -> Buffer.add_string b "\\n" | '\r' -> Buffer.add_string b "\\r" | '\t' -> Buffer.add_string b "\\t"
    | c when Char.code c < 32 -> Buffer.add_string b (Printf.sprintf "\\u%04x" (Char.code c))
    | c -> Buffer.add_char b c) s;
  Buffer.contents b

let each_line (f : ostring -> ostring) =
  (try
     while true do
       let line = input_line stdin in
       print_string (f line); print_char '\n'
     done
   with End_of_file -> ());
  flush stdout

(* lex: tokens as  kind:bytelen:err  (err = - when none) *)
let cmd_lex line =
  let t = text_of_line line in
  let toks = lex_text t in
  String.concat " " (List.map (fun ((k, e), lexeme) ->
    Printf.sprintf "%d:%d:%s" (int_of_n (tk_index k)) (int_of_n (bytes lexeme))
      (match e with None -> "-" | Some e -> String.map (fun c -> if c = ' ' then '_' else c) (ocaml_string (lex_err_msg e)))) toks)

(* prep: preprocessed stream as  kind:bytelen:err *)
let us s = String.map (fun c -> if c = ' ' then '_' else c) s
let cmd_prep line =
  let t = text_of_line line in
  String.concat " " (List.map (fun ((k, len), e) ->
    Printf.sprintf "%d:%d:%s" (int_of_n (tk_index k)) (int_of_n len)
      (match e with None -> "-" | Some e -> us (ocaml_string (any_err_msg e)))) (prep_text t))

(* parse: tree as  ( k child.. )  /  [ k bytelen ]  then " | " then errors lo:hi:msg ; then " | nlex nstart" *)
let msg_string (m : parse_msg) : ostring = ocaml_string (msg_text m)
let rec tree_string (b : Buffer.t) (t : tree) : unit =
  match t with
  | Tok (k, txt) -> Buffer.add_string b (Printf.sprintf "[ %d %d ] " (int_of_n (sk_index k)) (int_of_n (bytes txt)))
  | Node (k, cs) ->
      Buffer.add_string b (Printf.sprintf "( %d " (int_of_n (sk_index k)));
      List.iter (tree_string b) cs;
      Buffer.add_string b ") "
let big_fuel = nat_of_int 1000000
let cmd_parse line =
  let t = text_of_line line in
  match parse_with big_fuel grammar_prog grammar_entry t with
  | ParseOk (tr, errs, st) ->
      let b = Buffer.create 1024 in
      tree_string b tr;
      Buffer.add_string b "| ";
      List.iter (fun ((lo, hi), m) ->
        Buffer.add_string b (Printf.sprintf "%d:%d:%s " (int_of_n lo) (int_of_n hi) (us (msg_string m)))) errs;
      Buffer.add_string b (Printf.sprintf "| %d %d" (int_of_n st.nlex) (int_of_n st.nstart));
      Buffer.contents b
  | ParsePanic -> "PANIC"
  | ParseOOF -> "OOF"

let () =
  match Sys.argv with
  | [| _; "lex" |] -> each_line cmd_lex
  | [| _; "parse" |] -> each_line cmd_parse
  | [| _; "prep" |] -> each_line cmd_prep
  | _ -> prerr_endline "usage: modelrun <cmd>"; exit 2
