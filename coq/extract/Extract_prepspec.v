(** Extraction unit "prepspec" (property C15): the preprocessor model with its final macro set, and the
    SPECIFICATION of PrepSpec.v (item trees, items_ok, render_items, select, partial arrangements), so that
    checks/C15.py can compare (1) model vs real preprocessor and (2) Coq specification vs the Python
    reference evaluator.  ExtrOcamlBasic only; N/positive/nat stay the extracted inductives; no Extract
    Constant of our own. *)
Require Extraction.
Require ExtrOcamlBasic.
From Coq Require Import List NArith String.
From TG.Gen Require Import GenTokens GenLexTables.
From TG.Model Require Import Chars Lexer Prep PrepRun PrepSpec.

Extraction Language OCaml.
Extraction "extract/prepspec_core.ml"
  tk_index tk_name bytes
  lex_err_msg prep_err_msg any_err_msg
  raw_lex prep_text prep_macros prep_runx
  items_ok render_items select disabled
  partial_ok render_partial select_partial
  missing_name missing_name_err.
