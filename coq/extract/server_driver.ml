(* server_run: hand-written driver around the extracted server models (trusted; DESIGN section 2).
   Usage: server_run trace | pubs | pubs_old | loc ; stdin = one case per line; stdout = one result line per case.

   trace   OLD|ITEMS|EVENTS
             OLD     bit 0: 0 = protocol after fix 0d12b07 (script_of), 1 = before (script_old);
                     bit 1 (value 2): the trace contains the optional hook task.snapshot_drop (observed WDrop)
             ITEMS   what the main loop handled, in order:  N:<k>:<npubs>  (notification; k inner salsa writes)
                     R:<kind>  kind = hover completion documentSymbol foldingRange inlayHint
                                      definition+ definition- references+ references- documentLink+ documentLink-
             EVENTS  m:<point>  (main.<point> of hook H2)   w<i>:<point>  (task.<point> of the task spawned i-th)
           ->  static=<0|1> accepted final=<0|1>   |   static=<0|1> rejected pos=<n> why=<reason>
   pubs    notifications separated by '|', entries by ';', entry = <file>:<d>,<d>,...   (d = diagnostic id)
           ->  <file>:<version>:<d>,<d> ...  (the sequential publication stream)
   loc     KIND|REQF|TEXTS|RESULT   TEXTS = files separated by '/', code points separated by ' ' (index = file id)
           KIND/RESULT: definition, definition_old  none | f a b        -> none | f l:c-l:c
                        references, references_old  none | f a b,...    -> none | f l:c-l:c,...
                        foldingRange                none | a b,...      -> none | l-l,...
                        inlayHint                   none | o,...        -> none | l:c,...
                        documentLink                none | a b f,...    -> none | l:c-l:c f,...
                        documentSymbol              none | (a b (a b) ...) ... -> none | (l:c-l:c (..)) ...
                        diagnostics                 f:a b,a b;f:...     -> f:l:c-l:c,...;...
           a Panic outcome prints "panic". *)
type ostring = Stdlib.String.t
open Server_core

let rec nat_of_int (i : int) : nat = if i <= 0 then O else S (nat_of_int (i - 1))
let rec int_of_nat (x : nat) : int = match x with O -> 0 | S y -> 1 + int_of_nat y
let rec pos_of_int (i : int) : positive =
  if i = 1 then XH else if i land 1 = 0 then XO (pos_of_int (i lsr 1)) else XI (pos_of_int (i lsr 1))
let n_of_int (i : int) : n = if i = 0 then N0 else Npos (pos_of_int i)
let rec int_of_pos (p : positive) : int =
  match p with XH -> 1 | XO q -> 2 * int_of_pos q | XI q -> 2 * int_of_pos q + 1
let int_of_n (x : n) : int = match x with N0 -> 0 | Npos p -> int_of_pos p

let split c (s : ostring) : ostring list = Stdlib.String.split_on_char c s
let words (s : ostring) : ostring list = List.filter (fun x -> x <> "") (split ' ' s)
let nonempty (l : ostring list) = List.filter (fun x -> Stdlib.String.trim x <> "") l
let ios s = int_of_string (Stdlib.String.trim s)

(* ------------------------------------------------------------------ trace *)
let range_list n = let rec go i acc = if i < 0 then acc else go (i - 1) (nat_of_int i :: acc) in go (n - 1) []

let kind_of = function
  | "hover" -> KHover | "completion" -> KCompletion | "documentSymbol" -> KDocumentSymbol
  | "foldingRange" -> KFoldingRange | "inlayHint" -> KInlayHint
  | "definition+" -> KDefinition true | "definition-" -> KDefinition false
  | "references+" -> KReferences true | "references-" -> KReferences false
  | "documentLink+" -> KDocumentLink true | "documentLink-" -> KDocumentLink false
  | k -> failwith ("kind " ^ k)

let item_of (t : ostring) =
  match split ':' t with
  | ["N"; k; n] -> INotif (nat_of_int (ios k), range_list (ios n))
  | ["R"; k] -> IReq (kind_of k)
  | _ -> failwith ("item " ^ t)

let mev_of = function
  | "barrier.before" -> EBarrierBefore | "barrier.after" -> EBarrierAfter
  | "vfs_write.before" -> EVfsWriteBefore | "vfs_write.acquired" -> EVfsWriteAcquired
  | "host_set_file_content.before" -> ESetContentBefore | "host_set_file_content.after" -> ESetContentAfter
  | "host_set_root_file.after" -> ESetRootAfter | "vfs_write.released" -> EVfsWriteReleased
  | "update_diagnostics" -> EUpdateDiagnostics | "spawn" -> ESpawn
  | p -> failwith ("main point " ^ p)

let wev_of = function
  | "start" -> EStart | "end" -> EEnd | "vfs_acquired" -> EVfsAcquired
  | "published_files.lock" -> EPublishedLock | "snapshot_drop" -> ESnapshotDrop
  | "vfs_read.file_pos" -> EVfsRead SFilePos | "vfs_read.file" -> EVfsRead SFile
  | "vfs_read.file_range" -> EVfsRead SFileRange | "vfs_read.definition" -> EVfsRead SDefinition
  | "vfs_read.references" -> EVfsRead SReferences | "vfs_read.document_link" -> EVfsRead SDocumentLink
  | "vfs_read.diagnostics" -> EVfsRead SDiagnostics
  | p -> failwith ("task point " ^ p)

let ev_of (t : ostring) =
  let i = Stdlib.String.index t ':' in
  let th = Stdlib.String.sub t 0 i and p = Stdlib.String.sub t (i + 1) (Stdlib.String.length t - i - 1) in
  if th = "m" then EvMain (mev_of p)
  else EvWorker (nat_of_int (int_of_string (Stdlib.String.sub th 1 (Stdlib.String.length th - 1))), wev_of p)

let reason_str = function
  | RNoSuchTask -> "no-such-task" | RThreadFinished -> "thread-finished"
  | RMismatch -> "not-the-next-action-of-the-skeleton" | RBlocked -> "not-enabled-in-the-lock-state"

let cmd_trace (line : ostring) : ostring =
  match split '|' line with
  | [old; items; evs] ->
    let flags = ios old in
    let (st, v) = check_trace (flags land 1 = 1) (flags land 2 = 2) (List.map item_of (words items)) (List.map ev_of (words evs)) in
    let s = if st then "static=1" else "static=0" in
    (match v with
     | Accepted f -> Printf.sprintf "%s accepted final=%d" s (if f then 1 else 0)
     | Rejected (pos, why) -> Printf.sprintf "%s rejected pos=%d why=%s" s (int_of_nat pos) (reason_str why))
  | _ -> failwith "trace line"

(* ------------------------------------------------------------------ pubs *)
let entry_of (t : ostring) =
  match split ':' t with
  | [f; ds] -> (nat_of_int (ios f), List.map (fun d -> nat_of_int (ios d)) (nonempty (split ',' ds)))
  | _ -> failwith ("entry " ^ t)

let cmd_pubs old (line : ostring) : ostring =
  let h = List.map (fun nt -> List.map entry_of (nonempty (split ';' nt))) (split '|' line) in
  let sv = { version = O; published = [] } in
  let ps = if old then publications_old sv h else publications sv h in
  Stdlib.String.concat " " (List.map (fun p ->
    Printf.sprintf "%d:%d:%s" (int_of_nat p.pfile) (int_of_nat p.pver)
      (Stdlib.String.concat "," (List.map (fun d -> string_of_int (int_of_nat d)) p.pdiags))) ps)

(* ------------------------------------------------------------------ loc *)
let show_pos (l, c) = Printf.sprintf "%d:%d" (int_of_n l) (int_of_n c)
let show_range (a, b) = show_pos a ^ "-" ^ show_pos b
let rng_of a b = (n_of_int (ios a), n_of_int (ios b))

(* s-expressions of document symbols *)
let parse_syms (s : ostring) : dsym list =
  let toks = ref (words (Stdlib.String.concat " ) " (split ')' (Stdlib.String.concat " ( " (split '(' s))))) in
  let next () = match !toks with [] -> failwith "sexp eof" | t :: r -> toks := r; t in
  let peek () = match !toks with [] -> "" | t :: _ -> t in
  let rec sym () =
    (* after "(" *)
    let a = next () in let b = next () in
    let ch = syms () in
    (match next () with ")" -> () | t -> failwith ("sexp ) expected, got " ^ t));
    DSym (rng_of a b, ch)
  and syms () = if peek () = "(" then (ignore (next ()); let x = sym () in x :: syms ()) else [] in
  let r = syms () in
  if !toks <> [] then failwith "sexp trailing"; r

let rec show_sym (LSym (r, _sel, ch)) =
  "(" ^ show_range r ^ Stdlib.String.concat "" (List.map (fun c -> " " ^ show_sym c) ch) ^ ")"

let cmd_loc (line : ostring) : ostring =
  match split '|' line with
  | [kind; reqf; texts; result] ->
    let files = Array.of_list (List.map (fun t -> List.map (fun c -> n_of_int (ios c)) (words t)) (split '/' texts)) in
    let content (f : nat) : text = let i = int_of_nat f in if i < Array.length files then files.(i) else [] in
    let reqf = nat_of_int (ios reqf) in
    let result = Stdlib.String.trim result in
    let none = (result = "none") in
    let items = nonempty (split ',' result) in
    let loc_of t = match words t with [f; a; b] -> (nat_of_int (ios f), rng_of a b) | _ -> failwith ("loc " ^ t) in
    let show_loc (f, r) = Printf.sprintf "%d %s" (int_of_nat f) (show_range r) in
    let out show = function
      | Panic _ -> "panic" | Ok None -> "none" | Ok (Some x) -> show x in
    let lst show l = Stdlib.String.concat "," (List.map show l) in
    (match Stdlib.String.trim kind with
     | "definition" -> out show_loc (h_definition content reqf (if none then None else Some (loc_of result)))
     | "definition_old" -> out show_loc (h_definition_old content reqf (if none then None else Some (loc_of result)))
     | "references" -> out (lst show_loc) (h_references content reqf (if none then None else Some (List.map loc_of items)))
     | "references_old" -> out (lst show_loc) (h_references_old content reqf (if none then None else Some (List.map loc_of items)))
     | "foldingRange" ->
       let r t = match words t with [a; b] -> rng_of a b | _ -> failwith ("range " ^ t) in
       out (lst (fun (a, b) -> Printf.sprintf "%d-%d" (int_of_n a) (int_of_n b)))
         (h_folding_range content reqf (if none then None else Some (List.map r items)))
     | "inlayHint" ->
       out (lst show_pos) (h_inlay_hint content reqf (if none then None else Some (List.map (fun t -> n_of_int (ios t)) items)))
     | "documentLink" ->
       let l t = match words t with [a; b; f] -> (rng_of a b, nat_of_int (ios f)) | _ -> failwith ("link " ^ t) in
       out (lst (fun (r, f) -> Printf.sprintf "%s %d" (show_range r) (int_of_nat f)))
         (h_document_link content reqf (if none then None else Some (List.map l items)))
     | "documentSymbol" ->
       out (fun l -> Stdlib.String.concat " " (List.map show_sym l))
         (h_document_symbol content reqf (if none then None else Some (parse_syms result)))
     | "diagnostics" ->
       let entry t = match split ':' t with
         | [f; ds] -> (nat_of_int (ios f),
                       List.map (fun d -> match words d with [a; b] -> (rng_of a b, ()) | _ -> failwith ("diag " ^ d))
                         (nonempty (split ',' ds)))
         | _ -> failwith ("diag entry " ^ t) in
       (match h_diagnostics content (List.map entry (nonempty (split ';' result))) with
        | Panic _ -> "panic"
        | Ok l -> Stdlib.String.concat ";" (List.map (fun (f, ds) ->
            Printf.sprintf "%d:%s" (int_of_nat f) (lst (fun (r, ()) -> show_range r) ds)) l))
     | k -> failwith ("loc kind " ^ k))
  | _ -> failwith "loc line"

let each_line (f : ostring -> ostring) =
  (try
     while true do
       let line = input_line stdin in
       print_string (try f line with Failure m -> "driver-error " ^ m); print_char '\n'
     done
   with End_of_file -> ());
  flush stdout

let () =
  match Sys.argv with
  | [| _; "trace" |] -> each_line cmd_trace
  | [| _; "pubs" |] -> each_line (cmd_pubs false)
  | [| _; "pubs_old" |] -> each_line (cmd_pubs true)
  | [| _; "loc" |] -> each_line cmd_loc
  | _ -> prerr_endline "usage: server_run trace|pubs|pubs_old|loc"; exit 2
