(** Extraction of the accessor model / child-frame table (model/AstAccess*.v) to OCaml (ExtrOcamlBasic only). *)
Require Extraction.
Require ExtrOcamlBasic.
From Coq Require Import List NArith String.
From TG.Gen Require Import GenTokens GenAst GenGrammar.
From TG.Model Require Import Tree AstAccess AstAccessInst.

Extraction Language OCaml.
Extraction "extract/astacc_core.ml" sk_index all_syntax_kinds nonconforming unreached kid_frames known_unreachable.
