(* bridge_run: hand-written driver around the extracted bridge / pipeline (trusted; DESIGN section 2).
   A text is a space-separated list of decimal Unicode scalar values.

   bridge_run core     stdin: one file per line   <file number> ; <lo hi target>* ; <text>
                       stdout: {"ast":"(file (stmts ..))"|null, "noncore":reason|null, "perrs":[[lo,hi,"msg"],..]}
                               | {"parse":"PANIC"|"OOF"}
                       = the MODEL parser (parse_with grammar_prog) followed by AstToCore.core_of_tree, printed in
                         exactly the format of harness/src/bin/coreast.rs (one "(file ..)" item).
   bridge_run corews   as analyze, without the query section (bad / diags / at)
   bridge_run analyze  stdin: one workspace per line   <root path> ; <path> | <text> ; <path> | <text> ...
                       stdout: {"files":[path..], "lens":[..], "parse_errors":{path:[[lo,hi,"msg"],..]},
                                "shape_ok":bool (ident_shape of every tree), "noncore_file":k|null,
                                "ast":"(ws ..)"|null, "noncore":reason|null,
                                "bad":bool, "diags":[[f,lo,hi,"Kind"],..], "at":[..]}   (bad/diags/at as scope_run model)
                       = Pipeline.analyze: everything from the texts to the query answers inside the extracted model. *)
type ostring = Stdlib.String.t
open Bridge_core
type cstring = Bridge_core.string

let rec pos_of_int (i : int) : positive =
  if i = 1 then XH else if i land 1 = 0 then XO (pos_of_int (i lsr 1)) else XI (pos_of_int (i lsr 1))
let n_of_int (i : int) : n = if i = 0 then N0 else Npos (pos_of_int i)
let rec int_of_pos (p : positive) : int =
  match p with XH -> 1 | XO q -> 2 * int_of_pos q | XI q -> 2 * int_of_pos q + 1
let int_of_n (x : n) : int = match x with N0 -> 0 | Npos p -> int_of_pos p
let rec nat_of_int (i : int) : nat = if i <= 0 then O else S (nat_of_int (i - 1))

let char_of_ascii (Ascii (b0, b1, b2, b3, b4, b5, b6, b7)) =
  let v b k = if b then 1 lsl k else 0 in
  Char.chr (v b0 0 + v b1 1 + v b2 2 + v b3 3 + v b4 4 + v b5 5 + v b6 6 + v b7 7)
let rec ocaml_string (s : cstring) : ostring =
  match s with EmptyString -> "" | String (a, r) -> String.make 1 (char_of_ascii a) ^ ocaml_string r

let split_ws (line : ostring) : ostring list =
  List.filter (fun s -> s <> "") (String.split_on_char ' ' line)
let text_of (s : ostring) : n list = List.map (fun s -> n_of_int (int_of_string s)) (split_ws s)
let utf8_of (t : n list) : ostring =
  let b = Buffer.create 64 in
  List.iter (fun c -> Buffer.add_utf_8_uchar b (Uchar.of_int (int_of_n c))) t;
  Buffer.contents b

let json_escape (s : ostring) : ostring =
  let b = Buffer.create (String.length s + 8) in
  String.iter (fun c -> match c with
    | '"' -> Buffer.add_string b "\\\"" | '\\' -> Buffer.add_string b "\\\\"
    | '\n' -> Buffer.add_string b "\\n" | '\r' -> Buffer.add_string b "\\r" | '\t' -> Buffer.add_string b "\\t"
    | c when Char.code c < 32 -> Buffer.add_string b (Printf.sprintf "\\u%04x" (Char.code c))
    | c -> Buffer.add_char b c) s;
  Buffer.contents b

(* ---------------------------------------------------------------- the serialisation of coreast.rs *)
let add = Buffer.add_string
let sep_iter (b : Buffer.t) (f : 'a -> unit) (l : 'a list) : unit =
  List.iteri (fun i x -> if i > 0 then Buffer.add_char b ' '; f x) l

let p_rng b (r : rng) = add b (Printf.sprintf "%d %d %d" (int_of_n r.r_file) (int_of_n r.r_lo) (int_of_n r.r_hi))
let p_cps b (l : n list) = sep_iter b (fun c -> add b (string_of_int (int_of_n c))) l
let p_ident b (i : ident) = add b "(id "; p_rng b i.i_rng; add b " "; p_cps b i.i_name; add b ")"
let p_name b (l : n list) = add b "(n "; p_cps b l; add b ")"

let rec p_typ b = function
  | TyBit -> add b "(bit)" | TyInt -> add b "(int)" | TyString -> add b "(string)" | TyCode -> add b "(code)"
  | TyDag -> add b "(dag)"
  | TyBits k -> add b (Printf.sprintf "(bits %d)" (int_of_n k))
  | TyList t -> add b "(list "; p_typ b t; add b ")"
  | TyClass i -> add b "(class "; p_ident b i; add b ")"

let bop_name = function
  | XAdd -> "XAdd" | XAnd -> "XAnd" | XMul -> "XMul" | XOr -> "XOr" | XXor -> "XXor" | XDiv -> "XDiv"
  | XSub -> "XSub" | XSrl -> "XSrl" | XSra -> "XSra" | XShl -> "XShl" | XCast -> "XCast" | XCon -> "XCon"
  | XDag -> "XDag" | XEmpty -> "XEmpty" | XEq -> "XEq" | XNe -> "XNe" | XExists -> "XExists"
  | XFilter -> "XFilter" | XFind -> "XFind" | XFoldl -> "XFoldl" | XForEach -> "XForEach" | XGe -> "XGe"
  | XGt -> "XGt" | XLe -> "XLe" | XLt -> "XLt" | XGetDagArg -> "XGetDagArg" | XGetDagName -> "XGetDagName"
  | XGetDagOp -> "XGetDagOp" | XHead -> "XHead" | XIf -> "XIf" | XInitialized -> "XInitialized"
  | XInterleave -> "XInterleave" | XIsA -> "XIsA" | XListConcat -> "XListConcat"
  | XListFlatten -> "XListFlatten" | XListRemove -> "XListRemove" | XListSplat -> "XListSplat"
  | XLog2 -> "XLog2" | XNot -> "XNot" | XRange -> "XRange" | XRepr -> "XRepr" | XSetDagArg -> "XSetDagArg"
  | XSetDagName -> "XSetDagName" | XSetDagOp -> "XSetDagOp" | XSize -> "XSize" | XStrConcat -> "XStrConcat"
  | XSubst -> "XSubst" | XSubstr -> "XSubstr" | XTail -> "XTail" | XToLower -> "XToLower"
  | XToUpper -> "XToUpper"

let rec p_value b (Val (r, inners)) =
  add b "(val "; p_rng b r; List.iter (fun i -> add b " "; p_inner b i) inners; add b ")"
and p_values b (vs : value list) = sep_iter b (p_value b) vs
and p_inner b (Inner (s, sufs)) =
  add b "(in "; p_simple b s; List.iter (fun x -> add b " "; p_suffix b x) sufs; add b ")"
and p_suffix b = function
  | SufRange -> add b "(rs)"
  | SufSlice single -> add b (if single then "(sl 1)" else "(sl 0)")
  | SufField (i, r) -> add b "(fs "; p_ident b i; add b " "; p_rng b r; add b ")"
and p_args b (l : arg list) = add b "(args "; sep_iter b (p_arg b) l; add b ")"
and p_arg b = function
  | APos (v, r) -> add b "(pos "; p_value b v; add b " "; p_rng b r; add b ")"
  | ANamed (nm, v, r) -> add b "(named "; p_name b nm; add b " "; p_value b v; add b " "; p_rng b r; add b ")"
  | ANamedBad r -> add b "(namedbad "; p_rng b r; add b ")"
and p_simple b = function
  | SInt -> add b "(i)" | SString -> add b "(s)" | SCode -> add b "(c)" | SBool -> add b "(b)" | SUninit -> add b "(u)"
  | SBits vs -> add b "(bits "; p_values b vs; add b ")"
  | SList vs -> add b "(lst "; p_values b vs; add b ")"
  | SDag vs -> add b "(dag "; p_values b vs; add b ")"
  | SId i -> p_ident b i
  | SClassVal (i, a, r) -> add b "(cv "; p_ident b i; add b " "; p_args b a; add b " "; p_rng b r; add b ")"
  | SBang (op, annot, vs, r) ->
    add b "(bang "; add b (bop_name op); add b " ";
    (match annot with
     | None -> add b "(noty)"
     | Some (t, tr) -> add b "(ty "; p_typ b t; add b " "; p_rng b tr; add b ")");
    add b " (vals "; p_values b vs; add b ") "; p_rng b r; add b ")"
  | SCond vs -> add b "(cond "; p_values b vs; add b ")"

let p_opt_value b = function
  | Some v -> add b "(some "; p_value b v; add b ")"
  | None -> add b "(none)"
let p_targs b = function
  | None -> add b "(none)"
  | Some l ->
    add b "(some (targs ";
    sep_iter b (fun (TArg (t, i, d)) -> add b "(ta "; p_typ b t; add b " "; p_ident b i; add b " "; p_opt_value b d; add b ")") l;
    add b "))"
let p_parents b (l : classref list) =
  add b "(parents ";
  sep_iter b (fun (CRef (i, a, r)) -> add b "(cr "; p_ident b i; add b " "; p_args b a; add b " "; p_rng b r; add b ")") l;
  add b ")"
let p_item b = function
  | IField (t, i, v) -> add b "(field "; p_typ b t; add b " "; p_ident b i; add b " "; p_opt_value b v; add b ")"
  | ILet (i, v) -> add b "(let "; p_ident b i; add b " "; p_value b v; add b ")"
  | IDefvar (i, v) -> add b "(defvar "; p_ident b i; add b " "; p_value b v; add b ")"
  | IAssert (c, m) -> add b "(assert "; p_value b c; add b " "; p_value b m; add b ")"
  | IDump v -> add b "(dump "; p_value b v; add b ")"
let p_record_body b ps items =
  p_parents b ps; add b " (body "; sep_iter b (p_item b) items; add b ")"

let rec p_stmts b (l : stmt list) = add b "(stmts "; sep_iter b (p_stmt b) l; add b ")"
and p_stmt b = function
  | SInclude (r, t) ->
    add b "(include "; p_rng b r;
    (match t with Some k -> add b (Printf.sprintf " (some %d))" (int_of_n k)) | None -> add b " (none))")
  | SAssert (c, m) -> add b "(assert "; p_value b c; add b " "; p_value b m; add b ")"
  | SClass (i, ta, ps, body) ->
    add b "(class "; p_ident b i; add b " "; p_targs b ta; add b " "; p_record_body b ps body; add b ")"
  | SDef (nm, r, ps, body) ->
    add b "(def "; p_opt_value b nm; add b " "; p_rng b r; add b " "; p_record_body b ps body; add b ")"
  | SDefm (nm, r, ps) -> add b "(defm "; p_opt_value b nm; add b " "; p_rng b r; add b " "; p_parents b ps; add b ")"
  | SDefset (t, i, body) -> add b "(defset "; p_typ b t; add b " "; p_ident b i; add b " "; p_stmts b body; add b ")"
  | SDefvar (i, v) -> add b "(defvar "; p_ident b i; add b " "; p_value b v; add b ")"
  | SDump v -> add b "(dump "; p_value b v; add b ")"
  | SForeach (i, init, body) ->
    add b "(foreach "; p_ident b i; add b " ";
    (match init with FeRange -> add b "(range)" | FeValue v -> add b "(v "; p_value b v; add b ")");
    add b " "; p_stmts b body; add b ")"
  | SIf (c, th, el) ->
    add b "(if "; p_value b c; add b " "; p_stmts b th; add b " ";
    (match el with Some e -> add b "(some "; p_stmts b e; add b ")" | None -> add b "(none)");
    add b ")"
  | SLet (vs, body) -> add b "(let (vals "; p_values b vs; add b ") "; p_stmts b body; add b ")"
  | SMulticlass (i, ta, ps, body) ->
    add b "(multiclass "; p_ident b i; add b " "; p_targs b ta; add b " "; p_parents b ps; add b " "; p_stmts b body; add b ")"

let file_sexp (l : stmt list) : ostring =
  let b = Buffer.create 4096 in add b "(file "; p_stmts b l; add b ")"; Buffer.contents b

(* ---------------------------------------------------------------- commands *)
let big_fuel = nat_of_int 1000000
let msg_string (m : parse_msg) : ostring = ocaml_string (msg_text m)

let split_on (c : char) (s : ostring) : ostring list = String.split_on_char c s

let rec triples = function
  | a :: b :: c :: r -> ((n_of_int a, n_of_int b), n_of_int c) :: triples r
  | [] -> []
  | _ -> failwith "links"

let perrs_json (es : ((n * n) * parse_msg) list) : ostring =
  "[" ^ String.concat "," (List.map (fun ((lo, hi), m) ->
    Printf.sprintf "[%d,%d,\"%s\"]" (int_of_n lo) (int_of_n hi) (json_escape (msg_string m))) es) ^ "]"

let cmd_core line =
  match split_on ';' line with
  | [f; links; txt] ->
    let file = n_of_int (int_of_string (String.trim f)) in
    let links = triples (List.map int_of_string (split_ws links)) in
    (match parse_with big_fuel grammar_prog grammar_entry (text_of txt) with
     | ParseOk (t, errs, _) ->
       (match core_of_tree file links t with
        | Ok l -> Printf.sprintf "{\"ast\":\"%s\",\"noncore\":null,\"perrs\":%s,\"complete\":%b}" (file_sexp l) (perrs_json errs) (tree_complete t)
        | Err e -> Printf.sprintf "{\"ast\":null,\"noncore\":\"%s\",\"perrs\":%s,\"complete\":%b}" (json_escape (ocaml_string e)) (perrs_json errs) (tree_complete t)
        | Fuel -> "{\"ast\":null,\"noncore\":\"FUEL\",\"perrs\":[]}")
     | ParsePanic -> "{\"parse\":\"PANIC\"}"
     | ParseOOF -> "{\"parse\":\"OOF\"}")
  | _ -> failwith "core: expected  file ; links ; text"

let show_rng r = Printf.sprintf "[%d,%d,%d]" (int_of_n r.r_file) (int_of_n r.r_lo) (int_of_n r.r_hi)
let dkind_name = function
  | DClassNotFound -> "ClassNotFound" | DMulticlassNotFound -> "MulticlassNotFound"
  | DSymbolNotFound -> "SymbolNotFound" | DIncludeNotFound -> "IncludeNotFound" | DSelfInherit -> "SelfInherit"
  | DTooManyArgs -> "TooManyArgs" | DArgOnce -> "ArgOnce" | DArgNotExist -> "ArgNotExist" | DArgType -> "ArgType"
  | DArgMissing -> "ArgMissing" | DNamedArgBad -> "NamedArgBad" | DFieldIncompat -> "FieldIncompat"
  | DCannotAccessField -> "CannotAccessField" | DExpectAnnot -> "ExpectAnnot" | DUnexpectAnnot -> "UnexpectAnnot"
  | DArity -> "Arity" | DOperand -> "Operand" | DSyntax -> "Syntax"

(* identical to scope_driver.ml at_section *)
let at_section (s : st) (lens : int list) : ostring =
  let per_file fi len =
    let b = Buffer.create 256 in
    let prev = ref "" in
    let first = ref true in
    for o = 0 to len do
      let f = n_of_int fi and p = n_of_int o in
      let d = match an_goto s f p with None -> "null" | Some r -> show_rng r in
      let r = match an_references s f p with
        | None -> "null"
        | Some l -> "[" ^ String.concat "," (List.map show_rng l) ^ "]" in
      let e = d ^ "," ^ r in
      if e <> !prev then begin
        if not !first then Buffer.add_char b ',';
        first := false;
        Buffer.add_string b (Printf.sprintf "[%d,%s]" o e);
        prev := e
      end
    done;
    "[" ^ Buffer.contents b ^ "]" in
  "[" ^ String.concat "," (List.mapi per_file lens) ^ "]"

let path_string (p : n list list) : ostring = "/" ^ String.concat "/" (List.map utf8_of p)

let cmd_analyze (queries : bool) line =
  match split_on ';' line with
  | root :: files ->
    let files = List.map (fun f -> match split_on '|' f with
        | [p; t] -> (text_of p, text_of t)
        | _ -> failwith "analyze: expected  path | text") files in
    (* collect_sources pops the queue at most once per resolved include statement (+ the root): every include
       statement takes at least 7 characters *)
    let total = List.fold_left (fun a (_, t) -> a + List.length t) 0 files in
    (match analyze big_fuel (nat_of_int (total / 7 + List.length files + 8)) files (text_of root) with
     | None -> "{\"error\":\"collect_sources: panic or out of fuel\"}"
     | Some a ->
       let wsf = a.an_files in
       let paths = List.map (fun (_, p) -> path_string p.pf_path) wsf in
       let lens = List.map (fun (_, p) -> int_of_n (pf_len p)) wsf in
       let perrs_of k = List.filter_map (fun (((f, lo), hi), m) ->
           if int_of_n f = k then Some ((lo, hi), m) else None) a.an_perrs in
       let pe = String.concat "," (List.mapi (fun k p -> Printf.sprintf "\"%s\":%s" (json_escape p) (perrs_json (perrs_of k))) paths) in
       let rec first_err k = function
         | [] -> "null"
         | Err _ :: _ | Fuel :: _ -> string_of_int k
         | Ok _ :: r -> first_err (k + 1) r in
       let head = Printf.sprintf "\"files\":[%s],\"lens\":[%s],\"parse_errors\":{%s},\"shape_ok\":%s,\"noncore_file\":%s"
           (String.concat "," (List.map (fun p -> "\"" ^ json_escape p ^ "\"") paths))
           (String.concat "," (List.map string_of_int lens)) pe
           (if a.an_shape then "true" else "false") (first_err 0 a.an_cores) in
       (match a.an_core with
        | Ok w ->
          let b = Buffer.create 4096 in
          add b "(ws "; sep_iter b (fun l -> add b (file_sexp l)) w.ws_files; add b ")";
          if not queries then Printf.sprintf "{%s,\"ast\":\"%s\",\"noncore\":null}" head (Buffer.contents b) else
          let s = an_state w in
          let ds = an_diagnostics w in
          Printf.sprintf "{%s,\"ast\":\"%s\",\"noncore\":null,\"bad\":%s,\"diags\":[%s],\"at\":%s}" head (Buffer.contents b)
            (if s_bad s then "true" else "false")
            (String.concat "," (List.map (fun (r, k) ->
               Printf.sprintf "[%d,%d,%d,\"%s\"]" (int_of_n r.r_file) (int_of_n r.r_lo) (int_of_n r.r_hi) (dkind_name k)) ds))
            (at_section s lens)
        | Err e -> Printf.sprintf "{%s,\"ast\":null,\"noncore\":\"%s\"}" head (json_escape (ocaml_string e))
        | Fuel -> Printf.sprintf "{%s,\"ast\":null,\"noncore\":\"FUEL\"}" head))
  | [] -> failwith "analyze: empty line"

let each_line (f : ostring -> ostring) =
  (try
     while true do
       let line = input_line stdin in
       print_string (try f line with Failure m -> "{\"error\":\"" ^ json_escape m ^ "\"}"); print_char '\n'
     done
   with End_of_file -> ());
  flush stdout

let () =
  match Sys.argv with
  | [| _; "core" |] -> each_line cmd_core
  | [| _; "analyze" |] -> each_line (cmd_analyze true)
  | [| _; "corews" |] -> each_line (cmd_analyze false)
  | _ -> prerr_endline "usage: bridge_run core|corews|analyze"; exit 2
