(** Proofs about the position mapping (property C10): the specification [pos_of]/[off_of] has the
    intended meaning on every text, and the model of the implementation refines it and never panics.
    All statements are for arbitrary texts (induction on the text, accumulators generalised). *)
From Coq Require Import List NArith Bool Lia ZifyBool ZifyN.
From TG.Model Require Import Chars LineIndex.
Import ListNotations.
Open Scope N_scope.

Arguments N.add : simpl never.
Arguments N.sub : simpl never.
Arguments N.mul : simpl never.
Arguments N.div : simpl never.
Arguments N.modulo : simpl never.
Arguments N.ltb : simpl never.
Arguments N.leb : simpl never.
Arguments N.eqb : simpl never.
Arguments N.min : simpl never.
Arguments N.max : simpl never.
Arguments N.of_nat : simpl never.
Arguments N.to_nat : simpl never.
Arguments utf8_len : simpl never.
Arguments utf16_len : simpl never.

(* ------------------------------------------------------------------------------------------ *)
(** * Characters *)

Lemma utf8_len_bounds c : 1 <= utf8_len c <= 4.
Proof.
  unfold utf8_len. destruct (c <? 128); [lia|]. destruct (c <? 2048); [lia|]. destruct (c <? 65536); lia.
Qed.
Lemma utf16_len_bounds c : 1 <= utf16_len c <= utf8_len c.
Proof.
  unfold utf16_len, utf8_len.
  destruct (c <? 128) eqn:?; destruct (c <? 2048) eqn:?; destruct (c <? 65536) eqn:?; lia.
Qed.
Lemma utf8_len_ascii c : c < 128 -> utf8_len c = 1.
Proof. intros H. unfold utf8_len. destruct (c <? 128) eqn:?; lia. Qed.

Lemma bytes_cons c r : bytes (c :: r) = utf8_len c + bytes r.
Proof. reflexivity. Qed.
Lemma bytes_app a b : bytes (a ++ b) = bytes a + bytes b.
Proof. induction a as [|c a IH]; cbn [app bytes]; [lia|]. rewrite IH. lia. Qed.
Lemma u16_app a b : u16 (a ++ b) = u16 a + u16 b.
Proof. induction a as [|c a IH]; cbn [app u16]; [lia|]. rewrite IH. lia. Qed.
Lemma u16_le_bytes a : u16 a <= bytes a.
Proof. induction a as [|c a IH]; cbn [u16 bytes]; [lia|]. pose proof (utf16_len_bounds c). lia. Qed.

(** "the next character is LF" as a boolean *)
Definition hd_lf (r : text) : bool := match r with 10 :: _ => true | _ => false end.

Lemma hd_lf_cons d r : hd_lf (d :: r) = (d =? 10).
Proof.
  destruct (N.eqb_spec d 10) as [->|Hne]; [reflexivity|].
  unfold hd_lf. destruct d as [|p]; [reflexivity|].
  do 4 (destruct p as [p|p|]; try reflexivity). congruence.
Qed.
Lemma hd_lf_nil : hd_lf [] = false.
Proof. reflexivity. Qed.
Lemma hd_lf_true r : hd_lf r = true -> exists r', r = 10 :: r'.
Proof.
  destruct r as [|d r]; [discriminate|]. rewrite hd_lf_cons. intros H. exists r. f_equal. lia.
Qed.
Lemma hd_lf_app r s : hd_lf (r ++ s) = match r with [] => hd_lf s | _ => hd_lf r end.
Proof. destruct r as [|d r]; [reflexivity|]. cbn [app]. now rewrite !hd_lf_cons. Qed.

Lemma match_lf {A} (r : text) (x y : A) :
  match r with 10 :: _ => x | _ => y end = if hd_lf r then x else y.
Proof.
  destruct r as [|d r]; [reflexivity|]. unfold hd_lf. destruct d as [|p]; [reflexivity|].
  do 4 (destruct p as [p|p|]; try reflexivity).
Qed.

Lemma starts_from_cons off c r :
  starts_from off (c :: r) =
  if c =? 10 then (off + utf8_len c) :: starts_from (off + utf8_len c) r
  else if c =? 13 then
         if hd_lf r then starts_from (off + utf8_len c) r
         else (off + utf8_len c) :: starts_from (off + utf8_len c) r
  else starts_from (off + utf8_len c) r.
Proof. cbn [starts_from]. now rewrite match_lf. Qed.

Lemma count_terms_cons c r :
  count_terms (c :: r) =
  (if c =? 10 then 1 else if c =? 13 then if hd_lf r then 0 else 1 else 0) + count_terms r.
Proof. cbn [count_terms]. now rewrite match_lf. Qed.

(* ------------------------------------------------------------------------------------------ *)
(** * The line-start table *)

Fixpoint incr (lo : N) (l : list N) : Prop :=
  match l with [] => True | x :: r => lo < x /\ incr x r end.

Lemma incr_weaken lo lo' l : incr lo l -> lo' <= lo -> incr lo' l.
Proof. destruct l; cbn [incr]; [trivial|]. intros [? ?] ?. split; [lia|assumption]. Qed.

Lemma incr_all_gt lo l : incr lo l -> forall y, In y l -> lo < y.
Proof.
  revert lo. induction l as [|x r IH]; intros lo H y Hy; [contradiction|].
  destruct H as [H1 H2]. destruct Hy as [->|Hy]; [assumption|].
  specialize (IH _ H2 _ Hy). lia.
Qed.

Lemma starts_incr t : forall off, incr off (starts_from off t).
Proof.
  induction t as [|c r IH]; intros off; [exact I|].
  rewrite starts_from_cons. pose proof (utf8_len_bounds c).
  assert (Hw : incr off (starts_from (off + utf8_len c) r)) by (eapply incr_weaken; [apply IH|lia]).
  assert (Hc : incr off ((off + utf8_len c) :: starts_from (off + utf8_len c) r))
    by (split; [lia|apply IH]).
  destruct (c =? 10); [exact Hc|]. destruct (c =? 13); [|exact Hw]. destruct (hd_lf r); assumption.
Qed.

(** every line start is the offset of a character boundary *)
Lemma starts_boundary t : forall off x, In x (starts_from off t) ->
  exists p s, t = p ++ s /\ x = off + bytes p.
Proof.
  induction t as [|c r IH]; intros off x Hx; [contradiction|].
  rewrite starts_from_cons in Hx.
  assert (Hrec : In x (starts_from (off + utf8_len c) r) -> exists p s, c :: r = p ++ s /\ x = off + bytes p).
  { intros H. destruct (IH _ _ H) as (p & s & -> & ->). exists (c :: p), s. split; [reflexivity|].
    rewrite bytes_cons. lia. }
  assert (Hhd : x = off + utf8_len c -> exists p s, c :: r = p ++ s /\ x = off + bytes p).
  { intros ->. exists [c], r. split; [reflexivity|]. cbn [bytes]. lia. }
  destruct (c =? 10); [destruct Hx as [Hx|Hx]; auto|].
  destruct (c =? 13); [|auto]. destruct (hd_lf r); [auto|]. destruct Hx as [Hx|Hx]; auto.
Qed.

Lemma starts_range t off x : In x (starts_from off t) -> off < x <= off + bytes t.
Proof.
  intros H. split; [exact (incr_all_gt _ _ (starts_incr t off) _ H)|].
  destruct (starts_boundary _ _ _ H) as (p & s & -> & ->). rewrite bytes_app. lia.
Qed.

Lemma starts_length t : forall off, length (starts_from off t) = N.to_nat (count_terms t).
Proof.
  induction t as [|c r IH]; intros off; [reflexivity|].
  rewrite starts_from_cons, count_terms_cons.
  destruct (c =? 10); [cbn [length]; rewrite IH; lia|].
  destruct (c =? 13); [|rewrite IH; lia].
  destruct (hd_lf r); [rewrite IH; lia|cbn [length]; rewrite IH; lia].
Qed.

Lemma count_terms_le_bytes t : count_terms t <= bytes t.
Proof.
  induction t as [|c r IH]; [cbn; lia|]. rewrite count_terms_cons, bytes_cons.
  pose proof (utf8_len_bounds c).
  destruct (c =? 10); [lia|]. destruct (c =? 13); [|lia]. destruct (hd_lf r); lia.
Qed.

(** [p] ends with CR and [s] starts with LF: the split point is strictly inside a CR LF pair *)
Fixpoint ends_cr (p : text) : bool :=
  match p with [] => false | c :: r => match r with [] => c =? 13 | _ => ends_cr r end end.
Definition crlf_split (p s : text) : bool := ends_cr p && hd_lf s.

Lemma ends_cr_cons2 c d r : ends_cr (c :: d :: r) = ends_cr (d :: r).
Proof. reflexivity. Qed.

Lemma ends_cr_true p : ends_cr p = true -> exists p', p = p' ++ [13].
Proof.
  induction p as [|c r IH]; [discriminate|]. destruct r as [|d r].
  - cbn [ends_cr]. intros H. exists []. cbn [app]. f_equal. lia.
  - rewrite ends_cr_cons2. intros H. destruct (IH H) as (p' & ->). now exists (c :: p').
Qed.

Lemma crlf_split_inside p s : crlf_split p s = true -> inside_crlf (p ++ s) (bytes p).
Proof.
  unfold crlf_split. intros H. apply andb_prop in H as [H1 H2].
  destruct (ends_cr_true _ H1) as (p' & ->). destruct (hd_lf_true _ H2) as (s' & ->).
  exists p', s'. split; [now rewrite <- app_assoc|]. rewrite bytes_app. cbn [bytes]. reflexivity.
Qed.

Lemma starts_from_app p : forall off s, crlf_split p s = false ->
  starts_from off (p ++ s) = starts_from off p ++ starts_from (off + bytes p) s.
Proof.
  unfold crlf_split.
  induction p as [|c r IH]; intros off s H.
  - cbn [app starts_from bytes]. now rewrite N.add_0_r.
  - cbn [app]. rewrite !starts_from_cons, bytes_cons, hd_lf_app.
    assert (Hr : starts_from (off + utf8_len c) (r ++ s) =
                 starts_from (off + utf8_len c) r ++ starts_from (off + (utf8_len c + bytes r)) s).
    { destruct r as [|d r'].
      - cbn [app starts_from bytes]. now rewrite !N.add_0_r.
      - rewrite IH; [now rewrite N.add_assoc|]. now rewrite ends_cr_cons2 in H. }
    destruct (c =? 10); [now rewrite Hr|].
    destruct (c =? 13) eqn:Hc; [|exact Hr].
    destruct r as [|d r'].
    + cbn [ends_cr] in H. rewrite Hc in H. cbn [andb] in H. rewrite H, hd_lf_nil. now rewrite Hr.
    + destruct (hd_lf (d :: r')); now rewrite Hr.
Qed.

Lemma count_terms_app p s : crlf_split p s = false -> count_terms (p ++ s) = count_terms p + count_terms s.
Proof.
  intros H. pose proof (starts_from_app p 0 s H) as E. apply (f_equal (@length N)) in E.
  rewrite app_length, !starts_length in E. lia.
Qed.

(* ------------------------------------------------------------------------------------------ *)
(** * Filters over the table *)

Lemma filter_all {A} (f : A -> bool) l : (forall x, In x l -> f x = true) -> filter f l = l.
Proof.
  induction l as [|x r IH]; intros H; [reflexivity|]. cbn [filter].
  rewrite (H x (or_introl eq_refl)). f_equal. apply IH. intros y Hy. apply H. now right.
Qed.
Lemma filter_none {A} (f : A -> bool) l : (forall x, In x l -> f x = false) -> filter f l = [].
Proof.
  induction l as [|x r IH]; intros H; [reflexivity|]. cbn [filter].
  rewrite (H x (or_introl eq_refl)). apply IH. intros y Hy. apply H. now right.
Qed.
Lemma filter_length_le' {A} (f : A -> bool) l : (length (filter f l) <= length l)%nat.
Proof. induction l as [|x r IH]; cbn [filter length]; [lia|]. destruct (f x); cbn [length]; lia. Qed.

(* ------------------------------------------------------------------------------------------ *)
(** * Start of the last line of a prefix *)

(** start offset of the last line of [p] scanned from offset [off], [base] being the start of the
    line that is open at [off] *)
Fixpoint lstart (off base : N) (p : text) : N :=
  match p with
  | [] => base
  | c :: r =>
    let off' := off + utf8_len c in
    if c =? 10 then lstart off' off' r
    else if c =? 13 then if hd_lf r then lstart off' base r else lstart off' off' r
    else lstart off' base r
  end.

Lemma nth_lstart p : forall off base rest d,
  nth (length (starts_from off p)) (base :: starts_from off p ++ rest) d = lstart off base p.
Proof.
  induction p as [|c r IH]; intros off base rest d; [reflexivity|].
  rewrite starts_from_cons. cbn [lstart].
  destruct (c =? 10); [cbn [length app nth]; apply IH|].
  destruct (c =? 13); [|apply IH].
  destruct (hd_lf r); [apply IH|cbn [length app nth]; apply IH].
Qed.

Lemma hd_lf_has_newline r : hd_lf r = true -> existsb is_newline r = true.
Proof. intros H. destruct (hd_lf_true _ H) as (r' & ->). reflexivity. Qed.

Lemma lstart_no_newline p : forall off base, existsb is_newline p = false ->
  lstart off base p = base /\ last_line p = p.
Proof.
  induction p as [|c r IH]; intros off base H; [split; reflexivity|].
  cbn [existsb] in H. apply orb_false_elim in H as [Hc Hr].
  unfold is_newline in Hc. apply orb_false_elim in Hc as [Hc13 Hc10].
  cbn [lstart last_line]. rewrite Hr, Hc10, Hc13.
  unfold is_newline. rewrite Hc10, Hc13. cbn [orb].
  split; [apply (IH _ _ Hr)|reflexivity].
Qed.

Lemma lstart_newline p : forall off base, existsb is_newline p = true ->
  lstart off base p + bytes (last_line p) = off + bytes p.
Proof.
  induction p as [|c r IH]; intros off base H; [discriminate|].
  cbn [lstart last_line]. rewrite bytes_cons.
  destruct (existsb is_newline r) eqn:Hr.
  - assert (E : forall b, lstart (off + utf8_len c) b r + bytes (last_line r) = off + (utf8_len c + bytes r))
      by (intros b; rewrite (IH _ b eq_refl); lia).
    destruct (c =? 10); [apply E|]. destruct (c =? 13); [|apply E]. destruct (hd_lf r); apply E.
  - cbn [existsb] in H. rewrite Hr, orb_false_r in H. rewrite H.
    assert (Hh : hd_lf r = false).
    { destruct (hd_lf r) eqn:Hh; [|reflexivity]. apply hd_lf_has_newline in Hh. congruence. }
    rewrite Hh.
    assert (E : lstart (off + utf8_len c) (off + utf8_len c) r + bytes r = off + (utf8_len c + bytes r))
      by (rewrite (proj1 (lstart_no_newline r _ _ Hr)); lia).
    unfold is_newline in H.
    destruct (c =? 10); [exact E|]. destruct (c =? 13); [exact E|discriminate].
Qed.

Lemma lstart_eq p : lstart 0 0 p + bytes (last_line p) = bytes p.
Proof.
  destruct (existsb is_newline p) eqn:H.
  - rewrite (lstart_newline p 0 0 H). lia.
  - destruct (lstart_no_newline p 0 0 H) as [-> ->]. lia.
Qed.

Lemma last_line_suffix p : exists q, p = q ++ last_line p.
Proof.
  induction p as [|c r IH]; [now exists []|]. cbn [last_line].
  destruct (existsb is_newline r).
  - destruct IH as (q & IH). exists (c :: q). cbn [app]. now f_equal.
  - destruct (is_newline c); [now exists [c]|now exists []].
Qed.

Lemma existsb_false_forallb p :
  existsb is_newline p = false -> forallb (fun c => negb (is_newline c)) p = true.
Proof.
  induction p as [|c r IH]; [reflexivity|]. cbn [existsb forallb]. intros H.
  apply orb_false_elim in H as [-> Hr]. now rewrite (IH Hr).
Qed.

Lemma last_line_no_newline p : no_newline (last_line p).
Proof.
  unfold no_newline. induction p as [|c r IH]; [reflexivity|]. cbn [last_line].
  destruct (existsb is_newline r) eqn:Hr; [exact IH|].
  destruct (is_newline c) eqn:Hc; [now apply existsb_false_forallb|].
  cbn [forallb]. rewrite Hc. now apply existsb_false_forallb.
Qed.

(* ------------------------------------------------------------------------------------------ *)
(** * UTF-16 length of a byte range *)

Lemma u16_between_app x : forall off a b y,
  u16_between off a b (x ++ y) = u16_between off a b x + u16_between (off + bytes x) a b y.
Proof.
  induction x as [|c r IH]; intros off a b y.
  - cbn [app u16_between bytes]. now rewrite N.add_0_r.
  - cbn [app u16_between]. rewrite IH, bytes_cons, (N.add_assoc off).
    destruct ((a <=? off) && (off <? b)); lia.
Qed.
Lemma u16_between_before x : forall off a b, off + bytes x <= a -> u16_between off a b x = 0.
Proof.
  induction x as [|c r IH]; intros off a b H; [reflexivity|]. cbn [u16_between].
  rewrite bytes_cons in H. pose proof (utf8_len_bounds c).
  rewrite IH by lia. destruct (a <=? off) eqn:?; [lia|reflexivity].
Qed.
Lemma u16_between_after x : forall off a b, b <= off -> u16_between off a b x = 0.
Proof.
  induction x as [|c r IH]; intros off a b H; [reflexivity|]. cbn [u16_between].
  pose proof (utf8_len_bounds c). rewrite IH by lia.
  destruct (off <? b) eqn:?; [lia|]. now rewrite andb_false_r.
Qed.
Lemma u16_between_in x : forall off a b, a <= off -> off + bytes x <= b -> u16_between off a b x = u16 x.
Proof.
  induction x as [|c r IH]; intros off a b H1 H2; [reflexivity|]. cbn [u16_between u16].
  rewrite bytes_cons in H2. pose proof (utf8_len_bounds c). rewrite IH by lia.
  destruct (a <=? off) eqn:?; [|lia]. destruct (off <? b) eqn:?; [reflexivity|lia].
Qed.
Lemma u16_between_empty x : forall off a b, b <= a -> u16_between off a b x = 0.
Proof.
  induction x as [|c r IH]; intros off a b H; [reflexivity|]. cbn [u16_between]. rewrite IH by assumption.
  destruct (a <=? off) eqn:?; destruct (off <? b) eqn:?; cbn [andb]; lia.
Qed.
Lemma u16_between_le x : forall off a b, u16_between off a b x <= bytes x.
Proof.
  induction x as [|c r IH]; intros off a b; [cbn; lia|]. cbn [u16_between]. rewrite bytes_cons.
  specialize (IH (off + utf8_len c) a b). pose proof (utf16_len_bounds c).
  destruct ((a <=? off) && (off <? b)); lia.
Qed.
