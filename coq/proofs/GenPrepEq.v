(** GenPrepEq: the rendering of crates/syntax/src/preprocessor.rs that tools/translate/t_prep.py regenerates on
    every run (coq/gen/GenPrep.v, shallow state-monad embedding over model/PrepMonad.v, the inner token stream being
    the GENERATED lexer coq/gen/GenLexer.v) is simulated, step by step and for ALL texts, by the hand model
    coq/model/Prep.v, which works on the raw token list of the hand lexer model.  Any semantic edit of preprocessor.rs
    changes GenPrep.v and breaks this file; every theorem about Prep.prep_text (the C15 theorems) then also holds of the source
    rendering of the STREAMING preprocessor over the source rendering of the lexer. *)
From Coq Require Import List Arith PeanoNat NArith ZArith Bool Lia String Ascii Wf_nat.
From TG.Gen Require Import GenTokens GenLexTables GenLexer GenPrep.
From TG.Model Require Import Chars Lexer ScanMonad PrepMonad Prep PrepRun.
From TG.Proofs Require Import LexBasics PrepBasics GenLexerEq PrepConform.
Import ListNotations.
Open Scope N_scope.

(** * The driver: the TokenStream protocol exactly as harness/src/bin/prepdump.rs and ParserBase use it
    (cursor; eat; cursor; take_error iff the kind is Error), then `macros()` *)
Definition frun {A} (r : fres A * pp) : option (A * pp) :=
  match r with (FNorm a, st) => Some (a, st) | _ => None end.
Definition macros_of (g : pp) : list text :=
  match frun (gp_macros g) with Some (ms, _) => ms | None => [] end.

Fixpoint gp_drive (fuel : nat) (g : pp) : list (TokenKind * N * option string) * list text :=
  match fuel with
  | O => ([], macros_of g)
  | S n =>
      match frun (gp_cursor g) with
      | Some (lo, g0) =>
          match frun (gp_eat g0) with
          | Some (k, g1) =>
              match frun (gp_cursor g1) with
              | Some (hi, g2) =>
                  let '(e, g3) := if tk_eqb k T_Error
                                  then match frun (gp_take_error g2) with Some (e, g') => (e, g') | None => (None, g2) end
                                  else (None, g2) in
                  if tk_eqb k T_Eof then ([(k, hi - lo, e)], macros_of g3)
                  else let '(l, ms) := gp_drive n g3 in ((k, hi - lo, e) :: l, ms)
              | None => ([], [])
              end
          | None => ([], [])
          end
      | None => ([], [])
      end
  end.
Definition gen_prep_run (txt : text) := gp_drive (S (S (List.length txt))) (gp_new (g_new txt)).
Definition gen_prep_text (txt : text) : list (TokenKind * N * option string) := fst (gen_prep_run txt).
Definition gen_prep_macros (txt : text) : list text := snd (gen_prep_run txt).

(** the hand model's entries with the error constructor replaced by its message *)
Definition prep_view (x : TokenKind * N * option any_err) : TokenKind * N * option string :=
  let '(k, len, e) := x in (k, len, option_map any_err_msg e).

Fixpoint codes (s : string) : text :=
  match s with EmptyString => [] | String a r => N_of_ascii a :: codes r end.
Definition prep_sample_texts : list text :=
  map codes [ "#ifdef A
class X;
#else
def y;
#endif
z"; "#define A
#ifdef A
#ifndef A
p
#else
q ..
#endif
#else
r
#endif
"; "#ifdef"; "#define 1"; "#ifndef A
#define B /* c */ // d
#ifdef B
x
"; "#else
a
#endif
#endif
b"; "#ifdef A
""unterminated
#endif
.. $" ]%string.
Example gen_prep_agrees_on_samples :
  map gen_prep_run prep_sample_texts
  = map (fun t => (map prep_view (prep_text t), prep_macros t)) prep_sample_texts.
Proof. vm_compute. reflexivity. Qed.

(** * States: the generated state that corresponds to a state of the hand model, with [b] before the cursor of the
    inner scanner and [s] after it *)
Definition conc (b s : text) (st : pstate) : pp :=
  mk_pp (stt b s (option_map lex_err_msg (lerr st))) (macros st) (option_map prep_err_msg (perr st)) (openc st).

(** the simulation relation of the statements below *)
Definition sim (g : pp) (st : pstate) (s : text) : Prop :=
  exists b, p_ts g = stt b s (option_map lex_err_msg (lerr st))
            /\ p_macros g = macros st
            /\ p_error g = option_map prep_err_msg (perr st)
            /\ p_open g = openc st.

Lemma sim_conc g st s : sim g st s <-> exists b, g = conc b s st.
Proof.
  split.
  - intros (b & H1 & H2 & H3 & H4). exists b. destruct g as [ts ms pe o]. cbn in *. subst. reflexivity.
  - intros (b & ->). exists b. repeat split; reflexivity.
Qed.

Definition note_eo (st : pstate) (eo : option lex_err) : pstate :=
  match eo with
  | Some e => {| macros := macros st; perr := perr st; lerr := Some e; openc := openc st |}
  | None => st
  end.

Lemma note_err_eo st t : note_err st t = note_eo st (rerr t).
Proof. reflexivity. Qed.

Ltac pred1 :=
  cbv beta iota zeta delta [pbind pret pearly p_unreachable pfn_body call lift_ts ts_eat ts_cursor ts_text ts_take_error
       get_open set_open get_perror set_perror take_perror get_macros macros_insert macros_contains
       p_ts p_macros p_error p_open conc saturating_sub opt_is_some].
Ltac pred := pred1; repeat (progress (cbn [negb andb orb fst snd]); pred1).

(** * The inner stream: the generated lexer functions on a lexer state *)
Lemma g_eat_run b s e : g_eat (stt b s e) = outcome b e (lex_one s).
Proof. unfold g_eat. rewrite fn_body_finish, next_token_eq, finish_outcome. reflexivity. Qed.
Lemma g_cursor_run b s e : g_cursor (stt b s e) = (Norm (bytes b), stt b s e).
Proof. reflexivity. Qed.
Lemma g_text_run b a rest e : g_text (bytes b, bytes (b ++ a)) (stt (b ++ a) rest e) = (Norm a, stt (b ++ a) rest e).
Proof. unfold g_text. cbn [fst snd]. apply s_get_run. Qed.
Lemma g_take_error_run b s e : g_take_error (stt b s e) = (Norm e, stt b s None).
Proof. reflexivity. Qed.
Lemma p_loop_fuel_run {R} b s e ms pe o :
  @p_loop_fuel R (mk_pp (stt b s e) ms pe o) = (PNorm (Datatypes.S (Datatypes.S (List.length s))), mk_pp (stt b s e) ms pe o).
Proof. reflexivity. Qed.

Lemma conc_note B S st eo :
  mk_pp (stt B S (upd (option_map lex_err_msg (lerr st)) eo)) (macros st) (option_map prep_err_msg (perr st)) (openc st)
  = conc B S (note_eo st eo).
Proof. destruct eo; reflexivity. Qed.

(** * The raw token list, one token at a time *)
Lemma raw_lex_nil : raw_lex [] = [].
Proof. reflexivity. Qed.

Lemma raw_lex_cons s k e a r : s <> [] -> lex_one s = (k, e, a, r) ->
  raw_lex s = {| rk := k; rerr := e; rtext := a |} :: raw_lex r.
Proof.
  intros NE L. rewrite !raw_lex_eq.
  assert (LT : lex_text s = (k, e, a) :: lex_text r).
  { apply lexes_lex_text. eapply lexes_cons; [exact NE|exact L|apply lex_text_lexes]. }
  rewrite LT. cbn [map filter mk_rtok rk].
  destruct (lex_one_progress _ _ _ _ _ L NE) as [_ K].
  destruct (tk_eqb k T_Eof) eqn:T; [apply LexBasics.tk_eqb_eq in T; contradiction|]. reflexivity.
Qed.

Lemma raw_lex_length s : (List.length (raw_lex s) <= List.length s)%nat.
Proof.
  remember (List.length s) as n eqn:Hn. revert s Hn.
  induction n as [n IH] using lt_wf_ind. intros s Hn.
  destruct s as [|c s']; [cbn; lia|].
  destruct (lex_one (c :: s')) as [[[k e] a] r] eqn:L.
  assert (NE : c :: s' <> []) by discriminate.
  rewrite (raw_lex_cons _ _ _ _ _ NE L). cbn [List.length].
  pose proof (lex_one_shorter _ _ _ _ _ L NE) as SH.
  specialize (IH (List.length r) ltac:(lia) r eq_refl). lia.
Qed.

Lemma raw_eat_lex st s k eo a rest : lex_one s = (k, eo, a, rest) ->
  raw_eat st (raw_lex s) = ({| rk := k; rerr := eo; rtext := a |}, note_eo st eo, raw_lex rest).
Proof.
  intros L. destruct s as [|c r].
  - cbn in L. inversion L; subst. reflexivity.
  - assert (NE : c :: r <> []) by discriminate.
    rewrite (raw_lex_cons _ _ _ _ _ NE L), raw_eat_cons. reflexivity.
Qed.

Ltac tk_closed :=
  repeat match goal with
  | |- context [tk_eqb ?x ?y] =>
      let v := eval vm_compute in (tk_eqb x y) in
      lazymatch v with true => change (tk_eqb x y) with true | false => change (tk_eqb x y) with false end
  end.

(** * Loops *)
Lemma p_loop_S {R S} n (body : S -> PM R (ctl S)) s st :
  p_loop (Datatypes.S n) body s st =
  match body s st with
  | (PNorm (Continue s'), st') => p_loop n body s' st'
  | (PNorm (Break s'), st') => (PNorm s', st')
  | (PRet r, st') => (PRet r, st')
  | (PPanic, st') => (PPanic, st')
  | (POof, st') => (POof, st')
  end.
Proof.
  cbn [p_loop]. unfold pbind. destruct (body s st) as [[c|r| |] st']; try reflexivity. destruct c; reflexivity.
Qed.

(** ** next_not_trivia: `loop { let start = cursor(); let kind = eat(); if !kind.is_trivia() { return (start, kind); } }` *)
Definition nnt_step (b s : text) (st : pstate) : pres (N * TokenKind) (ctl unit) * pp :=
  let '(k, eo, a, rest) := lex_one s in
  if is_trivia k then (PNorm (Continue tt), conc (b ++ a) rest (note_eo st eo))
  else (PRet (bytes b, k), conc (b ++ a) rest (note_eo st eo)).

Lemma nnt_loop (body : unit -> PM (N * TokenKind) (ctl unit)) :
  (forall b s st, body tt (conc b s st) = nnt_step b s st) ->
  forall n s, (List.length s < n)%nat -> forall b st sk t sk' st' raw',
  next_not_trivia st (raw_lex s) sk = (t, sk', st', raw') ->
  exists w1 s', s = w1 ++ rtext t ++ s' /\ raw' = raw_lex s' /\ sk' = sk + bytes w1
    /\ p_loop n body tt (conc b s st) = (PRet (bytes (b ++ w1), rk t), conc ((b ++ w1) ++ rtext t) s' st').
Proof.
  intros HB. induction n as [|n IH]; intros s L b st sk t sk' st' raw' H; [lia|].
  rewrite p_loop_S, HB. unfold nnt_step.
  destruct s as [|c r0].
  - rewrite raw_lex_nil in H. cbn [next_not_trivia] in H. inversion H; subst.
    exists [], []. change (lex_one []) with (T_Eof, @None lex_err, @nil N, @nil N).
    cbn [is_trivia eof_tok rtext rk note_eo app bytes]. rewrite !app_nil_r.
    repeat split; try reflexivity. lia.
  - destruct (lex_one (c :: r0)) as [[[k eo] a] rest] eqn:L1.
    assert (NE : c :: r0 <> []) by discriminate.
    rewrite (raw_lex_cons _ _ _ _ _ NE L1), next_not_trivia_cons in H. cbn [rk] in H.
    pose proof (lex_one_split _ _ _ _ _ L1) as SP. pose proof (lex_one_shorter _ _ _ _ _ L1 NE) as SH.
    destruct (is_trivia k).
    + rewrite note_err_eo in H. cbn [rerr] in H.
      destruct (IH rest ltac:(cbn [List.length] in *; lia) (b ++ a) (note_eo st eo) _ _ _ _ _ H) as (w1 & s' & E1 & E2 & E3 & RUN).
      exists (a ++ w1), s'. rewrite RUN.
      split; [rewrite SP, E1, <- app_assoc; reflexivity|]. split; [exact E2|].
      split; [rewrite E3, bytes_app; unfold rlen; cbn [rtext]; lia|].
      rewrite !app_assoc. reflexivity.
    + inversion H; subst. exists [], rest. cbn [rtext rk app bytes]. rewrite !app_nil_r.
      repeat split; try reflexivity; [exact SP|lia].
Qed.

(** ** eat_until_else_or_endif: `loop { match eat() { .. } }` over `depth` *)
Definition eu_step (d : N) (b s : text) (st : pstate) : pres unit (ctl N) * pp :=
  let '(k, eo, a, rest) := lex_one s in
  let st1 := note_eo st eo in
  if tk_eqb k T_Ifdef || tk_eqb k T_Ifndef then (PNorm (Continue (d + 1)), conc (b ++ a) rest st1)
  else if tk_eqb k T_Endif && (2 <=? d) then (PNorm (Continue (d - 1)), conc (b ++ a) rest st1)
  else if tk_eqb k T_Else && (d =? 1) then (PNorm (Break d), conc (b ++ a) rest st1)
  else if tk_eqb k T_Endif && (d =? 1) then (PNorm (Break d), conc (b ++ a) rest (set_openc st1 (openc st1 - 1)))
  else if tk_eqb k T_Eof then (PNorm (Break d), conc (b ++ a) rest st1)
  else (PNorm (Continue d), conc (b ++ a) rest st1).

Lemma eu_loop (body : N -> PM unit (ctl N)) :
  (forall d b s st, body d (conc b s st) = eu_step d b s st) ->
  forall n s, (List.length s < n)%nat -> forall d b st e e' st' raw',
  eat_until_else_or_endif d st (raw_lex s) e = (e', st', raw') ->
  exists w s' d', s = w ++ s' /\ raw' = raw_lex s' /\ e' = e + bytes w
    /\ p_loop n body d (conc b s st) = (PNorm d', conc (b ++ w) s' st').
Proof.
  intros HB. induction n as [|n IH]; intros s L d b st e e' st' raw' H; [lia|].
  rewrite p_loop_S, HB. unfold eu_step.
  destruct s as [|c r0].
  - rewrite raw_lex_nil in H. cbn [eat_until_else_or_endif] in H. inversion H; subst.
    exists [], [], d. change (lex_one []) with (T_Eof, @None lex_err, @nil N, @nil N).
    cbv zeta. tk_closed. cbn [orb andb note_eo app bytes]. rewrite !app_nil_r.
    repeat split; try reflexivity. lia.
  - destruct (lex_one (c :: r0)) as [[[k eo] a] rest] eqn:L1.
    assert (NE : c :: r0 <> []) by discriminate.
    rewrite (raw_lex_cons _ _ _ _ _ NE L1), eat_until_cons in H. cbv zeta in H. cbn [rk] in H.
    rewrite note_err_eo in H. cbn [rerr] in H. unfold rlen in H. cbn [rtext] in H.
    pose proof (lex_one_split _ _ _ _ _ L1) as SP. pose proof (lex_one_shorter _ _ _ _ _ L1 NE) as SH.
    destruct (lex_one_progress _ _ _ _ _ L1 NE) as [_ KE].
    cbv zeta.
    assert (REC : forall d1, eat_until_else_or_endif d1 (note_eo st eo) (raw_lex rest) (e + bytes a) = (e', st', raw') ->
              exists w s' d', c :: r0 = w ++ s' /\ raw' = raw_lex s' /\ e' = e + bytes w
                /\ p_loop n body d1 (conc (b ++ a) rest (note_eo st eo)) = (PNorm d', conc (b ++ w) s' st')).
    { intros d1 H1.
      destruct (IH rest ltac:(cbn [List.length] in *; lia) d1 (b ++ a) (note_eo st eo) _ _ _ _ H1) as (w & s' & d' & E1 & E2 & E3 & RUN).
      exists (a ++ w), s', d'. rewrite RUN.
      split; [rewrite SP, E1, <- app_assoc; reflexivity|]. split; [exact E2|].
      split; [rewrite E3, bytes_app; lia|]. rewrite !app_assoc. reflexivity. }
    assert (STOP : forall st1 d1, (e + bytes a, st1, raw_lex rest) = (e', st', raw') ->
              exists w s' d', c :: r0 = w ++ s' /\ raw' = raw_lex s' /\ e' = e + bytes w
                /\ (PNorm d1, conc (b ++ a) rest st1) = (@PNorm unit N d', conc (b ++ w) s' st')).
    { intros st1 d1 H1. inversion H1; subst. exists a, rest, d1. repeat split; try reflexivity. exact SP. }
    destruct (tk_eqb k T_Ifdef || tk_eqb k T_Ifndef); [apply REC; exact H|].
    destruct (tk_eqb k T_Endif) eqn:K1.
    { apply LexBasics.tk_eqb_eq in K1. subst k. tk_closed. cbn [andb].
      destruct (2 <=? d); [apply REC; exact H|].
      destruct (d =? 1); [|apply REC; exact H].
      rewrite N.pred_sub in H. apply STOP. exact H. }
    cbn [andb].
    destruct (tk_eqb k T_Else) eqn:K2.
    { cbn [andb]. destruct (d =? 1); [apply STOP; exact H|].
      destruct (tk_eqb k T_Eof) eqn:K3; [apply LexBasics.tk_eqb_eq in K3; contradiction|]. apply REC; exact H. }
    cbn [andb].
    destruct (tk_eqb k T_Eof) eqn:K3; [apply LexBasics.tk_eqb_eq in K3; contradiction|]. apply REC; exact H.
Qed.

(** * The functions of the file *)
Ltac predg1 :=
  cbv beta iota zeta delta [pbind pret pearly p_unreachable pfn_body call lift_ts ts_eat ts_cursor ts_text ts_take_error
       get_open set_open get_perror set_perror take_perror get_macros macros_insert macros_contains
       p_ts p_macros p_error p_open conc saturating_sub opt_is_some
       gp_error gp_define_macro gp_process_endif gp_eat gp_cursor gp_macros gp_take_error].
Ltac predg := predg1; repeat (progress (cbn [negb andb orb fst snd]); predg1).

(** the two loop bodies, and the decomposition of the generated functions into "run the loop with the fuel
    `characters left + 2`" (checked by conversion, like GenLexerEq.g_number_decomp) *)
Open Scope p_scope.
Definition nnt_body : unit -> PM (N * TokenKind) (ctl unit) :=
  fun _ => start <- ts_cursor ;; kind <- ts_eat ;;
           if negb (is_trivia kind) then pearly (start, kind) else pret (Continue tt).
Lemma gp_next_not_trivia_decomp :
  gp_next_not_trivia = pfn_body (_ <- (n <- p_loop_fuel ;; p_loop n nnt_body tt) ;; p_unreachable).
Proof. reflexivity. Qed.

Definition eu_body : N -> PM unit (ctl N) :=
  fun depth =>
    v <- ts_eat ;;
    if tk_eqb v T_Ifdef || tk_eqb v T_Ifndef then pret (Continue (depth + 1))
    else if tk_eqb v T_Endif && (2 <=? depth) then pret (Continue (depth - 1))
    else if tk_eqb v T_Else && (depth =? 1) then pret (Break depth)
    else if tk_eqb v T_Endif && (depth =? 1) then
      ((t3 <- (t2 <- get_open ;; pret (saturating_sub t2 1)) ;; set_open t3) ;;; pret (Break depth))
    else if tk_eqb v T_Eof then pret (Break depth)
    else pret (Continue depth).
Lemma gp_eat_until_decomp :
  gp_eat_until_else_or_endif = pfn_body (_ <- (n <- p_loop_fuel ;; p_loop n eu_body 1) ;; pret tt).
Proof. reflexivity. Qed.
Close Scope p_scope.

Lemma nnt_body_step b s st : nnt_body tt (conc b s st) = nnt_step b s st.
Proof.
  unfold nnt_body. pred. rewrite g_cursor_run. pred. rewrite g_eat_run. unfold nnt_step.
  destruct (lex_one s) as [[[k eo] a] rest]. cbv beta iota delta [outcome]. pred.
  destruct (is_trivia k); cbn [negb]; destruct eo; reflexivity.
Qed.

Lemma eu_body_step d b s st : eu_body d (conc b s st) = eu_step d b s st.
Proof.
  unfold eu_body. pred. rewrite g_eat_run. unfold eu_step.
  destruct (lex_one s) as [[[k eo] a] rest]. cbv beta iota zeta delta [outcome]. pred.
  destruct (tk_eqb k T_Ifdef || tk_eqb k T_Ifndef); [destruct eo; reflexivity|].
  destruct (tk_eqb k T_Endif && (2 <=? d)); [destruct eo; reflexivity|].
  destruct (tk_eqb k T_Else && (d =? 1)); [destruct eo; reflexivity|].
  destruct (tk_eqb k T_Endif && (d =? 1)); [destruct eo; reflexivity|].
  destruct (tk_eqb k T_Eof); destruct eo; reflexivity.
Qed.

Lemma gp_next_not_trivia_run b s st t sk' st' raw' :
  next_not_trivia st (raw_lex s) 0 = (t, sk', st', raw') ->
  exists w1 s', s = w1 ++ rtext t ++ s' /\ raw' = raw_lex s' /\ sk' = bytes w1
    /\ gp_next_not_trivia (conc b s st) = (FNorm (bytes (b ++ w1), rk t), conc ((b ++ w1) ++ rtext t) s' st').
Proof.
  intros H.
  destruct (nnt_loop nnt_body nnt_body_step (Datatypes.S (Datatypes.S (List.length s))) s ltac:(lia) b st 0 _ _ _ _ H)
    as (w1 & s' & E1 & E2 & E3 & RUN).
  exists w1, s'. split; [exact E1|]. split; [exact E2|]. split; [lia|].
  rewrite gp_next_not_trivia_decomp. unfold pfn_body, pbind at 1 2.
  change (@p_loop_fuel (N * TokenKind) (conc b s st)) with (@PNorm (N * TokenKind) nat (Datatypes.S (Datatypes.S (List.length s))), conc b s st).
  cbv beta iota. rewrite RUN. reflexivity.
Qed.

Lemma gp_eat_until_run b s st eaten st' raw' :
  eat_until_else_or_endif 1 st (raw_lex s) 0 = (eaten, st', raw') ->
  exists w s', s = w ++ s' /\ raw' = raw_lex s' /\ eaten = bytes w
    /\ gp_eat_until_else_or_endif (conc b s st) = (FNorm tt, conc (b ++ w) s' st').
Proof.
  intros H.
  destruct (eu_loop eu_body eu_body_step (Datatypes.S (Datatypes.S (List.length s))) s ltac:(lia) 1 b st 0 _ _ _ H)
    as (w & s' & d' & E1 & E2 & E3 & RUN).
  exists w, s'. split; [exact E1|]. split; [exact E2|]. split; [lia|].
  rewrite gp_eat_until_decomp. unfold pfn_body, pbind at 1 2.
  change (@p_loop_fuel unit (conc b s st)) with (@PNorm unit nat (Datatypes.S (Datatypes.S (List.length s))), conc b s st).
  cbv beta iota. rewrite RUN. reflexivity.
Qed.

(** a call of another generated function whose behaviour on [conc] states is known *)
Ltac rew_run L := let H := fresh "RR" in pose proof L as H; unfold conc in H; rewrite H; clear H.

Lemma bytes_app3 b w1 a : bytes ((b ++ w1) ++ a) = bytes (b ++ w1) + bytes a.
Proof. apply bytes_app. Qed.

(** ** process_define *)
Lemma gp_process_define_run b s st1 t k len st' raw' :
  PrepBasics.process_define t st1 (raw_lex s) = (k, len, st', raw') ->
  exists w s', s = w ++ s' /\ raw' = raw_lex s' /\ len = rlen t + bytes w
    /\ gp_process_define (conc b s st1) = (FNorm k, conc (b ++ w) s' st').
Proof.
  unfold PrepBasics.process_define. intros H.
  destruct (next_not_trivia st1 (raw_lex s) 0) as [[[n sk] st2] r2] eqn:EN.
  destruct (gp_next_not_trivia_run b s st1 _ _ _ _ EN) as (w1 & s1 & E1 & E2 & E3 & RUN).
  cbv zeta in H. exists (w1 ++ rtext n), s1.
  assert (LEN : rlen t + sk + rlen n = rlen t + bytes (w1 ++ rtext n)) by (rewrite bytes_app; unfold rlen; lia).
  unfold gp_process_define. unfold conc in RUN.
  destruct (tk_eqb (rk n) T_Id) eqn:KI; inversion H; subst k len st' raw'; clear H;
    (split; [rewrite <- app_assoc; exact E1|]); (split; [exact E2|]); (split; [exact LEN|]);
    predg; rewrite RUN; predg; rewrite KI.
  - rewrite g_cursor_run. predg. rewrite g_text_run. predg.
    change (mem_text (rtext n) (macros st2)) with (mem_macro (rtext n) (macros st2)).
    unfold add_macro. cbn [macros perr lerr openc]. rewrite !app_assoc.
    destruct (mem_macro (rtext n) (macros st2)); reflexivity.
  - rewrite !app_assoc. reflexivity.
Qed.

(** ** process_else *)
Lemma gp_process_else_run b s st1 t k len st' raw' :
  PrepBasics.process_else t st1 (raw_lex s) = (k, len, st', raw') ->
  exists w s', s = w ++ s' /\ raw' = raw_lex s' /\ len = rlen t + bytes w
    /\ gp_process_else (conc b s st1) = (FNorm k, conc (b ++ w) s' st').
Proof.
  unfold PrepBasics.process_else. intros H.
  destruct (eat_until_else_or_endif 1 st1 (raw_lex s) 0) as [[eaten st2] r2] eqn:EE.
  destruct (gp_eat_until_run b s st1 _ _ _ EE) as (w & s' & E1 & E2 & E3 & RUN).
  inversion H; subst k len st' raw'. exists w, s'.
  split; [exact E1|]. split; [exact E2|]. split; [lia|].
  unfold gp_process_else. unfold conc in RUN. predg. rewrite RUN. reflexivity.
Qed.

(** ** process_if *)
Lemma gp_process_if_run b s st1 t (wanted : bool) k len st' raw' :
  PrepBasics.process_if t st1 (raw_lex s) wanted = (k, len, st', raw') ->
  exists w s', s = w ++ s' /\ raw' = raw_lex s' /\ len = rlen t + bytes w
    /\ gp_process_if (if wanted then IfKind_Defined else IfKind_NotDefined) (conc b s st1) = (FNorm k, conc (b ++ w) s' st').
Proof.
  unfold PrepBasics.process_if. intros H.
  destruct (next_not_trivia st1 (raw_lex s) 0) as [[[n sk] st2] r2] eqn:EN.
  destruct (gp_next_not_trivia_run b s st1 _ _ _ _ EN) as (w1 & s1 & E1 & E2 & E3 & RUN).
  cbv zeta in H. unfold conc in RUN.
  assert (LEN : rlen t + sk + rlen n = rlen t + bytes (w1 ++ rtext n)) by (rewrite bytes_app; unfold rlen; lia).
  destruct (tk_eqb (rk n) T_Id) eqn:KI.
  - destruct (Bool.eqb wanted (mem_macro (rtext n) (macros st2))) eqn:TK.
    + (* the branch is taken *)
      inversion H; subst k len st' raw'; clear H. exists (w1 ++ rtext n), s1.
      split; [rewrite <- app_assoc; exact E1|]. split; [exact E2|]. split; [exact LEN|].
      unfold gp_process_if. predg. rewrite RUN. predg. rewrite KI, g_cursor_run. predg. rewrite g_text_run. predg.
      change (mem_text (rtext n) (macros st2)) with (mem_macro (rtext n) (macros st2)).
      rewrite !app_assoc.
      destruct wanted, (mem_macro (rtext n) (macros st2)); try discriminate TK; reflexivity.
    + (* the branch is skipped *)
      destruct (eat_until_else_or_endif 1 (set_openc st2 (openc st2 + 1)) r2 0) as [[eaten st4] r3] eqn:EE.
      subst r2.
      destruct (gp_eat_until_run ((b ++ w1) ++ rtext n) s1 _ _ _ _ EE) as (w2 & s2 & F1 & F2 & F3 & RUN2).
      inversion H; subst k len st' raw'; clear H. exists (w1 ++ rtext n ++ w2), s2.
      split; [rewrite E1, F1, <- !app_assoc; reflexivity|]. split; [exact F2|].
      split; [rewrite !bytes_app in *; unfold rlen in *; lia|].
      unfold gp_process_if. unfold conc in RUN2. predg. rewrite RUN. predg. rewrite KI, g_cursor_run. predg. rewrite g_text_run. predg.
      change (mem_text (rtext n) (macros st2)) with (mem_macro (rtext n) (macros st2)).
      destruct wanted, (mem_macro (rtext n) (macros st2)); try discriminate TK;
        cbn [IfKind_eqb Bool.eqb andb orb]; cbv beta iota; cbn [macros perr lerr openc set_openc] in RUN2;
        rewrite RUN2; rewrite !app_assoc; reflexivity.
  - inversion H; subst k len st' raw'; clear H. exists (w1 ++ rtext n), s1.
    split; [rewrite <- app_assoc; exact E1|]. split; [exact E2|]. split; [exact LEN|].
    unfold gp_process_if. predg. rewrite RUN. predg. rewrite KI. rewrite !app_assoc.
    destruct wanted; reflexivity.
Qed.

(** * next_token: one step of the generated streaming preprocessor against one step of the hand model *)
Theorem gen_prep_next_conc b s st k len st' raw' :
  prep_next st (raw_lex s) = (k, len, st', raw') ->
  exists w s', s = w ++ s' /\ raw' = raw_lex s' /\ len = bytes w
    /\ gp_next_token (conc b s st) = (FNorm k, conc (b ++ w) s' st').
Proof.
  intros H. rewrite prep_next_eq in H.
  destruct (lex_one s) as [[[k0 eo] a] rest] eqn:L1.
  rewrite (raw_eat_lex st s _ _ _ _ L1) in H. cbn [rk] in H.
  pose proof (lex_one_split _ _ _ _ _ L1) as SP.
  set (t := {| rk := k0; rerr := eo; rtext := a |}) in *.
  assert (HEAD : forall R, @ts_eat R (conc b s st) = (PNorm k0, conc (b ++ a) rest (note_eo st eo))).
  { intros R. pred. rewrite g_eat_run, L1. cbv beta iota delta [outcome]. destruct eo; reflexivity. }
  (* a callee that continues after the directive token *)
  assert (SUB : forall (f : PF TokenKind),
            (exists w s', rest = w ++ s' /\ raw' = raw_lex s' /\ len = rlen t + bytes w
                          /\ f (conc (b ++ a) rest (note_eo st eo)) = (FNorm k, conc ((b ++ a) ++ w) s' st')) ->
            exists w s', s = w ++ s' /\ raw' = raw_lex s' /\ len = bytes w
                          /\ f (conc (b ++ a) rest (note_eo st eo)) = (FNorm k, conc (b ++ w) s' st')).
  { intros f (w & s' & E1 & E2 & E3 & RUN). exists (a ++ w), s'.
    split; [rewrite SP, E1, <- app_assoc; reflexivity|]. split; [exact E2|].
    split; [rewrite bytes_app; unfold rlen in E3; cbn [rtext t] in E3; exact E3|].
    rewrite RUN, app_assoc. reflexivity. }
  (* a result delivered right after the first token *)
  assert (ONE : forall k1 st1, (k1, rlen t, st1, raw_lex rest) = (k, len, st', raw') ->
            forall g, g = (FNorm k1, conc (b ++ a) rest st1) ->
            exists w s', s = w ++ s' /\ raw' = raw_lex s' /\ len = bytes w /\ g = (FNorm k, conc (b ++ w) s' st')).
  { intros k1 st1 E g ->. injection E as <- <- <- <-. exists a, rest. split; [exact SP|]. repeat split. }
  unfold gp_next_token, pfn_body, pbind at 1. rewrite HEAD. cbv beta iota.
  destruct (tk_eqb k0 T_Ifdef) eqn:K1.
  { unfold call. destruct (SUB (gp_process_if IfKind_Defined) (gp_process_if_run _ _ _ _ true _ _ _ _ H))
      as (w & s' & E1 & E2 & E3 & RUN). exists w, s'. rewrite RUN. auto. }
  destruct (tk_eqb k0 T_Ifndef) eqn:K2.
  { unfold call. destruct (SUB (gp_process_if IfKind_NotDefined) (gp_process_if_run _ _ _ _ false _ _ _ _ H))
      as (w & s' & E1 & E2 & E3 & RUN). exists w, s'. rewrite RUN. auto. }
  destruct (tk_eqb k0 T_Else) eqn:K3.
  { unfold call. destruct (SUB gp_process_else (gp_process_else_run _ _ _ _ _ _ _ _ H))
      as (w & s' & E1 & E2 & E3 & RUN). exists w, s'. rewrite RUN. auto. }
  destruct (tk_eqb k0 T_Endif) eqn:K4.
  { eapply ONE; [exact H|]. rewrite N.pred_sub. predg. reflexivity. }
  destruct (tk_eqb k0 T_Define) eqn:K5.
  { unfold call. destruct (SUB gp_process_define (gp_process_define_run _ _ _ _ _ _ _ _ H))
      as (w & s' & E1 & E2 & E3 & RUN). exists w, s'. rewrite RUN. auto. }
  destruct (tk_eqb k0 T_Eof) eqn:K6.
  { unfold at_eof in H. predg. pose proof (LexBasics.tk_eqb_eq _ _ K6) as KK.
    destruct (0 <? openc (note_eo st eo)) eqn:OP; (eapply ONE; [exact H|]); rewrite ?KK; reflexivity. }
  eapply ONE; [exact H|]. reflexivity.
Qed.

(** the statement with the simulation relation spelt out: from related states one call of the generated
    `next_token` returns the kind the hand model delivers, consumes exactly [len] bytes of the text and ends in a
    related state whose remaining text has the remaining raw tokens *)
Theorem gen_prep_next_eq g st s k len st' raw' :
  sim g st s -> prep_next st (raw_lex s) = (k, len, st', raw') ->
  exists g' w s', gp_next_token g = (FNorm k, g') /\ sim g' st' s' /\ raw' = raw_lex s'
    /\ s = w ++ s' /\ len = bytes w
    /\ sc_cursor (l_s (p_ts g')) = sc_cursor (l_s (p_ts g)) + len.
Proof.
  intros S H. apply sim_conc in S. destruct S as (b & ->).
  destruct (gen_prep_next_conc b s st _ _ _ _ H) as (w & s' & E1 & E2 & E3 & RUN).
  exists (conc (b ++ w) s' st'), w, s'. split; [exact RUN|]. split; [apply sim_conc; exists (b ++ w); reflexivity|].
  split; [exact E2|]. split; [exact E1|]. split; [exact E3|].
  cbn. rewrite bytes_app, E3. reflexivity.
Qed.

(** * The whole stream *)
Lemma gp_cursor_run b s st : gp_cursor (conc b s st) = (FNorm (bytes b), conc b s st).
Proof. reflexivity. Qed.

Lemma gp_eat_run b s st k len st' raw' :
  prep_next st (raw_lex s) = (k, len, st', raw') ->
  exists w s', s = w ++ s' /\ raw' = raw_lex s' /\ len = bytes w
    /\ gp_eat (conc b s st) = (FNorm k, conc (b ++ w) s' st').
Proof.
  intros H. destruct (gen_prep_next_conc b s st _ _ _ _ H) as (w & s' & E1 & E2 & E3 & RUN).
  exists w, s'. repeat (split; [assumption|]). unfold gp_eat, pfn_body, call. rewrite RUN. reflexivity.
Qed.

(** PreProcessor::take_error: own slot first, else the lexer's *)
Lemma gp_take_error_run b s st :
  gp_take_error (conc b s st)
  = (FNorm (option_map any_err_msg (fst (take_error st))), conc b s (snd (take_error st))).
Proof.
  unfold take_error. destruct st as [ms pe le o]. cbn [perr lerr macros openc].
  destruct pe as [pe|]; [reflexivity|]. predg. cbn [perr lerr macros openc option_map]. rewrite g_take_error_run.
  destruct le as [le|]; reflexivity.
Qed.

Lemma macros_of_conc b s st : macros_of (conc b s st) = macros st.
Proof. reflexivity. Qed.

Lemma gp_drive_eq n : forall b s st,
  gp_drive n (conc b s st) = (map prep_view (prep_all n st (raw_lex s)), macros (prep_final n st (raw_lex s))).
Proof.
  induction n as [|n IH]; intros b s st; [reflexivity|].
  rewrite prep_all_unfold, prep_final_unfold. cbn [gp_drive].
  rewrite gp_cursor_run. cbn [frun].
  destruct (prep_next st (raw_lex s)) as [[[k len] st1] r1] eqn:HN.
  destruct (gp_eat_run b s st _ _ _ _ HN) as (w & s' & E1 & E2 & E3 & RUN).
  rewrite RUN. cbn [frun]. rewrite gp_cursor_run. cbn [frun].
  replace (bytes (b ++ w) - bytes b) with len by (rewrite bytes_app; lia).
  destruct (tk_eqb k T_Eof) eqn:KE.
  - destruct (tk_eqb k T_Error) eqn:KR.
    + apply LexBasics.tk_eqb_eq in KE, KR. congruence.
    + rewrite macros_of_conc. reflexivity.
  - destruct (tk_eqb k T_Error) eqn:KR.
    + rewrite gp_take_error_run. cbn [frun]. destruct (take_error st1) as [e st2] eqn:TE. cbn [fst snd].
      subst r1. rewrite IH. reflexivity.
    + subst r1. rewrite IH. reflexivity.
Qed.

(** the fuel: both `characters + 2` and `raw tokens + 2` suffice for the hand model *)
Lemma prep_fuel_irrelevant st raw n m : (List.length raw + 2 <= n)%nat -> (List.length raw + 2 <= m)%nat ->
  prep_all n st raw = prep_all m st raw /\ prep_final n st raw = prep_final m st raw.
Proof.
  intros N M. destruct (pruns_total st raw) as (l & stf & R).
  destruct (pruns_all3 _ _ _ _ R n N) as (A1 & _ & C1). destruct (pruns_all3 _ _ _ _ R m M) as (A2 & _ & C2).
  split; congruence.
Qed.

Theorem gen_prep_run_eq txt : gen_prep_run txt = (map prep_view (prep_text txt), prep_macros txt).
Proof.
  unfold gen_prep_run, prep_text, prep_macros.
  change (gp_new (g_new txt)) with (conc [] txt pinit). rewrite gp_drive_eq.
  pose proof (raw_lex_length txt) as LE.
  destruct (prep_fuel_irrelevant pinit (raw_lex txt) (Datatypes.S (Datatypes.S (List.length txt)))
              (Datatypes.S (Datatypes.S (List.length (raw_lex txt)))) ltac:(lia) ltac:(lia)) as [-> ->].
  reflexivity.
Qed.

(** driving the generated TokenStream functions of the preprocessor over the generated lexer as prepdump.rs /
    ParserBase do yields, for EVERY text, the entries of the hand model (kind, byte length, error message) ... *)
Theorem gen_prep_text_eq txt : gen_prep_text txt = map prep_view (prep_text txt).
Proof. unfold gen_prep_text. rewrite gen_prep_run_eq. reflexivity. Qed.

(** ... and the final macro set of the hand model *)
Theorem gen_prep_macros_eq txt : gen_prep_macros txt = prep_macros txt.
Proof. unfold gen_prep_macros. rewrite gen_prep_run_eq. reflexivity. Qed.

(** non-vacuity of the simulation: related states exist for every hand state and text *)
Example sim_nonvacuous : sim (gp_new (g_new [35; 105; 102; 100; 101; 102; 32; 65])) pinit [35; 105; 102; 100; 101; 102; 32; 65]
  /\ exists k len st' raw', prep_next pinit (raw_lex [35; 105; 102; 100; 101; 102; 32; 65]) = (k, len, st', raw')
       /\ k = T_PreProcessor /\ len = 8 /\ openc st' = 1.
Proof.
  split; [exists []; repeat split|]. do 4 eexists. split; [vm_compute; reflexivity|]. repeat split.
Qed.
