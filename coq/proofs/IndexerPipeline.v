(** IndexerPipeline (group symmap): the Core-fragment theorems of the indexer bridge (proofs/IndexerRanges.v) composed
    with the model pipeline of builder "bridge" (model/Pipeline.v: texts -> modelled parser -> tree -> CoreAst;
    proofs/PipelineProofs.v, proofs/BridgeSymbol.v).  For EVERY analysis of the model pipeline that yields a Core
    workspace, every range stored in or returned from the symbol-map state the indexer model stands for is valid in the
    texts of the analysis: no hypothesis on the AST, none on an op log. *)
From Coq Require Import List NArith Bool Lia.
From TG.Model Require Import CoreAst CoreParts AstToCore Scope Indexer IndexerOps Pipeline.
From TG.Model Require SymbolMap SymbolWf.
From TG.Proofs Require Import PipelineProofs BridgeSymbol.
From TG.Proofs Require IndexerRanges.
Import ListNotations.
Open Scope N_scope.

Lemma pipeline_ranges_hyp : forall pfuel cfuel files root a w,
  analyze pfuel cfuel files root = Some a -> an_core a = Ok w ->
  forall g body, nthN (ws_files w) g = Some body ->
    Forall (fun r => SymbolWf.range_valid (an_texts a) (SymbolMap.mkFR g (r_lo r) (r_hi r)) = true) (file_rngs body).
Proof.
  intros pfuel cfuel files root a w A E g body Hn. unfold nthN in Hn.
  destruct (pipeline_symbol_side_conditions _ _ _ _ _ _ A E) as [_ H]. destruct (H _ _ Hn) as [_ HR].
  destruct (analyze_wf _ _ _ _ _ _ A E) as [HL HW].
  assert (Ht : exists txt, nth_error (map (fun fp => pf_text (snd fp)) (an_files a)) (N.to_nat g) = Some txt).
  { destruct (nth_error (map (fun fp => pf_text (snd fp)) (an_files a)) (N.to_nat g)) as [txt|] eqn:Et; [exists txt; reflexivity|].
    apply nth_error_None in Et. assert (Hlt : (N.to_nat g < List.length (ws_files w))%nat) by (apply nth_error_Some; congruence). lia. }
  destruct Ht as [txt Ht]. destruct (HW _ _ _ Hn Ht) as [HF _].
  rewrite Forall_forall in *. intros r Hr. specialize (HR r Hr). destruct (HF r Hr) as [Hfile _].
  rewrite Hfile, Nnat.N2Nat.id in HR. exact HR.
Qed.

Theorem c17_pipeline_core : forall pfuel cfuel files root a w,
  analyze pfuel cfuel files root = Some a -> an_core a = Ok w ->
  let S := abs (index_ws w) in
  let ws := an_texts a in
  (forall f p t, SymbolMap.goto_definition S f p = SymbolMap.SOk (Some t) -> SymbolWf.range_valid ws t = true) /\
  (forall f p rs r, SymbolMap.references S f p = SymbolMap.SOk (Some rs) -> In r rs -> SymbolWf.range_valid ws r = true) /\
  (forall loc l r s, SymbolMap.iter_symbols_in_range S loc = SymbolMap.SOk (Some l) -> In (r, s) l -> SymbolWf.range_valid ws r = true) /\
  (forall s e, SymbolMap.get_entry S s = Some e ->
     SymbolWf.range_valid ws (SymbolMap.e_def e) = true /\ forall r, In r (SymbolMap.e_refs e) -> SymbolWf.range_valid ws r = true) /\
  (forall d, In d (SymbolMap.sm_diags S) -> SymbolWf.range_valid ws d = true).
Proof.
  intros pfuel cfuel files root a w A E. apply IndexerRanges.c17_symbol_ranges_valid_core.
  eapply pipeline_ranges_hyp; eassumption.
Qed.
Print Assumptions c17_pipeline_core.

(** non-vacuity: the pipeline on a Core program (class with a template argument and a field; def with a parent and a
    `let`): the analysis succeeds, the workspace is Core, and the symbol-map state answers *)
Definition pipe_ex_path : list N := [97;46;116;100].
Definition pipe_ex_w : option workspace :=
  match analyze 200 10 [(pipe_ex_path, BridgeText.bridge_example_text)] pipe_ex_path with
  | Some a => match an_core a with Ok w => Some w | _ => None end
  | None => None
  end.
Definition pipe_ex_w_val : option workspace := Eval vm_compute in pipe_ex_w.
Lemma pipe_ex_w_eq : pipe_ex_w = pipe_ex_w_val.
Proof. vm_compute. reflexivity. Qed.
Lemma pipe_ex_from : forall w0, pipe_ex_w = Some w0 ->
  exists a, analyze 200 10 [(pipe_ex_path, BridgeText.bridge_example_text)] pipe_ex_path = Some a /\ an_core a = Ok w0.
Proof.
  unfold pipe_ex_w. intros w0 H.
  destruct (analyze 200 10 [(pipe_ex_path, BridgeText.bridge_example_text)] pipe_ex_path) as [a|]; [|discriminate].
  exists a. split; [reflexivity|]. destruct (an_core a); try discriminate. inversion H. reflexivity.
Qed.
Example c17_pipeline_nonvacuous :
  exists a w, analyze 200 10 [(pipe_ex_path, BridgeText.bridge_example_text)] pipe_ex_path = Some a /\ an_core a = Ok w /\
    SymbolMap.goto_definition (abs (index_ws w)) 0 38 = SymbolMap.SOk (Some (SymbolMap.mkFR 0 6 7)) /\
    SymbolMap.references (abs (index_ws w)) 0 6 = SymbolMap.SOk (Some [SymbolMap.mkFR 0 38 39]) /\
    SymbolMap.goto_definition (abs (index_ws w)) 0 25 = SymbolMap.SOk (Some (SymbolMap.mkFR 0 12 13)).
Proof.
  pose proof pipe_ex_w_eq as H. unfold pipe_ex_w_val in H.
  match type of H with _ = Some ?w0 => destruct (pipe_ex_from w0 H) as (a & A & E); exists a, w0 end.
  split; [exact A|]. split; [exact E|]. vm_compute. repeat split.
Qed.
Print Assumptions c17_pipeline_nonvacuous.

(** ---- C06 composed with the model pipeline: the identifiers of every file of the Core workspace are identifier tokens of
    that file (BridgeSymbol.pipeline_symbol_side_conditions + PipelineProofs.analyze_wf), in the structural form the
    traversal of proofs/IndexerCoh.v consumes (proofs/IndexerCohFlat.v) *)
From TG.Model Require Import BridgeToks.
From TG.Proofs Require IndexerCoh IndexerCohFlat.

Lemma pipeline_stmt_ok : forall pfuel cfuel files root a w,
  analyze pfuel cfuel files root = Some a -> an_core a = Ok w ->
  forall g body, nthN (ws_files w) g = Some body ->
    Forall (IndexerCoh.stmt_ok (ws_id_toks (an_trees a)) g) body.
Proof.
  intros pfuel cfuel files root a w A E g body Hn. unfold nthN in Hn.
  destruct (pipeline_symbol_side_conditions _ _ _ _ _ _ A E) as [_ H]. destruct (H _ _ Hn) as [HI _].
  destruct (analyze_wf _ _ _ _ _ _ A E) as [HL HW].
  assert (Ht : exists txt, nth_error (map (fun fp => pf_text (snd fp)) (an_files a)) (N.to_nat g) = Some txt).
  { destruct (nth_error (map (fun fp => pf_text (snd fp)) (an_files a)) (N.to_nat g)) as [txt|] eqn:Et; [exists txt; reflexivity|].
    apply nth_error_None in Et. assert (Hlt : (N.to_nat g < List.length (ws_files w))%nat) by (apply nth_error_Some; congruence). lia. }
  destruct Ht as [txt Ht]. destruct (HW _ _ _ Hn Ht) as (_ & HF & _).
  apply IndexerCohFlat.stmts_ok_of_idents. rewrite Forall_forall in *. intros i Hi.
  destruct (HI i Hi) as [_ Htok]. destruct (HF i Hi) as [Hfile _]. unfold IndexerCoh.id_ok.
  rewrite Hfile, Nnat.N2Nat.id in Htok. exact Htok.
Qed.

Theorem c06_pipeline_core : forall pfuel cfuel files root a w,
  analyze pfuel cfuel files root = Some a -> an_core a = Ok w ->
  let toks := ws_id_toks (an_trees a) in
  let s := index_ws w in
  log_fresh s = true ->
  forall f p t, SymbolMap.goto_definition (abs s) f p = SymbolMap.SOk (Some t) ->
  exists c n rs,
    SymbolWf.tok_name toks c = Some n /\ (SymbolMap.fr_file c = f /\ SymbolMap.fr_lo c <= p /\ p < SymbolMap.fr_hi c) /\
    (forall c' n', In (c', n') toks -> (SymbolMap.fr_file c' = f /\ SymbolMap.fr_lo c' <= p /\ p < SymbolMap.fr_hi c') -> c' = c) /\
    SymbolWf.tok_name toks t = Some n /\
    SymbolMap.references (abs s) f p = SymbolMap.SOk (Some rs) /\
    (forall r, In r rs -> SymbolWf.tok_name toks r = Some n /\
       forall q, SymbolMap.fr_lo r <= q -> q < SymbolMap.fr_hi r ->
         SymbolMap.goto_definition (abs s) (SymbolMap.fr_file r) q = SymbolMap.SOk (Some t)) /\
    (t = c \/ In c rs).
Proof.
  intros pfuel cfuel files root a w A E toks s. apply IndexerCoh.c06_coherent_core.
  - apply ws_id_toks_sorted.
  - eapply pipeline_stmt_ok; eassumption.
Qed.
Print Assumptions c06_pipeline_core.

(** non-vacuity: the example analysis above satisfies the remaining hypothesis [log_fresh] *)
Example c06_pipeline_nonvacuous :
  exists a w, analyze 200 10 [(pipe_ex_path, BridgeText.bridge_example_text)] pipe_ex_path = Some a /\ an_core a = Ok w /\
    log_fresh (index_ws w) = true /\
    SymbolMap.goto_definition (abs (index_ws w)) 0 58 = SymbolMap.SOk (Some (SymbolMap.mkFR 0 49 50)).
Proof.
  pose proof pipe_ex_w_eq as H. unfold pipe_ex_w_val in H.
  match type of H with _ = Some ?w0 => destruct (pipe_ex_from w0 H) as (a & A & E); exists a, w0 end.
  split; [exact A|]. split; [exact E|]. vm_compute. repeat split.
Qed.
Print Assumptions c06_pipeline_nonvacuous.

(** ---- the last hypothesis: [log_fresh] from the linearity of the bridge (BridgeNoDup.pipeline_idents_nodup, builder
    "bridge": the identifier ranges of each file's CoreAst are pairwise distinct) and proofs/IndexerFresh.v *)
From TG.Proofs Require BridgeNoDup IndexerFresh.

Lemma pipeline_keys_nodup : forall pfuel cfuel files root a w,
  analyze pfuel cfuel files root = Some a -> an_core a = Ok w ->
  forall g body, nthN (ws_files w) g = Some body -> NoDup (IndexerFresh.keys g (flat_map stmt_parts body)).
Proof.
  intros pfuel cfuel files root a w A E g body Hn. unfold nthN in Hn.
  pose proof (BridgeNoDup.pipeline_idents_nodup _ _ _ _ _ _ A E _ _ Hn) as Hnd.
  destruct (analyze_wf _ _ _ _ _ _ A E) as [HL HW].
  assert (Ht : exists txt, nth_error (map (fun fp => pf_text (snd fp)) (an_files a)) (N.to_nat g) = Some txt).
  { destruct (nth_error (map (fun fp => pf_text (snd fp)) (an_files a)) (N.to_nat g)) as [txt|] eqn:Et; [exists txt; reflexivity|].
    apply nth_error_None in Et. assert (Hlt : (N.to_nat g < List.length (ws_files w))%nat) by (apply nth_error_Some; congruence). lia. }
  destruct Ht as [txt Ht]. destruct (HW _ _ _ Hn Ht) as (_ & HF & _).
  rewrite IndexerFresh.keys_file_idents.
  replace (map (fun i => IndexerFresh.tagr g (i_rng i)) (file_idents body)) with (map i_rng (file_idents body)); [exact Hnd|].
  apply map_ext_in. intros i Hi. rewrite Forall_forall in HF. destruct (HF i Hi) as [Hfile _].
  unfold IndexerFresh.tagr. rewrite Nnat.N2Nat.id in Hfile. rewrite <- Hfile. destruct (i_rng i); reflexivity.
Qed.

Theorem pipeline_log_fresh : forall pfuel cfuel files root a w,
  analyze pfuel cfuel files root = Some a -> an_core a = Ok w -> log_fresh (index_ws w) = true.
Proof.
  intros pfuel cfuel files root a w A E. apply IndexerFresh.index_ws_log_fresh. eapply pipeline_keys_nodup; eassumption.
Qed.

(** C06 for the model pipeline, NO hypothesis left *)
Theorem c06_pipeline : forall pfuel cfuel files root a w,
  analyze pfuel cfuel files root = Some a -> an_core a = Ok w ->
  let toks := ws_id_toks (an_trees a) in
  let s := index_ws w in
  forall f p t, SymbolMap.goto_definition (abs s) f p = SymbolMap.SOk (Some t) ->
  exists c n rs,
    SymbolWf.tok_name toks c = Some n /\ (SymbolMap.fr_file c = f /\ SymbolMap.fr_lo c <= p /\ p < SymbolMap.fr_hi c) /\
    (forall c' n', In (c', n') toks -> (SymbolMap.fr_file c' = f /\ SymbolMap.fr_lo c' <= p /\ p < SymbolMap.fr_hi c') -> c' = c) /\
    SymbolWf.tok_name toks t = Some n /\
    SymbolMap.references (abs s) f p = SymbolMap.SOk (Some rs) /\
    (forall r, In r rs -> SymbolWf.tok_name toks r = Some n /\
       forall q, SymbolMap.fr_lo r <= q -> q < SymbolMap.fr_hi r ->
         SymbolMap.goto_definition (abs s) (SymbolMap.fr_file r) q = SymbolMap.SOk (Some t)) /\
    (t = c \/ In c rs).
Proof.
  intros pfuel cfuel files root a w A E toks s. apply (c06_pipeline_core pfuel cfuel files root a w A E).
  eapply pipeline_log_fresh; eassumption.
Qed.
Print Assumptions c06_pipeline.

(** C06 for the Core fragment with hypotheses on the AST only *)
Theorem c06_coherent_core_ast : forall toks (w : workspace),
  SymbolWf.toks_sorted toks = true ->
  (forall g body, nthN (ws_files w) g = Some body -> Forall (IndexerCoh.stmt_ok toks g) body) ->
  (forall g body, nthN (ws_files w) g = Some body ->
     NoDup (map (fun i => mkR g (r_lo (i_rng i)) (r_hi (i_rng i))) (file_idents body))) ->
  let s := index_ws w in
  forall f p t, SymbolMap.goto_definition (abs s) f p = SymbolMap.SOk (Some t) ->
  exists c n rs,
    SymbolWf.tok_name toks c = Some n /\ (SymbolMap.fr_file c = f /\ SymbolMap.fr_lo c <= p /\ p < SymbolMap.fr_hi c) /\
    (forall c' n', In (c', n') toks -> (SymbolMap.fr_file c' = f /\ SymbolMap.fr_lo c' <= p /\ p < SymbolMap.fr_hi c') -> c' = c) /\
    SymbolWf.tok_name toks t = Some n /\
    SymbolMap.references (abs s) f p = SymbolMap.SOk (Some rs) /\
    (forall r, In r rs -> SymbolWf.tok_name toks r = Some n /\
       forall q, SymbolMap.fr_lo r <= q -> q < SymbolMap.fr_hi r ->
         SymbolMap.goto_definition (abs s) (SymbolMap.fr_file r) q = SymbolMap.SOk (Some t)) /\
    (t = c \/ In c rs).
Proof.
  intros toks w Ht Hok Hnd s. apply (IndexerCoh.c06_coherent_core toks w Ht Hok).
  apply IndexerFresh.index_ws_log_fresh_idents. exact Hnd.
Qed.
Print Assumptions c06_coherent_core_ast.
