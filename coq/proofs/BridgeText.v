(** The bridge composed with the modelled parser of the CURRENT grammar (gen/GenGrammar.v): statements about
    text -> tree -> CoreAst, obtained from proofs/BridgeProofs.v and the parser theorems C01_lossless / C02_total
    (proofs/ParserTop.v). *)
From Coq Require Import List NArith Bool String PeanoNat Lia.
From TG.Gen Require Import GenTokens GenAst GenGrammar.
From TG.Model Require Import Chars Lexer Prep Tree ParserPrims GInterp AstAccess CoreAst AstToCore CoreParts.
From TG.Model Require TreeNav Folding Pipeline.
From TG.Proofs Require Import ParserTile GTile ParserTop BridgeProofs ShapeSound.
Import ListNotations.
Close Scope string_scope.
Open Scope N_scope.
Open Scope list_scope.

(** text -> CoreAst of one file: parse with the regenerated grammar, then the bridge *)
Definition core_of_text (fuel : nat) (file : N) (links : list (N * N * N)) (txt : text) : option (res (list stmt)) :=
  match parse_with fuel grammar_prog grammar_entry txt with
  | ParseOk t _ _ => Some (core_of_tree file links t)
  | _ => None
  end.

(** (a) in the TEXT: every range of the Core AST (identifier ranges included) delimits a slice of the parsed text:
    lo = bytes of a prefix (a character boundary), hi = lo + bytes of the slice *)
Theorem core_ranges_in_text : forall fuel file links txt ss,
  core_of_text fuel file links txt = Some (Ok ss) ->
  Forall (fun r => r_file r = file /\ slice_of txt (r_lo r) (r_hi r)) (file_rngs ss).
Proof.
  intros fuel file links txt ss E. unfold core_of_text in E.
  destruct (parse_with fuel grammar_prog grammar_entry txt) as [t errs st| |] eqn:P; try discriminate.
  inversion E as [E']. destruct (grammar_lossless _ _ _ _ _ P) as (T & _). rewrite <- T.
  eapply core_ranges_slices. exact E'.
Qed.

(** (b) in the TEXT: every identifier of the Core AST is a token of the parse tree with exactly its range and
    its text, and that text is the slice of the parsed text at its range *)
Theorem core_idents_in_text : forall fuel file links txt ss,
  core_of_text fuel file links txt = Some (Ok ss) ->
  Forall (fun i => r_file (i_rng i) = file /\
                   exists pre suf, txt = pre ++ i_name i ++ suf /\ r_lo (i_rng i) = bytes pre /\
                                   r_hi (i_rng i) = bytes pre + bytes (i_name i)) (file_idents ss).
Proof.
  intros fuel file links txt ss E. unfold core_of_text in E.
  destruct (parse_with fuel grammar_prog grammar_entry txt) as [t errs st| |] eqn:P; try discriminate.
  inversion E as [E']. destruct (grammar_lossless _ _ _ _ _ P) as (T & _). rewrite <- T.
  pose proof (core_of_tree_safe file links t) as H. rewrite E' in H. cbn [safe] in H.
  unfold file_idents. apply forall_flat_map_parts. eapply Forall_impl; [|exact H]. intros [r|i]; [intros; exact I|].
  cbn [part_ok]. intros (F & x & o & k & tx & S & _ & Tk & L & Hh & Nm). split; [exact F|].
  destruct (first_token_sub t x _ S Tk) as (S' & _). destruct (sub_slice t _ S') as (pre & suf & Et & Eo).
  cbn [fst snd tree_text] in Et, Eo. exists pre, suf. rewrite Nm, L, Hh, Eo. auto.
Qed.

(** (c) totality of text -> CoreAst: for EVERY text there is a fuel with which the parser of the current grammar
    returns a tree, and on that tree the bridge returns a Core AST or a "noncore" reason (never out of fuel);
    more parser fuel does not change the answer *)
Theorem core_of_text_total : forall file links txt,
  exists fuel, (exists ss, core_of_text fuel file links txt = Some (Ok ss)) \/
               (exists why, core_of_text fuel file links txt = Some (Err why)).
Proof.
  intros file links txt. destruct (grammar_total txt) as (fuel & t & errs & st & P). exists fuel.
  unfold core_of_text. rewrite P. destruct (core_of_tree file links t) as [ss|why|] eqn:E.
  - left. exists ss. reflexivity.
  - right. exists why. reflexivity.
  - exfalso. eapply core_of_tree_total. exact E.
Qed.

(** Non-vacuity: a Core program with a class, template argument, field, def with parent and a bang operator goes
    through parser + bridge to a Core AST with 2 statements, 8 identifier occurrences, and satisfies [ident_shape] *)
Definition bridge_example_text : text :=
  [99;108;97;115;115;32;65;60;105;110;116;32;120;62;32;123;32;105;110;116;32;121;32;61;32;120;59;32;125;10;
   100;101;102;32;100;32;58;32;65;60;49;62;32;123;32;108;101;116;32;121;32;61;32;33;97;100;100;40;121;44;32;50;41;59;32;125;10].
Example bridge_nonvacuous :
  exists t errs st ss,
    parse_with 200 grammar_prog grammar_entry bridge_example_text = ParseOk t errs st /\ errs = [] /\
    ident_shape t = true /\
    core_of_tree 0 [] t = Ok ss /\ List.length ss = 2%nat /\ List.length (file_idents ss) = 8%nat.
Proof.
  destruct (parse_with 200 grammar_prog grammar_entry bridge_example_text) as [t errs st| |] eqn:P;
    [|vm_compute in P; discriminate P|vm_compute in P; discriminate P].
  exists t, errs, st.
  assert (Q : (match parse_with 200 grammar_prog grammar_entry bridge_example_text with
               | ParseOk t0 e0 _ => match e0 with [] => true | _ => false end && ident_shape t0 &&
                                    match core_of_tree 0 [] t0 with
                                    | Ok ss => Nat.eqb (List.length ss) 2 && Nat.eqb (List.length (file_idents ss)) 8
                                    | _ => false end
               | _ => false end) = true) by (vm_compute; reflexivity).
  rewrite P in Q. destruct errs; [|discriminate Q]. cbn [andb] in Q.
  destruct (ident_shape t); [|discriminate Q]. cbn [andb] in Q.
  destruct (core_of_tree 0 [] t) as [ss| |]; try discriminate Q. exists ss.
  apply andb_true_iff in Q. destruct Q as [Q1 Q2]. apply Nat.eqb_eq in Q1, Q2. auto 10.
Qed.

(** the link range of model/Pipeline.v is the range_excluding_trivia of group outline's model/Folding.v *)
Lemma last_opt_cons_some {A} : forall (l : list A) x, exists y, TreeNav.last_opt (x :: l) = Some y.
Proof.
  induction l as [|z l IH]; intros x; [exists x; reflexivity|].
  destruct (IH z) as (y & E). exists y. change (TreeNav.last_opt (x :: z :: l)) with (TreeNav.last_opt (z :: l)). exact E.
Qed.

Lemma last_sig_filter : forall ls acc,
  Pipeline.last_sig ls acc =
  match TreeNav.last_opt (filter Folding.sig_token ls) with Some l => Some (TreeNav.lf_hi l) | None => acc end.
Proof.
  induction ls as [|[[[k lo] hi] tx] r IH]; intros acc; [reflexivity|].
  assert (E : Folding.sig_token (k, lo, hi, tx) = negb (sk_is_trivia k) && negb (lo =? hi)) by reflexivity.
  cbn [Pipeline.last_sig filter]. rewrite IH, E.
  destruct (negb (sk_is_trivia k) && negb (lo =? hi)); [|reflexivity].
  destruct (filter Folding.sig_token r) as [|l0 r0] eqn:F; [reflexivity|].
  change (TreeNav.last_opt ((k, lo, hi, tx) :: l0 :: r0)) with (TreeNav.last_opt (l0 :: r0)).
  destruct (last_opt_cons_some r0 l0) as (y & ->). reflexivity.
Qed.
Theorem link_range_folding : forall off t, Pipeline.range_excluding_trivia off t = Folding.range_excluding_trivia off t.
Proof.
  intros off t. unfold Pipeline.range_excluding_trivia, Folding.range_excluding_trivia. rewrite last_sig_filter.
  destruct (TreeNav.last_opt _); reflexivity.
Qed.

(** (b'), unconditional for the parser of the current grammar: every identifier of the Core AST is an [Id] TOKEN of
    the parse tree, with exactly its range and its text ([ident_shape] is a theorem about every parse:
    ShapeSound.grammar_ident_shape, from the syntactic check ShapeChk.shape_chk_prog on gen/GenGrammar.v) *)
Theorem core_idents_are_id_tokens_parsed : forall fuel file links txt t errs st ss,
  parse_with fuel grammar_prog grammar_entry txt = ParseOk t errs st ->
  core_of_tree file links t = Ok ss ->
  Forall (fun i => r_file (i_rng i) = file /\
                   In (S_Id, r_lo (i_rng i), r_hi (i_rng i), i_name i) (leaves t)) (file_idents ss).
Proof.
  intros fuel file links txt t errs st ss P E. eapply core_idents_are_id_tokens; [|exact E].
  eapply grammar_ident_shape. exact P.
Qed.

(** "a program without syntax errors is Core" is FALSE in general: a bits length >= 2^63 parses without errors
    (the lexer accepts every u64) and is refused by the bridge, exactly as coreast.rs refuses it
    (`Integer::value` wraps to a negative i64).  So error-free programs are Core only up to such semantic
    refusals; the self-test observes that these are the only ones on its inputs. *)
Definition bridge_refusal_text : text := [100;101;102;32;100;32;123;32;98;105;116;115;60;49;56;52;52;54;55;52;52;48;55;51;55;48;57;53;53;49;54;49;53;62;32;97;59;32;125].
Example error_free_not_core_refuted :
  exists t st, parse_with 200 grammar_prog grammar_entry bridge_refusal_text = ParseOk t [] st /\
               core_of_tree 0 [] t = Err "negative bits length"%string.
Proof.
  destruct (parse_with 200 grammar_prog grammar_entry bridge_refusal_text) as [t errs st| |] eqn:P;
    [|vm_compute in P; discriminate P|vm_compute in P; discriminate P].
  assert (Q : (match parse_with 200 grammar_prog grammar_entry bridge_refusal_text with
               | ParseOk t0 e0 _ => match e0 with [] => true | _ => false end &&
                                    match core_of_tree 0 [] t0 with
                                    | Err why => String.eqb why "negative bits length" | _ => false end
               | _ => false end) = true) by (vm_compute; reflexivity).
  rewrite P in Q. destruct errs; [|discriminate Q]. cbn [andb] in Q. exists t, st. split; [reflexivity|].
  destruct (core_of_tree 0 [] t) as [ss|why|]; try discriminate Q. apply String.eqb_eq in Q. subst. reflexivity.
Qed.
