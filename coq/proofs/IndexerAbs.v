(** IndexerAbs (group symmap, bridge to group scope): how the abstraction [abs] (model/IndexerOps.v) of an indexer-model
    state changes under each table-changing primitive of Scope.v, in exactly the form the symbol-map invariant
    lemmas (coh_alloc_keyed, coh_alloc_unkeyed, coh_reference, coh_frame of proofs/SymbolCoh.v) consume:
    pointwise characterisations of [get_entry (abs s')] and [posf (abs s')] in terms of [abs s]. *)
From Coq Require Import List Arith NArith Bool Lia.
From TG.Model Require Import CoreAst Scope BangOps Indexer IndexerOps.
From TG.Model Require SymbolMap SymbolWf.
From TG.Proofs Require Import IndexerValid IndexerSim.
From TG.Proofs Require SymbolMapBasics SymbolOps SymbolCoh.
Import ListNotations.
Open Scope N_scope.

Module O := SymbolOps.

(** ---- the leaves arena: position in the kind-filtered list <-> leaf id *)
Definition kfilter (k : leafkind) (l : list (N * leaf)) : list (N * leaf) :=
  filter (fun p => leafkind_eqb (lf_kind (snd p)) k) l.

Lemma leafkind_eqb_eq : forall a b, leafkind_eqb a b = true <-> a = b.
Proof. intros a b. destruct a, b; cbn; split; intros H; try reflexivity; try discriminate. Qed.

Lemma kfilter_nth : forall k ls off n l,
  nth_error ls n = Some l -> lf_kind l = k ->
  nth_error (kfilter k (indexed_from off ls)) (N.to_nat (count_kind k (firstn n ls))) = Some (off + N.of_nat n, l).
Proof.
  intros k. induction ls as [|x r IH]; intros off n l E Hk; destruct n; cbn in E; try discriminate.
  - inversion E. subst x. cbn [indexed_from kfilter filter snd firstn count_kind]. fold (kfilter k).
    rewrite (proj2 (leafkind_eqb_eq _ _) Hk). cbn. rewrite N.add_0_r. reflexivity.
  - cbn [indexed_from kfilter filter snd firstn count_kind]. fold (kfilter k).
    specialize (IH (off + 1) n l E Hk).
    replace (off + N.of_nat (S n)) with (off + 1 + N.of_nat n) by lia.
    destruct (leafkind_eqb (lf_kind x) k).
    + replace (N.to_nat (1 + count_kind k (firstn n r))) with (S (N.to_nat (count_kind k (firstn n r)))) by lia.
      cbn [nth_error]. exact IH.
    + rewrite N.add_0_l. exact IH.
Qed.

Lemma kfilter_nth_inv : forall k ls off j i l,
  nth_error (kfilter k (indexed_from off ls)) j = Some (i, l) ->
  exists n, i = off + N.of_nat n /\ nth_error ls n = Some l /\ lf_kind l = k /\ j = N.to_nat (count_kind k (firstn n ls)).
Proof.
  intros k. induction ls as [|x r IH]; intros off j i l E; cbn in E; [destruct j; discriminate|].
  fold (kfilter k) in E. destruct (leafkind_eqb (lf_kind x) k) eqn:Ek.
  - destruct j as [|j]; cbn in E.
    + inversion E. subst. exists 0%nat. cbn. apply leafkind_eqb_eq in Ek. repeat split; auto. lia.
    + destruct (IH (off + 1) j i l E) as (n & H1 & H2 & H3 & H4). exists (S n). cbn [nth_error firstn count_kind].
      rewrite Ek. repeat split; auto; lia.
  - destruct (IH (off + 1) j i l E) as (n & H1 & H2 & H3 & H4). exists (S n). cbn [nth_error firstn count_kind].
    rewrite Ek. repeat split; auto; lia.
Qed.

Lemma get_arena_leaf : forall s k, SM.get_arena (abs s) (lk_kind k) = arena_leaves s k.
Proof. intros s k. destruct k; reflexivity. Qed.

(** entry of leaf [i] *)
Lemma get_leaf_abs : forall s i l, nthN (s_leaves s) i = Some l ->
  SM.get_entry (abs s) (sid_of s (SyLeaf i)) = Some (leaf_entry s i l).
Proof.
  intros s i l E. cbn [sid_of]. unfold leaf_sid. rewrite E. unfold SM.get_entry, SM.nth_N. cbn [fst snd].
  rewrite get_arena_leaf. unfold arena_leaves. rewrite nth_error_map. fold (kfilter (lf_kind l) (indexed (s_leaves s))).
  unfold indexed. unfold nthN in E. rewrite (kfilter_nth (lf_kind l) (s_leaves s) 0 (N.to_nat i) l E eq_refl).
  cbn. rewrite Nnat.N2Nat.id. reflexivity.
Qed.
(** every entry of a leaves arena is the entry of a leaf *)
Lemma get_leaf_abs_inv : forall s k j e, SM.get_entry (abs s) (lk_kind k, j) = Some e ->
  exists i l, nthN (s_leaves s) i = Some l /\ lf_kind l = k /\ sid_of s (SyLeaf i) = (lk_kind k, j) /\ e = leaf_entry s i l.
Proof.
  intros s k j e E. unfold SM.get_entry, SM.nth_N in E. cbn [fst snd] in E. rewrite get_arena_leaf in E.
  unfold arena_leaves in E. rewrite nth_error_map in E. fold (kfilter k (indexed (s_leaves s))) in E.
  destruct (nth_error (kfilter k (indexed (s_leaves s))) (N.to_nat j)) as [[i l]|] eqn:En; [|discriminate].
  unfold indexed in En. destruct (kfilter_nth_inv _ _ _ _ _ _ En) as (n & H1 & H2 & H3 & H4).
  exists i, l. cbn in E. inversion E. subst e. rewrite N.add_0_l in H1. subst i.
  unfold nthN. rewrite Nnat.Nat2N.id. split; [exact H2|]. split; [exact H3|]. split; [|reflexivity].
  cbn [sid_of]. unfold leaf_sid, nthN. rewrite Nnat.Nat2N.id, H2. subst k. f_equal. lia.
Qed.

Lemma lk_kind_inj : forall a b, lk_kind a = lk_kind b -> a = b.
Proof. intros a b. destruct a, b; cbn; intros H; try reflexivity; discriminate. Qed.
Lemma lk_kind_not_record : forall k, lk_kind k <> SM.KRecord /\ lk_kind k <> SM.KMulticlass.
Proof. intros k. destruct k; split; discriminate. Qed.

(** every symbol id of [abs] is a record, a multiclass or a leaf kind *)
Lemma sym_kind_cases : forall k, k = SM.KRecord \/ k = SM.KMulticlass \/ exists lk, k = lk_kind lk.
Proof.
  intros k. destruct k; [left; reflexivity| | | | |right; left; reflexivity|]; right; right.
  - exists LTArg. reflexivity. - exists LField. reflexivity. - exists LVar. reflexivity.
  - exists LDefset. reflexivity. - exists LDefm. reflexivity.
Qed.

Lemma get_mc_abs : forall s i,
  SM.get_entry (abs s) (SM.KMulticlass, i) = option_map (mc_entry s i) (nthN (s_mcs s) i).
Proof.
  intros s i. unfold SM.get_entry, SM.nth_N. cbn [fst snd abs SM.get_arena SM.sm_multiclasses]. unfold arena_mcs.
  change (nth_error (map (fun p => mc_entry s (fst p) (snd p)) (indexed (s_mcs s))) (N.to_nat i))
    with (nthN (map (fun p => mc_entry s (fst p) (snd p)) (indexed (s_mcs s))) i).
  rewrite nthN_map, nthN_indexed. destruct (nthN (s_mcs s) i); reflexivity.
Qed.

(** [sid_of] is injective on allocated ids *)
Lemma count_kind_firstn_mono : forall k (l : list leaf) a b, (a <= b)%nat -> count_kind k (firstn a l) <= count_kind k (firstn b l).
Proof.
  intros k. induction l as [|x r IH]; intros a b H; destruct a, b; cbn; try lia.
  specialize (IH a b ltac:(lia)). lia.
Qed.
Lemma count_kind_firstn_strict : forall k (l : list leaf) a b x,
  (a < b)%nat -> nth_error l a = Some x -> lf_kind x = k -> count_kind k (firstn a l) < count_kind k (firstn b l).
Proof.
  intros k. induction l as [|y r IH]; intros a b x H E Hk; destruct a; cbn in E; try discriminate.
  - inversion E. subst y. destruct b; [lia|]. cbn. rewrite (proj2 (leafkind_eqb_eq _ _) Hk). lia.
  - destruct b; [lia|]. cbn [firstn count_kind]. specialize (IH a b x ltac:(lia) E Hk). lia.
Qed.
Lemma sid_of_inj : forall s a b, sym_ok s a -> sym_ok s b -> sid_of s a = sid_of s b -> a = b.
Proof.
  intros s a b Ha Hb E.
  assert (Hleaf : forall i, i < nleaf s -> exists l, nthN (s_leaves s) i = Some l).
  { intros i Hi. destruct (nthN (s_leaves s) i) eqn:En; [eauto|]. unfold nthN in En. apply nth_error_None in En.
    unfold nleaf, lenN in Hi. lia. }
  destruct a as [i|i|i], b as [j|j|j]; cbn [sid_of] in E; cbn in Ha, Hb;
    try (inversion E; subst; reflexivity);
    try (destruct (Hleaf _ Hb) as [l El]; unfold leaf_sid in E; rewrite El in E; inversion E as [[Hk _]];
         destruct (lk_kind_not_record (lf_kind l)); congruence);
    try (destruct (Hleaf _ Ha) as [l El]; unfold leaf_sid in E; rewrite El in E; inversion E as [[Hk _]];
         destruct (lk_kind_not_record (lf_kind l)); congruence).
  destruct (Hleaf _ Ha) as [la Ea]. destruct (Hleaf _ Hb) as [lb Eb]. unfold leaf_sid in E. rewrite Ea, Eb in E.
  inversion E as [[Hk Hc]]. apply lk_kind_inj in Hk. f_equal. unfold nthN in Ea, Eb.
  destruct (lt_eq_lt_dec (N.to_nat i) (N.to_nat j)) as [[H|H]|H].
  - pose proof (count_kind_firstn_strict (lf_kind la) _ _ _ _ H Ea eq_refl). rewrite Hk in H0 at 2. lia.
  - lia.
  - pose proof (count_kind_firstn_strict (lf_kind lb) _ _ _ _ H Eb eq_refl). rewrite <- Hk in H0 at 2. lia.
Qed.

(** ---- states with the same tables but for ... : generic comparison of abstractions *)
Lemma reference_locs_same : forall s s' id, s_refs s' = s_refs s -> reference_locs s' id = reference_locs s id.
Proof. intros s s' id H. unfold reference_locs. rewrite H. reflexivity. Qed.

Lemma leaf_sid_app : forall ls l i, i < lenN ls -> leaf_sid (ls ++ [l]) i = leaf_sid ls i.
Proof.
  intros ls l i H. unfold leaf_sid, nthN, lenN in *. rewrite nth_error_app1 by lia.
  destruct (nth_error ls (N.to_nat i)); [|reflexivity]. rewrite firstn_app.
  replace (N.to_nat i - length ls)%nat with 0%nat by lia. cbn. rewrite app_nil_r. reflexivity.
Qed.

Lemma map_leaf_ids_ext : forall s s' m,
  (forall e, In e m -> sid_of s' (SyLeaf (snd e)) = sid_of s (SyLeaf (snd e))) -> map_leaf_ids s' m = map_leaf_ids s m.
Proof. intros s s' m H. unfold map_leaf_ids. apply map_ext_in. intros e He. rewrite (H e He). reflexivity. Qed.

(** ---- the position log *)
Lemma posf_abs : forall s f,
  SymbolMapBasics.posf (abs s) f =
  match SM.fmap_get (abs_pos s) f with Some m => m | None => [] end.
Proof. intros. reflexivity. Qed.

Lemma pos_ins_posf : forall P loc sid f,
  match SM.fmap_get (pos_ins P loc sid) f with Some m => m | None => [] end =
  if SM.fr_is_empty loc then match SM.fmap_get P f with Some m => m | None => [] end
  else if SM.fr_file loc =? f
       then SM.ivl_insert (match SM.fmap_get P (SM.fr_file loc) with Some m => m | None => [] end) (SM.fr_lo loc) (SM.fr_hi loc) sid
       else match SM.fmap_get P f with Some m => m | None => [] end.
Proof.
  intros P loc sid f. unfold pos_ins. destruct (SM.fr_is_empty loc); [reflexivity|].
  rewrite SymbolMapBasics.fmap_get_set. destruct (SM.fr_file loc =? f); reflexivity.
Qed.

Lemma fr_is_empty_cv : forall r, SM.fr_is_empty (cv r) = rng_empty r.
Proof. intros r. reflexivity. Qed.

Lemma fold_pos_ext : forall s s' (lg : list (rng * symid)),
  (forall e, In e lg -> sid_of s' (snd e) = sid_of s (snd e)) ->
  fold_right (fun e P => pos_ins P (cv (fst e)) (sid_of s' (snd e))) [] lg =
  fold_right (fun e P => pos_ins P (cv (fst e)) (sid_of s (snd e))) [] lg.
Proof.
  intros s s'. induction lg as [|e l IH]; intros H; [reflexivity|]. cbn [fold_right].
  rewrite IH by (intros e0 He0; apply H; right; exact He0). rewrite (H e) by (left; reflexivity). reflexivity.
Qed.

(** the log of [s'] is the log of [s] with one more entry, and old entries keep their symbol ids *)
Lemma abs_pos_cons : forall s s' r id,
  s_pos s' = (r, id) :: s_pos s ->
  (forall e, In e (s_pos s) -> sid_of s' (snd e) = sid_of s (snd e)) ->
  forall f, SymbolMapBasics.posf (abs s') f = O.pos_after (abs s) (Some (cv r, sid_of s' id)) f.
Proof.
  intros s s' r id Hp Hold f. rewrite posf_abs. unfold abs_pos at 1. rewrite Hp. cbn [fold_right fst snd].
  rewrite (fold_pos_ext s s' (s_pos s) Hold). fold (abs_pos s).
  rewrite pos_ins_posf. unfold O.pos_after. rewrite !posf_abs. reflexivity.
Qed.
Lemma abs_pos_same : forall s s',
  s_pos s' = s_pos s -> (forall e, In e (s_pos s) -> sid_of s' (snd e) = sid_of s (snd e)) ->
  forall f, SymbolMapBasics.posf (abs s') f = SymbolMapBasics.posf (abs s) f.
Proof.
  intros s s' Hp Hold f. rewrite !posf_abs. unfold abs_pos at 1. rewrite Hp.
  rewrite (fold_pos_ext s s' (s_pos s) Hold). reflexivity.
Qed.
(** add_pos in these terms *)
Lemma add_pos_log : forall r id s, s_pos (add_pos r id s) = if rng_empty r then s_pos s else (r, id) :: s_pos s.
Proof. intros. unfold add_pos. destruct (rng_empty r); reflexivity. Qed.

(** ---- entries through the indexer model's ids *)
Definition sym_entry (s : st) (a : symid) : option SM.entry :=
  match a with
  | SyRecord i => option_map (rec_entry s i) (nthN (s_recs s) i)
  | SyMc i => option_map (mc_entry s i) (nthN (s_mcs s) i)
  | SyLeaf i => option_map (leaf_entry s i) (nthN (s_leaves s) i)
  end.

Lemma nthN_some_of_lt : forall A (l : list A) i, i < lenN l -> exists x, nthN l i = Some x.
Proof.
  intros A l i H. destruct (nthN l i) eqn:E; [eauto|]. unfold nthN in E. apply nth_error_None in E. unfold lenN in H. lia.
Qed.

Lemma get_sym_abs : forall s a, sym_ok s a -> SM.get_entry (abs s) (sid_of s a) = sym_entry s a.
Proof.
  intros s [i|i|i] H; cbn [sym_entry].
  - apply get_rec_abs.
  - apply get_mc_abs.
  - cbn in H. destruct (nthN_some_of_lt _ _ _ H) as [l El]. rewrite El. cbn. apply get_leaf_abs. exact El.
Qed.
Lemma sym_entry_some : forall s a, sym_ok s a -> exists e, sym_entry s a = Some e.
Proof.
  intros s [i|i|i] H; cbn in *; destruct (nthN_some_of_lt _ _ _ H) as [x Ex]; rewrite Ex; cbn; eauto.
Qed.

Lemma sid_surj : forall s sid e, SM.get_entry (abs s) sid = Some e -> exists a, sym_ok s a /\ sid = sid_of s a.
Proof.
  intros s [k j] e E. destruct (sym_kind_cases k) as [Hk|[Hk|[lk Hk]]]; subst k.
  - exists (SyRecord j). split; [|reflexivity]. rewrite get_rec_abs in E.
    destruct (nthN (s_recs s) j) eqn:En; [|discriminate]. cbn. eapply nthN_lt; eassumption.
  - exists (SyMc j). split; [|reflexivity]. rewrite get_mc_abs in E.
    destruct (nthN (s_mcs s) j) eqn:En; [|discriminate]. cbn. eapply nthN_lt; eassumption.
  - destruct (get_leaf_abs_inv _ _ _ _ E) as (i & l & El & _ & Hs & _). exists (SyLeaf i). split; [|symmetry; exact Hs].
    cbn. eapply nthN_lt; eassumption.
Qed.

Lemma sid_eqb_sid_of : forall s a b, sym_ok s a -> sym_ok s b ->
  SM.sid_eqb (sid_of s a) (sid_of s b) = symid_eqb a b.
Proof.
  intros s a b Ha Hb. destruct (SM.sid_eqb (sid_of s a) (sid_of s b)) eqn:E.
  - apply SymbolMapBasics.sid_eqb_eq in E. apply (sid_of_inj s a b Ha Hb) in E. subst b.
    destruct a; cbn; symmetry; apply N.eqb_refl.
  - destruct (symid_eqb a b) eqn:E2; [|reflexivity].
    assert (a = b) by (destruct a, b; cbn in E2; try discriminate; apply N.eqb_eq in E2; subst; reflexivity).
    subst b. rewrite (proj2 (SymbolMapBasics.sid_eqb_eq _ _) eq_refl) in E. discriminate.
Qed.

(** transfer of an in-place update of one symbol *)
Lemma transfer_update : forall s s' id (g : SM.entry -> SM.entry),
  (forall a, sym_ok s' a <-> sym_ok s a) ->
  (forall a, sym_ok s a -> sid_of s' a = sid_of s a) ->
  (forall a, sym_ok s a -> sym_entry s' a = if symid_eqb id a then option_map g (sym_entry s a) else sym_entry s a) ->
  sym_ok s id ->
  forall sid, SM.get_entry (abs s') sid =
              if SM.sid_eqb (sid_of s id) sid then option_map g (SM.get_entry (abs s) sid) else SM.get_entry (abs s) sid.
Proof.
  intros s s' id g Hok Hsid Hent Hid sid.
  assert (Hboth : forall a, sym_ok s a ->
            SM.get_entry (abs s') (sid_of s a) =
            if SM.sid_eqb (sid_of s id) (sid_of s a) then option_map g (SM.get_entry (abs s) (sid_of s a))
            else SM.get_entry (abs s) (sid_of s a)).
  { intros a Ha. rewrite <- (Hsid a Ha) at 1. rewrite (get_sym_abs s' a (proj2 (Hok a) Ha)), (get_sym_abs s a Ha).
    rewrite (sid_eqb_sid_of s id a Hid Ha). apply Hent. exact Ha. }
  destruct (SM.get_entry (abs s') sid) as [e'|] eqn:E'.
  - destruct (sid_surj _ _ _ E') as (a & Ha & Hs). apply Hok in Ha. rewrite (Hsid a Ha) in Hs. subst sid.
    rewrite <- E'. apply Hboth. exact Ha.
  - destruct (SM.get_entry (abs s) sid) as [e|] eqn:E; [|destruct (SM.sid_eqb (sid_of s id) sid); reflexivity].
    destruct (sid_surj _ _ _ E) as (a & Ha & Hs). subst sid. rewrite (Hboth a Ha) in E'. rewrite E in E'.
    destruct (SM.sid_eqb (sid_of s id) (sid_of s a)); cbn in E'; discriminate.
Qed.

(** transfer of an allocation *)
Lemma transfer_alloc : forall s s' anew enew,
  (forall a, sym_ok s' a <-> (sym_ok s a \/ a = anew)) -> ~ sym_ok s anew ->
  (forall a, sym_ok s a -> sid_of s' a = sid_of s a) ->
  (forall a, sym_ok s a -> sym_entry s' a = sym_entry s a) ->
  sym_entry s' anew = Some enew ->
  SM.get_entry (abs s) (sid_of s' anew) = None ->
  forall sid, SM.get_entry (abs s') sid =
              if SM.sid_eqb sid (sid_of s' anew) then Some enew else SM.get_entry (abs s) sid.
Proof.
  intros s s' anew enew Hok Hnew Hsid Hent Henew Hfresh sid.
  assert (Hvn : sym_ok s' anew) by (apply Hok; right; reflexivity).
  destruct (SM.sid_eqb sid (sid_of s' anew)) eqn:Eq.
  - apply SymbolMapBasics.sid_eqb_eq in Eq. subst sid. rewrite (get_sym_abs s' anew Hvn). exact Henew.
  - destruct (SM.get_entry (abs s') sid) as [e'|] eqn:E'.
    + destruct (sid_surj _ _ _ E') as (a & Ha & Hs). apply Hok in Ha. destruct Ha as [Ha|Ha].
      * rewrite (Hsid a Ha) in Hs. subst sid. rewrite <- (Hsid a Ha) in E'.
        rewrite (get_sym_abs s' a (proj2 (Hok a) (or_introl Ha))) in E'. rewrite (get_sym_abs s a Ha).
        rewrite (Hent a Ha) in E'. symmetry. exact E'.
      * subst a sid. rewrite (proj2 (SymbolMapBasics.sid_eqb_eq _ _) eq_refl) in Eq. discriminate.
    + destruct (SM.get_entry (abs s) sid) as [e|] eqn:E; [|reflexivity].
      destruct (sid_surj _ _ _ E) as (a & Ha & Hs). subst sid. rewrite <- (Hsid a Ha) in E'.
      rewrite (get_sym_abs s' a (proj2 (Hok a) (or_introl Ha))) in E'. rewrite (Hent a Ha) in E'.
      rewrite <- (get_sym_abs s a Ha) in E'. congruence.
Qed.

(** ---- headers only *)
Lemma transfer_hdr : forall s s',
  (forall a, sym_ok s' a <-> sym_ok s a) ->
  (forall a, sym_ok s a -> sid_of s' a = sid_of s a) ->
  (forall a, sym_ok s a -> match sym_entry s' a, sym_entry s a with
                           | Some e', Some e => SM.e_name e' = SM.e_name e /\ SM.e_def e' = SM.e_def e /\ SM.e_refs e' = SM.e_refs e
                           | None, None => True
                           | _, _ => False
                           end) ->
  forall sid, match SM.get_entry (abs s') sid, SM.get_entry (abs s) sid with
              | Some e', Some e => SM.e_name e' = SM.e_name e /\ SM.e_def e' = SM.e_def e /\ SM.e_refs e' = SM.e_refs e
              | None, None => True
              | _, _ => False
              end.
Proof.
  intros s s' Hok Hsid Hent sid.
  destruct (SM.get_entry (abs s') sid) as [e'|] eqn:E'.
  - destruct (sid_surj _ _ _ E') as (a & Ha & Hs). apply Hok in Ha. rewrite (Hsid a Ha) in Hs. subst sid.
    rewrite <- (Hsid a Ha) in E'. rewrite (get_sym_abs s' a (proj2 (Hok a) Ha)) in E'. rewrite (get_sym_abs s a Ha).
    specialize (Hent a Ha). rewrite E' in Hent. exact Hent.
  - destruct (SM.get_entry (abs s) sid) as [e|] eqn:E; [|exact I].
    destruct (sid_surj _ _ _ E) as (a & Ha & Hs). subst sid. rewrite <- (Hsid a Ha) in E'.
    rewrite (get_sym_abs s' a (proj2 (Hok a) Ha)) in E'. rewrite (get_sym_abs s a Ha) in E.
    specialize (Hent a Ha). rewrite E', E in Hent. exact Hent.
Qed.

(** [sid_of] only looks at the leaves *)
Lemma sid_of_same_leaves : forall s s' a, s_leaves s' = s_leaves s -> sid_of s' a = sid_of s a.
Proof. intros s s' a H. destruct a; cbn [sid_of]; try reflexivity. rewrite H. reflexivity. Qed.
Lemma map_leaf_ids_same_leaves : forall s s' m, s_leaves s' = s_leaves s -> map_leaf_ids s' m = map_leaf_ids s m.
Proof. intros s s' m H. apply map_leaf_ids_ext. intros e _. apply sid_of_same_leaves. exact H. Qed.

Lemma sym_ok_same_len : forall s s' a, nrec s' = nrec s -> nmc s' = nmc s -> nleaf s' = nleaf s -> (sym_ok s' a <-> sym_ok s a).
Proof. intros s s' a H1 H2 H3. unfold sym_ok. rewrite H1, H2, H3. tauto. Qed.

(** ---- add_reference *)
Lemma reference_locs_cons : forall s s' id loc a,
  s_refs s' = (id, loc) :: s_refs s ->
  reference_locs s' a = if symid_eqb id a then reference_locs s a ++ [loc] else reference_locs s a.
Proof.
  intros s s' id loc a H. unfold reference_locs. rewrite H. cbn [filter fst].
  destruct (symid_eqb id a); [|reflexivity]. cbn [map rev snd]. reflexivity.
Qed.

Lemma add_reference_tables : forall id loc s,
  let s1 := snd (add_reference id loc s) in
  s_recs s1 = s_recs s /\ s_mcs s1 = s_mcs s /\ s_leaves s1 = s_leaves s /\ s_refs s1 = (id, loc) :: s_refs s /\
  s_pos s1 = (if rng_empty loc then s_pos s else (loc, id) :: s_pos s) /\ s_diags s1 = s_diags s.
Proof.
  intros id loc s. cbn. unfold add_pos. destruct (rng_empty loc); cbn; repeat split.
Qed.

Theorem abs_add_reference : forall id loc s, Valid s -> sym_ok s id -> rng_empty loc = false ->
  let s1 := snd (add_reference id loc s) in
  (forall sid, SM.get_entry (abs s1) sid =
     if SM.sid_eqb (sid_of s id) sid then option_map (O.push_ref (cv loc)) (SM.get_entry (abs s) sid) else SM.get_entry (abs s) sid) /\
  (forall f, SymbolMapBasics.posf (abs s1) f = O.pos_after (abs s) (Some (cv loc, sid_of s id)) f).
Proof.
  intros id loc s Hv Hid Hne s1.
  destruct (add_reference_tables id loc s) as (E1 & E2 & E3 & E4 & E5 & E6). fold s1 in E1, E2, E3, E4, E5, E6.
  rewrite Hne in E5.
  assert (Hn1 : nrec s1 = nrec s) by (unfold nrec; rewrite E1; reflexivity).
  assert (Hn2 : nmc s1 = nmc s) by (unfold nmc; rewrite E2; reflexivity).
  assert (Hn3 : nleaf s1 = nleaf s) by (unfold nleaf; rewrite E3; reflexivity).
  split.
  - apply transfer_update.
    + intros a. apply sym_ok_same_len; assumption.
    + intros a _. apply sid_of_same_leaves. exact E3.
    + intros a Ha. unfold sym_entry. rewrite E1, E2, E3.
      destruct a as [i|i|i].
      * destruct (nthN (s_recs s) i) as [r|]; [|destruct (symid_eqb id (SyRecord i)); reflexivity]. cbn [option_map].
        unfold rec_entry, refs_of. rewrite (reference_locs_cons s s1 id loc (SyRecord i) E4).
        rewrite !(map_leaf_ids_same_leaves s s1 _ E3).
        destruct (symid_eqb id (SyRecord i)); [|reflexivity]. cbn [option_map]. unfold O.push_ref. cbn. rewrite map_app. reflexivity.
      * destruct (nthN (s_mcs s) i) as [r|]; [|destruct (symid_eqb id (SyMc i)); reflexivity]. cbn [option_map].
        unfold mc_entry, refs_of. rewrite (reference_locs_cons s s1 id loc (SyMc i) E4).
        rewrite !(map_leaf_ids_same_leaves s s1 _ E3).
        destruct (symid_eqb id (SyMc i)); [|reflexivity]. cbn [option_map]. unfold O.push_ref. cbn. rewrite map_app. reflexivity.
      * destruct (nthN (s_leaves s) i) as [r|]; [|destruct (symid_eqb id (SyLeaf i)); reflexivity]. cbn [option_map].
        unfold leaf_entry, refs_of. rewrite (reference_locs_cons s s1 id loc (SyLeaf i) E4).
        destruct (symid_eqb id (SyLeaf i)); [|reflexivity]. cbn [option_map]. unfold O.push_ref. cbn. rewrite map_app. reflexivity.
    + exact Hid.
  - intros f. rewrite <- (sid_of_same_leaves s s1 id E3). apply abs_pos_cons; [exact E5|].
    intros e _. apply sid_of_same_leaves. exact E3.
Qed.

(** ---- states with the same symbol tables *)
Theorem abs_same_tables : forall s s',
  s_recs s' = s_recs s -> s_mcs s' = s_mcs s -> s_leaves s' = s_leaves s -> s_refs s' = s_refs s -> s_pos s' = s_pos s ->
  (forall sid, SM.get_entry (abs s') sid = SM.get_entry (abs s) sid) /\
  (forall f, SymbolMapBasics.posf (abs s') f = SymbolMapBasics.posf (abs s) f).
Proof.
  intros s s' E1 E2 E3 E4 E5. split.
  - intros sid.
    assert (Ha : forall k, SM.get_arena (abs s') k = SM.get_arena (abs s) k).
    { assert (R : forall id, refs_of s' id = refs_of s id) by (intros; unfold refs_of; rewrite (reference_locs_same s s' id E4); reflexivity).
      assert (Hr : arena_recs s' = arena_recs s).
      { unfold arena_recs. rewrite E1. apply map_ext. intros p. unfold rec_entry. rewrite R, !(map_leaf_ids_same_leaves s s' _ E3). reflexivity. }
      assert (Hm : arena_mcs s' = arena_mcs s).
      { unfold arena_mcs. rewrite E2. apply map_ext. intros p. unfold mc_entry. rewrite R, !(map_leaf_ids_same_leaves s s' _ E3). reflexivity. }
      assert (Hl : forall k, arena_leaves s' k = arena_leaves s k).
      { intros k. unfold arena_leaves. rewrite E3. apply map_ext. intros p. unfold leaf_entry. rewrite R. reflexivity. }
      intros k. destruct k; cbn [abs SM.get_arena SM.sm_records SM.sm_targs SM.sm_fields SM.sm_vars SM.sm_defsets SM.sm_multiclasses SM.sm_defms];
        auto. }
    unfold SM.get_entry. rewrite Ha. reflexivity.
  - apply abs_pos_same; [exact E5|]. intros e _. apply sid_of_same_leaves. exact E3.
Qed.

(** ---- allocations *)
Lemma reference_locs_fresh : forall s a, Valid s -> ~ sym_ok s a -> reference_locs s a = [].
Proof.
  intros s a Hv Ha. unfold reference_locs.
  assert (H : filter (fun e : symid * rng => symid_eqb (fst e) a) (s_refs s) = []).
  { pose proof (v_refs _ _ _ _ Hv) as Hr. induction Hr as [|e l He Hl IH]; [reflexivity|]. cbn [filter].
    destruct (symid_eqb (fst e) a) eqn:E; [|exact IH]. exfalso. apply Ha.
    assert (fst e = a) by (destruct (fst e), a; cbn in E; try discriminate; apply N.eqb_eq in E; subst; reflexivity).
    subst a. exact He. }
  rewrite H. reflexivity.
Qed.

Lemma nthN_app_old' : forall A (l : list A) x i, i < lenN l -> nthN (l ++ [x]) i = nthN l i.
Proof. intros A l x i H. unfold nthN, lenN in *. apply nth_error_app1. lia. Qed.
Lemma nthN_app_new : forall A (l : list A) x, nthN (l ++ [x]) (lenN l) = Some x.
Proof.
  intros A l x. unfold nthN, lenN. rewrite Nnat.Nat2N.id. rewrite nth_error_app2 by lia.
  replace (length l - length l)%nat with 0%nat by lia. reflexivity.
Qed.

Theorem abs_append_record : forall s s1 r, Valid s ->
  s_recs s1 = s_recs s ++ [r] -> s_mcs s1 = s_mcs s -> s_leaves s1 = s_leaves s -> s_refs s1 = s_refs s ->
  let e := SM.mkEntry (rc_name r) (cv (rc_loc r)) []
             (SM.PRecord (if rc_class r then SM.RKClass else SM.RKDef) (map_leaf_ids s (rc_targs r)) (map_leaf_ids s (rc_fields r)) (rc_parents r)) in
  forall sid, SM.get_entry (abs s1) sid =
              if SM.sid_eqb sid (SM.KRecord, SM.next_id (abs s) SM.KRecord) then Some e else SM.get_entry (abs s) sid.
Proof.
  intros s s1 r Hv E1 E2 E3 E4 e sid.
  assert (Hn1 : nrec s1 = nrec s + 1) by (unfold nrec; rewrite E1; apply lenN_app1).
  assert (Hn2 : nmc s1 = nmc s) by (unfold nmc; rewrite E2; reflexivity).
  assert (Hn3 : nleaf s1 = nleaf s) by (unfold nleaf; rewrite E3; reflexivity).
  assert (Hnew : ~ sym_ok s (SyRecord (nrec s))) by (cbn; lia).
  pose proof (transfer_alloc s s1 (SyRecord (nrec s)) e) as T. cbn [sid_of] in T. rewrite next_rec_abs. apply T; clear T.
  - intros a. unfold sym_ok. rewrite Hn1, Hn2, Hn3. destruct a as [i|i|i]; cbn.
    + split; [intros H; destruct (N.eq_dec i (nrec s)); [right; subst; reflexivity|left; lia]|intros [H|H]; [lia|inversion H; lia]].
    + split; [intros H; left; exact H|intros [H|H]; [exact H|discriminate]].
    + split; [intros H; left; exact H|intros [H|H]; [exact H|discriminate]].
  - exact Hnew.
  - intros a _. apply sid_of_same_leaves. exact E3.
  - intros a Ha. assert (R : forall id, refs_of s1 id = refs_of s id) by (intros; unfold refs_of; rewrite (reference_locs_same s s1 id E4); reflexivity).
    destruct a as [i|i|i]; cbn [sym_entry]; cbn in Ha.
    + rewrite E1, (nthN_app_old' _ _ _ _ Ha). destruct (nthN (s_recs s) i); [|reflexivity]. cbn.
      unfold rec_entry. rewrite R, !(map_leaf_ids_same_leaves s s1 _ E3). reflexivity.
    + rewrite E2. destruct (nthN (s_mcs s) i); [|reflexivity]. cbn.
      unfold mc_entry. rewrite R, !(map_leaf_ids_same_leaves s s1 _ E3). reflexivity.
    + rewrite E3. destruct (nthN (s_leaves s) i); [|reflexivity]. cbn. unfold leaf_entry. rewrite R. reflexivity.
  - cbn [sym_entry]. rewrite E1. unfold nrec. rewrite nthN_app_new. cbn [option_map]. unfold rec_entry, e. f_equal.
    unfold refs_of. rewrite (reference_locs_same s s1 _ E4). fold (nrec s).
    rewrite (reference_locs_fresh s _ Hv Hnew). rewrite !(map_leaf_ids_same_leaves s s1 _ E3). reflexivity.
  - rewrite <- next_rec_abs. apply SymbolCoh.next_id_fresh.
Qed.

Theorem abs_append_mc : forall s s1 m, Valid s ->
  s_recs s1 = s_recs s -> s_mcs s1 = s_mcs s ++ [m] -> s_leaves s1 = s_leaves s -> s_refs s1 = s_refs s ->
  let e := SM.mkEntry (mc_name m) (cv (mc_loc m)) [] (SM.PMulticlass (map_leaf_ids s (mc_targs m)) (mc_parents m)) in
  forall sid, SM.get_entry (abs s1) sid =
              if SM.sid_eqb sid (SM.KMulticlass, SM.next_id (abs s) SM.KMulticlass) then Some e else SM.get_entry (abs s) sid.
Proof.
  intros s s1 m Hv E1 E2 E3 E4 e sid.
  assert (Hn1 : nrec s1 = nrec s) by (unfold nrec; rewrite E1; reflexivity).
  assert (Hn2 : nmc s1 = nmc s + 1) by (unfold nmc; rewrite E2; apply lenN_app1).
  assert (Hn3 : nleaf s1 = nleaf s) by (unfold nleaf; rewrite E3; reflexivity).
  assert (Hnew : ~ sym_ok s (SyMc (nmc s))) by (cbn; lia).
  pose proof (transfer_alloc s s1 (SyMc (nmc s)) e) as T. cbn [sid_of] in T. rewrite next_mc_abs. apply T; clear T.
  - intros a. unfold sym_ok. rewrite Hn1, Hn2, Hn3. destruct a as [i|i|i]; cbn.
    + split; [intros H; left; exact H|intros [H|H]; [exact H|discriminate]].
    + split; [intros H; destruct (N.eq_dec i (nmc s)); [right; subst; reflexivity|left; lia]|intros [H|H]; [lia|inversion H; lia]].
    + split; [intros H; left; exact H|intros [H|H]; [exact H|discriminate]].
  - exact Hnew.
  - intros a _. apply sid_of_same_leaves. exact E3.
  - intros a Ha. assert (R : forall id, refs_of s1 id = refs_of s id) by (intros; unfold refs_of; rewrite (reference_locs_same s s1 id E4); reflexivity).
    destruct a as [i|i|i]; cbn [sym_entry]; cbn in Ha.
    + rewrite E1. destruct (nthN (s_recs s) i); [|reflexivity]. cbn.
      unfold rec_entry. rewrite R, !(map_leaf_ids_same_leaves s s1 _ E3). reflexivity.
    + rewrite E2, (nthN_app_old' _ _ _ _ Ha). destruct (nthN (s_mcs s) i); [|reflexivity]. cbn.
      unfold mc_entry. rewrite R, !(map_leaf_ids_same_leaves s s1 _ E3). reflexivity.
    + rewrite E3. destruct (nthN (s_leaves s) i); [|reflexivity]. cbn. unfold leaf_entry. rewrite R. reflexivity.
  - cbn [sym_entry]. rewrite E2. unfold nmc. rewrite nthN_app_new. cbn [option_map]. unfold mc_entry, e. f_equal.
    unfold refs_of. rewrite (reference_locs_same s s1 _ E4). fold (nmc s).
    rewrite (reference_locs_fresh s _ Hv Hnew). rewrite !(map_leaf_ids_same_leaves s s1 _ E3). reflexivity.
  - rewrite <- next_mc_abs. apply SymbolCoh.next_id_fresh.
Qed.

Lemma count_kind_app : forall k a b, count_kind k (a ++ b) = count_kind k a + count_kind k b.
Proof. intros k. induction a as [|x r IH]; intros b; cbn; [reflexivity|]. rewrite IH. lia. Qed.

Lemma sid_of_leaf_app : forall s s1 l a, s_leaves s1 = s_leaves s ++ [l] -> sym_ok s a -> sid_of s1 a = sid_of s a.
Proof.
  intros s s1 l a E Ha. destruct a as [i|i|i]; cbn [sid_of]; try reflexivity. rewrite E. rewrite leaf_sid_app; [reflexivity|exact Ha].
Qed.
Lemma map_leaf_ids_app : forall s s1 l m, s_leaves s1 = s_leaves s ++ [l] -> amap_ok (nleaf s) m -> map_leaf_ids s1 m = map_leaf_ids s m.
Proof.
  intros s s1 l m E H. apply map_leaf_ids_ext. intros e He. apply (sid_of_leaf_app s s1 l (SyLeaf (snd e)) E).
  unfold amap_ok in H. rewrite Forall_forall in H. apply (H e He).
Qed.

Theorem abs_append_leaf : forall s s1 l, Valid s ->
  s_recs s1 = s_recs s -> s_mcs s1 = s_mcs s -> s_leaves s1 = s_leaves s ++ [l] -> s_refs s1 = s_refs s ->
  let e := SM.mkEntry (lf_name l) (cv (lf_loc l)) [] (leaf_payload (lf_kind l)) in
  sid_of s1 (SyLeaf (nleaf s)) = (lk_kind (lf_kind l), SM.next_id (abs s) (lk_kind (lf_kind l))) /\
  forall sid, SM.get_entry (abs s1) sid =
              if SM.sid_eqb sid (lk_kind (lf_kind l), SM.next_id (abs s) (lk_kind (lf_kind l))) then Some e else SM.get_entry (abs s) sid.
Proof.
  intros s s1 l Hv E1 E2 E3 E4 e.
  assert (Hn1 : nrec s1 = nrec s) by (unfold nrec; rewrite E1; reflexivity).
  assert (Hn2 : nmc s1 = nmc s) by (unfold nmc; rewrite E2; reflexivity).
  assert (Hn3 : nleaf s1 = nleaf s + 1) by (unfold nleaf; rewrite E3; apply lenN_app1).
  assert (Hnew : ~ sym_ok s (SyLeaf (nleaf s))) by (cbn; lia).
  assert (Hsid : sid_of s1 (SyLeaf (nleaf s)) = (lk_kind (lf_kind l), SM.next_id (abs s) (lk_kind (lf_kind l)))).
  { cbn [sid_of]. unfold leaf_sid. rewrite E3. unfold nleaf. rewrite nthN_app_new. f_equal.
    rewrite next_leaf_abs. unfold lenN. rewrite Nnat.Nat2N.id. rewrite firstn_app, firstn_all.
    replace (length (s_leaves s) - length (s_leaves s))%nat with 0%nat by lia. cbn. rewrite app_nil_r. reflexivity. }
  split; [exact Hsid|]. intros sid.
  pose proof (transfer_alloc s s1 (SyLeaf (nleaf s)) e) as T. rewrite Hsid in T. apply T; clear T.
  - intros a. unfold sym_ok. rewrite Hn1, Hn2, Hn3. destruct a as [i|i|i]; cbn.
    + split; [intros H; left; exact H|intros [H|H]; [exact H|discriminate]].
    + split; [intros H; left; exact H|intros [H|H]; [exact H|discriminate]].
    + split; [intros H; destruct (N.eq_dec i (nleaf s)); [right; subst; reflexivity|left; lia]|intros [H|H]; [lia|inversion H; lia]].
  - exact Hnew.
  - intros a Ha. eapply sid_of_leaf_app; eassumption.
  - intros a Ha. assert (R : forall id, refs_of s1 id = refs_of s id) by (intros; unfold refs_of; rewrite (reference_locs_same s s1 id E4); reflexivity).
    destruct a as [i|i|i]; cbn [sym_entry]; cbn in Ha.
    + rewrite E1. destruct (nthN (s_recs s) i) as [r|] eqn:En; [|reflexivity]. cbn.
      pose proof (nthN_Forall _ _ _ _ _ (v_recs _ _ _ _ Hv) En) as (Ha1 & Ha2 & _).
      unfold rec_entry. rewrite R, (map_leaf_ids_app s s1 l _ E3 Ha1), (map_leaf_ids_app s s1 l _ E3 Ha2). reflexivity.
    + rewrite E2. destruct (nthN (s_mcs s) i) as [m|] eqn:En; [|reflexivity]. cbn.
      pose proof (nthN_Forall _ _ _ _ _ (v_mcs _ _ _ _ Hv) En) as (Ha1 & _).
      unfold mc_entry. rewrite R, (map_leaf_ids_app s s1 l _ E3 Ha1). reflexivity.
    + rewrite E3, (nthN_app_old' _ _ _ _ Ha). destruct (nthN (s_leaves s) i); [|reflexivity]. cbn. unfold leaf_entry. rewrite R. reflexivity.
  - cbn [sym_entry]. rewrite E3. unfold nleaf. rewrite nthN_app_new. cbn [option_map]. unfold leaf_entry, e. f_equal.
    unfold refs_of. rewrite (reference_locs_same s s1 _ E4). fold (nleaf s). rewrite (reference_locs_fresh s _ Hv Hnew). reflexivity.
  - apply SymbolCoh.next_id_fresh.
Qed.

(** the position log after an allocation / with no new entry: old entries keep their ids *)
Lemma pos_old_sids : forall s s1, Valid s -> (forall a, sym_ok s a -> sid_of s1 a = sid_of s a) ->
  forall e, In e (s_pos s) -> sid_of s1 (snd e) = sid_of s (snd e).
Proof.
  intros s s1 Hv H e He. apply H. pose proof (v_pos _ _ _ _ Hv) as Hp. rewrite Forall_forall in Hp. apply (Hp e He).
Qed.
