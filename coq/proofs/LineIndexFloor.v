(** Property C10, refinement, beyond the property: what the model of to_proto::position does at offsets that
    are NOT character boundaries.  An offset strictly inside a multi-byte character gets the position of the
    start of that character (the [is_char_boundary] walk-back loop of utf16_col), an offset past the end of the
    text gets the position of the end.  So the model is characterised at EVERY offset. *)
From Coq Require Import List NArith Bool Lia ZifyBool ZifyN.
From TG.Model Require Import Chars LineIndex.
From TG.Proofs Require Import LineIndexProofs LineIndexSpec LineIndexImpl.
Import ListNotations.
Open Scope N_scope.

Arguments N.add : simpl never.
Arguments N.sub : simpl never.
Arguments N.mul : simpl never.
Arguments N.div : simpl never.
Arguments N.modulo : simpl never.
Arguments N.ltb : simpl never.
Arguments N.leb : simpl never.
Arguments N.eqb : simpl never.
Arguments N.min : simpl never.
Arguments N.max : simpl never.
Arguments N.of_nat : simpl never.
Arguments N.to_nat : simpl never.
Arguments utf8_len : simpl never.
Arguments utf16_len : simpl never.

Lemma nthN_0 b r : nthN (b :: r) 0 = Some b.
Proof. reflexivity. Qed.
Lemma nthN_succ b r i : nthN (b :: r) (1 + i) = nthN r i.
Proof.
  cbn [nthN]. destruct (1 + i =? 0) eqn:E; [lia|]. f_equal. lia.
Qed.

(** the bytes of a character after the first are continuation bytes (128..191) *)
Lemma utf8_bytes_cont c rest k : 0 < k < utf8_len c ->
  exists b, nthN (utf8_bytes c ++ rest) k = Some b /\ 128 <= b < 192.
Proof.
  unfold utf8_len, utf8_bytes. intros Hk.
  pose proof (N.mod_upper_bound c 64 ltac:(lia)) as M1.
  pose proof (N.mod_upper_bound (c / 64) 64 ltac:(lia)) as M2.
  pose proof (N.mod_upper_bound (c / 4096) 64 ltac:(lia)) as M3.
  set (m1 := c mod 64) in *. set (m2 := (c / 64) mod 64) in *. set (m3 := (c / 4096) mod 64) in *.
  clearbody m1 m2 m3.
  destruct (c <? 128); [lia|]. destruct (c <? 2048); [|destruct (c <? 65536)]; cbn [app].
  - assert (k = 1 + 0) as -> by lia. rewrite nthN_succ, nthN_0. eexists. split; [reflexivity|lia].
  - assert (Hc : k = 1 + 0 \/ k = 1 + (1 + 0)) by lia. destruct Hc as [-> | ->];
      rewrite ?nthN_succ, nthN_0; eexists; (split; [reflexivity|lia]).
  - assert (Hc : k = 1 + 0 \/ k = 1 + (1 + 0) \/ k = 1 + (1 + (1 + 0))) by lia. destruct Hc as [-> | [-> | ->]];
      rewrite ?nthN_succ, nthN_0; eexists; (split; [reflexivity|lia]).
Qed.

Lemma is_char_boundary_inside p c s k : 0 < k < utf8_len c ->
  is_char_boundary (encode (p ++ c :: s)) (bytes p + k) = false.
Proof.
  intros Hk. unfold is_char_boundary. destruct (bytes p + k =? 0) eqn:E0; [lia|].
  rewrite encode_app. cbn [encode]. rewrite <- (lenN_encode p), nthN_app.
  destruct (utf8_bytes_cont c (encode s) k Hk) as (b & -> & Hb).
  destruct (b <? 128) eqn:E1; [lia|]. destruct (192 <=? b) eqn:E2; [lia|]. reflexivity.
Qed.

Lemma walk_back_inside p c s : forall j fuel, (j < fuel)%nat -> N.of_nat j < utf8_len c ->
  walk_back fuel (encode (p ++ c :: s)) (bytes p + N.of_nat j) = Ok (bytes p).
Proof.
  induction j as [|j IH]; intros fuel Hf Hj; (destruct fuel as [|f]; [lia|]).
  - replace (bytes p + N.of_nat 0) with (bytes p) by lia. apply walk_back_boundary. apply is_char_boundary_ok.
  - cbn [walk_back]. rewrite is_char_boundary_inside by lia.
    destruct (bytes p + N.of_nat (S j) =? 0) eqn:E0; [lia|].
    replace (bytes p + N.of_nat (S j) - 1) with (bytes p + N.of_nat j) by lia. apply IH; lia.
Qed.

(** no character boundary lies strictly inside a character *)
Lemma boundary_gap p : forall c s p' s', p ++ c :: s = p' ++ s' ->
  bytes p' <= bytes p \/ bytes p + utf8_len c <= bytes p'.
Proof.
  induction p as [|a p IH]; intros c s p' s' H.
  - destruct p' as [|c' p'']; [left; cbn [bytes]; lia|]. cbn [app] in H. injection H as <- _.
    right. rewrite bytes_cons. cbn [bytes]. lia.
  - destruct p' as [|a' p'']; [left; cbn [bytes]; lia|]. cbn [app] in H. injection H as <- H.
    destruct (IH _ _ _ _ H) as [H1|H1]; rewrite !bytes_cons; [left|right]; lia.
Qed.

Lemma line_starts_boundary t x : In x (line_starts t) -> exists p s, t = p ++ s /\ x = bytes p.
Proof.
  intros [<-|H]; [now exists [], t|].
  destruct (starts_boundary _ _ _ H) as (p & s & -> & ->). exists p, s. split; [reflexivity|lia].
Qed.

Lemma line_of_inside p c s k : k < utf8_len c ->
  line_of (p ++ c :: s) (bytes p + k) = line_of (p ++ c :: s) (bytes p).
Proof.
  intros Hk. unfold line_of. f_equal. f_equal. f_equal. apply filter_ext_in. intros x Hx.
  destruct (line_starts_boundary _ _ Hx) as (p' & s' & Ht & ->).
  destruct (boundary_gap _ _ _ _ _ Ht) as [H|H]; lia.
Qed.

Lemma line_of_past_end t o : bytes t <= o -> line_of t o = line_of t (bytes t).
Proof.
  intros Ho. unfold line_of. f_equal. f_equal. f_equal. apply filter_ext_in. intros x Hx.
  destruct (line_starts_boundary _ _ Hx) as (p' & s' & -> & ->). rewrite bytes_app in *. lia.
Qed.

(** utf16_col once the walk-back loop has found the boundary [e] *)
Lemma utf16_col_at t o e : bytes t <= u32_max -> on_char_boundary t e ->
  line_of t o = line_of t e ->
  walk_back (S (N.to_nat (N.min o (lenN (encode t))))) (encode t) (N.min o (lenN (encode t))) = Ok e ->
  utf16_col (li_of t) o = Ok (snd (pos_of t e)).
Proof.
  intros Hb (p & s & Ht & He) Hline Hw. unfold utf16_col. rewrite pos_to_line_ok. cbn [bind].
  rewrite line_to_pos_ok by assumption. cbn [bind]. cbn [li_of li_bytes]. rewrite Hw. cbn [bind]. rewrite Hline.
  assert (Hbo : is_char_boundary (encode t) e = true) by (rewrite Ht, He; apply is_char_boundary_ok).
  pose proof (nth_start_le t e) as Hsl. unfold pos_of. cbn [snd]. set (start := nth_start t (line_of t e)) in *.
  assert (Hs : is_char_boundary (encode t) start = true).
  { destruct (nth_start_boundary t (line_of t e)) as (p' & s' & Ht' & Hp'). unfold start. rewrite Hp'.
    rewrite Ht' at 1. apply is_char_boundary_ok. }
  replace (N.max e start) with e by lia.
  unfold str_slice. cbn [li_of li_bytes li_text]. rewrite Hs, Hbo. destruct (start <=? e) eqn:E; [|lia]. cbn [andb bind].
  rewrite sum_utf16_u16, u16_chars_between. apply to_u32_ok.
  pose proof (u16_between_le t 0 start e). lia.
Qed.

Theorem to_proto_position_inside_char t p c s k : bytes t <= u32_max -> t = p ++ c :: s -> 0 < k < utf8_len c ->
  to_proto_position (li_of t) (bytes p + k) = Ok (pos_of t (bytes p)).
Proof.
  intros Hb Ht Hk. unfold to_proto_position. rewrite pos_to_line_ok. cbn [bind]. rewrite line_u32 by assumption.
  cbn [bind].
  assert (Hl : line_of t (bytes p + k) = line_of t (bytes p)) by (rewrite Ht; apply line_of_inside; lia).
  rewrite (utf16_col_at t (bytes p + k) (bytes p)); [cbn [bind]; rewrite Hl; reflexivity|assumption| | assumption|].
  - exists p, (c :: s). split; [assumption|reflexivity].
  - rewrite lenN_encode. assert (Hle : bytes p + k <= bytes t) by (rewrite Ht, bytes_app, bytes_cons; lia).
    replace (N.min (bytes p + k) (bytes t)) with (bytes p + N.of_nat (N.to_nat k)) by lia.
    rewrite Ht. apply walk_back_inside; lia.
Qed.

Theorem to_proto_position_past_end t o : bytes t <= u32_max -> bytes t <= o ->
  to_proto_position (li_of t) o = Ok (pos_of t (bytes t)).
Proof.
  intros Hb Ho. unfold to_proto_position. rewrite pos_to_line_ok. cbn [bind]. rewrite line_u32 by assumption.
  cbn [bind]. pose proof (line_of_past_end t o Ho) as Hl.
  rewrite (utf16_col_at t o (bytes t)); [cbn [bind]; rewrite Hl; reflexivity|assumption| |assumption|].
  - exists t, []. split; [now rewrite app_nil_r|reflexivity].
  - rewrite lenN_encode. replace (N.min o (bytes t)) with (bytes t) by lia.
    apply walk_back_boundary. rewrite <- (app_nil_r t) at 1. apply is_char_boundary_ok.
Qed.

(** every offset is on a boundary, strictly inside a character, or past the end *)
Lemma offset_cases t : forall o, on_char_boundary t o \/
  (exists p c s k, t = p ++ c :: s /\ 0 < k < utf8_len c /\ o = bytes p + k) \/ bytes t < o.
Proof.
  induction t as [|c r IH]; intros o.
  - destruct (N.eq_dec o 0) as [->|H]; [left; now exists [], []|right; right; cbn [bytes]; lia].
  - destruct (N.eq_dec o 0) as [->|H0]; [left; now exists [], (c :: r)|].
    destruct (N.lt_ge_cases o (utf8_len c)) as [Hlt|Hge].
    + right; left. exists [], c, r, o. split; [reflexivity|]. cbn [bytes]. lia.
    + destruct (IH (o - utf8_len c)) as [(p & s & -> & Ho)|[(p & d & s & k & -> & Hk & Ho)|Hpast]].
      * left. exists (c :: p), s. split; [reflexivity|]. rewrite bytes_cons. lia.
      * right; left. exists (c :: p), d, s, k. split; [reflexivity|]. split; [assumption|]. rewrite bytes_cons. lia.
      * right; right. rewrite bytes_cons. lia.
Qed.

Theorem to_proto_position_every_offset t : bytes t <= u32_max ->
  (forall p c s k, t = p ++ c :: s -> 0 < k < utf8_len c ->
     to_proto_position (li_of t) (bytes p + k) = Ok (pos_of t (bytes p))) /\
  (forall o, bytes t <= o -> to_proto_position (li_of t) o = Ok (pos_of t (bytes t))) /\
  (forall o, on_char_boundary t o \/
             (exists p c s k, t = p ++ c :: s /\ 0 < k < utf8_len c /\ o = bytes p + k) \/ bytes t < o).
Proof.
  intros Hb. split; [intros p c s k Ht Hk; now apply (to_proto_position_inside_char t p c s k)|].
  split; [intros o Ho; now apply to_proto_position_past_end|apply offset_cases].
Qed.
