(** A-bld: abstract interpretation of the grammar DSL for the panics that are NOT about the look-ahead:
    GreenNodeBuilder misuse (finish_node on an empty stack, start_node_at with a stale checkpoint, finish with
    other than exactly one root node), ill-typed or unset locals, `break` outside a loop, calls of undefined
    functions / with the wrong kind of argument.
    Abstract state: [dep] = number of nodes opened since function entry, [sta] = what lies at depth 0 (only used for
    the entry function), [tys] = types of the locals, a checkpoint being tagged with the depth it was taken at.
    Executable definitions only; soundness is in SafeSound.v. *)
From Coq Require Import List Arith NArith Bool.
From TG.Gen Require Import GenTokens.
From TG.Model Require Import Chars Lexer Prep Tree ParserPrims GInterp.
Import ListNotations.
Open Scope nat_scope.

Inductive aty := TBool | TCp (d : nat) | TAny.
Inductive status := SZero | SOne | SMany.
Record bst := { dep : nat; sta : status; tys : list aty }.
Inductive vty := VBool | VCp (d : nat).
(** kind of parameter of a function (local 0 of the callee) *)
Inductive fsig := NoParam | BoolParam | CpParam.

Definition aty_eqb (a b : aty) : bool :=
  match a, b with
  | TBool, TBool | TAny, TAny => true
  | TCp d, TCp d' => Nat.eqb d d'
  | _, _ => false
  end.
Definition sta_eqb (a b : status) : bool :=
  match a, b with SZero, SZero | SOne, SOne | SMany, SMany => true | _, _ => false end.
Definition vty_eqb (a b : vty) : bool :=
  match a, b with VBool, VBool => true | VCp d, VCp d' => Nat.eqb d d' | _, _ => false end.

Definition ty_at (l : list aty) (x : nat) : aty := nth x l TAny.
Fixpoint ty_set (l : list aty) (x : nat) (t : aty) : list aty :=
  match x, l with
  | O, [] => [t]
  | O, _ :: r => t :: r
  | S n, [] => TAny :: ty_set [] n t
  | S n, a :: r => a :: ty_set r n t
  end.
Definition aty_join (a b : aty) : aty := if aty_eqb a b then a else TAny.
Fixpoint tys_join (a b : list aty) : list aty :=
  match a, b with
  | x :: a', y :: b' => aty_join x y :: tys_join a' b'
  | _, _ => []
  end.
Definition sta_join (a b : status) : status := if sta_eqb a b then a else SMany.

(** [tys_le l' l]: every commitment of [l] is met by [l'] *)
Fixpoint tys_le (l' l : list aty) : bool :=
  match l with
  | [] => true
  | t :: r =>
      (match t with TAny => true | _ => aty_eqb (ty_at l' 0) t end) && tys_le (tl l') r
  end.
Definition sta_le (a' a : status) : bool := sta_eqb a' a || sta_eqb a SMany.
Definition ble (a' a : bst) : bool :=
  Nat.eqb (dep a') (dep a) && sta_le (sta a') (sta a) && tys_le (tys a') (tys a).

(** join of two optional states; the flag is false when both exist at different depths *)
Definition sjoin (a b : option bst) : option bst * bool :=
  match a, b with
  | None, x | x, None => (x, true)
  | Some a, Some b =>
      if Nat.eqb (dep a) (dep b)
      then (Some {| dep := dep a; sta := sta_join (sta a) (sta b); tys := tys_join (tys a) (tys b) |}, true)
      else (Some a, false)
  end.
Definition njoin (a b : option (bst * vty)) : option (bst * vty) * bool :=
  match a, b with
  | None, x | x, None => (x, true)
  | Some (a, v), Some (b, w) =>
      let '(o, k) := sjoin (Some a) (Some b) in
      match o with
      | Some c => (Some (c, v), k && vty_eqb v w)
      | None => (None, false)
      end
  end.

Record bres := { bn : option (bst * vty); bb : option bst; br : option bst; bok : bool }.
Definition bnorm (a : bst) (v : vty) : bres := {| bn := Some (a, v); bb := None; br := None; bok := true |}.
Definition bfail : bres := {| bn := None; bb := None; br := None; bok := false |}.
Definition bnone : bres := {| bn := None; bb := None; br := None; bok := true |}.

(** a checkpoint taken at depth >= [d] is forgotten *)
Definition forget1 (d : nat) (t : aty) : aty :=
  match t with TCp d' => if Nat.leb d d' then TAny else t | _ => t end.
Definition forget_from (d : nat) (l : list aty) : list aty := map (forget1 d) l.
(** ... except the local [x] ([i] = index of the head of the list) *)
Fixpoint forget_from_but (d x i : nat) (l : list aty) : list aty :=
  match l with
  | [] => []
  | t :: r => (if Nat.eqb i x then t else forget1 d t) :: forget_from_but d x (S i) r
  end.

(** the builder received tokens / finished nodes at the current depth *)
Definition grow (a : bst) : bst :=
  {| dep := dep a; sta := if Nat.eqb (dep a) 0 then SMany else sta a; tys := tys a |}.

Definition bprim (pr : prim) (a : bst) : bres :=
  match pr with
  | PAssert _ | PExpect _ _ | PEat | PEatIf _ | PSkip | PErrorAndEat _ | PErrorAndRecover _ => bnorm (grow a) VBool
  | PError _ | PAtSet _ => bnorm a VBool
  | PStartNode _ =>
      bnorm {| dep := S (dep a);
               sta := if Nat.eqb (dep a) 0 then (match sta a with SZero => SZero | _ => SMany end) else sta a;
               tys := tys a |} VBool
  | PFinishNode =>
      match dep a with
      | O => bfail
      | S d => bnorm {| dep := d;
                        sta := if Nat.eqb d 0 then (match sta a with SZero => SOne | _ => SMany end) else sta a;
                        tys := forget_from (S d) (tys a) |} VBool
      end
  | PCheckpoint => bnorm a (VCp (dep a))
  | PStartNodeAt x _ =>
      match ty_at (tys a) x with
      | TCp d => if Nat.eqb d (dep a)
                 then bnorm {| dep := S (dep a); sta := if Nat.eqb (dep a) 0 then SMany else sta a;
                               tys := forget_from_but (dep a) x 0 (tys a) |} VBool
                 else bfail
      | _ => bfail
      end
  end.

Section BAN.
Variable sigs : list fsig.

Definition bcall (f : nat) (arg : option (nat * bool)) (a : bst) : bres :=
  match nth_error sigs f with
  | None => bfail
  | Some NoParam => match arg with None => bnorm (grow a) VBool | Some _ => bfail end
  | Some BoolParam =>
      match arg with
      | Some (x, _) => match ty_at (tys a) x with TBool => bnorm (grow a) VBool | _ => bfail end
      | None => bfail
      end
  | Some CpParam =>
      match arg with
      | Some (x, false) =>
          match ty_at (tys a) x with
          | TCp d => if Nat.eqb d (dep a)
                     then bnorm {| dep := dep a; sta := sta (grow a); tys := forget_from (dep a) (tys a) |} VBool
                     else bfail
          | _ => bfail
          end
      | _ => bfail
      end
  end.

Definition bbind (o : option (bst * vty)) (k : bst -> bres) : bres :=
  match o with None => bnone | Some (a, _) => k a end.
Definition is_bool (o : option (bst * vty)) : bool :=
  match o with Some (_, VBool) | None => true | _ => false end.

Fixpoint ban (e : expr) (a : bst) : bres :=
  match e with
  | EB _ => bnorm a VBool
  | EVar x => match ty_at (tys a) x with TBool => bnorm a VBool | TCp d => bnorm a (VCp d) | TAny => bfail end
  | ENot x => let q := ban x a in
              {| bn := bn q; bb := bb q; br := br q; bok := bok q && is_bool (bn q) |}
  | EPrim pr => bprim pr a
  | ECall f arg => bcall f arg a
  | ESeq x y =>
      let q := ban x a in
      let q2 := bbind (bn q) (ban y) in
      let '(b1, k1) := sjoin (bb q) (bb q2) in
      let '(r1, k2) := sjoin (br q) (br q2) in
      {| bn := bn q2; bb := b1; br := r1; bok := bok q && bok q2 && k1 && k2 |}
  | EIf c x y =>
      let q := ban c a in
      let qx := bbind (bn q) (ban x) in
      let qy := bbind (bn q) (ban y) in
      let '(n1, k0) := njoin (bn qx) (bn qy) in
      let '(b0, k1) := sjoin (bb qx) (bb qy) in
      let '(b1, k2) := sjoin (bb q) b0 in
      let '(r0, k3) := sjoin (br qx) (br qy) in
      let '(r1, k4) := sjoin (br q) r0 in
      {| bn := n1; bb := b1; br := r1;
         bok := bok q && is_bool (bn q) && bok qx && bok qy && k0 && k1 && k2 && k3 && k4 |}
  | EWhile c b =>
      let q := ban c a in
      let qb := bbind (bn q) (ban b) in
      let back := match bn qb with Some (a2, _) => ble a2 a | None => true end in
      let '(x1, k1) := sjoin (option_map fst (bn q)) (bb qb) in
      let '(r1, k2) := sjoin (br q) (br qb) in
      {| bn := option_map (fun x => (x, VBool)) x1; bb := None; br := r1;
         bok := bok q && is_bool (bn q) && (match bb q with None => true | Some _ => false end)
                && bok qb && back && k1 && k2 |}
  | EBreak => {| bn := None; bb := Some a; br := None; bok := true |}
  | EReturn x =>
      let q := ban x a in
      let '(r1, k1) := sjoin (option_map fst (bn q)) (br q) in
      {| bn := None; bb := bb q; br := r1; bok := bok q && is_bool (bn q) && k1 |}
  | ESet x y =>
      let q := ban y a in
      {| bn := match bn q with
               | Some (a1, v) =>
                   Some ({| dep := dep a1; sta := sta a1;
                            tys := ty_set (tys a1) x (match v with VBool => TBool | VCp d => TCp d end) |}, VBool)
               | None => None
               end;
         bb := bb q; br := br q; bok := bok q |}
  end.

Definition entry_tys (sg : fsig) : list aty :=
  match sg with NoParam => [] | BoolParam => [TBool] | CpParam => [TCp 0] end.
(** an exit state of a function with signature [sg] *)
Definition exit_state_ok (sg : fsig) (o : option bst) : bool :=
  match o with
  | None => true
  | Some a => Nat.eqb (dep a) 0 &&
              (match sg with BoolParam => aty_eqb (ty_at (tys a) 0) TBool | _ => true end)
  end.
Definition bchk_fn (sg : fsig) (body : expr) : bool :=
  let q := ban body {| dep := 0; sta := SMany; tys := entry_tys sg |} in
  bok q && is_bool (bn q) && (match bb q with None => true | Some _ => false end)
  && exit_state_ok sg (option_map fst (bn q)) && exit_state_ok sg (br q).
Fixpoint bchk_fns (l : list expr) (sg : list fsig) : bool :=
  match l, sg with
  | [], [] => true
  | b :: l', s :: sg' => bchk_fn s b && bchk_fns l' sg'
  | _, _ => false
  end.
(** the entry function, run on the empty builder, leaves exactly one node *)
Definition exit_one (o : option bst) : bool :=
  match o with None => true | Some a => Nat.eqb (dep a) 0 && sta_eqb (sta a) SOne end.
Definition bchk_entry (body : expr) : bool :=
  let q := ban body {| dep := 0; sta := SZero; tys := [] |} in
  bok q && is_bool (bn q) && (match bb q with None => true | Some _ => false end)
  && exit_one (option_map fst (bn q)) && exit_one (br q).
End BAN.

Definition bchk_all (p : prog) (sigs : list fsig) (entry : nat) : bool :=
  bchk_fns sigs (fns p) sigs &&
  match nth_error (fns p) entry, nth_error sigs entry with
  | Some body, Some NoParam => bchk_entry sigs body
  | _, _ => false
  end.
