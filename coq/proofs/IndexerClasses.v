(** IndexerClasses (group symmap, bridge to group scope): which classes the indexer model registers by name, and with
    which template parameters -- exactly those the specification [ClassVisit.cvisit] reads off the AST.
    - frame logic [hf]: everything below the statement level (values, types, items, parent lists) leaves the class map,
      the indexed files, the include stack, the KINDS of the scope stack and the signature (name, class flag, template
      parameter names) of every record unchanged;
    - template-argument declarations: register exactly the resolvable ones on the record on top of the scope stack;
    - statements: simulation with [cvisit].
    No hypothesis on the program. *)
From Coq Require Import List Arith NArith Bool Lia.
From TG.Model Require Import CoreAst Scope BangOps Indexer IndexerOps ClassVisit.
From TG.Proofs Require ScopeFrame.
Import ListNotations.
Open Scope N_scope.

(** ---- the frame *)
Definition sig (r : recd) : name * bool * list name := (rc_name r, rc_class r, map fst (rc_targs r)).
Record F (s s' : st) : Prop := {
  f_ncl : s_nclass s' = s_nclass s;
  f_idx : s_indexed s' = s_indexed s;
  f_tr : s_trace s' = s_trace s;
  f_kinds : map sc_kind (s_scopes s') = map sc_kind (s_scopes s);
  f_sig : map sig (s_recs s') = map sig (s_recs s) }.
Lemma F_refl : forall s, F s s.
Proof. intros s. split; reflexivity. Qed.
Lemma F_trans : forall a b c, F a b -> F b c -> F a c.
Proof. intros a b c [A1 A2 A3 A4 A5] [B1 B2 B3 B4 B5]. split; congruence. Qed.

Definition hf {B} (m : M B) : Prop := forall s, F s (snd (m s)).

Lemma hf_ret : forall B (x : B), hf (ret x). Proof. intros B x s. apply F_refl. Qed.
Lemma hf_none : forall B, hf (@none B). Proof. intros B s. apply F_refl. Qed.
Lemma hf_bad : forall B, hf (@bad B). Proof. intros B s. unfold bad. cbn [snd]. split; reflexivity. Qed.
Lemma hf_lift : forall B (o : option B), hf (lift o). Proof. intros B o s. apply F_refl. Qed.
Lemma hf_get : forall B (g : st -> B), hf (get g). Proof. intros B g s. apply F_refl. Qed.
Lemma hf_state : hf state. Proof. apply hf_get. Qed.
Lemma hf_here : forall r, hf (here r). Proof. intros r. apply hf_get. Qed.
Lemma hf_bind : forall B C (m : M B) (k : B -> M C), hf m -> (forall a, hf (k a)) -> hf (bind m k).
Proof.
  intros B C m k Hm Hk s. unfold bind. specialize (Hm s). destruct (m s) as [[a|] s1]; cbn [snd] in *; [|exact Hm].
  eapply F_trans; [exact Hm|apply Hk].
Qed.
Lemma hf_seq : forall B C (m : M B) (k : M C), hf m -> hf k -> hf (seq m k).
Proof. intros B C m k Hm Hk s. unfold seq. eapply F_trans; [apply Hm|apply Hk]. Qed.
Lemma hf_try : forall B (m : M B), hf m -> hf (try_ m).
Proof. intros B m Hm s. unfold try_. specialize (Hm s). destruct (m s). exact Hm. Qed.
Lemma hf_iterM : forall X B (g : X -> M B) l, (forall x, hf (g x)) -> hf (iterM g l).
Proof. intros X B g. induction l as [|x r IH]; intros H; cbn [iterM]; [apply hf_ret|apply hf_seq; [apply H|apply IH; exact H]]. Qed.
Lemma hf_mapM_opt : forall X B (g : X -> M B) l, (forall x, hf (g x)) -> hf (mapM_opt g l).
Proof.
  intros X B g. induction l as [|x r IH]; intros H; cbn [mapM_opt]; [apply hf_ret|].
  apply hf_bind; [apply hf_try; apply H|]. intros o. apply hf_bind; [apply IH; exact H|]. intros os. apply hf_ret.
Qed.

(** primitives *)
Lemma F_add_pos : forall r id s, F s (add_pos r id s).
Proof. intros. unfold add_pos. destruct (rng_empty r); split; reflexivity. Qed.
Lemma hf_error : forall r k, hf (error r k). Proof. intros r k s. split; reflexivity. Qed.
Lemma hf_err : forall r k, hf (err r k).
Proof. intros. unfold err. apply hf_bind; [apply hf_here|intros; apply hf_error]. Qed.
Lemma hf_emit : forall l, hf (emit l). Proof. intros. unfold emit. apply hf_iterM. intros. apply hf_err. Qed.
Lemma hf_next_anonymous : hf next_anonymous. Proof. intros s. split; reflexivity. Qed.
Lemma hf_add_reference : forall id loc, hf (add_reference id loc).
Proof. intros id loc s. unfold add_reference, upd. cbn [snd]. eapply F_trans; [|apply F_add_pos]. split; reflexivity. Qed.
Lemma hf_add_leaf : forall l, hf (add_leaf l).
Proof. intros l s. unfold add_leaf. cbn [snd]. eapply F_trans; [|apply F_add_pos]. split; reflexivity. Qed.
Lemma hf_add_leaf_nopos : forall l, hf (add_leaf_nopos l). Proof. intros l s. split; reflexivity. Qed.
Lemma hf_add_defset : forall l, hf (add_defset l).
Proof. intros l s. unfold add_defset. cbn [snd]. eapply F_trans; [|apply F_add_pos]. split; reflexivity. Qed.
Lemma hf_add_multiclass : forall n l, hf (add_multiclass n l).
Proof. intros n l s. unfold add_multiclass. cbn [snd]. eapply F_trans; [|apply F_add_pos]. split; reflexivity. Qed.
Lemma map_set_nth_same : forall X Y (h : X -> Y) (g : X -> X) n l, (forall x, h (g x) = h x) -> map h (set_nth n g l) = map h l.
Proof. intros X Y h g. induction n as [|n IH]; intros [|x r] H; cbn; try reflexivity; [rewrite H|rewrite IH by exact H]; reflexivity. Qed.
Lemma hf_record_mut : forall id g, (forall r, sig (g r) = sig r) -> hf (record_mut id g).
Proof.
  intros id g Hg s. unfold record_mut. destruct (nthN (s_recs s) id); [|apply hf_bad].
  cbn [snd]. split; try reflexivity. cbn. apply map_set_nth_same. exact Hg.
Qed.
Lemma hf_multiclass_mut : forall id g, hf (multiclass_mut id g).
Proof. intros id g s. unfold multiclass_mut. destruct (nthN (s_mcs s) id); [split; reflexivity|apply hf_bad]. Qed.
Lemma hf_scoped : forall B k (body : M B), hf body -> hf (scoped k body).
Proof.
  intros B k body H s. unfold scoped, seq, push_scope, upd. cbn [snd].
  set (s1 := set_scopes (mkScope k [] :: s_scopes s) s).
  unfold bind, try_. specialize (H s1). destruct (body s1) as [o s2]. cbn [snd] in *.
  destruct H as [H1 H2 H3 H4 H5]. unfold pop_scope. cbn in H4.
  destruct (s_scopes s2) as [|c t] eqn:E; [discriminate|]. cbn in H4. inversion H4. unfold lift. cbn [fst snd].
  split; cbn; try assumption.
Qed.
Lemma hf_scopes_add_variable : forall l, hf (scopes_add_variable l).
Proof.
  intros l. unfold scopes_add_variable. apply hf_bind; [apply hf_add_leaf|]. intros id s.
  destruct (s_scopes s) as [|c t] eqn:E; [apply hf_bad|]. cbn [snd]. split; try reflexivity. cbn. rewrite E. reflexivity.
Qed.

Ltac hfa :=
  repeat first
    [ solve [auto] | apply hf_ret | apply hf_none | apply hf_bad | apply hf_lift | apply hf_state | apply hf_get | apply hf_here
    | apply hf_error | apply hf_err | apply hf_emit | apply hf_next_anonymous | apply hf_add_reference | apply hf_add_leaf
    | apply hf_add_leaf_nopos | apply hf_add_defset | apply hf_add_multiclass | apply hf_multiclass_mut
    | apply hf_scopes_add_variable
    | (apply hf_record_mut; intros ?; reflexivity)
    | apply hf_scoped | (apply hf_bind; [|intros ?]) | apply hf_seq | apply hf_try
    | (apply hf_iterM; intros ?) | (apply hf_mapM_opt; intros ?)
    | solve [auto]
    | match goal with |- hf (match ?x with _ => _ end) => destruct x end ].

(** ---- everything below the statement level is a frame *)
Lemma f_leaf_of : forall i, hf (leaf_of i). Proof. intros. unfold leaf_of. hfa. Qed.
Lemma f_index_ty : forall t, hf (index_ty t).
Proof. induction t; cbn [index_ty]; hfa. Qed.
Lemma f_index_annot : forall op an r, hf (index_annot op an r).
Proof. intros. unfold index_annot. pose proof f_index_ty. hfa. Qed.
Lemma f_check_arity : forall op vs r, hf (check_arity op vs r).
Proof. intros. unfold check_arity. hfa. Qed.

Lemma f_sufs_loop : forall (l : list suffix) t,
  hf ((fix sufs_loop (t : mty) (l : list suffix) : M mty :=
           match l with
           | [] => ret t
           | sf :: r =>
             bind match sf with
                   | SufRange => lift (match t with MBits _ => Some MBit | _ => None end)
                   | SufSlice single => if single then lift (element_typ t) else ret t
                   | SufField i fr =>
                     bind (here (i_rng i)) (fun loc =>
                     bind state (fun s =>
                     match ty_find_field s t (i_name i) with
                     | None => match t with MUnknown => none | _ => seq (err fr DCannotAccessField) none end
                     | Some f => seq (add_reference (SyLeaf f) loc) (bind (leaf_of f) (fun lf => ret (lf_ty lf)))
                     end))
                   end (fun t' => sufs_loop t' r)
           end) t l).
Proof.
  induction l as [|sf r IH]; intros t; [apply hf_ret|]. apply hf_bind; [|intros t'; apply IH].
  pose proof f_leaf_of. destruct sf as [|single|i fr]; hfa.
Qed.

Definition fvalues_ok (n : nat) : Prop :=
  (forall v, hf (index_value n v)) /\ (forall x, hf (index_inner n x)) /\ (forall sv, hf (index_simple n sv)) /\
  (forall a, hf (index_arg n a)) /\ (forall op an vs r, hf (index_bang n op an vs r)) /\
  (forall op a vs r, hf (index_bang_ops n op a vs r)).
Lemma fvalues_ok_all : forall n, fvalues_ok n.
Proof.
  induction n as [|n (IHv & IHi & IHs & IHa & IHb & IHo)].
  - repeat split; intros; apply hf_bad.
  - pose proof f_index_annot. pose proof f_check_arity. pose proof f_sufs_loop.
    split; [|split; [|split; [|split; [|split]]]].
    + intros [r [|first rest]]; cbn [index_value]; hfa.
    + intros [sv sufs]; cbn [index_inner]. apply hf_bind; [apply IHs|intros; apply f_sufs_loop].
    + intros sv. destruct sv; cbn [index_simple]; hfa.
    + intros a. destruct a; cbn [index_arg]; hfa.
    + intros op an vs r. cbn [index_bang]. hfa.
    + intros op a vs r. cbn [index_bang_ops]. destruct op; hfa.
Qed.

Lemma f_index_value : forall n v, hf (index_value n v). Proof. intros n. apply (fvalues_ok_all n). Qed.
Lemma f_index_arg : forall n a, hf (index_arg n a). Proof. intros n. apply (fvalues_ok_all n). Qed.
Lemma f_index_args : forall n l, hf (index_args n l).
Proof. intros. unfold index_args. pose proof (f_index_arg n). hfa. Qed.
Lemma f_resolve_class : forall n c, hf (resolve_class_ref_as_class n c).
Proof. intros n [i args r]. cbn [resolve_class_ref_as_class]. pose proof (f_index_args n). hfa. Qed.
Lemma f_resolve_multiclass : forall n c, hf (resolve_class_ref_as_multiclass n c).
Proof. intros n [i args r]. cbn [resolve_class_ref_as_multiclass]. pose proof (f_index_args n). hfa. Qed.
Lemma f_index_parents : forall n ps, hf (index_parents n ps).
Proof. intros. unfold index_parents. pose proof (f_resolve_class n). pose proof (f_resolve_multiclass n). hfa. Qed.
Lemma f_index_name_value : forall v, hf (index_name_value v).
Proof. intros [r [|[sv sufs] rest]]; cbn [index_name_value]; hfa. Qed.
Lemma f_index_defvar : forall n i v, hf (index_defvar n i v).
Proof. intros. unfold index_defvar. pose proof (f_index_value n). hfa. Qed.
Lemma f_index_item : forall n it, hf (index_item n it).
Proof.
  intros n it. pose proof (f_index_value n). pose proof f_index_ty. pose proof f_leaf_of. pose proof (f_index_defvar n).
  destruct it; cbn [index_item]; hfa.
Qed.
Lemma f_record_body : forall n ps b, hf (index_record_body n ps b).
Proof. intros. unfold index_record_body. pose proof (f_index_parents n). pose proof (f_index_item n). hfa. Qed.
Lemma f_values : forall n vs, hf (iterM (index_value n) vs).
Proof. intros. pose proof (f_index_value n). hfa. Qed.

(** ---- name lookups in the class map *)
Lemma name_eqb_eq : forall a b, name_eqb a b = true <-> a = b.
Proof.
  induction a as [|x a IH]; destruct b as [|y b]; cbn; split; intros H; try reflexivity; try discriminate.
  - apply andb_true_iff in H. destruct H as [H1 H2]. apply N.eqb_eq in H1. apply IH in H2. subst. reflexivity.
  - inversion H. subst. rewrite N.eqb_refl. cbn. apply IH. reflexivity.
Qed.
Lemma find_class_known : forall s nm, (match find_class s nm with Some _ => true | None => false end) = known nm (map fst (s_nclass s)).
Proof.
  intros s nm. unfold find_class, known. induction (s_nclass s) as [|[k v] r IH]; cbn; [reflexivity|].
  destruct (name_eqb nm k); [reflexivity|exact IH].
Qed.

(** [index_ty] succeeds exactly on the types whose class names are registered *)
Lemma index_ty_result : forall t s,
  (match fst (index_ty t s) with Some _ => true | None => false end) = ty_known (map fst (s_nclass s)) t.
Proof.
  induction t; intros s; cbn [index_ty ty_known]; try reflexivity.
  - unfold bind. specialize (IHt s). destruct (index_ty t s) as [[x|] s1]; cbn [fst] in *; [|exact IHt]. cbn. exact IHt.
  - pose proof (find_class_known s (i_name i)) as H. unfold bind, here, get, state, seq. cbn.
    destruct (find_class s (i_name i)); cbn in *; exact H.
Qed.

(** ---- template-argument declarations *)
Lemma keys_imap_insert : forall k (v : N) m, map fst (imap_insert k v m) = kins k (map fst m).
Proof.
  intros k v. unfold kins, known. induction m as [|[k' v'] r IH]; cbn; [reflexivity|].
  destruct (name_eqb k k'); cbn; [reflexivity|]. rewrite IH. destruct (existsb (name_eqb k) (map fst r)); reflexivity.
Qed.
Lemma current_record_kinds : forall s s', map sc_kind (s_scopes s') = map sc_kind (s_scopes s) ->
  current_record_id s' = current_record_id s.
Proof.
  intros s s' H. unfold current_record_id. revert H. generalize (s_scopes s) (s_scopes s').
  induction l as [|c r IH]; intros [|c' r'] H; cbn in H; try discriminate; [reflexivity|].
  inversion H as [[Hk Hr]]. cbn. unfold sc_record_id. rewrite Hk. destruct (sc_kind c); try (apply IH; exact Hr); reflexivity.
Qed.

(** the signature of record [rid] gets the key [k]; all other signatures stay *)
Definition sig_ins (rid : N) (k : name) (l : list (name * bool * list name)) : list (name * bool * list name) :=
  set_nth (N.to_nat rid) (fun x => (fst x, kins k (snd x))) l.
Lemma map_sig_set_nth_targ : forall rid nm tid recs,
  map sig (set_nth (N.to_nat rid) (rec_add_targ nm tid) recs) = sig_ins rid nm (map sig recs).
Proof.
  intros rid nm tid. unfold sig_ins. generalize (N.to_nat rid). induction n as [|n IH]; intros [|r recs]; cbn [set_nth map]; try reflexivity.
  - unfold sig at 1. cbn [rec_add_targ rc_name rc_class rc_targs]. rewrite keys_imap_insert. reflexivity.
  - rewrite IH. reflexivity.
Qed.

(** what one template-argument declaration does when the innermost record scope is [rid] *)
Record FT (rid : N) (k : option name) (s s' : st) : Prop := {
  ft_ncl : s_nclass s' = s_nclass s;
  ft_idx : s_indexed s' = s_indexed s;
  ft_tr : s_trace s' = s_trace s;
  ft_kinds : map sc_kind (s_scopes s') = map sc_kind (s_scopes s);
  ft_sig : map sig (s_recs s') = match k with Some nm => sig_ins rid nm (map sig (s_recs s)) | None => map sig (s_recs s) end }.

Lemma FT_F : forall rid k s s3 s4, FT rid k s s3 -> F s3 s4 -> FT rid k s s4.
Proof. intros rid k s s3 s4 [A1 A2 A3 A4 A5] [B1 B2 B3 B4 B5]. split; congruence. Qed.

Lemma index_targ_record : forall n a s rid, current_record_id s = Some rid -> nthN (s_recs s) rid <> None ->
  match a with TArg t i _ =>
    FT rid (if ty_known (map fst (s_nclass s)) t then Some (i_name i) else None) s (snd (index_targ n a s)) end.
Proof.
  intros n [t i dflt] s rid Hc Hr. cbn [index_targ]. unfold bind at 1, here, get. cbn [fst snd].
  pose proof (index_ty_result t s) as Hty. pose proof (f_index_ty t s) as Ft.
  unfold bind at 1. destruct (index_ty t s) as [[typ|] s1]; cbn [fst snd] in *; rewrite <- Hty.
  2: { destruct Ft. split; assumption. }
  set (lf := mkLeaf LTArg (i_name i) typ match dflt with Some _ => true | None => false end (mkR (current_file s) (r_lo (i_rng i)) (r_hi (i_rng i)))).
  pose proof (hf_add_leaf lf s1) as Fl. unfold bind at 1.
  assert (El : fst (add_leaf lf s1) = Some (lenN (s_leaves s1))) by reflexivity.
  destruct (add_leaf lf s1) as [o s2]. cbn [fst snd] in *. subst o.
  pose proof (F_trans _ _ _ Ft Fl) as F2. unfold bind at 1, state, get. cbn [fst snd]. unfold seq.
  rewrite (current_record_kinds s s2 (f_kinds _ _ F2)), Hc.
  assert (Hr2 : nthN (s_recs s2) rid <> None).
  { intros E. apply Hr. pose proof (f_sig _ _ F2) as Hs. apply (f_equal (fun l => nth_error l (N.to_nat rid))) in Hs.
    rewrite !nth_error_map in Hs. unfold nthN in *. rewrite E in Hs. destruct (nth_error (s_recs s) (N.to_nat rid)); [discriminate|reflexivity]. }
  unfold record_mut. destruct (nthN (s_recs s2) rid) as [r2|]; [|contradiction]. cbn [snd].
  set (s3 := set_recs (set_nth (N.to_nat rid) (rec_add_targ (i_name i) (lenN (s_leaves s1))) (s_recs s2)) s2).
  apply (FT_F rid _ s s3).
  - destruct F2 as [A1 A2 A3 A4 A5]. split; try assumption.
    unfold s3. cbn [s_recs set_recs]. rewrite map_sig_set_nth_targ, A5. reflexivity.
  - destruct dflt as [v|]; [apply (hf_seq _ _ _ _ (f_index_value n v) (hf_none unit))|apply F_refl].
Qed.

(** ... and when there is no record scope (template arguments of a multiclass) *)
Lemma index_targ_norecord : forall n a s, current_record_id s = None -> F s (snd (index_targ n a s)).
Proof.
  intros n [t i dflt] s Hc. cbn [index_targ]. unfold bind at 1, here, get. cbn [fst snd].
  pose proof (f_index_ty t s) as Ft. unfold bind at 1. destruct (index_ty t s) as [[typ|] s1]; cbn [fst snd] in *; [|exact Ft].
  set (lf := mkLeaf LTArg (i_name i) typ match dflt with Some _ => true | None => false end (mkR (current_file s) (r_lo (i_rng i)) (r_hi (i_rng i)))).
  pose proof (hf_add_leaf lf s1) as Fl. unfold bind at 1.
  destruct (add_leaf lf s1) as [[tid|] s2]; cbn [fst snd] in *; [|eapply F_trans; eassumption].
  pose proof (F_trans _ _ _ Ft Fl) as F2. unfold bind at 1, state, get. cbn [fst snd].
  rewrite (current_record_kinds s s2 (f_kinds _ _ F2)), Hc.
  eapply F_trans; [exact F2|]. apply hf_seq.
  - destruct (current_multiclass_id s2); [apply hf_multiclass_mut|apply hf_bad].
  - destruct dflt as [v|]; [apply hf_seq; [apply f_index_value|apply hf_none]|apply hf_none].
Qed.

(** ---- the template arguments of a class: registered on the record on top of the scope stack *)
Definition sigs_after (rid : N) (kn : list name) (l : list targ) (sigs : list (name * bool * list name)) :=
  fold_left (fun acc a => match a with TArg t i _ => if ty_known kn t then sig_ins rid (i_name i) acc else acc end) l sigs.
Lemma sig_ins_length : forall rid k l, length (sig_ins rid k l) = length l.
Proof. intros. unfold sig_ins. generalize (N.to_nat rid). intros n. revert l. induction n; intros [|x r]; cbn; auto. Qed.

Lemma iter_targs_record : forall n rid l s, current_record_id s = Some rid -> (N.to_nat rid < length (s_recs s))%nat ->
  let s' := snd (iterM (index_targ n) l s) in
  s_nclass s' = s_nclass s /\ s_indexed s' = s_indexed s /\ s_trace s' = s_trace s /\
  map sc_kind (s_scopes s') = map sc_kind (s_scopes s) /\
  map sig (s_recs s') = sigs_after rid (map fst (s_nclass s)) l (map sig (s_recs s)).
Proof.
  intros n rid. induction l as [|a l IH]; intros s Hc Hr; cbn [iterM]; [cbn; repeat split; reflexivity|].
  unfold seq. set (s1 := snd (index_targ n a s)).
  assert (Hn : nthN (s_recs s) rid <> None) by (unfold nthN; intros E; apply nth_error_None in E; lia).
  pose proof (index_targ_record n a s rid Hc Hn) as H1. destruct a as [t i d]. fold s1 in H1. destruct H1 as [A1 A2 A3 A4 A5].
  assert (Hc1 : current_record_id s1 = Some rid) by (rewrite (current_record_kinds s s1 A4); exact Hc).
  assert (Hr1 : (N.to_nat rid < length (s_recs s1))%nat).
  { rewrite <- (map_length sig), A5. destruct (ty_known _ t); [rewrite sig_ins_length|]; rewrite map_length; exact Hr. }
  destruct (IH s1 Hc1 Hr1) as (B1 & B2 & B3 & B4 & B5).
  split; [congruence|]. split; [congruence|]. split; [congruence|]. split; [congruence|].
  rewrite B5, A1, A5. unfold sigs_after. cbn [fold_left]. destruct (ty_known (map fst (s_nclass s)) t); reflexivity.
Qed.
Lemma iter_targs_norecord : forall n l s, current_record_id s = None -> F s (snd (iterM (index_targ n) l s)).
Proof.
  intros n. induction l as [|a l IH]; intros s Hc; cbn [iterM]; [apply F_refl|]. unfold seq.
  pose proof (index_targ_norecord n a s Hc) as H1. eapply F_trans; [exact H1|]. apply IH.
  rewrite (current_record_kinds s _ (f_kinds _ _ H1)). exact Hc.
Qed.

(** what [sigs_after] does to the entry [rid] and to the others *)
Lemma nth_sig_ins_same : forall rid k l x, nth_error l (N.to_nat rid) = Some x ->
  nth_error (sig_ins rid k l) (N.to_nat rid) = Some (fst x, kins k (snd x)).
Proof. intros rid k. unfold sig_ins. generalize (N.to_nat rid). induction n; intros [|y r] x H; cbn in *; try discriminate; [inversion H; reflexivity|apply IHn; exact H]. Qed.
Lemma nth_sig_ins_other : forall rid k l j, j <> N.to_nat rid -> nth_error (sig_ins rid k l) j = nth_error l j.
Proof.
  intros rid k. unfold sig_ins. generalize (N.to_nat rid). induction n; intros [|y r] j H; cbn; try reflexivity.
  - destruct j; [contradiction|reflexivity].
  - destruct j; [reflexivity|]. cbn. apply IHn. intros E. apply H. f_equal. exact E.
Qed.
Lemma sigs_after_cons : forall rid kn t i d l sigs,
  sigs_after rid kn (TArg t i d :: l) sigs = sigs_after rid kn l (if ty_known kn t then sig_ins rid (i_name i) sigs else sigs).
Proof. reflexivity. Qed.
Lemma sigs_after_same : forall rid kn l sigs n0 c0 keys,
  nth_error sigs (N.to_nat rid) = Some (n0, c0, keys) ->
  nth_error (sigs_after rid kn l sigs) (N.to_nat rid) =
    Some (n0, c0, fold_left (fun acc a => match a with TArg t i _ => if ty_known kn t then kins (i_name i) acc else acc end) l keys).
Proof.
  intros rid kn. induction l as [|[t i d] l IH]; intros sigs n0 c0 keys H; [exact H|].
  rewrite sigs_after_cons. cbn [fold_left]. destruct (ty_known kn t); [|apply IH; exact H].
  apply IH. apply (nth_sig_ins_same rid (i_name i) sigs (n0, c0, keys) H).
Qed.
Lemma sigs_after_other : forall rid kn l sigs j, j <> N.to_nat rid -> nth_error (sigs_after rid kn l sigs) j = nth_error sigs j.
Proof.
  intros rid kn. induction l as [|[t i d] l IH]; intros sigs j H; [reflexivity|].
  rewrite sigs_after_cons. rewrite IH by exact H. destruct (ty_known kn t); [apply nth_sig_ins_other; exact H|reflexivity].
Qed.

(** ---- the relation between a state of the indexer model and a state of the specification *)
Definition ND (x : name * bool * list name) : Prop := NoDup (snd x).
Definition cls_ok (s : st) (e : name * N) (c : name * list name) : Prop :=
  fst e = fst c /\ nth_error (map sig (s_recs s)) (N.to_nat (snd e)) = Some (fst c, true, snd c).
Record Inv (s : st) (v : cvst) : Prop := {
  i_idx : s_indexed s = cv_indexed v;
  i_cls : Forall2 (cls_ok s) (s_nclass s) (cv_classes v);
  i_norec : current_record_id s = None;
  i_nd : Forall ND (map sig (s_recs s)) }.

(** statement-level frame: records may be appended *)
Record FA (s s' : st) : Prop := {
  fa_ncl : s_nclass s' = s_nclass s;
  fa_idx : s_indexed s' = s_indexed s;
  fa_tr : s_trace s' = s_trace s;
  fa_kinds : map sc_kind (s_scopes s') = map sc_kind (s_scopes s);
  fa_sig : exists extra, map sig (s_recs s') = map sig (s_recs s) ++ extra /\ Forall ND extra }.
Lemma FA_refl : forall s, FA s s.
Proof. intros s. split; try reflexivity. exists []. rewrite app_nil_r. split; [reflexivity|constructor]. Qed.
Lemma FA_trans : forall a b c, FA a b -> FA b c -> FA a c.
Proof.
  intros a b c [A1 A2 A3 A4 (e1 & A5 & A6)] [B1 B2 B3 B4 (e2 & B5 & B6)]. split; try congruence.
  exists (e1 ++ e2). rewrite B5, A5, app_assoc. split; [reflexivity|apply Forall_app; split; assumption].
Qed.
Lemma FA_of_F : forall s s', F s s' -> FA s s'.
Proof. intros s s' [A1 A2 A3 A4 A5]. split; try assumption. exists []. rewrite app_nil_r. split; [exact A5|constructor]. Qed.

Lemma Forall2_imp : forall X Y (P Q : X -> Y -> Prop) l l', (forall x y, P x y -> Q x y) -> Forall2 P l l' -> Forall2 Q l l'.
Proof. intros X Y P Q l l' H H2. induction H2; constructor; auto. Qed.
Lemma Inv_FA : forall s s' v, FA s s' -> Inv s v -> Inv s' v.
Proof.
  intros s s' v [A1 A2 A3 A4 (extra & A5 & A6)] [I1 I2 I3 I4]. split.
  - congruence.
  - rewrite A1. eapply Forall2_imp; [|exact I2]. intros e c [H1 H2]. split; [exact H1|].
    rewrite A5. rewrite nth_error_app1; [exact H2|]. apply nth_error_Some. congruence.
  - rewrite (current_record_kinds s s' A4). exact I3.
  - rewrite A5. apply Forall_app. split; assumption.
Qed.

Definition kinds (s : st) : list skind := map sc_kind (s_scopes s).
Definition SimB (m : M unit) (fv : cvst -> cvst) : Prop :=
  forall s v, Inv s v -> Inv (snd (m s)) (fv v) /\ kinds (snd (m s)) = kinds s /\ s_trace (snd (m s)) = s_trace s.
Definition hfA {B} (m : M B) : Prop := forall s, FA s (snd (m s)).
Lemma hfA_of_hf : forall B (m : M B), hf m -> hfA m.
Proof. intros B m H s. apply FA_of_F. apply H. Qed.
Lemma hfA_bind : forall B C (m : M B) (k : B -> M C), hfA m -> (forall a, hfA (k a)) -> hfA (bind m k).
Proof.
  intros B C m k Hm Hk s. unfold bind. specialize (Hm s). destruct (m s) as [[a|] s1]; cbn [snd] in *; [|exact Hm].
  eapply FA_trans; [exact Hm|apply Hk].
Qed.
Lemma hfA_seq : forall B C (m : M B) (k : M C), hfA m -> hfA k -> hfA (seq m k).
Proof. intros B C m k Hm Hk s. unfold seq. eapply FA_trans; [apply Hm|apply Hk]. Qed.
Lemma hfA_scoped : forall B k (body : M B), hfA body -> hfA (scoped k body).
Proof.
  intros B k body H s. unfold scoped, seq, push_scope, upd. cbn [snd].
  set (s1 := set_scopes (mkScope k [] :: s_scopes s) s).
  unfold bind, try_. specialize (H s1). destruct (body s1) as [o s2]. cbn [snd] in *.
  destruct H as [H1 H2 H3 H4 H5]. unfold pop_scope. cbn in H4.
  destruct (s_scopes s2) as [|c t] eqn:E; [discriminate|]. cbn in H4. inversion H4. unfold lift. cbn [fst snd].
  split; cbn; try assumption.
Qed.
Lemma hfA_add_record_def : forall nm loc, hfA (add_record nm false loc).
Proof.
  intros nm loc s. unfold add_record. cbn [snd]. eapply FA_trans; [|apply FA_of_F; apply F_add_pos].
  split; try reflexivity. exists [sig (mkRec nm false [] [] [] loc)]. cbn. rewrite map_app. split; [reflexivity|].
  constructor; [constructor|constructor].
Qed.
Lemma hfA_add_anonymous_def : forall nm loc, hfA (add_anonymous_def nm loc).
Proof.
  intros nm loc s. unfold add_anonymous_def. cbn [snd]. split; try reflexivity.
  exists [sig (mkRec nm false [] [] [] loc)]. cbn. rewrite map_app. split; [reflexivity|]. constructor; [constructor|constructor].
Qed.

(** ---- composition rules for the simulation *)
Lemma SimB_frame : forall m, hfA m -> SimB m (fun v => v).
Proof.
  intros m H s v HI. specialize (H s). split; [eapply Inv_FA; eassumption|]. destruct H as [_ _ A3 A4 _]. split; assumption.
Qed.
Lemma SimB_seq : forall (m1 m2 : M unit) f1 f2, SimB m1 f1 -> SimB m2 f2 -> SimB (seq m1 m2) (fun v => f2 (f1 v)).
Proof.
  intros m1 m2 f1 f2 H1 H2 s v HI. unfold seq. destruct (H1 s v HI) as (A1 & A2 & A3).
  destruct (H2 _ _ A1) as (B1 & B2 & B3). split; [exact B1|]. split; congruence.
Qed.
Lemma SimB_seqF : forall B (m1 : M B) (m2 : M unit) f2, hfA m1 -> SimB m2 f2 -> SimB (seq m1 m2) f2.
Proof.
  intros B m1 m2 f2 H1 H2 s v HI. unfold seq. specialize (H1 s). pose proof (Inv_FA _ _ _ H1 HI) as A1.
  destruct (H2 _ _ A1) as (B1 & B2 & B3). destruct H1 as [_ _ A3 A4 _]. split; [exact B1|]. unfold kinds in *. split; congruence.
Qed.
(** a frame computation that always returns a value, then a simulated continuation *)
Lemma SimB_bindF : forall B (m : M B) (k : B -> M unit) fv,
  hfA m -> (forall s, fst (m s) <> None) -> (forall a, SimB (k a) fv) -> SimB (bind m k) fv.
Proof.
  intros B m k fv Hm Ht Hk s v HI. unfold bind. specialize (Hm s). specialize (Ht s).
  destruct (m s) as [[a|] s1]; cbn [fst snd] in *; [|contradiction].
  pose proof (Inv_FA _ _ _ Hm HI) as A1. destruct (Hk a _ _ A1) as (B1 & B2 & B3).
  destruct Hm as [_ _ A3 A4 _]. split; [exact B1|]. unfold kinds in *. split; congruence.
Qed.
Lemma iterM_state : forall X B (g : X -> M B) l s, snd (iterM g l s) = fold_left (fun a y => snd (g y a)) l s.
Proof. intros X B g. induction l as [|x r IH]; intros s; cbn [iterM fold_left]; [reflexivity|]. unfold seq. apply IH. Qed.
Lemma SimB_iter : forall X (g : X -> M unit) (h : X -> cvst -> cvst) l,
  (forall y, SimB (g y) (h y)) -> SimB (iterM g l) (fun v => fold_left (fun a y => h y a) l v).
Proof.
  intros X g h. induction l as [|x r IH]; intros H s v HI; cbn [iterM fold_left].
  - cbn. split; [exact HI|split; reflexivity].
  - unfold seq. destruct (H x s v HI) as (A1 & A2 & A3). destruct (IH H _ _ A1) as (B1 & B2 & B3).
    split; [exact B1|]. split; congruence.
Qed.
Definition nonrec (k : skind) : Prop := match k with KRecord _ => False | _ => True end.
Lemma SimB_scoped : forall k (body : M unit) fv, nonrec k -> SimB body fv -> SimB (scoped k body) fv.
Proof.
  intros k body fv Hk H s v HI. unfold scoped, seq, push_scope, upd. cbn [snd].
  set (s1 := set_scopes (mkScope k [] :: s_scopes s) s).
  assert (HI1 : Inv s1 v).
  { destruct HI as [I1 I2 I3 I4]. split; try assumption. unfold current_record_id in *. cbn. unfold sc_record_id at 1. cbn.
    destruct k; try exact I3. contradiction. }
  destruct (H s1 v HI1) as (A1 & A2 & A3). unfold bind, try_. destruct (body s1) as [o s2]. cbn [snd] in *.
  unfold kinds in A2. cbn in A2. unfold pop_scope. destruct (s_scopes s2) as [|c t] eqn:E; [discriminate|]. cbn in A2. inversion A2 as [[Hc Ht]].
  unfold lift. cbn [fst snd].
  assert (Hk2 : map sc_kind (s_scopes (set_scopes t s2)) = map sc_kind (s_scopes s)) by exact Ht.
  split; [|split; [exact Hk2|exact A3]].
  destruct A1 as [I1 I2 I3 I4]. destruct HI as [J1 J2 J3 J4]. split; try assumption.
  rewrite (current_record_kinds s _ Hk2). exact J3.
Qed.
Lemma SimB_seqC : forall B (m1 : M B) (m2 : M unit) f2,
  (forall s v, Inv s v -> FA s (snd (m1 s))) -> SimB m2 f2 -> SimB (seq m1 m2) f2.
Proof.
  intros B m1 m2 f2 H1 H2 s v HI. unfold seq. specialize (H1 s v HI). pose proof (Inv_FA _ _ _ H1 HI) as A1.
  destruct (H2 _ _ A1) as (B1 & B2 & B3). destruct H1 as [_ _ A3 A4 _]. split; [exact B1|]. unfold kinds in *. split; congruence.
Qed.

Lemma Inv_same : forall s s' v, s_indexed s' = s_indexed s -> s_nclass s' = s_nclass s -> s_recs s' = s_recs s ->
  s_scopes s' = s_scopes s -> Inv s v -> Inv s' v.
Proof.
  intros s s' v E1 E2 E3 E4 [I1 I2 I3 I4]. split.
  - congruence.
  - rewrite E2. eapply Forall2_imp; [|exact I2]. intros e c [H1 H2]. split; [exact H1|]. rewrite E3. exact H2.
  - unfold current_record_id in *. rewrite E4. exact I3.
  - rewrite E3. exact I4.
Qed.
Lemma known_names : forall s v, Inv s v -> map fst (s_nclass s) = map fst (cv_classes v).
Proof. intros s v [_ I2 _ _]. induction I2 as [|e c l l' [H _] _ IH]; cbn; [reflexivity|]. rewrite H, IH. reflexivity. Qed.
Lemma pop_file_eq' : forall s2 g l, s_trace s2 = g :: l -> pop_file s2 = (Some tt, set_files l (s_indexed s2) s2).
Proof. intros s2 g l H. unfold pop_file. rewrite H. reflexivity. Qed.

Lemma kins_nodup : forall k keys, NoDup keys -> NoDup (kins k keys).
Proof.
  intros k keys H. unfold kins, known. destruct (existsb (name_eqb k) keys) eqn:E; [exact H|].
  assert (Hn : ~ In k keys).
  { intros Hin. assert (existsb (name_eqb k) keys = true) by (apply existsb_exists; exists k; split; [exact Hin|apply name_eqb_eq; reflexivity]). congruence. }
  clear E. induction H as [|x l Hx Hl IH]; cbn; [constructor; [intros []|constructor]|].
  constructor.
  - intros Hin. apply in_app_or in Hin. destruct Hin as [Hin|[<-|[]]]; [exact (Hx Hin)|]. apply Hn. left. reflexivity.
  - apply IH. intros Hin. apply Hn. right. exact Hin.
Qed.
Lemma sig_ins_nd : forall rid k l, Forall ND l -> Forall ND (sig_ins rid k l).
Proof.
  intros rid k. unfold sig_ins. generalize (N.to_nat rid). induction n; intros [|x r] H; cbn; try exact H; inversion H; subst; constructor; auto.
  unfold ND in *. cbn. apply kins_nodup. assumption.
Qed.
Lemma sigs_after_nd : forall rid kn l sigs, Forall ND sigs -> Forall ND (sigs_after rid kn l sigs).
Proof.
  intros rid kn. induction l as [|[t i d] l IH]; intros sigs H; [exact H|]. rewrite sigs_after_cons. apply IH.
  destruct (ty_known kn t); [apply sig_ins_nd; exact H|exact H].
Qed.

Lemma SimB_intro : forall m fv,
  (forall s v, Inv s v -> forall sF, sF = snd (m s) -> Inv sF (fv v) /\ kinds sF = kinds s /\ s_trace sF = s_trace s) -> SimB m fv.
Proof. intros m fv H s v HI. exact (H s v HI _ eq_refl). Qed.

(** ---- a class statement *)
Lemma add_record_class_fields : forall nm loc s,
  let s1 := snd (add_record nm true loc s) in
  fst (add_record nm true loc s) = Some (lenN (s_recs s)) /\
  s_nclass s1 = (nm, lenN (s_recs s)) :: s_nclass s /\ s_recs s1 = s_recs s ++ [mkRec nm true [] [] [] loc] /\
  s_indexed s1 = s_indexed s /\ s_trace s1 = s_trace s /\ s_scopes s1 = s_scopes s.
Proof. intros nm loc s. unfold add_record, add_pos. cbn [fst snd]. destruct (rng_empty loc); repeat split; reflexivity. Qed.

Definition class_comp (n : nat) (i : ident) (targs : option (list targ)) (ps : list classref) (b : list item) : M unit :=
  bind (here (i_rng i)) (fun loc => bind (add_record (i_name i) true loc) (fun rid =>
    scoped (KRecord rid) (seq (match targs with Some l => iterM (index_targ n) l | None => ret tt end) (index_record_body n ps b)))).

Lemma sim_class : forall n i targs ps b,
  SimB (class_comp n i targs ps b)
       (fun v => mkCV (cv_indexed v) ((i_name i, reg_targs (i_name i :: map fst (cv_classes v)) targs) :: cv_classes v)).
Proof.
  intros n i targs ps b. apply SimB_intro. intros s v HI sF EF.
  unfold class_comp, bind at 1, here, get in EF. cbn [fst snd] in EF.
  set (loc := mkR (current_file s) (r_lo (i_rng i)) (r_hi (i_rng i))) in *.
  destruct (add_record_class_fields (i_name i) loc s) as (E0 & E1 & E2 & E3 & E4 & E5).
  unfold bind at 1 in EF. destruct (add_record (i_name i) true loc s) as [o s1]. cbn [fst snd] in *. subst o.
  set (rid := lenN (s_recs s)) in *.
  unfold scoped, seq at 1, push_scope, upd in EF. cbn [snd] in EF.
  set (s2 := set_scopes (mkScope (KRecord rid) [] :: s_scopes s1) s1) in *.
  assert (Hc2 : current_record_id s2 = Some rid) by reflexivity.
  assert (Hr2 : (N.to_nat rid < length (s_recs s2))%nat).
  { change (s_recs s2) with (s_recs s1). rewrite E2, app_length. unfold rid, lenN. rewrite Nnat.Nat2N.id. cbn. lia. }
  set (tm := match targs with Some l => iterM (index_targ n) l | None => ret tt end) in *.
  set (tl := match targs with Some l => l | None => [] end).
  assert (Ht : let s3 := snd (tm s2) in
               s_nclass s3 = s_nclass s2 /\ s_indexed s3 = s_indexed s2 /\ s_trace s3 = s_trace s2 /\
               map sc_kind (s_scopes s3) = map sc_kind (s_scopes s2) /\
               map sig (s_recs s3) = sigs_after rid (map fst (s_nclass s2)) tl (map sig (s_recs s2))).
  { unfold tm, tl. destruct targs as [l|]; [apply iter_targs_record; assumption|cbn; repeat split; reflexivity]. }
  cbn zeta in Ht. destruct Ht as (T1 & T2 & T3 & T4 & T5).
  unfold bind, try_, seq in EF. set (s3 := snd (tm s2)) in *.
  pose proof (f_record_body n ps b s3) as Fb. destruct (index_record_body n ps b s3) as [o s4]. cbn [snd] in *.
  destruct Fb as [B1 B2 B3 B4 B5].
  assert (Hk4 : map sc_kind (s_scopes s4) = KRecord rid :: map sc_kind (s_scopes s)).
  { rewrite B4, T4. cbn. rewrite E5. reflexivity. }
  unfold pop_scope in EF. destruct (s_scopes s4) as [|c t] eqn:Es4; [discriminate|]. cbn in Hk4. inversion Hk4 as [[Hkc Hkt]].
  unfold lift in EF. cbn [fst snd] in EF.
  set (s5 := set_scopes t s4) in *.
  assert (EF5 : sF = s5) by (rewrite EF; destruct o; reflexivity). clear EF. subst sF.
  assert (Hsig : map sig (s_recs s5) = sigs_after rid (i_name i :: map fst (s_nclass s)) tl (map sig (s_recs s) ++ [(i_name i, true, [])])).
  { change (s_recs s5) with (s_recs s4). rewrite B5, T5. change (s_nclass s2) with (s_nclass s1). change (s_recs s2) with (s_recs s1).
    rewrite E1, E2, map_app. reflexivity. }
  assert (Hlen : length (map sig (s_recs s)) = N.to_nat rid) by (rewrite map_length; unfold rid, lenN; rewrite Nnat.Nat2N.id; reflexivity).
  split; [|split].
  - destruct HI as [I1 I2 I3 I4]. split.
    + cbn [cv_indexed]. change (s_indexed s5) with (s_indexed s4). rewrite B2, T2. change (s_indexed s2) with (s_indexed s1). congruence.
    + change (s_nclass s5) with (s_nclass s4). rewrite B1, T1. change (s_nclass s2) with (s_nclass s1). rewrite E1. cbn [cv_classes].
      constructor.
      * split; [reflexivity|]. cbn [fst snd]. rewrite Hsig.
        rewrite (sigs_after_same rid _ tl _ (i_name i) true []).
        -- rewrite (known_names s v (Build_Inv _ _ I1 I2 I3 I4)). unfold reg_targs, tl. destruct targs; reflexivity.
        -- rewrite nth_error_app2 by lia. rewrite Hlen, Nat.sub_diag. reflexivity.
      * eapply Forall2_imp; [|exact I2]. intros e c0 [H1 H2]. split; [exact H1|]. rewrite Hsig.
        assert (Hlt : (N.to_nat (snd e) < length (map sig (s_recs s)))%nat) by (apply nth_error_Some; congruence).
        rewrite sigs_after_other by lia. rewrite nth_error_app1 by exact Hlt. exact H2.
    + rewrite (current_record_kinds s s5 Hkt). exact I3.
    + rewrite Hsig. apply sigs_after_nd. apply Forall_app. split; [exact I4|]. constructor; [constructor|constructor].
  - exact Hkt.
  - change (s_trace s5) with (s_trace s4). rewrite B3, T3. change (s_trace s2) with (s_trace s1). exact E4.
Qed.

(** ---- statements *)
Section Stmts.
Variable files : list (list stmt).

Lemma Some_ne : forall B (a : B), Some a <> None. Proof. intros; discriminate. Qed.

Lemma sim_include : forall n r g,
  (forall b, SimB (iterM (index_stmt files n) b) (fun v => fold_left (fun a y => cvisit files n y a) b v)) ->
  SimB (index_stmt files (S n) (SInclude r (Some g))) (cvisit files (S n) (SInclude r (Some g))).
Proof.
  intros n r g Hl. apply SimB_intro. intros s v HI sF EF. cbn [index_stmt cvisit] in *.
  unfold bind at 1, state, get in EF. cbn [fst snd] in EF. rewrite <- (i_idx _ _ HI).
  destruct (existsb (N.eqb g) (s_indexed s)) eqn:Ei.
  - cbn in EF. subst sF. split; [exact HI|split; reflexivity].
  - unfold seq at 1, upd in EF. cbn [snd] in EF.
    set (s0 := set_files (s_trace s) (g :: s_indexed s) s) in *.
    set (v0 := mkCV (g :: s_indexed s) (cv_classes v)).
    assert (HI0 : Inv s0 v0).
    { destruct HI as [I1 I2 I3 I4]. split; [reflexivity|exact I2|exact I3|exact I4]. }
    unfold bind at 1, lift in EF. cbn [fst snd] in EF. destruct (nthN files g) as [body|].
    + unfold seq, push_file, upd in EF. cbn [snd] in EF.
      set (s1 := set_files (g :: s_trace s0) (s_indexed s0) s0) in *.
      assert (HI1 : Inv s1 v0) by (eapply Inv_same; [| | | |exact HI0]; reflexivity).
      destruct (Hl body s1 v0 HI1) as (A1 & A2 & A3). set (s2 := snd (iterM (index_stmt files n) body s1)) in *.
      rewrite (pop_file_eq' s2 g (s_trace s)) in EF by (rewrite A3; reflexivity). cbn [snd] in EF. subst sF.
      split; [eapply Inv_same; [| | | |exact A1]; reflexivity|]. split; [exact A2|reflexivity].
    + cbn in EF. subst sF. split; [exact HI0|split; reflexivity].
Qed.

Lemma sim_defset : forall n t i b,
  (forall b, SimB (iterM (index_stmt files n) b) (fun v => fold_left (fun a y => cvisit files n y a) b v)) ->
  SimB (index_stmt files (S n) (SDefset t i b)) (cvisit files (S n) (SDefset t i b)).
Proof.
  intros n t i b Hl. apply SimB_intro. intros s v HI sF EF. cbn [index_stmt cvisit] in *.
  unfold bind at 1, here, get in EF. cbn [fst snd] in EF.
  set (loc := mkR (current_file s) (r_lo (i_rng i)) (r_hi (i_rng i))) in *.
  pose proof (index_ty_result t s) as Hty. pose proof (f_index_ty t s) as Ft. rewrite (known_names s v HI) in Hty.
  unfold bind at 1 in EF. destruct (index_ty t s) as [[typ|] s1]; cbn [fst snd] in *; rewrite <- Hty.
  - pose proof (Inv_FA _ _ _ (FA_of_F _ _ Ft) HI) as HI1.
    destruct (SimB_bindF _ (add_defset (mkLeaf LDefset (i_name i) typ false loc))
                (fun did => scoped (KDefset did) (iterM (index_stmt files n) b)) _
                (hfA_of_hf _ _ (hf_add_defset _)) (fun s0 => Some_ne _ _) (fun did => SimB_scoped (KDefset did) _ _ I (Hl b)) s1 v HI1)
      as (A1 & A2 & A3).
    rewrite <- EF in A1, A2, A3.
    destruct Ft as [_ _ B3 B4 _]. split; [exact A1|]. unfold kinds in *. split; congruence.
  - subst sF. split; [exact (Inv_FA _ _ _ (FA_of_F _ _ Ft) HI)|]. destruct Ft as [_ _ B3 B4 _]. split; assumption.
Qed.

Theorem sim_stmt : forall n x, SimB (index_stmt files n x) (cvisit files n x).
Proof.
  induction n as [|n IH]; intros x.
  - exact (SimB_frame _ (hfA_of_hf _ _ (hf_bad unit))).
  - assert (Hl : forall b, SimB (iterM (index_stmt files n) b) (fun v => fold_left (fun a y => cvisit files n y a) b v))
      by (intros b; apply SimB_iter; exact IH).
    pose proof (f_index_value n) as Fv.
    destruct x.
    + destruct target as [g|]; [apply sim_include; exact Hl|].
      cbn [index_stmt cvisit]. apply SimB_frame. apply hfA_of_hf. hfa.
    + cbn [index_stmt cvisit]. apply SimB_frame. apply hfA_of_hf. hfa.
    + exact (sim_class n i targs parents body).
    + (* def *)
      cbn [index_stmt cvisit]. apply SimB_frame. apply hfA_bind.
      * destruct nm as [v|].
        -- apply hfA_bind; [apply hfA_of_hf; apply f_index_name_value|intros p; apply hfA_add_record_def].
        -- apply hfA_seq; [apply hfA_of_hf; apply hf_next_anonymous|].
           apply hfA_bind; [apply hfA_of_hf; apply hf_here|intros loc; apply hfA_add_anonymous_def].
      * intros did. apply hfA_scoped. apply hfA_of_hf. apply f_record_body.
    + (* defm *)
      cbn [index_stmt cvisit]. apply SimB_frame. apply hfA_of_hf.
      pose proof f_index_name_value. pose proof (f_index_parents n). hfa.
    + apply sim_defset. exact Hl.
    + cbn [index_stmt cvisit]. apply SimB_frame. apply hfA_of_hf. apply f_index_defvar.
    + cbn [index_stmt cvisit]. apply SimB_frame. apply hfA_of_hf. hfa.
    + (* foreach *)
      cbn [index_stmt cvisit].
      apply SimB_bindF; [apply hfA_of_hf; apply hf_here|intros s0; apply Some_ne|]. intros loc.
      apply SimB_bindF; [apply hfA_of_hf; destruct init; hfa| |].
      { intros s0. unfold try_. destruct (match init with FeRange => ret MInt | FeValue v => _ end s0). apply Some_ne. }
      intros o. apply SimB_bindF; [apply hfA_of_hf; apply hf_add_leaf|intros s0; apply Some_ne|].
      intros vid. apply SimB_scoped; [exact I|apply Hl].
    + (* if *)
      cbn [index_stmt cvisit]. apply SimB_seqF; [apply hfA_of_hf; apply Fv|].
      pose proof (SimB_iter _ (fun body => scoped KBlock (iterM (index_stmt files n) body))
                    (fun body v => fold_left (fun a y => cvisit files n y a) body v)
                    (th :: match el with Some e => [e] | None => [] end)
                    (fun body => SimB_scoped KBlock _ _ I (Hl body))) as H.
      destruct el; exact H.
    + (* let *)
      cbn [index_stmt cvisit]. apply SimB_seqF; [apply hfA_of_hf; apply f_values|]. apply SimB_scoped; [exact I|apply Hl].
    + (* multiclass *)
      cbn [index_stmt cvisit].
      apply SimB_bindF; [apply hfA_of_hf; apply hf_here|intros s0; apply Some_ne|]. intros loc.
      apply SimB_bindF; [apply hfA_of_hf; apply hf_add_multiclass|intros s0; apply Some_ne|]. intros mid.
      apply SimB_scoped; [exact I|].
      apply SimB_seqC.
      * intros s0 v0 H0. apply FA_of_F. destruct targs as [l|]; [apply iter_targs_norecord; apply (i_norec _ _ H0)|apply F_refl].
      * apply SimB_seqF; [apply hfA_of_hf; apply f_index_parents|apply Hl].
Qed.
End Stmts.

(** ---- the workspace theorem: the class map of the indexer model after indexing = what the specification reads off the AST *)
Lemma Inv_st0 : Inv st0 cv0.
Proof. split; [reflexivity|constructor|reflexivity|constructor]. Qed.

Theorem index_ws_classes : forall w, Inv (index_ws w) (cvisit_ws w).
Proof.
  intros w. unfold index_ws, cvisit_ws. destruct (ws_files w) as [|root rest]; [apply Inv_st0|].
  apply (SimB_iter _ _ _ root (sim_stmt (root :: rest) (ws_fuel w)) st0 cv0 Inv_st0).
Qed.
Print Assumptions index_ws_classes.
