(** C03 end to end: [Pipeline.analyze] (text -> parser -> include resolution -> bridge -> indexer) never fails:
    for every in-memory disk and root whose paths are not a file-system root, there are fuels with which
    every file parses (C02_total), include resolution returns (C16_terminates, C16_links), the bridge returns a Core
    AST or a "noncore" reason (core_of_tree_total), and on every Core workspace the indexer model reaches no modelled
    panic and does not run out of fuel (index_ws_total). *)
From Coq Require Import List NArith Bool String PeanoNat Lia.
From TG.Gen Require Import GenTokens GenAst GenGrammar.
From TG.Model Require Import Chars Lexer Prep Tree ParserPrims GInterp AstAccess CoreAst AstToCore Scope Indexer.
From TG.Model Require Includes Host.
From TG.Model Require Import Pipeline.
From TG.Proofs Require Import LookProgSound ParserTop IncludesGraph IncludesRefine HostTheorems.
From TG.Proofs Require Import BridgeProofs PipelineProofs IndexerTotal.
Import ListNotations.
Close Scope string_scope.
Open Scope N_scope.
Open Scope list_scope.

(** * One parser fuel for finitely many texts *)
Lemma parse_with_mono n n' txt t errs st : (n <= n')%nat ->
  parse_with n grammar_prog grammar_entry txt = ParseOk t errs st ->
  parse_with n' grammar_prog grammar_entry txt = ParseOk t errs st.
Proof.
  intros LE H. unfold parse_with in *.
  destruct (gexec n grammar_prog (ECall grammar_entry None) [] (p_new txt)) as [v en s|en s|v en s| |] eqn:E; try discriminate;
    rewrite (gexec_mono grammar_prog n _ _ _ _ E ltac:(discriminate) n' LE); exact H.
Qed.

Lemma parse_all_total : forall texts : list text,
  exists fuel, forall txt, In txt texts -> exists t errs st, parse_with fuel grammar_prog grammar_entry txt = ParseOk t errs st.
Proof.
  induction texts as [|x r (f & IH)]; [exists O; intros ? []|].
  destruct (grammar_total x) as (fx & t & errs & st & P). exists (Nat.max f fx). intros txt [<-|H].
  - exists t, errs, st. eapply parse_with_mono; [|exact P]. lia.
  - destruct (IH txt H) as (t' & e' & s' & P'). exists t', e', s'. eapply parse_with_mono; [|exact P']. lia.
Qed.

(** * Paths *)
Lemma list_eqb_iff : forall a b : text, list_eqb a b = true <-> a = b.
Proof.
  induction a as [|x a IH]; intros [|y b]; cbn [list_eqb]; split; intros H; try reflexivity; try discriminate.
  - apply andb_true_iff in H. destruct H as [H1 H2]. apply N.eqb_eq in H1. apply IH in H2. congruence.
  - inversion H; subst. rewrite N.eqb_refl. apply IH. reflexivity.
Qed.
Lemma fpath_eqb_iff : forall a b : fpath, fpath_eqb a b = true <-> a = b.
Proof.
  induction a as [|x a IH]; intros [|y b]; cbn [fpath_eqb]; split; intros H; try reflexivity; try discriminate.
  - apply andb_true_iff in H. destruct H as [H1 H2]. apply list_eqb_iff in H1. apply IH in H2. congruence.
  - inversion H; subst. rewrite (proj2 (list_eqb_iff y y) eq_refl). apply IH. reflexivity.
Qed.
Lemma fpath_ok : forall a b : fpath, @Includes.path_eqb fpath text FPathAlg a b = true <-> a = b.
Proof. intros a b. change (fpath_eqb a b = true <-> a = b). apply fpath_eqb_iff. Qed.
Global Instance FPathAlgOk : @PathAlgOk fpath text FPathAlg := {| path_eqb_ok := fpath_ok |}.

Lemma assoc_in {B} (p : fpath) (l : list (fpath * B)) b : Includes.assoc p l = Some b -> In p (map fst l).
Proof.
  induction l as [|[q c] l IH]; cbn [Includes.assoc map fst]; [discriminate|].
  destruct (Includes.path_eqb q p) eqn:E; [|intros H; right; auto].
  intros _. left. apply fpath_eqb_iff. exact E.
Qed.

(** * The theorem *)
Theorem analyze_total : forall (files : list (text * text)) (root : text),
  components root <> [] -> Forall (fun pt => components (fst pt) <> []) files ->
  exists pfuel cfuel a,
    analyze pfuel cfuel files root = Some a /\
    Forall (fun fp => exists t es st, pf_out (snd fp) = ParseOk t es st) (an_files a) /\
    an_core a <> Fuel /\
    (forall w, an_core a = Ok w -> s_bad (an_state w) = false).
Proof.
  intros files root HR HF.
  destruct (parse_all_total ([] :: map snd files)) as (pfuel & PALL). exists pfuel.
  set (parsed := map (fun pt => parse_file pfuel (components (fst pt)) (snd pt)) files).
  set (disk_files := map (fun tp : N * pfile => (pf_path (snd tp), content_of (fst tp) (snd tp))) (number_from 0 parsed)).
  set (w := {| Includes.disk := fun p => Includes.assoc p disk_files; Includes.extra := [] |} : Includes.world fpath text).
  set (rootp := components root).
  set (rc := match Includes.assoc rootp disk_files with
             | Some c => c
             | None => {| Includes.c_tag := N.of_nat (List.length files); Includes.c_items := [] |}
             end).
  set (R := rootp :: map fst disk_files).
  assert (DF : forall q, In q (map fst disk_files) -> q <> []).
  { intros q Hq. unfold disk_files in Hq. rewrite map_map in Hq. apply in_map_iff in Hq. destruct Hq as ([k p] & <- & Hin). cbn [fst snd].
    assert (Hp : In p parsed).
    { clear -Hin. revert Hin. generalize 0. induction parsed as [|x l IH]; intros s0 H; cbn [number_from] in H; [contradiction|].
      destruct H as [H|H]; [inversion H; left; reflexivity|right; eapply IH; exact H]. }
    unfold parsed in Hp. apply in_map_iff in Hp. destruct Hp as (pt & <- & Hpt). cbn [pf_path parse_file].
    rewrite Forall_forall in HF. apply HF. exact Hpt. }
  assert (RD : forall q, eff w Host.st_init rootp rc q <> None -> In q R).
  { intros q H. unfold eff, Includes.read, Includes.set_open in H. cbn [Includes.opened fst Host.st_init Includes.fs_init Includes.assoc] in H.
    destruct (Includes.path_eqb rootp q) eqn:E.
    - left. apply fpath_eqb_iff. exact E.
    - right. cbn [Includes.disk w] in H. destruct (Includes.assoc q disk_files) eqn:A; [|contradiction]. eapply assoc_in. exact A. }
  assert (RE : forall q, reach (eff w Host.st_init rootp rc) (Includes.extra w) rootp q -> In q R).
  { intros q H. induction H as [|p sid q _ _ Hs]; [left; reflexivity|]. apply RD. eapply succs_readable. exact Hs. }
  assert (PAR : forall q, reach (eff w Host.st_init rootp rc) (Includes.extra w) rootp q -> Includes.parent q <> None).
  { intros q H. apply RE in H. destruct H as [<-|H].
    - cbn [Includes.parent FPathAlg]. unfold rootp. destruct (components root); [contradiction|discriminate].
    - apply DF in H. cbn [Includes.parent FPathAlg]. destruct q; [contradiction|discriminate]. }
  set (cfuel := fuel_bound (eff w Host.st_init rootp rc) (Includes.extra w) R). exists cfuel.
  destruct (@session_terminates fpath text FPathAlg FPathAlgOk w O [] Host.st_init rootp rc R cfuel eq_refl RE PAR (le_n _)) as ([fs2 db2] & TOUCH).
  destruct (@session_reach fpath text FPathAlg FPathAlgOk w O [] Host.st_init cfuel rootp rc (fs2, db2) eq_refl TOUCH)
    as (fset & rt & SR & _ & _ & _ & _ & _). cbn [snd] in SR.
  set (ids := sort_ids (map fst fset)).
  set (pfile_of := fun f : N =>
         match Includes.fc db2 f with
         | Some c => match nth_error parsed (N.to_nat (Includes.c_tag c)) with
                     | Some p => Some (f, p)
                     | None => Some (f, parse_file pfuel rootp [])
                     end
         | None => None
         end).
  (* every workspace file has its content set *)
  assert (IDS : forall f, In f ids -> exists q, In (f, q) fset).
  { intros f Hf. assert (Hf' : In f (map fst fset)).
    { clear -Hf. unfold ids, sort_ids in Hf. revert Hf. induction (map fst fset) as [|x l IH]; cbn [fold_right]; [contradiction|].
      intros H. assert (G : forall y l0, In f (insert_sorted y l0) -> f = y \/ In f l0).
      { clear. intros y l0. induction l0 as [|z l0 IH]; cbn [insert_sorted]; [intros [<-|[]]; left; reflexivity|].
        destruct (y <=? z); [intros [<-|H]; [left; reflexivity|right; exact H]|].
        intros [<-|H]; [right; left; reflexivity|]. destruct (IH H) as [->|H']; [left; reflexivity|right; right; exact H']. }
      destruct (G _ _ H) as [->|H']; [left; reflexivity|right; apply IH; exact H']. }
    apply in_map_iff in Hf'. destruct Hf' as ([f' q] & <- & Hin). exists q. exact Hin. }
  assert (AS : exists wsf, all_some (map pfile_of ids) = Some wsf).
  { assert (G : forall l, (forall f, In f l -> exists x, pfile_of f = Some x) -> exists wsf, all_some (map pfile_of l) = Some wsf).
    { induction l as [|f l IH]; intros H; [exists []; reflexivity|]. cbn [map all_some].
      destruct (H f (or_introl eq_refl)) as (x & ->). destruct (IH (fun g Hg => H g (or_intror Hg))) as (r & ->). eexists; reflexivity. }
    apply G. intros f Hf. destruct (IDS f Hf) as (q & Hq).
    destruct (@session_links fpath text FPathAlg FPathAlgOk w O [] Host.st_init cfuel rootp rc (fs2, db2) fset rt f q eq_refl TOUCH SR Hq)
      as (c0 & d & _ & _ & FC & _). cbn [snd] in FC. unfold pfile_of. rewrite FC.
    destruct (nth_error parsed (N.to_nat (Includes.c_tag c0))); eexists; reflexivity. }
  destruct AS as (wsf & AS).
  set (dl := fun f : N => match Host.document_link db2 f with Includes.Done l => l | _ => [] end).
  exists (assemble ids dl wsf).
  assert (AN : analyze pfuel cfuel files root = Some (assemble ids dl wsf)).
  { unfold analyze. fold parsed. fold disk_files. fold w. fold rootp. fold rc. rewrite TOUCH. rewrite SR. fold ids. fold pfile_of. rewrite AS. reflexivity. }
  split; [exact AN|].
  (* every workspace file parsed *)
  assert (PARSED : Forall (fun fp : N * pfile => exists t es st, pf_out (snd fp) = ParseOk t es st) wsf).
  { apply all_some_spec in AS. rewrite Forall_forall. intros fp Hfp.
    assert (I0 : In (Some fp) (map Some wsf)) by (apply in_map; exact Hfp). rewrite <- AS in I0.
    apply in_map_iff in I0. destruct I0 as (f & Hf & _). unfold pfile_of in Hf.
    destruct (Includes.fc db2 f) as [c|]; [|discriminate].
    destruct (nth_error parsed (N.to_nat (Includes.c_tag c))) as [p|] eqn:NP; inversion Hf; subst fp; cbn [snd].
    - apply nth_error_In in NP. unfold parsed in NP. apply in_map_iff in NP. destruct NP as (pt & <- & Hpt).
      cbn [pf_out parse_file]. apply PALL. right. apply in_map. exact Hpt.
    - cbn [pf_out parse_file]. apply PALL. left. reflexivity. }
  split; [exact PARSED|]. split.
  - (* the bridge never runs out of fuel *)
    unfold assemble. cbn [an_core].
    assert (NF : Forall (fun c : res (list stmt) => c <> Fuel) (map (core_of_pfile ids dl) (number_from 0 wsf))).
    { apply Forall_forall. intros c Hc. apply in_map_iff in Hc. destruct Hc as (kfp & <- & _). unfold core_of_pfile.
      destruct (pf_tree (snd (snd kfp))); [apply core_of_tree_total|discriminate]. }
    revert NF. generalize (map (core_of_pfile ids dl) (number_from 0 wsf)). intros l NF.
    assert (G : firstErr l <> Fuel).
    { induction l as [|[a|e|] l IH]; cbn [firstErr]; try discriminate.
      - inversion NF; subst. destruct (firstErr l); try discriminate. apply IH in H2. contradiction.
      - inversion NF; subst. contradiction. }
    destruct (firstErr l); try discriminate. contradiction.
  - intros w0 _. apply index_ws_total.
Qed.
