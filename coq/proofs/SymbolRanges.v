(** C17 (symbol-map part): every range stored in or returned from the symbol-map model is the range of one of
    the ops; so a predicate that holds of every op range holds of every result range.  Instantiated with
    [range_valid ws] (file of the workspace, lo <= hi <= len, UTF-8 character boundaries). *)
From Coq Require Import List Arith NArith Bool Lia.
From TG.Model Require Import Chars SymbolMap SymbolWf.
From TG.Proofs Require Import SymbolMapBasics SymbolOps.
Import ListNotations.
Open Scope N_scope.

Section Ranges.
Variable P : file_range -> Prop.

Record AllRanges (S : symbol_map) : Prop := {
  ar_entries : forall s e, get_entry S s = Some e -> P (e_def e) /\ Forall P (e_refs e);
  ar_pos : forall f lo hi s, In (lo, hi, s) (posf S f) -> P (mkFR f lo hi);
  ar_diags : Forall P (sm_diags S) }.

Definition op_range_P (o : op) : Prop := match op_range o with Some r => P r | None => True end.

Lemma all_ranges_empty : AllRanges sm_empty.
Proof.
  split.
  - intros [k i] e H. unfold get_entry, nth_N in H. destruct k; cbn in H; destruct (N.to_nat i); discriminate.
  - intros f lo hi s H. destruct H.
  - constructor.
Qed.

Lemma fr_eta' : forall r, mkFR (fr_file r) (fr_lo r) (fr_hi r) = r.
Proof. destruct r; reflexivity. Qed.

Lemma pos_after_ranges : forall S key f lo hi s,
  (forall f lo hi s, In (lo, hi, s) (posf S f) -> P (mkFR f lo hi)) ->
  match key with Some (loc, _) => P loc | None => True end ->
  In (lo, hi, s) (pos_after S key f) -> P (mkFR f lo hi).
Proof.
  intros S [[loc s0]|] f lo hi s Hold Hk Hin; unfold pos_after in Hin; [|eapply Hold; exact Hin].
  destruct (fr_is_empty loc); [eapply Hold; exact Hin|].
  destruct (fr_file loc =? f) eqn:Ef; [|eapply Hold; exact Hin].
  apply N.eqb_eq in Ef. apply In_ivl_insert in Hin. destruct Hin as [Hin|Hin].
  - inversion Hin. subst. rewrite fr_eta'. exact Hk.
  - subst f. eapply Hold. exact Hin.
Qed.

Theorem all_ranges_step : forall S o S',
  AllRanges S -> op_range_P o -> apply_op S o = SOk S' -> AllRanges S'.
Proof.
  intros S o S' [A1 A2 A3] HP Hap.
  destruct (apply_op_spec _ _ _ Hap) as (Har & Hp & Hd). unfold arenas_after in Har. unfold op_range_P in HP.
  assert (Hframe : forall S', (forall s e', get_entry S' s = Some e' ->
             exists e, get_entry S s = Some e /\ e_def e' = e_def e /\ e_refs e' = e_refs e) ->
             forall s e, get_entry S' s = Some e -> P (e_def e) /\ Forall P (e_refs e)).
  { intros S0 H s e He. destruct (H _ _ He) as (e0 & He0 & Hd0 & Hr0). rewrite Hd0, Hr0. eapply A1. exact He0. }
  assert (Halloc : forall k e, P (e_def e) -> e_refs e = [] ->
             (forall s, get_entry S' s = if sid_eqb s (k, next_id S k) then Some e else get_entry S s) ->
             forall s e1, get_entry S' s = Some e1 -> P (e_def e1) /\ Forall P (e_refs e1)).
  { intros k e HPe Hr Hg s e1 He1. rewrite Hg in He1. destruct (sid_eqb s (k, next_id S k)).
    - inversion He1. subst. rewrite Hr. split; [exact HPe|constructor].
    - eapply A1. exact He1. }
  assert (Hupd : forall t g, (forall s', get_entry S' s' = if sid_eqb t s' then option_map (upd_payload g) (get_entry S s') else get_entry S s') ->
             forall s e1, get_entry S' s = Some e1 -> P (e_def e1) /\ Forall P (e_refs e1)).
  { intros t g Hg. apply Hframe. intros s e' He'. rewrite Hg in He'. destruct (sid_eqb t s).
    - destruct (get_entry S s) as [e|]; [|discriminate]. inversion He'. exists e. auto.
    - exists e'. auto. }
  assert (Hsame : same_arenas S S' -> forall s e1, get_entry S' s = Some e1 -> P (e_def e1) /\ Forall P (e_refs e1)).
  { intros Hsa s e1 He1. rewrite (same_arenas_get_entry _ _ s Hsa) in He1. eapply A1. exact He1. }
  assert (Hpos : match op_key S o with Some (loc, _) => P loc | None => True end ->
                 forall f lo hi s, In (lo, hi, s) (posf S' f) -> P (mkFR f lo hi)).
  { intros Hk f lo hi s Hin. rewrite Hp in Hin. eapply pos_after_ranges; eassumption. }
  assert (Hdi : Forall P (sm_diags S')).
  { rewrite Hd. unfold diags_after. apply Forall_app. split; [exact A3|].
    destruct o; try constructor. cbn in HP. exact HP. constructor. }
  destruct o; cbn [op_alloc op_update op_key e_def op_range] in *;
    try (destruct Har as [Hg _]; split; [eapply Halloc; [| |exact Hg]; [exact HP|reflexivity] | apply Hpos; exact HP | exact Hdi]);
    try (split; [apply Hsame; exact Har | apply Hpos; exact I | exact Hdi]).
  - (* anonymous def *) destruct Har as [Hg _]. split; [eapply Halloc; [| |exact Hg]; [exact HP|reflexivity] | apply Hpos; exact I | exact Hdi].
  - (* anonymous defm *) destruct Har as [Hg _]. split; [eapply Halloc; [| |exact Hg]; [exact HP|reflexivity] | apply Hpos; exact I | exact Hdi].
  - (* add_reference *)
    destruct Har as (_ & Hg & _). split; [|apply Hpos; exact HP|exact Hdi].
    intros s0 e1 He1. rewrite Hg in He1. destruct (sid_eqb s s0).
    + destruct (get_entry S s0) as [e|] eqn:He; [|discriminate]. inversion He1. subst e1. cbn.
      destruct (A1 _ _ He) as [Ha Hb]. split; [exact Ha|]. apply Forall_app. split; [exact Hb|]. constructor; [exact HP|constructor].
    + eapply A1. exact He1.
  - destruct (cur_target S KRecord) as [t|]; cbn [option_map] in Har.
    + destruct Har as (_ & Hg & _). split; [eapply Hupd; exact Hg | apply Hpos; exact I | exact Hdi].
    + split; [apply Hsame; exact Har | apply Hpos; exact I | exact Hdi].
  - destruct (cur_target S KRecord) as [t|]; cbn [option_map] in Har.
    + destruct Har as (_ & Hg & _). split; [eapply Hupd; exact Hg | apply Hpos; exact I | exact Hdi].
    + split; [apply Hsame; exact Har | apply Hpos; exact I | exact Hdi].
  - destruct (cur_target S KRecord) as [t|]; cbn [option_map] in Har.
    + destruct Har as (_ & Hg & _). split; [eapply Hupd; exact Hg | apply Hpos; exact I | exact Hdi].
    + split; [apply Hsame; exact Har | apply Hpos; exact I | exact Hdi].
  - destruct (cur_target S KDefset) as [t|]; cbn [option_map] in Har.
    + destruct Har as (_ & Hg & _). split; [eapply Hupd; exact Hg | apply Hpos; exact I | exact Hdi].
    + split; [apply Hsame; exact Har | apply Hpos; exact I | exact Hdi].
  - destruct (cur_target S KMulticlass) as [t|]; cbn [option_map] in Har.
    + destruct Har as (_ & Hg & _). split; [eapply Hupd; exact Hg | apply Hpos; exact I | exact Hdi].
    + split; [apply Hsame; exact Har | apply Hpos; exact I | exact Hdi].
  - destruct (cur_target S KMulticlass) as [t|]; cbn [option_map] in Har.
    + destruct Har as (_ & Hg & _). split; [eapply Hupd; exact Hg | apply Hpos; exact I | exact Hdi].
    + split; [apply Hsame; exact Har | apply Hpos; exact I | exact Hdi].
  - destruct (cur_target S KDefm) as [t|]; cbn [option_map] in Har.
    + destruct Har as (_ & Hg & _). split; [eapply Hupd; exact Hg | apply Hpos; exact I | exact Hdi].
    + split; [apply Hsame; exact Har | apply Hpos; exact I | exact Hdi].
Qed.

Theorem all_ranges_run : forall ops S S',
  AllRanges S -> Forall op_range_P ops -> run_ops_from S ops = SOk S' -> AllRanges S'.
Proof.
  induction ops as [|o ops IH]; intros S S' HA HF Hr; cbn in Hr.
  - inversion Hr. subst. exact HA.
  - inversion HF as [|? ? Ho HF']; subst.
    destruct (apply_op S o) as [S1|] eqn:E; [|discriminate]. cbn [sbind] in Hr.
    eapply IH; [|exact HF'|exact Hr]. eapply all_ranges_step; eassumption.
Qed.

(** results of the read-only API / handlers *)
Lemma all_ranges_find : forall S f p s e,
  AllRanges S -> find_symbol_at S f p = SOk (Some (s, e)) -> P (e_def e) /\ Forall P (e_refs e).
Proof.
  intros S f p s e HA H. unfold find_symbol_at in H. destruct (find_symbol_id_at S f p) as [s0|]; [|discriminate].
  unfold symbol in H. destruct (get_entry S s0) as [e0|] eqn:He; [|discriminate]. cbn in H. inversion H. subst.
  eapply ar_entries; eassumption.
Qed.

Theorem all_ranges_goto : forall S f p t, AllRanges S -> goto_definition S f p = SOk (Some t) -> P t.
Proof.
  intros S f p t HA H. unfold goto_definition in H.
  destruct (find_symbol_at S f p) as [[[s e]|]|] eqn:E; cbn in H; try discriminate.
  inversion H. subst. cbn. apply (all_ranges_find _ _ _ _ _ HA E).
Qed.

Theorem all_ranges_references : forall S f p rs, AllRanges S -> references S f p = SOk (Some rs) -> Forall P rs.
Proof.
  intros S f p rs HA H. unfold references in H.
  destruct (find_symbol_at S f p) as [[[s e]|]|] eqn:E; cbn in H; try discriminate.
  inversion H. subst. cbn. apply (all_ranges_find _ _ _ _ _ HA E).
Qed.

Theorem all_ranges_in_range : forall S g loc l,
  AllRanges S -> iter_symbols_in_range_g g S loc = SOk (Some l) -> Forall (fun x => P (fst x)) l.
Proof.
  intros S g loc l HA H. unfold iter_symbols_in_range_g in H.
  destruct (g && fr_is_empty loc); [discriminate|].
  destruct (fmap_get (sm_pos S) (fr_file loc)) as [m|] eqn:Em; [|discriminate].
  unfold ivl_iter in H. destruct (fr_hi loc <=? fr_lo loc); [discriminate|]. cbn in H. inversion H. subst l. clear H.
  apply Forall_forall. intros [r s] Hin. apply in_map_iff in Hin. destruct Hin as ([[lo hi] v] & Heq & Hin).
  inversion Heq. subst. cbn. apply filter_In in Hin. destruct Hin as [Hin _].
  eapply (ar_pos _ HA (fr_file loc) lo hi). unfold posf. rewrite Em. exact Hin.
Qed.

End Ranges.

(** ---- what [range_valid] means *)
Lemma bytes_firstn_le : forall t n, bytes (firstn n t) <= bytes t.
Proof.
  induction t as [|c r IH]; intros n; destruct n; cbn; try lia. specialize (IH n). lia.
Qed.

Lemma is_boundary_spec : forall t o, is_boundary t o = true <-> exists n, o = bytes (firstn n t).
Proof.
  induction t as [|c r IH]; intros o; cbn [is_boundary].
  - rewrite N.eqb_eq. split.
    + intros H. exists 0%nat. cbn. exact H.
    + intros [n H]. destruct n; cbn in H; exact H.
  - rewrite orb_true_iff, andb_true_iff, N.eqb_eq, N.leb_le, IH. split.
    + intros [H|[H1 [n H2]]].
      * exists 0%nat. cbn. exact H.
      * exists (S n). cbn [firstn bytes]. lia.
    + intros [n H]. destruct n; cbn [firstn bytes] in H; [left; exact H|].
      right. split; [lia|]. exists n. lia.
Qed.

Theorem range_valid_spec : forall ws r, range_valid ws r = true ->
  exists t, fmap_get ws (fr_file r) = Some t /\
    fr_lo r <= fr_hi r /\ fr_hi r <= bytes t /\
    (exists n, fr_lo r = bytes (firstn n t)) /\ (exists n, fr_hi r = bytes (firstn n t)).
Proof.
  intros ws r H. unfold range_valid in H. destruct (fmap_get ws (fr_file r)) as [t|]; [|discriminate].
  apply andb_true_iff in H. destruct H as [H H3]. apply andb_true_iff in H. destruct H as [H1 H2].
  apply N.leb_le in H1. apply is_boundary_spec in H2. apply is_boundary_spec in H3.
  exists t. repeat split; auto. destruct H3 as [n H3]. rewrite H3. apply bytes_firstn_le.
Qed.

Lemma ops_ranges_wf_forall : forall ws ops,
  ops_ranges_wf ws ops = true -> Forall (op_range_P (fun r => range_valid ws r = true)) ops.
Proof.
  intros ws ops H. unfold ops_ranges_wf in H. rewrite forallb_forall in H. apply Forall_forall.
  intros o Hin. specialize (H _ Hin). unfold op_range_ok in H. unfold op_range_P. destruct (op_range o); [exact H|exact I].
Qed.

(** ---- the statement of props/C17.v *)
Theorem c17_symbol_ranges_valid : forall ws ops S,
  ops_ranges_wf ws ops = true -> run_ops ops = SOk S ->
  (forall f p t, goto_definition S f p = SOk (Some t) -> range_valid ws t = true) /\
  (forall f p rs r, references S f p = SOk (Some rs) -> In r rs -> range_valid ws r = true) /\
  (forall loc l r s, iter_symbols_in_range S loc = SOk (Some l) -> In (r, s) l -> range_valid ws r = true) /\
  (forall s e, get_entry S s = Some e ->
     range_valid ws (e_def e) = true /\ forall r, In r (e_refs e) -> range_valid ws r = true) /\
  (forall d, In d (sm_diags S) -> range_valid ws d = true).
Proof.
  intros ws ops S Hw Hr.
  assert (HA : AllRanges (fun r => range_valid ws r = true) S).
  { eapply all_ranges_run; [apply all_ranges_empty|apply ops_ranges_wf_forall; exact Hw|exact Hr]. }
  set (P := fun r => range_valid ws r = true) in *.
  split; [|split; [|split; [|split]]].
  - intros f p t H. exact (all_ranges_goto P S f p t HA H).
  - intros f p rs r H Hin. pose proof (all_ranges_references P _ _ _ _ HA H) as HF.
    rewrite Forall_forall in HF. apply HF. exact Hin.
  - intros loc l r s H Hin. pose proof (all_ranges_in_range P _ _ _ _ HA H) as HF.
    rewrite Forall_forall in HF. apply (HF (r, s)). exact Hin.
  - intros s e H. destruct (ar_entries P _ HA _ _ H) as [H1 HF]. split; [exact H1|].
    intros r Hin. rewrite Forall_forall in HF. apply HF. exact Hin.
  - intros d Hin. pose proof (ar_diags P _ HA) as HF. rewrite Forall_forall in HF. apply HF. exact Hin.
Qed.

(** every returned range is literally the range argument of one of the ops *)
Fixpoint op_ranges (ops : list op) : list file_range :=
  match ops with
  | [] => []
  | o :: r => match op_range o with Some x => x :: op_ranges r | None => op_ranges r end
  end.

Lemma op_ranges_forall : forall ops, Forall (op_range_P (fun r => In r (op_ranges ops))) ops.
Proof.
  intros ops. apply Forall_forall. intros o Hin. unfold op_range_P.
  destruct (op_range o) as [x|] eqn:E; [|exact I].
  induction ops as [|o' ops IH]; [destruct Hin|]. cbn [op_ranges]. destruct Hin as [Hin|Hin].
  - subst o'. rewrite E. left. reflexivity.
  - destruct (op_range o'); [right|]; apply IH; exact Hin.
Qed.

Theorem c17_ranges_come_from_ops : forall ops S,
  run_ops ops = SOk S ->
  (forall f p t, goto_definition S f p = SOk (Some t) -> In t (op_ranges ops)) /\
  (forall f p rs r, references S f p = SOk (Some rs) -> In r rs -> In r (op_ranges ops)) /\
  (forall loc l r s, iter_symbols_in_range S loc = SOk (Some l) -> In (r, s) l -> In r (op_ranges ops)).
Proof.
  intros ops S Hr.
  assert (HA : AllRanges (fun r => In r (op_ranges ops)) S).
  { eapply all_ranges_run; [apply all_ranges_empty|apply op_ranges_forall|exact Hr]. }
  set (P := fun r => In r (op_ranges ops)) in *.
  split; [|split].
  - intros f p t H. exact (all_ranges_goto P S f p t HA H).
  - intros f p rs r H Hin. pose proof (all_ranges_references P _ _ _ _ HA H) as HF.
    rewrite Forall_forall in HF. apply HF. exact Hin.
  - intros loc l r s H Hin. pose proof (all_ranges_in_range P _ _ _ _ HA H) as HF.
    rewrite Forall_forall in HF. apply (HF (r, s)). exact Hin.
Qed.

(** non-vacuity: text "class A;\n// é\nclass B : A;" (the comment holds a two-byte character), the log of its
    indexing; all ranges valid; an offset inside the two-byte character is not a boundary *)
Definition c17_text : text :=
  [99;108;97;115;115;32;65;59;10;47;47;32;233;10;99;108;97;115;115;32;66;32;58;32;65;59].
Definition c17_ops : list op :=
  [ OpAddRecord [65] RKClass (mkFR 0 6 7) true 0;
    OpAddRecord [66] RKClass (mkFR 0 21 22) true 1;
    OpAddReference (KRecord, 0) (mkFR 0 25 26); OpRecordMut 0; OpRecordMut 1; OpRecAddParent 0 ].
Example c17_ex : ops_ranges_wf [(0, c17_text)] c17_ops = true /\
  range_valid [(0, c17_text)] (mkFR 0 12 14) = true /\ range_valid [(0, c17_text)] (mkFR 0 13 14) = false /\
  range_valid [(0, c17_text)] (mkFR 0 26 28) = false /\ range_valid [(1, c17_text)] (mkFR 0 6 7) = false.
Proof. vm_compute. repeat split; reflexivity. Qed.
