(** The full parser model refines to the token-level semantics (model/TokSem.v): a run of [gexec] over [pst] that does
    not panic is mirrored step by step by [texec] over the upcoming token kinds.  Generic in the program. *)
From Coq Require Import List NArith Bool Lia PeanoNat Arith String.
From TG.Gen Require Import GenTokens GenLexTables.
From TG.Model Require Import Chars Lexer Prep Tree ParserPrims GInterp TokSem.
From TG.Proofs Require Import GramSound.
Import ListNotations.
Close Scope string_scope.
Close Scope N_scope.
Open Scope nat_scope.
Open Scope list_scope.

(** * The token-stream projection of a parser state *)
(** everything that determines the FUTURE tokens: raw tokens, source, preprocessor state, cursor, current token;
    the builder, the error list, is_after_error and the work counters are reset *)
Definition canon (s : pst) : pst :=
  {| raw := raw s; src := src s; pp := pp s; cursor := cursor s; cur := cur s; cur_lo := cur_lo s; cur_text := cur_text s;
     bld := builder_init; errs := []; after_err := false; nlex := 0%N; nstart := 0%N |}.

Lemma canon_idem s : canon (canon s) = canon s.
Proof. reflexivity. Qed.
Lemma canon_cur s : cur (canon s) = cur s.
Proof. reflexivity. Qed.

Lemma canon_p_lex s1 s2 : canon s1 = canon s2 -> canon (p_lex s1) = canon (p_lex s2).
Proof.
  intros H. unfold canon in H. inversion H as [[H1 H2 H3 H4 H5 H6 H7]].
  unfold p_lex. rewrite H1, H2, H3, H4.
  destruct (prep_next (pp s2) (raw s2)) as [[[k len] pp'] raw'].
  destruct (take_bytes len (src s2)). reflexivity.
Qed.

Lemma canon_p_save s1 s2 r1 : canon s1 = canon s2 -> cur s1 <> T_Error -> p_save s1 = Some r1 ->
  exists r2, p_save s2 = Some r2 /\ canon r1 = canon r2 /\ canon r1 = canon s1.
Proof.
  intros H Hne. pose proof (f_equal cur H) as Hc. cbn in Hc.
  unfold p_save. rewrite <- Hc.
  destruct (tk_eqb (cur s1) T_Error) eqn:E; [apply tk_eqb_eq in E; contradiction|].
  intros H1. inversion H1. subst r1. eexists. split; [reflexivity|]. unfold canon in *. cbn.
  inversion H. split; [congruence|reflexivity].
Qed.

Lemma is_trivia_not_error k : is_trivia k = true -> k <> T_Error.
Proof. intros H E. subst. discriminate. Qed.

Lemma canon_p_skip : forall fuel s1 s2 r1, canon s1 = canon s2 -> p_skip fuel s1 = Some r1 ->
  exists r2, p_skip fuel s2 = Some r2 /\ canon r1 = canon r2.
Proof.
  induction fuel as [|t fuel IH]; intros s1 s2 r1 H Hs; pose proof (f_equal cur H) as Hc; cbn in Hc; cbn [p_skip] in *; rewrite <- Hc.
  - destruct (is_trivia (cur s1)); [discriminate|]. inversion Hs. subst. eauto.
  - destruct (is_trivia (cur s1)) eqn:T.
    + destruct (p_save s1) as [a1|] eqn:S1; [|discriminate].
      destruct (canon_p_save s1 s2 a1 H (is_trivia_not_error _ T) S1) as (a2 & S2 & Ca & _).
      rewrite S2. eapply IH; [|exact Hs]. now apply canon_p_lex.
    + inversion Hs. subst. eauto.
Qed.

Lemma canon_p_eat s1 s2 r1 : canon s1 = canon s2 -> cur s1 <> T_Error -> p_eat s1 = Some r1 ->
  exists r2, p_eat s2 = Some r2 /\ canon r1 = canon r2.
Proof.
  intros H Hne. unfold p_eat. destruct (p_save s1) as [a1|] eqn:S1; [|discriminate].
  destruct (canon_p_save s1 s2 a1 H Hne S1) as (a2 & S2 & Ca & _). rewrite S2.
  unfold p_skip_all. intros Hs.
  assert (Cl : canon (p_lex a1) = canon (p_lex a2)) by now apply canon_p_lex.
  assert (Hr : raw (p_lex a1) = raw (p_lex a2)) by (pose proof (f_equal raw Cl) as X; exact X).
  rewrite <- Hr. eapply canon_p_skip; eauto.
Qed.

(** [Toks s l]: the upcoming non-trivia token kinds of [s] are [l] then Eof; none of them is a lexical Error token *)
Inductive Toks : pst -> list TokenKind -> Prop :=
| Toks_nil s : cur s = T_Eof -> Toks s []
| Toks_cons s k l : cur s = k -> k <> T_Eof -> k <> T_Error -> is_trivia k = false ->
    (forall s', p_eat (canon s) = Some s' -> Toks s' l) -> Toks s (k :: l).

Lemma Toks_canon s1 s2 l : canon s1 = canon s2 -> Toks s1 l -> Toks s2 l.
Proof.
  intros H T. pose proof (f_equal cur H) as Hc. cbn in Hc. inversion T; subst.
  - constructor. congruence.
  - constructor; auto; try congruence. rewrite <- H. assumption.
Qed.

Lemma Toks_eat s k l s' : Toks s (k :: l) -> p_eat s = Some s' -> Toks s' l.
Proof.
  intros T He. inversion T as [|s0 k0 l0 Hc Hne Hner Htr Hall]; subst.
  destruct (canon_p_eat s (canon s) s' (eq_sym (canon_idem s)) Hner He) as (c' & Ec & Cc).
  eapply Toks_canon; [symmetry; exact Cc|]. auto.
Qed.

(** * The simulation relation *)
Definition env_rel (a b : env) : Prop :=
  Forall2 (fun x y => match x, y with VB p, VB q => p = q | VN _, VN _ => True | _, _ => False end) a b.
Definition val_rel (x y : val) : Prop := match x, y with VB p, VB q => p = q | VN _, VN _ => True | _, _ => False end.
Definition TR (s : pst) (ts : tst) : Prop :=
  Toks s (tks ts) /\ nerr s = terr ts /\ after_err s = tafter ts.

Lemma TR_cur s ts : TR s ts -> cur s = tcur ts.
Proof. intros (T & _). unfold tcur. inversion T; subst; auto. Qed.

(** * Primitives *)
Lemma p_save_quiet s s' : cur s <> T_Error -> p_save s = Some s' -> errs s' = errs s /\ after_err s' = false.
Proof.
  unfold p_save. intros Hne. destruct (tk_eqb (cur s) T_Error) eqn:E; [apply tk_eqb_eq in E; contradiction|].
  intros H. inversion H. cbn. auto.
Qed.
Lemma p_skip_quiet : forall fuel s s', p_skip fuel s = Some s' ->
  errs s' = errs s /\ (after_err s = false -> after_err s' = false) /\ is_trivia (cur s') = false.
Proof.
  induction fuel as [|t fuel IH]; intros s s' H; cbn [p_skip] in H.
  - destruct (is_trivia (cur s)) eqn:T; [discriminate|]. inversion H. subst. auto.
  - destruct (is_trivia (cur s)) eqn:T.
    + destruct (p_save s) as [s1|] eqn:S; [|discriminate].
      destruct (p_save_quiet s s1 (is_trivia_not_error _ T) S) as (E1 & A1).
      destruct (p_lex_frame s1) as (E2 & A2 & _).
      apply IH in H as (E3 & A3 & T3). repeat split; auto; try congruence.
      intros _. apply A3. congruence.
    + inversion H. subst. auto.
Qed.
Lemma p_eat_quiet s s' : cur s <> T_Error -> p_eat s = Some s' ->
  errs s' = errs s /\ after_err s' = false /\ is_trivia (cur s') = false.
Proof.
  unfold p_eat. intros Hne. destruct (p_save s) as [s1|] eqn:S; [|discriminate].
  destruct (p_save_quiet s s1 Hne S) as (E1 & A1). destruct (p_lex_frame s1) as (E2 & A2 & _).
  unfold p_skip_all. intros H. apply p_skip_quiet in H as (E3 & A3 & T3).
  repeat split; auto; try congruence. apply A3. congruence.
Qed.

Lemma canon_with_bld s b : canon (with_bld s b) = canon s.
Proof. reflexivity. Qed.
Lemma canon_p_error s m : canon (p_error s m) = canon s.
Proof. reflexivity. Qed.
Lemma canon_p_start_node s k : canon (p_start_node s k) = canon s.
Proof. reflexivity. Qed.
Lemma canon_p_finish_node s s' : p_finish_node s = Some s' -> canon s' = canon s.
Proof. unfold p_finish_node. destruct (b_finish_node (bld s)); [|discriminate]. intros H. inversion H. reflexivity. Qed.
Lemma canon_p_start_node_at s cp k s' : p_start_node_at s cp k = Some s' -> canon s' = canon s.
Proof. unfold p_start_node_at. destruct (b_start_node_at (bld s) cp k); [|discriminate]. intros H. inversion H. reflexivity. Qed.

Lemma TR_canon s s' ts : canon s' = canon s -> nerr s' = nerr s -> after_err s' = after_err s -> TR s ts -> TR s' ts.
Proof. intros C N A (T & E & F). repeat split; try congruence. eapply Toks_canon; [symmetry; exact C|exact T]. Qed.

Lemma TR_error s ts m : TR s ts -> TR (p_error s m) (t_error ts).
Proof.
  intros (T & E & F). repeat split; cbn.
  - eapply Toks_canon; [|exact T]. reflexivity.
  - unfold nerr in *. cbn. congruence.
Qed.

(** eating: the concrete state either panics (None) or follows the token-level step *)
Lemma TR_eat s ts ts' : TR s ts -> t_eat ts = Some ts' ->
  match p_eat s with Some s' => TR s' ts' | None => True end.
Proof.
  intros (T & E & F) Ht. unfold t_eat in Ht. destruct (tks ts) as [|k l] eqn:Ek; [discriminate|].
  destruct (tk_eqb k T_Error) eqn:Ee; [discriminate|]. inversion Ht. subst ts'. clear Ht.
  destruct (p_eat s) as [s'|] eqn:Ep; auto.
  assert (Hne : cur s <> T_Error).
  { inversion T; subst. intros C. rewrite C in Ee. rewrite tk_eqb_refl in Ee. discriminate. }
  destruct (p_eat_quiet s s' Hne Ep) as (E1 & A1 & _).
  repeat split; cbn.
  - eapply Toks_eat; eauto.
  - unfold nerr in *. congruence.
  - exact A1.
Qed.

Definition prim_ok (r : res) (tr : tres) : Prop :=
  match tr with
  | TVal tv ten' ts' =>
      match r with
      | RVal v en' s' => val_rel v tv /\ env_rel en' ten' /\ TR s' ts'
      | RPanic => True
      | _ => False
      end
  | TBrk ten' ts' => match r with RBrk en' s' => env_rel en' ten' /\ TR s' ts' | RPanic => True | _ => False end
  | TRet tv ten' ts' => match r with RRet v en' s' => val_rel v tv /\ env_rel en' ten' /\ TR s' ts' | RPanic => True | _ => False end
  | TStuck => True
  | TOOF => match r with ROOF | RPanic => True | _ => False end
  end.

Lemma env_rel_get en ten x : env_rel en ten ->
  match env_get en x, env_get ten x with
  | Some v, Some tv => val_rel v tv
  | None, None => True
  | _, _ => False
  end.
Proof.
  unfold env_get. intros H. revert x. induction H as [|a b l l' Hab H IH]; intros [|x]; cbn; auto.
  apply IH.
Qed.

Lemma lift_ok (o : option pst) (ot : option tst) en ten :
  env_rel en ten -> (forall ts', ot = Some ts' -> match o with Some s' => TR s' ts' | None => True end) ->
  prim_ok (lift o en) (tlift ot ten).
Proof.
  intros He H. destruct ot as [ts'|]; cbn; auto. specialize (H ts' eq_refl). destruct o; cbn; auto.
Qed.

Lemma ok_val v tv en ten s' ts' : val_rel v tv -> env_rel en ten -> TR s' ts' -> prim_ok (RVal v en s') (TVal tv ten ts').
Proof. cbn. auto. Qed.

Lemma prim_refine p pr en ten s ts : TR s ts -> env_rel en ten ->
  prim_ok (exec_prim p pr en s) (texec_prim p pr ten ts).
Proof.
  intros HT He. pose proof (TR_cur s ts HT) as Hc. pose proof HT as (T & E & F).
  destruct pr; cbn [exec_prim texec_prim].
  - (* start_node *) apply ok_val; [reflexivity|auto|]. apply (TR_canon s); auto.
  - (* finish_node *) unfold lift. destruct (p_finish_node s) as [s'|] eqn:Ef; [|exact I].
    apply ok_val; [reflexivity|auto|]. pose proof (p_finish_node_spec s s' Ef) as (A & B & _).
    apply (TR_canon s); [now apply canon_p_finish_node|unfold nerr; congruence|congruence|exact HT].
  - (* checkpoint *) cbn. auto.
  - (* start_node_at *) pose proof (env_rel_get en ten x He) as G.
    destruct (env_get en x) as [[b|cp]|], (env_get ten x) as [[tb|tcp]|]; cbn in G; try contradiction; cbn; auto.
    unfold lift. destruct (p_start_node_at s cp k) as [s'|] eqn:Ef; [|exact I].
    apply ok_val; [reflexivity|auto|]. pose proof (p_start_node_at_spec s cp k s' Ef) as (A & B & _).
    apply (TR_canon s); [eapply canon_p_start_node_at; eauto|unfold nerr; congruence|congruence|exact HT].
  - (* assert *) rewrite <- Hc. unfold p_assert, p_eat_if, p_at.
    destruct (tk_eqb (cur s) k) eqn:Ek; [|exact I].
    unfold tlift. destruct (t_eat ts) as [ts'|] eqn:Et; [|exact I].
    pose proof (TR_eat s ts ts' HT Et) as H. destruct (p_eat s); cbn; auto.
  - (* expect *) rewrite <- Hc. unfold p_expect, p_eat_if, p_at.
    destruct (tk_eqb (cur s) k) eqn:Ek.
    + unfold tlift. destruct (t_eat ts) as [ts'|] eqn:Et; [|exact I].
      pose proof (TR_eat s ts ts' HT Et) as H. destruct (p_eat s); cbn; auto.
    + rewrite <- F. destruct (after_err s); apply ok_val; auto; try reflexivity. now apply TR_error.
  - (* eat *) unfold tlift. destruct (t_eat ts) as [ts'|] eqn:Et; [|exact I].
    pose proof (TR_eat s ts ts' HT Et) as H. unfold lift. destruct (p_eat s); cbn; auto.
  - (* eat_if *) rewrite <- Hc. unfold p_eat_if, p_at. destruct (tk_eqb (cur s) k) eqn:Ek.
    + destruct (t_eat ts) as [ts'|] eqn:Et; [|exact I].
      pose proof (TR_eat s ts ts' HT Et) as H. destruct (p_eat s); cbn; auto.
    + cbn. auto.
  - (* skip *) unfold lift, p_skip_all. cbn [p_skip].
    assert (Htr : is_trivia (cur s) = false).
    { inversion T as [s0 H0|s0 k0 l0 H0 H1 H2 H3 H4]; [rewrite H0; reflexivity|congruence]. }
    rewrite Htr. cbn. auto.
  - (* error *) apply ok_val; [reflexivity|auto|]. now apply TR_error.
  - (* error_and_eat *) unfold p_error_and_eat.
    apply lift_ok; auto. intros ts' Et.
    pose proof (TR_error s ts m HT) as H1.
    assert (H2 : TR (with_bld (p_error s m) (b_start_node (bld (p_error s m)) S_Error)) (t_error ts)) by (apply (TR_canon (p_error s m)); auto).
    pose proof (TR_eat _ _ ts' H2 Et) as H3.
    destruct (p_eat _) as [s3|] eqn:E3; auto.
    destruct (p_finish_node s3) as [s4|] eqn:E4; auto.
    pose proof (p_finish_node_spec s3 s4 E4) as (A & B & _).
    apply (TR_canon s3); [now apply canon_p_finish_node|unfold nerr; congruence|congruence|exact H3].
  - (* error_and_recover *) unfold p_error_and_recover.
    pose proof (TR_error s ts m HT) as H1. pose proof (TR_cur _ _ H1) as Hc1.
    unfold p_at_set, p_eof, p_at, t_at_set. rewrite <- Hc1.
    destruct (negb (existsb (tk_eqb (cur (p_error s m))) (recover_tokens p)) && negb (tk_eqb (cur (p_error s m)) T_Eof)).
    + apply lift_ok; auto. intros ts' Et.
      assert (H2 : TR (with_bld (p_error s m) (b_start_node (bld (p_error s m)) S_Error)) (t_error ts)) by (apply (TR_canon (p_error s m)); auto).
      pose proof (TR_eat _ _ ts' H2 Et) as H3.
      destruct (p_eat _) as [s3|] eqn:E3; auto.
      destruct (p_finish_node s3) as [s4|] eqn:E4; auto.
      pose proof (p_finish_node_spec s3 s4 E4) as (A & B & _).
      apply (TR_canon s3); [now apply canon_p_finish_node|unfold nerr; congruence|congruence|exact H3].
    + cbn. auto.
  - (* at_set *) cbn. unfold p_at_set, t_at_set. rewrite Hc. auto.
Qed.

(** * The interpreter *)
Lemma env_rel_set : forall x en ten v tv, env_rel en ten -> val_rel v tv -> env_rel (env_set en x v) (env_set ten x tv).
Proof.
  unfold env_rel. induction x as [|x IH]; intros en ten v tv H Hv; inversion H; subst; cbn.
  - constructor; [exact Hv|constructor].
  - constructor; [exact Hv|assumption].
  - constructor; [reflexivity|]. apply IH; [constructor|exact Hv].
  - constructor; [assumption|]. apply IH; assumption.
Qed.

Lemma ok_panic tr : prim_ok RPanic tr.
Proof. destruct tr; exact I. Qed.

Theorem refine p : forall n e en ten s ts, TR s ts -> env_rel en ten ->
  prim_ok (gexec n p e en s) (texec n p e ten ts).
Proof.
  induction n as [|n IH]; intros e en ten s ts HT He; [exact I|].
  destruct e as [b|x|a|pr|f arg|a b|c a b|c b| |a|x a]; cbn [gexec texec].
  - apply ok_val; auto. reflexivity.
  - pose proof (env_rel_get en ten x He) as G.
    destruct (env_get en x), (env_get ten x); cbn in G; try contradiction; cbn; auto.
  - pose proof (IH a en ten s ts HT He) as H.
    destruct (texec n p a ten ts) as [[tb|tk] ten1 ts1|ten1 ts1|tv ten1 ts1| |];
      destruct (gexec n p a en s) as [[b|k] en1 s1|en1 s1|v en1 s1| |]; cbn in H |- *; auto; try tauto; try apply ok_panic.
    destruct H as (Hv & H1 & H2). subst. auto.
  - apply prim_refine; auto.
  - destruct (fn_body p f) as [body|]; [|exact I].
    pose proof (fun x => env_rel_get en ten x He) as G.
    assert (Hcen : match (match arg with Some (x, _) => match env_get en x with Some v => Some [v] | None => None end | None => Some [] end),
                         (match arg with Some (x, _) => match env_get ten x with Some v => Some [v] | None => None end | None => Some [] end) with
                   | Some a, Some b => env_rel a b | None, None => True | _, _ => False end).
    { destruct arg as [[x byref]|]; [|constructor]. specialize (G x).
      destruct (env_get en x), (env_get ten x); cbn in G; try contradiction; auto. constructor; [exact G|constructor]. }
    destruct (match arg with Some (x, _) => match env_get en x with Some v => Some [v] | None => None end | None => Some [] end) as [cen0|];
      destruct (match arg with Some (x, _) => match env_get ten x with Some v => Some [v] | None => None end | None => Some [] end) as [tcen0|];
      try contradiction; [|exact I].
    pose proof (IH body cen0 tcen0 s ts HT Hcen) as H.
    assert (Back : forall v tv cen1 tcen1 s1 ts1, val_rel v tv -> env_rel cen1 tcen1 -> TR s1 ts1 ->
              prim_ok (match arg with
                       | Some (x, true) => match env_get cen1 0 with Some w => RVal v (env_set en x w) s1 | None => RPanic end
                       | _ => RVal v en s1 end)
                      (match arg with
                       | Some (x, true) => match env_get tcen1 0 with Some w => TVal tv (env_set ten x w) ts1 | None => TStuck end
                       | _ => TVal tv ten ts1 end)).
    { intros v tv cen1 tcen1 s1 ts1 Hv Hc1 H1. destruct arg as [[x [|]]|]; try (apply ok_val; auto).
      pose proof (env_rel_get cen1 tcen1 0 Hc1) as G0.
      destruct (env_get cen1 0), (env_get tcen1 0); cbn in G0; try contradiction; try exact I.
      apply ok_val; auto. apply env_rel_set; auto. }
    destruct (texec n p body tcen0 ts) as [tv tcen1 ts1|tcen1 ts1|tv tcen1 ts1| |];
      destruct (gexec n p body cen0 s) as [v cen1 s1|cen1 s1|v cen1 s1| |]; cbn in H; try tauto; try exact I;
      try (destruct H as (Hv & H1 & H2); apply Back; auto).
    all: try apply ok_panic.
  - pose proof (IH a en ten s ts HT He) as H.
    destruct (texec n p a ten ts) as [tv ten1 ts1|ten1 ts1|tv ten1 ts1| |];
      destruct (gexec n p a en s) as [v en1 s1|en1 s1|v en1 s1| |]; cbn in H |- *; auto; try tauto; try apply ok_panic.
    destruct H as (Hv & H1 & H2). apply IH; auto.
  - pose proof (IH c en ten s ts HT He) as H.
    destruct (texec n p c ten ts) as [[[|]|tk] ten1 ts1|ten1 ts1|tv ten1 ts1| |];
      destruct (gexec n p c en s) as [[[|]|k] en1 s1|en1 s1|v en1 s1| |]; cbn in H |- *; auto; try tauto; try apply ok_panic;
      try (destruct H as (Hv & H1 & H2); try discriminate; apply IH; auto).
  - pose proof (IH c en ten s ts HT He) as H.
    destruct (texec n p c ten ts) as [[[|]|tk] ten1 ts1|ten1 ts1|tv ten1 ts1| |];
      destruct (gexec n p c en s) as [[[|]|k] en1 s1|en1 s1|v en1 s1| |]; cbn in H |- *; auto; try tauto; try apply ok_panic;
      try (destruct H as (Hv & H1 & H2); try discriminate).
    pose proof (IH b en1 ten1 s1 ts1 H2 H1) as Hb.
      destruct (texec n p b ten1 ts1) as [tv2 ten2 ts2|ten2 ts2|tv2 ten2 ts2| |];
        destruct (gexec n p b en1 s1) as [v2 en2 s2|en2 s2|v2 en2 s2| |]; cbn in Hb |- *; auto; try tauto; try apply ok_panic.
      destruct Hb as (_ & Hb1 & Hb2). apply IH; auto.
  - cbn. auto.
  - pose proof (IH a en ten s ts HT He) as H.
    destruct (texec n p a ten ts) as [tv ten1 ts1|ten1 ts1|tv ten1 ts1| |];
      destruct (gexec n p a en s) as [v en1 s1|en1 s1|v en1 s1| |]; cbn in H |- *; auto; try tauto; try apply ok_panic.
  - pose proof (IH a en ten s ts HT He) as H.
    destruct (texec n p a ten ts) as [tv ten1 ts1|ten1 ts1|tv ten1 ts1| |];
      destruct (gexec n p a en s) as [v en1 s1|en1 s1|v en1 s1| |]; cbn in H |- *; auto; try tauto; try apply ok_panic.
    destruct H as (Hv & H1 & H2). split; [reflexivity|]. split; auto. apply env_rel_set; auto.
Qed.

(** the refinement theorem specialised to a token-level run that returns true *)
Lemma refine_done p n e s ts ts' : TR s ts -> texec n p e [] ts = TVal (VB true) [] ts' ->
  match gexec n p e [] s with
  | RPanic => True
  | RVal v _ s' => v = VB true /\ Toks s' (tks ts') /\ nerr s' = terr ts' /\ after_err s' = tafter ts'
  | _ => False
  end.
Proof.
  intros R0 Ht. pose proof (refine p n e [] [] s ts R0 (Forall2_nil _)) as P. rewrite Ht in P.
  destruct (gexec n p e [] s) as [v en' s'| | | |]; cbn [prim_ok] in P; auto.
  destruct P as (Hv & _ & (T' & E' & A')). destruct v as [b|c]; cbn [val_rel] in Hv; [subst b|contradiction]. auto.
Qed.
