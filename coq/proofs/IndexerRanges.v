(** IndexerRanges (group symmap, bridge to group scope): C17 for the Core fragment.
    Every range the indexer model (Indexer.v) stores -- definition locations, the position log, the reference log, the
    index diagnostics -- is [FileRange::new(current file, range of an AST part)] of a part of the file being indexed.
    Hence: if every range of every file's AST (CoreParts.file_rngs, the collector of builder "bridge") satisfies a
    predicate when paired with the number of its file, every range stored in / returned from the symbol-map state
    [abs (index_ws w)] satisfies it: [AllRanges] (proofs/SymbolRanges.v) holds of [abs (index_ws w)] for EVERY Core
    workspace, any number of files -- no hypothesis on an op log.
    One Hoare-style traversal of Indexer.v; the invariant is [R]; the file discipline ([s_trace] restored by every
    statement, [current_file] = the file whose statements are being indexed) is part of the triple. *)
From Coq Require Import List Arith NArith Bool Lia.
From TG.Model Require Import CoreAst CoreParts Scope BangOps Indexer IndexerOps.
From TG.Model Require SymbolMap SymbolWf.
From TG.Proofs Require Import IndexerValid IndexerSim IndexerAbs.
From TG.Proofs Require SymbolMapBasics SymbolRanges.
Import ListNotations.
Open Scope N_scope.

Section Ranges.
Variable P' : SM.file_range -> Prop.
Definition P (r : rng) : Prop := P' (cv r).

Record R (s : st) : Prop := {
  rr_pos : Forall (fun e : rng * symid => P (fst e)) (s_pos s);
  rr_refs : Forall (fun e : symid * rng => P (snd e)) (s_refs s);
  rr_diags : Forall (fun e : rng * dkind => P (fst e)) (s_diags s);
  rr_recs : Forall (fun r => P (rc_loc r)) (s_recs s);
  rr_mcs : Forall (fun m => P (mc_loc m)) (s_mcs s);
  rr_leaves : Forall (fun l => P (lf_loc l)) (s_leaves s) }.

Lemma R_st0 : R st0.
Proof. constructor; cbn; constructor. Qed.

Ltac rstep := match goal with H : R _ |- R _ => destruct H; constructor; cbn; auto using Forall_app1, Forall_cons end.

Lemma R_add_pos : forall r id s, R s -> P r -> R (add_pos r id s).
Proof. intros r id s H Hp. unfold add_pos. destruct (rng_empty r); [exact H|rstep]. Qed.
Lemma trace_add_pos : forall r id s, s_trace (add_pos r id s) = s_trace s.
Proof. intros. unfold add_pos. destruct (rng_empty r); reflexivity. Qed.

Section File.
Variable f : N.
Definition Pf (r : rng) : Prop := P (mkR f (r_lo r) (r_hi r)).

Definition hr {A} (m : M A) (Q : A -> Prop) : Prop :=
  forall s, R s -> current_file s = f ->
    R (snd (m s)) /\ s_trace (snd (m s)) = s_trace s /\ forall a, fst (m s) = Some a -> Q a.
Definition any {A} : A -> Prop := fun _ => True.
Definition optq {A} (Q : A -> Prop) (o : option A) : Prop := forall a, o = Some a -> Q a.

Lemma cur_of_trace : forall s s', s_trace s' = s_trace s -> current_file s = f -> current_file s' = f.
Proof. intros s s' H Hf. unfold current_file in *. rewrite H. exact Hf. Qed.

Lemma hr_post : forall A (m : M A) (Q Q' : A -> Prop), hr m Q -> (forall a, Q a -> Q' a) -> hr m Q'.
Proof.
  intros A m Q Q' H HQ s HR Hf. destruct (H s HR Hf) as (H1 & H2 & H3).
  split; [exact H1|split; [exact H2|]]. intros a Ha. apply HQ. apply H3. exact Ha.
Qed.
Lemma hr_any : forall A (m : M A) Q, hr m Q -> hr m any.
Proof. intros A m Q H. eapply hr_post; [exact H|]. intros; exact I. Qed.
Lemma hr_ret : forall A (x : A) (Q : A -> Prop), Q x -> hr (ret x) Q.
Proof. intros A x Q Hq s HR Hf. cbn. split; [exact HR|split; [reflexivity|]]. intros a E. inversion E. subst. exact Hq. Qed.
Lemma hr_none : forall A (Q : A -> Prop), hr none Q.
Proof. intros A Q s HR Hf. cbn. split; [exact HR|split; [reflexivity|]]. intros a E. discriminate. Qed.
Lemma hr_bad : forall A (Q : A -> Prop), hr bad Q.
Proof.
  intros A Q s HR Hf. unfold bad. cbn [fst snd]. split; [rstep|split; [reflexivity|]]. intros a E. discriminate.
Qed.
Lemma hr_lift : forall A (o : option A) (Q : A -> Prop), optq Q o -> hr (lift o) Q.
Proof. intros A o Q Hq s HR Hf. cbn. split; [exact HR|split; [reflexivity|]]. exact Hq. Qed.
Lemma hr_lift_any : forall A (o : option A), hr (lift o) any.
Proof. intros. apply hr_lift. intros a _. exact I. Qed.
Lemma hr_get : forall A (g : st -> A), hr (get g) any.
Proof. intros A g s HR Hf. cbn. split; [exact HR|split; [reflexivity|]]. intros; exact I. Qed.
Lemma hr_state : hr state any.
Proof. apply hr_get. Qed.
Lemma hr_here : forall r, Pf r -> hr (here r) P.
Proof.
  intros r Hp s HR Hf. unfold here, get. cbn [fst snd]. split; [exact HR|split; [reflexivity|]].
  intros a E. inversion E. subst a. rewrite Hf. exact Hp.
Qed.

Lemma hr_bind : forall A B (m : M A) (k : A -> M B) Q1 Q2,
  hr m Q1 -> (forall a, Q1 a -> hr (k a) Q2) -> hr (bind m k) Q2.
Proof.
  intros A B m k Q1 Q2 Hm Hk s HR Hf. unfold bind. destruct (Hm s HR Hf) as (H1 & H2 & H3).
  destruct (m s) as [[a|] s1]; cbn [fst snd] in *.
  - destruct (Hk a (H3 a eq_refl) s1 H1 (cur_of_trace _ _ H2 Hf)) as (K1 & K2 & K3).
    split; [exact K1|split; [congruence|exact K3]].
  - split; [exact H1|split; [exact H2|]]. intros a E. discriminate.
Qed.
Lemma hr_seq : forall A B (m : M A) (k : M B) Q1 Q2, hr m Q1 -> hr k Q2 -> hr (seq m k) Q2.
Proof.
  intros A B m k Q1 Q2 Hm Hk s HR Hf. unfold seq. destruct (Hm s HR Hf) as (H1 & H2 & _).
  destruct (Hk _ H1 (cur_of_trace _ _ H2 Hf)) as (K1 & K2 & K3). split; [exact K1|split; [congruence|exact K3]].
Qed.
Lemma hr_try : forall A (m : M A) Q, hr m Q -> hr (try_ m) (optq Q).
Proof.
  intros A m Q Hm s HR Hf. unfold try_. destruct (Hm s HR Hf) as (H1 & H2 & H3). destruct (m s) as [o s1]. cbn [fst snd] in *.
  split; [exact H1|split; [exact H2|]]. intros a E. inversion E. subst a. exact H3.
Qed.
Lemma hr_iterM : forall A B (g : A -> M B) l, (forall x, In x l -> hr (g x) any) -> hr (iterM g l) any.
Proof.
  intros A B g. induction l as [|x r IH]; intros H; cbn [iterM]; [apply hr_ret; exact I|].
  eapply hr_seq; [apply H; left; reflexivity|apply IH]. intros y Hy. apply H. right. exact Hy.
Qed.
Lemma hr_mapM_opt : forall A B (g : A -> M B) (Q : B -> Prop) l,
  (forall x, In x l -> hr (g x) Q) -> hr (mapM_opt g l) (Forall (optq Q)).
Proof.
  intros A B g Q. induction l as [|x r IH]; intros H; cbn [mapM_opt]; [apply hr_ret; constructor|].
  eapply hr_bind; [apply hr_try; apply H; left; reflexivity|]. intros o Ho.
  eapply hr_bind; [apply IH; intros y Hy; apply H; right; exact Hy|]. intros os Hos.
  apply hr_ret. constructor; assumption.
Qed.

(** ---- primitives *)
Lemma hr_error : forall loc k, P loc -> hr (error loc k) any.
Proof. intros loc k Hp s HR Hf. unfold error, upd. cbn [fst snd]. split; [rstep|split; [reflexivity|intros; exact I]]. Qed.
Lemma hr_err : forall r k, Pf r -> hr (err r k) any.
Proof. intros r k Hp. unfold err. eapply hr_bind; [apply hr_here; exact Hp|]. intros loc Hl. apply hr_error. exact Hl. Qed.
Lemma hr_emit : forall l, Forall (fun d : dg => Pf (fst d)) l -> hr (emit l) any.
Proof.
  intros l H. unfold emit. apply hr_iterM. intros d Hd. rewrite Forall_forall in H. apply hr_err. apply H. exact Hd.
Qed.
Lemma hr_next_anonymous : hr next_anonymous any.
Proof. intros s HR Hf. unfold next_anonymous, upd. cbn [fst snd]. split; [rstep|split; [reflexivity|intros; exact I]]. Qed.
Lemma hr_mark_indexed : forall g, hr (upd (fun s => set_files (s_trace s) (g :: s_indexed s) s)) any.
Proof. intros g s HR Hf. unfold upd. cbn [fst snd]. split; [rstep|split; [reflexivity|intros; exact I]]. Qed.

Lemma hr_add_reference : forall id loc, P loc -> hr (add_reference id loc) any.
Proof.
  intros id loc Hp s HR Hf. unfold add_reference, upd. cbn [fst snd].
  split; [apply R_add_pos; [rstep|exact Hp]|split; [rewrite trace_add_pos; reflexivity|intros; exact I]].
Qed.
Lemma hr_add_record : forall n c loc, P loc -> hr (add_record n c loc) any.
Proof.
  intros n c loc Hp s HR Hf. unfold add_record. cbn [fst snd].
  split; [apply R_add_pos; [destruct c; rstep|exact Hp]|split; [rewrite trace_add_pos; destruct c; reflexivity|intros; exact I]].
Qed.
Lemma hr_add_anonymous_def : forall n loc, P loc -> hr (add_anonymous_def n loc) any.
Proof. intros n loc Hp s HR Hf. unfold add_anonymous_def. cbn [fst snd]. split; [rstep|split; [reflexivity|intros; exact I]]. Qed.
Lemma hr_add_leaf : forall l, P (lf_loc l) -> hr (add_leaf l) any.
Proof.
  intros l Hp s HR Hf. unfold add_leaf. cbn [fst snd].
  split; [apply R_add_pos; [rstep|exact Hp]|split; [rewrite trace_add_pos; reflexivity|intros; exact I]].
Qed.
Lemma hr_add_defset : forall l, P (lf_loc l) -> hr (add_defset l) any.
Proof.
  intros l Hp s HR Hf. unfold add_defset. cbn [fst snd].
  split; [apply R_add_pos; [rstep|exact Hp]|split; [rewrite trace_add_pos; reflexivity|intros; exact I]].
Qed.
Lemma hr_add_leaf_nopos : forall l, P (lf_loc l) -> hr (add_leaf_nopos l) any.
Proof. intros l Hp s HR Hf. unfold add_leaf_nopos. cbn [fst snd]. split; [rstep|split; [reflexivity|intros; exact I]]. Qed.
Lemma hr_add_multiclass : forall n loc, P loc -> hr (add_multiclass n loc) any.
Proof.
  intros n loc Hp s HR Hf. unfold add_multiclass. cbn [fst snd].
  split; [apply R_add_pos; [rstep|exact Hp]|split; [rewrite trace_add_pos; reflexivity|intros; exact I]].
Qed.

Lemma Forall_set_nth_pres : forall A (Pr : A -> Prop) (g : A -> A) n l,
  (forall x, Pr x -> Pr (g x)) -> Forall Pr l -> Forall Pr (set_nth n g l).
Proof.
  intros A Pr g. induction n as [|n IH]; intros l Hg H; destruct l as [|x r]; cbn [set_nth]; try exact H;
    inversion H; subst; constructor; auto.
Qed.
Lemma hr_record_mut : forall id g, (forall r, rc_loc (g r) = rc_loc r) -> hr (record_mut id g) any.
Proof.
  intros id g Hg s HR Hf. unfold record_mut. destruct (nthN (s_recs s) id).
  - cbn [fst snd]. split; [|split; [reflexivity|intros; exact I]]. destruct HR; constructor; cbn; auto.
    apply Forall_set_nth_pres; [|assumption]. intros x Hx. rewrite Hg. exact Hx.
  - apply (hr_bad unit any s HR Hf).
Qed.
Lemma hr_multiclass_mut : forall id g, (forall m, mc_loc (g m) = mc_loc m) -> hr (multiclass_mut id g) any.
Proof.
  intros id g Hg s HR Hf. unfold multiclass_mut. destruct (nthN (s_mcs s) id).
  - cbn [fst snd]. split; [|split; [reflexivity|intros; exact I]]. destruct HR; constructor; cbn; auto.
    apply Forall_set_nth_pres; [|assumption]. intros x Hx. rewrite Hg. exact Hx.
  - apply (hr_bad unit any s HR Hf).
Qed.
Lemma hr_push_scope : forall k, hr (push_scope k) any.
Proof. intros k s HR Hf. unfold push_scope, upd. cbn [fst snd]. split; [rstep|split; [reflexivity|intros; exact I]]. Qed.
Lemma hr_pop_scope : hr pop_scope any.
Proof.
  intros s HR Hf. unfold pop_scope. destruct (s_scopes s).
  - apply (hr_bad unit any s HR Hf).
  - cbn [fst snd]. split; [rstep|split; [reflexivity|intros; exact I]].
Qed.
Lemma hr_scoped : forall A k (body : M A) Q, hr body Q -> hr (scoped k body) Q.
Proof.
  intros A k body Q H. unfold scoped. eapply hr_seq; [apply hr_push_scope|].
  eapply hr_bind; [apply hr_try; exact H|]. intros o Ho. eapply hr_seq; [apply hr_pop_scope|apply hr_lift; exact Ho].
Qed.
Lemma hr_scopes_add_variable : forall l, P (lf_loc l) -> hr (scopes_add_variable l) any.
Proof.
  intros l Hp. unfold scopes_add_variable. eapply hr_bind; [apply hr_add_leaf; exact Hp|]. intros id _ s HR Hf.
  destruct (s_scopes s).
  - apply (hr_bad unit any s HR Hf).
  - cbn [fst snd]. split; [rstep|split; [reflexivity|intros; exact I]].
Qed.

(** ---- the pure diagnostic computations only use ranges they are given *)
Definition Pp (p : part) : Prop := Pf (part_rng p).
Definition PS (l : list part) : Prop := Forall Pp l.
Definition dgs_ok (l : list dg) : Prop := Forall (fun d : dg => Pf (fst d)) l.
Definition argv_ok (a : argv) : Prop := Pf (snd a).
Definition vts_ok (l : list vt) : Prop := Forall (fun x : vt => Pf (fst x)) l.

Lemma cta_loop_ok : forall s targs args idx unsolved,
  Forall (optq argv_ok) args -> dgs_ok (fst (cta_loop s targs idx unsolved args)).
Proof.
  intros s targs. induction args as [|x rest IH]; intros idx unsolved H; [constructor|].
  inversion H as [|? ? Hx Hrest]; subst. specialize (fun i u => IH i u Hrest).
  destruct x as [[[onm vty] vr]|]; [|apply IH].
  assert (Hvr : Pf vr) by (apply (Hx _ eq_refl)). simpl.
  destruct onm as [nm|].
  - destruct (remove_name nm unsolved) as [was u'] eqn:Er. destruct was.
    + destruct (find_targ nm targs) as [a|]; simpl.
      * pose proof (IH (S idx) u') as K. destruct (cta_loop s targs (S idx) u' rest) eqn:E. simpl in *.
        destruct (can_cast s vty (lf_ty a)); [exact K|constructor; assumption].
      * pose proof (IH (S idx) u') as K. destruct (cta_loop s targs (S idx) u' rest) eqn:E. simpl in *. exact K.
    + destruct (find_targ nm targs) as [a|]; simpl;
        pose proof (IH (S idx) u') as K; destruct (cta_loop s targs (S idx) u' rest) eqn:E; simpl in *;
        constructor; assumption.
  - destruct (nth_error targs idx) as [a|]; simpl.
    + pose proof (IH (S idx) (snd (remove_name (lf_name a) unsolved))) as K.
      destruct (cta_loop s targs (S idx) (snd (remove_name (lf_name a) unsolved)) rest) eqn:E. simpl in *.
      destruct (can_cast s vty (lf_ty a)); [exact K|constructor; assumption].
    + pose proof (IH (S idx) unsolved) as K. destruct (cta_loop s targs (S idx) unsolved rest) eqn:E. simpl in *. exact K.
Qed.

Lemma check_template_args_ok : forall s targs args r,
  Forall (optq argv_ok) args -> Pf r -> dgs_ok (check_template_args s targs args r).
Proof.
  intros s targs args r Ha Hr. unfold check_template_args.
  destruct (Nat.ltb (length targs) (length args)); [constructor; [exact Hr|constructor]|].
  pose proof (cta_loop_ok s targs args 0%nat (map lf_name targs) Ha) as K.
  destruct (cta_loop s targs 0 (map lf_name targs) args) as [d unsolved]. cbn [fst] in K.
  apply Forall_app. split; [exact K|]. apply Forall_flat_map. apply Forall_forall. intros u _.
  destruct (find_targ u targs) as [a|]; [|constructor]. destruct (lf_default a); constructor; [exact Hr|constructor].
Qed.

Lemma chk_ok : forall x pred, optq (fun y : vt => Pf (fst y)) x -> dgs_ok (chk x pred).
Proof.
  intros [[r [t|]]|] pred H; cbn; try constructor. destruct (pred t); constructor; [apply (H _ eq_refl)|constructor].
Qed.
Lemma nth_ok : forall l k, vts_ok l -> optq (fun y : vt => Pf (fst y)) (nth_error l k).
Proof. intros l k H a E. apply nth_error_In in E. unfold vts_ok in H. rewrite Forall_forall in H. apply H. exact E. Qed.
Lemma chk_all_ok : forall l pred, vts_ok l -> dgs_ok (chk_all l pred).
Proof.
  intros l pred H. unfold chk_all, dgs_ok. apply Forall_flat_map. eapply Forall_impl; [|exact H].
  intros a Ha. apply chk_ok. intros y E. inversion E; subst; exact Ha.
Qed.
Lemma vts_firstn : forall n l, vts_ok l -> vts_ok (firstn n l).
Proof. induction n; intros [|x r] H; cbn; try constructor; inversion H; subst; auto. apply IHn. assumption. Qed.
Lemma vts_tl : forall l, vts_ok l -> vts_ok (tl l).
Proof. intros [|x r] H; cbn; [constructor|inversion H; assumption]. Qed.
Lemma vts_combine : forall rs (os : list (option mty)), Forall Pf rs -> vts_ok (combine rs os).
Proof.
  induction rs as [|r rs IH]; intros [|o os] H; cbn; try constructor; inversion H; subst; [assumption|apply IH; assumption].
Qed.

Lemma bang_post_ok : forall s op a l, vts_ok l -> dgs_ok (fst (bang_post s op a l)).
Proof.
  intros s op a l H. pose proof (fun k => nth_ok l k H) as Hn. unfold dgs_ok.
  destruct op; cbn -[chk chk_all nth_error can_cast firstn tl];
    repeat first
      [ apply Forall_nil
      | apply chk_ok; apply Hn
      | apply chk_all_ok; first [exact H | apply vts_firstn; first [exact H | apply vts_tl; exact H]]
      | apply Forall_app; split ].
  all: repeat match goal with |- context [match ?x with _ => _ end] => destruct x eqn:? end.
  all: cbn [fst]; repeat first
      [ apply Forall_nil
      | apply chk_ok; apply Hn
      | apply chk_all_ok; first [exact H | apply vts_firstn; first [exact H | apply vts_tl; exact H]]
      | apply Forall_app; split
      | apply Forall_cons ].
  all: try match goal with E : nth_error _ ?k = Some (?r, _) |- Pf (fst (?r, _)) => exact (Hn k _ E) end.
  - apply chk_all_ok. inversion H; assumption.
  - inversion H; assumption.
Qed.

(** ---- the parts of the AST (CoreParts.v) *)
Lemma PS_app : forall a b, PS (a ++ b) -> PS a /\ PS b.
Proof. intros a b H. apply Forall_app in H. exact H. Qed.
Lemma PS_cons : forall p l, PS (p :: l) -> Pf (part_rng p) /\ PS l.
Proof. intros p l H. inversion H; subst. split; assumption. Qed.
Lemma PS_flat_map : forall A (g : A -> list part) l, PS (flat_map g l) -> Forall (fun x => PS (g x)) l.
Proof. intros A g l H. apply Forall_flat_map in H. exact H. Qed.
Lemma PS_in : forall A (g : A -> list part) l x, PS (flat_map g l) -> In x l -> PS (g x).
Proof. intros A g l x H Hin. apply PS_flat_map in H. rewrite Forall_forall in H. apply H. exact Hin. Qed.

Ltac psplit :=
  repeat match goal with
  | H : PS (_ ++ _) |- _ => apply PS_app in H; destruct H
  | H : PS (_ :: _) |- _ => apply PS_cons in H; cbn [part_rng] in H; destruct H
  | H : PS [] |- _ => clear H
  end.
Ltac hret := apply hr_ret; exact I.

Lemma value_rng_ok : forall v, PS (value_parts v) -> Pf (value_rng v).
Proof. intros [r inners] H. cbn [value_parts] in H. psplit. assumption. Qed.
Lemma first_ident_rok : forall v i, PS (value_parts v) -> value_first_ident v = Some i -> Pf (i_rng i).
Proof.
  intros v j H E. destruct v as [r [|[sv sufs] rest]]; cbn in E; try discriminate. destruct sv; try discriminate.
  inversion E. subst. cbn [value_parts flat_map inner_parts simple_parts app] in H. psplit. assumption.
Qed.

(** ---- the traversal of Indexer.v *)
Lemma r_leaf_of : forall i, hr (leaf_of i) any.
Proof. intros i. unfold leaf_of. eapply hr_bind; [apply hr_state|]. intros x _. apply hr_lift_any. Qed.

Lemma r_index_ty : forall t, PS (ty_parts t) -> hr (index_ty t) any.
Proof.
  induction t; intros H; cbn [index_ty]; try hret.
  - eapply hr_bind; [apply IHt; exact H|]. intros x _. hret.
  - cbn [ty_parts] in H. psplit. eapply hr_bind; [apply hr_here; eassumption|]. intros loc Hl.
    eapply hr_bind; [apply hr_state|]. intros x _.
    destruct (find_class x (i_name i)).
    + eapply hr_seq; [apply hr_add_reference; exact Hl|hret].
    + eapply hr_seq; [apply hr_error; exact Hl|apply hr_none].
Qed.

Lemma r_index_annot : forall op an r, Pf r ->
  PS (match an with Some (t, tr) => PR tr :: ty_parts t | None => [] end) -> hr (index_annot op an r) any.
Proof.
  intros op an r Hr H. unfold index_annot. destruct (bang_annot op).
  - eapply hr_seq; [|hret]. destruct an as [[t tr]|]; [psplit; apply hr_err; assumption|hret].
  - destruct an as [[t tr]|].
    + psplit. eapply hr_any. apply hr_try. apply r_index_ty. assumption.
    + eapply hr_seq; [apply hr_err; exact Hr|hret].
  - destruct an as [[t tr]|]; [|hret]. psplit. eapply hr_any. apply hr_try. apply r_index_ty. assumption.
Qed.
Lemma r_check_arity : forall op vs r, Pf r -> hr (check_arity op vs r) any.
Proof. intros. unfold check_arity. destruct (arity_ok _ _); [hret|apply hr_err; assumption]. Qed.

Definition rvalues_ok (n : nat) : Prop :=
  (forall v, PS (value_parts v) -> hr (index_value n v) any) /\
  (forall x, PS (inner_parts x) -> hr (index_inner n x) any) /\
  (forall sv, PS (simple_parts sv) -> hr (index_simple n sv) any) /\
  (forall a, PS (arg_parts a) -> hr (index_arg n a) argv_ok) /\
  (forall op an vs r, PS (simple_parts (SBang op an vs r)) -> hr (index_bang n op an vs r) any) /\
  (forall op a vs r, Pf r -> Forall (fun v => PS (value_parts v)) vs -> hr (index_bang_ops n op a vs r) any).

Lemma r_sufs_loop : forall (l : list suffix) t, PS (flat_map suffix_parts l) ->
  hr ((fix sufs_loop (t : mty) (l : list suffix) : M mty :=
           match l with
           | [] => ret t
           | sf :: r =>
             bind match sf with
                   | SufRange => lift (match t with MBits _ => Some MBit | _ => None end)
                   | SufSlice single => if single then lift (element_typ t) else ret t
                   | SufField i fr =>
                     bind (here (i_rng i)) (fun loc =>
                     bind state (fun s =>
                     match ty_find_field s t (i_name i) with
                     | None => match t with MUnknown => none | _ => seq (err fr DCannotAccessField) none end
                     | Some f => seq (add_reference (SyLeaf f) loc) (bind (leaf_of f) (fun lf => ret (lf_ty lf)))
                     end))
                   end (fun t' => sufs_loop t' r)
           end) t l) any.
Proof.
  induction l as [|sf r IH]; intros t H; [hret|]. cbn [flat_map] in H. apply PS_app in H. destruct H as [H1 H2].
  eapply hr_bind with (Q1 := any); [|intros t' _; apply IH; exact H2].
  destruct sf as [|single|i fr].
  - apply hr_lift_any.
  - destruct single; [apply hr_lift_any|hret].
  - cbn [suffix_parts] in H1. psplit.
    eapply hr_bind; [apply hr_here; eassumption|]. intros loc Hl.
    eapply hr_bind; [apply hr_state|]. intros x _.
    destruct (ty_find_field x t (i_name i)).
    + eapply hr_seq; [apply hr_add_reference; exact Hl|].
      eapply hr_bind; [apply r_leaf_of|]. intros lf _. hret.
    + destruct t; try (eapply hr_seq; [apply hr_err; assumption|apply hr_none]). apply hr_none.
Qed.

Lemma r_bind_var : forall i t, Pf (i_rng i) ->
  hr (bind (here (i_rng i)) (fun loc => scopes_add_variable (mkLeaf LVar (i_name i) t false loc))) any.
Proof. intros. eapply hr_bind; [apply hr_here; assumption|]. intros loc Hl. apply hr_scopes_add_variable. exact Hl. Qed.

Lemma rvalues_ok_all : forall n, rvalues_ok n.
Proof.
  induction n as [|n (IHv & IHi & IHs & IHa & IHb & IHo)].
  - split; [|split; [|split; [|split; [|split]]]]; intros; apply hr_bad.
  - assert (Hvals : forall vs, Forall (fun v => PS (value_parts v)) vs -> hr (iterM (index_value n) vs) any).
    { intros vs H. apply hr_iterM. intros v Hv. rewrite Forall_forall in H. apply IHv. apply H. exact Hv. }
    assert (Hmap : forall vs, Forall (fun v => PS (value_parts v)) vs -> hr (mapM_opt (index_value n) vs) any).
    { intros vs H. eapply hr_any. apply hr_mapM_opt with (Q := any). intros v Hv. rewrite Forall_forall in H.
      apply IHv. apply H. exact Hv. }
    split; [|split; [|split; [|split; [|split]]]].
    + (* index_value *)
      intros [r [|first rest]] H; cbn [index_value]; [apply hr_none|].
      cbn [value_parts] in H. psplit. match goal with H : PS (flat_map _ _) |- _ => apply PS_flat_map in H; inversion H; subst end.
      eapply hr_bind; [apply hr_try; apply IHi; assumption|]. intros t1 _.
      eapply hr_seq; [apply hr_iterM; intros y Hy; apply IHi|].
      { match goal with H : Forall _ rest |- _ => rewrite Forall_forall in H; apply H; exact Hy end. }
      destruct rest; [apply hr_lift_any|hret].
    + (* index_inner *)
      intros [sv sufs] H; cbn [index_inner]. cbn [inner_parts] in H. psplit.
      eapply hr_bind; [apply IHs; assumption|]. intros t0 _. apply r_sufs_loop. assumption.
    + (* index_simple *)
      intros sv H. destruct sv; cbn [index_simple]; try hret; cbn [simple_parts] in H.
      * eapply hr_seq; [apply Hvals; apply PS_flat_map; exact H|hret].
      * eapply hr_bind; [apply Hmap; apply PS_flat_map; exact H|]. intros os _. hret.
      * eapply hr_seq; [apply Hvals; apply PS_flat_map; exact H|hret].
      * (* SId *)
        psplit. eapply hr_bind; [apply hr_here; eassumption|]. intros loc Hl.
        eapply hr_bind; [apply hr_state|]. intros x _.
        destruct (resolve_id x (i_name i)) as [sym|].
        -- eapply hr_seq; [apply hr_add_reference; exact Hl|].
           eapply hr_bind; [apply hr_state|]. intros x' _.
           destruct sym.
           ++ eapply hr_bind; [apply hr_lift_any|]. intros rc _.
              destruct (rc_class rc); [apply hr_none|].
              eapply hr_bind; [apply hr_lift_any|]. intros d _. hret.
           ++ apply hr_none.
           ++ eapply hr_bind; [apply hr_lift_any|]. intros lf _.
              destruct (lf_kind lf); try hret. apply hr_none.
        -- destruct (name_eqb (i_name i) name_NAME); [hret|].
           eapply hr_seq; [apply hr_error; exact Hl|apply hr_none].
      * (* SClassVal *)
        psplit. eapply hr_bind; [apply hr_here; eassumption|]. intros loc Hl.
        eapply hr_bind; [apply hr_state|]. intros x _.
        destruct (find_class x (i_name i)) as [cid|].
        -- eapply hr_seq; [apply hr_add_reference; exact Hl|].
           eapply hr_bind; [apply hr_state|]. intros x1 _.
           eapply hr_bind; [apply hr_lift_any|]. intros rc _.
           eapply hr_bind; [apply hr_mapM_opt with (Q := argv_ok); intros y Hy; apply IHa; eapply PS_in; eassumption|].
           intros avs Havs.
           eapply hr_bind; [apply hr_state|]. intros x2 _.
           eapply hr_seq; [apply hr_emit; apply check_template_args_ok; assumption|hret].
        -- eapply hr_seq; [apply hr_error; exact Hl|apply hr_none].
      * (* SBang *) apply IHb. exact H.
      * eapply hr_seq; [apply Hvals; apply PS_flat_map; exact H|apply hr_none].
    + (* index_arg *)
      intros a H. destruct a; cbn [index_arg]; cbn [arg_parts] in H; psplit.
      * eapply hr_bind; [apply hr_try; apply IHv; assumption|]. intros o _. apply hr_ret. assumption.
      * eapply hr_bind; [apply hr_try; apply IHv; assumption|]. intros o _. apply hr_ret. assumption.
      * eapply hr_seq; [apply hr_err; assumption|apply hr_none].
    + (* index_bang *)
      intros op an vs r H. cbn [index_bang]. cbn [simple_parts] in H. psplit.
      eapply hr_bind; [apply r_index_annot; assumption|]. intros a _.
      eapply hr_seq; [apply r_check_arity; assumption|apply IHo; [assumption|apply PS_flat_map; assumption]].
    + (* index_bang_ops *)
      intros op a vs r Hr Hvs. cbn [index_bang_ops].
      assert (Hl : forall k, hr (lift (nth_error vs k)) (fun v => PS (value_parts v))).
      { intros k. apply hr_lift. intros v E. apply nth_error_In in E. rewrite Forall_forall in Hvs. apply Hvs. exact E. }
      assert (Hfi : forall v, PS (value_parts v) -> hr (lift (value_first_ident v)) (fun i => Pf (i_rng i))).
      { intros v Hv. apply hr_lift. intros i E. eapply first_ident_rok; eassumption. }
      assert (Hdflt :
        hr (match bang_check_each op with
              | Some expected =>
                seq (iterM (fun v =>
                         bind (try_ (index_value n v)) (fun o =>
                         match o with
                         | Some t => bind state (fun s => if can_cast s t expected then ret tt else err (value_rng v) DOperand)
                         | None => ret tt
                         end)) vs)
                    (bind state (fun s => lift (snd (bang_post s op a []))))
              | None =>
                bind (mapM_opt (index_value n) vs) (fun os =>
                bind state (fun s =>
                let '(ds, t) := bang_post s op a (combine (map value_rng vs) os) in
                seq (iterM (fun d => err (fst d) DOperand) ds) (lift t)))
              end) any).
      { destruct (bang_check_each op) as [expected|].
        - eapply hr_seq.
          + apply hr_iterM. intros v Hv. rewrite Forall_forall in Hvs. specialize (Hvs v Hv).
            eapply hr_bind; [apply hr_try; apply IHv; exact Hvs|]. intros o _.
            destruct o as [t|]; [|hret].
            eapply hr_bind; [apply hr_state|]. intros x _.
            destruct (can_cast x t expected); [hret|apply hr_err; apply value_rng_ok; exact Hvs].
          + eapply hr_bind; [apply hr_state|]. intros x _. apply hr_lift_any.
        - eapply hr_bind; [apply Hmap; exact Hvs|]. intros os _.
          eapply hr_bind; [apply hr_state|]. intros x _.
          assert (Hrs : Forall Pf (map value_rng vs)).
          { apply Forall_map. eapply Forall_impl; [|exact Hvs]. intros v Hv. apply value_rng_ok. exact Hv. }
          pose proof (bang_post_ok x op a _ (vts_combine _ os Hrs)) as K.
          destruct (bang_post x op a (combine (map value_rng vs) os)) as [ds t]. cbn [fst] in K.
          eapply hr_seq; [|apply hr_lift_any].
          apply hr_iterM. intros d Hd. apply hr_err. unfold dgs_ok in K. rewrite Forall_forall in K. apply K. exact Hd. }
      destruct op; try exact Hdflt; clear Hdflt.
      * (* XFilter *)
        eapply hr_bind; [apply Hl|]. intros var Hvar.
        eapply hr_bind; [apply Hl|]. intros lst Hlst.
        eapply hr_bind; [apply Hl|]. intros pred Hpred.
        eapply hr_bind; [apply IHv; exact Hlst|]. intros lt _.
        eapply hr_bind; [apply hr_lift_any|]. intros vt _.
        eapply hr_bind; [apply Hfi; exact Hvar|]. intros i Hi.
        eapply hr_seq; [|hret].
        apply hr_scoped. eapply hr_seq; [apply r_bind_var; exact Hi|apply IHv; exact Hpred].
      * (* XFoldl *)
        eapply hr_bind; [apply Hl|]. intros init Hinit.
        eapply hr_bind; [apply Hl|]. intros lst Hlst.
        eapply hr_bind; [apply Hl|]. intros acc Hacc.
        eapply hr_bind; [apply Hl|]. intros var Hvar.
        eapply hr_bind; [apply Hl|]. intros expr Hexpr.
        eapply hr_bind; [apply IHv; exact Hinit|]. intros it _.
        eapply hr_bind; [apply IHv; exact Hlst|]. intros lt _.
        eapply hr_bind; [apply hr_lift_any|]. intros et _.
        eapply hr_bind; [apply Hfi; exact Hacc|]. intros ia Hia.
        eapply hr_bind; [apply Hfi; exact Hvar|]. intros iv Hiv.
        eapply hr_seq; [|hret].
        apply hr_scoped. eapply hr_seq; [apply r_bind_var; exact Hia|].
        eapply hr_seq; [apply r_bind_var; exact Hiv|apply IHv; exact Hexpr].
      * (* XForEach *)
        eapply hr_bind; [apply Hl|]. intros var Hvar.
        eapply hr_bind; [apply Hl|]. intros sq Hsq.
        eapply hr_bind; [apply Hl|]. intros expr Hexpr.
        eapply hr_bind; [apply IHv; exact Hsq|]. intros st_ _.
        eapply hr_bind; [apply hr_lift_any|]. intros vt _.
        eapply hr_bind; [apply Hfi; exact Hvar|]. intros i Hi.
        eapply hr_bind; [|intros et _; hret].
        apply hr_try. apply hr_scoped. eapply hr_seq; [apply r_bind_var; exact Hi|apply IHv; exact Hexpr].
Qed.

Lemma r_index_value : forall n v, PS (value_parts v) -> hr (index_value n v) any.
Proof. intros n. apply (rvalues_ok_all n). Qed.
Lemma r_index_arg : forall n a, PS (arg_parts a) -> hr (index_arg n a) argv_ok.
Proof. intros n. apply (rvalues_ok_all n). Qed.
Lemma r_index_args : forall n l, PS (flat_map arg_parts l) -> hr (index_args n l) (Forall (optq argv_ok)).
Proof. intros n l H. unfold index_args. apply hr_mapM_opt. intros a Ha. apply r_index_arg. eapply PS_in; eassumption. Qed.
Lemma r_values : forall n vs, PS (flat_map value_parts vs) -> hr (iterM (index_value n) vs) any.
Proof. intros n vs H. apply hr_iterM. intros v Hv. apply r_index_value. eapply PS_in; eassumption. Qed.

Lemma r_resolve_class : forall n c, PS (classref_parts c) -> hr (resolve_class_ref_as_class n c) any.
Proof.
  intros n [i args r] H. cbn [resolve_class_ref_as_class]. cbn [classref_parts] in H. psplit.
  eapply hr_bind; [apply hr_here; eassumption|]. intros loc Hl.
  eapply hr_bind; [apply hr_state|]. intros x _.
  destruct (find_class x (i_name i)) as [cid|].
  - eapply hr_seq; [apply hr_add_reference; exact Hl|].
    eapply hr_bind; [apply hr_state|]. intros x1 _.
    eapply hr_bind; [apply hr_lift_any|]. intros rc _.
    eapply hr_bind; [apply r_index_args; eassumption|]. intros avs Havs.
    eapply hr_bind; [apply hr_state|]. intros x2 _.
    eapply hr_seq; [apply hr_emit; apply check_template_args_ok; assumption|hret].
  - eapply hr_seq; [apply hr_error; exact Hl|apply hr_none].
Qed.
Lemma r_resolve_multiclass : forall n c, PS (classref_parts c) -> hr (resolve_class_ref_as_multiclass n c) any.
Proof.
  intros n [i args r] H. cbn [resolve_class_ref_as_multiclass]. cbn [classref_parts] in H. psplit.
  eapply hr_bind; [apply hr_here; eassumption|]. intros loc Hl.
  eapply hr_bind; [apply hr_state|]. intros x _.
  destruct (find_multiclass x (i_name i)) as [mid|].
  - eapply hr_seq; [apply hr_add_reference; exact Hl|].
    eapply hr_bind; [apply hr_state|]. intros x1 _.
    eapply hr_bind; [apply hr_lift_any|]. intros rc _.
    eapply hr_bind; [apply r_index_args; eassumption|]. intros avs Havs.
    eapply hr_bind; [apply hr_state|]. intros x2 _.
    eapply hr_seq; [apply hr_emit; apply check_template_args_ok; assumption|hret].
  - eapply hr_seq; [apply hr_error; exact Hl|apply hr_none].
Qed.
Lemma classref_rng_ok : forall c, PS (classref_parts c) -> Pf (classref_rng c).
Proof. intros [i args r] H. cbn [classref_parts] in H. psplit. assumption. Qed.

Lemma r_index_parents : forall n ps, PS (flat_map classref_parts ps) -> hr (index_parents n ps) any.
Proof.
  intros n ps H. unfold index_parents.
  eapply hr_bind; [apply hr_state|]. intros x _.
  destruct (current_record_id x) as [rid|].
  - apply hr_iterM. intros cr Hcr. pose proof (PS_in _ _ _ _ H Hcr) as Hc.
    eapply hr_bind; [apply hr_try; apply r_resolve_class; exact Hc|]. intros o _.
    destruct o as [cid|]; [|hret].
    destruct (cid =? rid); [apply hr_err; apply classref_rng_ok; exact Hc|].
    apply hr_record_mut. intros r0. reflexivity.
  - destruct (current_multiclass_id x) as [mid|].
    + apply hr_iterM. intros cr Hcr. pose proof (PS_in _ _ _ _ H Hcr) as Hc.
      eapply hr_bind; [apply hr_try; apply r_resolve_multiclass; exact Hc|]. intros o _.
      destruct o as [p|]; [|hret].
      apply hr_multiclass_mut. intros m. reflexivity.
    + destruct (current_defm_id x); [|apply hr_bad].
      apply hr_iterM. intros cr Hcr. apply r_resolve_multiclass. eapply PS_in; eassumption.
Qed.

Lemma r_index_targ : forall n a, PS (targ_parts a) -> hr (index_targ n a) any.
Proof.
  intros n [t i dflt] H. cbn [index_targ]. cbn [targ_parts] in H. psplit.
  eapply hr_bind; [apply hr_here; eassumption|]. intros loc Hl.
  eapply hr_bind; [apply r_index_ty; assumption|]. intros typ _.
  eapply hr_bind; [apply hr_add_leaf; exact Hl|]. intros tid _.
  eapply hr_bind; [apply hr_state|]. intros x _.
  eapply hr_seq.
  - destruct (current_record_id x) as [rid|]; [apply hr_record_mut; intros r0; reflexivity|].
    destruct (current_multiclass_id x) as [mid|]; [apply hr_multiclass_mut; intros m; reflexivity|apply hr_bad].
  - destruct dflt as [v|]; [|apply hr_none].
    eapply hr_seq; [apply r_index_value; assumption|apply hr_none].
Qed.

Lemma r_index_name_value : forall v, PS (value_parts v) -> hr (index_name_value v) (fun p => P (snd p)).
Proof.
  intros v H. destruct v as [r [|[sv sufs] rest]]; cbn [index_name_value]; try apply hr_none.
  destruct sv; try apply hr_none.
  cbn [value_parts flat_map inner_parts simple_parts app] in H. psplit.
  eapply hr_bind; [apply hr_here; eassumption|]. intros loc Hl. apply hr_ret. exact Hl.
Qed.

Lemma r_index_defvar : forall n i v, Pf (i_rng i) -> PS (value_parts v) -> hr (index_defvar n i v) any.
Proof.
  intros n i v Hi Hv. unfold index_defvar.
  eapply hr_bind; [apply hr_here; exact Hi|]. intros loc Hl.
  eapply hr_bind; [apply hr_try; apply r_index_value; exact Hv|]. intros o _.
  apply hr_scopes_add_variable. exact Hl.
Qed.

Lemma r_index_item : forall n it, PS (item_parts it) -> hr (index_item n it) any.
Proof.
  intros n it H. destruct it as [t i v|i v|i v|c m|v]; cbn [index_item]; cbn [item_parts] in H; psplit.
  - eapply hr_bind; [apply hr_state|]. intros x _.
    destruct (current_record_id x) as [rid|]; [|apply hr_bad].
    eapply hr_bind; [apply hr_here; eassumption|]. intros loc Hl.
    eapply hr_bind; [apply r_index_ty; assumption|]. intros typ _.
    eapply hr_bind; [apply hr_add_leaf; exact Hl|]. intros fid _.
    eapply hr_seq; [apply hr_record_mut; intros r0; reflexivity|].
    eapply hr_bind with (Q1 := fun v' => PS (value_parts v')).
    { apply hr_lift. intros v' E. subst v. assumption. }
    intros v' Hv'.
    eapply hr_bind; [apply r_index_value; exact Hv'|]. intros vt _.
    eapply hr_bind; [apply hr_state|]. intros x' _.
    destruct (can_cast x' vt typ); [apply hr_none|apply hr_err; apply value_rng_ok; exact Hv'].
  - eapply hr_bind; [apply hr_here; eassumption|]. intros loc Hl.
    eapply hr_bind; [apply hr_state|]. intros x _.
    destruct (current_record_id x) as [rid|]; [|apply hr_bad].
    eapply hr_bind; [apply hr_lift_any|]. intros fid _.
    eapply hr_bind; [apply r_leaf_of|]. intros lf _.
    eapply hr_bind; [apply hr_add_leaf; exact Hl|]. intros nid _.
    eapply hr_seq; [apply hr_record_mut; intros r0; reflexivity|].
    eapply hr_seq; [apply hr_add_reference; exact Hl|].
    eapply hr_bind; [apply r_index_value; assumption|]. intros vt _.
    eapply hr_bind; [apply hr_state|]. intros x' _.
    destruct (can_cast x' vt (lf_ty lf)); [apply hr_none|apply hr_err; apply value_rng_ok; assumption].
  - apply r_index_defvar; assumption.
  - eapply hr_seq; [apply r_index_value; assumption|].
    eapply hr_seq; [apply r_index_value; assumption|apply hr_none].
  - eapply hr_seq; [apply r_index_value; exact H|apply hr_none].
Qed.

Lemma r_record_body : forall n ps b, PS (flat_map classref_parts ps) -> PS (flat_map item_parts b) ->
  hr (index_record_body n ps b) any.
Proof.
  intros n ps b Hps Hb. unfold index_record_body.
  eapply hr_seq; [apply r_index_parents; exact Hps|].
  apply hr_iterM. intros it Hit. apply r_index_item. eapply PS_in; eassumption.
Qed.
Lemma r_targs : forall n (o : option (list targ)), PS (opt_parts (flat_map targ_parts) o) ->
  hr (match o with Some l => iterM (index_targ n) l | None => ret tt end) any.
Proof.
  intros n [l|] H; [|hret]. cbn [opt_parts] in H. apply hr_iterM. intros a Ha. apply r_index_targ. eapply PS_in; eassumption.
Qed.

End File.

(** ---- statements: an `include` switches the current file for the statements of the included file *)
Ltac psplit2 :=
  repeat match goal with
  | H : PS _ (_ ++ _) |- _ => apply PS_app in H; destruct H
  | H : PS _ (_ :: _) |- _ => apply PS_cons in H; cbn [part_rng] in H; destruct H
  | H : PS _ [] |- _ => clear H
  end.
Ltac hret2 := apply hr_ret; exact I.

Lemma hr_include_body : forall f g (m : M unit), hr g m any -> hr f (seq (push_file g) (seq m pop_file)) any.
Proof.
  intros f g m Hm s HR Hf. unfold seq, push_file, upd. cbn [snd].
  set (s1 := set_files (g :: s_trace s) (s_indexed s) s).
  assert (HR1 : R s1) by (subst s1; destruct HR; constructor; cbn; auto).
  assert (Hf1 : current_file s1 = g) by reflexivity.
  destruct (Hm s1 HR1 Hf1) as (HR2 & Ht2 & _). set (s2 := snd (m s1)) in *.
  unfold pop_file. assert (Ht : s_trace s2 = g :: s_trace s) by (rewrite Ht2; reflexivity). rewrite Ht. cbn [fst snd].
  split; [destruct HR2; constructor; cbn; auto|split; [reflexivity|intros; exact I]].
Qed.

Section Stmts.
Variable files : list (list stmt).
Hypothesis files_ok : forall g body, nthN files g = Some body -> PS g (flat_map stmt_parts body).

Lemma r_index_stmt : forall n f x, PS f (stmt_parts x) -> hr f (index_stmt files n x) any.
Proof.
  induction n as [|n IH]; intros f x H; [apply hr_bad|].
  assert (Hl : forall g l, PS g (flat_map stmt_parts l) -> hr g (iterM (index_stmt files n) l) any).
  { intros g l Hg. apply hr_iterM. intros y Hy. apply IH. eapply PS_in; eassumption. }
  destruct x; cbn [index_stmt]; cbn [stmt_parts] in H; psplit2.
  - (* include *)
    destruct target as [g|]; [|eapply hr_seq; [apply hr_err; assumption|apply hr_none]].
    eapply hr_bind; [apply hr_state|]. intros x _.
    destruct (existsb (N.eqb g) (s_indexed x)); [apply hr_none|].
    eapply hr_seq; [apply hr_mark_indexed|].
    eapply hr_bind with (Q1 := fun body => PS g (flat_map stmt_parts body)).
    { apply hr_lift. intros body E. apply files_ok. exact E. }
    intros body Hb. apply hr_include_body. apply Hl. exact Hb.
  - eapply hr_seq; [apply r_index_value; assumption|].
    eapply hr_seq; [apply r_index_value; assumption|apply hr_none].
  - (* class *)
    eapply hr_bind; [apply hr_here; eassumption|]. intros loc Hloc.
    eapply hr_bind; [apply hr_add_record; exact Hloc|]. intros rid _.
    apply hr_scoped. eapply hr_seq; [apply r_targs; assumption|apply r_record_body; assumption].
  - (* def *)
    eapply hr_bind with (Q1 := any).
    + destruct nm as [v|]; cbn [opt_parts] in *.
      * eapply hr_bind; [apply r_index_name_value; eassumption|]. intros p Hp. apply hr_add_record. exact Hp.
      * eapply hr_seq; [apply hr_next_anonymous|].
        eapply hr_bind; [apply hr_here; eassumption|]. intros loc Hloc. apply hr_add_anonymous_def. exact Hloc.
    + intros did _. apply hr_scoped. apply r_record_body; assumption.
  - (* defm *)
    eapply hr_bind with (Q1 := any).
    + destruct nm as [v|]; cbn [opt_parts] in *.
      * eapply hr_bind; [apply r_index_name_value; eassumption|]. intros p Hp. apply hr_add_leaf. exact Hp.
      * eapply hr_seq; [apply hr_next_anonymous|].
        eapply hr_bind; [apply hr_here; eassumption|]. intros loc Hloc. apply hr_add_leaf_nopos. exact Hloc.
    + intros did _. apply hr_scoped. apply r_index_parents; assumption.
  - (* defset *)
    eapply hr_bind; [apply hr_here; eassumption|]. intros loc Hloc.
    eapply hr_bind; [apply r_index_ty; assumption|]. intros typ _.
    eapply hr_bind; [apply hr_add_defset; exact Hloc|]. intros did _.
    apply hr_scoped. apply Hl. assumption.
  - apply r_index_defvar; assumption.
  - eapply hr_seq; [apply r_index_value; exact H|apply hr_none].
  - (* foreach *)
    eapply hr_bind; [apply hr_here; eassumption|]. intros loc Hloc.
    eapply hr_bind with (Q1 := any).
    + eapply hr_any. apply hr_try with (Q := any). destruct init as [|v]; [hret2|].
      eapply hr_bind; [apply r_index_value; assumption|]. intros t _. apply hr_lift_any.
    + intros o _. eapply hr_bind; [apply hr_add_leaf; exact Hloc|]. intros vid _.
      apply hr_scoped. apply Hl. assumption.
  - (* if *)
    eapply hr_seq; [apply r_index_value; assumption|].
    apply hr_iterM. intros body Hin. apply hr_scoped. apply Hl.
    destruct Hin as [<-|Hin]; [assumption|].
    destruct el as [e|]; [destruct Hin as [<-|[]]; assumption|destruct Hin].
  - (* let *)
    eapply hr_seq; [apply r_values; assumption|].
    apply hr_scoped. apply Hl. assumption.
  - (* multiclass *)
    eapply hr_bind; [apply hr_here; eassumption|]. intros loc Hloc.
    eapply hr_bind; [apply hr_add_multiclass; exact Hloc|]. intros mid _.
    apply hr_scoped.
    eapply hr_seq; [apply r_targs; assumption|].
    eapply hr_seq; [apply r_index_parents; assumption|apply Hl; assumption].
Qed.
End Stmts.

(** the state after indexing ANY workspace whose AST ranges satisfy the predicate (each with the number of its file) *)
Theorem index_ws_ranges : forall w,
  (forall g body, nthN (ws_files w) g = Some body -> Forall (fun r => P (mkR g (r_lo r) (r_hi r))) (file_rngs body)) ->
  R (index_ws w).
Proof.
  intros w H. unfold index_ws. destruct (ws_files w) as [|root rest] eqn:E; [apply R_st0|].
  assert (Hf : forall g body, nthN (root :: rest) g = Some body -> PS g (flat_map stmt_parts body)).
  { intros g body Hn. specialize (H g body Hn). unfold file_rngs in H. unfold PS, Pf. rewrite Forall_map in H. exact H. }
  assert (Hh : hr 0 (iterM (index_stmt (root :: rest) (ws_fuel w)) root) any).
  { apply hr_iterM. intros y Hy. apply r_index_stmt; [exact Hf|]. eapply PS_in; [|exact Hy]. apply Hf. reflexivity. }
  apply (Hh st0 R_st0 eq_refl).
Qed.

(** ---- from the indexer model's state to the symbol-map state it stands for *)
Lemma R_abs : forall s, R s -> SymbolRanges.AllRanges P' (abs s).
Proof.
  intros s HR. split.
  - intros sid e E. destruct (sid_surj _ _ _ E) as (a & Ha & Hs). subst sid. rewrite (get_sym_abs _ _ Ha) in E.
    assert (Hrefs : Forall P' (refs_of s a)).
    { unfold refs_of. apply Forall_map. apply Forall_forall. intros r Hr. unfold reference_locs in Hr.
      apply in_rev in Hr. apply in_map_iff in Hr. destruct Hr as (x & Hx & Hin). apply filter_In in Hin. destruct Hin as [Hin _].
      pose proof (rr_refs _ HR) as HF. rewrite Forall_forall in HF. subst r. apply (HF x Hin). }
    destruct a as [i|i|i]; cbn [sym_entry] in E.
    + destruct (nthN (s_recs s) i) as [rc|] eqn:En; [|discriminate]. inversion E. subst e. cbn.
      split; [|exact Hrefs]. apply (nthN_Forall _ _ _ _ _ (rr_recs _ HR) En).
    + destruct (nthN (s_mcs s) i) as [mc|] eqn:En; [|discriminate]. inversion E. subst e. cbn.
      split; [|exact Hrefs]. apply (nthN_Forall _ _ _ _ _ (rr_mcs _ HR) En).
    + destruct (nthN (s_leaves s) i) as [lf|] eqn:En; [|discriminate]. inversion E. subst e. cbn.
      split; [|exact Hrefs]. apply (nthN_Forall _ _ _ _ _ (rr_leaves _ HR) En).
  - intros f lo hi sid Hin. unfold SymbolMapBasics.posf in Hin. cbn [abs SM.sm_pos] in Hin. unfold abs_pos in Hin.
    destruct (abs_pos_entries s (s_pos s) f (lo, hi, sid) Hin) as (e & He & _ & Hf & Hlo & Hhi). cbn [fst snd] in Hlo, Hhi.
    pose proof (rr_pos _ HR) as HF. rewrite Forall_forall in HF. specialize (HF e He). unfold P, cv in HF.
    rewrite Hf, <- Hlo, <- Hhi in HF. exact HF.
  - cbn [abs SM.sm_diags]. apply Forall_map. apply Forall_forall. intros d Hd. apply in_rev in Hd.
    pose proof (rr_diags _ HR) as HF. rewrite Forall_forall in HF. apply (HF d Hd).
Qed.

End Ranges.

(** ---- C17 for the Core fragment *)
Theorem c17_symbol_ranges_valid_core : forall ws w,
  (forall g body, nthN (ws_files w) g = Some body ->
     Forall (fun r => W.range_valid ws (SM.mkFR g (r_lo r) (r_hi r)) = true) (file_rngs body)) ->
  let S := abs (index_ws w) in
  (forall f p t, SM.goto_definition S f p = SM.SOk (Some t) -> W.range_valid ws t = true) /\
  (forall f p rs r, SM.references S f p = SM.SOk (Some rs) -> In r rs -> W.range_valid ws r = true) /\
  (forall loc l r s, SM.iter_symbols_in_range S loc = SM.SOk (Some l) -> In (r, s) l -> W.range_valid ws r = true) /\
  (forall s e, SM.get_entry S s = Some e ->
     W.range_valid ws (SM.e_def e) = true /\ forall r, In r (SM.e_refs e) -> W.range_valid ws r = true) /\
  (forall d, In d (SM.sm_diags S) -> W.range_valid ws d = true).
Proof.
  intros ws w Hw S. set (Q := fun r => W.range_valid ws r = true).
  assert (HA : SymbolRanges.AllRanges Q S).
  { apply R_abs. apply index_ws_ranges. intros g body Hn. exact (Hw g body Hn). }
  split; [|split; [|split; [|split]]].
  - intros f p t H. exact (SymbolRanges.all_ranges_goto Q S f p t HA H).
  - intros f p rs r H Hin. pose proof (SymbolRanges.all_ranges_references Q _ _ _ _ HA H) as HF.
    rewrite Forall_forall in HF. apply HF. exact Hin.
  - intros loc l r s H Hin. pose proof (SymbolRanges.all_ranges_in_range Q _ _ _ _ HA H) as HF.
    rewrite Forall_forall in HF. apply (HF (r, s)). exact Hin.
  - intros s e H. destruct (SymbolRanges.ar_entries Q _ HA _ _ H) as [H1 HF]. split; [exact H1|].
    intros r Hin. rewrite Forall_forall in HF. apply HF. exact Hin.
  - intros d Hin. pose proof (SymbolRanges.ar_diags Q _ HA) as HF. rewrite Forall_forall in HF. apply HF. exact Hin.
Qed.

(** no range is invented: every stored / returned range is (file g, range of a part of file g's AST) *)
Definition ast_range (w : workspace) (fr : SM.file_range) : Prop :=
  exists g body r, nthN (ws_files w) g = Some body /\ In r (file_rngs body) /\ fr = SM.mkFR g (r_lo r) (r_hi r).
Theorem c17_ranges_come_from_ast : forall w, SymbolRanges.AllRanges (ast_range w) (abs (index_ws w)).
Proof.
  intros w. apply R_abs. apply index_ws_ranges. intros g body Hn. apply Forall_forall. intros r Hr.
  unfold P, cv. cbn. exists g, body, r. repeat split; assumption.
Qed.
Print Assumptions c17_symbol_ranges_valid_core.
Print Assumptions c17_ranges_come_from_ast.
