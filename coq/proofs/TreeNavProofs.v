(** Lemmas about Tree.v / TreeNav.v used by the C18 / C19 proofs (group outline). *)
From Coq Require Import List NArith Bool Lia Sorted.
From TG.Gen Require Import GenTokens.
From TG.Model Require Import Chars Tree TreeNav.
Import ListNotations.
Open Scope N_scope.

(** ---- induction principle for the nested inductive [tree] ---- *)
Section TreeInd.
  Variable P : tree -> Prop.
  Hypothesis Htok : forall k txt, P (Tok k txt).
  Hypothesis Hnode : forall k cs, Forall P cs -> P (Node k cs).
  Fixpoint tree_ind' (t : tree) : P t :=
    match t with
    | Tok k txt => Htok k txt
    | Node k cs =>
        Hnode k cs ((fix go (l : list tree) : Forall P l :=
                       match l with
                       | [] => Forall_nil P
                       | c :: r => Forall_cons c (tree_ind' c) (go r)
                       end) cs)
    end.
End TreeInd.

(** ---- unfolding equations: the nested [fix]es of Tree.v are the forest functions ---- *)
Lemma tree_len_node : forall k cs, tree_len (Node k cs) = forest_len cs.
Proof.
  intros k cs. unfold forest_len. cbn [tree_len]. induction cs as [|c r IH]; [reflexivity|].
  cbn [fold_right]. rewrite <- IH. reflexivity.
Qed.

Lemma forest_len_cons : forall c r, forest_len (c :: r) = tree_len c + forest_len r.
Proof. reflexivity. Qed.

Lemma forest_len_app : forall a b, forest_len (a ++ b) = forest_len a + forest_len b.
Proof.
  induction a as [|c r IH]; intros b; [reflexivity|].
  cbn [app]. rewrite !forest_len_cons, IH. lia.
Qed.

Lemma leaves_from_node : forall k cs o, leaves_from o (Node k cs) = leaves_forest o cs.
Proof.
  intros k cs o. reflexivity.
Qed.

Lemma leaves_from_tok : forall k txt o, leaves_from o (Tok k txt) = [(k, o, o + bytes txt, txt)].
Proof. reflexivity. Qed.

Lemma descendants_from_node : forall k cs o,
  descendants_from o (Node k cs) = (o, o + forest_len cs, Node k cs) :: descendants_forest o cs.
Proof.
  intros k cs o. rewrite <- (tree_len_node k cs). reflexivity.
Qed.

Lemma descendants_from_tok : forall k txt o, descendants_from o (Tok k txt) = [].
Proof. reflexivity. Qed.

Global Opaque tree_len leaves_from descendants_from.

(** ---- leaves: bounds and order ---- *)
Definition leaf_in (lo hi : N) (l : leaf) : Prop := lo <= lf_lo l /\ lf_lo l <= lf_hi l /\ lf_hi l <= hi.

Lemma leaves_bounds : forall t off l, In l (leaves_from off t) -> leaf_in off (off + tree_len t) l.
Proof.
  induction t as [k txt|k cs IH] using tree_ind'; intros off l Hin.
  - rewrite leaves_from_tok in Hin. destruct Hin as [<-|[]].
    unfold leaf_in; cbn. Transparent tree_len. cbn [tree_len]. Opaque tree_len. lia.
  - rewrite leaves_from_node in Hin. rewrite tree_len_node.
    revert off Hin. induction IH as [|c r Hc Hr IHr]; intros off Hin; [destruct Hin|].
    cbn [leaves_forest] in Hin. rewrite forest_len_cons. apply in_app_or in Hin. destruct Hin as [Hin|Hin].
    + apply Hc in Hin. unfold leaf_in in *. lia.
    + apply IHr in Hin. unfold leaf_in in *. lia.
Qed.

Lemma leaves_forest_bounds : forall cs off l, In l (leaves_forest off cs) -> leaf_in off (off + forest_len cs) l.
Proof.
  intros cs off l H. rewrite <- (leaves_from_node S_Error) in H. rewrite <- (tree_len_node S_Error).
  now apply leaves_bounds.
Qed.

Definition leaf_before (a b : leaf) : Prop := lf_hi a <= lf_lo b.

Lemma sorted_app : forall (A : Type) (R : A -> A -> Prop) (l1 l2 : list A),
  StronglySorted R l1 -> StronglySorted R l2 ->
  (forall a b, In a l1 -> In b l2 -> R a b) -> StronglySorted R (l1 ++ l2).
Proof.
  intros A R l1 l2 H1 H2 H12. induction H1 as [|a l Hl IH Ha]; [exact H2|].
  cbn [app]. constructor.
  - apply IH. intros x y Hx Hy. apply H12; [now right|exact Hy].
  - apply Forall_forall. intros x Hx. apply in_app_or in Hx. destruct Hx as [Hx|Hx].
    + rewrite Forall_forall in Ha. now apply Ha.
    + apply H12; [now left|exact Hx].
Qed.

Lemma leaves_sorted : forall t off, StronglySorted leaf_before (leaves_from off t).
Proof.
  induction t as [k txt|k cs IH] using tree_ind'; intros off.
  - rewrite leaves_from_tok. repeat constructor.
  - rewrite leaves_from_node. revert off. induction IH as [|c r Hc Hr IHr]; intros off; [constructor|].
    cbn [leaves_forest]. apply sorted_app; [apply Hc|apply IHr|].
    intros a b Ha Hb. apply leaves_bounds in Ha. apply leaves_forest_bounds in Hb.
    unfold leaf_in, leaf_before in *. lia.
Qed.

(** a subtree without leaves has length 0; the first leaf of a subtree starts where the subtree starts *)
Lemma no_leaves_len0 : forall t off, leaves_from off t = [] -> tree_len t = 0.
Proof.
  induction t as [k txt|k cs IH] using tree_ind'; intros off H.
  - rewrite leaves_from_tok in H. discriminate.
  - rewrite leaves_from_node in H. rewrite tree_len_node.
    revert off H. induction IH as [|c r Hc Hr IHr]; intros off H; [reflexivity|].
    cbn [leaves_forest] in H. apply app_eq_nil in H. destruct H as [H1 H2].
    rewrite forest_len_cons. rewrite (Hc _ H1), (IHr _ H2). reflexivity.
Qed.

Lemma first_leaf_lo : forall t off l, hd_error (leaves_from off t) = Some l -> lf_lo l = off.
Proof.
  induction t as [k txt|k cs IH] using tree_ind'; intros off l H.
  - rewrite leaves_from_tok in H. cbn in H. injection H as <-. reflexivity.
  - rewrite leaves_from_node in H.
    revert off H. induction IH as [|c r Hc Hr IHr]; intros off H; [discriminate|].
    cbn [leaves_forest] in H. destruct (leaves_from off c) as [|x xs] eqn:E.
    + cbn [app] in H. rewrite (no_leaves_len0 _ _ E) in H. rewrite N.add_0_r in H. now apply IHr.
    + cbn in H. injection H as <-. apply Hc. rewrite E. reflexivity.
Qed.

(** ---- descendants: range and leaf inclusion ---- *)
Lemma descendants_facts : forall t off lo hi n, In (lo, hi, n) (descendants_from off t) ->
  off <= lo /\ hi = lo + tree_len n /\ hi <= off + tree_len t /\
  (forall l, In l (leaves_from lo n) -> In l (leaves_from off t)).
Proof.
  induction t as [k txt|k cs IH] using tree_ind'; intros off lo hi n Hin.
  - rewrite descendants_from_tok in Hin. destruct Hin.
  - rewrite descendants_from_node in Hin. destruct Hin as [Heq|Hin].
    + injection Heq as <- <- <-. rewrite tree_len_node. repeat split; try lia. auto.
    + rewrite tree_len_node, leaves_from_node.
      revert off Hin. induction IH as [|c r Hc Hr IHr]; intros off Hin; [destruct Hin|].
      cbn [descendants_forest] in Hin. cbn [leaves_forest]. rewrite forest_len_cons.
      apply in_app_or in Hin. destruct Hin as [Hin|Hin].
      * apply Hc in Hin. destruct Hin as (H1 & H2 & H3 & H4). repeat split; try lia.
        intros l Hl. apply in_or_app. left. now apply H4.
      * apply IHr in Hin. destruct Hin as (H1 & H2 & H3 & H4). repeat split; try lia.
        intros l Hl. apply in_or_app. right. now apply H4.
Qed.

(** ---- last_opt ---- *)
Lemma last_opt_In : forall (A : Type) (l : list A) x, last_opt l = Some x -> In x l.
Proof.
  induction l as [|a r IH]; intros x H; [discriminate|].
  destruct r as [|b r']; [injection H as <-; now left|]. right. now apply IH.
Qed.

Lemma last_opt_None : forall (A : Type) (l : list A), last_opt l = None -> l = [].
Proof.
  induction l as [|a r IH]; intros H; [reflexivity|].
  destruct r as [|b r']; [discriminate|]. specialize (IH H). discriminate.
Qed.

Lemma last_opt_split : forall (A : Type) (l : list A) x, last_opt l = Some x -> exists pre, l = pre ++ [x].
Proof.
  induction l as [|a r IH]; intros x H; [discriminate|].
  destruct r as [|b r']; [injection H as <-; now exists []|].
  destruct (IH x H) as [pre E]. exists (a :: pre). cbn [app]. now rewrite <- E.
Qed.

Lemma last_opt_app1 : forall (A : Type) (l : list A) x, last_opt (l ++ [x]) = Some x.
Proof.
  induction l as [|a r IH]; intros x; [reflexivity|].
  cbn [app]. specialize (IH x). destruct (r ++ [x]) as [|b r'] eqn:E; [destruct r; discriminate|].
  exact IH.
Qed.
