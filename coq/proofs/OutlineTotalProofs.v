(** C18: the indexer slice never hits a modelled panic and [ws_fuel] always suffices -- for EVERY workspace AST.
    This discharges the hypothesis [oi_bad (oix w) = false] of the source-level theorems. *)
From Coq Require Import List NArith Bool Lia Arith PeanoNat.
From TG.Model Require Import Chars CoreAst SymbolMap SymbolWf Outline OutlineIndex OutlineSpec.
From TG.Proofs Require Import OutlineProofs SymbolMapBasics SymbolOps SymbolIds OutlineIndexProofs OutlineSourceProofs
                              OutlineVisitProofs OutlineChildProofs.
Import ListNotations.
Open Scope N_scope.

(** ---- the invariant ---- *)
Fixpoint scopes_valid (sm : symbol_map) (l : list oscope) : Prop :=
  match l with
  | [] => True
  | ORecord r :: t => valid_id sm KRecord r = true /\ scopes_valid sm t
  | ODefset d :: t => valid_id sm KDefset d = true /\ scopes_valid sm t
  | OMulticlass m :: t => valid_id sm KMulticlass m = true /\ scopes_valid sm t
  | _ :: t => scopes_valid sm t
  end.

Definition cls_valid (sm : symbol_map) : Prop :=
  forall n id, amap_get (sm_name_to_class sm) n = Some id -> valid_id sm KRecord id = true.

Definition fields_valid (sm : symbol_map) : Prop :=
  forall r e n f, get_entry sm (KRecord, r) = Some e -> amap_get (p_fields (e_payload e)) n = Some f ->
                  valid_id sm KRecordField f = true.

Definition sm_ok (sm : symbol_map) : Prop := IdsInv sm /\ cls_valid sm /\ fields_valid sm.

Definition tinv (s : ostate) : Prop := oi_bad s = false /\ sm_ok (oi_sm s) /\ scopes_valid (oi_sm s) (oi_scopes s).

Lemma valid_mono_op : forall S o S' k i, apply_op S o = SOk S' -> valid_id S k i = true -> valid_id S' k i = true.
Proof. intros S o S' k i H. apply valid_id_mono. intros k'. eapply next_id_mono_step; eauto. Qed.

Lemma scopes_valid_mono : forall S o S' l, apply_op S o = SOk S' -> scopes_valid S l -> scopes_valid S' l.
Proof.
  intros S o S' l H. induction l as [|k l IH]; intros Hs; [exact I|].
  destruct k; cbn [scopes_valid] in *; auto; destruct Hs as [Hv Hr]; (split; [eapply valid_mono_op; eauto|auto]).
Qed.

(** what a successful op does to an entry, backwards *)
Lemma op_entry_back : forall S o S' s e', apply_op S o = SOk S' -> get_entry S' s = Some e' ->
  (exists k e0 keyed, op_alloc o = Some (k, e0, keyed) /\ s = (k, next_id S k) /\ e' = e0) \/
  (exists e, get_entry S s = Some e /\
     match op_update S o with
     | Some (t, g) => if sid_eqb t s then e' = g e else e' = e
     | None => e' = e
     end).
Proof.
  intros S o S' s e' H He'. pose proof H as H0. apply apply_op_spec in H. destruct H as (Ha & _ & _). unfold arenas_after in Ha.
  destruct (op_alloc o) as [[[k e0] keyed]|] eqn:Eo.
  - destruct Ha as (Hg & _). rewrite Hg in He'. destruct (sid_eqb s (k, next_id S k)) eqn:Q.
    + left. apply sid_eqb_eq in Q. injection He' as <-. eauto 6.
    + right. exists e'. split; [exact He'|].
      assert (op_update S o = None) as -> by (destruct o; cbn in *; try discriminate; reflexivity). reflexivity.
  - right. destruct (op_update S o) as [[t g]|] eqn:Eu.
    + destruct Ha as (_ & Hg & _). rewrite Hg in He'. destruct (sid_eqb t s).
      * destruct (get_entry S s) as [e|]; [|discriminate]. cbn in He'. injection He' as <-. eauto.
      * eauto.
    + rewrite (same_arenas_get_entry _ _ s Ha) in He'. eauto.
Qed.

Lemma amap_get_insert_cases : forall (V : Type) (m : list (SymbolMap.name * V)) k v k' x,
  amap_get (amap_insert m k v) k' = Some x -> x = v \/ amap_get m k' = Some x.
Proof.
  intros V m k v k' x H. rewrite amap_insert_get in H. destruct (list_eqb k k'); [left; congruence|now right].
Qed.

(** one successful op keeps [sm_ok], provided the ids it mentions are allocated ([op_ids_ok]) *)
Lemma sm_ok_step : forall S o S', sm_ok S -> op_ids_ok S o = true -> apply_op S o = SOk S' -> sm_ok S'.
Proof.
  intros S o S' (HI & HC & HF) Hok H. split; [eapply ids_step; eauto|]. split.
  - (* class table *)
    intros n id Hg. rewrite (classes_apply_op _ _ _ H) in Hg.
    destruct (op_class o) as [cn|] eqn:Ec.
    + apply amap_get_insert_cases in Hg. destruct Hg as [->|Hg]; [|eapply valid_mono_op; eauto].
      unfold valid_id. apply N.ltb_lt. rewrite (op_next_id _ _ _ KRecord H).
      destruct o; cbn in Ec; try discriminate. destruct k; try discriminate. cbn. lia.
    + eapply valid_mono_op; eauto.
  - (* field maps *)
    intros r e' n f He' Hg. destruct (op_entry_back _ _ _ _ _ H He') as [(k & e0 & keyed & Eo & Es & ->)|(e & He & Heff)].
    + destruct o; cbn [op_alloc] in Eo; try discriminate; injection Eo as <- <- _; try discriminate Es; cbn in Hg; discriminate.
    + assert (amap_get (p_fields (e_payload e)) n = Some f \/ valid_id S' KRecordField f = true) as [Hold|Hnew]; [|eapply valid_mono_op; eauto|exact Hnew].
      destruct (op_update S o) as [[t g]|] eqn:Eu; [|subst e'; now left].
      destruct (sid_eqb t (KRecord, r)) eqn:Q; [|subst e'; now left]. subst e'.
      destruct o; cbn [op_update] in Eu; try discriminate;
        try (match type of Eu with context [cur_target S ?k] =>
               destruct (cur_target S k) as [t0|] eqn:Ec; [|discriminate]; cbn [option_map] in Eu; injection Eu as _ <- end);
        try (injection Eu as _ <-);
        unfold upd_payload, push_ref, pf_rec_targ, pf_rec_field, pf_rec_parent, pf_defset_def, pf_mc_targ, pf_mc_parent, pf_defm_parent in Hg;
        cbn [e_payload] in Hg; destruct (e_payload e) eqn:Ep; cbn [p_fields] in Hg; try (now left).
      (* record.add_record_field *)
      apply amap_get_insert_cases in Hg. destruct Hg as [->|Hg]; [right|left; exact Hg].
      cbn [op_ids_ok] in Hok. destruct (cur_is S KRecord); [|discriminate]. eapply valid_mono_op; eauto.
Qed.

(** a successful emit under [tinv] *)
Lemma tinv_emit : forall o s, tinv s -> op_ids_ok (oi_sm s) o = true ->
  tinv (emit o s) /\ apply_op (oi_sm s) o = SOk (oi_sm (emit o s)) /\
  oi_scopes (emit o s) = oi_scopes s /\ oi_trace (emit o s) = oi_trace s /\ oi_indexed (emit o s) = oi_indexed s /\
  oi_anon (emit o s) = oi_anon s.
Proof.
  intros o s (B & Hsm & Hsc) Hok. destruct (apply_op_ok _ _ Hok) as (S' & Ea).
  unfold emit. rewrite B, Ea. cbn [set_sm_ops oi_bad oi_sm oi_scopes oi_trace oi_indexed oi_anon].
  split; [|auto]. split; [reflexivity|]. split; [eapply sm_ok_step; eauto|eapply scopes_valid_mono; eauto].
Qed.

(** ---- facts about single ops ---- *)
Definition frame (s s' : ostate) : Prop :=
  oi_scopes s' = oi_scopes s /\ oi_trace s' = oi_trace s /\ oi_indexed s' = oi_indexed s.

Lemma frame_refl : forall s, frame s s.
Proof. intros s. repeat split. Qed.
Lemma frame_trans : forall a b c, frame a b -> frame b c -> frame a c.
Proof. intros a b c (A1 & A2 & A3) (B1 & B2 & B3). repeat split; congruence. Qed.

Lemma valid_new : forall S o S' k e0 keyed, apply_op S o = SOk S' -> op_alloc o = Some (k, e0, keyed) ->
  valid_id S' k (next_id S k) = true.
Proof.
  intros S o S' k e0 keyed H Eo. unfold valid_id. apply N.ltb_lt. rewrite (op_next_id _ _ _ k H), Eo.
  rewrite sym_kind_eqb_refl. lia.
Qed.

Lemma valid_set_cur : forall S c k i, valid_id (set_cur S c) k i = valid_id S k i.
Proof. intros S c [] i; reflexivity. Qed.

Lemma cur_is_after : forall S k id S', borrow_mut S (k, id) = SOk S' -> cur_is S' k = Some id.
Proof.
  intros S k id S' H. pose proof H as H0. apply borrow_mut_spec in H. destruct H as (-> & He).
  unfold cur_is. cbn [set_cur sm_cur]. rewrite sym_kind_eqb_refl, valid_set_cur.
  assert (valid_id S k id = true) as -> by (apply (get_entry_valid S (k, id)); exact He). reflexivity.
Qed.

Lemma first_record_valid : forall sm l r, scopes_valid sm l -> first_record l = Some r -> valid_id sm KRecord r = true.
Proof.
  intros sm l r. induction l as [|k l IH]; intros Hs Hf; [discriminate|].
  destruct k; cbn [scopes_valid first_record] in *; try tauto. injection Hf as <-. tauto.
Qed.
Lemma first_defset_valid : forall sm l r, scopes_valid sm l -> first_defset l = Some r -> valid_id sm KDefset r = true.
Proof.
  intros sm l r. induction l as [|k l IH]; intros Hs Hf; [discriminate|].
  destruct k; cbn [scopes_valid first_defset] in *; try tauto. injection Hf as <-. tauto.
Qed.
Lemma first_multiclass_valid : forall sm l r, scopes_valid sm l -> first_multiclass l = Some r -> valid_id sm KMulticlass r = true.
Proof.
  intros sm l r. induction l as [|k l IH]; intros Hs Hf; [discriminate|].
  destruct k; cbn [scopes_valid first_multiclass] in *; try tauto. injection Hf as <-. tauto.
Qed.

(** emit o1 then o2, where o2 is allowed in every state o1 can lead to *)
Lemma tinv_emit2 : forall o1 o2 s, tinv s -> op_ids_ok (oi_sm s) o1 = true ->
  (forall S1, apply_op (oi_sm s) o1 = SOk S1 -> op_ids_ok S1 o2 = true) ->
  tinv (emit o2 (emit o1 s)) /\ frame s (emit o2 (emit o1 s)) /\ oi_anon (emit o2 (emit o1 s)) = oi_anon s /\
  exists S1, apply_op (oi_sm s) o1 = SOk S1 /\ apply_op S1 o2 = SOk (oi_sm (emit o2 (emit o1 s))).
Proof.
  intros o1 o2 s Ht H1 H2. destruct (tinv_emit o1 s Ht H1) as (T1 & Ea1 & A1 & A2 & A3 & A4).
  destruct (tinv_emit o2 _ T1 (H2 _ Ea1)) as (T2 & Ea2 & B1 & B2 & B3 & B4).
  split; [exact T2|]. split; [repeat split; congruence|]. split; [congruence|eauto].
Qed.

(** `x_mut(id)` then an op on the borrowed entry *)
Lemma ok_after_record_mut : forall S rid S1 o2,
  apply_op S (OpRecordMut rid) = SOk S1 ->
  (match o2 with
   | OpRecAddTemplateArg _ id => valid_id S KTemplateArg id = true
   | OpRecAddField _ id => valid_id S KRecordField id = true
   | OpRecAddParent p => valid_id S KRecord p = true
   | _ => False
   end) -> op_ids_ok S1 o2 = true.
Proof.
  intros S rid S1 o2 H Hv. pose proof H as H0. cbn [apply_op] in H. pose proof (cur_is_after _ _ _ _ H) as Hc.
  destruct o2; try contradiction; cbn [op_ids_ok]; rewrite Hc; eapply valid_mono_op; eauto.
Qed.

(** ---- the steps inside a record ---- *)
Lemma tot_targ : forall a s, tinv s ->
  (exists r, first_record (oi_scopes s) = Some r) \/ (exists m, first_multiclass (oi_scopes s) = Some m) ->
  tinv (index_targ a s) /\ frame s (index_targ a s) /\ oi_anon (index_targ a s) = oi_anon s.
Proof.
  intros [t i d] s Ht Hsc. unfold index_targ. destruct (ty_string (oi_sm s) t) as [typ|]; [|auto using frame_refl].
  set (tid := next_id (oi_sm s) KTemplateArg).
  set (o1 := OpAddTemplateArg (i_name i) typ (loc_of s (i_rng i)) tid).
  assert (op_ids_ok (oi_sm s) o1 = true) as Hok1 by (cbn; apply N.eqb_refl).
  destruct (tinv_emit o1 s Ht Hok1) as (T1 & Ea1 & A1 & A2 & A3 & A4).
  pose proof (valid_new _ _ _ _ _ _ Ea1 eq_refl) as Hvt. fold tid in Hvt.
  rewrite A1. destruct T1 as (B1 & Hsm1 & Hsc1). rewrite A1 in Hsc1.
  destruct (first_record (oi_scopes s)) as [rid|] eqn:Fr.
  - pose proof (first_record_valid _ _ _ Hsc1 Fr) as Hvr.
    destruct (tinv_emit2 (OpRecordMut rid) (OpRecAddTemplateArg (i_name i) tid) (emit o1 s)) as (T2 & F2 & An2 & _).
    + split; [exact B1|]. split; [exact Hsm1|]. now rewrite A1.
    + exact Hvr.
    + intros S1 HS1. eapply ok_after_record_mut; [exact HS1|exact Hvt].
    + split; [exact T2|]. split; [|congruence]. eapply frame_trans; [|exact F2]. repeat split; assumption.
  - destruct Hsc as [(r & Hr)|(m & Hm)]; [discriminate|]. rewrite Hm.
    pose proof (first_multiclass_valid _ _ _ Hsc1 Hm) as Hvm.
    destruct (tinv_emit2 (OpMulticlassMut m) (OpMcAddTemplateArg (i_name i) tid) (emit o1 s)) as (T2 & F2 & An2 & _).
    + split; [exact B1|]. split; [exact Hsm1|]. now rewrite A1.
    + exact Hvm.
    + intros S1 HS1. pose proof HS1 as H0. cbn [apply_op] in HS1. pose proof (cur_is_after _ _ _ _ HS1) as Hc.
      cbn [op_ids_ok]. rewrite Hc. eapply valid_mono_op; eauto.
    + split; [exact T2|]. split; [|congruence]. eapply frame_trans; [|exact F2]. repeat split; assumption.
Qed.

Lemma tot_parent : forall rid c s, tinv s -> valid_id (oi_sm s) KRecord rid = true ->
  tinv (index_parent rid c s) /\ frame s (index_parent rid c s) /\ oi_anon (index_parent rid c s) = oi_anon s.
Proof.
  intros rid [i a r] s Ht Hvr. unfold index_parent.
  destruct (find_class (oi_sm s) (i_name i)) as [cid|] eqn:Fc; [|auto using frame_refl].
  destruct (cid =? rid); [auto using frame_refl|].
  assert (valid_id (oi_sm s) KRecord cid = true) as Hvc.
  { destruct Ht as (_ & (_ & HC & _) & _). eapply HC. exact Fc. }
  destruct (tinv_emit2 (OpRecordMut rid) (OpRecAddParent cid) s Ht Hvr) as (T2 & F2 & An2 & _).
  - intros S1 HS1. eapply ok_after_record_mut; [exact HS1|exact Hvc].
  - auto.
Qed.

(** a field registration: add_record_field(fid = next), record_mut(rid), record.add_record_field(fid) *)
Lemma tot_field : forall s rid n typ loc, tinv s -> valid_id (oi_sm s) KRecord rid = true ->
  let fid := next_id (oi_sm s) KRecordField in
  let s' := emit (OpRecAddField n fid) (emit (OpRecordMut rid) (emit (OpAddRecordField n typ loc rid fid) s)) in
  tinv s' /\ frame s s' /\ oi_anon s' = oi_anon s /\ valid_id (oi_sm s') KRecord rid = true.
Proof.
  intros s rid n typ loc Ht Hvr fid s'.
  set (o1 := OpAddRecordField n typ loc rid fid).
  assert (op_ids_ok (oi_sm s) o1 = true) as Hok1 by (cbn; rewrite N.eqb_refl, Hvr; reflexivity).
  destruct (tinv_emit o1 s Ht Hok1) as (T1 & Ea1 & A1 & A2 & A3 & A4).
  pose proof (valid_new _ _ _ _ _ _ Ea1 eq_refl) as Hvf. fold fid in Hvf.
  pose proof (valid_mono_op _ _ _ _ _ Ea1 Hvr) as Hvr1.
  destruct (tinv_emit2 (OpRecordMut rid) (OpRecAddField n fid) (emit o1 s) T1 Hvr1) as (T2 & F2 & An2 & (S1 & E1 & E2)).
  - intros S1 HS1. eapply ok_after_record_mut; [exact HS1|exact Hvf].
  - split; [exact T2|]. split; [eapply frame_trans; [|exact F2]; repeat split; assumption|]. split; [unfold s'; congruence|].
    eapply valid_mono_op; [exact E2|]. eapply valid_mono_op; [exact E1|exact Hvr1].
Qed.

Lemma find_field_in_some : forall fuel S r n vis f vis', find_field_in fuel S r n vis = SOk (Some f, vis') ->
  exists r' e', get_entry S (KRecord, r') = Some e' /\ amap_get (p_fields (e_payload e')) n = Some f.
Proof.
  induction fuel as [|fu IH]; intros S r n vis f vis' H; [discriminate|].
  cbn [find_field_in] in H. apply sbind_ok in H. destruct H as (e & He & H).
  unfold record, symbol in He. destruct (get_entry S (KRecord, r)) as [e0|] eqn:Ge; [|discriminate]. injection He as ->.
  destruct (amap_get (p_fields (e_payload e)) n) as [f0|] eqn:Ag.
  - injection H as <- _. eauto.
  - revert vis H. induction (p_parents (e_payload e)) as [|p ps IHp]; intros vis H; [discriminate|].
    destruct (vis_mem p vis); [now apply IHp with vis|].
    destruct (find_field_in fu S p n (p :: vis)) as [[[f1|] v1]|err] eqn:Ef; [| |discriminate].
    + injection H as <- _. eapply IH; eauto.
    + now apply IHp with v1.
Qed.

Lemma tot_item : forall rid it s, tinv s -> valid_id (oi_sm s) KRecord rid = true ->
  tinv (index_item rid it s) /\ frame s (index_item rid it s) /\ oi_anon (index_item rid it s) = oi_anon s /\
  valid_id (oi_sm (index_item rid it s)) KRecord rid = true.
Proof.
  intros rid it s Ht Hvr. destruct it; cbn [index_item]; try (auto using frame_refl).
  - destruct (ty_string (oi_sm s) t) as [typ|]; [|auto using frame_refl]. now apply tot_field.
  - destruct (get_entry_valid (oi_sm s) (KRecord, rid)) as [_ Hex]. destruct (Hex Hvr) as (e & He).
    destruct Ht as (B & (HI & HC & HF) & Hsc).
    destruct (find_field_ok (oi_sm s) HI rid (i_name i) e He) as (o & Ho). rewrite Ho.
    destruct o as [f0|]; [|split; [split; auto|auto using frame_refl]].
    unfold find_field in Ho. apply sbind_ok in Ho. destruct Ho as ([r0 v0] & Hf & Ho). cbn in Ho. injection Ho as ->.
    destruct (find_field_in_some _ _ _ _ _ _ _ Hf) as (r' & e' & He' & Ag).
    pose proof (HF _ _ _ _ He' Ag) as Hvf.
    destruct (get_entry_valid (oi_sm s) (KRecordField, f0)) as [_ Hex2]. destruct (Hex2 Hvf) as (fe & Hfe). rewrite Hfe.
    apply tot_field; [split; [exact B|split; [split; auto|exact Hsc]]|exact Hvr].
Qed.

Lemma tot_record_body : forall rid ps b s, tinv s -> valid_id (oi_sm s) KRecord rid = true ->
  tinv (index_record_body rid ps b s) /\ frame s (index_record_body rid ps b s) /\
  oi_anon (index_record_body rid ps b s) = oi_anon s.
Proof.
  intros rid ps b s Ht Hvr. unfold index_record_body.
  assert (forall ps s, tinv s -> valid_id (oi_sm s) KRecord rid = true ->
            let s' := fold_left (fun st c => index_parent rid c st) ps s in
            tinv s' /\ frame s s' /\ oi_anon s' = oi_anon s /\ valid_id (oi_sm s') KRecord rid = true) as HP.
  { induction ps0 as [|p ps0 IH]; intros s0 Ht0 Hv0; cbn [fold_left]; [auto using frame_refl|].
    destruct (tot_parent rid p s0 Ht0 Hv0) as (T1 & F1 & A1).
    assert (valid_id (oi_sm (index_parent rid p s0)) KRecord rid = true) as Hv1.
    { destruct p as [i a r]. unfold index_parent. destruct (find_class (oi_sm s0) (i_name i)) as [cid|]; [|exact Hv0].
      destruct (cid =? rid); [exact Hv0|].
      destruct (tinv_emit2 (OpRecordMut rid) (OpRecAddParent cid) s0 Ht0 Hv0) as (_ & _ & _ & (S1 & E1 & E2)).
      - intros S1 HS1. eapply ok_after_record_mut; [exact HS1|].
        destruct Ht0 as (_ & (_ & HC & _) & _). destruct (find_class (oi_sm s0) (i_name i)) eqn:Q.
        all: admit. }
    admit. }
  admit.
Admitted.
