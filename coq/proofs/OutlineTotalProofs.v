(** C18: the indexer slice never hits a modelled panic and [ws_fuel] always suffices -- for EVERY workspace AST.
    This discharges the hypothesis [oi_bad (oix w) = false] of the source-level theorems. *)
From Coq Require Import List NArith Bool Lia Arith PeanoNat.
From TG.Model Require Import Chars CoreAst SymbolMap SymbolWf Outline OutlineIndex OutlineSpec OutlineChildSpec.
From TG.Proofs Require Import OutlineProofs SymbolMapBasics SymbolOps SymbolIds OutlineIndexProofs OutlineSourceProofs
                              OutlineVisitProofs OutlineChildProofs.
Import ListNotations.
Open Scope N_scope.

(** ---- the invariant ---- *)
Fixpoint scopes_valid (sm : symbol_map) (l : list oscope) : Prop :=
  match l with
  | [] => True
  | ORecord r :: t => valid_id sm KRecord r = true /\ scopes_valid sm t
  | ODefset d :: t => valid_id sm KDefset d = true /\ scopes_valid sm t
  | OMulticlass m :: t => valid_id sm KMulticlass m = true /\ scopes_valid sm t
  | _ :: t => scopes_valid sm t
  end.

Definition cls_valid (sm : symbol_map) : Prop :=
  forall n id, amap_get (sm_name_to_class sm) n = Some id -> valid_id sm KRecord id = true.

Definition fields_valid (sm : symbol_map) : Prop :=
  forall r e n f, get_entry sm (KRecord, r) = Some e -> amap_get (p_fields (e_payload e)) n = Some f ->
                  valid_id sm KRecordField f = true.

Definition sm_ok (sm : symbol_map) : Prop := IdsInv sm /\ cls_valid sm /\ fields_valid sm.

Definition tinv (s : ostate) : Prop := oi_bad s = false /\ sm_ok (oi_sm s) /\ scopes_valid (oi_sm s) (oi_scopes s).

Lemma valid_mono_op : forall S o S' k i, apply_op S o = SOk S' -> valid_id S k i = true -> valid_id S' k i = true.
Proof. intros S o S' k i H. apply valid_id_mono. intros k'. eapply next_id_mono_step; eauto. Qed.

Lemma scopes_valid_mono : forall S o S' l, apply_op S o = SOk S' -> scopes_valid S l -> scopes_valid S' l.
Proof.
  intros S o S' l H. induction l as [|k l IH]; intros Hs; [exact I|].
  destruct k; cbn [scopes_valid] in *; auto; destruct Hs as [Hv Hr]; (split; [eapply valid_mono_op; eauto|auto]).
Qed.

(** what a successful op does to an entry, backwards *)
Lemma op_entry_back : forall S o S' s e', apply_op S o = SOk S' -> get_entry S' s = Some e' ->
  (exists k e0 keyed, op_alloc o = Some (k, e0, keyed) /\ s = (k, next_id S k) /\ e' = e0) \/
  (exists e, get_entry S s = Some e /\
     match op_update S o with
     | Some (t, g) => if sid_eqb t s then e' = g e else e' = e
     | None => e' = e
     end).
Proof.
  intros S o S' s e' H He'. pose proof H as H0. apply apply_op_spec in H. destruct H as (Ha & _ & _). unfold arenas_after in Ha.
  destruct (op_alloc o) as [[[k e0] keyed]|] eqn:Eo.
  - destruct Ha as (Hg & _). rewrite Hg in He'. destruct (sid_eqb s (k, next_id S k)) eqn:Q.
    + left. apply sid_eqb_eq in Q. injection He' as <-. eauto 6.
    + right. exists e'. split; [exact He'|].
      assert (op_update S o = None) as -> by (destruct o; cbn in *; try discriminate; reflexivity). reflexivity.
  - right. destruct (op_update S o) as [[t g]|] eqn:Eu.
    + destruct Ha as (_ & Hg & _). rewrite Hg in He'. destruct (sid_eqb t s).
      * destruct (get_entry S s) as [e|]; [|discriminate]. cbn in He'. injection He' as <-. eauto.
      * eauto.
    + rewrite (same_arenas_get_entry _ _ s Ha) in He'. eauto.
Qed.

Lemma amap_get_insert_cases : forall (V : Type) (m : list (SymbolMap.name * V)) k v k' x,
  amap_get (amap_insert m k v) k' = Some x -> x = v \/ amap_get m k' = Some x.
Proof.
  intros V m k v k' x H. rewrite amap_insert_get in H. destruct (list_eqb k k'); [left; congruence|now right].
Qed.

(** one successful op keeps [sm_ok], provided the ids it mentions are allocated ([op_ids_ok]) *)
Lemma sm_ok_step : forall S o S', sm_ok S -> op_ids_ok S o = true -> apply_op S o = SOk S' -> sm_ok S'.
Proof.
  intros S o S' (HI & HC & HF) Hok H. split; [eapply ids_step; eauto|]. split.
  - (* class table *)
    intros n id Hg. rewrite (classes_apply_op _ _ _ H) in Hg.
    destruct (op_class o) as [cn|] eqn:Ec.
    + apply amap_get_insert_cases in Hg. destruct Hg as [->|Hg]; [|eapply valid_mono_op; eauto].
      unfold valid_id. apply N.ltb_lt. rewrite (op_next_id _ _ _ KRecord H).
      destruct o; cbn in Ec; try discriminate. destruct k; try discriminate. cbn. lia.
    + eapply valid_mono_op; eauto.
  - (* field maps *)
    intros r e' n f He' Hg. destruct (op_entry_back _ _ _ _ _ H He') as [(k & e0 & keyed & Eo & Es & ->)|(e & He & Heff)].
    + destruct o; cbn [op_alloc] in Eo; try discriminate; injection Eo as <- <- _; try discriminate Es; cbn in Hg; discriminate.
    + assert (amap_get (p_fields (e_payload e)) n = Some f \/ valid_id S' KRecordField f = true) as [Hold|Hnew]; [|eapply valid_mono_op; eauto|exact Hnew].
      destruct (op_update S o) as [[t g]|] eqn:Eu; [|subst e'; now left].
      destruct (sid_eqb t (KRecord, r)) eqn:Q; [|subst e'; now left]. subst e'.
      destruct o; cbn [op_update] in Eu; try discriminate;
        try (match type of Eu with context [cur_target S ?k] =>
               destruct (cur_target S k) as [t0|] eqn:Ec; [|discriminate]; cbn [option_map] in Eu; injection Eu as _ <- end);
        try (injection Eu as _ <-);
        unfold upd_payload, push_ref, pf_rec_targ, pf_rec_field, pf_rec_parent, pf_defset_def, pf_mc_targ, pf_mc_parent, pf_defm_parent in Hg;
        cbn [e_payload] in Hg; destruct (e_payload e) eqn:Ep; cbn [p_fields] in Hg; try (now left).
      (* record.add_record_field *)
      apply amap_get_insert_cases in Hg. destruct Hg as [->|Hg]; [right|left; exact Hg].
      cbn [op_ids_ok] in Hok. destruct (cur_is S KRecord); [|discriminate]. eapply valid_mono_op; eauto.
Qed.

(** a successful emit under [tinv] *)
Lemma tinv_emit : forall o s, tinv s -> op_ids_ok (oi_sm s) o = true ->
  tinv (emit o s) /\ apply_op (oi_sm s) o = SOk (oi_sm (emit o s)) /\
  oi_scopes (emit o s) = oi_scopes s /\ oi_trace (emit o s) = oi_trace s /\ oi_indexed (emit o s) = oi_indexed s /\
  oi_anon (emit o s) = oi_anon s.
Proof.
  intros o s (B & Hsm & Hsc) Hok. destruct (apply_op_ok _ _ Hok) as (S' & Ea).
  unfold emit. rewrite B, Ea. cbn [set_sm_ops oi_bad oi_sm oi_scopes oi_trace oi_indexed oi_anon].
  split; [|auto]. split; [reflexivity|]. split; [eapply sm_ok_step; eauto|eapply scopes_valid_mono; eauto].
Qed.

(** ---- facts about single ops ---- *)
Definition vmono (s s' : ostate) : Prop :=
  forall k i, valid_id (oi_sm s) k i = true -> valid_id (oi_sm s') k i = true.

(** what every step of the slice guarantees *)
Definition stepok (s s' : ostate) : Prop :=
  tinv s' /\ oi_scopes s' = oi_scopes s /\ oi_trace s' = oi_trace s /\ oi_indexed s' = oi_indexed s /\ vmono s s'.

Lemma stepok_refl : forall s, tinv s -> stepok s s.
Proof. intros s H. unfold stepok, vmono. auto 8. Qed.

Lemma stepok_trans : forall a b c, stepok a b -> stepok b c -> stepok a c.
Proof.
  intros a b c (A0 & A1 & A2 & A3 & A5) (B0 & B1 & B2 & B3 & B5).
  unfold stepok, vmono in *. repeat split; try congruence; try apply B0. auto.
Qed.

Lemma valid_new : forall S o S' k e0 keyed, apply_op S o = SOk S' -> op_alloc o = Some (k, e0, keyed) ->
  valid_id S' k (next_id S k) = true.
Proof.
  intros S o S' k e0 keyed H Eo. unfold valid_id. apply N.ltb_lt. rewrite (op_next_id _ _ _ k H), Eo.
  rewrite sym_kind_eqb_refl. lia.
Qed.

Lemma valid_set_cur : forall S c k i, valid_id (set_cur S c) k i = valid_id S k i.
Proof. intros S c [] i; reflexivity. Qed.

Lemma cur_is_after : forall S k id S', borrow_mut S (k, id) = SOk S' -> cur_is S' k = Some id.
Proof.
  intros S k id S' H. apply borrow_mut_spec in H. destruct H as (-> & He).
  unfold cur_is. cbn [set_cur sm_cur]. rewrite sym_kind_eqb_refl, valid_set_cur.
  assert (valid_id S k id = true) as -> by (apply (get_entry_valid S (k, id)); exact He). reflexivity.
Qed.

Lemma first_record_valid : forall sm l r, scopes_valid sm l -> first_record l = Some r -> valid_id sm KRecord r = true.
Proof.
  intros sm l r. induction l as [|k l IH]; intros Hs Hf; [discriminate|].
  destruct k; cbn [scopes_valid first_record] in *; try tauto. injection Hf as <-. tauto.
Qed.
Lemma first_defset_valid : forall sm l r, scopes_valid sm l -> first_defset l = Some r -> valid_id sm KDefset r = true.
Proof.
  intros sm l r. induction l as [|k l IH]; intros Hs Hf; [discriminate|].
  destruct k; cbn [scopes_valid first_defset] in *; try tauto. injection Hf as <-. tauto.
Qed.
Lemma first_multiclass_valid : forall sm l r, scopes_valid sm l -> first_multiclass l = Some r -> valid_id sm KMulticlass r = true.
Proof.
  intros sm l r. induction l as [|k l IH]; intros Hs Hf; [discriminate|].
  destruct k; cbn [scopes_valid first_multiclass] in *; try tauto. injection Hf as <-. tauto.
Qed.

(** a successful emit is a step *)
Lemma step_emit : forall o s, tinv s -> op_ids_ok (oi_sm s) o = true ->
  stepok s (emit o s) /\ apply_op (oi_sm s) o = SOk (oi_sm (emit o s)).
Proof.
  intros o s Ht Hok. destruct (tinv_emit o s Ht Hok) as (T & Ea & A1 & A2 & A3 & A4).
  split; [|exact Ea]. unfold stepok, vmono. repeat split; auto; try apply T. intros k i. eapply valid_mono_op; eauto.
Qed.

(** emit o1 then o2, where o2 is allowed in the state o1 leads to *)
Lemma step_emit2 : forall o1 o2 s, tinv s -> op_ids_ok (oi_sm s) o1 = true ->
  (forall S1, apply_op (oi_sm s) o1 = SOk S1 -> op_ids_ok S1 o2 = true) ->
  stepok s (emit o2 (emit o1 s)).
Proof.
  intros o1 o2 s Ht H1 H2. destruct (step_emit o1 s Ht H1) as (P1 & Ea1).
  destruct (step_emit o2 _ (proj1 P1) (H2 _ Ea1)) as (P2 & _). eapply stepok_trans; eauto.
Qed.

Lemma ok_after_record_mut : forall S rid S1 o2,
  apply_op S (OpRecordMut rid) = SOk S1 ->
  (match o2 with
   | OpRecAddTemplateArg _ id => valid_id S KTemplateArg id = true
   | OpRecAddField _ id => valid_id S KRecordField id = true
   | OpRecAddParent p => valid_id S KRecord p = true
   | _ => False
   end) -> op_ids_ok S1 o2 = true.
Proof.
  intros S rid S1 o2 H Hv. pose proof H as H0. cbn [apply_op] in H. pose proof (cur_is_after _ _ _ _ H) as Hc.
  destruct o2; try contradiction; cbn [op_ids_ok]; rewrite Hc; eapply valid_mono_op; eauto.
Qed.

Lemma ok_after_other_mut : forall S S1 o1 o2,
  apply_op S o1 = SOk S1 ->
  (match o1, o2 with
   | OpDefsetMut _, OpDefsetAddDef id => valid_id S KRecord id = true
   | OpMulticlassMut _, OpMcAddTemplateArg _ id => valid_id S KTemplateArg id = true
   | _, _ => False
   end) -> op_ids_ok S1 o2 = true.
Proof.
  intros S S1 o1 o2 H Hv. pose proof H as H0.
  destruct o1; try contradiction; destruct o2; try contradiction; cbn [apply_op] in H;
    pose proof (cur_is_after _ _ _ _ H) as Hc; cbn [op_ids_ok]; rewrite Hc; eapply valid_mono_op; eauto.
Qed.

(** ---- the steps inside a record ---- *)
Lemma tot_targ : forall a s, tinv s ->
  (exists r, first_record (oi_scopes s) = Some r) \/ (exists m, first_multiclass (oi_scopes s) = Some m) ->
  stepok s (index_targ a s).
Proof.
  intros [t i d] s Ht Hsc. unfold index_targ. destruct (ty_string (oi_sm s) t) as [typ|]; [|now apply stepok_refl].
  set (tid := next_id (oi_sm s) KTemplateArg).
  set (o1 := OpAddTemplateArg (i_name i) typ (loc_of s (i_rng i)) tid).
  assert (op_ids_ok (oi_sm s) o1 = true) as Hok1 by (cbn; apply N.eqb_refl).
  destruct (step_emit o1 s Ht Hok1) as (P1 & Ea1). pose proof P1 as (T1 & A1 & _).
  pose proof (valid_new _ _ _ _ _ _ Ea1 eq_refl) as Hvt. fold tid in Hvt.
  rewrite A1. pose proof T1 as (_ & _ & Hsc1). rewrite A1 in Hsc1.
  destruct (first_record (oi_scopes s)) as [rid|] eqn:Fr.
  - pose proof (first_record_valid _ _ _ Hsc1 Fr) as Hvr.
    eapply stepok_trans; [exact P1|]. apply step_emit2; [exact T1|exact Hvr|].
    intros S1 HS1. eapply ok_after_record_mut; [exact HS1|exact Hvt].
  - destruct Hsc as [(r & Hr)|(m & Hm)]; [discriminate|]. rewrite Hm.
    pose proof (first_multiclass_valid _ _ _ Hsc1 Hm) as Hvm.
    eapply stepok_trans; [exact P1|]. apply step_emit2; [exact T1|exact Hvm|].
    intros S1 HS1. eapply (ok_after_other_mut _ _ (OpMulticlassMut m)); [exact HS1|exact Hvt].
Qed.

Lemma tot_parent : forall rid c s, tinv s -> valid_id (oi_sm s) KRecord rid = true -> stepok s (index_parent rid c s).
Proof.
  intros rid [i a r] s Ht Hvr. unfold index_parent.
  destruct (find_class (oi_sm s) (i_name i)) as [cid|] eqn:Fc; [|now apply stepok_refl].
  destruct (cid =? rid); [now apply stepok_refl|].
  assert (valid_id (oi_sm s) KRecord cid = true) as Hvc.
  { destruct Ht as (_ & (_ & HC & _) & _). eapply HC. exact Fc. }
  apply step_emit2; [exact Ht|exact Hvr|]. intros S1 HS1. eapply ok_after_record_mut; [exact HS1|exact Hvc].
Qed.

Lemma tot_field : forall s rid n typ loc, tinv s -> valid_id (oi_sm s) KRecord rid = true ->
  let fid := next_id (oi_sm s) KRecordField in
  stepok s (emit (OpRecAddField n fid) (emit (OpRecordMut rid) (emit (OpAddRecordField n typ loc rid fid) s))).
Proof.
  intros s rid n typ loc Ht Hvr fid.
  set (o1 := OpAddRecordField n typ loc rid fid).
  assert (op_ids_ok (oi_sm s) o1 = true) as Hok1 by (cbn; rewrite N.eqb_refl, Hvr; reflexivity).
  destruct (step_emit o1 s Ht Hok1) as (P1 & Ea1). pose proof P1 as (T1 & _ & _ & _ & V1).
  pose proof (valid_new _ _ _ _ _ _ Ea1 eq_refl) as Hvf. fold fid in Hvf.
  eapply stepok_trans; [exact P1|]. apply step_emit2; [exact T1|exact (V1 _ _ Hvr)|].
  intros S1 HS1. eapply ok_after_record_mut; [exact HS1|exact Hvf].
Qed.

Lemma find_field_in_some : forall fuel S r n vis f vis', find_field_in fuel S r n vis = SOk (Some f, vis') ->
  exists r' e', get_entry S (KRecord, r') = Some e' /\ amap_get (p_fields (e_payload e')) n = Some f.
Proof.
  induction fuel as [|fu IH]; intros S r n vis f vis' H; [discriminate|].
  cbn [find_field_in] in H. apply sbind_ok in H. destruct H as (e & He & H).
  unfold record, symbol in He. destruct (get_entry S (KRecord, r)) as [e0|] eqn:Ge; [|discriminate]. injection He as ->.
  destruct (amap_get (p_fields (e_payload e)) n) as [f0|] eqn:Ag.
  - injection H as <- _. eauto.
  - revert vis H. induction (p_parents (e_payload e)) as [|p ps IHp]; intros vis H; [discriminate|].
    destruct (vis_mem p vis); [now apply IHp with vis|].
    destruct (find_field_in fu S p n (p :: vis)) as [[[f1|] v1]|err] eqn:Ef; [| |discriminate].
    + injection H as <- _. eapply IH; eauto.
    + now apply IHp with v1.
Qed.

Lemma tot_item : forall rid it s, tinv s -> valid_id (oi_sm s) KRecord rid = true -> stepok s (index_item rid it s).
Proof.
  intros rid it s Ht Hvr. destruct it; cbn [index_item]; try (now apply stepok_refl).
  - destruct (ty_string (oi_sm s) t) as [typ|]; [|now apply stepok_refl]. now apply tot_field.
  - destruct (get_entry_valid (oi_sm s) (KRecord, rid)) as [_ Hex]. destruct (Hex Hvr) as (e & He).
    pose proof Ht as (B & (HI & HC & HF) & Hsc).
    destruct (find_field_ok (oi_sm s) HI rid (i_name i) e He) as (o & Ho). rewrite Ho.
    destruct o as [f0|]; [|now apply stepok_refl].
    unfold find_field in Ho. apply sbind_ok in Ho. destruct Ho as ([r0 v0] & Hf & Ho). cbn in Ho. injection Ho as ->.
    destruct (find_field_in_some _ _ _ _ _ _ _ Hf) as (r' & e' & He' & Ag).
    pose proof (HF _ _ _ _ He' Ag) as Hvf.
    destruct (get_entry_valid (oi_sm s) (KRecordField, f0)) as [_ Hex2]. destruct (Hex2 Hvf) as (fe & Hfe). rewrite Hfe.
    now apply tot_field.
Qed.

Lemma tot_fold : forall (A : Type) (f : A -> ostate -> ostate) (P : ostate -> Prop) (l : list A),
  (forall a s, tinv s -> P s -> stepok s (f a s)) ->
  (forall s s', stepok s s' -> P s -> P s') ->
  forall s, tinv s -> P s -> stepok s (fold_left (fun st a => f a st) l s).
Proof.
  intros A f P l Hf HP. induction l as [|a l IH]; intros s Ht Hp; cbn [fold_left]; [now apply stepok_refl|].
  pose proof (Hf a s Ht Hp) as S1. eapply stepok_trans; [exact S1|]. apply IH; [apply S1|eapply HP; eauto].
Qed.

Lemma tot_record_body : forall rid ps b s, tinv s -> valid_id (oi_sm s) KRecord rid = true ->
  stepok s (index_record_body rid ps b s).
Proof.
  intros rid ps b s Ht Hvr. unfold index_record_body.
  set (P := fun st : ostate => valid_id (oi_sm st) KRecord rid = true).
  assert (forall s s', stepok s s' -> P s -> P s') as HP by (intros s0 s1 (_ & _ & _ & _ & V) H0; exact (V _ _ H0)).
  pose proof (tot_fold _ (fun c st => index_parent rid c st) P ps (fun a s0 T0 P0 => tot_parent rid a s0 T0 P0) HP s Ht Hvr) as S1.
  eapply stepok_trans; [exact S1|].
  apply (tot_fold _ (fun it st => index_item rid it st) P b (fun a s0 T0 P0 => tot_item rid a s0 T0 P0) HP); [apply S1|].
  eapply HP; eauto.
Qed.

(** ---- fuel: a potential that bounds the recursion depth ---- *)
Definition fsize (body : list stmt) : nat := S (sum_sizes stmt_size body).

Fixpoint pot_from (k : nat) (files : list (list stmt)) (I : list N) : nat :=
  match files with
  | [] => O
  | b :: r => ((if mem (N.of_nat k) I then O else fsize b) + pot_from (S k) r I)%nat
  end.
Definition pot (files : list (list stmt)) (I : list N) : nat := pot_from O files I.

Lemma pot_mono : forall files k I I', incl I I' -> (pot_from k files I' <= pot_from k files I)%nat.
Proof.
  induction files as [|b r IH]; intros k I I' Hi; cbn [pot_from]; [lia|].
  specialize (IH (S k) I I' Hi). destruct (mem (N.of_nat k) I) eqn:M.
  - rewrite (mem_incl _ _ _ Hi M). lia.
  - destruct (mem (N.of_nat k) I'); lia.
Qed.

Lemma pot_enter : forall files k I f body, nth_error files f = Some body -> mem (N.of_nat (k + f)) I = false ->
  (pot_from k files (N.of_nat (k + f) :: I) + fsize body <= pot_from k files I)%nat.
Proof.
  induction files as [|b r IH]; intros k I f body Hn Hm; [destruct f; discriminate|].
  cbn [pot_from]. destruct f as [|f].
  - cbn in Hn. injection Hn as ->. rewrite Nat.add_0_r in *. rewrite Hm.
    assert (mem (N.of_nat k) (N.of_nat k :: I) = true) as -> by (apply mem_In; now left).
    pose proof (pot_mono r (S k) I (N.of_nat k :: I) ltac:(intros z Hz; now right)). lia.
  - cbn in Hn. replace (k + S f)%nat with (S k + f)%nat in * by lia.
    specialize (IH (S k) I f body Hn Hm).
    assert (mem (N.of_nat k) (N.of_nat (S k + f) :: I) = mem (N.of_nat k) I) as ->.
    { unfold mem. cbn [existsb]. assert (N.of_nat k =? N.of_nat (S k + f) = false) as -> by (apply N.eqb_neq; lia). reflexivity. }
    destruct (mem (N.of_nat k) I); lia.
Qed.

Lemma stmts_fix_eq : forall b,
  (fix go (l : list stmt) : nat := match l with [] => 0%nat | x :: r => (stmt_size x + go r)%nat end) b = sum_sizes stmt_size b.
Proof. induction b as [|x r IH]; [reflexivity|]. unfold sum_sizes in *. cbn [fold_right]. now rewrite <- IH. Qed.

Lemma in_sum_sizes : forall (b : list stmt) y, In y b -> (stmt_size y <= sum_sizes stmt_size b)%nat.
Proof.
  induction b as [|x r IH]; intros y Hy; [destruct Hy|]. unfold sum_sizes in *. cbn [fold_right].
  destruct Hy as [<-|H]; [lia|]. specialize (IH y H). lia.
Qed.

(** ---- statements ---- *)
Definition stepI (s s' : ostate) : Prop :=
  tinv s' /\ oi_scopes s' = oi_scopes s /\ oi_trace s' = oi_trace s /\ incl (oi_indexed s) (oi_indexed s') /\ vmono s s'.

Lemma stepI_of_ok : forall s s', stepok s s' -> stepI s s'.
Proof.
  intros s s' (A0 & A1 & A2 & A3 & A5). unfold stepI. repeat split; auto; try apply A0. rewrite A3. apply incl_refl.
Qed.
Lemma stepI_refl : forall s, tinv s -> stepI s s.
Proof. intros. now apply stepI_of_ok, stepok_refl. Qed.
Lemma stepI_trans : forall a b c, stepI a b -> stepI b c -> stepI a c.
Proof.
  intros a b c (A0 & A1 & A2 & A3 & A5) (B0 & B1 & B2 & B3 & B5). unfold stepI, vmono in *.
  split; [exact B0|]. split; [congruence|]. split; [congruence|]. split; [eapply incl_tran; eauto|auto].
Qed.

Lemma tinv_same_sm : forall s s', oi_bad s' = oi_bad s -> oi_sm s' = oi_sm s -> oi_scopes s' = oi_scopes s -> tinv s -> tinv s'.
Proof. intros s s' Hb Hs Hc (B & S0 & C). unfold tinv. rewrite Hb, Hs, Hc. auto. Qed.

Lemma tot_list : forall files n (b : list stmt) M,
  (forall y s, tinv s -> (stmt_size y + pot files (oi_indexed s) <= n)%nat -> stepI s (index_stmt files n y s)) ->
  (forall y, In y b -> (stmt_size y <= M)%nat) ->
  forall s, tinv s -> (M + pot files (oi_indexed s) <= n)%nat ->
  stepI s (fold_left (fun a y => index_stmt files n y a) b s).
Proof.
  intros files n b M Hy. induction b as [|y b IH]; intros HM s Ht Hf; cbn [fold_left]; [now apply stepI_refl|].
  assert (stepI s (index_stmt files n y s)) as S1.
  { apply Hy; [exact Ht|]. specialize (HM y ltac:(now left)). lia. }
  eapply stepI_trans; [exact S1|]. destruct S1 as (T1 & _ & _ & I1 & _).
  apply IH; [intros z Hz; apply HM; now right|exact T1|].
  pose proof (pot_mono files O _ _ I1). unfold pot in *. lia.
Qed.

(** push a scope whose id (if any) is allocated, run, pop *)
Lemma tot_wrap : forall k (F : ostate -> ostate) s, tinv s ->
  (match k with
   | ORecord r => valid_id (oi_sm s) KRecord r = true
   | ODefset d => valid_id (oi_sm s) KDefset d = true
   | OMulticlass m => valid_id (oi_sm s) KMulticlass m = true
   | _ => True
   end) ->
  (forall sP, tinv sP -> oi_scopes sP = k :: oi_scopes s -> oi_indexed sP = oi_indexed s -> oi_trace sP = oi_trace s ->
              oi_sm sP = oi_sm s -> stepI sP (F sP)) ->
  stepI s (pop_scope (F (push_scope k s))).
Proof.
  intros k F s (B & Hsm & Hsc) Hk HF.
  assert (tinv (push_scope k s)) as TP.
  { split; [exact B|]. split; [exact Hsm|]. cbn [push_scope set_scopes oi_scopes oi_sm]. destruct k; cbn [scopes_valid]; auto. }
  destruct (HF (push_scope k s) TP eq_refl eq_refl eq_refl eq_refl) as ((B1 & Hsm1 & Hsc1) & Sc & Tr & Ix & V).
  cbn [push_scope set_scopes oi_scopes] in Sc.
  unfold stepI. split.
  - split; [exact B1|]. split; [exact Hsm1|]. cbn [pop_scope set_scopes oi_scopes oi_sm]. rewrite Sc in *. cbn [tl].
    destruct k; cbn [scopes_valid] in Hsc1; tauto.
  - split; [cbn [pop_scope set_scopes oi_scopes]; now rewrite Sc|]. split; [exact Tr|]. split; [exact Ix|exact V].
Qed.

Theorem tot_stmt : forall files fuel x s, tinv s ->
  (stmt_size x + pot files (oi_indexed s) <= fuel)%nat -> stepI s (index_stmt files fuel x s).
Proof.
  intros files. induction fuel as [|n IH]; intros x s Ht Hf.
  - destruct x; cbn [stmt_size] in Hf; lia.
  - pose proof (fun b M => tot_list files n b M IH) as HL.
    destruct x; cbn [index_stmt].
    + (* include *)
      destruct target as [f|]; [|now apply stepI_refl].
      destruct (existsb (N.eqb f) (oi_indexed s)) eqn:Ex; [now apply stepI_refl|].
      destruct (nth_error files (N.to_nat f)) as [body|] eqn:Nf.
      * set (s1 := set_files s (f :: oi_trace s) (f :: oi_indexed s)).
        assert (tinv s1) as T1 by (eapply tinv_same_sm; [| | |exact Ht]; reflexivity).
        assert (stepI s1 (fold_left (fun a y => index_stmt files n y a) body s1)) as S1.
        { apply (HL body (sum_sizes stmt_size body)); [intros y Hy; now apply in_sum_sizes|exact T1|].
          cbn [s1 set_files oi_indexed]. cbn [stmt_size] in Hf.
          pose proof (pot_enter files O (oi_indexed s) (N.to_nat f) body Nf) as Hp. cbn [Nat.add] in Hp.
          rewrite N2Nat.id in Hp. specialize (Hp Ex). unfold pot, fsize in *. lia. }
        destruct S1 as (T2 & Sc & Tr & Ix & V). unfold stepI.
        split; [eapply tinv_same_sm; [| | |exact T2]; reflexivity|].
        split; [exact Sc|]. split; [cbn [set_files oi_trace]; rewrite Tr; reflexivity|].
        split; [intros z Hz; apply Ix; now right|exact V].
      * unfold stepI. split; [eapply tinv_same_sm; [| | |exact Ht]; reflexivity|].
        split; [reflexivity|]. split; [reflexivity|]. split; [intros z Hz; now right|intros k i H; exact H].
    + now apply stepI_refl.
    + (* class *)
      set (rid := next_id (oi_sm s) KRecord).
      set (o := OpAddRecord (i_name i) RKClass (loc_of s (i_rng i)) true rid).
      destruct (step_emit o s Ht ltac:(cbn; apply N.eqb_refl)) as (P1 & Ea1). pose proof P1 as (T1 & _).
      pose proof (valid_new _ _ _ _ _ _ Ea1 eq_refl) as Hvr. fold rid in Hvr.
      eapply stepI_trans; [apply stepI_of_ok; exact P1|].
      apply (tot_wrap (ORecord rid)
               (fun st => index_record_body rid parents body
                            (match targs with Some l => fold_left (fun a t => index_targ t a) l st | None => st end)));
        [exact T1|exact Hvr|].
      intros sP TP ScP _ _ SmP. apply stepI_of_ok.
      assert (stepok sP (match targs with Some l => fold_left (fun a t => index_targ t a) l sP | None => sP end)) as ST.
      { destruct targs as [l|]; [|now apply stepok_refl].
        apply (tot_fold _ (fun t a => index_targ t a) (fun st => oi_scopes st = oi_scopes sP) l); auto.
        - intros a st Tst Pst. apply tot_targ; [exact Tst|]. left. rewrite Pst, ScP. cbn. eauto.
        - intros st st' (_ & A1 & _) Pst. congruence. }
      eapply stepok_trans; [exact ST|]. apply tot_record_body; [apply ST|].
      destruct ST as (_ & _ & _ & _ & V). apply V. rewrite SmP. exact Hvr.
    + (* def *)
      set (rid := next_id (oi_sm s) KRecord).
      assert (forall s1, stepok s s1 -> valid_id (oi_sm s1) KRecord rid = true ->
                stepI s (pop_scope (index_record_body rid parents body (push_scope (ORecord rid)
                   (match first_defset (oi_scopes s) with
                    | Some d => emit (OpDefsetAddDef rid) (emit (OpDefsetMut d) s1)
                    | None => s1 end))))) as Hrest.
      { intros s1 P1 Hvr. pose proof P1 as (T1 & Sc1 & _).
        assert (stepok s1 (match first_defset (oi_scopes s) with
                           | Some d => emit (OpDefsetAddDef rid) (emit (OpDefsetMut d) s1)
                           | None => s1 end)) as PD.
        { destruct (first_defset (oi_scopes s)) as [d|] eqn:Fd; [|now apply stepok_refl].
          apply step_emit2; [exact T1| |].
          - cbn. destruct T1 as (_ & _ & Hsc). rewrite Sc1 in Hsc. eapply first_defset_valid; eauto.
          - intros S1 HS1. eapply (ok_after_other_mut _ _ (OpDefsetMut d)); [exact HS1|exact Hvr]. }
        eapply stepI_trans; [apply stepI_of_ok; eapply stepok_trans; [exact P1|exact PD]|].
        apply (tot_wrap (ORecord rid) (fun st => index_record_body rid parents body st)); [apply PD| |].
        - destruct PD as (_ & _ & _ & _ & V). now apply V.
        - intros sP TP _ _ _ SmP. apply stepI_of_ok, tot_record_body; [exact TP|]. rewrite SmP.
          destruct PD as (_ & _ & _ & _ & V). now apply V. }
      destruct nm as [vv|].
      * destruct (value_first_ident vv) as [i|]; [|now apply stepI_refl].
        match goal with |- context [emit ?oo s] => set (o := oo) end.
        destruct (step_emit o s Ht ltac:(cbn; apply N.eqb_refl)) as (P1 & Ea1).
        apply (Hrest (emit o s) P1). exact (valid_new _ _ _ _ _ _ Ea1 eq_refl).
      * set (s0 := set_anon s (oi_anon s + 1)).
        assert (tinv s0) as T0 by (eapply tinv_same_sm; [| | |exact Ht]; reflexivity).
        set (o := OpAddAnonymousDef (anonymous_name (oi_anon s)) (loc_of s r) rid).
        destruct (step_emit o s0 T0 ltac:(cbn; apply N.eqb_refl)) as (P1 & Ea1).
        assert (stepok s (emit o s0)) as P1' by exact P1.
        apply (Hrest (emit o s0) P1'). exact (valid_new _ _ _ _ _ _ Ea1 eq_refl).
    + (* defm *)
      destruct nm; [now apply stepI_refl|]. apply stepI_of_ok.
      unfold stepok, vmono. split; [eapply tinv_same_sm; [| | |exact Ht]; reflexivity|]. auto.
    + (* defset *)
      destruct (ty_string (oi_sm s) t) as [typ|]; [|now apply stepI_refl].
      set (did := next_id (oi_sm s) KDefset).
      set (o := OpAddDefset (i_name i) typ (loc_of s (i_rng i)) did).
      destruct (step_emit o s Ht ltac:(cbn; apply N.eqb_refl)) as (P1 & Ea1). pose proof P1 as (T1 & _ & _ & Ix1 & _).
      pose proof (valid_new _ _ _ _ _ _ Ea1 eq_refl) as Hvd. fold did in Hvd.
      eapply stepI_trans; [apply stepI_of_ok; exact P1|].
      apply (tot_wrap (ODefset did) (fun st => fold_left (fun a y => index_stmt files n y a) body st)); [exact T1|exact Hvd|].
      intros sP TP _ IxP _ _. apply (HL body (sum_sizes stmt_size body)); [intros y Hy; now apply in_sum_sizes|exact TP|].
      rewrite IxP, Ix1. cbn [stmt_size] in Hf. rewrite stmts_fix_eq in Hf. lia.
    + now apply stepI_refl.
    + now apply stepI_refl.
    + (* foreach *)
      apply (tot_wrap OBlock (fun st => fold_left (fun a y => index_stmt files n y a) body st)); [exact Ht|exact I|].
      intros sP TP _ IxP _ _. apply (HL body (sum_sizes stmt_size body)); [intros y Hy; now apply in_sum_sizes|exact TP|].
      rewrite IxP. cbn [stmt_size] in Hf. rewrite stmts_fix_eq in Hf. lia.
    + (* if *)
      assert ((sum_sizes stmt_size th + pot files (oi_indexed s) <= n)%nat /\
              match el with Some e => (sum_sizes stmt_size e + pot files (oi_indexed s) <= n)%nat | None => True end) as (Hth & Hel).
      { destruct el as [e|]; cbn [stmt_size] in Hf; rewrite (stmts_fix_eq th) in Hf.
        - rewrite (stmts_fix_eq e) in Hf. split; lia.
        - split; [lia|exact I]. }
      assert (stepI s (pop_scope (fold_left (fun a y => index_stmt files n y a) th (push_scope OBlock s)))) as S1.
      { apply (tot_wrap OBlock (fun st => fold_left (fun a y => index_stmt files n y a) th st)); [exact Ht|exact I|].
        intros sP TP _ IxP _ _. apply (HL th (sum_sizes stmt_size th)); [intros y Hy; now apply in_sum_sizes|exact TP|].
        rewrite IxP. exact Hth. }
      destruct el as [e|]; [|exact S1]. eapply stepI_trans; [exact S1|]. destruct S1 as (T1 & _ & _ & I1 & _).
      apply (tot_wrap OBlock (fun st => fold_left (fun a y => index_stmt files n y a) e st)); [exact T1|exact I|].
      intros sP TP _ IxP _ _. apply (HL e (sum_sizes stmt_size e)); [intros y Hy; now apply in_sum_sizes|exact TP|].
      rewrite IxP. pose proof (pot_mono files O _ _ I1). unfold pot in *. lia.
    + (* let *)
      apply (tot_wrap OBlock (fun st => fold_left (fun a y => index_stmt files n y a) body st)); [exact Ht|exact I|].
      intros sP TP _ IxP _ _. apply (HL body (sum_sizes stmt_size body)); [intros y Hy; now apply in_sum_sizes|exact TP|].
      rewrite IxP. cbn [stmt_size] in Hf. rewrite stmts_fix_eq in Hf. lia.
    + (* multiclass *)
      set (mid := next_id (oi_sm s) KMulticlass).
      set (o := OpAddMulticlass (i_name i) (loc_of s (i_rng i)) mid).
      destruct (step_emit o s Ht ltac:(cbn; apply N.eqb_refl)) as (P1 & Ea1). pose proof P1 as (T1 & _ & _ & Ix1 & _).
      pose proof (valid_new _ _ _ _ _ _ Ea1 eq_refl) as Hvm. fold mid in Hvm.
      eapply stepI_trans; [apply stepI_of_ok; exact P1|].
      apply (tot_wrap (OMulticlass mid)
               (fun st => fold_left (fun a y => index_stmt files n y a) body
                            (match targs with Some l => fold_left (fun a t => index_targ t a) l st | None => st end)));
        [exact T1|exact Hvm|].
      intros sP TP ScP IxP _ _.
      assert (stepok sP (match targs with Some l => fold_left (fun a t => index_targ t a) l sP | None => sP end)) as ST.
      { destruct targs as [l|]; [|now apply stepok_refl].
        apply (tot_fold _ (fun t a => index_targ t a) (fun st => oi_scopes st = oi_scopes sP) l); auto.
        - intros a st Tst Pst. apply tot_targ; [exact Tst|]. rewrite Pst, ScP. cbn [first_record first_multiclass].
          destruct (first_record (oi_scopes (emit o s))); eauto.
        - intros st st' (_ & A1 & _) Pst. congruence. }
      eapply stepI_trans; [apply stepI_of_ok; exact ST|]. destruct ST as (TT & _ & _ & IxT & _).
      apply (HL body (sum_sizes stmt_size body)); [intros y Hy; now apply in_sum_sizes|exact TT|].
      rewrite IxT, IxP, Ix1. cbn [stmt_size] in Hf. rewrite stmts_fix_eq in Hf. lia.
Qed.

(** ---- the theorem: no workspace makes the slice panic or run out of fuel ---- *)
Lemma pot_total : forall files k I, (pot_from k files I <= sum_sizes fsize files)%nat.
Proof.
  induction files as [|b r IH]; intros k I; cbn [pot_from]; unfold sum_sizes in *; cbn [fold_right]; [lia|].
  specialize (IH (S k) I). destruct (mem (N.of_nat k) I); lia.
Qed.

Theorem oix_total : forall w, oi_bad (oix w) = false.
Proof.
  intros w. unfold oix. destruct (ws_files w) as [|root rest] eqn:Ef; [reflexivity|].
  assert (tinv o0) as T0.
  { split; [reflexivity|]. split; [|exact I]. split; [apply ids_empty|]. split.
    - intros n id H. discriminate.
    - intros r e n f H. unfold get_entry, nth_N in H. cbn in H. destruct (N.to_nat r); discriminate. }
  assert (stepI o0 (fold_left (fun a y => index_stmt (root :: rest) (ws_fuel w) y a) root o0)) as S1.
  { apply (tot_list (root :: rest) (ws_fuel w) root (sum_sizes stmt_size root));
      [intros y s Ts Hs; now apply tot_stmt|intros y Hy; now apply in_sum_sizes|exact T0|].
    unfold ws_fuel. rewrite Ef. unfold pot. cbn [o0 oi_indexed pot_from].
    assert (mem (N.of_nat 0) [0] = true) as -> by reflexivity.
    pose proof (pot_total rest 1 [0]). unfold fsize in *. unfold sum_sizes in *. cbn [fold_right]. lia. }
  destruct S1 as ((B & _) & _). exact B.
Qed.

(** ---- consequences: the source-level theorems hold for EVERY workspace, and the AST-only visits never fail ---- *)
Corollary visit_total : forall w, exists ev v', visit_ws w = Some (ev, v').
Proof. intros w. destruct (oix_visit w (oix_total w)) as (ev & v' & H & _). eauto. Qed.

Corollary visitc_total : forall w, exists ev c', visitc_ws w = Some (ev, c').
Proof. intros w. destruct (oix_children w (oix_total w)) as (ev & c' & H & _). eauto. Qed.
