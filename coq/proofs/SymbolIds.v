(** C03 (symbol-map part): under the id side conditions [op_ids_ok] no op of the model panics, every id stored
    in the interval maps and every parent of a record was allocated; hence the read-only API and the handlers
    over it never panic, and the recursion through `parent_list` (`find_field`, `is_subclass_of`, with the
    visited set of fix 1b571ae) terminates within depth (number of records + 1) and makes at most
    (number of records + 1) calls -- for EVERY parent relation, cyclic or not. *)
From Coq Require Import List Arith NArith Bool Lia.
From TG.Model Require Import Chars SymbolMap SymbolWf.
From TG.Proofs Require Import SymbolMapBasics SymbolOps.
Import ListNotations.
Open Scope N_scope.

Record IdsInv (S : symbol_map) : Prop := {
  ids_pos : forall f lo hi s, In (lo, hi, s) (posf S f) -> valid_id S (fst s) (snd s) = true;
  ids_parents : forall r e, get_entry S (KRecord, r) = Some e ->
                forall p, In p (p_parents (e_payload e)) -> valid_id S KRecord p = true }.

Lemma ids_empty : IdsInv sm_empty.
Proof.
  split.
  - intros f lo hi s H. destruct H.
  - intros r e H. unfold get_entry, nth_N in H. cbn in H. destruct (N.to_nat r); discriminate.
Qed.

Lemma valid_id_mono : forall S S' k i,
  (forall k', next_id S k' <= next_id S' k') -> valid_id S k i = true -> valid_id S' k i = true.
Proof.
  intros S S' k i H Hv. unfold valid_id in *. apply N.ltb_lt in Hv. apply N.ltb_lt. specialize (H k). lia.
Qed.

Lemma next_id_mono_step : forall S o S', apply_op S o = SOk S' -> forall k, next_id S k <= next_id S' k.
Proof.
  intros S o S' Hap k. destruct (apply_op_spec _ _ _ Hap) as (Har & _ & _). unfold arenas_after in Har.
  destruct (op_alloc o) as [[[k0 e] b]|].
  - destruct Har as [_ Hn]. rewrite Hn. destruct (sym_kind_eqb k k0) eqn:E; [|lia].
    apply sym_kind_eqb_eq in E. subst. lia.
  - destruct (op_update S o) as [[t g]|].
    + destruct Har as (_ & _ & Hn). rewrite Hn. lia.
    + rewrite (same_arenas_next_id _ _ k Har). lia.
Qed.

Lemma cur_is_cur_target : forall S k id, cur_is S k = Some id -> cur_target S k = Some (k, id).
Proof. intros S k id H. apply cur_is_target in H. tauto. Qed.

(** parents of the payload after the in-place updates *)
Lemma p_parents_rec_targ : forall n id p, p_parents (pf_rec_targ n id p) = p_parents p.
Proof. intros. destruct p; reflexivity. Qed.
Lemma p_parents_rec_field : forall n id p, p_parents (pf_rec_field n id p) = p_parents p.
Proof. intros. destruct p; reflexivity. Qed.

Theorem ids_step : forall S o S', IdsInv S -> op_ids_ok S o = true -> apply_op S o = SOk S' -> IdsInv S'.
Proof.
  intros S o S' [I1 I2] Hok Hap.
  pose proof (next_id_mono_step _ _ _ Hap) as Hmono.
  destruct (apply_op_spec _ _ _ Hap) as (Har & Hp & _). unfold arenas_after in Har.
  assert (I2m : forall r e, get_entry S (KRecord, r) = Some e ->
            forall p, In p (p_parents (e_payload e)) -> valid_id S' KRecord p = true).
  { intros r e He p Hin. eapply valid_id_mono; [exact Hmono|eapply I2; eassumption]. }
  (* interval maps *)
  assert (Hpos : match op_key S o with
                 | Some (_, s) => valid_id S' (fst s) (snd s) = true
                 | None => True end ->
                 forall f lo hi s, In (lo, hi, s) (posf S' f) -> valid_id S' (fst s) (snd s) = true).
  { intros Hk f lo hi s Hin. rewrite Hp in Hin. unfold pos_after in Hin.
    assert (Hold : forall f, In (lo, hi, s) (posf S f) -> valid_id S' (fst s) (snd s) = true).
    { intros f0 H0. eapply valid_id_mono; [exact Hmono|eapply I1; exact H0]. }
    destruct (op_key S o) as [[loc s0]|]; [|eapply Hold; exact Hin].
    destruct (fr_is_empty loc); [eapply Hold; exact Hin|].
    destruct (fr_file loc =? f); [|eapply Hold; exact Hin].
    apply In_ivl_insert in Hin. destruct Hin as [Hin|Hin]; [inversion Hin; subst; exact Hk|eapply Hold; exact Hin]. }
  (* parents: generic facts *)
  assert (Halloc : forall k e, p_parents (e_payload e) = [] ->
            (forall s, get_entry S' s = if sid_eqb s (k, next_id S k) then Some e else get_entry S s) ->
            forall r e1, get_entry S' (KRecord, r) = Some e1 -> forall p, In p (p_parents (e_payload e1)) -> valid_id S' KRecord p = true).
  { intros k e He Hg r e1 He1 p Hin. rewrite Hg in He1. destruct (sid_eqb (KRecord, r) (k, next_id S k)).
    - inversion He1. subst. rewrite He in Hin. destruct Hin.
    - eapply I2m; eassumption. }
  assert (Hupd : forall t g, (forall p, p_parents (g p) = p_parents p) ->
            (forall s', get_entry S' s' = if sid_eqb t s' then option_map (upd_payload g) (get_entry S s') else get_entry S s') ->
            forall r e1, get_entry S' (KRecord, r) = Some e1 -> forall p, In p (p_parents (e_payload e1)) -> valid_id S' KRecord p = true).
  { intros t g Hgp Hg r e1 He1 p Hin. rewrite Hg in He1. destruct (sid_eqb t (KRecord, r)).
    - destruct (get_entry S (KRecord, r)) as [e|] eqn:He; [|discriminate]. inversion He1. subst e1. cbn in Hin.
      rewrite Hgp in Hin. eapply I2m; eassumption.
    - eapply I2m; eassumption. }
  assert (Hother : forall k id g, k <> KRecord ->
            (forall s', get_entry S' s' = if sid_eqb (k, id) s' then option_map (upd_payload g) (get_entry S s') else get_entry S s') ->
            forall r e1, get_entry S' (KRecord, r) = Some e1 -> forall p, In p (p_parents (e_payload e1)) -> valid_id S' KRecord p = true).
  { intros k id g Hk Hg r e1 He1 p Hin. rewrite Hg in He1.
    destruct (sid_eqb (k, id) (KRecord, r)) eqn:E.
    - apply sid_eqb_eq in E. inversion E. contradiction.
    - eapply I2m; eassumption. }
  assert (Hsame : same_arenas S S' ->
            forall r e1, get_entry S' (KRecord, r) = Some e1 -> forall p, In p (p_parents (e_payload e1)) -> valid_id S' KRecord p = true).
  { intros Hsa r e1 He1. rewrite (same_arenas_get_entry _ _ _ Hsa) in He1. eapply I2m. exact He1. }
  assert (Hnew : forall k, valid_id S' k (next_id S k) = true -> valid_id S' (fst (k, next_id S k)) (snd (k, next_id S k)) = true)
    by (intros; assumption).
  destruct o; cbn [op_alloc op_update op_key e_def] in Har, Hpos; cbn [op_ids_ok] in Hok.
  - destruct Har as [Hg Hn]. split; [apply Hpos; cbn [fst snd]; unfold valid_id; rewrite Hn; cbn; apply N.ltb_lt; lia|eapply Halloc; [|exact Hg]; reflexivity].
  - destruct Har as [Hg Hn]. split; [apply Hpos; exact I|eapply Halloc; [|exact Hg]; reflexivity].
  - destruct Har as [Hg Hn]. split; [apply Hpos; cbn [fst snd]; unfold valid_id; rewrite Hn; cbn; apply N.ltb_lt; lia|eapply Halloc; [|exact Hg]; reflexivity].
  - destruct Har as [Hg Hn]. split; [apply Hpos; cbn [fst snd]; unfold valid_id; rewrite Hn; cbn; apply N.ltb_lt; lia|eapply Halloc; [|exact Hg]; reflexivity].
  - destruct Har as [Hg Hn]. split; [apply Hpos; cbn [fst snd]; unfold valid_id; rewrite Hn; cbn; apply N.ltb_lt; lia|eapply Halloc; [|exact Hg]; reflexivity].
  - destruct Har as [Hg Hn]. split; [apply Hpos; cbn [fst snd]; unfold valid_id; rewrite Hn; cbn; apply N.ltb_lt; lia|eapply Halloc; [|exact Hg]; reflexivity].
  - destruct Har as [Hg Hn]. split; [apply Hpos; cbn [fst snd]; unfold valid_id; rewrite Hn; cbn; apply N.ltb_lt; lia|eapply Halloc; [|exact Hg]; reflexivity].
  - destruct Har as [Hg Hn]. split; [apply Hpos; cbn [fst snd]; unfold valid_id; rewrite Hn; cbn; apply N.ltb_lt; lia|eapply Halloc; [|exact Hg]; reflexivity].
  - destruct Har as [Hg Hn]. split; [apply Hpos; exact I|eapply Halloc; [|exact Hg]; reflexivity].
  - (* add_reference *)
    destruct Har as (_ & Hg & Hn). split.
    + apply Hpos. eapply valid_id_mono; [exact Hmono|exact Hok].
    + intros r e1 He1 p Hin. rewrite Hg in He1. destruct (sid_eqb s (KRecord, r)).
      * destruct (get_entry S (KRecord, r)) as [e|] eqn:He; [|discriminate]. inversion He1. subst e1. cbn in Hin.
        eapply I2m; eassumption.
      * eapply I2m; eassumption.
  - split; [apply Hpos; exact I|apply Hsame; exact Har].
  - split; [apply Hpos; exact I|apply Hsame; exact Har].
  - split; [apply Hpos; exact I|apply Hsame; exact Har].
  - split; [apply Hpos; exact I|apply Hsame; exact Har].
  - destruct (cur_is S KRecord) as [r0|] eqn:Ec; [|discriminate]. rewrite (cur_is_cur_target _ _ _ Ec) in Har.
    cbn [option_map] in Har. destruct Har as (_ & Hg & _).
    split; [apply Hpos; exact I|eapply Hupd; [|exact Hg]; apply p_parents_rec_targ].
  - destruct (cur_is S KRecord) as [r0|] eqn:Ec; [|discriminate]. rewrite (cur_is_cur_target _ _ _ Ec) in Har.
    cbn [option_map] in Har. destruct Har as (_ & Hg & _).
    split; [apply Hpos; exact I|eapply Hupd; [|exact Hg]; apply p_parents_rec_field].
  - (* record.add_parent *)
    destruct (cur_is S KRecord) as [r0|] eqn:Ec; [|discriminate]. rewrite (cur_is_cur_target _ _ _ Ec) in Har.
    cbn [option_map] in Har. destruct Har as (_ & Hg & _).
    split; [apply Hpos; exact I|].
    intros r e1 He1 p Hin. rewrite Hg in He1. destruct (sid_eqb (KRecord, r0) (KRecord, r)) eqn:E.
    + apply sid_eqb_eq in E. inversion E. subst r0.
      destruct (get_entry S (KRecord, r)) as [e|] eqn:He; [|discriminate]. inversion He1. subst e1. cbn in Hin.
      destruct (e_payload e) eqn:Ep; cbn in Hin; try (eapply I2m; [exact He|rewrite Ep; exact Hin]).
      apply in_app_or in Hin. destruct Hin as [Hin|[Hin|[]]]; [|subst; eapply valid_id_mono; [exact Hmono|exact Hok]].
      eapply I2m; [exact He|rewrite Ep; exact Hin].
    + eapply I2m; eassumption.
  - destruct (cur_is S KDefset) as [r0|] eqn:Ec; [|discriminate]. rewrite (cur_is_cur_target _ _ _ Ec) in Har.
    cbn [option_map] in Har. destruct Har as (_ & Hg & _).
    split; [apply Hpos; exact I|eapply Hother; [|exact Hg]; discriminate].
  - destruct (cur_is S KMulticlass) as [r0|] eqn:Ec; [|discriminate]. rewrite (cur_is_cur_target _ _ _ Ec) in Har.
    cbn [option_map] in Har. destruct Har as (_ & Hg & _).
    split; [apply Hpos; exact I|eapply Hother; [|exact Hg]; discriminate].
  - destruct (cur_is S KMulticlass) as [r0|] eqn:Ec; [|discriminate]. rewrite (cur_is_cur_target _ _ _ Ec) in Har.
    cbn [option_map] in Har. destruct Har as (_ & Hg & _).
    split; [apply Hpos; exact I|eapply Hother; [|exact Hg]; discriminate].
  - destruct (cur_is S KDefm) as [r0|] eqn:Ec; [|discriminate]. rewrite (cur_is_cur_target _ _ _ Ec) in Har.
    cbn [option_map] in Har. destruct Har as (_ & Hg & _).
    split; [apply Hpos; exact I|eapply Hother; [|exact Hg]; discriminate].
  - split; [apply Hpos; exact I|apply Hsame; exact Har].
Qed.

Theorem ids_run : forall ops, ops_ids_wf ops = true -> exists S, run_ops ops = SOk S /\ IdsInv S.
Proof.
  intros ops H. unfold run_ops, ops_ids_wf in *.
  apply (ops_ok_from_inv op_ids_ok IdsInv); [|apply ids_empty|exact H].
  intros S o S' HI Hok Hap. eapply ids_step; eassumption.
Qed.

(** the side conditions alone already exclude a failing op (no invariant needed) *)
Theorem ids_ops_never_fail : forall ops S, ops_ok_from op_ids_ok S ops = true -> exists S', run_ops_from S ops = SOk S'.
Proof.
  induction ops as [|o ops IH]; intros S H; cbn in *; [eauto|].
  apply andb_true_iff in H. destruct H as [Hok H].
  destruct (apply_op S o) as [S1|] eqn:E; [|discriminate]. cbn [sbind]. apply IH. exact H.
Qed.

(** ---- the read-only API never panics on such a state *)
Lemma find_symbol_at_ok : forall S f p, IdsInv S -> exists o, find_symbol_at S f p = SOk o.
Proof.
  intros S f p HI. unfold find_symbol_at. destruct (find_symbol_id_at S f p) as [s|] eqn:E; [|eauto].
  unfold find_symbol_id_at in E. pose proof (ids_pos _ HI f) as Hv. unfold posf in Hv.
  destruct (fmap_get (sm_pos S) f) as [m|]; [|discriminate].
  destruct (ivl_overlap_point m p) as [|[[lo hi] v] r] eqn:Eo; [discriminate|]. inversion E. subst v.
  assert (Hin : In (lo, hi, s) m).
  { assert (H : In (lo, hi, s) (ivl_overlap_point m p)) by (rewrite Eo; left; reflexivity).
    unfold ivl_overlap_point in H. apply filter_In in H. tauto. }
  apply Hv in Hin. apply get_entry_valid in Hin. destruct Hin as [e He]. unfold symbol. rewrite He. cbn. eauto.
Qed.

Theorem goto_definition_ok : forall S f p, IdsInv S -> exists o, goto_definition S f p = SOk o.
Proof. intros S f p HI. unfold goto_definition. destruct (find_symbol_at_ok S f p HI) as [o H]. rewrite H. cbn. eauto. Qed.
Theorem references_ok : forall S f p, IdsInv S -> exists o, references S f p = SOk o.
Proof. intros S f p HI. unfold references. destruct (find_symbol_at_ok S f p HI) as [o H]. rewrite H. cbn. eauto. Qed.

(** the guard of fix 751cf5a makes the range query total, for every state *)
Theorem iter_symbols_in_range_ok : forall S loc, exists o, iter_symbols_in_range S loc = SOk o.
Proof.
  intros S loc. unfold iter_symbols_in_range, iter_symbols_in_range_g. cbn [andb].
  destruct (fr_is_empty loc) eqn:E; [eauto|].
  destruct (fmap_get (sm_pos S) (fr_file loc)); [|eauto].
  unfold ivl_iter. unfold fr_is_empty in E. rewrite E. cbn. eauto.
Qed.
(** ... and without it the empty query panics in iset (defect D11) *)
Theorem iter_symbols_in_range_unguarded_panics :
  exists S loc, iter_symbols_in_range_g false S loc = SErr EIntervalEmpty.
Proof.
  exists (set_pos sm_empty [(0, [(6, 7, (KRecord, 0))])]), (mkFR 0 3 3). reflexivity.
Qed.

(** ---- recursion through parent_list (visited set of fix 1b571ae) *)
Lemma record_valid_lt : forall S r e, get_entry S (KRecord, r) = Some e -> r < next_id S KRecord.
Proof.
  intros S r e H. assert (Hv : valid_id S (fst (KRecord, r)) (snd (KRecord, r)) = true) by (apply get_entry_valid; eauto).
  unfold valid_id in Hv. apply N.ltb_lt in Hv. exact Hv.
Qed.

Lemma valid_record_entry : forall S p, valid_id S KRecord p = true -> exists e, get_entry S (KRecord, p) = Some e.
Proof. intros S p H. apply (get_entry_valid S (KRecord, p)). exact H. Qed.

Lemma vis_mem_In : forall p vis, vis_mem p vis = true <-> In p vis.
Proof.
  intros p vis. unfold vis_mem. rewrite existsb_exists. split.
  - intros [x [Hin He]]. apply N.eqb_eq in He. subst. exact Hin.
  - intros H. exists p. split; [exact H|apply N.eqb_refl].
Qed.

(** a duplicate-free list of allocated record ids is no longer than the arena *)
Definition vis_ok (S : symbol_map) (vis : list N) : Prop := NoDup vis /\ forall p, In p vis -> valid_id S KRecord p = true.

Lemma vis_ok_length : forall S vis, vis_ok S vis -> (length vis <= length (sm_records S))%nat.
Proof.
  intros S vis [Hnd Hv].
  assert (Hincl : incl vis (map N.of_nat (seq 0 (length (sm_records S))))).
  { intros p Hp. specialize (Hv p Hp). unfold valid_id, next_id, len_N in Hv. cbn [get_arena] in Hv. apply N.ltb_lt in Hv.
    apply in_map_iff. exists (N.to_nat p). split; [apply Nnat.N2Nat.id|]. apply in_seq. lia. }
  pose proof (NoDup_incl_length Hnd Hincl) as H. rewrite map_length, seq_length in H. exact H.
Qed.

Lemma vis_ok_cons : forall S vis p, vis_ok S vis -> vis_mem p vis = false -> valid_id S KRecord p = true -> vis_ok S (p :: vis).
Proof.
  intros S vis p [Hnd Hv] Hm Hp. split.
  - constructor; [|exact Hnd]. intros C. apply vis_mem_In in C. congruence.
  - intros q [Hq|Hq]; [subst; exact Hp|apply Hv; exact Hq].
Qed.

Section Recursion.
Variable S : symbol_map.
Hypothesis HI : IdsInv S.
Let nrec := length (sm_records S).

Theorem find_field_in_ok : forall n fuel rid vis e,
  get_entry S (KRecord, rid) = Some e -> vis_ok S vis -> (nrec - length vis < fuel)%nat ->
  exists o vis', find_field_in fuel S rid n vis = SOk (o, vis') /\ vis_ok S vis' /\ (length vis <= length vis')%nat.
Proof.
  intros n. induction fuel as [|fuel IH]; intros rid vis e He Hvis Hf; [lia|].
  cbn [find_field_in]. unfold record, symbol. rewrite He. cbn [sbind].
  destruct (amap_get (p_fields (e_payload e)) n); [exists (Some n0), vis; auto|].
  pose proof (ids_parents _ HI _ _ He) as Hps.
  revert Hps. generalize (p_parents (e_payload e)) as ps. intros ps.
  revert vis Hvis Hf. induction ps as [|p ps IHps]; intros vis Hvis Hf Hps.
  - exists None, vis. auto.
  - destruct (vis_mem p vis) eqn:Em.
    + apply IHps; [exact Hvis|exact Hf|]. intros q Hq. apply Hps. right. exact Hq.
    + assert (Hp : valid_id S KRecord p = true) by (apply Hps; left; reflexivity).
      pose proof (vis_ok_cons _ _ _ Hvis Em Hp) as Hvis1.
      pose proof (vis_ok_length _ _ Hvis1) as Hlen1. cbn [length] in Hlen1. fold nrec in Hlen1.
      destruct (valid_record_entry _ _ Hp) as [ep Hep].
      destruct (IH p (p :: vis) ep Hep Hvis1) as (o & vis' & Hr & Hvis' & Hle); [cbn [length]; lia|].
      rewrite Hr. cbn [length] in Hle. destruct o as [f|].
      * exists (Some f), vis'. split; [reflexivity|]. split; [exact Hvis'|lia].
      * destruct (IHps vis' Hvis') as (o2 & vis2 & Hr2 & Hvis2 & Hle2); [lia| |].
        -- intros q Hq. apply Hps. right. exact Hq.
        -- exists o2, vis2. split; [exact Hr2|]. split; [exact Hvis2|lia].
Qed.

Theorem is_subclass_of_in_ok : forall other fuel rid vis e,
  get_entry S (KRecord, rid) = Some e -> vis_ok S vis -> (nrec - length vis < fuel)%nat ->
  exists b vis', is_subclass_of_in fuel S rid other vis = SOk (b, vis') /\ vis_ok S vis' /\ (length vis <= length vis')%nat.
Proof.
  intros other. induction fuel as [|fuel IH]; intros rid vis e He Hvis Hf; [lia|].
  cbn [is_subclass_of_in]. unfold record, symbol. rewrite He. cbn [sbind]. cbn zeta.
  destruct (existsb (N.eqb other) (p_parents (e_payload e))); [exists true, vis; auto|].
  pose proof (ids_parents _ HI _ _ He) as Hps.
  revert Hps. generalize (p_parents (e_payload e)) as ps. intros ps.
  revert vis Hvis Hf. induction ps as [|p ps IHps]; intros vis Hvis Hf Hps.
  - exists false, vis. auto.
  - destruct (vis_mem p vis) eqn:Em.
    + apply IHps; [exact Hvis|exact Hf|]. intros q Hq. apply Hps. right. exact Hq.
    + assert (Hp : valid_id S KRecord p = true) by (apply Hps; left; reflexivity).
      pose proof (vis_ok_cons _ _ _ Hvis Em Hp) as Hvis1.
      pose proof (vis_ok_length _ _ Hvis1) as Hlen1. cbn [length] in Hlen1. fold nrec in Hlen1.
      destruct (valid_record_entry _ _ Hp) as [ep Hep].
      destruct (IH p (p :: vis) ep Hep Hvis1) as (b & vis' & Hr & Hvis' & Hle); [cbn [length]; lia|].
      rewrite Hr. cbn [length] in Hle. destruct b.
      * exists true, vis'. split; [reflexivity|]. split; [exact Hvis'|lia].
      * destruct (IHps vis' Hvis') as (b2 & vis2 & Hr2 & Hvis2 & Hle2); [lia| |].
        -- intros q Hq. apply Hps. right. exact Hq.
        -- exists b2, vis2. split; [exact Hr2|]. split; [exact Hvis2|lia].
Qed.

Lemma vis_ok_nil : vis_ok S [].
Proof. split; [constructor|intros p []]. Qed.

Theorem find_field_ok : forall rid n e, get_entry S (KRecord, rid) = Some e ->
  exists o, find_field (Datatypes.S nrec) S rid n = SOk o.
Proof.
  intros rid n e He. unfold find_field.
  destruct (find_field_in_ok n (Datatypes.S nrec) rid [] e He vis_ok_nil) as (o & vis' & Hr & _); [cbn; lia|].
  rewrite Hr. cbn. eauto.
Qed.

Theorem is_subclass_of_ok : forall rid other e, get_entry S (KRecord, rid) = Some e ->
  exists b, is_subclass_of (Datatypes.S nrec) S rid other = SOk b.
Proof.
  intros rid other e He. unfold is_subclass_of.
  destruct (is_subclass_of_in_ok other (Datatypes.S nrec) rid [] e He vis_ok_nil) as (b & vis' & Hr & _); [cbn; lia|].
  rewrite Hr. cbn. eauto.
Qed.

(** WORK bound: the number of invocations of the recursive function is 1 + the number of ids inserted into the
    visited set, hence at most (number of records + 1) -- what the defect D35 (exponential on diamonds) violated *)
Theorem find_field_calls_spec : forall n fuel rid vis o vis',
  find_field_in fuel S rid n vis = SOk (o, vis') ->
  find_field_calls fuel S rid n vis = (Datatypes.S (length vis' - length vis), vis') /\ (length vis <= length vis')%nat.
Proof.
  intros n. induction fuel as [|fuel IH]; intros rid vis o vis' H; [discriminate|].
  cbn [find_field_in] in H. cbn [find_field_calls]. unfold record, symbol in H.
  destruct (get_entry S (KRecord, rid)) as [e|]; [|discriminate]. cbn [sbind] in H.
  destruct (amap_get (p_fields (e_payload e)) n).
  - inversion H. subst. rewrite Nat.sub_diag. auto.
  - revert H. generalize (p_parents (e_payload e)) as ps. intros ps.
    assert (Hgen : forall ps cur acc o vis',
      (fix go (ps : list N) (vis : list N) : sres (option N * list N) :=
         match ps with
         | [] => SOk (None, vis)
         | p :: ps' =>
             if vis_mem p vis then go ps' vis
             else match find_field_in fuel S p n (p :: vis) with
                  | SOk (Some f, vis') => SOk (Some f, vis')
                  | SOk (None, vis') => go ps' vis'
                  | SErr e => SErr e
                  end
         end) ps cur = SOk (o, vis') ->
      (fix go (ps : list N) (vis : list N) (acc : nat) : nat * list N :=
         match ps with
         | [] => (acc, vis)
         | p :: ps' =>
             if vis_mem p vis then go ps' vis acc
             else let '(c, vis') := find_field_calls fuel S p n (p :: vis) in
                  match find_field_in fuel S p n (p :: vis) with
                  | SOk (None, _) => go ps' vis' (acc + c)%nat
                  | _ => ((acc + c)%nat, vis')
                  end
         end) ps cur acc = ((acc + (length vis' - length cur))%nat, vis') /\ (length cur <= length vis')%nat).
    { induction ps0 as [|p ps0 IHps]; intros cur acc o0 v0 Hgo.
      - inversion Hgo. subst. rewrite Nat.sub_diag, Nat.add_0_r. auto.
      - destruct (vis_mem p cur); [exact (IHps _ _ _ _ Hgo)|].
        destruct (find_field_in fuel S p n (p :: cur)) as [[o1 v1]|] eqn:Er; [|discriminate].
        destruct (IH _ _ _ _ Er) as [Hc Hle]. rewrite Hc. cbn [length] in Hc, Hle.
        destruct o1 as [f|]; cbv beta iota zeta.
        + inversion Hgo. subst. split; [|lia]. f_equal. cbn [length]. lia.
        + destruct (IHps v1 (acc + Datatypes.S (length v1 - length (p :: cur)))%nat _ _ Hgo) as [Hc2 Hle2].
          rewrite Hc2. cbn [length] in *. split; [|lia]. f_equal. lia. }
    intros H. destruct (Hgen ps vis 1%nat o vis' H) as [Hc Hle]. rewrite Hc. auto.
Qed.

Theorem find_field_work_bound : forall rid n e, get_entry S (KRecord, rid) = Some e ->
  (fst (find_field_calls (Datatypes.S nrec) S rid n []) <= Datatypes.S nrec)%nat.
Proof.
  intros rid n e He.
  destruct (find_field_in_ok n (Datatypes.S nrec) rid [] e He vis_ok_nil) as (o & vis' & Hr & Hvis' & _); [cbn; lia|].
  destruct (find_field_calls_spec _ _ _ _ _ _ Hr) as [Hc _]. rewrite Hc. cbn [fst length].
  pose proof (vis_ok_length _ _ Hvis'). fold nrec in H. lia.
Qed.
End Recursion.

(** ---- the statement of props/C03.v *)
Theorem c03_symbol_map_total : forall ops,
  ops_ids_wf ops = true ->
  exists S, run_ops ops = SOk S /\
    (forall f p, exists o, find_symbol_at S f p = SOk o) /\
    (forall f p, exists o, goto_definition S f p = SOk o) /\
    (forall f p, exists o, references S f p = SOk o) /\
    (forall loc, exists o, iter_symbols_in_range S loc = SOk o) /\
    (forall r n, r < next_id S KRecord -> exists o, find_field (Datatypes.S (length (sm_records S))) S r n = SOk o) /\
    (forall r other, r < next_id S KRecord -> exists b, is_subclass_of (Datatypes.S (length (sm_records S))) S r other = SOk b) /\
    (forall r n, r < next_id S KRecord ->
       (fst (find_field_calls (Datatypes.S (length (sm_records S))) S r n []) <= Datatypes.S (length (sm_records S)))%nat).
Proof.
  intros ops H. destruct (ids_run ops H) as (S & Hr & HI). exists S. split; [exact Hr|].
  split; [intros; apply find_symbol_at_ok; exact HI|].
  split; [intros; apply goto_definition_ok; exact HI|].
  split; [intros; apply references_ok; exact HI|].
  split; [intros; apply iter_symbols_in_range_ok|].
  assert (Hent : forall r, r < next_id S KRecord -> exists e, get_entry S (KRecord, r) = Some e).
  { intros r Hr'. apply valid_record_entry. unfold valid_id. apply N.ltb_lt. exact Hr'. }
  split; [|split].
  - intros r n Hr'. destruct (Hent r Hr') as [e He]. eapply find_field_ok; eassumption.
  - intros r other Hr'. destruct (Hent r Hr') as [e He]. eapply is_subclass_of_ok; eassumption.
  - intros r n Hr'. destruct (Hent r Hr') as [e He]. eapply find_field_work_bound; eassumption.
Qed.

(** ---- before fix 1b571ae: the log of `class A : A { int x = y; }` without the guard of fb9cd66 (the class is its
    own parent) made the field lookup diverge: no fuel is enough (defect D3: stack overflow).  With the visited set
    the same state is harmless. *)
Definition d3_ops : list op :=
  [ OpAddRecord [65] RKClass (mkFR 0 6 7) true 0;
    OpAddReference (KRecord, 0) (mkFR 0 10 11); OpRecordMut 0; OpRecordMut 0; OpRecAddParent 0 ].

Theorem c03_self_parent_diverges_v0 :
  exists S, run_ops d3_ops = SOk S /\ (forall fuel, find_field_v0 fuel S 0 [121] = SErr EOutOfFuel) /\
            find_field 2 S 0 [121] = SOk None /\ is_subclass_of 2 S 0 0 = SOk true.
Proof.
  eexists. split; [vm_compute; reflexivity|]. split; [|vm_compute; split; reflexivity].
  induction fuel as [|fuel IH]; [reflexivity|].
  cbn [find_field_v0]. unfold record, symbol, get_entry, nth_N. cbn. rewrite IH. reflexivity.
Qed.

(** ---- defect D35 (before 1b571ae): a chain  class C0 { int a; }  class Ci : Ci-1, Ci-1;  (i = 1..10) and the
    lookup of a name that is nowhere: the old function is invoked 2^11 - 1 times, the repaired one 11 times *)
Fixpoint chain_ops (i : nat) (acc : list op) : list op :=
  match i with
  | O => acc
  | Datatypes.S j =>
      chain_ops j ([ OpAddRecord [67] RKClass (mkFR 0 (N.of_nat i * 100 + 6) (N.of_nat i * 100 + 8)) true (N.of_nat i);
                     OpRecordMut (N.of_nat i); OpRecAddParent (N.of_nat j);
                     OpRecordMut (N.of_nat i); OpRecAddParent (N.of_nat j) ] ++ acc)
  end.
Definition d35_ops : list op :=
  [ OpAddRecord [67] RKClass (mkFR 0 6 8) true 0; OpAddRecordField [97] [] (mkFR 0 15 16) 0 0; OpRecordMut 0; OpRecAddField [97] 0 ]
  ++ chain_ops 10 [].

Theorem c03_diamond_exponential_v0 :
  ops_ids_wf d35_ops = true /\
  exists S, run_ops d35_ops = SOk S /\
    find_field_calls_v0 12 S 10 [113] = 2047%nat /\ find_field_v0 12 S 10 [113] = SOk None /\
    fst (find_field_calls 12 S 10 [113] []) = 11%nat /\ find_field 12 S 10 [113] = SOk None /\
    find_field 12 S 10 [97] = SOk (Some 0) /\ find_field_v0 12 S 10 [97] = SOk (Some 0).
Proof. split; [vm_compute; reflexivity|]. eexists. split; [vm_compute; reflexivity|]. vm_compute. repeat split; reflexivity. Qed.

(** non-vacuity: the log of  class A; class B : A; class A : B;  (mutual recursion is impossible: the second
    `class A` is a new record) *)
Definition c03_ex_ops : list op :=
  [ OpAddRecord [65] RKClass (mkFR 0 6 7) true 0;
    OpAddRecord [66] RKClass (mkFR 0 15 16) true 1;
    OpAddReference (KRecord, 0) (mkFR 0 19 20); OpRecordMut 0; OpRecordMut 1; OpRecAddParent 0;
    OpAddRecord [65] RKClass (mkFR 0 28 29) true 2;
    OpAddReference (KRecord, 1) (mkFR 0 32 33); OpRecordMut 1; OpRecordMut 2; OpRecAddParent 1 ].
Example c03_ex : ops_ids_wf c03_ex_ops = true /\
  exists S, run_ops c03_ex_ops = SOk S /\ record_parents S 2 = [1] /\ record_parents S 1 = [0] /\ record_parents S 0 = [] /\
            is_subclass_of 4 S 2 0 = SOk true /\ is_subclass_of 4 S 0 2 = SOk false.
Proof. split; [vm_compute; reflexivity|]. eexists. split; [vm_compute; reflexivity|]. vm_compute. repeat split; reflexivity. Qed.
