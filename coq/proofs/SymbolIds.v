(** C03 (symbol-map part): under the id side conditions [op_ids_ok] no op of the model panics, every id stored
    in the interval maps was allocated, every parent of a record is strictly older than the record; hence the
    read-only API and the handlers over it never panic and the recursion through `parent_list`
    (`find_field`, `is_subclass_of`) terminates within fuel = number of records. *)
From Coq Require Import List Arith NArith Bool Lia.
From TG.Model Require Import Chars SymbolMap SymbolWf.
From TG.Proofs Require Import SymbolMapBasics SymbolOps.
Import ListNotations.
Open Scope N_scope.

Record IdsInv (S : symbol_map) : Prop := {
  ids_pos : forall f lo hi s, In (lo, hi, s) (posf S f) -> valid_id S (fst s) (snd s) = true;
  ids_parents : forall r e, get_entry S (KRecord, r) = Some e -> forall p, In p (p_parents (e_payload e)) -> p < r }.

Lemma ids_empty : IdsInv sm_empty.
Proof.
  split.
  - intros f lo hi s H. destruct H.
  - intros r e H. unfold get_entry, nth_N in H. cbn in H. destruct (N.to_nat r); discriminate.
Qed.

Lemma valid_id_mono : forall S S' k i,
  (forall k', next_id S k' <= next_id S' k') -> valid_id S k i = true -> valid_id S' k i = true.
Proof.
  intros S S' k i H Hv. unfold valid_id in *. apply N.ltb_lt in Hv. apply N.ltb_lt. specialize (H k). lia.
Qed.

Lemma next_id_mono_step : forall S o S', apply_op S o = SOk S' -> forall k, next_id S k <= next_id S' k.
Proof.
  intros S o S' Hap k. destruct (apply_op_spec _ _ _ Hap) as (Har & _ & _). unfold arenas_after in Har.
  destruct (op_alloc o) as [[[k0 e] b]|].
  - destruct Har as [_ Hn]. rewrite Hn. destruct (sym_kind_eqb k k0) eqn:E; [|lia].
    apply sym_kind_eqb_eq in E. subst. lia.
  - destruct (op_update S o) as [[t g]|].
    + destruct Har as (_ & _ & Hn). rewrite Hn. lia.
    + rewrite (same_arenas_next_id _ _ k Har). lia.
Qed.

Lemma cur_is_cur_target : forall S k id, cur_is S k = Some id -> cur_target S k = Some (k, id).
Proof. intros S k id H. apply cur_is_target in H. tauto. Qed.

(** parents of the payload after the in-place updates *)
Lemma p_parents_rec_targ : forall n id p, p_parents (pf_rec_targ n id p) = p_parents p.
Proof. intros. destruct p; reflexivity. Qed.
Lemma p_parents_rec_field : forall n id p, p_parents (pf_rec_field n id p) = p_parents p.
Proof. intros. destruct p; reflexivity. Qed.

Theorem ids_step : forall S o S', IdsInv S -> op_ids_ok S o = true -> apply_op S o = SOk S' -> IdsInv S'.
Proof.
  intros S o S' [I1 I2] Hok Hap.
  pose proof (next_id_mono_step _ _ _ Hap) as Hmono.
  destruct (apply_op_spec _ _ _ Hap) as (Har & Hp & _). unfold arenas_after in Har.
  (* interval maps *)
  assert (Hpos : match op_key S o with
                 | Some (_, s) => valid_id S' (fst s) (snd s) = true
                 | None => True end ->
                 forall f lo hi s, In (lo, hi, s) (posf S' f) -> valid_id S' (fst s) (snd s) = true).
  { intros Hk f lo hi s Hin. rewrite Hp in Hin. unfold pos_after in Hin.
    assert (Hold : forall f, In (lo, hi, s) (posf S f) -> valid_id S' (fst s) (snd s) = true).
    { intros f0 H0. eapply valid_id_mono; [exact Hmono|eapply I1; exact H0]. }
    destruct (op_key S o) as [[loc s0]|]; [|eapply Hold; exact Hin].
    destruct (fr_is_empty loc); [eapply Hold; exact Hin|].
    destruct (fr_file loc =? f); [|eapply Hold; exact Hin].
    apply In_ivl_insert in Hin. destruct Hin as [Hin|Hin]; [inversion Hin; subst; exact Hk|eapply Hold; exact Hin]. }
  (* parents: generic facts *)
  assert (Halloc : forall k e, p_parents (e_payload e) = [] ->
            (forall s, get_entry S' s = if sid_eqb s (k, next_id S k) then Some e else get_entry S s) ->
            forall r e1, get_entry S' (KRecord, r) = Some e1 -> forall p, In p (p_parents (e_payload e1)) -> p < r).
  { intros k e He Hg r e1 He1 p Hin. rewrite Hg in He1. destruct (sid_eqb (KRecord, r) (k, next_id S k)).
    - inversion He1. subst. rewrite He in Hin. destruct Hin.
    - eapply I2; eassumption. }
  assert (Hupd : forall t g, (forall p, p_parents (g p) = p_parents p) ->
            (forall s', get_entry S' s' = if sid_eqb t s' then option_map (upd_payload g) (get_entry S s') else get_entry S s') ->
            forall r e1, get_entry S' (KRecord, r) = Some e1 -> forall p, In p (p_parents (e_payload e1)) -> p < r).
  { intros t g Hgp Hg r e1 He1 p Hin. rewrite Hg in He1. destruct (sid_eqb t (KRecord, r)).
    - destruct (get_entry S (KRecord, r)) as [e|] eqn:He; [|discriminate]. inversion He1. subst e1. cbn in Hin.
      rewrite Hgp in Hin. eapply I2; eassumption.
    - eapply I2; eassumption. }
  assert (Hother : forall k id g, k <> KRecord ->
            (forall s', get_entry S' s' = if sid_eqb (k, id) s' then option_map (upd_payload g) (get_entry S s') else get_entry S s') ->
            forall r e1, get_entry S' (KRecord, r) = Some e1 -> forall p, In p (p_parents (e_payload e1)) -> p < r).
  { intros k id g Hk Hg r e1 He1 p Hin. rewrite Hg in He1.
    destruct (sid_eqb (k, id) (KRecord, r)) eqn:E.
    - apply sid_eqb_eq in E. inversion E. contradiction.
    - eapply I2; eassumption. }
  assert (Hsame : same_arenas S S' ->
            forall r e1, get_entry S' (KRecord, r) = Some e1 -> forall p, In p (p_parents (e_payload e1)) -> p < r).
  { intros Hsa r e1 He1. rewrite (same_arenas_get_entry _ _ _ Hsa) in He1. eapply I2. exact He1. }
  assert (Hnew : forall k, valid_id S' k (next_id S k) = true -> valid_id S' (fst (k, next_id S k)) (snd (k, next_id S k)) = true)
    by (intros; assumption).
  destruct o; cbn [op_alloc op_update op_key e_def] in Har, Hpos; cbn [op_ids_ok] in Hok.
  - destruct Har as [Hg Hn]. split; [apply Hpos; cbn [fst snd]; unfold valid_id; rewrite Hn; cbn; apply N.ltb_lt; lia|eapply Halloc; [|exact Hg]; reflexivity].
  - destruct Har as [Hg Hn]. split; [apply Hpos; exact I|eapply Halloc; [|exact Hg]; reflexivity].
  - destruct Har as [Hg Hn]. split; [apply Hpos; cbn [fst snd]; unfold valid_id; rewrite Hn; cbn; apply N.ltb_lt; lia|eapply Halloc; [|exact Hg]; reflexivity].
  - destruct Har as [Hg Hn]. split; [apply Hpos; cbn [fst snd]; unfold valid_id; rewrite Hn; cbn; apply N.ltb_lt; lia|eapply Halloc; [|exact Hg]; reflexivity].
  - destruct Har as [Hg Hn]. split; [apply Hpos; cbn [fst snd]; unfold valid_id; rewrite Hn; cbn; apply N.ltb_lt; lia|eapply Halloc; [|exact Hg]; reflexivity].
  - destruct Har as [Hg Hn]. split; [apply Hpos; cbn [fst snd]; unfold valid_id; rewrite Hn; cbn; apply N.ltb_lt; lia|eapply Halloc; [|exact Hg]; reflexivity].
  - destruct Har as [Hg Hn]. split; [apply Hpos; cbn [fst snd]; unfold valid_id; rewrite Hn; cbn; apply N.ltb_lt; lia|eapply Halloc; [|exact Hg]; reflexivity].
  - destruct Har as [Hg Hn]. split; [apply Hpos; cbn [fst snd]; unfold valid_id; rewrite Hn; cbn; apply N.ltb_lt; lia|eapply Halloc; [|exact Hg]; reflexivity].
  - destruct Har as [Hg Hn]. split; [apply Hpos; exact I|eapply Halloc; [|exact Hg]; reflexivity].
  - (* add_reference *)
    destruct Har as (_ & Hg & Hn). split.
    + apply Hpos. eapply valid_id_mono; [exact Hmono|exact Hok].
    + intros r e1 He1 p Hin. rewrite Hg in He1. destruct (sid_eqb s (KRecord, r)).
      * destruct (get_entry S (KRecord, r)) as [e|] eqn:He; [|discriminate]. inversion He1. subst e1. cbn in Hin.
        eapply I2; eassumption.
      * eapply I2; eassumption.
  - split; [apply Hpos; exact I|apply Hsame; exact Har].
  - split; [apply Hpos; exact I|apply Hsame; exact Har].
  - split; [apply Hpos; exact I|apply Hsame; exact Har].
  - split; [apply Hpos; exact I|apply Hsame; exact Har].
  - destruct (cur_is S KRecord) as [r0|] eqn:Ec; [|discriminate]. rewrite (cur_is_cur_target _ _ _ Ec) in Har.
    cbn [option_map] in Har. destruct Har as (_ & Hg & _).
    split; [apply Hpos; exact I|eapply Hupd; [|exact Hg]; apply p_parents_rec_targ].
  - destruct (cur_is S KRecord) as [r0|] eqn:Ec; [|discriminate]. rewrite (cur_is_cur_target _ _ _ Ec) in Har.
    cbn [option_map] in Har. destruct Har as (_ & Hg & _).
    split; [apply Hpos; exact I|eapply Hupd; [|exact Hg]; apply p_parents_rec_field].
  - (* record.add_parent *)
    destruct (cur_is S KRecord) as [r0|] eqn:Ec; [|discriminate]. rewrite (cur_is_cur_target _ _ _ Ec) in Har.
    cbn [option_map] in Har. destruct Har as (_ & Hg & _). apply N.ltb_lt in Hok.
    split; [apply Hpos; exact I|].
    intros r e1 He1 p Hin. rewrite Hg in He1. destruct (sid_eqb (KRecord, r0) (KRecord, r)) eqn:E.
    + apply sid_eqb_eq in E. inversion E. subst r0.
      destruct (get_entry S (KRecord, r)) as [e|] eqn:He; [|discriminate]. inversion He1. subst e1. cbn in Hin.
      destruct (e_payload e) eqn:Ep; cbn in Hin; try (eapply I2; [exact He|rewrite Ep; exact Hin]).
      apply in_app_or in Hin. destruct Hin as [Hin|[Hin|[]]]; [|subst; exact Hok].
      eapply I2; [exact He|rewrite Ep; exact Hin].
    + eapply I2; eassumption.
  - destruct (cur_is S KDefset) as [r0|] eqn:Ec; [|discriminate]. rewrite (cur_is_cur_target _ _ _ Ec) in Har.
    cbn [option_map] in Har. destruct Har as (_ & Hg & _).
    split; [apply Hpos; exact I|eapply Hother; [|exact Hg]; discriminate].
  - destruct (cur_is S KMulticlass) as [r0|] eqn:Ec; [|discriminate]. rewrite (cur_is_cur_target _ _ _ Ec) in Har.
    cbn [option_map] in Har. destruct Har as (_ & Hg & _).
    split; [apply Hpos; exact I|eapply Hother; [|exact Hg]; discriminate].
  - destruct (cur_is S KMulticlass) as [r0|] eqn:Ec; [|discriminate]. rewrite (cur_is_cur_target _ _ _ Ec) in Har.
    cbn [option_map] in Har. destruct Har as (_ & Hg & _).
    split; [apply Hpos; exact I|eapply Hother; [|exact Hg]; discriminate].
  - destruct (cur_is S KDefm) as [r0|] eqn:Ec; [|discriminate]. rewrite (cur_is_cur_target _ _ _ Ec) in Har.
    cbn [option_map] in Har. destruct Har as (_ & Hg & _).
    split; [apply Hpos; exact I|eapply Hother; [|exact Hg]; discriminate].
  - split; [apply Hpos; exact I|apply Hsame; exact Har].
Qed.

Theorem ids_run : forall ops, ops_ids_wf ops = true -> exists S, run_ops ops = SOk S /\ IdsInv S.
Proof.
  intros ops H. unfold run_ops, ops_ids_wf in *.
  apply (ops_ok_from_inv op_ids_ok IdsInv); [|apply ids_empty|exact H].
  intros S o S' HI Hok Hap. eapply ids_step; eassumption.
Qed.

(** the side conditions alone already exclude a failing op (no invariant needed) *)
Theorem ids_ops_never_fail : forall ops S, ops_ok_from op_ids_ok S ops = true -> exists S', run_ops_from S ops = SOk S'.
Proof.
  induction ops as [|o ops IH]; intros S H; cbn in *; [eauto|].
  apply andb_true_iff in H. destruct H as [Hok H].
  destruct (apply_op S o) as [S1|] eqn:E; [|discriminate]. cbn [sbind]. apply IH. exact H.
Qed.

(** ---- the read-only API never panics on such a state *)
Lemma find_symbol_at_ok : forall S f p, IdsInv S -> exists o, find_symbol_at S f p = SOk o.
Proof.
  intros S f p HI. unfold find_symbol_at. destruct (find_symbol_id_at S f p) as [s|] eqn:E; [|eauto].
  unfold find_symbol_id_at in E. pose proof (ids_pos _ HI f) as Hv. unfold posf in Hv.
  destruct (fmap_get (sm_pos S) f) as [m|]; [|discriminate].
  destruct (ivl_overlap_point m p) as [|[[lo hi] v] r] eqn:Eo; [discriminate|]. inversion E. subst v.
  assert (Hin : In (lo, hi, s) m).
  { assert (H : In (lo, hi, s) (ivl_overlap_point m p)) by (rewrite Eo; left; reflexivity).
    unfold ivl_overlap_point in H. apply filter_In in H. tauto. }
  apply Hv in Hin. apply get_entry_valid in Hin. destruct Hin as [e He]. unfold symbol. rewrite He. cbn. eauto.
Qed.

Theorem goto_definition_ok : forall S f p, IdsInv S -> exists o, goto_definition S f p = SOk o.
Proof. intros S f p HI. unfold goto_definition. destruct (find_symbol_at_ok S f p HI) as [o H]. rewrite H. cbn. eauto. Qed.
Theorem references_ok : forall S f p, IdsInv S -> exists o, references S f p = SOk o.
Proof. intros S f p HI. unfold references. destruct (find_symbol_at_ok S f p HI) as [o H]. rewrite H. cbn. eauto. Qed.

(** the guard of fix 751cf5a makes the range query total, for every state *)
Theorem iter_symbols_in_range_ok : forall S loc, exists o, iter_symbols_in_range S loc = SOk o.
Proof.
  intros S loc. unfold iter_symbols_in_range, iter_symbols_in_range_g. cbn [andb].
  destruct (fr_is_empty loc) eqn:E; [eauto|].
  destruct (fmap_get (sm_pos S) (fr_file loc)); [|eauto].
  unfold ivl_iter. unfold fr_is_empty in E. rewrite E. cbn. eauto.
Qed.
(** ... and without it the empty query panics in iset (defect D11) *)
Theorem iter_symbols_in_range_unguarded_panics :
  exists S loc, iter_symbols_in_range_g false S loc = SErr EIntervalEmpty.
Proof.
  exists (set_pos sm_empty [(0, [(6, 7, (KRecord, 0))])]), (mkFR 0 3 3). reflexivity.
Qed.

(** ---- recursion through parent_list *)
Lemma record_valid_lt : forall S r e, get_entry S (KRecord, r) = Some e -> r < next_id S KRecord.
Proof.
  intros S r e H. assert (Hv : valid_id S (fst (KRecord, r)) (snd (KRecord, r)) = true) by (apply get_entry_valid; eauto).
  unfold valid_id in Hv. apply N.ltb_lt in Hv. exact Hv.
Qed.

Lemma parents_valid : forall S r e p, IdsInv S -> get_entry S (KRecord, r) = Some e -> In p (p_parents (e_payload e)) ->
  exists e', get_entry S (KRecord, p) = Some e'.
Proof.
  intros S r e p HI He Hin. pose proof (ids_parents _ HI _ _ He _ Hin) as Hlt.
  pose proof (record_valid_lt _ _ _ He) as Hr.
  apply (get_entry_valid S (KRecord, p)). unfold valid_id. cbn. apply N.ltb_lt. lia.
Qed.

Theorem find_field_ok : forall S n, IdsInv S ->
  forall fuel r e, get_entry S (KRecord, r) = Some e -> (N.to_nat r < fuel)%nat ->
  exists o, find_field fuel S r n = SOk o.
Proof.
  intros S n HI. induction fuel as [|fuel IH]; intros r e He Hf; [lia|].
  cbn [find_field]. unfold record, symbol. rewrite He. cbn [sbind].
  destruct (amap_get (p_fields (e_payload e)) n); [eauto|].
  assert (Hps : forall p, In p (p_parents (e_payload e)) -> exists o, find_field fuel S p n = SOk o).
  { intros p Hin. destruct (parents_valid _ _ _ _ HI He Hin) as [e' He'].
    pose proof (ids_parents _ HI _ _ He _ Hin) as Hlt. eapply IH; [exact He'|lia]. }
  induction (p_parents (e_payload e)) as [|p ps IHps]; [eauto|].
  destruct (Hps p (or_introl eq_refl)) as [o Ho]. rewrite Ho. destruct o; [eauto|].
  apply IHps. intros q Hq. apply Hps. right. exact Hq.
Qed.

Theorem is_subclass_of_ok : forall S other, IdsInv S ->
  forall fuel r e, get_entry S (KRecord, r) = Some e -> (N.to_nat r < fuel)%nat ->
  exists b, is_subclass_of fuel S r other = SOk b.
Proof.
  intros S other HI. induction fuel as [|fuel IH]; intros r e He Hf; [lia|].
  cbn [is_subclass_of]. unfold record, symbol. rewrite He. cbn [sbind].
  destruct (existsb (N.eqb other) (p_parents (e_payload e))); [eauto|].
  assert (Hps : forall p, In p (p_parents (e_payload e)) -> exists b, is_subclass_of fuel S p other = SOk b).
  { intros p Hin. destruct (parents_valid _ _ _ _ HI He Hin) as [e' He'].
    pose proof (ids_parents _ HI _ _ He _ Hin) as Hlt. eapply IH; [exact He'|lia]. }
  induction (p_parents (e_payload e)) as [|p ps IHps]; [eauto|].
  destruct (Hps p (or_introl eq_refl)) as [b Hb]. rewrite Hb. destruct b; [eauto|].
  apply IHps. intros q Hq. apply Hps. right. exact Hq.
Qed.

(** fuel = number of records is enough for every record *)
Lemma fuel_records : forall S r e, get_entry S (KRecord, r) = Some e -> (N.to_nat r < length (sm_records S))%nat.
Proof.
  intros S r e H. apply record_valid_lt in H. unfold next_id, len_N in H. cbn [get_arena] in H. lia.
Qed.

(** ---- the statement of props/C03.v *)
Theorem c03_symbol_map_total : forall ops,
  ops_ids_wf ops = true ->
  exists S, run_ops ops = SOk S /\
    (forall f p, exists o, find_symbol_at S f p = SOk o) /\
    (forall f p, exists o, goto_definition S f p = SOk o) /\
    (forall f p, exists o, references S f p = SOk o) /\
    (forall loc, exists o, iter_symbols_in_range S loc = SOk o) /\
    (forall r n, r < next_id S KRecord -> exists o, find_field (length (sm_records S)) S r n = SOk o) /\
    (forall r other, r < next_id S KRecord -> exists b, is_subclass_of (length (sm_records S)) S r other = SOk b).
Proof.
  intros ops H. destruct (ids_run ops H) as (S & Hr & HI). exists S. split; [exact Hr|].
  split; [intros; apply find_symbol_at_ok; exact HI|].
  split; [intros; apply goto_definition_ok; exact HI|].
  split; [intros; apply references_ok; exact HI|].
  split; [intros; apply iter_symbols_in_range_ok|].
  split.
  - intros r n Hr'. assert (Hv : valid_id S (fst (KRecord, r)) (snd (KRecord, r)) = true) by (unfold valid_id; cbn; apply N.ltb_lt; exact Hr').
    apply get_entry_valid in Hv. destruct Hv as [e He]. eapply find_field_ok; [exact HI|exact He|eapply fuel_records; exact He].
  - intros r other Hr'. assert (Hv : valid_id S (fst (KRecord, r)) (snd (KRecord, r)) = true) by (unfold valid_id; cbn; apply N.ltb_lt; exact Hr').
    apply get_entry_valid in Hv. destruct Hv as [e He]. eapply is_subclass_of_ok; [exact HI|exact He|eapply fuel_records; exact He].
Qed.

(** ---- the guard of fix fb9cd66 is needed: the log of `class A : A { int x = y; }` without it (the class is
    its own parent) makes the field lookup diverge: no fuel is enough (defect D3: stack overflow) *)
Definition d3_ops : list op :=
  [ OpAddRecord [65] RKClass (mkFR 0 6 7) true 0;
    OpAddReference (KRecord, 0) (mkFR 0 10 11); OpRecordMut 0; OpRecordMut 0; OpRecAddParent 0 ].

Theorem c03_self_parent_diverges :
  ops_ids_wf d3_ops = false /\
  exists S, run_ops d3_ops = SOk S /\ forall fuel, find_field fuel S 0 [121] = SErr EOutOfFuel.
Proof.
  split; [vm_compute; reflexivity|]. eexists. split; [vm_compute; reflexivity|].
  induction fuel as [|fuel IH]; [reflexivity|].
  cbn [find_field]. unfold record, symbol, get_entry, nth_N. cbn. rewrite IH. reflexivity.
Qed.

(** non-vacuity: the log of  class A; class B : A; class A : B;  (mutual recursion is impossible: the second
    `class A` is a new record, older records are never given younger parents) *)
Definition c03_ex_ops : list op :=
  [ OpAddRecord [65] RKClass (mkFR 0 6 7) true 0;
    OpAddRecord [66] RKClass (mkFR 0 15 16) true 1;
    OpAddReference (KRecord, 0) (mkFR 0 19 20); OpRecordMut 0; OpRecordMut 1; OpRecAddParent 0;
    OpAddRecord [65] RKClass (mkFR 0 28 29) true 2;
    OpAddReference (KRecord, 1) (mkFR 0 32 33); OpRecordMut 1; OpRecordMut 2; OpRecAddParent 1 ].
Example c03_ex : ops_ids_wf c03_ex_ops = true /\
  exists S, run_ops c03_ex_ops = SOk S /\ record_parents S 2 = [1] /\ record_parents S 1 = [0] /\ record_parents S 0 = [] /\
            is_subclass_of 3 S 2 0 = SOk true /\ is_subclass_of 3 S 0 2 = SOk false.
Proof. split; [vm_compute; reflexivity|]. eexists. split; [vm_compute; reflexivity|]. vm_compute. repeat split; reflexivity. Qed.
