(** C18, source level (single file): the global declarations the indexer slice registers are, in order, a SUBSEQUENCE of
    the class / named def (outside a defset) / defset / multiclass statements of the program in source preorder, each with
    its name and the range of its declaring identifier -- nothing foreign, nothing twice, nothing out of order; hence they
    are ALL of them whenever the counts agree (a per-program condition the check evaluates). *)
From Coq Require Import List NArith Bool Lia.
From TG.Model Require Import Chars CoreAst SymbolMap Outline OutlineIndex OutlineSpec.
From TG.Proofs Require Import OutlineProofs SymbolMapBasics SymbolOps OutlineIndexProofs.
Import ListNotations.
Open Scope N_scope.

(** ---- subsequences ---- *)
Inductive subseq {A : Type} : list A -> list A -> Prop :=
| ss_nil : forall l, subseq [] l
| ss_keep : forall x l1 l2, subseq l1 l2 -> subseq (x :: l1) (x :: l2)
| ss_skip : forall x l1 l2, subseq l1 l2 -> subseq l1 (x :: l2).

Lemma subseq_refl : forall (A : Type) (l : list A), subseq l l.
Proof. induction l; constructor; auto. Qed.

Lemma subseq_app : forall (A : Type) (a1 a2 b1 b2 : list A), subseq a1 a2 -> subseq b1 b2 -> subseq (a1 ++ b1) (a2 ++ b2).
Proof.
  intros A a1 a2 b1 b2 Ha Hb. induction Ha as [l|x l1 l2 _ IH|x l1 l2 _ IH]; cbn [app].
  - induction l as [|y l IHl]; cbn [app]; [exact Hb|now constructor].
  - now constructor.
  - now constructor.
Qed.

Lemma subseq_length : forall (A : Type) (l1 l2 : list A), subseq l1 l2 -> (length l1 <= length l2)%nat.
Proof. induction 1; cbn [length]; lia. Qed.

Lemma subseq_same_length : forall (A : Type) (l1 l2 : list A), subseq l1 l2 -> length l1 = length l2 -> l1 = l2.
Proof.
  induction 1 as [l|x l1 l2 H IH|x l1 l2 H IH]; cbn [length]; intros E.
  - destruct l; [reflexivity|discriminate].
  - f_equal. apply IH. lia.
  - apply subseq_length in H. lia.
Qed.

(** ---- the emitted declarations of a state ---- *)
Definition E (s : ostate) : list decl := ops_decls (rev (oi_ops s)).

Lemma ops_decls_app : forall a b, ops_decls (a ++ b) = ops_decls a ++ ops_decls b.
Proof. intros. unfold ops_decls. apply flat_map_app. Qed.

Lemma E_emit : forall o s, E (emit o s) = E s \/ (oi_bad s = false /\ E (emit o s) = E s ++ op_decl o).
Proof.
  intros o s. unfold emit. destruct (oi_bad s) eqn:B; [now left|].
  destruct (apply_op (oi_sm s) o); [|now left]. right. split; [reflexivity|].
  unfold E. cbn [set_sm_ops oi_ops rev]. rewrite ops_decls_app. cbn [ops_decls flat_map]. now rewrite app_nil_r.
Qed.

Lemma E_emit_silent : forall o s, op_decl o = [] -> E (emit o s) = E s.
Proof. intros o s H. destruct (E_emit o s) as [H1|[_ H1]]; rewrite H1; [reflexivity|]. rewrite H. apply app_nil_r. Qed.

(** frame facts of [emit] *)
Lemma emit_scopes : forall o s, oi_scopes (emit o s) = oi_scopes s.
Proof. intros o s. unfold emit. destruct (oi_bad s); [reflexivity|]. destruct (apply_op _ _); reflexivity. Qed.
Lemma emit_trace : forall o s, oi_trace (emit o s) = oi_trace s.
Proof. intros o s. unfold emit. destruct (oi_bad s); [reflexivity|]. destruct (apply_op _ _); reflexivity. Qed.

(** ---- the invariant: every defset on the scope stack is an allocated defset declared in the current file ---- *)
Definition dset_ok (sm : symbol_map) (f : N) (d : N) : Prop :=
  exists de, get_entry sm (KDefset, d) = Some de /\ fr_file (e_def de) = f.
Fixpoint scopes_ok (sm : symbol_map) (f : N) (l : list oscope) : Prop :=
  match l with
  | [] => True
  | ODefset d :: r => dset_ok sm f d /\ scopes_ok sm f r
  | _ :: r => scopes_ok sm f r
  end.
Definition inv (s : ostate) : Prop := oi_bad s = false -> scopes_ok (oi_sm s) (cur_file s) (oi_scopes s).

Lemma entry_def_preserved : forall S o S' s e, apply_op S o = SOk S' -> get_entry S s = Some e ->
  exists e', get_entry S' s = Some e' /\ e_def e' = e_def e.
Proof.
  intros S o S' s e H He. apply apply_op_spec in H. destruct H as (Ha & _ & _). unfold arenas_after in Ha.
  destruct (op_alloc o) as [[[k e0] keyed]|].
  - destruct Ha as (Hg & _). rewrite Hg.
    destruct (sid_eqb s (k, next_id S k)) eqn:Q.
    + exfalso. apply sid_eqb_eq in Q. subst s. unfold get_entry in He. cbn [fst snd] in He.
      assert (next_id S k < len_N (get_arena S k)) as Hlt by (apply nth_N_some_lt; eauto).
      unfold next_id in Hlt. lia.
    + eauto.
  - destruct (op_update S o) as [[t g]|] eqn:Eu.
    + destruct Ha as (_ & Hg & _). rewrite Hg. destruct (sid_eqb t s); [|eauto].
      rewrite He. cbn [option_map]. eexists. split; [reflexivity|].
      destruct o; cbn [op_update] in Eu; try discriminate;
        try (destruct (cur_target S _); [|discriminate]; cbn [option_map] in Eu; injection Eu as _ <-);
        try (injection Eu as _ <-); reflexivity.
    + rewrite (same_arenas_get_entry _ _ s Ha). eauto.
Qed.

Lemma scopes_ok_preserved : forall S o S' f l, apply_op S o = SOk S' -> scopes_ok S f l -> scopes_ok S' f l.
Proof.
  intros S o S' f l H. induction l as [|k l IH]; intros Hs; [exact I|].
  destruct k; cbn [scopes_ok] in *; auto. destruct Hs as [(de & Hd & Hf) Hr]. split; [|auto].
  destruct (entry_def_preserved _ _ _ _ _ H Hd) as (de' & H1 & H2). exists de'. split; [exact H1|congruence].
Qed.

Lemma inv_emit : forall o s, inv s -> inv (emit o s).
Proof.
  intros o s H. unfold emit. destruct (oi_bad s) eqn:B; [exact H|].
  destruct (apply_op (oi_sm s) o) as [sm'|e] eqn:Ea.
  - intros _. cbn. eapply scopes_ok_preserved; [exact Ea|]. now apply H.
  - intros Hb. cbn in Hb. discriminate.
Qed.

Lemma inv_push_other : forall k s, (forall d, k <> ODefset d) -> inv s -> inv (push_scope k s).
Proof.
  intros k s Hk H Hb. cbn in *. destruct k; try (now apply H). exfalso. now apply (Hk id).
Qed.

Lemma inv_pop : forall s, inv s -> inv (pop_scope s).
Proof.
  intros s H Hb. cbn in *. specialize (H Hb). destruct (oi_scopes s) as [|k r]; [exact I|].
  destruct k; cbn [scopes_ok tl] in *; tauto.
Qed.

(** a statement transformer that registers no declaration and keeps the stack / file / invariant *)
Definition silent (f : ostate -> ostate) : Prop :=
  forall s, E (f s) = E s /\ oi_scopes (f s) = oi_scopes s /\ oi_trace (f s) = oi_trace s /\ (inv s -> inv (f s)).

Lemma silent_emit : forall o, op_decl o = [] -> silent (emit o).
Proof.
  intros o H s. split; [now apply E_emit_silent|]. split; [apply emit_scopes|]. split; [apply emit_trace|apply inv_emit].
Qed.

Lemma silent_id : silent (fun s => s).
Proof. intros s. auto. Qed.

Lemma silent_comp : forall f g, silent f -> silent g -> silent (fun s => g (f s)).
Proof.
  intros f g Hf Hg s. destruct (Hf s) as (A1 & A2 & A3 & A4). destruct (Hg (f s)) as (B1 & B2 & B3 & B4).
  repeat split; try congruence. auto.
Qed.

Lemma silent_set_bad : silent set_bad.
Proof. intros s. repeat split; auto. intros _ Hb. cbn in Hb. discriminate. Qed.

Lemma silent_fold : forall (A : Type) (f : A -> ostate -> ostate) (l : list A),
  (forall a, silent (f a)) -> silent (fun s => fold_left (fun st a => f a st) l s).
Proof.
  intros A f l Hf. induction l as [|a l IH]; cbn [fold_left]; [apply silent_id|].
  apply (silent_comp (f a) (fun s => fold_left (fun st a0 => f a0 st) l s)); auto.
Qed.

Lemma silent_index_targ : forall a, silent (index_targ a).
Proof.
  intros [t i d] s. unfold index_targ. destruct (ty_string (oi_sm s) t) as [typ|]; [|apply silent_id].
  set (s1 := emit _ s).
  assert (silent (emit (OpAddTemplateArg (i_name i) typ (loc_of s (i_rng i)) (next_id (oi_sm s) KTemplateArg)))) as H1
    by (apply silent_emit; reflexivity).
  destruct (first_record (oi_scopes s1)) as [rid|].
  - apply (silent_comp _ (fun x => emit (OpRecAddTemplateArg (i_name i) _) (emit (OpRecordMut rid) x)) H1).
    apply (silent_comp (emit (OpRecordMut rid)) (emit _)); apply silent_emit; reflexivity.
  - destruct (first_multiclass (oi_scopes s1)) as [mid|].
    + apply (silent_comp _ (fun x => emit (OpMcAddTemplateArg (i_name i) _) (emit (OpMulticlassMut mid) x)) H1).
      apply (silent_comp (emit (OpMulticlassMut mid)) (emit _)); apply silent_emit; reflexivity.
    + apply (silent_comp _ set_bad H1). apply silent_set_bad.
Qed.

Lemma silent_index_parent : forall rid c, silent (index_parent rid c).
Proof.
  intros rid [i a r] s. unfold index_parent. destruct (find_class (oi_sm s) (i_name i)) as [cid|]; [|apply silent_id].
  destruct (cid =? rid); [apply silent_id|].
  apply (silent_comp (emit (OpRecordMut rid)) (emit (OpRecAddParent cid))); apply silent_emit; reflexivity.
Qed.

Lemma silent_index_item : forall rid it, silent (index_item rid it).
Proof.
  intros rid it s. destruct it; cbn [index_item]; try apply silent_id.
  - destruct (ty_string (oi_sm s) t) as [typ|]; [|apply silent_id].
    apply (silent_comp (emit _) (fun x => emit (OpRecAddField (i_name i) _) (emit (OpRecordMut rid) x)));
      [apply silent_emit; reflexivity|].
    apply (silent_comp (emit (OpRecordMut rid)) (emit _)); apply silent_emit; reflexivity.
  - destruct (find_field _ _ _ _) as [[f0|]|e]; [|apply silent_id|apply silent_set_bad].
    destruct (get_entry _ _) as [fe|]; [|apply silent_set_bad].
    apply (silent_comp (emit _) (fun x => emit (OpRecAddField (i_name i) _) (emit (OpRecordMut rid) x)));
      [apply silent_emit; reflexivity|].
    apply (silent_comp (emit (OpRecordMut rid)) (emit _)); apply silent_emit; reflexivity.
Qed.

Lemma silent_record_body : forall rid ps b, silent (index_record_body rid ps b).
Proof.
  intros rid ps b. unfold index_record_body.
  apply (silent_comp (fun s => fold_left (fun st c => index_parent rid c st) ps s)
                     (fun s => fold_left (fun st it => index_item rid it st) b s)).
  - apply (silent_fold _ (fun c st => index_parent rid c st)). intros; apply silent_index_parent.
  - apply (silent_fold _ (fun it st => index_item rid it st)). intros; apply silent_index_item.
Qed.

(** ---- statements ---- *)
Definition in_dset (s : ostate) : bool :=
  match first_defset (oi_scopes s) with Some _ => true | None => false end.

Definition stmt_ok (f : ostate -> ostate) (D : bool -> list decl) : Prop :=
  forall s, inv s ->
    inv (f s) /\ oi_scopes (f s) = oi_scopes s /\ oi_trace (f s) = oi_trace s /\
    exists d, E (f s) = E s ++ d /\ subseq d (D (in_dset s)).

Lemma silent_stmt_ok : forall f D, silent f -> stmt_ok f D.
Proof.
  intros f D Hf s Hi. destruct (Hf s) as (A1 & A2 & A3 & A4). repeat split; auto.
  exists []. rewrite app_nil_r. split; [exact A1|constructor].
Qed.

Lemma stmts_ok : forall (g : stmt -> ostate -> ostate) (b : list stmt),
  (forall y, no_include y = true -> stmt_ok (g y) (fun bb => stmt_decls bb y)) ->
  forallb no_include b = true ->
  stmt_ok (fun s => fold_left (fun a y => g y a) b s) (fun bb => flat_map (stmt_decls bb) b).
Proof.
  intros g b Hg. induction b as [|y b IH]; intros Hb s Hi; cbn [fold_left flat_map].
  - repeat split; auto. exists []. rewrite app_nil_r. split; [reflexivity|constructor].
  - cbn [forallb] in Hb. apply andb_prop in Hb. destruct Hb as [Hy Hb].
    destruct (Hg y Hy s Hi) as (I1 & S1 & T1 & d1 & E1 & Q1).
    destruct (IH Hb (g y s) I1) as (I2 & S2 & T2 & d2 & E2 & Q2).
    repeat split; [exact I2|congruence|congruence|].
    exists (d1 ++ d2). split; [rewrite E2, E1; now rewrite app_assoc|].
    apply subseq_app; [exact Q1|]. unfold in_dset in *. now rewrite S1 in Q2.
Qed.

Lemma inv_set_anon : forall s a, inv s -> inv (set_anon s a).
Proof. intros s a H. exact H. Qed.

Lemma silent_set_anon : forall a, silent (fun s => set_anon s a).
Proof. intros a s. repeat split; auto. Qed.

Lemma add_defset_entry : forall S n typ loc id S', apply_op S (OpAddDefset n typ loc id) = SOk S' ->
  exists e, get_entry S' (KDefset, next_id S KDefset) = Some e /\ e_def e = loc.
Proof.
  intros S n typ loc id S' H. apply apply_op_spec in H. destruct H as (Ha & _ & _). unfold arenas_after in Ha.
  cbn [op_alloc] in Ha. destruct Ha as (Hg & _). rewrite Hg.
  assert (sid_eqb (KDefset, next_id S KDefset) (KDefset, next_id S KDefset) = true) as -> by (now apply sid_eqb_eq).
  eexists. split; reflexivity.
Qed.

(** a block: push a non-defset scope, run the statements, pop *)
Lemma block_ok : forall (g : stmt -> ostate -> ostate) k b,
  (forall d, k <> ODefset d) ->
  (forall y, no_include y = true -> stmt_ok (g y) (fun bb => stmt_decls bb y)) ->
  forallb no_include b = true ->
  stmt_ok (fun s => pop_scope (fold_left (fun a y => g y a) b (push_scope k s))) (fun bb => flat_map (stmt_decls bb) b).
Proof.
  intros g k b Hk Hg Hb s Hi.
  destruct (stmts_ok g b Hg Hb (push_scope k s) (inv_push_other k s Hk Hi)) as (I1 & S1 & T1 & d & E1 & Q1).
  repeat split.
  - now apply inv_pop.
  - cbn [pop_scope set_scopes oi_scopes]. rewrite S1. reflexivity.
  - cbn. exact T1.
  - exists d. split; [exact E1|].
    assert (in_dset (push_scope k s) = in_dset s) as <-; [|exact Q1].
    unfold in_dset. cbn. destruct k; try reflexivity. exfalso. now apply (Hk id).
Qed.

Theorem index_stmt_ok : forall files fuel x, no_include x = true ->
  stmt_ok (index_stmt files fuel x) (fun bb => stmt_decls bb x).
Proof.
  intros files. induction fuel as [|n IH]; intros x Hx.
  - cbn [index_stmt]. apply silent_stmt_ok, silent_set_bad.
  - destruct x; cbn [index_stmt no_include] in *; try discriminate.
    + (* assert *) apply silent_stmt_ok, silent_id.
    + (* class *)
      intros s Hi.
      set (o := OpAddRecord (i_name i) RKClass (loc_of s (i_rng i)) true (next_id (oi_sm s) KRecord)).
      set (rid := next_id (oi_sm s) KRecord).
      assert (silent (fun st => index_record_body rid parents body
                (match targs with Some l => fold_left (fun a t => index_targ t a) l st | None => st end))) as Hs.
      { apply (silent_comp (fun st => match targs with Some l => fold_left (fun a t => index_targ t a) l st | None => st end)
                           (index_record_body rid parents body)); [|apply silent_record_body].
        destruct targs as [l|]; [|apply silent_id].
        apply (silent_fold _ (fun t a => index_targ t a)). intros; apply silent_index_targ. }
      destruct (Hs (push_scope (ORecord rid) (emit o s))) as (A1 & A2 & A3 & A4).
      repeat split.
      * apply inv_pop, A4, inv_push_other; [discriminate|now apply inv_emit].
      * cbn [pop_scope set_scopes oi_scopes]. rewrite A2. cbn. apply emit_scopes.
      * cbn. rewrite A3. cbn. apply emit_trace.
      * change (E (pop_scope ?z)) with (E z). rewrite A1. change (E (push_scope ?k ?z)) with (E z).
        destruct (E_emit o s) as [H1|[_ H1]]; rewrite H1.
        -- exists []. rewrite app_nil_r. split; [reflexivity|constructor].
        -- eexists. split; [reflexivity|]. cbn. apply subseq_refl.
    + (* def *)
      intros s Hi.
      set (rid := next_id (oi_sm s) KRecord).
      destruct nm as [v|].
      * destruct (value_first_ident v) as [i|] eqn:Ev.
        2:{ repeat split; auto. exists []. rewrite app_nil_r. split; [reflexivity|constructor]. }
        set (same_file := match first_defset (oi_scopes s) with
                          | Some d => match get_entry (oi_sm s) (KDefset, d) with
                                      | Some de => fr_file (e_def de) =? cur_file s | None => false end
                          | None => false end).
        set (o := OpAddRecord (i_name i) RKDef (loc_of s (i_rng i)) (negb same_file) rid).
        set (s2 := match first_defset (oi_scopes s) with
                   | Some d => emit (OpDefsetAddDef rid) (emit (OpDefsetMut d) (emit o s))
                   | None => emit o s end).
        assert (E s2 = E (emit o s) /\ oi_scopes s2 = oi_scopes s /\ oi_trace s2 = oi_trace s /\ inv s2) as (B1 & B2 & B3 & B4).
        { unfold s2. destruct (first_defset (oi_scopes s)).
          - rewrite !E_emit_silent by reflexivity. rewrite !emit_scopes, !emit_trace. repeat split; auto using inv_emit.
          - rewrite emit_scopes, emit_trace. repeat split; auto using inv_emit. }
        destruct (silent_record_body rid parents body (push_scope (ORecord rid) s2)) as (A1 & A2 & A3 & A4).
        repeat split.
        -- apply inv_pop, A4, inv_push_other; [discriminate|exact B4].
        -- cbn [pop_scope set_scopes oi_scopes]. rewrite A2. cbn. exact B2.
        -- cbn. rewrite A3. cbn. exact B3.
        -- change (E (pop_scope ?z)) with (E z). rewrite A1. change (E (push_scope ?k ?z)) with (E z). rewrite B1.
           destruct (E_emit o s) as [H1|[Hb H1]]; rewrite H1.
           ++ exists []. rewrite app_nil_r. split; [reflexivity|constructor].
           ++ eexists. split; [reflexivity|]. unfold in_dset, o. cbn [op_decl stmt_decls]. rewrite Ev.
              specialize (Hi Hb). unfold same_file.
              destruct (first_defset (oi_scopes s)) as [d|] eqn:Fd.
              ** assert (dset_ok (oi_sm s) (cur_file s) d) as (de & Hd & Hf).
                 { clear - Hi Fd. induction (oi_scopes s) as [|k l IHl]; [discriminate|].
                   destruct k; cbn [first_defset scopes_ok] in *; auto. injection Fd as <-. tauto. }
                 rewrite Hd, Hf, N.eqb_refl. cbn. constructor.
              ** cbn. apply subseq_refl.
      * (* anonymous *)
        set (o := OpAddAnonymousDef (anonymous_name (oi_anon s)) (loc_of s r) rid).
        set (s1 := emit o (set_anon s (oi_anon s + 1))).
        set (s2 := match first_defset (oi_scopes s) with
                   | Some d => emit (OpDefsetAddDef rid) (emit (OpDefsetMut d) s1)
                   | None => s1 end).
        assert (E s2 = E s /\ oi_scopes s2 = oi_scopes s /\ oi_trace s2 = oi_trace s /\ inv s2) as (B1 & B2 & B3 & B4).
        { unfold s2, s1. destruct (first_defset (oi_scopes s)).
          - rewrite !E_emit_silent by reflexivity. rewrite !emit_scopes, !emit_trace.
            repeat split; auto using inv_emit, inv_set_anon.
          - rewrite E_emit_silent by reflexivity. rewrite emit_scopes, emit_trace.
            repeat split; auto using inv_emit, inv_set_anon. }
        destruct (silent_record_body rid parents body (push_scope (ORecord rid) s2)) as (A1 & A2 & A3 & A4).
        repeat split.
        -- apply inv_pop, A4, inv_push_other; [discriminate|exact B4].
        -- cbn [pop_scope set_scopes oi_scopes]. rewrite A2. cbn. exact B2.
        -- cbn. rewrite A3. cbn. exact B3.
        -- change (E (pop_scope ?z)) with (E z). rewrite A1. change (E (push_scope ?k ?z)) with (E z). rewrite B1.
           exists []. rewrite app_nil_r. split; [reflexivity|constructor].
    + (* defm *) destruct nm; apply silent_stmt_ok; [apply silent_id|]. intros s. repeat split; auto.
    + (* defset *)
      intros s Hi. destruct (ty_string (oi_sm s) t) as [typ|].
      2:{ repeat split; auto. exists []. rewrite app_nil_r. split; [reflexivity|constructor]. }
      set (did := next_id (oi_sm s) KDefset).
      set (o := OpAddDefset (i_name i) typ (loc_of s (i_rng i)) did).
      assert (inv (push_scope (ODefset did) (emit o s))) as Hp.
      { intros Hb. cbn [push_scope set_scopes oi_scopes oi_sm oi_bad scopes_ok] in *.
        unfold emit in *. destruct (oi_bad s) eqn:B; [cbn in Hb; congruence|].
        destruct (apply_op (oi_sm s) o) as [sm'|e] eqn:Ea; [|cbn in Hb; discriminate].
        cbn. split.
        - destruct (add_defset_entry _ _ _ _ _ _ Ea) as (de & H1 & H2). exists de. split; [exact H1|]. now rewrite H2.
        - eapply scopes_ok_preserved; [exact Ea|]. now apply Hi. }
      destruct (stmts_ok (index_stmt files n) body (fun y Hy => IH y Hy) Hx _ Hp) as (I1 & S1 & T1 & d & E1 & Q1).
      repeat split.
      * now apply inv_pop.
      * cbn [pop_scope set_scopes oi_scopes]. rewrite S1. cbn. apply emit_scopes.
      * cbn. rewrite T1. cbn. apply emit_trace.
      * change (E (pop_scope ?z)) with (E z). rewrite E1. change (E (push_scope ?k ?z)) with (E z).
        assert (in_dset (push_scope (ODefset did) (emit o s)) = true) as Hd by reflexivity. rewrite Hd in Q1.
        destruct (E_emit o s) as [H1|[_ H1]]; rewrite H1.
        -- exists d. split; [reflexivity|]. now constructor.
        -- exists (op_decl o ++ d). split; [now rewrite app_assoc|]. cbn. now constructor.
    + (* defvar *) apply silent_stmt_ok, silent_id.
    + (* dump *) apply silent_stmt_ok, silent_id.
    + (* foreach *) apply block_ok; [discriminate|exact (fun y Hy => IH y Hy)|exact Hx].
    + (* if *)
      apply andb_prop in Hx. destruct Hx as [Hth Hel].
      intros s Hi.
      destruct (block_ok (index_stmt files n) OBlock th ltac:(discriminate) (fun y Hy => IH y Hy) Hth s Hi)
        as (I1 & S1 & T1 & d1 & E1 & Q1).
      destruct el as [e|].
      * destruct (block_ok (index_stmt files n) OBlock e ltac:(discriminate) (fun y Hy => IH y Hy) Hel _ I1)
          as (I2 & S2 & T2 & d2 & E2 & Q2).
        repeat split; [exact I2|congruence|congruence|].
        exists (d1 ++ d2). split; [rewrite E2, E1; now rewrite app_assoc|].
        apply subseq_app; [exact Q1|]. unfold in_dset in *. now rewrite S1 in Q2.
      * repeat split; auto. exists d1. split; [exact E1|]. cbn [stmt_decls]. rewrite app_nil_r. exact Q1.
    + (* let *) apply block_ok; [discriminate|exact (fun y Hy => IH y Hy)|exact Hx].
    + (* multiclass *)
      intros s Hi.
      set (mid := next_id (oi_sm s) KMulticlass).
      set (o := OpAddMulticlass (i_name i) (loc_of s (i_rng i)) mid).
      assert (silent (fun st => match targs with Some l => fold_left (fun a t => index_targ t a) l st | None => st end)) as Hs.
      { destruct targs as [l|]; [|apply silent_id].
        apply (silent_fold _ (fun t a => index_targ t a)). intros; apply silent_index_targ. }
      destruct (Hs (push_scope (OMulticlass mid) (emit o s))) as (A1 & A2 & A3 & A4).
      assert (inv (push_scope (OMulticlass mid) (emit o s))) as Hp
        by (apply inv_push_other; [discriminate|now apply inv_emit]).
      destruct (stmts_ok (index_stmt files n) body (fun y Hy => IH y Hy) Hx _ (A4 Hp)) as (I1 & S1 & T1 & d & E1 & Q1).
      repeat split.
      * now apply inv_pop.
      * cbn [pop_scope set_scopes oi_scopes]. rewrite S1, A2. cbn. apply emit_scopes.
      * cbn. rewrite T1, A3. cbn. apply emit_trace.
      * change (E (pop_scope ?z)) with (E z). rewrite E1, A1. change (E (push_scope ?k ?z)) with (E z).
        assert (in_dset (match targs with Some l => fold_left (fun a t => index_targ t a) l (push_scope (OMulticlass mid) (emit o s))
                         | None => push_scope (OMulticlass mid) (emit o s) end) = in_dset s) as Hd.
        { unfold in_dset. rewrite A2. cbn. now rewrite emit_scopes. }
        rewrite Hd in Q1.
        destruct (E_emit o s) as [H1|[_ H1]]; rewrite H1.
        -- exists d. split; [reflexivity|]. now constructor.
        -- exists (op_decl o ++ d). split; [now rewrite app_assoc|]. cbn. now constructor.
Qed.

(** ---- the theorem: for every single-file program without include statements ---- *)
Theorem outline_source_subseq : forall root perrs,
  forallb no_include root = true ->
  subseq (ops_decls (oix_ops (mkWs [root] perrs))) (program_decls root).
Proof.
  intros root perrs Hn. unfold oix_ops, oix. cbn [ws_files].
  destruct (stmts_ok (index_stmt [root] (ws_fuel (mkWs [root] perrs))) root
              (fun y Hy => index_stmt_ok _ _ y Hy) Hn o0) as (_ & _ & _ & d & E1 & Q1).
  { intros _. exact I. }
  unfold E in E1. cbn [o0 oi_ops rev ops_decls flat_map app] in E1. rewrite E1. exact Q1.
Qed.

Corollary outline_source_complete : forall root perrs,
  forallb no_include root = true ->
  List.length (ops_decls (oix_ops (mkWs [root] perrs))) = List.length (program_decls root) ->
  ops_decls (oix_ops (mkWs [root] perrs)) = program_decls root.
Proof. intros root perrs Hn Hl. apply subseq_same_length; [now apply outline_source_subseq|exact Hl]. Qed.
