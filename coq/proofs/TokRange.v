(** Completeness direction for RangeList ::= RangePiece ( "," RangePiece )*  (a Kleene star: induction on the number of
    pieces over the `while !eof { range_piece; if !eat_if(,) break }` loop) and RangeSuffix ::= "{" RangeList "}". *)
From Coq Require Import List NArith Bool Lia PeanoNat Arith String.
From TG.Gen Require Import GenTokens GenGrammar GenDocGrammar.
From TG.Model Require Import Chars Lexer Prep Tree ParserPrims GInterp DocGrammar GramAbs GramCert TokSem.
From TG.Proofs Require Import GramRx GramSound TokRefine TokFrame TokComplete TokType.
Import ListNotations.
Close Scope string_scope.
Close Scope N_scope.
Open Scope nat_scope.
Open Scope list_scope.

Definition f_range_list : nat := 45.
Definition f_range_suffix : nat := 44.
Lemma range_fn_names : fn_name f_range_list = "range_list"%string /\ fn_name f_range_suffix = "range_suffix"%string.
Proof. split; reflexivity. Qed.
Definition nt_RangePiece : nat := match nt_index "RangePiece"%string with Some n => n | None => 0 end.
Definition nt_RangeList : nat := match nt_index "RangeList"%string with Some n => n | None => 0 end.
Definition nt_RangeSuffix : nat := match nt_index "RangeSuffix"%string with Some n => n | None => 0 end.

(** the loop of range_list and its two parts *)
Definition rl_cond : expr := ENot (EPrim (PAtSet [T_Eof])).
Definition rl_body : expr := ESeq (ECall 46 None) (EIf (ENot (EPrim (PEatIf T_Comma))) EBreak (EB true)).
Definition rl_loop : expr := EWhile rl_cond rl_body.
Lemma body_range_list : fn_body grammar_prog f_range_list =
  Some (ESeq (EPrim (PStartNode S_RangeList)) (ESeq rl_loop (ESeq (EPrim PFinishNode) (EB true)))).
Proof. reflexivity. Qed.

Definition piece_words : list word :=
  match enum doc_rules_must efuel (RSym (DNT nt_RangePiece)) with Some ws => ws | None => [] end.
(** followers of a whole range list: not a comma, and not what would continue the last piece *)
Definition rl_followers : list TokenKind :=
  filter (fun k => negb (existsb (tk_eqb k) [T_Comma; T_Minus; T_DotDotDot; T_IntVal])) all_token_kinds.

Notation run_e ex l := (texec cfuel grammar_prog ex [] (mk_ts l 0)) (only parsing).

(** reflective facts about one piece (finite: 12 words x 112 token kinds) *)
Definition is_val_true (r : tres) (rest : word) : bool :=
  match r with
  | TVal (VB true) [] ts => kinds_eqb (tks ts) rest && Nat.eqb (terr ts) 0 && negb (tafter ts)
  | _ => false
  end.
Lemma piece_facts :
  forallb (fun p =>
    forallb (fun x =>
      (* the loop condition holds in front of a piece and consumes nothing *)
      is_val_true (run_e rl_cond (p ++ [x])) (p ++ [x]) &&
      (* a piece followed by a comma: the body consumes both and continues *)
      is_val_true (run_e rl_body (p ++ [T_Comma; x])) [x]) all_token_kinds &&
    (* the last piece followed by an admissible follower: the body breaks out *)
    forallb (fun k => match run_e rl_body (p ++ [k]) with
                      | TBrk [] ts => kinds_eqb (tks ts) [k] && Nat.eqb (terr ts) 0 && negb (tafter ts)
                      | _ => false end) rl_followers) piece_words = true.
Proof. vm_cast_no_check (eq_refl true). Qed.

Lemma is_val_true_sound r rest : is_val_true r rest = true -> r = TVal (VB true) [] (mk_ts rest 0).
Proof.
  unfold is_val_true. destruct r as [[[|]|] [|? ?] [l e a]| | | |]; try discriminate. cbn.
  intros H. apply andb_true_iff in H as [H H3]. apply andb_true_iff in H as [H1 H2].
  apply kinds_eqb_eq in H1. apply Nat.eqb_eq in H2. apply negb_true_iff in H3. subst. reflexivity.
Qed.

(** lifting a bounded run to every context, error count and larger fuel *)
Lemma lift_val ex l tail rest e n v :
  texec cfuel grammar_prog ex [] (mk_ts (l ++ tail) 0) = TVal v [] (mk_ts tail 0) -> tail <> [] -> cfuel <= n ->
  texec n grammar_prog ex [] (mk_ts (l ++ tail ++ rest) e) = TVal v [] (mk_ts (tail ++ rest) e).
Proof.
  intros H Hne Hn.
  pose proof (frame_done grammar_prog rest e cfuel ex [] (mk_ts (l ++ tail) 0) v [] (mk_ts tail 0) H Hne) as F.
  unfold frame, mk_ts in F. cbn [tks terr tafter Nat.add] in F. rewrite <- app_assoc in F.
  unfold mk_ts. rewrite (texec_fuel grammar_prog cfuel ex [] _ ltac:(rewrite F; exact I) n Hn). exact F.
Qed.
Lemma lift_brk ex l tail rest e n :
  texec cfuel grammar_prog ex [] (mk_ts (l ++ tail) 0) = TBrk [] (mk_ts tail 0) -> tail <> [] -> cfuel <= n ->
  texec n grammar_prog ex [] (mk_ts (l ++ tail ++ rest) e) = TBrk [] (mk_ts (tail ++ rest) e).
Proof.
  intros H Hne Hn.
  pose proof (texec_frame grammar_prog rest e cfuel ex [] (mk_ts (l ++ tail) 0)) as F. rewrite H in F.
  specialize (F Hne). unfold frame, mk_ts in F. cbn [tks terr tafter frame_res Nat.add] in F. rewrite <- app_assoc in F.
  unfold mk_ts. rewrite (texec_fuel grammar_prog cfuel ex [] _ ltac:(rewrite F; exact I) n Hn). exact F.
Qed.

Lemma brk_sound r k : (match r with
                       | TBrk [] ts => kinds_eqb (tks ts) [k] && Nat.eqb (terr ts) 0 && negb (tafter ts)
                       | _ => false end) = true -> r = TBrk [] (mk_ts [k] 0).
Proof.
  destruct r as [| [|? ?] [l e a]| | |]; try discriminate. cbn.
  intros H. apply andb_true_iff in H as [H H3]. apply andb_true_iff in H as [H1 H2].
  apply kinds_eqb_eq in H1. apply Nat.eqb_eq in H2. apply negb_true_iff in H3. subst. reflexivity.
Qed.

Section Pieces.
  Variable p : word.
  Hypothesis Hp : In p piece_words.

  Lemma piece_fact :
    forallb (fun x => is_val_true (run_e rl_cond (p ++ [x])) (p ++ [x]) && is_val_true (run_e rl_body (p ++ [T_Comma; x])) [x]) all_token_kinds = true /\
    forallb (fun k => match run_e rl_body (p ++ [k]) with
                      | TBrk [] ts => kinds_eqb (tks ts) [k] && Nat.eqb (terr ts) 0 && negb (tafter ts)
                      | _ => false end) rl_followers = true.
  Proof.
    pose proof (proj1 (forallb_forall _ _) piece_facts p Hp) as H. cbv beta in H. apply andb_true_iff in H. exact H.
  Qed.

  Lemma cond_any x X e n : cfuel <= n ->
    texec n grammar_prog rl_cond [] (mk_ts (p ++ x :: X) e) = TVal (VB true) [] (mk_ts (p ++ x :: X) e).
  Proof.
    intros Hn. destruct piece_fact as [H _]. pose proof (proj1 (forallb_forall _ _) H x (all_token_kinds_complete x)) as Hx.
    cbv beta in Hx. apply andb_true_iff in Hx as [Hc _]. apply is_val_true_sound in Hc.
    pose proof (lift_val rl_cond [] (p ++ [x]) X e n (VB true) Hc ltac:(destruct p; discriminate) Hn) as L.
    cbn [app] in L. rewrite <- app_assoc in L. exact L.
  Qed.
  Lemma body_more x X e n : cfuel <= n ->
    texec n grammar_prog rl_body [] (mk_ts (p ++ T_Comma :: x :: X) e) = TVal (VB true) [] (mk_ts (x :: X) e).
  Proof.
    intros Hn. destruct piece_fact as [H _]. pose proof (proj1 (forallb_forall _ _) H x (all_token_kinds_complete x)) as Hx.
    cbv beta in Hx. apply andb_true_iff in Hx as [_ Hb]. apply is_val_true_sound in Hb.
    assert (E : p ++ [T_Comma; x] = (p ++ [T_Comma]) ++ [x]) by (rewrite <- app_assoc; reflexivity).
    rewrite E in Hb.
    pose proof (lift_val rl_body (p ++ [T_Comma]) [x] X e n (VB true) Hb ltac:(discriminate) Hn) as L.
    rewrite <- app_assoc in L. exact L.
  Qed.
  Lemma body_last k X e n : In k rl_followers -> cfuel <= n ->
    texec n grammar_prog rl_body [] (mk_ts (p ++ k :: X) e) = TBrk [] (mk_ts (k :: X) e).
  Proof.
    intros Hk Hn. destruct piece_fact as [_ H]. pose proof (proj1 (forallb_forall _ _) H k Hk) as Hx.
    cbv beta in Hx. apply brk_sound in Hx.
    exact (lift_brk rl_body p [k] X e n Hx ltac:(discriminate) Hn).
  Qed.
End Pieces.

Lemma piece_nonempty : forallb (fun p => match p with [] => false | _ => true end) piece_words = true.
Proof. vm_compute. reflexivity. Qed.

Lemma texec_while n p c b en ts :
  texec (S n) p (EWhile c b) en ts =
  match texec n p c en ts with
  | TVal (VB true) en1 ts1 =>
      match texec n p b en1 ts1 with
      | TVal _ en2 ts2 => texec n p (EWhile c b) en2 ts2
      | TBrk en2 ts2 => TVal (VB true) en2 ts2
      | r => r
      end
  | TVal (VB false) en1 ts1 => TVal (VB true) en1 ts1
  | TVal (VN _) _ _ => TStuck
  | r => r
  end.
Proof. reflexivity. Qed.

(** the loop consumes  p , p , .. , p  and stops at an admissible follower *)
Lemma loop_done : forall ps p, In p piece_words -> Forall (fun q => In q piece_words) ps ->
  exists n0, forall n k X e, n0 <= n -> In k rl_followers ->
    texec n grammar_prog rl_loop [] (mk_ts (p ++ flat_map (fun q => T_Comma :: q) ps ++ k :: X) e) = TVal (VB true) [] (mk_ts (k :: X) e).
Proof.
  induction ps as [|q ps IH]; intros p Hp Hall.
  - exists (S cfuel). intros n k X e Hn Hk. destruct n as [|n]; [lia|]. assert (Hn' : cfuel <= n) by lia.
    cbn [flat_map app]. unfold rl_loop. rewrite texec_while.
    rewrite (cond_any p Hp k X e n Hn'). rewrite (body_last p Hp k X e n Hk Hn'). reflexivity.
  - inversion Hall as [|? ? Hq Hall']; subst.
    destruct (IH q Hq Hall') as (n1 & H1). exists (S (Nat.max n1 cfuel)). intros n k X e Hn Hk.
    destruct n as [|n]; [lia|]. assert (Hn' : cfuel <= n) by lia. assert (Hn1 : n1 <= n) by lia.
    pose proof (proj1 (forallb_forall _ _) piece_nonempty q Hq) as Hne. destruct q as [|x q']; [discriminate|].
    cbn [flat_map]. unfold rl_loop. rewrite texec_while.
    replace (p ++ ((T_Comma :: x :: q') ++ flat_map (fun q0 => T_Comma :: q0) ps) ++ k :: X)
      with (p ++ T_Comma :: x :: (q' ++ flat_map (fun q0 => T_Comma :: q0) ps ++ k :: X))
      by (cbn [app]; rewrite <- !app_assoc; reflexivity).
    rewrite (cond_any p Hp T_Comma _ e n Hn'). rewrite (body_more p Hp x _ e n Hn').
    fold rl_loop.
    specialize (H1 n k X e Hn1 Hk). cbn [app] in H1. exact H1.
Qed.

(** [f] parses [w] in every context, for every follower in [fs] *)
Definition DoneF (f : nat) (fs : list TokenKind) (w : word) : Prop :=
  exists n0, forall n k rest e, n0 <= n -> In k fs ->
    texec n grammar_prog (ECall f None) [] (mk_ts (w ++ k :: rest) e) = TVal (VB true) [] (mk_ts (k :: rest) e).

Definition rl_word (p : word) (ps : list word) : word := p ++ flat_map (fun q => T_Comma :: q) ps.

Lemma Done_range_list p ps : In p piece_words -> Forall (fun q => In q piece_words) ps ->
  DoneF f_range_list rl_followers (rl_word p ps).
Proof.
  intros Hp Hps. destruct (loop_done ps p Hp Hps) as (n0 & H). exists (n0 + 8). intros n k rest e Hn Hk.
  do 6 (destruct n as [|n]; [lia|]). assert (Hn0 : n0 <= n) by lia. clear Hn.
  unfold rl_word. rewrite <- app_assoc.
  rewrite (texec_call0 _ grammar_prog f_range_list _ _ _ body_range_list).
  rewrite texec_seq, texec_prim_eq. cbn [texec_prim].
  rewrite texec_seq.
  rewrite (H _ k rest e) by (auto; lia).
  rewrite texec_seq, texec_prim_eq. cbn [texec_prim].
  rewrite texec_b. reflexivity.
Qed.

(** inversion of the documented rule: a word of RangeList is a non-empty comma-separated list of pieces *)
Lemma piece_enum_some : enum doc_rules_must efuel (RSym (DNT nt_RangePiece)) <> None.
Proof. vm_compute. discriminate. Qed.
Lemma piece_in w : derives doc_rules_must nt_RangePiece w -> In w piece_words.
Proof.
  intros Hd. unfold piece_words. pose proof piece_enum_some as E.
  destruct (enum doc_rules_must efuel (RSym (DNT nt_RangePiece))) as [ws|] eqn:Ee; [|congruence].
  eapply enum_complete; eauto.
Qed.
Lemma star_inv : forall r v, rmatch doc_rules_must r v ->
  r = RStar (RSeq (RSym (DTok [T_Comma])) (RSym (DNT nt_RangePiece))) ->
  exists ps, Forall (fun q => In q piece_words) ps /\ v = flat_map (fun q => T_Comma :: q) ps.
Proof.
  induction 1 as [| | | | | | a | a u v Hu _ Hv IH]; intros E; try discriminate E.
  - exists []. split; [constructor|reflexivity].
  - injection E as ->. destruct (IH eq_refl) as (ps & Hall & ->).
    inversion Hu as [| | |x y u1 u2 H1 H2| | | |]; subst.
    inversion H1 as [|ks k0 Hk| | | | | |]; subst. destruct Hk as [<-|[]].
    exists (u2 :: ps). split; [constructor; [apply piece_in; exact H2|exact Hall]|reflexivity].
Qed.
Lemma range_list_inv w : derives doc_rules_must nt_RangeList w ->
  exists p ps, In p piece_words /\ Forall (fun q => In q piece_words) ps /\ w = rl_word p ps.
Proof.
  intros Hd. unfold derives in Hd. inversion Hd as [| |m rhs w' Hn Hr| | | | |]; subst.
  vm_compute in Hn. inversion Hn; subst rhs; clear Hn.
  inversion Hr as [| | |x y u v H1 H2| | | |]; subst.
  destruct (star_inv _ _ H2 eq_refl) as (ps & Hall & ->).
  exists u, ps. split; [apply piece_in; exact H1|split; [exact Hall|reflexivity]].
Qed.

Theorem range_list_complete_tok : forall w, derives doc_rules_must nt_RangeList w -> DoneF f_range_list rl_followers w.
Proof. intros w Hd. destruct (range_list_inv w Hd) as (p & ps & Hp & Hps & ->). now apply Done_range_list. Qed.

(** RangeSuffix ::= "{" RangeList "}" : every follower *)
Lemma body_range_suffix : fn_body grammar_prog f_range_suffix = Some fn_44_range_suffix.
Proof. reflexivity. Qed.
Lemma rbrace_follows : In T_RBrace rl_followers.
Proof. vm_compute. tauto. Qed.
Theorem range_suffix_complete_tok : forall w, derives doc_rules_must nt_RangeSuffix w -> Done f_range_suffix w.
Proof.
  intros w Hd. unfold derives in Hd. inversion Hd as [| |m rhs w' Hn Hr| | | | |]; subst.
  vm_compute in Hn. inversion Hn; subst rhs; clear Hn.
  repeat match goal with
         | Hx : rmatch _ (RSeq _ _) _ |- _ => inversion Hx; subst; clear Hx
         | Hx : rmatch _ (RSym (DTok _)) _ |- _ => inversion Hx; subst; clear Hx
         end.
  repeat match goal with Hx : In _ [_] |- _ => destruct Hx as [<-|[]] end.
  match goal with Hx : rmatch _ (RSym (DNT _)) ?W |- _ => destruct (range_list_complete_tok W Hx) as (n0 & H) end.
  exists (n0 + 12). intros n k rest e Hn.
  do 8 (destruct n as [|n]; [lia|]). assert (Hn0 : n0 <= n) by lia. clear Hn.
  match goal with |- context [mk_ts (([T_LBrace] ++ ?W ++ [T_RBrace]) ++ k :: rest) e] =>
    replace (([T_LBrace] ++ W ++ [T_RBrace]) ++ k :: rest) with (T_LBrace :: (W ++ T_RBrace :: k :: rest))
      by (cbn [app]; rewrite <- app_assoc; reflexivity) end.
  rewrite (texec_call0 _ grammar_prog f_range_suffix _ _ fn_44_range_suffix body_range_suffix). unfold fn_44_range_suffix at 1.
  rewrite texec_seq, texec_prim_eq. cbn [texec_prim].
  rewrite texec_seq, texec_prim_eq, assert_step by reflexivity.
  rewrite texec_seq.
  rewrite (H _ T_RBrace (k :: rest) e) by (try exact rbrace_follows; lia).
  rewrite texec_seq, texec_prim_eq, expect_step by reflexivity.
  rewrite texec_seq, texec_prim_eq. cbn [texec_prim].
  rewrite texec_b. reflexivity.
Qed.

(** the same for the full parser model *)
Theorem range_list_complete_model : forall w, derives doc_rules_must nt_RangeList w ->
  exists n0, forall n k rest s, n0 <= n -> In k rl_followers -> Toks s (w ++ k :: rest) -> after_err s = false ->
    match gexec n grammar_prog (ECall f_range_list None) [] s with
    | RPanic => True
    | RVal v _ s' => v = VB true /\ Toks s' (k :: rest) /\ nerr s' = nerr s /\ after_err s' = false
    | _ => False
    end.
Proof.
  intros w Hd. destruct (range_list_complete_tok w Hd) as (n0 & H). exists n0. intros n k rest s Hn Hk HT Ha.
  assert (R0 : TR s (mk_ts (w ++ k :: rest) (nerr s))) by (repeat split; auto).
  exact (refine_done grammar_prog n (ECall f_range_list None) s (mk_ts (w ++ k :: rest) (nerr s)) (mk_ts (k :: rest) (nerr s)) R0
           (H n k rest (nerr s) Hn Hk)).
Qed.
Theorem range_suffix_complete_model : forall w, derives doc_rules_must nt_RangeSuffix w ->
  exists n0, forall n k rest s, n0 <= n -> Toks s (w ++ k :: rest) -> after_err s = false ->
    match gexec n grammar_prog (ECall f_range_suffix None) [] s with
    | RPanic => True
    | RVal v _ s' => v = VB true /\ Toks s' (k :: rest) /\ nerr s' = nerr s /\ after_err s' = false
    | _ => False
    end.
Proof.
  intros w Hd. destruct (range_suffix_complete_tok w Hd) as (n0 & H). exists n0. intros n k rest s Hn HT Ha.
  assert (R0 : TR s (mk_ts (w ++ k :: rest) (nerr s))) by (repeat split; auto).
  exact (refine_done grammar_prog n (ECall f_range_suffix None) s (mk_ts (w ++ k :: rest) (nerr s)) (mk_ts (k :: rest) (nerr s)) R0
           (H n k rest (nerr s) Hn)).
Qed.

(** non-vacuity: the language is infinite; {1, 2-3, 4...5} is one of its words *)
Example range_suffix_example :
  derives doc_rules_must nt_RangeSuffix
    ([T_LBrace] ++ ([T_IntVal] ++ ([T_Comma] ++ [T_IntVal] ++ [T_Minus] ++ [T_IntVal]) ++ ([T_Comma] ++ [T_IntVal] ++ [T_DotDotDot] ++ [T_IntVal]) ++ []) ++ [T_RBrace]).
Proof.
  assert (I : rmatch doc_rules_must (RSym (DNT 53)) [T_IntVal]).
  { eapply MNT; [vm_compute; reflexivity|]. first [apply MAltL; constructor; now left | constructor; now left]. }
  eapply MNT; [vm_compute; reflexivity|].
  apply MSeq; [constructor; now left|]. apply MSeq; [|constructor; now left].
  eapply MNT; [vm_compute; reflexivity|].
  apply MSeq; [eapply MNT; [vm_compute; reflexivity|]; apply MAltL; exact I|].
  apply MStarS.
  { apply MSeq; [constructor; now left|]. eapply MNT; [vm_compute; reflexivity|].
    apply MAltR, MAltR, MAltL. apply MSeq; [exact I|]. apply MSeq; [constructor; now left|exact I]. }
  apply MStarS; [|apply MStar0].
  apply MSeq; [constructor; now left|]. eapply MNT; [vm_compute; reflexivity|].
  apply MAltR, MAltL. apply MSeq; [exact I|]. apply MSeq; [constructor; now left|exact I].
Qed.
