(** C16 (path level): the include graph of a workspace and the breadth-first walk over it.

    [rd : path -> option content] is the effective file system (disk overlaid by the open
    documents, DESIGN 3.8); it does not change during one [collect_sources].  This file defines
    - the specification: [presolve] (first search directory whose candidate is readable),
      [succs] (the resolvable include statements of a file), [reach] (reflexive-transitive closure);
    - [pcollect]: the walk of [collect_sources] on paths only (no FileIds, no database);
    and proves, for EVERY [rd] (no bound on the number of files, on the number of include statements
    or on the shape of the graph: self includes, cycles, diamonds):
    - [pcollect_terminates]: with fuel >= 1 + sum over a list R covering the reachable files of
      (1 + number of resolvable includes) the walk returns [Done] (never [OutOfFuel]);
    - [pcollect_reach]: the visited set is exactly [reach root], without duplicates, and every
      entry carries the content of the file and exactly its resolvable includes;
    - [pcollect_mono] / [pcollect_ext]: the result does not depend on the fuel nor on anything but
      the extension of [rd].
    [IncludesRefine.v] shows that [Includes.collect] (with FileIds and the salsa inputs) computes
    [pcollect]. *)
From Coq Require Import List NArith Bool Lia Arith.
From TG.Model Require Import Includes.
Import ListNotations.
Local Open Scope nat_scope.

(** the only requirement on paths: [path_eqb] decides equality (PathBuf: Eq + Hash) *)
Class PathAlgOk (path istr : Type) {PA : PathAlg path istr} := {
  path_eqb_ok : forall a b : path, path_eqb a b = true <-> a = b
}.

Section Graph.
Context {path istr : Type} {PA : PathAlg path istr} {PAok : PathAlgOk path istr}.
Notation content := (content istr).
Notation item := (item istr).

Lemma path_eqb_refl : forall a : path, path_eqb a a = true.
Proof. intro a. apply path_eqb_ok. reflexivity. Qed.

Lemma path_eqb_false : forall a b : path, path_eqb a b = false <-> a <> b.
Proof.
  intros a b. split.
  - intros H E. apply path_eqb_ok in E. congruence.
  - intro H. destruct (path_eqb a b) eqn:E; [apply path_eqb_ok in E; contradiction | reflexivity].
Qed.

Lemma path_eq_dec : forall a b : path, {a = b} + {a <> b}.
Proof.
  intros a b. destruct (path_eqb a b) eqn:E.
  - left. apply path_eqb_ok. exact E.
  - right. apply path_eqb_false. exact E.
Qed.

Variable rd : path -> option content.
Variable extra : list path.

(** resolve_include_file on paths: the first directory whose candidate can be read *)
Fixpoint presolve (s : istr) (dirs : list path) : option path :=
  match dirs with
  | [] => None
  | d :: r => match rd (join d s) with Some _ => Some (join d s) | None => presolve s r end
  end.

Fixpoint presolve_all (dirs : list path) (incs : list (rng * istr)) : list (rng * path) :=
  match incs with
  | [] => []
  | (sid, s) :: r =>
      match presolve s dirs with
      | Some q => (sid, q) :: presolve_all dirs r
      | None => presolve_all dirs r
      end
  end.

Definition entry := (path * content * list (rng * path))%type.
Definition e_path (e : entry) : path := fst (fst e).
Definition e_content (e : entry) : content := snd (fst e).
Definition e_links (e : entry) : list (rng * path) := snd e.

Definition pmem (p : path) (vis : list entry) : bool := existsb (fun e => path_eqb (e_path e) p) vis.

(** the search directories of a file: its own directory, then $INCLUDE_DIR *)
Definition dirs_of (p : path) : option (list path) :=
  match parent p with Some d => Some (d :: extra) | None => None end.

(** the resolvable include statements of the file at [p]: (statement id, target) *)
Definition succs (p : path) : list (rng * path) :=
  match rd p, dirs_of p with
  | Some c, Some ds => presolve_all ds (list_includes (c_items c))
  | _, _ => []
  end.

Inductive reach (root : path) : path -> Prop :=
| reach_refl : reach root root
| reach_step : forall p sid q, reach root p -> In (sid, q) (succs p) -> reach root q.

Fixpoint pcollect (fuel : nat) (queue : list path) (vis : list entry) : outcome (list entry) :=
  match queue with
  | [] => Done vis
  | p :: q =>
      match fuel with
      | O => OutOfFuel
      | S n =>
          if pmem p vis then pcollect n q vis
          else
            match rd p with
            | None => Panic PUnsetContent
            | Some c =>
                match parent p with
                | None => Panic PNoParent
                | Some d =>
                    let l := presolve_all (d :: extra) (list_includes (c_items c)) in
                    pcollect n (q ++ map snd l) ((p, c, l) :: vis)
                end
            end
      end
  end.

(** ** basic facts *)
Lemma presolve_readable : forall s dirs q, presolve s dirs = Some q -> rd q <> None.
Proof.
  induction dirs as [|d r IH]; cbn [presolve]; intros q H; [discriminate|].
  destruct (rd (join d s)) eqn:E.
  - inversion H; subst. congruence.
  - apply IH. exact H.
Qed.

Lemma presolve_all_readable : forall dirs incs sid q,
  In (sid, q) (presolve_all dirs incs) -> rd q <> None.
Proof.
  induction incs as [|[sid0 s] r IH]; cbn [presolve_all]; intros sid q H; [contradiction|].
  destruct (presolve s dirs) eqn:E.
  - destruct H as [H|H]; [inversion H; subst; eapply presolve_readable; eauto | eauto].
  - eauto.
Qed.

Lemma presolve_all_length : forall dirs incs, length (presolve_all dirs incs) <= length incs.
Proof.
  induction incs as [|[sid s] r IH]; cbn [presolve_all length]; [lia|].
  destruct (presolve s dirs); cbn [length]; lia.
Qed.

Lemma pmem_true : forall p vis, pmem p vis = true <-> In p (map e_path vis).
Proof.
  intros p vis. unfold pmem. rewrite existsb_exists. split.
  - intros [e [Hin He]]. apply path_eqb_ok in He. subst. apply in_map. exact Hin.
  - intro H. apply in_map_iff in H. destruct H as [e [He Hin]]. exists e. split; [exact Hin|].
    apply path_eqb_ok. exact He.
Qed.

Lemma pmem_false : forall p vis, pmem p vis = false <-> ~ In p (map e_path vis).
Proof.
  intros p vis. rewrite <- pmem_true. destruct (pmem p vis); split; congruence.
Qed.

Lemma succs_readable : forall p sid q, In (sid, q) (succs p) -> rd q <> None.
Proof.
  intros p sid q. unfold succs. destruct (rd p); [|contradiction].
  destruct (dirs_of p); [|contradiction]. apply presolve_all_readable.
Qed.

(** ** an entry is well formed when it carries the content of the file and exactly its
    resolvable includes *)
Definition entry_ok (e : entry) : Prop :=
  rd (e_path e) = Some (e_content e) /\
  exists d, parent (e_path e) = Some d /\
            e_links e = presolve_all (d :: extra) (list_includes (c_items (e_content e))).

Lemma entry_ok_links : forall e, entry_ok e -> e_links e = succs (e_path e).
Proof.
  intros e [H1 [d [H2 H3]]]. unfold succs, dirs_of. rewrite H1, H2. exact H3.
Qed.

(** ** the loop invariant of the walk *)
Record pinv (root : path) (queue : list path) (vis : list entry) : Prop := {
  pi_entries : Forall entry_ok vis;
  pi_vis_reach : forall e, In e vis -> reach root (e_path e);
  pi_closed : forall e sid q, In e vis -> In (sid, q) (e_links e) ->
                              In q (map e_path vis) \/ In q queue;
  pi_queue : forall q, In q queue -> reach root q /\ rd q <> None;
  pi_root : In root (map e_path vis) \/ In root queue;
  pi_nodup : NoDup (map e_path vis)
}.

Lemma pinv_init : forall root, rd root <> None -> pinv root [root] [].
Proof.
  intros root H. constructor; cbn.
  - constructor.
  - contradiction.
  - contradiction.
  - intros q [<-|[]]. split; [constructor|exact H].
  - right. left. reflexivity.
  - constructor.
Qed.

Lemma pinv_skip : forall root p q vis,
  pinv root (p :: q) vis -> pmem p vis = true -> pinv root q vis.
Proof.
  intros root p q vis I Hm. apply pmem_true in Hm. destruct I as [I1 I2 I3 I4 I5 I6].
  constructor; auto.
  - intros e sid t He Ht. destruct (I3 e sid t He Ht) as [H|[H|H]]; auto. subst. left. exact Hm.
  - intros t Ht. apply I4. right. exact Ht.
  - destruct I5 as [H|[H|H]]; auto. subst. left. exact Hm.
Qed.

Lemma pinv_visit : forall root p q vis c d,
  pinv root (p :: q) vis -> pmem p vis = false -> rd p = Some c -> parent p = Some d ->
  let l := presolve_all (d :: extra) (list_includes (c_items c)) in
  pinv root (q ++ map snd l) ((p, c, l) :: vis).
Proof.
  intros root p q vis c d I Hm Hc Hd l. apply pmem_false in Hm.
  destruct I as [I1 I2 I3 I4 I5 I6].
  assert (Hok : entry_ok (p, c, l)).
  { split; [exact Hc|]. exists d. split; [exact Hd|reflexivity]. }
  assert (Hrp : reach root p) by (apply I4; left; reflexivity).
  constructor.
  - constructor; assumption.
  - intros e [<-|He]; [exact Hrp | apply I2; exact He].
  - intros e sid t [<-|He] Ht.
    + right. apply in_or_app. right. change t with (snd (sid, t)). apply in_map. exact Ht.
    + destruct (I3 e sid t He Ht) as [H|[H|H]].
      * left. right. exact H.
      * subst. left. left. reflexivity.
      * right. apply in_or_app. left. exact H.
  - intros t Ht. apply in_app_or in Ht. destruct Ht as [Ht|Ht].
    + apply I4. right. exact Ht.
    + apply in_map_iff in Ht. destruct Ht as [[sid t'] [E Hin]]. cbn in E. subst t'.
      split.
      * apply reach_step with (p := p) (sid := sid); [exact Hrp|].
        change (In (sid, t) (succs (e_path (p, c, l)))).
        rewrite <- (entry_ok_links (p, c, l) Hok). exact Hin.
      * eapply presolve_all_readable. exact Hin.
  - destruct I5 as [H|[H|H]].
    + left. right. exact H.
    + subst. left. left. reflexivity.
    + right. apply in_or_app. left. exact H.
  - cbn [map]. constructor; assumption.
Qed.

Lemma pcollect_pinv : forall root fuel queue vis V,
  pinv root queue vis -> pcollect fuel queue vis = Done V -> pinv root [] V.
Proof.
  intros root fuel. induction fuel as [|n IH]; intros queue vis V I H.
  - destruct queue; cbn in H; [inversion H; subst; exact I | discriminate].
  - destruct queue as [|p q]; cbn [pcollect] in H; [inversion H; subst; exact I|].
    destruct (pmem p vis) eqn:Hm.
    + eapply IH; [eapply pinv_skip; eauto | exact H].
    + destruct (rd p) as [c|] eqn:Hc; [|discriminate].
      destruct (parent p) as [d|] eqn:Hd; [|discriminate].
      eapply IH; [|exact H]. eapply pinv_visit; eauto.
Qed.

(** exact reachability *)
Theorem pcollect_reach : forall root fuel V,
  rd root <> None ->
  pcollect fuel [root] [] = Done V ->
  (forall q, In q (map e_path V) <-> reach root q) /\
  NoDup (map e_path V) /\
  Forall entry_ok V.
Proof.
  intros root fuel V Hr H.
  pose proof (pcollect_pinv root fuel [root] [] V (pinv_init root Hr) H) as [I1 I2 I3 I4 I5 I6].
  split; [|split; assumption].
  intro q. split.
  - intro Hq. apply in_map_iff in Hq. destruct Hq as [e [<- He]]. apply I2. exact He.
  - intro Hq. induction Hq as [|p sid q Hp IHp Hs].
    + destruct I5 as [H5|[]]. exact H5.
    + apply in_map_iff in IHp. destruct IHp as [e [Ee He]].
      rewrite Forall_forall in I1. pose proof (entry_ok_links e (I1 e He)) as El.
      rewrite Ee in El. rewrite <- El in Hs.
      destruct (I3 e sid q He Hs) as [H3|[]]. exact H3.
Qed.

(** ** termination *)
Definition deg (p : path) : nat := length (succs p).

(** weight of the files of [R] that have not been visited yet *)
Fixpoint wt (R : list path) (vis : list entry) : nat :=
  match R with
  | [] => 0
  | q :: r => (if pmem q vis then 0 else 1 + deg q) + wt r vis
  end.

Lemma pmem_cons : forall q e vis, pmem q (e :: vis) = path_eqb (e_path e) q || pmem q vis.
Proof. reflexivity. Qed.

Lemma wt_cons_le : forall R e vis, wt R (e :: vis) <= wt R vis.
Proof.
  induction R as [|q r IH]; intros e vis; cbn [wt]; [lia|].
  specialize (IH e vis). rewrite pmem_cons.
  destruct (path_eqb (e_path e) q); cbn [orb]; destruct (pmem q vis); lia.
Qed.

Lemma wt_visit : forall R e vis,
  In (e_path e) R -> pmem (e_path e) vis = false ->
  wt R (e :: vis) + 1 + deg (e_path e) <= wt R vis.
Proof.
  induction R as [|q r IH]; intros e vis Hin Hm; [contradiction|].
  cbn [wt]. rewrite pmem_cons. destruct (path_eq_dec (e_path e) q) as [E|NE].
  - subst q. rewrite path_eqb_refl, Hm. cbn [orb]. pose proof (wt_cons_le r e vis). lia.
  - destruct Hin as [Hin|Hin]; [congruence|].
    specialize (IH e vis Hin Hm). apply path_eqb_false in NE. rewrite NE. cbn [orb].
    destruct (pmem q vis); lia.
Qed.

(** the explicit fuel bound: one iteration for the root entry of the queue, and for every file of
    [R] one visiting iteration plus one iteration per queue entry it pushes *)
Definition fuel_bound (R : list path) : nat := 1 + wt R [].

Lemma wt_nil : forall R, wt R [] = length R + fold_right (fun q a => deg q + a) 0 R.
Proof. induction R as [|q r IH]; cbn [wt pmem existsb length fold_right]; lia. Qed.

Lemma fuel_bound_le : forall R D,
  (forall q, In q R -> deg q <= D) -> fuel_bound R <= 1 + length R * (1 + D).
Proof.
  intros R D H. unfold fuel_bound. rewrite wt_nil.
  induction R as [|q r IH]; cbn [length fold_right]; [lia|].
  assert (deg q <= D) by (apply H; left; reflexivity).
  assert (forall t, In t r -> deg t <= D) by (intros t Ht; apply H; right; exact Ht).
  specialize (IH H1). lia.
Qed.

Lemma pcollect_term_gen : forall root R,
  (forall q, reach root q -> In q R) ->
  (forall q, reach root q -> parent q <> None) ->
  forall fuel queue vis,
    (forall q, In q queue -> reach root q /\ rd q <> None) ->
    length queue + wt R vis <= fuel ->
    exists V, pcollect fuel queue vis = Done V.
Proof.
  intros root R HR HP. induction fuel as [|n IH]; intros queue vis Hq Hf.
  - destruct queue; cbn [length] in Hf; [eexists; reflexivity | lia].
  - destruct queue as [|p q]; [eexists; reflexivity|]. cbn [pcollect].
    destruct (Hq p (or_introl eq_refl)) as [Hrp Hrd].
    destruct (pmem p vis) eqn:Hm.
    + apply IH.
      * intros t Ht. apply Hq. right. exact Ht.
      * cbn [length] in Hf. lia.
    + destruct (rd p) as [c|] eqn:Hc; [|congruence].
      destruct (parent p) as [d|] eqn:Hd; [|exfalso; exact (HP p Hrp Hd)].
      set (l := presolve_all (d :: extra) (list_includes (c_items c))).
      assert (Hl : l = succs p) by (unfold succs, dirs_of; rewrite Hc, Hd; reflexivity).
      apply IH.
      * intros t Ht. apply in_app_or in Ht. destruct Ht as [Ht|Ht].
        -- apply Hq. right. exact Ht.
        -- apply in_map_iff in Ht. destruct Ht as [[sid t'] [E Hin]]. cbn in E. subst t'.
           rewrite Hl in Hin. split.
           ++ eapply reach_step; eauto.
           ++ eapply succs_readable; eauto.
      * pose proof (wt_visit R (p, c, l) vis (HR p Hrp) Hm) as Hw.
        change (e_path (p, c, l)) with p in Hw. unfold deg in Hw. rewrite <- Hl in Hw.
        rewrite app_length, map_length. cbn [length] in Hf. clearbody l. unfold entry in *. lia.
Qed.

Theorem pcollect_terminates : forall root R fuel,
  rd root <> None ->
  (forall q, reach root q -> In q R) ->
  (forall q, reach root q -> parent q <> None) ->
  fuel_bound R <= fuel ->
  exists V, pcollect fuel [root] [] = Done V.
Proof.
  intros root R fuel Hr HR HP Hf. apply (pcollect_term_gen root R HR HP).
  - intros q [<-|[]]. split; [constructor|exact Hr].
  - unfold fuel_bound in Hf. cbn [length]. lia.
Qed.

(** ** fuel monotonicity *)
Lemma pcollect_mono : forall n queue vis V,
  pcollect n queue vis = Done V -> forall m, n <= m -> pcollect m queue vis = Done V.
Proof.
  induction n as [|n IH]; intros queue vis V H m Hm.
  - destruct queue; cbn in H; [|discriminate]. destruct m; exact H.
  - destruct m as [|m]; [lia|]. destruct queue as [|p q]; [exact H|].
    cbn [pcollect] in *. destruct (pmem p vis).
    + apply IH; [exact H|lia].
    + destruct (rd p); [|discriminate]. destruct (parent p); [|discriminate].
      apply IH; [exact H|lia].
Qed.

Lemma pcollect_det : forall n m queue vis V W,
  pcollect n queue vis = Done V -> pcollect m queue vis = Done W -> V = W.
Proof.
  intros n m queue vis V W H1 H2.
  pose proof (pcollect_mono n queue vis V H1 (max n m) (Nat.le_max_l _ _)) as A.
  pose proof (pcollect_mono m queue vis W H2 (max n m) (Nat.le_max_r _ _)) as B.
  congruence.
Qed.

End Graph.

(** ** the walk depends on [rd] only through its extension *)
Section Ext.
Context {path istr : Type} {PA : PathAlg path istr}.
Variables rd1 rd2 : path -> option (content istr).
Hypothesis rd_ext : forall p, rd1 p = rd2 p.
Variable extra : list path.

Lemma presolve_ext : forall s dirs, presolve rd1 s dirs = presolve rd2 s dirs.
Proof.
  induction dirs as [|d r IH]; cbn [presolve]; [reflexivity|].
  rewrite rd_ext, IH. reflexivity.
Qed.

Lemma presolve_all_ext : forall dirs incs, presolve_all rd1 dirs incs = presolve_all rd2 dirs incs.
Proof.
  induction incs as [|[sid s] r IH]; cbn [presolve_all]; [reflexivity|].
  rewrite presolve_ext, IH. reflexivity.
Qed.

Lemma pcollect_ext : forall fuel queue vis,
  pcollect rd1 extra fuel queue vis = pcollect rd2 extra fuel queue vis.
Proof.
  induction fuel as [|n IH]; intros queue vis; destruct queue as [|p q]; cbn [pcollect]; try reflexivity.
  destruct (pmem p vis); [apply IH|].
  rewrite rd_ext. destruct (rd2 p); [|reflexivity]. destruct (parent p); [|reflexivity].
  rewrite presolve_all_ext. apply IH.
Qed.

End Ext.
