(** Property C10: the statements of coq/props/C10.v in their final form (over the notions of
    TG.Model.LineIndex only), and the non-vacuity examples. *)
From Coq Require Import List NArith Bool Lia ZifyBool ZifyN.
From TG.Model Require Import Chars LineIndex.
From TG.Proofs Require Import LineIndexProofs LineIndexSpec LineIndexImpl.
Import ListNotations.
Open Scope N_scope.

Lemma c10_line p s : ~ inside_crlf (p ++ s) (bytes p) ->
  pos_of (p ++ s) (bytes p) = (count_terms p, u16 (last_line p)).
Proof. intros H. apply pos_of_prefix. now apply not_inside_crlf_split. Qed.

Lemma c10_line_inside_crlf p s :
  pos_of (p ++ 13 :: 10 :: s) (bytes p + 1) = (count_terms p, u16 (last_line p) + 1) /\
  off_of (p ++ 13 :: 10 :: s) (count_terms p) (u16 (last_line p) + 1) = bytes p.
Proof. split; [apply pos_of_inside_crlf|apply roundtrip_inside_crlf]. Qed.

Lemma c10_roundtrip t o : on_char_boundary t o -> ~ inside_crlf t o ->
  off_of t (fst (pos_of t o)) (snd (pos_of t o)) = o.
Proof.
  intros (p & s & -> & ->) H. apply not_inside_crlf_split in H.
  rewrite pos_of_prefix by assumption. cbn [fst snd]. now apply roundtrip_prefix.
Qed.

Lemma c10_clamp :
  (forall t l q content rest c, is_line t l q content rest -> u16 content <= c ->
     off_of t l c = bytes q + bytes content) /\
  (forall t l c, count_terms t < l -> off_of t l c = bytes t).
Proof. split; [exact off_of_clamp|exact off_of_past_last_line]. Qed.

Lemma c10_column t l q x y rest c :
  is_line t l q (x ++ y) rest -> u16 x <= c ->
  (y = [] \/ exists d y', y = d :: y' /\ c < u16 x + utf16_len d) ->
  off_of t l c = bytes q + bytes x.
Proof. apply off_of_column. Qed.

(** every offset on a character boundary is either between a CR and its LF or not (the two cases of
    C10_line / C10_line_inside_crlf are exhaustive) *)
Lemma c10_boundary_cases t o : on_char_boundary t o -> inside_crlf t o \/ ~ inside_crlf t o.
Proof.
  intros (p & s & -> & ->). destruct (crlf_split p s) eqn:E.
  - left. now apply crlf_split_inside.
  - right. now apply split_not_inside_crlf.
Qed.

(* ------------------------------------------------------------------------------------------ *)
(** * Non-vacuity: a text with 3-byte, astral and 2-byte characters, CR LF, lone CR, FF, U+2028, LF *)

Definition ex_p : text := [8364; 13; 10; 128512; 233].
Definition ex_s : text := [13; 97; 12; 8232; 10].
Definition ex_t : text := ex_p ++ ex_s.

Lemma ex_not_inside : ~ inside_crlf (ex_p ++ ex_s) (bytes ex_p).
Proof. apply split_not_inside_crlf. reflexivity. Qed.

Lemma ex_line_value : pos_of (ex_p ++ ex_s) (bytes ex_p) = (1, 3) /\ (count_terms ex_p, u16 (last_line ex_p)) = (1, 3).
Proof. split; reflexivity. Qed.

Lemma ex_roundtrip_hyp : on_char_boundary ex_t 11 /\ ~ inside_crlf ex_t 11.
Proof. split; [exists ex_p, ex_s; split; reflexivity|exact ex_not_inside]. Qed.

Lemma ex_is_line : is_line ex_t 1 [8364; 13; 10] [128512; 233] ex_s /\ u16 [128512; 233] <= 7.
Proof.
  split; [|vm_compute; discriminate]. unfold is_line. split; [reflexivity|]. split; [reflexivity|].
  split; [reflexivity|]. split.
  - change ex_t with ([8364; 13; 10] ++ ([128512; 233] ++ ex_s)). apply split_not_inside_crlf. reflexivity.
  - split; [reflexivity|]. right. exists 13, [97; 12; 8232; 10]. split; reflexivity.
Qed.

Lemma ex_clamp_value : off_of ex_t 1 7 = 11 /\ off_of ex_t 9 0 = 18 /\ bytes ex_t = 18 /\ count_terms ex_t = 3.
Proof. repeat split; reflexivity. Qed.

Lemma ex_column_hyp :
  is_line ex_t 1 [8364; 13; 10] ([128512] ++ [233]) ex_s /\ u16 [128512] <= 2 /\
  exists d y', [233] = d :: y' /\ 2 < u16 [128512] + utf16_len d.
Proof.
  split; [exact (proj1 ex_is_line)|]. split; [vm_compute; discriminate|].
  exists 233, []. split; [reflexivity|]. vm_compute. reflexivity.
Qed.

Lemma ex_small : bytes ex_t <= u32_max.
Proof. vm_compute. discriminate. Qed.

Lemma ex_impl_value :
  text_to_position ex_t 11 = Ok (1, 3) /\ text_to_position ex_t 9 = Ok (1, 2) /\
  text_from_position ex_t 1 1 = Ok 5 /\ text_from_position ex_t 2 9 = Ok 17.
Proof. repeat split; reflexivity. Qed.

(** the spot values of DESIGN.md Appendix A.1 *)
Lemma spot_values :
  pos_of [233; 10; 120] 2 = (0, 1) /\ pos_of [233; 10; 120] 3 = (1, 0) /\
  pos_of [97; 13; 10; 98] 2 = (0, 2) /\ pos_of [97; 12; 98; 10; 99] 2 = (0, 2) /\
  pos_of [128512; 97] 4 = (0, 2) /\ off_of [97; 98; 10; 99] 0 10 = 2 /\
  off_of [97; 98; 10; 99] 5 0 = 4 /\ off_of [97; 13; 10; 98] 0 5 = 1.
Proof. repeat split; reflexivity. Qed.
