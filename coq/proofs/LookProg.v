(** A-look / A-prog: one abstract interpretation of the grammar DSL (GInterp.v) over the domain
      (L, cs)  =  (set of token kinds the look-ahead may have, "a token was consumed since function entry"),
    checked against a per-function CERTIFICATE (required entry look-ahead [pre], exit look-ahead [post],
    kinds at which the function has consumed when it returns true / false [ct]/[cf], [rank]).
    The certificate is computed by an untrusted fix-point (tools/cert_grammar.py); [chk_all] re-checks it
    inside Coq (vm_compute) on the regenerated program.  This file: the executable analysis and checker
    (no proofs about gexec; soundness is in LookProgSound.v). *)
From Coq Require Import List Arith NArith Bool Lia.
From TG.Gen Require Import GenTokens GenLexTables.
From TG.Model Require Import Chars Lexer Prep Tree ParserPrims GInterp.
Import ListNotations.

(** * Sets of token kinds as bit masks *)
Definition kset := N.
Definition kmem (k : TokenKind) (A : kset) : bool := N.testbit A (tk_index k).
Definition kof (ks : list TokenKind) : kset := fold_right (fun k a => N.setbit a (tk_index k)) 0%N ks.
Definition kall : kset := kof all_token_kinds.
Definition kinter (A B : kset) : kset := N.land A B.
Definition kunion (A B : kset) : kset := N.lor A B.
Definition kdiff (A B : kset) : kset := N.ldiff A B.
Definition ksub (A B : kset) : bool := N.eqb (N.ldiff A B) 0%N.
Definition kempty (A : kset) : bool := N.eqb A 0%N.
Definition keof : kset := kof [T_Eof].

(** * Abstract facts *)
Record fact := { L : kset; cs : bool }.
Definition ofact := option fact.
Definition join (a b : ofact) : ofact :=
  match a, b with
  | None, x | x, None => x
  | Some a, Some b => Some {| L := kunion (L a) (L b); cs := cs a && cs b |}
  end.
(** normal-true, normal-false, break, return-true, return-false *)
Record ares := { rt : ofact; rf : ofact; rb : ofact; qt : ofact; qf : ofact; ok : bool }.
Definition mk (t f : ofact) : ares := {| rt := t; rf := f; rb := None; qt := None; qf := None; ok := true |}.
Definition nores : ares := mk None None.
Definition bind (o : ofact) (k : fact -> ares) : ares := match o with None => nores | Some a => k a end.
Definition allc (o : ofact) : bool := match o with None => true | Some f => cs f end.

Definition refine (a : fact) (S : kset) : ofact :=
  let l := kinter (L a) S in if kempty l then None else Some {| L := l; cs := cs a |}.
Definition refine_not (a : fact) (S : kset) : ofact :=
  let l := kdiff (L a) S in if kempty l then None else Some {| L := l; cs := cs a |}.
(** after an [eat]: the look-ahead is unknown; consumed if [c] *)
Definition ate (a : fact) (c : bool) : fact := {| L := kall; cs := cs a || c |}.
Definition not_eof (k : TokenKind) : bool := negb (tk_eqb k T_Eof).
Definition no_eof (A : kset) : bool := negb (kmem T_Eof A).

(** * Certificates *)
Record fcert := { pre : kset; post : kset; ct : kset; cf : kset; rank : nat }.
Definition nocert : fcert := {| pre := 0%N; post := kall; ct := 0%N; cf := 0%N; rank := 0 |}.
Definition cert := list fcert.
Definition cert_of (c : cert) (f : nat) : fcert := nth f c nocert.

Section AN.
Variable p : prog.
Variable ce : cert.

Definition an_prim (pr : prim) (a : fact) : ares :=
  match pr with
  | PStartNode _ | PFinishNode | PCheckpoint | PStartNodeAt _ _ | PError _ => mk (Some a) None
  | PAssert k => {| rt := Some (ate a (not_eof k)); rf := None; rb := None; qt := None; qf := None;
                    ok := ksub (L a) (kof [k]) |}
  | PExpect k _ => mk (join (if kmem k (L a) then Some (ate a (not_eof k)) else None) (refine_not a (kof [k]))) None
  | PEat => mk (Some (ate a (no_eof (L a)))) None
  | PEatIf k => mk (if kmem k (L a) then Some (ate a (not_eof k)) else None) (refine_not a (kof [k]))
  | PSkip => mk (Some {| L := kall; cs := cs a |}) None
  | PErrorAndEat _ => mk (Some (ate a (no_eof (L a)))) None
  | PErrorAndRecover _ =>
      let R := kof (T_Eof :: recover_tokens p) in
      mk (join (refine a R) (if kempty (kdiff (L a) R) then None else Some (ate a true))) None
  | PAtSet ks => mk (refine a (kof ks)) (refine_not a (kof ks))
  end.

(** [chk]: enforce the rank condition on calls made before anything was consumed; [r]: rank of the
    function being analysed *)
Fixpoint an (chk : bool) (r : nat) (e : expr) (a : fact) : ares :=
  match e with
  | EB true => mk (Some a) None
  | EB false => mk None (Some a)
  | EVar _ => mk (Some a) (Some a)
  | ENot x => let q := an chk r x a in
              {| rt := rf q; rf := rt q; rb := rb q; qt := qt q; qf := qf q; ok := ok q |}
  | EPrim pr => an_prim pr a
  | ECall f _ =>
      let c := cert_of ce f in
      {| rt := Some {| L := post c; cs := cs a || ksub (L a) (ct c) |};
         rf := Some {| L := post c; cs := cs a || ksub (L a) (cf c) |};
         rb := None; qt := None; qf := None;
         ok := ksub (L a) (pre c) && (negb chk || cs a || Nat.ltb (rank c) r) |}
  | ESeq x y =>
      let q := an chk r x a in
      let q2 := bind (join (rt q) (rf q)) (an chk r y) in
      {| rt := rt q2; rf := rf q2; rb := join (rb q) (rb q2);
         qt := join (qt q) (qt q2); qf := join (qf q) (qf q2); ok := ok q && ok q2 |}
  | EIf c x y =>
      let q := an chk r c a in
      let qx := bind (rt q) (an chk r x) in
      let qy := bind (rf q) (an chk r y) in
      {| rt := join (rt qx) (rt qy); rf := join (rf qx) (rf qy);
         rb := join (rb q) (join (rb qx) (rb qy));
         qt := join (qt q) (join (qt qx) (qt qy)); qf := join (qf q) (join (qf qx) (qf qy));
         ok := ok q && ok qx && ok qy |}
  | EWhile c b =>
      let h := {| L := kall; cs := cs a |} in
      let qc := an chk r c h in
      let qb := bind (rt qc) (an chk r b) in
      let h0 := {| L := kall; cs := false |} in
      let qc0 := an false r c h0 in
      let qb0 := bind (rt qc0) (an false r b) in
      {| rt := join (rf qc) (rb qb); rf := None; rb := rb qc;
         qt := join (qt qc) (qt qb); qf := join (qf qc) (qf qb);
         ok := ok qc && ok qb && ok qc0 && ok qb0 && allc (join (rt qb0) (rf qb0)) |}
  | EBreak => {| rt := None; rf := None; rb := Some a; qt := None; qf := None; ok := true |}
  | EReturn x =>
      let q := an chk r x a in
      {| rt := None; rf := None; rb := rb q; qt := join (rt q) (qt q); qf := join (rf q) (qf q); ok := ok q |}
  | ESet _ x =>
      let q := an chk r x a in
      {| rt := join (rt q) (rf q); rf := None; rb := rb q; qt := qt q; qf := qf q; ok := ok q |}
  end.

(** exits of a function body entered at the single kind [k] *)
Definition exit_ok (c : fcert) (o : ofact) (need : bool) : bool :=
  match o with
  | None => true
  | Some x => ksub (L x) (post c) && implb need (cs x)
  end.
Definition chk_fn_at (c : fcert) (body : expr) (k : TokenKind) : bool :=
  implb (kmem k (pre c))
    (let q := an true (rank c) body {| L := kof [k]; cs := false |} in
     ok q && exit_ok c (join (rt q) (qt q)) (kmem k (ct c)) && exit_ok c (join (rf q) (qf q)) (kmem k (cf c))).
Definition chk_fn (f : nat) (body : expr) : bool :=
  forallb (chk_fn_at (cert_of ce f) body) all_token_kinds.
Fixpoint chk_fns (f : nat) (l : list expr) : bool :=
  match l with [] => true | b :: r => chk_fn f b && chk_fns (S f) r end.
End AN.

(** the whole reflective obligation: every function is consistent with the certificate; the entry
    function accepts every look-ahead *)
Definition chk_all (p : prog) (ce : cert) (entry : nat) : bool :=
  chk_fns p ce 0 (fns p) && ksub kall (pre (cert_of ce entry)).
(** A-eof: the entry function returns only at Eof *)
Definition chk_eof (ce : cert) (entry : nat) : bool := ksub (post (cert_of ce entry)) keof.
