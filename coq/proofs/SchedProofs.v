(** Property C08 (and the concurrency half of C11): the lock protocol LTS of model/Sched.v.
    - [inv_reach]         the invariant (static script discipline vs. dynamic lock state) holds in every
                          reachable state, for every policy, every script that passes [script_ok], hence any number of
                          handlers and tasks;
    - [progress]          in a state satisfying the invariant that is not final, some thread can step;
    - [measure_dec]       every step decreases [measure]: every schedule is finite;
    - [completes]         every reachable state reaches a final state;
    - [pub_trace]         the publications emitted so far, then the pending ones of the (at most one) publishing
                          task, then those of the tasks still to be spawned, are the sequential publication
                          stream of the script;
    - [old_deadlocks]     before fix 0d12b07 (no barrier) didOpen; didChange reaches a stuck state that is not final.
    No bound on anything: induction on reachability / lists. *)
From Coq Require Import List Bool Arith Lia.
From TG.Model Require Import Sched.
Import ListNotations.

Set Implicit Arguments.

(* ------------------------------------------------------------------------------------------ *)
(** * Lists *)

Section Lists.
Context {A : Type}.

Lemma upd_length (i : nat) (x : A) l : length (upd i x l) = length l.
Proof. revert i; induction l as [|y r IH]; intros [|i]; cbn; auto. Qed.

Lemma nth_error_upd_eq (x : A) l : forall i y, nth_error l i = Some y -> nth_error (upd i x l) i = Some x.
Proof. induction l as [|z r IH]; intros [|i] y H; cbn in *; try discriminate; eauto. Qed.

Lemma nth_error_upd_neq (x : A) l : forall i j, i <> j -> nth_error (upd i x l) j = nth_error l j.
Proof.
  induction l as [|z r IH]; intros [|i] [|j] H; cbn; auto; try congruence.
Qed.

Lemma In_upd (x : A) l : forall i y, In y (upd i x l) -> y = x \/ In y l.
Proof.
  induction l as [|z r IH]; intros [|i] y H; cbn in *; auto.
  - destruct H as [H|H]; auto.
  - destruct H as [H|H]; auto. destruct (IH _ _ H); auto.
Qed.

Lemma forallb_upd (f : A -> bool) (x : A) l : forall i,
  forallb f l = true -> f x = true -> forallb f (upd i x l) = true.
Proof.
  induction l as [|z r IH]; intros [|i] H Hx; cbn in *; auto;
    apply andb_true_iff in H; destruct H as [H1 H2]; apply andb_true_iff; auto.
Qed.

Lemma forallb_nth (f : A -> bool) l : forall i y, forallb f l = true -> nth_error l i = Some y -> f y = true.
Proof.
  induction l as [|z r IH]; intros [|i] y H Hn; cbn in *; try discriminate;
    apply andb_true_iff in H; destruct H as [H1 H2].
  - injection Hn as <-. exact H1.
  - eauto.
Qed.

Lemma existsb_nth (f : A -> bool) l : existsb f l = true -> exists i y, nth_error l i = Some y /\ f y = true.
Proof.
  induction l as [|z r IH]; cbn; intros H; [discriminate|].
  apply orb_true_iff in H. destruct H as [H|H].
  - exists 0, z. auto.
  - destruct (IH H) as (i & y & Hn & Hf). exists (S i), y. auto.
Qed.

Lemma existsb_false_all (f : A -> bool) l : existsb f l = false -> forall y, In y l -> f y = false.
Proof.
  induction l as [|z r IH]; cbn; intros H y Hy; [contradiction|].
  apply orb_false_iff in H. destruct H as [H1 H2]. destruct Hy as [<-|Hy]; auto.
Qed.

Lemma filter_nil_all (f : A -> bool) l : (forall y, In y l -> f y = false) -> filter f l = [].
Proof.
  induction l as [|z r IH]; cbn; intros H; auto.
  rewrite (H z (or_introl eq_refl)). apply IH. intros y Hy. apply H. auto.
Qed.

Lemma nth_error_In' l : forall i (y : A), nth_error l i = Some y -> In y l.
Proof. intros i y H. eapply nth_error_In; eauto. Qed.
End Lists.

(* ------------------------------------------------------------------------------------------ *)

Section Proofs.
Context {P : Type}.
Notation wact := (wact P).
Notation worker := (worker P).
Notation mact := (mact P).
Notation st := (st P).

Implicit Types (s : st) (w : worker) (pol : policy).

(** * Facts about the static checks *)

Lemma script_ok_mono (l : list mact) : forall h, script_ok h false l = true -> script_ok h true l = true.
Proof.
  induction l as [|a r IH]; intros h H; cbn in *; auto.
  destruct a; auto.
  - apply andb_true_iff in H. destruct H as [H1 H2]. apply andb_true_iff. split; auto. destruct h; auto.
  - apply andb_true_iff in H. destruct H as [H1 H2]. apply andb_true_iff. split; auto.
  - apply andb_true_iff in H. destruct H as [H1 H2]. apply andb_true_iff. split; auto. destruct h; auto.
  - apply andb_true_iff in H. destruct H as [H1 H2]. apply andb_true_iff. split; auto.
Qed.

Lemma script_ok_le (l : list mact) h (b b' : bool) :
  (b = true -> b' = true) -> script_ok h b l = true -> script_ok h b' l = true.
Proof.
  intros Hb H. destruct b, b'; auto.
  - discriminate (Hb eq_refl).
  - apply script_ok_mono; exact H.
Qed.

Lemma pub_ok_le (l : list mact) : forall (b b' : bool),
  (b = true -> b' = true) -> pub_ok b l = true -> pub_ok b' l = true.
Proof.
  induction l as [|a r IH]; intros b b' Hb H; cbn in *; auto.
  destruct a; eauto.
  apply andb_true_iff in H. destruct H as [H1 H3]. apply andb_true_iff in H1. destruct H1 as [H1 H2].
  rewrite H1, H3. cbn. destruct (pubs_of sk); auto. rewrite (Hb H2). reflexivity.
Qed.

Lemma noq_app (l1 l2 : list worker) : noq (l1 ++ l2) = noq l1 && noq l2.
Proof. unfold noq. apply forallb_app. Qed.

Lemma noq_upd_mono (l : list worker) : forall i w w',
  nth_error l i = Some w -> (wq w' = true -> wq w = true) -> noq l = true -> noq (upd i w' l) = true.
Proof.
  intros i w w' Hn Hq H. unfold noq in *. apply forallb_upd; auto.
  pose proof (forallb_nth _ _ _ H Hn) as Hw. cbn in Hw.
  destruct (wq w') eqn:E; auto. rewrite (Hq eq_refl) in Hw. discriminate.
Qed.

Ltac simp_st := cbn [mpc ws vw vwait out].
Ltac wcase H := try match type of H with context [if ?c then _ else _] => destruct c; [|discriminate H] end.

(** * The invariant *)

Definition Inv s : Prop :=
  script_ok (vw s) (noq (ws s)) (mpc s) = true /\
  forallb (@wf_worker P) (ws s) = true /\
  (vwait s = true -> vw s = false /\ exists r, mpc s = MVW :: r).

Lemma inv_init (script : list mact) : script_ok false true script = true -> Inv (init script).
Proof. intros H. split; [exact H|]. split; [reflexivity|]. cbn. discriminate. Qed.

Lemma wstep_shape pol s w w' o : wstep pol s w = Some (w', o) ->
  exists a, rem w = a :: rem w' /\ (wq w' = true -> wq w = true) /\
            (wf_worker w = true -> wf_worker w' = true).
Proof.
  unfold wstep. destruct (rem w) as [|a r] eqn:E; [discriminate|]. intros H. exists a.
  unfold wf_worker. rewrite E.
  destruct a; cbn in H;
    try (destruct (can_read pol s)); try (destruct (negb (p_held (ws s))));
    try discriminate; injection H as <- <-; cbn; (split; [reflexivity|]);
    (split; [intros Hq; first [exact Hq|discriminate]|]); intros Hw;
    repeat (apply andb_true_iff in Hw; destruct Hw as [? Hw]); auto.
Qed.

Lemma inv_step pol l s s' : Inv s -> exec pol l s = Some s' -> Inv s'.
Proof.
  intros (Hs & Hw & Hv) H. destruct l as [| |i]; cbn in H.
  - (* main *)
    unfold mstep in H. destruct (mpc s) as [|a r] eqn:Em; [discriminate|].
    assert (Hvf : vwait s = true -> a = MVW).
    { intros E. destruct (Hv E) as (_ & r' & Er). congruence. }
    destruct a; cbn in Hs.
    + injection H as <-. split; [|split]; simp_st; auto.
      intros E. discriminate (Hvf E).
    + destruct (noq (ws s)) eqn:En; [|discriminate]. injection H as <-.
      apply andb_true_iff in Hs. destruct Hs as [_ Hs].
      split; [|split]; simp_st; auto. { rewrite En. exact Hs. } intros E. discriminate (Hvf E).
    + destruct (can_write s) eqn:Ec; [|discriminate]. injection H as <-.
      apply andb_true_iff in Hs. destruct Hs as [_ Hs].
      split; [|split]; simp_st; auto. discriminate.
    + destruct (noq (ws s)) eqn:En; [|discriminate]. injection H as <-.
      apply andb_true_iff in Hs. destruct Hs as [_ Hs].
      split; [|split]; simp_st; auto. { rewrite En. exact Hs. } intros E. discriminate (Hvf E).
    + injection H as <-. apply andb_true_iff in Hs. destruct Hs as [_ Hs].
      split; [|split]; simp_st; auto. intros E. discriminate (Hvf E).
    + injection H as <-. apply andb_true_iff in Hs. destruct Hs as [Hk Hs].
      split; [|split]; simp_st.
      * rewrite noq_app. cbn. rewrite andb_false_r. exact Hs.
      * rewrite forallb_app. rewrite Hw. cbn. unfold wf_worker. cbn. rewrite andb_true_r. exact Hk.
      * intros E. discriminate (Hvf E).
  - (* main queues *)
    unfold mwait in H. destruct (mpc s) as [|a r] eqn:Em; [discriminate|].
    destruct a; try discriminate.
    destruct (negb (vwait s) && negb (can_write s)); [|discriminate]. injection H as <-.
    cbn in Hs. apply andb_true_iff in Hs. destruct Hs as [Hh Hs].
    split; [|split]; simp_st; auto.
    + cbn [script_ok]. rewrite Hh, Hs. reflexivity.
    + intros _. split; [destruct (vw s); auto; discriminate|]. exists r. reflexivity.
  - (* worker *)
    destruct (nth_error (ws s) i) as [w|] eqn:En; [|discriminate].
    destruct (wstep pol s w) as [[w' o]|] eqn:Ew; [|discriminate]. injection H as <-.
    destruct (wstep_shape _ _ _ Ew) as (a & Er & Hq & Hwf).
    split; [|split]; simp_st; auto.
    + eapply script_ok_le; [|exact Hs]. intros Hn. eapply noq_upd_mono; eauto.
    + apply forallb_upd; auto. apply Hwf. eapply forallb_nth; eauto.
Qed.

Lemma inv_reach pol script s : script_ok false true script = true -> reach pol (init script) s -> Inv s.
Proof.
  intros Hs Hr. induction Hr as [|s1 s2 _ IH [l Hl]]; [apply inv_init; exact Hs|].
  eapply inv_step; eauto.
Qed.

(** * Progress *)

Lemma final_b_spec s : final_b s = true <-> final s.
Proof.
  unfold final_b, final. destruct (mpc s) as [|a r].
  - rewrite forallb_forall. split.
    + intros H. split; auto. intros w Hw. specialize (H w Hw). destruct (rem w); auto; discriminate.
    + intros [_ H] w Hw. rewrite (H w Hw). reflexivity.
  - split; [discriminate|]. intros [H _]. discriminate.
Qed.

Lemma main_enabled_when_writing s : Inv s -> vw s = true -> exists s', mstep s = Some s'.
Proof.
  intros (Hs & _ & _) Hv. rewrite Hv in Hs. unfold mstep.
  destruct (mpc s) as [|a r]; cbn in Hs; [discriminate|].
  destruct a; cbn in Hs; eauto.
  - apply andb_true_iff in Hs. destruct Hs as [Hn _]. rewrite Hn. eauto.
  - discriminate.
  - apply andb_true_iff in Hs. destruct Hs as [Hn _]. rewrite Hn. eauto.
Qed.

Lemma wf_from_held (l : list wact) v p q : wf_from v p q l = true -> (v || p) = true ->
  exists a r, l = a :: r /\ a <> WAcqV /\ a <> WAcqP.
Proof.
  intros H Hh. destruct l as [|a r].
  - cbn in H. destruct v, p; cbn in *; discriminate.
  - exists a, r. split; [reflexivity|]. split; intros ->; cbn in H; destruct v, p; cbn in *; discriminate.
Qed.

Lemma wstep_no_acq pol s w a r : rem w = a :: r -> a <> WAcqV -> a <> WAcqP -> exists x, wstep pol s w = Some x.
Proof.
  intros E H1 H2. unfold wstep. rewrite E. destruct a; eauto; congruence.
Qed.

Lemma readers_zero (l : list worker) : (forall w, In w l -> wv w = false) -> readers l = 0.
Proof. intros H. unfold readers. rewrite filter_nil_all; auto. Qed.

Lemma exec_worker pol s i w x : nth_error (ws s) i = Some w -> wstep pol s w = Some x ->
  exists s', exec pol (LWorker i) s = Some s'.
Proof. intros Hn Hw. cbn. rewrite Hn, Hw. destruct x. eauto. Qed.

Theorem progress pol s : Inv s -> ~ final s -> exists l s', exec pol l s = Some s'.
Proof.
  intros HI Hnf. pose proof HI as (Hs & Hw & Hv).
  destruct (vw s) eqn:Evw.
  { destruct (main_enabled_when_writing HI Evw) as [s' H]. exists LMain, s'. exact H. }
  destruct (existsb (fun w => wv w || wp w) (ws s)) eqn:Eh.
  { (* somebody holds V or P: he is not about to acquire anything *)
    destruct (existsb_nth _ _ Eh) as (i & w & Hn & Hh).
    pose proof (forallb_nth _ _ _ Hw Hn) as Hwf. unfold wf_worker in Hwf.
    destruct (wf_from_held _ _ _ _ Hwf Hh) as (a & r & Er & Ha1 & Ha2).
    destruct (wstep_no_acq pol s w Er Ha1 Ha2) as [x Hx].
    destruct (exec_worker _ _ _ Hn Hx) as [s' H]. exists (LWorker i), s'. exact H. }
  pose proof (existsb_false_all _ _ Eh) as Hnone.
  assert (Hr : readers (ws s) = 0).
  { apply readers_zero. intros w Hin. specialize (Hnone w Hin). apply orb_false_iff in Hnone. tauto. }
  assert (Hp : p_held (ws s) = false).
  { unfold p_held. destruct (existsb (@wp P) (ws s)) eqn:E; auto.
    destruct (existsb_nth _ _ E) as (i & w & Hn & Hh). specialize (Hnone w (nth_error_In' _ _ Hn)).
    cbn beta in Hnone. rewrite Hh, orb_true_r in Hnone. discriminate. }
  assert (Hcw : can_write s = true).
  { unfold can_write. rewrite Evw, Hr. reflexivity. }
  destruct (existsb (fun w => match rem w with [] => false | _ => true end) (ws s)) eqn:El.
  { (* a live worker holding nothing *)
    destruct (existsb_nth _ _ El) as (i & w & Hn & Hl).
    destruct (rem w) as [|a r] eqn:Er; [discriminate|].
    destruct (wstep pol s w) as [x|] eqn:Ex.
    { destruct (exec_worker _ _ _ Hn Ex) as [s' H]. exists (LWorker i), s'. exact H. }
    unfold wstep in Ex. rewrite Er in Ex. destruct a; try discriminate.
    - (* blocked on vfs.read(): a writer is queued and can enter *)
      unfold can_read in Ex. rewrite Evw in Ex. cbn in Ex.
      destruct (vwait s) eqn:Ew; cbn in Ex; [|discriminate].
      destruct (Hv eq_refl) as (_ & r' & Em).
      exists LMain. cbn. unfold mstep. rewrite Em, Hcw. eauto.
    - rewrite Hp in Ex. discriminate. }
  (* every worker has finished *)
  pose proof (existsb_false_all _ _ El) as Hdone.
  assert (Hq : noq (ws s) = true).
  { unfold noq. apply forallb_forall. intros w Hin. specialize (Hdone w Hin). cbn beta in Hdone.
    rewrite forallb_forall in Hw. specialize (Hw w Hin). unfold wf_worker in Hw.
    destruct (rem w); [|discriminate]. cbn in Hw. destruct (wq w); auto.
    rewrite andb_false_r in Hw. discriminate. }
  exists LMain. cbn. unfold mstep. destruct (mpc s) as [|a r] eqn:Em.
  - exfalso. apply Hnf. split; auto. intros w Hin. specialize (Hdone w Hin). cbn beta in Hdone. destruct (rem w); auto; discriminate.
  - destruct a; rewrite ?Hq, ?Hcw; eauto.
Qed.

(** * Termination *)

Lemma wcost_app (l1 l2 : list worker) : wcost (l1 ++ l2) = wcost l1 + wcost l2.
Proof. induction l1 as [|w r IH]; cbn; auto. rewrite IH. lia. Qed.

Lemma wcost_upd (l : list worker) : forall i w w' a, nth_error l i = Some w -> rem w = a :: rem w' ->
  S (wcost (upd i w' l)) = wcost l.
Proof.
  induction l as [|z r IH]; intros [|i] w w' a Hn Hr; cbn in *; try discriminate.
  - injection Hn as ->. rewrite Hr. cbn. lia.
  - rewrite <- (IH _ _ _ _ Hn Hr). lia.
Qed.

Theorem measure_dec pol l s s' : exec pol l s = Some s' -> measure s' < measure s.
Proof.
  intros H. unfold measure. destruct l as [| |i]; cbn in H.
  - unfold mstep in H. destruct (mpc s) as [|a r] eqn:Em; [discriminate|].
    destruct a; cbn in H;
      try (destruct (noq (ws s))); try (destruct (can_write s)); try discriminate;
      injection H as <-; cbn; rewrite ?wcost_app; cbn; destruct (vwait s); lia.
  - unfold mwait in H. destruct (mpc s) as [|a r] eqn:Em; [discriminate|].
    destruct a; try discriminate.
    destruct (vwait s) eqn:Ev; cbn in H; [discriminate|].
    destruct (negb (can_write s)); [|discriminate]. injection H as <-. simp_st. lia.
  - destruct (nth_error (ws s) i) as [w|] eqn:En; [|discriminate].
    destruct (wstep pol s w) as [[w' o]|] eqn:Ew; [|discriminate]. injection H as <-.
    destruct (wstep_shape _ _ _ Ew) as (a & Er & _). cbn.
    pose proof (wcost_upd _ _ _ En Er). lia.
Qed.

Theorem run_bounded pol tr : forall s s', run pol tr s = Some s' -> length tr + measure s' <= measure s.
Proof.
  induction tr as [|l r IH]; intros s s' H; cbn in H.
  - injection H as <-. cbn. lia.
  - destruct (exec pol l s) as [s1|] eqn:E; [|discriminate].
    pose proof (measure_dec _ _ _ E). specialize (IH _ _ H). cbn. lia.
Qed.

Lemma reach_run pol tr : forall s s', run pol tr s = Some s' -> reach pol s s'.
Proof.
  induction tr as [|l r IH]; intros s s' H; cbn in H.
  - injection H as <-. constructor.
  - destruct (exec pol l s) as [s1|] eqn:E; [|discriminate].
    specialize (IH _ _ H). clear H. induction IH as [|x y _ IH' Hs].
    + econstructor; [constructor|]. exists l. exact E.
    + econstructor; eauto.
Qed.

Lemma reach_trans pol s1 s2 s3 : reach pol s1 s2 -> reach pol s2 s3 -> reach pol s1 s3.
Proof. intros H1 H2. induction H2; auto. econstructor; eauto. Qed.

Lemma run_app pol tr1 : forall tr2 s s1 s2, run pol tr1 s = Some s1 -> run pol tr2 s1 = Some s2 ->
  run pol (tr1 ++ tr2) s = Some s2.
Proof.
  induction tr1 as [|l r IH]; intros tr2 s s1 s2 H1 H2; cbn in *.
  - injection H1 as <-. exact H2.
  - destruct (exec pol l s); [|discriminate]. eauto.
Qed.

(** every state satisfying the invariant can be driven to a final state (by ANY maximal continuation, since
    every continuation is bounded by [run_bounded] and can be extended by [progress] until final) *)
Theorem completes pol : forall n s, measure s <= n -> Inv s ->
  exists tr s', run pol tr s = Some s' /\ final s'.
Proof.
  induction n as [|n IH]; intros s Hm HI.
  - destruct (final_b s) eqn:Ef.
    + exists [], s. split; [reflexivity|]. apply final_b_spec; exact Ef.
    + destruct (progress pol HI) as (l & s' & H).
      { intros Hf. apply final_b_spec in Hf. congruence. }
      pose proof (measure_dec _ _ _ H). lia.
  - destruct (final_b s) eqn:Ef.
    + exists [], s. split; [reflexivity|]. apply final_b_spec; exact Ef.
    + destruct (progress pol HI) as (l & s' & H).
      { intros Hf. apply final_b_spec in Hf. congruence. }
      pose proof (measure_dec _ _ _ H).
      destruct (IH s') as (tr & s2 & Hr & Hf); [lia|eapply inv_step; eauto|].
      exists (l :: tr), s2. split; auto. cbn. rewrite H. exact Hr.
Qed.

(** * Every spawned task is there, and has finished, in a final state *)

Fixpoint spawns (l : list mact) : nat :=
  match l with [] => 0 | MSpawn _ :: r => S (spawns r) | _ :: r => spawns r end.

Lemma spawn_count_step pol l s s' : exec pol l s = Some s' ->
  length (ws s') + spawns (mpc s') = length (ws s) + spawns (mpc s).
Proof.
  intros H. destruct l as [| |i]; cbn in H.
  - unfold mstep in H. destruct (mpc s) as [|a r] eqn:Em; [discriminate|].
    destruct a; cbn in H;
      try (destruct (noq (ws s))); try (destruct (can_write s)); try discriminate;
      injection H as <-; cbn; rewrite ?app_length; cbn; lia.
  - unfold mwait in H. destruct (mpc s) as [|a r] eqn:Em; [discriminate|].
    destruct a; try discriminate.
    destruct (negb (vwait s) && negb (can_write s)); [|discriminate]. injection H as <-. simp_st. reflexivity.
  - destruct (nth_error (ws s) i) as [w|] eqn:En; [|discriminate].
    destruct (wstep pol s w) as [[w' o]|] eqn:Ew; [|discriminate]. injection H as <-. cbn.
    rewrite upd_length. reflexivity.
Qed.

Lemma spawn_count pol script s : reach pol (init script) s ->
  length (ws s) + spawns (mpc s) = spawns script.
Proof.
  intros Hr. induction Hr as [|s1 s2 _ IH [l Hl]]; [reflexivity|].
  rewrite (spawn_count_step _ _ _ Hl). exact IH.
Qed.

(* ------------------------------------------------------------------------------------------ *)
(** * The publication stream (C11, concurrency half) *)

Definition pend (l : list worker) : list (list P) := map (fun w => pubs_of (rem w)) l.
Definition nonempty (x : list P) : bool := match x with [] => false | _ => true end.
Definition single (pl : list (list P)) : Prop := length (filter nonempty pl) <= 1.

Lemma concat_all_nil (pl : list (list P)) : filter nonempty pl = [] -> concat pl = [].
Proof.
  induction pl as [|x r IH]; cbn; auto. destruct x; cbn; [auto|discriminate].
Qed.

Lemma single_pick (pl : list (list P)) : forall i x xs, single pl -> nth_error pl i = Some (x :: xs) ->
  concat pl = x :: xs /\ concat (upd i xs pl) = xs /\ single (upd i xs pl).
Proof.
  unfold single. induction pl as [|y r IH]; intros [|i] x xs Hs Hn; cbn in *; try discriminate.
  - injection Hn as ->. cbn in Hs.
    assert (E : filter nonempty r = []) by (destruct (filter nonempty r); cbn in *; [auto|lia]).
    rewrite (concat_all_nil _ E), !app_nil_r, E. split; auto. split; auto.
    destruct xs; cbn; lia.
  - destruct y as [|y0 y'].
    + cbn in *. eapply IH; eauto.
    + exfalso. cbn in Hs.
      assert (In (x :: xs) (filter nonempty r)).
      { apply filter_In. split; [eapply nth_error_In; eauto|reflexivity]. }
      destruct (filter nonempty r); cbn in *; [contradiction|lia].
Qed.

Lemma pend_upd_same (l : list worker) : forall i w w', nth_error l i = Some w ->
  pubs_of (rem w') = pubs_of (rem w) -> pend (upd i w' l) = pend l.
Proof.
  induction l as [|z r IH]; intros [|i] w w' Hn He; cbn in *; try discriminate.
  - injection Hn as ->. rewrite He. reflexivity.
  - f_equal. eauto.
Qed.

Lemma pend_upd (l : list worker) : forall i w', pend (upd i w' l) = upd i (pubs_of (rem w')) (pend l).
Proof. induction l as [|z r IH]; intros [|i] w'; cbn; auto. f_equal. auto. Qed.

Lemma pend_nth (l : list worker) i w : nth_error l i = Some w -> nth_error (pend l) i = Some (pubs_of (rem w)).
Proof. intros H. unfold pend. rewrite nth_error_map, H. reflexivity. Qed.

Lemma pubs_nil_before_drop (l : list wact) : pubs_of l = [] -> pubs_before_drop l = true.
Proof.
  induction l as [|a r IH]; cbn; auto. destruct a; auto; try discriminate.
  intros ->. reflexivity.
Qed.

Definition PInv (total : list P) s : Prop :=
  pub_ok (noq (ws s)) (mpc s) = true /\
  (forall w, In w (ws s) -> pubs_before_drop (rem w) = true /\ (wq w = false -> pubs_of (rem w) = [])) /\
  single (pend (ws s)) /\
  out s ++ concat (pend (ws s)) ++ script_pubs (mpc s) = total.

Lemma pinv_init (script : list mact) : pub_ok true script = true -> PInv (script_pubs script) (init script).
Proof.
  intros H. split; [exact H|]. split; [intros w []|]. split; [unfold single; cbn; lia|]. reflexivity.
Qed.

Lemma all_dropped_no_pending (l : list worker) :
  (forall w, In w l -> wq w = false -> pubs_of (rem w) = []) -> noq l = true -> filter nonempty (pend l) = [].
Proof.
  induction l as [|w r IH]; intros H Hq; cbn in *; auto.
  apply andb_true_iff in Hq. destruct Hq as [Hq1 Hq2].
  rewrite (H w (or_introl eq_refl)); [|destruct (wq w); auto; discriminate]. cbn.
  apply IH; auto.
Qed.

Lemma pinv_step pol total l s s' : PInv total s -> exec pol l s = Some s' -> PInv total s'.
Proof.
  intros (Hp & Hw & Hs & Ht) H. destruct l as [| |i]; cbn in H.
  - unfold mstep in H. destruct (mpc s) as [|a r] eqn:Em; [discriminate|].
    destruct a; cbn [pub_ok script_pubs] in Hp, Ht.
    + injection H as <-. split; [|split; [|split]]; simp_st; auto.
    + destruct (noq (ws s)) eqn:En; [|discriminate]. injection H as <-.
      split; [|split; [|split]]; simp_st; auto. rewrite En. exact Hp.
    + destruct (can_write s); [|discriminate]. injection H as <-. split; [|split; [|split]]; simp_st; auto.
    + destruct (noq (ws s)) eqn:En; [|discriminate]. injection H as <-.
      split; [|split; [|split]]; simp_st; auto. rewrite En. exact Hp.
    + injection H as <-. split; [|split; [|split]]; simp_st; auto.
    + injection H as <-.
      apply andb_true_iff in Hp. destruct Hp as [Hp Hp3]. apply andb_true_iff in Hp. destruct Hp as [Hp1 Hp2].
      split; [|split; [|split]]; simp_st.
      * rewrite noq_app. cbn. rewrite andb_false_r. exact Hp3.
      * intros w Hin. apply in_app_or in Hin. destruct Hin as [Hin|[<-|[]]]; auto.
        cbn. split; [exact Hp1|discriminate].
      * unfold pend. rewrite map_app. cbn. fold (pend (ws s)). unfold single in *.
        rewrite filter_app, app_length. cbn.
        destruct (pubs_of sk) eqn:Ek; cbn; [lia|].
        rewrite (all_dropped_no_pending (ws s)); [cbn; lia| |exact Hp2].
        intros w Hin. apply Hw; exact Hin.
      * unfold pend. rewrite map_app, concat_app. cbn. fold (pend (ws s)).
        rewrite app_nil_r, <- Ht, <- !app_assoc. reflexivity.
  - unfold mwait in H. destruct (mpc s) as [|a r] eqn:Em; [discriminate|].
    destruct a; try discriminate.
    destruct (negb (vwait s) && negb (can_write s)); [|discriminate]. injection H as <-.
    split; [|split; [|split]]; simp_st; auto.
  - destruct (nth_error (ws s) i) as [w|] eqn:En; [|discriminate].
    destruct (wstep pol s w) as [[w' o]|] eqn:Ew; [|discriminate]. injection H as <-.
    destruct (wstep_shape _ _ _ Ew) as (a & Er & Hq & _).
    destruct (Hw w (nth_error_In' _ _ En)) as [Hbd Hnd]. rewrite Er in Hbd, Hnd.
    assert (Hw' : pubs_before_drop (rem w') = true /\ (wq w' = false -> pubs_of (rem w') = [])).
    { unfold wstep in Ew. rewrite Er in Ew. destruct a; cbn in Ew, Hbd, Hnd; wcase Ew;
        injection Ew as <- <-; cbn in *; auto.
      - split; auto. intros Hq'. specialize (Hnd Hq'). discriminate.
      - destruct (pubs_of (rem w')) eqn:E; [|discriminate]. split; auto. apply pubs_nil_before_drop; exact E. }
    assert (Hall : forall x, In x (upd i w' (ws s)) ->
                   pubs_before_drop (rem x) = true /\ (wq x = false -> pubs_of (rem x) = [])).
    { intros x Hin. destruct (In_upd _ _ _ _ Hin) as [->|Hin']; auto. }
    assert (Hpo : pub_ok (noq (upd i w' (ws s))) (mpc s) = true).
    { eapply pub_ok_le; [|exact Hp]. intros Hn. eapply noq_upd_mono; eauto. }
    destruct a; unfold wstep in Ew; rewrite Er in Ew; cbn in Ew; wcase Ew;
      injection Ew as Ew1 Ew2; subst o;
      try (assert (Hsame : pend (upd i w' (ws s)) = pend (ws s))
             by (eapply pend_upd_same; [exact En|rewrite Er; reflexivity]);
           split; [|split; [|split]]; simp_st; rewrite ?Hsame, ?app_nil_r; auto).
    (* the publish step *)
    pose proof (pend_nth _ _ En) as Hpn. rewrite Er in Hpn. cbn in Hpn.
    destruct (single_pick _ Hs Hpn) as (Hc & Hc' & Hs').
    split; [|split; [|split]]; simp_st; auto.
    + rewrite pend_upd. exact Hs'.
    + rewrite pend_upd, Hc', <- Ht, Hc, <- !app_assoc. reflexivity.
Qed.

Theorem pub_trace pol script s : pub_ok true script = true -> reach pol (init script) s ->
  PInv (script_pubs script) s.
Proof.
  intros Hs Hr. induction Hr as [|s1 s2 _ IH [l Hl]]; [apply pinv_init; exact Hs|].
  eapply pinv_step; eauto.
Qed.

Lemma final_pend_nil (l : list worker) : (forall w, In w l -> rem w = []) -> concat (pend l) = [].
Proof.
  induction l as [|w r IH]; intros H; cbn; auto.
  rewrite (H w (or_introl eq_refl)). cbn. apply IH. intros x Hx. apply H. right. exact Hx.
Qed.

Corollary pub_trace_final pol script s : pub_ok true script = true -> reach pol (init script) s -> final s ->
  out s = script_pubs script.
Proof.
  intros Hs Hr [Hm Hf]. destruct (pub_trace Hs Hr) as (_ & _ & _ & Ht).
  rewrite (final_pend_nil _ Hf), Hm in Ht. cbn in Ht. rewrite app_nil_r in Ht. exact Ht.
Qed.

Corollary pub_trace_prefix pol script s : pub_ok true script = true -> reach pol (init script) s ->
  exists rest, script_pubs script = out s ++ rest.
Proof.
  intros Hs Hr. destruct (pub_trace Hs Hr) as (_ & _ & _ & Ht). eexists. symmetry. exact Ht.
Qed.

(* ------------------------------------------------------------------------------------------ *)
(** * The scripts of the real server pass the static checks *)

Lemma wf_pubs (pubs : list P) : forall r, wf_from false false true r = true ->
  wf_from false false true (flat_map pub1 pubs ++ r) = true.
Proof. induction pubs as [|p ps IH]; intros r H; cbn; auto. Qed.

Lemma wf_diag (pubs : list P) : wf_skel (@diag P pubs) = true.
Proof. unfold wf_skel, diag. cbn. apply wf_pubs. reflexivity. Qed.

Lemma wf_skeleton (k : kind) : wf_skel (@skeleton P k) = true.
Proof. destruct k as [| | | | |[]|[]|[]]; reflexivity. Qed.

Lemma pubs_of_app (l1 l2 : list wact) : pubs_of (l1 ++ l2) = pubs_of l1 ++ pubs_of l2.
Proof. induction l1 as [|a r IH]; cbn; auto. destruct a; cbn; auto. f_equal. auto. Qed.

Lemma pubs_of_flat (pubs : list P) : pubs_of (flat_map pub1 pubs) = pubs.
Proof. induction pubs as [|p r IH]; cbn; auto. f_equal. auto. Qed.

Lemma pubs_of_diag (pubs : list P) : pubs_of (diag pubs) = pubs.
Proof. unfold diag. cbn. rewrite pubs_of_app, pubs_of_flat. cbn. apply app_nil_r. Qed.

Lemma pubs_of_skeleton (k : kind) : pubs_of (@skeleton P k) = [].
Proof. destruct k as [| | | | |[]|[]|[]]; reflexivity. Qed.

Lemma pbd_app (l1 l2 : list wact) : (forall a, In a l1 -> a <> WDrop) ->
  pubs_before_drop (l1 ++ l2) = pubs_before_drop l2.
Proof.
  induction l1 as [|a r IH]; intros H; cbn; auto.
  assert (a <> WDrop) by (apply H; left; reflexivity).
  rewrite <- IH by (intros x Hx; apply H; right; exact Hx). destruct a; auto; congruence.
Qed.

Lemma pbd_diag (pubs : list P) : pubs_before_drop (diag pubs) = true.
Proof.
  unfold diag. cbn. rewrite pbd_app; [reflexivity|].
  intros a Ha. apply in_flat_map in Ha. destruct Ha as (p & _ & Ha). cbn in Ha.
  intros ->. repeat (destruct Ha as [Ha|Ha]; [discriminate|]). contradiction.
Qed.

Lemma pbd_skeleton (k : kind) : pubs_before_drop (@skeleton P k) = true.
Proof. destruct k as [| | | | |[]|[]|[]]; reflexivity. Qed.

Lemma script_ok_inner_app k (r : list mact) : script_ok true true r = true -> script_ok true true (inner k ++ r) = true.
Proof. induction k as [|k IH]; intros H; cbn [inner app script_ok implb andb]; auto. Qed.

Lemma script_ok_app_handler k (pubs : list P) (r : list mact) nw :
  script_ok false false r = true -> script_ok false nw (handler k pubs ++ r) = true.
Proof.
  intros H. unfold handler. rewrite <- !app_assoc. cbn [app script_ok implb negb andb].
  rewrite script_ok_inner_app; [reflexivity|].
  cbn [app script_ok implb negb andb]. rewrite wf_diag. exact H.
Qed.

Theorem script_of_ok (items : list (item P)) : forall nw, script_ok false nw (script_of items) = true.
Proof.
  induction items as [|it r IH]; intros nw; [reflexivity|].
  unfold script_of. cbn [flat_map]. fold (script_of r). destruct it as [k pubs|kd]; cbn [block].
  - apply script_ok_app_handler. apply IH.
  - cbn [app script_ok]. rewrite wf_skeleton. apply IH.
Qed.

Lemma pub_ok_inner_app k (r : list mact) : pub_ok true r = true -> pub_ok true (inner k ++ r) = true.
Proof. induction k as [|k IH]; intros H; cbn [inner app pub_ok]; auto. Qed.

Theorem script_of_pub_ok (items : list (item P)) : forall nw, pub_ok nw (script_of items) = true.
Proof.
  induction items as [|it r IH]; intros nw; [reflexivity|].
  unfold script_of. cbn [flat_map]. fold (script_of r). destruct it as [k pubs|kd]; cbn [block].
  - unfold handler. rewrite <- !app_assoc. cbn [app pub_ok]. apply pub_ok_inner_app. cbn [app pub_ok].
    rewrite pbd_diag, IH. destruct (pubs_of (diag pubs)); reflexivity.
  - cbn [app pub_ok]. rewrite pbd_skeleton, pubs_of_skeleton, IH. reflexivity.
Qed.

Lemma script_pubs_app (l1 l2 : list mact) : script_pubs (l1 ++ l2) = script_pubs l1 ++ script_pubs l2.
Proof.
  induction l1 as [|a r IH]; cbn [app script_pubs]; auto. destruct a; auto. rewrite IH, app_assoc. reflexivity.
Qed.

Lemma script_pubs_inner k : script_pubs (@inner P k) = [].
Proof. induction k; cbn [inner script_pubs]; auto. Qed.

Definition item_pubs (it : item P) : list P := match it with INotif _ pubs => pubs | IReq _ => [] end.

Theorem script_pubs_of (items : list (item P)) : script_pubs (script_of items) = flat_map item_pubs items.
Proof.
  induction items as [|it r IH]; [reflexivity|].
  unfold script_of. cbn [flat_map]. fold (script_of r). rewrite script_pubs_app, IH. f_equal.
  destruct it as [k pubs|kd]; cbn [block item_pubs].
  - unfold handler. rewrite !script_pubs_app, script_pubs_inner. cbn [script_pubs app].
    rewrite pubs_of_diag. apply app_nil_r.
  - cbn [script_pubs]. rewrite pubs_of_skeleton. reflexivity.
Qed.

(* ------------------------------------------------------------------------------------------ *)
(** * Summary statements (props/C08.v) *)

Theorem deadlock_free pol (script : list mact) s :
  script_ok false true script = true -> reach pol (init script) s -> ~ final s ->
  exists l s', exec pol l s = Some s'.
Proof. intros H Hr. exact (progress pol (inv_reach H Hr)). Qed.

Lemma spawns_app (l1 l2 : list mact) : spawns (l1 ++ l2) = spawns l1 + spawns l2.
Proof. induction l1 as [|a r IH]; cbn [app spawns]; auto. destruct a; cbn; auto. Qed.

Lemma spawns_inner k : spawns (@inner P k) = 0.
Proof. induction k; cbn; auto. Qed.

Lemma spawns_script_of (items : list (item P)) : spawns (script_of items) = length items.
Proof.
  induction items as [|it r IH]; [reflexivity|].
  unfold script_of. cbn [flat_map]. fold (script_of r). rewrite spawns_app, IH.
  destruct it as [k pubs|kd]; cbn [block length].
  - unfold handler. rewrite !spawns_app, spawns_inner. reflexivity.
  - reflexivity.
Qed.

Theorem server_live pol (items : list (item P)) s :
  reach pol (init (script_of items)) s ->
  (stuck pol s -> final s) /\
  (exists tr s', run pol tr s = Some s' /\ final s') /\
  (final s -> length (ws s) = length items /\ forall w, In w (ws s) -> rem w = []).
Proof.
  intros Hr. pose proof (inv_reach (script_of_ok items true) Hr) as HI. split; [|split].
  - intros Hst. destruct (final_b s) eqn:Ef; [apply final_b_spec; exact Ef|].
    destruct (progress pol HI) as (l & s' & H).
    + intros Hf. apply final_b_spec in Hf. congruence.
    + rewrite (Hst l) in H. discriminate.
  - exact (completes pol (le_n (measure s)) HI).
  - intros [Hm Hf]. split; [|exact Hf].
    pose proof (spawn_count Hr) as Hc. rewrite Hm, spawns_script_of in Hc. cbn in Hc. lia.
Qed.

Lemma nonvacuous : exists (tr : list label) (s : Sched.st nat),
  run WriterPref tr (init (script_of [INotif 1 [7]; IReq (KDefinition true); INotif 0 [8; 9]])) = Some s /\
  ~ final s /\ length (ws s) = 2 /\ noq (ws s) = false.
Proof.
  exists (repeat LMain 13). eexists. split; [vm_compute; reflexivity|]. split; [|split; reflexivity].
  intros [H _]. discriminate H.
Qed.

(* ------------------------------------------------------------------------------------------ *)
(** * Before the fix: didOpen; didChange deadlocks (sanity: the model can express the failure) *)

Definition old_trace : list label :=
  repeat LMain 9 ++ repeat LMain 3 ++ repeat (LWorker 0) 7.

Theorem old_deadlocks pol (p : P) :
  exists tr s, run pol tr (init (script_old [INotif 0 [p]; INotif 0 [p]])) = Some s /\ stuck pol s /\ ~ final s.
Proof.
  exists old_trace.
  remember (run pol old_trace (init (script_old [INotif 0 [p]; INotif 0 [p]]))) as o eqn:E.
  vm_compute in E. subst o. eexists. split; [reflexivity|]. split.
  - intros [| |[|[|i]]]; vm_compute; reflexivity.
  - intros [H _]. discriminate H.
Qed.

End Proofs.
