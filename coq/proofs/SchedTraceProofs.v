(** Soundness of the trace-inclusion checker of model/SchedTrace.v: an accepted event sequence is produced by a
    run of the LTS (the checker only ever executes [exec] steps). *)
From Coq Require Import List Bool Arith Lia.
From TG.Model Require Import Sched SchedTrace.
From TG.Proofs Require Import SchedProofs.
Import ListNotations.

Set Implicit Arguments.

Section Proofs.
Context {P : Type}.

Lemma settle_worker_exec od pol (s : st P) l : forall i s', settle_worker od pol s l i = Some s' ->
  exists j, exec pol (LWorker j) s = Some s'.
Proof.
  induction l as [|w r IH]; intros i s' H; cbn [settle_worker] in H; [discriminate|].
  destruct (rem w) as [|a q]; [eauto|].
  destruct (w_unobs od a); [|eauto].
  destruct (exec pol (LWorker i) s) as [s1|] eqn:E; [|eauto].
  injection H as <-. eauto.
Qed.

Lemma settle1_exec od pol (s s' : st P) : settle1 od pol s = Some s' -> exists l, exec pol l s = Some s'.
Proof.
  unfold settle1. intros H.
  assert (Hw : settle_worker od pol s (ws s) 0 = Some s' -> exists l, exec pol l s = Some s').
  { intros Hs. destruct (settle_worker_exec _ _ _ _ _ Hs) as [j Hj]. eauto. }
  destruct (mpc s) as [|a r]; [auto|].
  destruct (m_unobs a); [|auto].
  destruct (exec pol LMain s) as [s1|] eqn:E; [|auto].
  injection H as <-. eauto.
Qed.

Lemma settle_run od pol fuel : forall (s : st P), exists tr, run pol tr s = Some (settle od pol fuel s).
Proof.
  induction fuel as [|f IH]; intros s; cbn [settle].
  - exists []. reflexivity.
  - destruct (settle1 od pol s) as [s1|] eqn:E; [|exists []; reflexivity].
    destruct (settle1_exec _ _ _ E) as [l Hl]. destruct (IH s1) as [tr Htr].
    exists (l :: tr). cbn [run]. rewrite Hl. exact Htr.
Qed.

Theorem accepts_sound od pol evs : forall pos (s : st P) b, accepts od pol evs pos s = Accepted b ->
  exists tr s', run pol tr s = Some s' /\ final_b s' = b.
Proof.
  induction evs as [|e r IH]; intros pos s b H; cbn [accepts] in H;
    destruct (settle_run od pol (measure s) s) as [tr0 H0];
    set (s1 := settle od pol (measure s) s) in *.
  - injection H as <-. eauto.
  - destruct e as [e|i e].
    + destruct (mpc s1) as [|a q]; [discriminate|].
      destruct (mev_matches e a); [|discriminate].
      destruct (exec pol LMain s1) as [s2|] eqn:E; [|discriminate].
      destruct (IH _ _ _ H) as (tr & s' & Hr & Hf).
      exists (tr0 ++ LMain :: tr), s'. split; [|exact Hf].
      eapply run_app; [exact H0|]. cbn [run]. rewrite E. exact Hr.
    + destruct (nth_error (ws s1) i) as [w|] eqn:En; [|discriminate].
      destruct (rem w) as [|a q]; [discriminate|].
      destruct (wev_matches e a); [|discriminate].
      destruct (exec pol (LWorker i) s1) as [s2|] eqn:E; [|discriminate].
      destruct (IH _ _ _ H) as (tr & s' & Hr & Hf).
      exists (tr0 ++ LWorker i :: tr), s'. split; [|exact Hf].
      eapply run_app; [exact H0|]. cbn [run]. rewrite E. exact Hr.
Qed.

End Proofs.
