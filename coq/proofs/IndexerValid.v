(** IndexerValid (group symmap, bridge to group scope): for EVERY program, fuel and start state, the indexer model
    (Indexer.v over Scope.v) keeps all stored ids allocated: every id in the name maps, scopes, records,
    multiclasses, the position log and the reference log is below the length of its arena.  This is the
    side condition "ids allocated before use" of the symbol-map theorems (op_ids_ok), here PROVED for the
    indexer model instead of checked on a log.

    Method: a small Hoare logic for the state-and-option monad of Scope.v ([hs P m Q]: from a valid state
    satisfying P, m ends in a valid, extended state, and its result satisfies Q there), one rule per primitive
    of Scope.v, and one traversal of Indexer.v. *)
From Coq Require Import List Arith NArith Bool Lia.
From TG.Model Require Import CoreAst Scope BangOps Indexer.
Import ListNotations.
Open Scope N_scope.

(** ---- validity *)
Definition nrec (s : st) : N := lenN (s_recs s).
Definition nmc (s : st) : N := lenN (s_mcs s).
Definition nleaf (s : st) : N := lenN (s_leaves s).

Definition sym_okB (a b c : N) (id : symid) : Prop :=
  match id with SyRecord i => i < a | SyMc i => i < b | SyLeaf i => i < c end.
Definition amap_ok (bound : N) (m : list (name * N)) : Prop := Forall (fun e => snd e < bound) m.
Definition rec_okB (a c : N) (r : recd) : Prop :=
  amap_ok c (rc_targs r) /\ amap_ok c (rc_fields r) /\ Forall (fun p => p < a) (rc_parents r).
Definition mc_okB (b c : N) (m : mcd) : Prop :=
  amap_ok c (mc_targs m) /\ Forall (fun p => p < b) (mc_parents m).
Definition kind_okB (a b c : N) (k : skind) : Prop :=
  match k with
  | KRecord i => i < a
  | KForeach _ v => v < c
  | KDefset i | KDefm i => i < c
  | KMulticlass i => i < b
  | _ => True
  end.
Definition scope_okB (a b c : N) (sc : scope) : Prop := kind_okB a b c (sc_kind sc) /\ amap_ok c (sc_vars sc).

Record ValidB (a b c : N) (s : st) : Prop := {
  v_recs : Forall (rec_okB a c) (s_recs s);
  v_mcs : Forall (mc_okB b c) (s_mcs s);
  v_nclass : amap_ok a (s_nclass s);
  v_ndef : amap_ok a (s_ndef s);
  v_nmc : amap_ok b (s_nmc s);
  v_ndset : amap_ok c (s_ndset s);
  v_pos : Forall (fun e => sym_okB a b c (snd e)) (s_pos s);
  v_refs : Forall (fun e => sym_okB a b c (fst e)) (s_refs s);
  v_scopes : Forall (scope_okB a b c) (s_scopes s) }.

Definition Valid (s : st) : Prop := ValidB (nrec s) (nmc s) (nleaf s) s.
Definition sym_ok (s : st) (id : symid) : Prop := sym_okB (nrec s) (nmc s) (nleaf s) id.
Definition kind_ok (s : st) (k : skind) : Prop := kind_okB (nrec s) (nmc s) (nleaf s) k.
Definition ext (s s' : st) : Prop := nrec s <= nrec s' /\ nmc s <= nmc s' /\ nleaf s <= nleaf s'.

Lemma ext_refl : forall s, ext s s.
Proof. intros s. unfold ext. lia. Qed.
Lemma ext_trans : forall a b c, ext a b -> ext b c -> ext a c.
Proof. unfold ext. intros a b c H1 H2. lia. Qed.

(** monotonicity in the bounds *)
Lemma amap_ok_mono : forall b b' m, b <= b' -> amap_ok b m -> amap_ok b' m.
Proof. intros b b' m H. apply Forall_impl. intros e He. lia. Qed.
Lemma Forall_lt_mono : forall b b' (l : list N), b <= b' -> Forall (fun p => p < b) l -> Forall (fun p => p < b') l.
Proof. intros b b' l H. apply Forall_impl. intros e He. lia. Qed.
Lemma sym_okB_mono : forall a b c a' b' c' id, a <= a' -> b <= b' -> c <= c' -> sym_okB a b c id -> sym_okB a' b' c' id.
Proof. intros a b c a' b' c' [i|i|i] H1 H2 H3 H; cbn in *; lia. Qed.
Lemma rec_okB_mono : forall a c a' c' r, a <= a' -> c <= c' -> rec_okB a c r -> rec_okB a' c' r.
Proof.
  intros a c a' c' r H1 H2 (Ha & Hb & Hc). repeat split; [eapply amap_ok_mono|eapply amap_ok_mono|eapply Forall_lt_mono]; eassumption.
Qed.
Lemma mc_okB_mono : forall b c b' c' m, b <= b' -> c <= c' -> mc_okB b c m -> mc_okB b' c' m.
Proof. intros b c b' c' m H1 H2 (Ha & Hb). split; [eapply amap_ok_mono|eapply Forall_lt_mono]; eassumption. Qed.
Lemma kind_okB_mono : forall a b c a' b' c' k, a <= a' -> b <= b' -> c <= c' -> kind_okB a b c k -> kind_okB a' b' c' k.
Proof. intros a b c a' b' c' k H1 H2 H3 H. destruct k; cbn in *; try exact I; lia. Qed.
Lemma scope_okB_mono : forall a b c a' b' c' sc, a <= a' -> b <= b' -> c <= c' -> scope_okB a b c sc -> scope_okB a' b' c' sc.
Proof.
  intros a b c a' b' c' sc H1 H2 H3 [Ha Hb]. split; [eapply kind_okB_mono; eassumption|eapply amap_ok_mono; eassumption].
Qed.

Lemma ValidB_mono : forall a b c a' b' c' s, a <= a' -> b <= b' -> c <= c' -> ValidB a b c s -> ValidB a' b' c' s.
Proof.
  intros a b c a' b' c' s H1 H2 H3 [V1 V2 V3 V4 V5 V6 V7 V8 V9]. split.
  - eapply Forall_impl; [|exact V1]. intros r. apply rec_okB_mono; assumption.
  - eapply Forall_impl; [|exact V2]. intros r. apply mc_okB_mono; assumption.
  - eapply amap_ok_mono; eassumption.
  - eapply amap_ok_mono; eassumption.
  - eapply amap_ok_mono; eassumption.
  - eapply amap_ok_mono; eassumption.
  - eapply Forall_impl; [|exact V7]. intros e. apply sym_okB_mono; assumption.
  - eapply Forall_impl; [|exact V8]. intros e. apply sym_okB_mono; assumption.
  - eapply Forall_impl; [|exact V9]. intros e. apply scope_okB_mono; assumption.
Qed.

Lemma sym_ok_mono : forall s s' id, ext s s' -> sym_ok s id -> sym_ok s' id.
Proof. intros s s' id (H1 & H2 & H3). apply sym_okB_mono; assumption. Qed.
Lemma kind_ok_mono : forall s s' k, ext s s' -> kind_ok s k -> kind_ok s' k.
Proof. intros s s' k (H1 & H2 & H3). apply kind_okB_mono; assumption. Qed.

Lemma valid_st0 : Valid st0.
Proof.
  split; cbn; try constructor. - split; [exact I|constructor]. - constructor.
Qed.

(** a state with the same tables is as valid *)
Lemma ValidB_same : forall a b c s s',
  s_recs s' = s_recs s -> s_mcs s' = s_mcs s -> s_nclass s' = s_nclass s -> s_ndef s' = s_ndef s ->
  s_nmc s' = s_nmc s -> s_ndset s' = s_ndset s -> s_pos s' = s_pos s -> s_refs s' = s_refs s ->
  s_scopes s' = s_scopes s -> ValidB a b c s -> ValidB a b c s'.
Proof.
  intros a b c s s' E1 E2 E3 E4 E5 E6 E7 E8 E9 [V1 V2 V3 V4 V5 V6 V7 V8 V9].
  split; rewrite ?E1, ?E2, ?E3, ?E4, ?E5, ?E6, ?E7, ?E8, ?E9; assumption.
Qed.

(** ---- the Hoare logic *)
Definition hs {A} (P : st -> Prop) (m : M A) (Q : A -> st -> Prop) : Prop :=
  forall s, Valid s -> P s ->
    Valid (snd (m s)) /\ ext s (snd (m s)) /\ (forall x, fst (m s) = Some x -> Q x (snd (m s))).
Definition mono (P : st -> Prop) : Prop := forall s s', ext s s' -> P s -> P s'.
Definition anyv {A} : A -> st -> Prop := fun _ _ => True.
Definition top : st -> Prop := fun _ => True.

Lemma mono_top : mono top. Proof. intros s s' _ _. exact I. Qed.
Lemma mono_and : forall P Q, mono P -> mono Q -> mono (fun s => P s /\ Q s).
Proof. intros P Q HP HQ s s' He [H1 H2]. split; [eapply HP|eapply HQ]; eassumption. Qed.
Lemma mono_sym_ok : forall id, mono (fun s => sym_ok s id).
Proof. intros id s s' He H. eapply sym_ok_mono; eassumption. Qed.
Lemma mono_kind_ok : forall k, mono (fun s => kind_ok s k).
Proof. intros k s s' He H. eapply kind_ok_mono; eassumption. Qed.
Lemma mono_snap : forall x, mono (fun s => Valid x /\ ext x s).
Proof. intros x s s' He [H1 H2]. split; [exact H1|eapply ext_trans; eassumption]. Qed.
Lemma mono_lt_nrec : forall i, mono (fun s => i < nrec s).
Proof. intros i s s' (H1 & _) H. lia. Qed.
Lemma mono_lt_nmc : forall i, mono (fun s => i < nmc s).
Proof. intros i s s' (_ & H1 & _) H. lia. Qed.
Lemma mono_lt_nleaf : forall i, mono (fun s => i < nleaf s).
Proof. intros i s s' (_ & _ & H1) H. lia. Qed.

Lemma hs_pre : forall A (P P' : st -> Prop) (m : M A) Q,
  (forall s, Valid s -> P s -> P' s) -> hs P' m Q -> hs P m Q.
Proof. intros A P P' m Q H Hm s Hv Hp. apply Hm; [exact Hv|apply H; assumption]. Qed.
Lemma hs_post : forall A (P : st -> Prop) (m : M A) (Q Q' : A -> st -> Prop),
  (forall x s, Valid s -> Q x s -> Q' x s) -> hs P m Q -> hs P m Q'.
Proof.
  intros A P m Q Q' H Hm s Hv Hp. destruct (Hm s Hv Hp) as (H1 & H2 & H3).
  split; [exact H1|]. split; [exact H2|]. intros x Hx. apply H; [exact H1|apply H3; exact Hx].
Qed.
Lemma hs_any : forall A (P : st -> Prop) (m : M A) Q, hs P m Q -> hs P m anyv.
Proof. intros A P m Q H. eapply hs_post; [|exact H]. intros; exact I. Qed.

Lemma hs_ret : forall A (x : A) (P : st -> Prop) (Q : A -> st -> Prop),
  (forall s, Valid s -> P s -> Q x s) -> hs P (ret x) Q.
Proof.
  intros A x P Q H s Hv Hp. cbn. split; [exact Hv|]. split; [apply ext_refl|].
  intros y Hy. inversion Hy. subst. apply H; assumption.
Qed.
Lemma hs_none : forall A (P : st -> Prop) (Q : A -> st -> Prop), hs P none Q.
Proof. intros A P Q s Hv Hp. cbn. split; [exact Hv|]. split; [apply ext_refl|]. intros y Hy. discriminate. Qed.
Lemma hs_lift : forall A (o : option A) (P : st -> Prop) (Q : A -> st -> Prop),
  (forall x s, o = Some x -> Valid s -> P s -> Q x s) -> hs P (lift o) Q.
Proof.
  intros A o P Q H s Hv Hp. cbn. split; [exact Hv|]. split; [apply ext_refl|]. intros y Hy. apply H; assumption.
Qed.
Lemma hs_get : forall A (f : st -> A) (P : st -> Prop) (Q : A -> st -> Prop),
  (forall s, Valid s -> P s -> Q (f s) s) -> hs P (get f) Q.
Proof.
  intros A f P Q H s Hv Hp. cbn. split; [exact Hv|]. split; [apply ext_refl|].
  intros y Hy. inversion Hy. subst. apply H; assumption.
Qed.
Lemma hs_state : forall (P : st -> Prop), hs P state (fun x s => Valid x /\ ext x s).
Proof. intros P. apply hs_get. intros s Hv _. split; [exact Hv|apply ext_refl]. Qed.
Lemma hs_here : forall r (P : st -> Prop), hs P (here r) anyv.
Proof. intros r P. apply hs_get. intros; exact I. Qed.

Lemma hs_bind : forall A B (m : M A) (f : A -> M B) (P : st -> Prop) Q1 Q2,
  mono P -> hs P m Q1 -> (forall x, hs (fun s => P s /\ Q1 x s) (f x) Q2) -> hs P (bind m f) Q2.
Proof.
  intros A B m f P Q1 Q2 HP Hm Hf s Hv Hp. unfold bind.
  destruct (Hm s Hv Hp) as (H1 & H2 & H3). destruct (m s) as [[x|] s1]; cbn [fst snd] in *.
  - destruct (Hf x s1 H1) as (H4 & H5 & H6); [split; [eapply HP; eassumption|apply H3; reflexivity]|].
    split; [exact H4|]. split; [eapply ext_trans; eassumption|exact H6].
  - split; [exact H1|]. split; [exact H2|]. intros y Hy. discriminate.
Qed.
Lemma hs_seq : forall A B (m : M A) (k : M B) (P : st -> Prop) Q1 Q2,
  mono P -> hs P m Q1 -> hs P k Q2 -> hs P (seq m k) Q2.
Proof.
  intros A B m k P Q1 Q2 HP Hm Hk s Hv Hp. unfold seq.
  destruct (Hm s Hv Hp) as (H1 & H2 & _).
  destruct (Hk (snd (m s)) H1) as (H4 & H5 & H6); [eapply HP; eassumption|].
  split; [exact H4|]. split; [eapply ext_trans; eassumption|exact H6].
Qed.
Lemma hs_try : forall A (m : M A) (P : st -> Prop) Q,
  hs P m Q -> hs P (try_ m) (fun o s => forall x, o = Some x -> Q x s).
Proof.
  intros A m P Q Hm s Hv Hp. unfold try_. destruct (Hm s Hv Hp) as (H1 & H2 & H3).
  destruct (m s) as [o s1]; cbn [fst snd] in *. split; [exact H1|]. split; [exact H2|].
  intros y Hy. inversion Hy. subst. exact H3.
Qed.
Lemma hs_iterM : forall A B (f : A -> M B) l (P : st -> Prop),
  mono P -> (forall x, In x l -> hs P (f x) anyv) -> hs P (iterM f l) anyv.
Proof.
  intros A B f l P HP. induction l as [|x r IH]; intros H; cbn [iterM].
  - apply hs_ret. intros; exact I.
  - eapply hs_seq; [exact HP|apply H; left; reflexivity|apply IH; intros y Hy; apply H; right; exact Hy].
Qed.
Lemma hs_mapM_opt : forall A B (f : A -> M B) l (P : st -> Prop),
  mono P -> (forall x, In x l -> hs P (f x) anyv) -> hs P (mapM_opt f l) anyv.
Proof.
  intros A B f l P HP. induction l as [|x r IH]; intros H; cbn [mapM_opt].
  - apply hs_ret. intros; exact I.
  - eapply hs_bind; [exact HP|apply hs_try; apply H; left; reflexivity|]. intros o.
    eapply hs_bind; [apply mono_and; [exact HP|intros s s' _ _ y _; exact I] | |].
    + eapply hs_pre; [|apply IH; intros y Hy; apply H; right; exact Hy]. intros s _ [Hp _]. exact Hp.
    + intros os. apply hs_ret. intros; exact I.
Qed.

(** ---- primitives *)
Lemma Valid_same : forall s s',
  s_recs s' = s_recs s -> s_mcs s' = s_mcs s -> s_leaves s' = s_leaves s -> s_nclass s' = s_nclass s ->
  s_ndef s' = s_ndef s -> s_nmc s' = s_nmc s -> s_ndset s' = s_ndset s -> s_pos s' = s_pos s ->
  s_refs s' = s_refs s -> s_scopes s' = s_scopes s -> Valid s -> Valid s' /\ ext s s'.
Proof.
  intros s s' E1 E2 E3 E4 E5 E6 E7 E8 E9 E10 Hv. split.
  - unfold Valid, nrec, nmc, nleaf in *. rewrite E1, E2, E3. eapply ValidB_same; eassumption.
  - unfold ext, nrec, nmc, nleaf. rewrite E1, E2, E3. lia.
Qed.

Lemma hs_bad : forall A (P : st -> Prop) (Q : A -> st -> Prop), hs P bad Q.
Proof.
  intros A P Q s Hv Hp. cbn [bad fst snd].
  destruct (Valid_same s (snd (@bad A s))) as [H1 H2]; try reflexivity; try exact Hv.
  split; [exact H1|]. split; [exact H2|]. intros y Hy. discriminate.
Qed.

Lemma hs_upd_same : forall (f : st -> st) (P : st -> Prop),
  (forall s, s_recs (f s) = s_recs s /\ s_mcs (f s) = s_mcs s /\ s_leaves (f s) = s_leaves s /\ s_nclass (f s) = s_nclass s /\
             s_ndef (f s) = s_ndef s /\ s_nmc (f s) = s_nmc s /\ s_ndset (f s) = s_ndset s /\ s_pos (f s) = s_pos s /\
             s_refs (f s) = s_refs s /\ s_scopes (f s) = s_scopes s) ->
  hs P (upd f) anyv.
Proof.
  intros f P H s Hv Hp. cbn. destruct (H s) as (E1 & E2 & E3 & E4 & E5 & E6 & E7 & E8 & E9 & E10).
  destruct (Valid_same s (f s)) as [H1 H2]; try assumption.
  split; [exact H1|]. split; [exact H2|intros; exact I].
Qed.

Lemma hs_error : forall r k (P : st -> Prop), hs P (error r k) anyv.
Proof. intros. apply hs_upd_same. intros s. repeat split. Qed.
Lemma hs_err : forall r k (P : st -> Prop), mono P -> hs P (err r k) anyv.
Proof.
  intros r k P HP. unfold err. eapply hs_bind; [exact HP|apply hs_here|]. intros loc.
  eapply hs_pre; [|apply (hs_error loc k top)]. intros; exact I.
Qed.
Lemma hs_emit : forall l (P : st -> Prop), mono P -> hs P (emit l) anyv.
Proof. intros l P HP. unfold emit. apply hs_iterM; [exact HP|]. intros x _. apply hs_err. exact HP. Qed.
Lemma hs_push_file : forall f (P : st -> Prop), hs P (push_file f) anyv.
Proof. intros. apply hs_upd_same. intros s. repeat split. Qed.
Lemma hs_mark_indexed : forall f (P : st -> Prop), hs P (upd (fun s => set_files (s_trace s) (f :: s_indexed s) s)) anyv.
Proof. intros. apply hs_upd_same. intros s. repeat split. Qed.
Lemma hs_next_anonymous : forall (P : st -> Prop), hs P next_anonymous anyv.
Proof. intros. apply hs_upd_same. intros s. repeat split. Qed.
Lemma hs_pop_file : forall (P : st -> Prop), hs P pop_file anyv.
Proof.
  intros P s Hv Hp. unfold pop_file. destruct (s_trace s) as [|f t]; [apply (hs_bad unit P anyv s Hv Hp)|].
  cbn [fst snd]. destruct (Valid_same s (set_files t (s_indexed s) s)) as [H1 H2]; try reflexivity; try exact Hv.
  split; [exact H1|]. split; [exact H2|intros; exact I].
Qed.

Lemma lenN_app1 : forall A (l : list A) x, lenN (l ++ [x]) = lenN l + 1.
Proof. intros. unfold lenN. rewrite app_length. cbn. lia. Qed.

Lemma Forall_app1 : forall A (Pr : A -> Prop) l x, Forall Pr l -> Pr x -> Forall Pr (l ++ [x]).
Proof. intros. apply Forall_app. split; [assumption|constructor; [assumption|constructor]]. Qed.

(** add_pos keeps everything but the position log *)
Lemma ValidB_add_pos : forall a b c r id s, ValidB a b c s -> sym_okB a b c id -> ValidB a b c (add_pos r id s).
Proof.
  intros a b c r id s [V1 V2 V3 V4 V5 V6 V7 V8 V9] Hid. unfold add_pos. destruct (rng_empty r); [split; assumption|].
  split; cbn; try assumption. constructor; [exact Hid|exact V7].
Qed.
Lemma add_pos_fields : forall r id s,
  s_recs (add_pos r id s) = s_recs s /\ s_mcs (add_pos r id s) = s_mcs s /\ s_leaves (add_pos r id s) = s_leaves s.
Proof. intros. unfold add_pos. destruct (rng_empty r); repeat split. Qed.

Lemma hs_add_reference : forall id l (P : st -> Prop),
  (forall s, Valid s -> P s -> sym_ok s id) -> hs P (add_reference id l) anyv.
Proof.
  intros id l P H s Hv Hp. specialize (H s Hv Hp). unfold add_reference, upd. cbn [fst snd].
  set (s1 := set_refs ((id, l) :: s_refs s) (set_uses ((l, define_loc s id) :: s_uses s) s)).
  assert (Hs1 : ValidB (nrec s) (nmc s) (nleaf s) s1).
  { destruct Hv as [V1 V2 V3 V4 V5 V6 V7 V8 V9]. split; cbn; try assumption. constructor; [exact H|exact V8]. }
  destruct (add_pos_fields l id s1) as (E1 & E2 & E3).
  split; [|split; [|intros; exact I]].
  - unfold Valid, nrec, nmc, nleaf. rewrite E1, E2, E3. apply ValidB_add_pos; [exact Hs1|exact H].
  - unfold ext, nrec, nmc, nleaf. rewrite E1, E2, E3. cbn. lia.
Qed.

Lemma hs_add_record : forall n c l (P : st -> Prop), hs P (add_record n c l) (fun id s => id < nrec s).
Proof.
  intros n c l P s Hv _. unfold add_record. cbn [fst snd].
  set (s1 := set_recs (s_recs s ++ [mkRec n c [] [] [] l]) s).
  set (s2 := if c then set_names ((n, lenN (s_recs s)) :: s_nclass s1) (s_ndef s1) (s_nmc s1) s1
             else set_names (s_nclass s1) ((n, lenN (s_recs s)) :: s_ndef s1) (s_nmc s1) s1).
  assert (Hs2 : ValidB (nrec s + 1) (nmc s) (nleaf s) s2).
  { apply (ValidB_mono (nrec s) (nmc s) (nleaf s) (nrec s + 1) (nmc s) (nleaf s)) in Hv; try lia.
    destruct Hv as [V1 V2 V3 V4 V5 V6 V7 V8 V9].
    assert (Hnew : rec_okB (nrec s + 1) (nleaf s) (mkRec n c [] [] [] l)) by (repeat split; constructor).
    unfold s2. destruct c; split; cbn; try assumption; try (apply Forall_app1; assumption);
      constructor; try assumption; cbn; unfold nrec; lia. }
  assert (E : s_recs s2 = s_recs s ++ [mkRec n c [] [] [] l] /\ s_mcs s2 = s_mcs s /\ s_leaves s2 = s_leaves s)
    by (unfold s2; destruct c; repeat split).
  destruct E as (E1 & E2 & E3). destruct (add_pos_fields l (SyRecord (lenN (s_recs s))) s2) as (F1 & F2 & F3).
  split; [|split].
  - unfold Valid, nrec, nmc, nleaf. rewrite F1, F2, F3, E1, E2, E3, lenN_app1. apply ValidB_add_pos; [exact Hs2|].
    cbn. unfold nrec. lia.
  - unfold ext, nrec, nmc, nleaf. rewrite F1, F2, F3, E1, E2, E3, lenN_app1. lia.
  - intros x Hx. inversion Hx. subst. unfold nrec. rewrite F1, E1, lenN_app1. lia.
Qed.

Lemma hs_add_anonymous_def : forall n l (P : st -> Prop), hs P (add_anonymous_def n l) (fun id s => id < nrec s).
Proof.
  intros n l P s Hv _. unfold add_anonymous_def. cbn [fst snd].
  split; [|split].
  - unfold Valid, nrec, nmc, nleaf. cbn. rewrite lenN_app1.
    apply (ValidB_mono (nrec s) (nmc s) (nleaf s) (nrec s + 1) (nmc s) (nleaf s)) in Hv; try lia.
    destruct Hv as [V1 V2 V3 V4 V5 V6 V7 V8 V9]. split; cbn; try assumption.
    apply Forall_app1; [exact V1|]. repeat split; constructor.
  - unfold ext, nrec, nmc, nleaf. cbn. rewrite lenN_app1. lia.
  - intros x Hx. inversion Hx. subst. unfold nrec. cbn. rewrite lenN_app1. lia.
Qed.

Lemma valid_add_leaf : forall s l, Valid s ->
  ValidB (nrec s) (nmc s) (nleaf s + 1) (set_leaves (s_leaves s ++ [l]) s).
Proof.
  intros s l Hv. apply (ValidB_mono (nrec s) (nmc s) (nleaf s) (nrec s) (nmc s) (nleaf s + 1)) in Hv; try lia.
  destruct Hv as [V1 V2 V3 V4 V5 V6 V7 V8 V9]. split; cbn; assumption.
Qed.

Lemma hs_add_leaf : forall l (P : st -> Prop), hs P (add_leaf l) (fun id s => id < nleaf s).
Proof.
  intros l P s Hv _. unfold add_leaf. cbn [fst snd].
  set (s1 := set_leaves (s_leaves s ++ [l]) s).
  destruct (add_pos_fields (lf_loc l) (SyLeaf (lenN (s_leaves s))) s1) as (F1 & F2 & F3).
  split; [|split].
  - unfold Valid, nrec, nmc, nleaf. rewrite F1, F2, F3. cbn. rewrite lenN_app1.
    apply ValidB_add_pos; [apply valid_add_leaf; exact Hv|]. cbn. unfold nleaf. lia.
  - unfold ext, nrec, nmc, nleaf. rewrite F1, F2, F3. cbn. rewrite lenN_app1. lia.
  - intros x Hx. inversion Hx. subst. unfold nleaf. rewrite F3. cbn. rewrite lenN_app1. lia.
Qed.

Lemma hs_add_leaf_nopos : forall l (P : st -> Prop), hs P (add_leaf_nopos l) (fun id s => id < nleaf s).
Proof.
  intros l P s Hv _. unfold add_leaf_nopos. cbn [fst snd].
  split; [|split].
  - unfold Valid, nrec, nmc, nleaf. cbn. rewrite lenN_app1. apply valid_add_leaf. exact Hv.
  - unfold ext, nrec, nmc, nleaf. cbn. rewrite lenN_app1. lia.
  - intros x Hx. inversion Hx. subst. unfold nleaf. cbn. rewrite lenN_app1. lia.
Qed.

Lemma hs_add_defset : forall l (P : st -> Prop), hs P (add_defset l) (fun id s => id < nleaf s).
Proof.
  intros l P s Hv _. unfold add_defset. cbn [fst snd].
  set (s1 := set_leaves (s_leaves s ++ [l]) s).
  set (s2 := set_ndset ((lf_name l, lenN (s_leaves s)) :: s_ndset s1) s1).
  assert (Hs2 : ValidB (nrec s) (nmc s) (nleaf s + 1) s2).
  { pose proof (valid_add_leaf s l Hv) as [V1 V2 V3 V4 V5 V6 V7 V8 V9]. split; cbn; try assumption.
    constructor; [cbn; unfold nleaf; lia|exact V6]. }
  destruct (add_pos_fields (lf_loc l) (SyLeaf (lenN (s_leaves s))) s2) as (F1 & F2 & F3).
  split; [|split].
  - unfold Valid, nrec, nmc, nleaf. rewrite F1, F2, F3. cbn. rewrite lenN_app1.
    apply ValidB_add_pos; [exact Hs2|]. cbn. unfold nleaf. lia.
  - unfold ext, nrec, nmc, nleaf. rewrite F1, F2, F3. cbn. rewrite lenN_app1. lia.
  - intros x Hx. inversion Hx. subst. unfold nleaf. rewrite F3. cbn. rewrite lenN_app1. lia.
Qed.

Lemma hs_add_multiclass : forall n l (P : st -> Prop), hs P (add_multiclass n l) (fun id s => id < nmc s).
Proof.
  intros n l P s Hv _. unfold add_multiclass. cbn [fst snd].
  set (s1 := set_mcs (s_mcs s ++ [mkMc n [] [] l]) s).
  set (s2 := set_names (s_nclass s1) (s_ndef s1) ((n, lenN (s_mcs s)) :: s_nmc s1) s1).
  assert (Hs2 : ValidB (nrec s) (nmc s + 1) (nleaf s) s2).
  { apply (ValidB_mono (nrec s) (nmc s) (nleaf s) (nrec s) (nmc s + 1) (nleaf s)) in Hv; try lia.
    destruct Hv as [V1 V2 V3 V4 V5 V6 V7 V8 V9]. split; cbn; try assumption.
    - apply Forall_app1; [exact V2|]. split; constructor.
    - constructor; [cbn; unfold nmc; lia|exact V5]. }
  destruct (add_pos_fields l (SyMc (lenN (s_mcs s))) s2) as (F1 & F2 & F3).
  split; [|split].
  - unfold Valid, nrec, nmc, nleaf. rewrite F1, F2, F3. cbn. rewrite lenN_app1.
    apply ValidB_add_pos; [exact Hs2|]. cbn. unfold nmc. lia.
  - unfold ext, nrec, nmc, nleaf. rewrite F1, F2, F3. cbn. rewrite lenN_app1. lia.
  - intros x Hx. inversion Hx. subst. unfold nmc. rewrite F2. cbn. rewrite lenN_app1. lia.
Qed.

Lemma length_set_nth : forall A n (f : A -> A) l, length (set_nth n f l) = length l.
Proof. intros A n f l. revert n. induction l as [|x r IH]; intros [|n]; cbn; auto. Qed.
Lemma Forall_set_nth : forall A (Pr : A -> Prop) n (f : A -> A) l,
  Forall Pr l -> (forall x, Pr x -> Pr (f x)) -> Forall Pr (set_nth n f l).
Proof.
  intros A Pr n f l H Hf. revert n. induction H as [|x r Hx Hr IH]; intros [|n]; cbn; constructor; auto.
Qed.

Lemma hs_record_mut : forall id (f : recd -> recd) (P : st -> Prop),
  (forall s r, Valid s -> P s -> rec_okB (nrec s) (nleaf s) r -> rec_okB (nrec s) (nleaf s) (f r)) ->
  hs P (record_mut id f) anyv.
Proof.
  intros id f P H s Hv Hp. unfold record_mut. destruct (nthN (s_recs s) id); [|apply (hs_bad unit P anyv s Hv Hp)].
  cbn [fst snd]. split; [|split; [|intros; exact I]].
  - unfold Valid, nrec, nmc, nleaf, lenN. cbn. rewrite length_set_nth.
    pose proof Hv as [V1 V2 V3 V4 V5 V6 V7 V8 V9]. split; cbn; try assumption.
    apply Forall_set_nth; [exact V1|]. intros r0 Hr0. apply (H s r0 Hv Hp Hr0).
  - unfold ext, nrec, nmc, nleaf, lenN. cbn. rewrite length_set_nth. lia.
Qed.
Lemma hs_multiclass_mut : forall id (f : mcd -> mcd) (P : st -> Prop),
  (forall s r, Valid s -> P s -> mc_okB (nmc s) (nleaf s) r -> mc_okB (nmc s) (nleaf s) (f r)) ->
  hs P (multiclass_mut id f) anyv.
Proof.
  intros id f P H s Hv Hp. unfold multiclass_mut. destruct (nthN (s_mcs s) id); [|apply (hs_bad unit P anyv s Hv Hp)].
  cbn [fst snd]. split; [|split; [|intros; exact I]].
  - unfold Valid, nrec, nmc, nleaf, lenN. cbn. rewrite length_set_nth.
    pose proof Hv as [V1 V2 V3 V4 V5 V6 V7 V8 V9]. split; cbn; try assumption.
    apply Forall_set_nth; [exact V2|]. intros r0 Hr0. apply (H s r0 Hv Hp Hr0).
  - unfold ext, nrec, nmc, nleaf, lenN. cbn. rewrite length_set_nth. lia.
Qed.

Lemma amap_ok_imap_insert : forall b k v m, v < b -> amap_ok b m -> amap_ok b (imap_insert k v m).
Proof.
  intros b k v m Hv H. induction H as [|[k' v'] rest Hx Hr IH]; cbn.
  - constructor; [exact Hv|constructor].
  - destruct (name_eqb k k'); constructor; cbn; auto.
Qed.

Lemma hs_rec_add_targ : forall rid n t (P : st -> Prop), (forall s, Valid s -> P s -> t < nleaf s) ->
  hs P (record_mut rid (rec_add_targ n t)) anyv.
Proof.
  intros rid n t P H. apply hs_record_mut. intros s r Hv Hp (Ha & Hb & Hc). repeat split; cbn; try assumption.
  apply amap_ok_imap_insert; [apply H; assumption|exact Ha].
Qed.
Lemma hs_rec_add_field : forall rid n t (P : st -> Prop), (forall s, Valid s -> P s -> t < nleaf s) ->
  hs P (record_mut rid (rec_add_field n t)) anyv.
Proof.
  intros rid n t P H. apply hs_record_mut. intros s r Hv Hp (Ha & Hb & Hc). repeat split; cbn; try assumption.
  apply amap_ok_imap_insert; [apply H; assumption|exact Hb].
Qed.
Lemma hs_rec_add_parent : forall rid p (P : st -> Prop), (forall s, Valid s -> P s -> p < nrec s) ->
  hs P (record_mut rid (rec_add_parent p)) anyv.
Proof.
  intros rid p P H. apply hs_record_mut. intros s r Hv Hp (Ha & Hb & Hc). repeat split; cbn; try assumption.
  apply Forall_app1; [exact Hc|apply H; assumption].
Qed.
Lemma hs_mc_add_targ : forall mid n t (P : st -> Prop), (forall s, Valid s -> P s -> t < nleaf s) ->
  hs P (multiclass_mut mid (mc_add_targ n t)) anyv.
Proof.
  intros mid n t P H. apply hs_multiclass_mut. intros s r Hv Hp (Ha & Hb). split; cbn; try assumption.
  apply amap_ok_imap_insert; [apply H; assumption|exact Ha].
Qed.
Lemma hs_mc_add_parent : forall mid p (P : st -> Prop), (forall s, Valid s -> P s -> p < nmc s) ->
  hs P (multiclass_mut mid (mc_add_parent p)) anyv.
Proof.
  intros mid p P H. apply hs_multiclass_mut. intros s r Hv Hp (Ha & Hb). split; cbn; try assumption.
  apply Forall_app1; [exact Hb|apply H; assumption].
Qed.

Lemma hs_push_scope : forall k (P : st -> Prop), (forall s, Valid s -> P s -> kind_ok s k) -> hs P (push_scope k) anyv.
Proof.
  intros k P H s Hv Hp. specialize (H s Hv Hp). unfold push_scope, upd. cbn [fst snd].
  split; [|split; [unfold ext, nrec, nmc, nleaf; cbn; lia|intros; exact I]].
  unfold Valid in *. cbn. destruct Hv as [V1 V2 V3 V4 V5 V6 V7 V8 V9]. split; cbn; try assumption.
  constructor; [split; [exact H|constructor]|exact V9].
Qed.
Lemma hs_pop_scope : forall (P : st -> Prop), hs P pop_scope anyv.
Proof.
  intros P s Hv Hp. unfold pop_scope. destruct (s_scopes s) as [|c t] eqn:E; [apply (hs_bad unit P anyv s Hv Hp)|].
  cbn [fst snd]. split; [|split; [unfold ext, nrec, nmc, nleaf; cbn; lia|intros; exact I]].
  unfold Valid in *. cbn. destruct Hv as [V1 V2 V3 V4 V5 V6 V7 V8 V9]. split; cbn; try assumption.
  rewrite E in V9. inversion V9. assumption.
Qed.

Lemma hs_scoped : forall A k (body : M A) (P : st -> Prop) (Q : A -> st -> Prop),
  mono P -> (forall x, mono (Q x)) -> (forall s, Valid s -> P s -> kind_ok s k) ->
  hs P body Q -> hs P (scoped k body) Q.
Proof.
  intros A k body P Q HP HQ Hk Hb. unfold scoped.
  eapply hs_seq; [exact HP|apply hs_push_scope; exact Hk|].
  eapply hs_bind; [exact HP|apply hs_try; exact Hb|]. intros o. cbn beta.
  eapply hs_seq.
  - apply mono_and; [exact HP|]. intros s s' He H x Hx. eapply HQ; [exact He|apply H; exact Hx].
  - apply hs_pop_scope.
  - apply hs_lift. intros x s Ho _ [_ H]. apply H. exact Ho.
Qed.

Lemma hs_scopes_add_variable : forall l (P : st -> Prop), hs P (scopes_add_variable l) anyv.
Proof.
  intros l P. unfold scopes_add_variable.
  eapply hs_bind with (Q1 := fun id s => id < nleaf s).
  - intros s s' _ _. exact I.
  - eapply hs_pre; [|apply (hs_add_leaf l top)]. intros; exact I.
  - intros id s Hv [_ Hid]. destruct (s_scopes s) as [|c t] eqn:E; [apply (hs_bad unit top anyv s Hv I)|].
    cbn [fst snd]. split; [|split; [unfold ext, nrec, nmc, nleaf; cbn; lia|intros; exact I]].
    unfold Valid in *. cbn. destruct Hv as [V1 V2 V3 V4 V5 V6 V7 V8 V9]. split; cbn; try assumption.
    rewrite E in V9. inversion V9 as [|? ? [Hk Hvars] Ht]. subst. constructor; [|exact Ht].
    split; [exact Hk|]. cbn. constructor; [exact Hid|exact Hvars].
Qed.
