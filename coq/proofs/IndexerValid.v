(** IndexerValid (group symmap, bridge to group scope): for EVERY program, fuel and start state, the indexer model
    (Indexer.v over Scope.v) keeps all stored ids allocated: every id in the name maps, scopes, records,
    multiclasses, the position log and the reference log is below the length of its arena.  This is the
    side condition "ids allocated before use" of the symbol-map theorems (op_ids_ok), here PROVED for the
    indexer model instead of checked on a log.

    Method: a small Hoare logic for the state-and-option monad of Scope.v ([hs P m Q]: from a valid state
    satisfying P, m ends in a valid, extended state, and its result satisfies Q there), one rule per primitive
    of Scope.v, and one traversal of Indexer.v. *)
From Coq Require Import List Arith NArith Bool Lia.
From TG.Model Require Import CoreAst Scope BangOps Indexer.
Import ListNotations.
Open Scope N_scope.

(** ---- validity *)
Definition nrec (s : st) : N := lenN (s_recs s).
Definition nmc (s : st) : N := lenN (s_mcs s).
Definition nleaf (s : st) : N := lenN (s_leaves s).

Definition sym_okB (a b c : N) (id : symid) : Prop :=
  match id with SyRecord i => i < a | SyMc i => i < b | SyLeaf i => i < c end.
Definition amap_ok (bound : N) (m : list (name * N)) : Prop := Forall (fun e => snd e < bound) m.
Definition rec_okB (a c : N) (r : recd) : Prop :=
  amap_ok c (rc_targs r) /\ amap_ok c (rc_fields r) /\ Forall (fun p => p < a) (rc_parents r).
Definition mc_okB (b c : N) (m : mcd) : Prop :=
  amap_ok c (mc_targs m) /\ Forall (fun p => p < b) (mc_parents m).
Definition kind_okB (a b c : N) (k : skind) : Prop :=
  match k with
  | KRecord i => i < a
  | KForeach _ v => v < c
  | KDefset i | KDefm i => i < c
  | KMulticlass i => i < b
  | _ => True
  end.
Definition scope_okB (a b c : N) (sc : scope) : Prop := kind_okB a b c (sc_kind sc) /\ amap_ok c (sc_vars sc).

Record ValidB (a b c : N) (s : st) : Prop := {
  v_recs : Forall (rec_okB a c) (s_recs s);
  v_mcs : Forall (mc_okB b c) (s_mcs s);
  v_nclass : amap_ok a (s_nclass s);
  v_ndef : amap_ok a (s_ndef s);
  v_nmc : amap_ok b (s_nmc s);
  v_ndset : amap_ok c (s_ndset s);
  v_pos : Forall (fun e => sym_okB a b c (snd e)) (s_pos s);
  v_refs : Forall (fun e => sym_okB a b c (fst e)) (s_refs s);
  v_scopes : Forall (scope_okB a b c) (s_scopes s) }.

Definition Valid (s : st) : Prop := ValidB (nrec s) (nmc s) (nleaf s) s.
Definition sym_ok (s : st) (id : symid) : Prop := sym_okB (nrec s) (nmc s) (nleaf s) id.
Definition kind_ok (s : st) (k : skind) : Prop := kind_okB (nrec s) (nmc s) (nleaf s) k.
Definition ext (s s' : st) : Prop := nrec s <= nrec s' /\ nmc s <= nmc s' /\ nleaf s <= nleaf s'.

Lemma ext_refl : forall s, ext s s.
Proof. intros s. unfold ext. lia. Qed.
Lemma ext_trans : forall a b c, ext a b -> ext b c -> ext a c.
Proof. unfold ext. intros a b c H1 H2. lia. Qed.

(** monotonicity in the bounds *)
Lemma amap_ok_mono : forall b b' m, b <= b' -> amap_ok b m -> amap_ok b' m.
Proof. intros b b' m H. apply Forall_impl. intros e He. lia. Qed.
Lemma Forall_lt_mono : forall b b' (l : list N), b <= b' -> Forall (fun p => p < b) l -> Forall (fun p => p < b') l.
Proof. intros b b' l H. apply Forall_impl. intros e He. lia. Qed.
Lemma sym_okB_mono : forall a b c a' b' c' id, a <= a' -> b <= b' -> c <= c' -> sym_okB a b c id -> sym_okB a' b' c' id.
Proof. intros a b c a' b' c' [i|i|i] H1 H2 H3 H; cbn in *; lia. Qed.
Lemma rec_okB_mono : forall a c a' c' r, a <= a' -> c <= c' -> rec_okB a c r -> rec_okB a' c' r.
Proof.
  intros a c a' c' r H1 H2 (Ha & Hb & Hc). repeat split; [eapply amap_ok_mono|eapply amap_ok_mono|eapply Forall_lt_mono]; eassumption.
Qed.
Lemma mc_okB_mono : forall b c b' c' m, b <= b' -> c <= c' -> mc_okB b c m -> mc_okB b' c' m.
Proof. intros b c b' c' m H1 H2 (Ha & Hb). split; [eapply amap_ok_mono|eapply Forall_lt_mono]; eassumption. Qed.
Lemma kind_okB_mono : forall a b c a' b' c' k, a <= a' -> b <= b' -> c <= c' -> kind_okB a b c k -> kind_okB a' b' c' k.
Proof. intros a b c a' b' c' k H1 H2 H3 H. destruct k; cbn in *; try exact I; lia. Qed.
Lemma scope_okB_mono : forall a b c a' b' c' sc, a <= a' -> b <= b' -> c <= c' -> scope_okB a b c sc -> scope_okB a' b' c' sc.
Proof.
  intros a b c a' b' c' sc H1 H2 H3 [Ha Hb]. split; [eapply kind_okB_mono; eassumption|eapply amap_ok_mono; eassumption].
Qed.

Lemma ValidB_mono : forall a b c a' b' c' s, a <= a' -> b <= b' -> c <= c' -> ValidB a b c s -> ValidB a' b' c' s.
Proof.
  intros a b c a' b' c' s H1 H2 H3 [V1 V2 V3 V4 V5 V6 V7 V8 V9]. split.
  - eapply Forall_impl; [|exact V1]. intros r. apply rec_okB_mono; assumption.
  - eapply Forall_impl; [|exact V2]. intros r. apply mc_okB_mono; assumption.
  - eapply amap_ok_mono; eassumption.
  - eapply amap_ok_mono; eassumption.
  - eapply amap_ok_mono; eassumption.
  - eapply amap_ok_mono; eassumption.
  - eapply Forall_impl; [|exact V7]. intros e. apply sym_okB_mono; assumption.
  - eapply Forall_impl; [|exact V8]. intros e. apply sym_okB_mono; assumption.
  - eapply Forall_impl; [|exact V9]. intros e. apply scope_okB_mono; assumption.
Qed.

Lemma sym_ok_mono : forall s s' id, ext s s' -> sym_ok s id -> sym_ok s' id.
Proof. intros s s' id (H1 & H2 & H3). apply sym_okB_mono; assumption. Qed.
Lemma kind_ok_mono : forall s s' k, ext s s' -> kind_ok s k -> kind_ok s' k.
Proof. intros s s' k (H1 & H2 & H3). apply kind_okB_mono; assumption. Qed.

Lemma valid_st0 : Valid st0.
Proof.
  split; cbn; try constructor. - split; [exact I|constructor]. - constructor.
Qed.

(** a state with the same tables is as valid *)
Lemma ValidB_same : forall a b c s s',
  s_recs s' = s_recs s -> s_mcs s' = s_mcs s -> s_nclass s' = s_nclass s -> s_ndef s' = s_ndef s ->
  s_nmc s' = s_nmc s -> s_ndset s' = s_ndset s -> s_pos s' = s_pos s -> s_refs s' = s_refs s ->
  s_scopes s' = s_scopes s -> ValidB a b c s -> ValidB a b c s'.
Proof.
  intros a b c s s' E1 E2 E3 E4 E5 E6 E7 E8 E9 [V1 V2 V3 V4 V5 V6 V7 V8 V9].
  split; rewrite ?E1, ?E2, ?E3, ?E4, ?E5, ?E6, ?E7, ?E8, ?E9; assumption.
Qed.

(** ---- the Hoare logic *)
Definition hs {A} (P : st -> Prop) (m : M A) (Q : A -> st -> Prop) : Prop :=
  forall s, Valid s -> P s ->
    Valid (snd (m s)) /\ ext s (snd (m s)) /\ (forall x, fst (m s) = Some x -> Q x (snd (m s))).
Definition mono (P : st -> Prop) : Prop := forall s s', ext s s' -> P s -> P s'.
Definition anyv {A} : A -> st -> Prop := fun _ _ => True.
Definition top : st -> Prop := fun _ => True.

Lemma mono_top : mono top. Proof. intros s s' _ _. exact I. Qed.
Lemma mono_and : forall P Q, mono P -> mono Q -> mono (fun s => P s /\ Q s).
Proof. intros P Q HP HQ s s' He [H1 H2]. split; [eapply HP|eapply HQ]; eassumption. Qed.
Lemma mono_sym_ok : forall id, mono (fun s => sym_ok s id).
Proof. intros id s s' He H. eapply sym_ok_mono; eassumption. Qed.
Lemma mono_kind_ok : forall k, mono (fun s => kind_ok s k).
Proof. intros k s s' He H. eapply kind_ok_mono; eassumption. Qed.
Lemma mono_snap : forall x, mono (fun s => Valid x /\ ext x s).
Proof. intros x s s' He [H1 H2]. split; [exact H1|eapply ext_trans; eassumption]. Qed.
Lemma mono_lt_nrec : forall i, mono (fun s => i < nrec s).
Proof. intros i s s' (H1 & _) H. lia. Qed.
Lemma mono_lt_nmc : forall i, mono (fun s => i < nmc s).
Proof. intros i s s' (_ & H1 & _) H. lia. Qed.
Lemma mono_lt_nleaf : forall i, mono (fun s => i < nleaf s).
Proof. intros i s s' (_ & _ & H1) H. lia. Qed.

Lemma hs_pre : forall A (P P' : st -> Prop) (m : M A) Q,
  (forall s, Valid s -> P s -> P' s) -> hs P' m Q -> hs P m Q.
Proof. intros A P P' m Q H Hm s Hv Hp. apply Hm; [exact Hv|apply H; assumption]. Qed.
Lemma hs_post : forall A (P : st -> Prop) (m : M A) (Q Q' : A -> st -> Prop),
  (forall x s, Valid s -> Q x s -> Q' x s) -> hs P m Q -> hs P m Q'.
Proof.
  intros A P m Q Q' H Hm s Hv Hp. destruct (Hm s Hv Hp) as (H1 & H2 & H3).
  split; [exact H1|]. split; [exact H2|]. intros x Hx. apply H; [exact H1|apply H3; exact Hx].
Qed.
Lemma hs_any : forall A (P : st -> Prop) (m : M A) Q, hs P m Q -> hs P m anyv.
Proof. intros A P m Q H. eapply hs_post; [|exact H]. intros; exact I. Qed.

Lemma hs_ret : forall A (x : A) (P : st -> Prop) (Q : A -> st -> Prop),
  (forall s, Valid s -> P s -> Q x s) -> hs P (ret x) Q.
Proof.
  intros A x P Q H s Hv Hp. cbn. split; [exact Hv|]. split; [apply ext_refl|].
  intros y Hy. inversion Hy. subst. apply H; assumption.
Qed.
Lemma hs_none : forall A (P : st -> Prop) (Q : A -> st -> Prop), hs P none Q.
Proof. intros A P Q s Hv Hp. cbn. split; [exact Hv|]. split; [apply ext_refl|]. intros y Hy. discriminate. Qed.
Lemma hs_lift : forall A (o : option A) (P : st -> Prop) (Q : A -> st -> Prop),
  (forall x s, o = Some x -> Valid s -> P s -> Q x s) -> hs P (lift o) Q.
Proof.
  intros A o P Q H s Hv Hp. cbn. split; [exact Hv|]. split; [apply ext_refl|]. intros y Hy. apply H; assumption.
Qed.
Lemma hs_get : forall A (f : st -> A) (P : st -> Prop) (Q : A -> st -> Prop),
  (forall s, Valid s -> P s -> Q (f s) s) -> hs P (get f) Q.
Proof.
  intros A f P Q H s Hv Hp. cbn. split; [exact Hv|]. split; [apply ext_refl|].
  intros y Hy. inversion Hy. subst. apply H; assumption.
Qed.
Lemma hs_state : forall (P : st -> Prop), hs P state (fun x s => Valid x /\ ext x s).
Proof. intros P. apply hs_get. intros s Hv _. split; [exact Hv|apply ext_refl]. Qed.
Lemma hs_here : forall r (P : st -> Prop), hs P (here r) anyv.
Proof. intros r P. apply hs_get. intros; exact I. Qed.

Lemma hs_bind : forall A B (m : M A) (f : A -> M B) (P : st -> Prop) Q1 Q2,
  mono P -> hs P m Q1 -> (forall x, hs (fun s => P s /\ Q1 x s) (f x) Q2) -> hs P (bind m f) Q2.
Proof.
  intros A B m f P Q1 Q2 HP Hm Hf s Hv Hp. unfold bind.
  destruct (Hm s Hv Hp) as (H1 & H2 & H3). destruct (m s) as [[x|] s1]; cbn [fst snd] in *.
  - destruct (Hf x s1 H1) as (H4 & H5 & H6); [split; [eapply HP; eassumption|apply H3; reflexivity]|].
    split; [exact H4|]. split; [eapply ext_trans; eassumption|exact H6].
  - split; [exact H1|]. split; [exact H2|]. intros y Hy. discriminate.
Qed.
Lemma hs_seq : forall A B (m : M A) (k : M B) (P : st -> Prop) Q1 Q2,
  mono P -> hs P m Q1 -> hs P k Q2 -> hs P (seq m k) Q2.
Proof.
  intros A B m k P Q1 Q2 HP Hm Hk s Hv Hp. unfold seq.
  destruct (Hm s Hv Hp) as (H1 & H2 & _).
  destruct (Hk (snd (m s)) H1) as (H4 & H5 & H6); [eapply HP; eassumption|].
  split; [exact H4|]. split; [eapply ext_trans; eassumption|exact H6].
Qed.
Lemma hs_try : forall A (m : M A) (P : st -> Prop) Q,
  hs P m Q -> hs P (try_ m) (fun o s => forall x, o = Some x -> Q x s).
Proof.
  intros A m P Q Hm s Hv Hp. unfold try_. destruct (Hm s Hv Hp) as (H1 & H2 & H3).
  destruct (m s) as [o s1]; cbn [fst snd] in *. split; [exact H1|]. split; [exact H2|].
  intros y Hy. inversion Hy. subst. exact H3.
Qed.
Lemma hs_iterM : forall A B (f : A -> M B) l (P : st -> Prop),
  mono P -> (forall x, In x l -> hs P (f x) anyv) -> hs P (iterM f l) anyv.
Proof.
  intros A B f l P HP. induction l as [|x r IH]; intros H; cbn [iterM].
  - apply hs_ret. intros; exact I.
  - eapply hs_seq; [exact HP|apply H; left; reflexivity|apply IH; intros y Hy; apply H; right; exact Hy].
Qed.
Lemma hs_mapM_opt : forall A B (f : A -> M B) l (P : st -> Prop),
  mono P -> (forall x, In x l -> hs P (f x) anyv) -> hs P (mapM_opt f l) anyv.
Proof.
  intros A B f l P HP. induction l as [|x r IH]; intros H; cbn [mapM_opt].
  - apply hs_ret. intros; exact I.
  - eapply hs_bind; [exact HP|apply hs_try; apply H; left; reflexivity|]. intros o.
    eapply hs_bind; [apply mono_and; [exact HP|intros s s' _ _ y _; exact I] | |].
    + eapply hs_pre; [|apply IH; intros y Hy; apply H; right; exact Hy]. intros s _ [Hp _]. exact Hp.
    + intros os. apply hs_ret. intros; exact I.
Qed.

(** ---- primitives *)
Lemma Valid_same : forall s s',
  s_recs s' = s_recs s -> s_mcs s' = s_mcs s -> s_leaves s' = s_leaves s -> s_nclass s' = s_nclass s ->
  s_ndef s' = s_ndef s -> s_nmc s' = s_nmc s -> s_ndset s' = s_ndset s -> s_pos s' = s_pos s ->
  s_refs s' = s_refs s -> s_scopes s' = s_scopes s -> Valid s -> Valid s' /\ ext s s'.
Proof.
  intros s s' E1 E2 E3 E4 E5 E6 E7 E8 E9 E10 Hv. split.
  - unfold Valid, nrec, nmc, nleaf in *. rewrite E1, E2, E3. eapply ValidB_same; eassumption.
  - unfold ext, nrec, nmc, nleaf. rewrite E1, E2, E3. lia.
Qed.

Lemma hs_bad : forall A (P : st -> Prop) (Q : A -> st -> Prop), hs P bad Q.
Proof.
  intros A P Q s Hv Hp. cbn [bad fst snd].
  destruct (Valid_same s (snd (@bad A s))) as [H1 H2]; try reflexivity; try exact Hv.
  split; [exact H1|]. split; [exact H2|]. intros y Hy. discriminate.
Qed.

Lemma hs_upd_same : forall (f : st -> st) (P : st -> Prop),
  (forall s, s_recs (f s) = s_recs s /\ s_mcs (f s) = s_mcs s /\ s_leaves (f s) = s_leaves s /\ s_nclass (f s) = s_nclass s /\
             s_ndef (f s) = s_ndef s /\ s_nmc (f s) = s_nmc s /\ s_ndset (f s) = s_ndset s /\ s_pos (f s) = s_pos s /\
             s_refs (f s) = s_refs s /\ s_scopes (f s) = s_scopes s) ->
  hs P (upd f) anyv.
Proof.
  intros f P H s Hv Hp. cbn. destruct (H s) as (E1 & E2 & E3 & E4 & E5 & E6 & E7 & E8 & E9 & E10).
  destruct (Valid_same s (f s)) as [H1 H2]; try assumption.
  split; [exact H1|]. split; [exact H2|intros; exact I].
Qed.

Lemma hs_error : forall r k (P : st -> Prop), hs P (error r k) anyv.
Proof. intros. apply hs_upd_same. intros s. repeat split. Qed.
Lemma hs_err : forall r k (P : st -> Prop), mono P -> hs P (err r k) anyv.
Proof.
  intros r k P HP. unfold err. eapply hs_bind; [exact HP|apply hs_here|]. intros loc.
  eapply hs_pre; [|apply (hs_error loc k top)]. intros; exact I.
Qed.
Lemma hs_emit : forall l (P : st -> Prop), mono P -> hs P (emit l) anyv.
Proof. intros l P HP. unfold emit. apply hs_iterM; [exact HP|]. intros x _. apply hs_err. exact HP. Qed.
Lemma hs_push_file : forall f (P : st -> Prop), hs P (push_file f) anyv.
Proof. intros. apply hs_upd_same. intros s. repeat split. Qed.
Lemma hs_mark_indexed : forall f (P : st -> Prop), hs P (upd (fun s => set_files (s_trace s) (f :: s_indexed s) s)) anyv.
Proof. intros. apply hs_upd_same. intros s. repeat split. Qed.
Lemma hs_next_anonymous : forall (P : st -> Prop), hs P next_anonymous anyv.
Proof. intros. apply hs_upd_same. intros s. repeat split. Qed.
Lemma hs_pop_file : forall (P : st -> Prop), hs P pop_file anyv.
Proof.
  intros P s Hv Hp. unfold pop_file. destruct (s_trace s) as [|f t]; [apply (hs_bad unit P anyv s Hv Hp)|].
  cbn [fst snd]. destruct (Valid_same s (set_files t (s_indexed s) s)) as [H1 H2]; try reflexivity; try exact Hv.
  split; [exact H1|]. split; [exact H2|intros; exact I].
Qed.

Lemma lenN_app1 : forall A (l : list A) x, lenN (l ++ [x]) = lenN l + 1.
Proof. intros. unfold lenN. rewrite app_length. cbn. lia. Qed.

Lemma Forall_app1 : forall A (Pr : A -> Prop) l x, Forall Pr l -> Pr x -> Forall Pr (l ++ [x]).
Proof. intros. apply Forall_app. split; [assumption|constructor; [assumption|constructor]]. Qed.

(** add_pos keeps everything but the position log *)
Lemma ValidB_add_pos : forall a b c r id s, ValidB a b c s -> sym_okB a b c id -> ValidB a b c (add_pos r id s).
Proof.
  intros a b c r id s [V1 V2 V3 V4 V5 V6 V7 V8 V9] Hid. unfold add_pos. destruct (rng_empty r); [split; assumption|].
  split; cbn; try assumption. constructor; [exact Hid|exact V7].
Qed.
Lemma add_pos_fields : forall r id s,
  s_recs (add_pos r id s) = s_recs s /\ s_mcs (add_pos r id s) = s_mcs s /\ s_leaves (add_pos r id s) = s_leaves s.
Proof. intros. unfold add_pos. destruct (rng_empty r); repeat split. Qed.

Lemma hs_add_reference : forall id l (P : st -> Prop),
  (forall s, Valid s -> P s -> sym_ok s id) -> hs P (add_reference id l) anyv.
Proof.
  intros id l P H s Hv Hp. specialize (H s Hv Hp). unfold add_reference, upd. cbn [fst snd].
  set (s1 := set_refs ((id, l) :: s_refs s) (set_uses ((l, define_loc s id) :: s_uses s) s)).
  assert (Hs1 : ValidB (nrec s) (nmc s) (nleaf s) s1).
  { destruct Hv as [V1 V2 V3 V4 V5 V6 V7 V8 V9]. split; cbn; try assumption. constructor; [exact H|exact V8]. }
  destruct (add_pos_fields l id s1) as (E1 & E2 & E3).
  split; [|split; [|intros; exact I]].
  - unfold Valid, nrec, nmc, nleaf. rewrite E1, E2, E3. apply ValidB_add_pos; [exact Hs1|exact H].
  - unfold ext, nrec, nmc, nleaf. rewrite E1, E2, E3. cbn. lia.
Qed.

Lemma hs_add_record : forall n c l (P : st -> Prop), hs P (add_record n c l) (fun id s => id < nrec s).
Proof.
  intros n c l P s Hv _. unfold add_record. cbn [fst snd].
  set (s1 := set_recs (s_recs s ++ [mkRec n c [] [] [] l]) s).
  set (s2 := if c then set_names ((n, lenN (s_recs s)) :: s_nclass s1) (s_ndef s1) (s_nmc s1) s1
             else set_names (s_nclass s1) ((n, lenN (s_recs s)) :: s_ndef s1) (s_nmc s1) s1).
  assert (Hs2 : ValidB (nrec s + 1) (nmc s) (nleaf s) s2).
  { apply (ValidB_mono (nrec s) (nmc s) (nleaf s) (nrec s + 1) (nmc s) (nleaf s)) in Hv; try lia.
    destruct Hv as [V1 V2 V3 V4 V5 V6 V7 V8 V9].
    assert (Hnew : rec_okB (nrec s + 1) (nleaf s) (mkRec n c [] [] [] l)) by (repeat split; constructor).
    unfold s2. destruct c; split; cbn; try assumption; try (apply Forall_app1; assumption);
      constructor; try assumption; cbn; unfold nrec; lia. }
  assert (E : s_recs s2 = s_recs s ++ [mkRec n c [] [] [] l] /\ s_mcs s2 = s_mcs s /\ s_leaves s2 = s_leaves s)
    by (unfold s2; destruct c; repeat split).
  destruct E as (E1 & E2 & E3). destruct (add_pos_fields l (SyRecord (lenN (s_recs s))) s2) as (F1 & F2 & F3).
  split; [|split].
  - unfold Valid, nrec, nmc, nleaf. rewrite F1, F2, F3, E1, E2, E3, lenN_app1. apply ValidB_add_pos; [exact Hs2|].
    cbn. unfold nrec. lia.
  - unfold ext, nrec, nmc, nleaf. rewrite F1, F2, F3, E1, E2, E3, lenN_app1. lia.
  - intros x Hx. inversion Hx. subst. unfold nrec. rewrite F1, E1, lenN_app1. lia.
Qed.

Lemma hs_add_anonymous_def : forall n l (P : st -> Prop), hs P (add_anonymous_def n l) (fun id s => id < nrec s).
Proof.
  intros n l P s Hv _. unfold add_anonymous_def. cbn [fst snd].
  split; [|split].
  - unfold Valid, nrec, nmc, nleaf. cbn. rewrite lenN_app1.
    apply (ValidB_mono (nrec s) (nmc s) (nleaf s) (nrec s + 1) (nmc s) (nleaf s)) in Hv; try lia.
    destruct Hv as [V1 V2 V3 V4 V5 V6 V7 V8 V9]. split; cbn; try assumption.
    apply Forall_app1; [exact V1|]. repeat split; constructor.
  - unfold ext, nrec, nmc, nleaf. cbn. rewrite lenN_app1. lia.
  - intros x Hx. inversion Hx. subst. unfold nrec. cbn. rewrite lenN_app1. lia.
Qed.

Lemma valid_add_leaf : forall s l, Valid s ->
  ValidB (nrec s) (nmc s) (nleaf s + 1) (set_leaves (s_leaves s ++ [l]) s).
Proof.
  intros s l Hv. apply (ValidB_mono (nrec s) (nmc s) (nleaf s) (nrec s) (nmc s) (nleaf s + 1)) in Hv; try lia.
  destruct Hv as [V1 V2 V3 V4 V5 V6 V7 V8 V9]. split; cbn; assumption.
Qed.

Lemma hs_add_leaf : forall l (P : st -> Prop), hs P (add_leaf l) (fun id s => id < nleaf s).
Proof.
  intros l P s Hv _. unfold add_leaf. cbn [fst snd].
  set (s1 := set_leaves (s_leaves s ++ [l]) s).
  destruct (add_pos_fields (lf_loc l) (SyLeaf (lenN (s_leaves s))) s1) as (F1 & F2 & F3).
  split; [|split].
  - unfold Valid, nrec, nmc, nleaf. rewrite F1, F2, F3. cbn. rewrite lenN_app1.
    apply ValidB_add_pos; [apply valid_add_leaf; exact Hv|]. cbn. unfold nleaf. lia.
  - unfold ext, nrec, nmc, nleaf. rewrite F1, F2, F3. cbn. rewrite lenN_app1. lia.
  - intros x Hx. inversion Hx. subst. unfold nleaf. rewrite F3. cbn. rewrite lenN_app1. lia.
Qed.

Lemma hs_add_leaf_nopos : forall l (P : st -> Prop), hs P (add_leaf_nopos l) (fun id s => id < nleaf s).
Proof.
  intros l P s Hv _. unfold add_leaf_nopos. cbn [fst snd].
  split; [|split].
  - unfold Valid, nrec, nmc, nleaf. cbn. rewrite lenN_app1. apply valid_add_leaf. exact Hv.
  - unfold ext, nrec, nmc, nleaf. cbn. rewrite lenN_app1. lia.
  - intros x Hx. inversion Hx. subst. unfold nleaf. cbn. rewrite lenN_app1. lia.
Qed.

Lemma hs_add_defset : forall l (P : st -> Prop), hs P (add_defset l) (fun id s => id < nleaf s).
Proof.
  intros l P s Hv _. unfold add_defset. cbn [fst snd].
  set (s1 := set_leaves (s_leaves s ++ [l]) s).
  set (s2 := set_ndset ((lf_name l, lenN (s_leaves s)) :: s_ndset s1) s1).
  assert (Hs2 : ValidB (nrec s) (nmc s) (nleaf s + 1) s2).
  { pose proof (valid_add_leaf s l Hv) as [V1 V2 V3 V4 V5 V6 V7 V8 V9]. split; cbn; try assumption.
    constructor; [cbn; unfold nleaf; lia|exact V6]. }
  destruct (add_pos_fields (lf_loc l) (SyLeaf (lenN (s_leaves s))) s2) as (F1 & F2 & F3).
  split; [|split].
  - unfold Valid, nrec, nmc, nleaf. rewrite F1, F2, F3. cbn. rewrite lenN_app1.
    apply ValidB_add_pos; [exact Hs2|]. cbn. unfold nleaf. lia.
  - unfold ext, nrec, nmc, nleaf. rewrite F1, F2, F3. cbn. rewrite lenN_app1. lia.
  - intros x Hx. inversion Hx. subst. unfold nleaf. rewrite F3. cbn. rewrite lenN_app1. lia.
Qed.

Lemma hs_add_multiclass : forall n l (P : st -> Prop), hs P (add_multiclass n l) (fun id s => id < nmc s).
Proof.
  intros n l P s Hv _. unfold add_multiclass. cbn [fst snd].
  set (s1 := set_mcs (s_mcs s ++ [mkMc n [] [] l]) s).
  set (s2 := set_names (s_nclass s1) (s_ndef s1) ((n, lenN (s_mcs s)) :: s_nmc s1) s1).
  assert (Hs2 : ValidB (nrec s) (nmc s + 1) (nleaf s) s2).
  { apply (ValidB_mono (nrec s) (nmc s) (nleaf s) (nrec s) (nmc s + 1) (nleaf s)) in Hv; try lia.
    destruct Hv as [V1 V2 V3 V4 V5 V6 V7 V8 V9]. split; cbn; try assumption.
    - apply Forall_app1; [exact V2|]. split; constructor.
    - constructor; [cbn; unfold nmc; lia|exact V5]. }
  destruct (add_pos_fields l (SyMc (lenN (s_mcs s))) s2) as (F1 & F2 & F3).
  split; [|split].
  - unfold Valid, nrec, nmc, nleaf. rewrite F1, F2, F3. cbn. rewrite lenN_app1.
    apply ValidB_add_pos; [exact Hs2|]. cbn. unfold nmc. lia.
  - unfold ext, nrec, nmc, nleaf. rewrite F1, F2, F3. cbn. rewrite lenN_app1. lia.
  - intros x Hx. inversion Hx. subst. unfold nmc. rewrite F2. cbn. rewrite lenN_app1. lia.
Qed.

Lemma length_set_nth : forall A n (f : A -> A) l, length (set_nth n f l) = length l.
Proof. intros A n f l. revert n. induction l as [|x r IH]; intros [|n]; cbn; auto. Qed.
Lemma Forall_set_nth : forall A (Pr : A -> Prop) n (f : A -> A) l,
  Forall Pr l -> (forall x, Pr x -> Pr (f x)) -> Forall Pr (set_nth n f l).
Proof.
  intros A Pr n f l H Hf. revert n. induction H as [|x r Hx Hr IH]; intros [|n]; cbn; constructor; auto.
Qed.

Lemma hs_record_mut : forall id (f : recd -> recd) (P : st -> Prop),
  (forall s r, Valid s -> P s -> rec_okB (nrec s) (nleaf s) r -> rec_okB (nrec s) (nleaf s) (f r)) ->
  hs P (record_mut id f) anyv.
Proof.
  intros id f P H s Hv Hp. unfold record_mut. destruct (nthN (s_recs s) id); [|apply (hs_bad unit P anyv s Hv Hp)].
  cbn [fst snd]. split; [|split; [|intros; exact I]].
  - unfold Valid, nrec, nmc, nleaf, lenN. cbn. rewrite length_set_nth.
    pose proof Hv as [V1 V2 V3 V4 V5 V6 V7 V8 V9]. split; cbn; try assumption.
    apply Forall_set_nth; [exact V1|]. intros r0 Hr0. apply (H s r0 Hv Hp Hr0).
  - unfold ext, nrec, nmc, nleaf, lenN. cbn. rewrite length_set_nth. lia.
Qed.
Lemma hs_multiclass_mut : forall id (f : mcd -> mcd) (P : st -> Prop),
  (forall s r, Valid s -> P s -> mc_okB (nmc s) (nleaf s) r -> mc_okB (nmc s) (nleaf s) (f r)) ->
  hs P (multiclass_mut id f) anyv.
Proof.
  intros id f P H s Hv Hp. unfold multiclass_mut. destruct (nthN (s_mcs s) id); [|apply (hs_bad unit P anyv s Hv Hp)].
  cbn [fst snd]. split; [|split; [|intros; exact I]].
  - unfold Valid, nrec, nmc, nleaf, lenN. cbn. rewrite length_set_nth.
    pose proof Hv as [V1 V2 V3 V4 V5 V6 V7 V8 V9]. split; cbn; try assumption.
    apply Forall_set_nth; [exact V2|]. intros r0 Hr0. apply (H s r0 Hv Hp Hr0).
  - unfold ext, nrec, nmc, nleaf, lenN. cbn. rewrite length_set_nth. lia.
Qed.

Lemma amap_ok_imap_insert : forall b k v m, v < b -> amap_ok b m -> amap_ok b (imap_insert k v m).
Proof.
  intros b k v m Hv H. induction H as [|[k' v'] rest Hx Hr IH]; cbn.
  - constructor; [exact Hv|constructor].
  - destruct (name_eqb k k'); constructor; cbn; auto.
Qed.

Lemma hs_rec_add_targ : forall rid n t (P : st -> Prop), (forall s, Valid s -> P s -> t < nleaf s) ->
  hs P (record_mut rid (rec_add_targ n t)) anyv.
Proof.
  intros rid n t P H. apply hs_record_mut. intros s r Hv Hp (Ha & Hb & Hc). repeat split; cbn; try assumption.
  apply amap_ok_imap_insert; [apply H; assumption|exact Ha].
Qed.
Lemma hs_rec_add_field : forall rid n t (P : st -> Prop), (forall s, Valid s -> P s -> t < nleaf s) ->
  hs P (record_mut rid (rec_add_field n t)) anyv.
Proof.
  intros rid n t P H. apply hs_record_mut. intros s r Hv Hp (Ha & Hb & Hc). repeat split; cbn; try assumption.
  apply amap_ok_imap_insert; [apply H; assumption|exact Hb].
Qed.
Lemma hs_rec_add_parent : forall rid p (P : st -> Prop), (forall s, Valid s -> P s -> p < nrec s) ->
  hs P (record_mut rid (rec_add_parent p)) anyv.
Proof.
  intros rid p P H. apply hs_record_mut. intros s r Hv Hp (Ha & Hb & Hc). repeat split; cbn; try assumption.
  apply Forall_app1; [exact Hc|apply H; assumption].
Qed.
Lemma hs_mc_add_targ : forall mid n t (P : st -> Prop), (forall s, Valid s -> P s -> t < nleaf s) ->
  hs P (multiclass_mut mid (mc_add_targ n t)) anyv.
Proof.
  intros mid n t P H. apply hs_multiclass_mut. intros s r Hv Hp (Ha & Hb). split; cbn; try assumption.
  apply amap_ok_imap_insert; [apply H; assumption|exact Ha].
Qed.
Lemma hs_mc_add_parent : forall mid p (P : st -> Prop), (forall s, Valid s -> P s -> p < nmc s) ->
  hs P (multiclass_mut mid (mc_add_parent p)) anyv.
Proof.
  intros mid p P H. apply hs_multiclass_mut. intros s r Hv Hp (Ha & Hb). split; cbn; try assumption.
  apply Forall_app1; [exact Hb|apply H; assumption].
Qed.

Lemma hs_push_scope : forall k (P : st -> Prop), (forall s, Valid s -> P s -> kind_ok s k) -> hs P (push_scope k) anyv.
Proof.
  intros k P H s Hv Hp. specialize (H s Hv Hp). unfold push_scope, upd. cbn [fst snd].
  split; [|split; [unfold ext, nrec, nmc, nleaf; cbn; lia|intros; exact I]].
  unfold Valid in *. cbn. destruct Hv as [V1 V2 V3 V4 V5 V6 V7 V8 V9]. split; cbn; try assumption.
  constructor; [split; [exact H|constructor]|exact V9].
Qed.
Lemma hs_pop_scope : forall (P : st -> Prop), hs P pop_scope anyv.
Proof.
  intros P s Hv Hp. unfold pop_scope. destruct (s_scopes s) as [|c t] eqn:E; [apply (hs_bad unit P anyv s Hv Hp)|].
  cbn [fst snd]. split; [|split; [unfold ext, nrec, nmc, nleaf; cbn; lia|intros; exact I]].
  unfold Valid in *. cbn. destruct Hv as [V1 V2 V3 V4 V5 V6 V7 V8 V9]. split; cbn; try assumption.
  rewrite E in V9. inversion V9. assumption.
Qed.

Lemma hs_scoped : forall A k (body : M A) (P : st -> Prop) (Q : A -> st -> Prop),
  mono P -> (forall x, mono (Q x)) -> (forall s, Valid s -> P s -> kind_ok s k) ->
  hs P body Q -> hs P (scoped k body) Q.
Proof.
  intros A k body P Q HP HQ Hk Hb. unfold scoped.
  eapply hs_seq; [exact HP|apply hs_push_scope; exact Hk|].
  eapply hs_bind; [exact HP|apply hs_try; exact Hb|]. intros o. cbn beta.
  eapply hs_seq.
  - apply mono_and; [exact HP|]. intros s s' He H x Hx. eapply HQ; [exact He|apply H; exact Hx].
  - apply hs_pop_scope.
  - apply hs_lift. intros x s Ho _ [_ H]. apply H. exact Ho.
Qed.

Lemma hs_scopes_add_variable : forall l (P : st -> Prop), hs P (scopes_add_variable l) anyv.
Proof.
  intros l P. eapply hs_pre with (P' := top); [intros; exact I|]. unfold scopes_add_variable.
  eapply hs_bind with (Q1 := fun id s => id < nleaf s).
  - apply mono_top.
  - apply (hs_add_leaf l top).
  - intros id s Hv [_ Hid]. destruct (s_scopes s) as [|c t] eqn:E; [apply (hs_bad unit top anyv s Hv I)|].
    cbn [fst snd]. split; [|split; [unfold ext, nrec, nmc, nleaf; cbn; lia|intros; exact I]].
    unfold Valid in *. cbn. destruct Hv as [V1 V2 V3 V4 V5 V6 V7 V8 V9]. split; cbn; try assumption.
    rewrite E in V9. inversion V9 as [|? ? [Hk Hvars] Ht]. subst. constructor; [|exact Ht].
    split; [exact Hk|]. cbn. constructor; [exact Hid|exact Hvars].
Qed.

(** ---- lookups return allocated ids *)
Lemma alookup_ok : forall b k (m : list (name * N)) v, amap_ok b m -> alookup k m = Some v -> v < b.
Proof.
  intros b k m v H. induction H as [|[k' v'] rest Hx Hr IH]; cbn; [discriminate|].
  destruct (name_eqb k k'); [intros E; inversion E; subst; exact Hx|exact IH].
Qed.
Lemma nthN_Forall : forall A (Pr : A -> Prop) l i x, Forall Pr l -> nthN l i = Some x -> Pr x.
Proof.
  intros A Pr l i x H E. unfold nthN in E. apply nth_error_In in E. rewrite Forall_forall in H. apply H. exact E.
Qed.
Lemma nthN_lt : forall A (l : list A) i x, nthN l i = Some x -> i < lenN l.
Proof.
  intros A l i x E. unfold nthN in E. assert (H : (N.to_nat i < length l)%nat) by (apply nth_error_Some; congruence).
  unfold lenN. lia.
Qed.

Lemma find_class_ok : forall x nm c, Valid x -> find_class x nm = Some c -> c < nrec x.
Proof. intros x nm c Hv E. eapply alookup_ok; [apply (v_nclass _ _ _ _ Hv)|exact E]. Qed.
Lemma find_def_ok : forall x nm c, Valid x -> find_def x nm = Some c -> c < nrec x.
Proof. intros x nm c Hv E. eapply alookup_ok; [apply (v_ndef _ _ _ _ Hv)|exact E]. Qed.
Lemma find_multiclass_ok : forall x nm c, Valid x -> find_multiclass x nm = Some c -> c < nmc x.
Proof. intros x nm c Hv E. eapply alookup_ok; [apply (v_nmc _ _ _ _ Hv)|exact E]. Qed.
Lemma find_defset_ok : forall x nm c, Valid x -> find_defset x nm = Some c -> c < nleaf x.
Proof. intros x nm c Hv E. eapply alookup_ok; [apply (v_ndset _ _ _ _ Hv)|exact E]. Qed.

Lemma find_field_okB : forall a c recs fuel id nm f,
  Forall (rec_okB a c) recs -> Scope.find_field fuel recs id nm = Some f -> f < c.
Proof.
  intros a c recs. induction fuel as [|fuel IH]; intros id nm f Hr E; cbn in E; [discriminate|].
  destruct (nthN recs id) as [r|] eqn:En; [|discriminate].
  pose proof (nthN_Forall _ _ _ _ _ Hr En) as (Ha & Hb & Hc).
  destruct (alookup nm (rc_fields r)) as [f0|] eqn:Ef.
  - inversion E. subst. eapply alookup_ok; eassumption.
  - clear Hc. induction (rc_parents r) as [|p ps IHps]; [discriminate|].
    destruct (Scope.find_field fuel recs p nm) as [f1|] eqn:E1.
    + inversion E. subst. eapply IH; eassumption.
    + apply IHps. exact E.
Qed.
Lemma find_field_ok : forall x id nm f, Valid x -> Scope.find_field (rec_fuel x) (s_recs x) id nm = Some f -> f < nleaf x.
Proof. intros x id nm f Hv E. eapply find_field_okB; [apply (v_recs _ _ _ _ Hv)|exact E]. Qed.
Lemma ty_find_field_ok : forall x t nm f, Valid x -> ty_find_field x t nm = Some f -> f < nleaf x.
Proof. intros x t nm f Hv E. unfold ty_find_field in E. destruct t; try discriminate. eapply find_field_ok; eassumption. Qed.

Lemma find_map_scopes : forall B (g : scope -> option B) (Pr : scope -> Prop) scs y,
  Forall Pr scs -> find_map g scs = Some y -> exists c, Pr c /\ g c = Some y.
Proof.
  intros B g Pr scs y H. induction H as [|c t Hc Ht IH]; cbn; [discriminate|].
  destruct (g c) eqn:E; [intros E2; inversion E2; subst; eauto|exact IH].
Qed.
Lemma current_record_ok : forall x rid, Valid x -> current_record_id x = Some rid -> rid < nrec x.
Proof.
  intros x rid Hv E. destruct (find_map_scopes _ _ _ _ _ (v_scopes _ _ _ _ Hv) E) as (c & [Hk _] & Hc).
  unfold sc_record_id in Hc. destruct (sc_kind c); try discriminate. inversion Hc. subst. exact Hk.
Qed.
Lemma current_multiclass_ok : forall x mid, Valid x -> current_multiclass_id x = Some mid -> mid < nmc x.
Proof.
  intros x rid Hv E. destruct (find_map_scopes _ _ _ _ _ (v_scopes _ _ _ _ Hv) E) as (c & [Hk _] & Hc).
  unfold sc_multiclass_id in Hc. destruct (sc_kind c); try discriminate. inversion Hc. subst. exact Hk.
Qed.

Lemma scope_find_ok : forall x c nm sym, Valid x -> scope_okB (nrec x) (nmc x) (nleaf x) c ->
  scope_find x c nm = Some sym -> sym_ok x sym.
Proof.
  intros x c nm sym Hv [Hk Hvars] E. unfold scope_find in E.
  destruct (sc_find_variable c nm) as [v|] eqn:Ev.
  - inversion E. subst. unfold sc_find_variable in Ev.
    destruct (alookup nm (sc_vars c)) eqn:Ea.
    + inversion Ev. subst. cbn. eapply alookup_ok; eassumption.
    + destruct (sc_kind c); try discriminate. destruct (name_eqb nm nm0); [|discriminate].
      inversion Ev. subst. exact Hk.
  - destruct (sc_kind c) eqn:Ek; try discriminate.
    + destruct (Scope.find_field (rec_fuel x) (s_recs x) id nm) eqn:Ef.
      * inversion E. subst. cbn. eapply find_field_ok; eassumption.
      * destruct (nthN (s_recs x) id) as [r|] eqn:En; [|discriminate].
        pose proof (nthN_Forall _ _ _ _ _ (v_recs _ _ _ _ Hv) En) as (Ha & _ & _).
        destruct (alookup nm (rc_targs r)) eqn:Et; [|discriminate]. inversion E. subst. cbn. eapply alookup_ok; eassumption.
    + destruct (nthN (s_mcs x) id) as [m|] eqn:En; [|discriminate].
      pose proof (nthN_Forall _ _ _ _ _ (v_mcs _ _ _ _ Hv) En) as (Ha & _).
      destruct (alookup nm (mc_targs m)) eqn:Et; [|discriminate]. inversion E. subst. cbn. eapply alookup_ok; eassumption.
Qed.
Lemma resolve_id_ok : forall x nm sym, Valid x -> resolve_id x nm = Some sym -> sym_ok x sym.
Proof.
  intros x nm sym Hv E. unfold resolve_id in E. destruct (find_local x nm) as [id|] eqn:El.
  - inversion E. subst. unfold find_local in El.
    destruct (find_map_scopes _ _ _ _ _ (v_scopes _ _ _ _ Hv) El) as (c & Hc & Hf). eapply scope_find_ok; eassumption.
  - destruct (find_def x nm) eqn:Ed.
    + inversion E. subst. cbn. eapply find_def_ok; eassumption.
    + destruct (find_defset x nm) eqn:Es; [|discriminate]. inversion E. subst. cbn. eapply find_defset_ok; eassumption.
Qed.

(** ---- automation *)
Lemma mono_opt : forall A (o : option A) (Q : A -> st -> Prop),
  (forall x, mono (Q x)) -> mono (fun s => forall x, o = Some x -> Q x s).
Proof. intros A o Q H s s' He Hq x Hx. eapply H; [exact He|apply Hq; exact Hx]. Qed.
Lemma mono_anyv : forall A (x : A), mono (anyv x).
Proof. intros A x s s' _ _. exact I. Qed.

Ltac hmono :=
  repeat first
    [ apply mono_top | apply mono_snap | apply mono_and | apply mono_sym_ok | apply mono_kind_ok
    | apply mono_lt_nrec | apply mono_lt_nmc | apply mono_lt_nleaf | apply mono_anyv
    | apply mono_opt; intros ? | assumption
    | (intros ? ? ? ?; exact I) ].

Ltac lookups :=
  repeat match goal with
  | H : _ /\ _ |- _ => destruct H
  end;
  repeat match goal with
  | Hv : Valid ?x, E : find_class ?x _ = Some ?c |- _ =>
      lazymatch goal with _ : c < nrec x |- _ => fail | _ => pose proof (find_class_ok _ _ _ Hv E) end
  | Hv : Valid ?x, E : find_def ?x _ = Some ?c |- _ =>
      lazymatch goal with _ : c < nrec x |- _ => fail | _ => pose proof (find_def_ok _ _ _ Hv E) end
  | Hv : Valid ?x, E : find_multiclass ?x _ = Some ?c |- _ =>
      lazymatch goal with _ : c < nmc x |- _ => fail | _ => pose proof (find_multiclass_ok _ _ _ Hv E) end
  | Hv : Valid ?x, E : ty_find_field ?x _ _ = Some ?c |- _ =>
      lazymatch goal with _ : c < nleaf x |- _ => fail | _ => pose proof (ty_find_field_ok _ _ _ _ Hv E) end
  | Hv : Valid ?x, E : Scope.find_field (rec_fuel ?x) (s_recs ?x) _ _ = Some ?c |- _ =>
      lazymatch goal with _ : c < nleaf x |- _ => fail | _ => pose proof (find_field_ok _ _ _ _ Hv E) end
  | Hv : Valid ?x, E : current_record_id ?x = Some ?c |- _ =>
      lazymatch goal with _ : c < nrec x |- _ => fail | _ => pose proof (current_record_ok _ _ Hv E) end
  | Hv : Valid ?x, E : current_multiclass_id ?x = Some ?c |- _ =>
      lazymatch goal with _ : c < nmc x |- _ => fail | _ => pose proof (current_multiclass_ok _ _ Hv E) end
  | Hv : Valid ?x, E : resolve_id ?x _ = Some ?c |- _ =>
      lazymatch goal with _ : sym_ok x c |- _ => fail | _ => pose proof (resolve_id_ok _ _ _ Hv E) end
  end.

Ltac solve_ok :=
  intros; lookups;
  first [ exact I
        | match goal with H : sym_ok ?x ?id, He : ext ?x ?s |- sym_ok ?s ?id => exact (sym_ok_mono _ _ _ He H) end
        | assumption
        | (unfold sym_ok, kind_ok, ext in *; cbn [sym_okB kind_okB] in *; lia) ].

Ltac hret := apply hs_ret; intros; exact I.

(** ---- the traversal of Indexer.v *)
Lemma h_leaf_of : forall i P, mono P -> hs P (leaf_of i) anyv.
Proof.
  intros i P HP. unfold leaf_of. eapply hs_bind; [exact HP|apply hs_state|]. intros x.
  apply hs_lift. intros; exact I.
Qed.

Lemma h_index_ty : forall t P, mono P -> hs P (index_ty t) anyv.
Proof.
  induction t; intros P HP; cbn [index_ty]; try hret.
  - eapply hs_bind; [exact HP|apply IHt; exact HP|]. intros x. hret.
  - eapply hs_bind; [exact HP|apply hs_here|]. intros loc.
    eapply hs_bind; [hmono|apply hs_state|]. intros x.
    destruct (find_class x (i_name i)) eqn:E.
    + eapply hs_seq; [hmono|apply hs_add_reference; solve_ok|hret].
    + eapply hs_seq; [hmono|apply hs_error|apply hs_none].
Qed.

Lemma h_index_annot : forall op an r P, mono P -> hs P (index_annot op an r) anyv.
Proof.
  intros op an r P HP. unfold index_annot. destruct (bang_annot op).
  - eapply hs_seq; [exact HP| |hret]. destruct an as [[t tr]|]; [apply hs_err; exact HP|hret].
  - destruct an as [[t tr]|].
    + eapply hs_any. apply hs_try. apply h_index_ty. exact HP.
    + eapply hs_seq; [exact HP|apply hs_err; exact HP|hret].
  - destruct an as [[t tr]|]; [|hret]. eapply hs_any. apply hs_try. apply h_index_ty. exact HP.
Qed.
Lemma h_check_arity : forall op vs r P, mono P -> hs P (check_arity op vs r) anyv.
Proof. intros. unfold check_arity. destruct (arity_ok _ _); [hret|apply hs_err; assumption]. Qed.

Definition values_ok (n : nat) : Prop :=
  (forall v P, mono P -> hs P (index_value n v) anyv) /\
  (forall x P, mono P -> hs P (index_inner n x) anyv) /\
  (forall sv P, mono P -> hs P (index_simple n sv) anyv) /\
  (forall a P, mono P -> hs P (index_arg n a) anyv) /\
  (forall op an vs r P, mono P -> hs P (index_bang n op an vs r) anyv) /\
  (forall op a vs r P, mono P -> hs P (index_bang_ops n op a vs r) anyv).

Lemma h_sufs_loop : forall (l : list suffix) t P, mono P ->
  hs P ((fix sufs_loop (t : mty) (l : list suffix) : M mty :=
           match l with
           | [] => ret t
           | sf :: r =>
             bind match sf with
                   | SufRange => lift (match t with MBits _ => Some MBit | _ => None end)
                   | SufSlice single => if single then lift (element_typ t) else ret t
                   | SufField i fr =>
                     bind (here (i_rng i)) (fun loc =>
                     bind state (fun s =>
                     match ty_find_field s t (i_name i) with
                     | None => match t with MUnknown => none | _ => seq (err fr DCannotAccessField) none end
                     | Some f => seq (add_reference (SyLeaf f) loc) (bind (leaf_of f) (fun lf => ret (lf_ty lf)))
                     end))
                   end (fun t' => sufs_loop t' r)
           end) t l) anyv.
Proof.
  induction l as [|sf r IH]; intros t P HP; [hret|].
  eapply hs_bind with (Q1 := anyv); [exact HP| |intros t'; apply IH; hmono].
  destruct sf as [|single|i fr].
  - apply hs_lift. intros; exact I.
  - destruct single; [apply hs_lift; intros; exact I|hret].
  - eapply hs_bind; [exact HP|apply hs_here|]. intros loc.
    eapply hs_bind; [hmono|apply hs_state|]. intros x.
    destruct (ty_find_field x t (i_name i)) eqn:E.
    + eapply hs_seq; [hmono|apply hs_add_reference; solve_ok|].
      eapply hs_bind; [hmono|apply h_leaf_of; hmono|]. intros lf. hret.
    + destruct t; try (eapply hs_seq; [hmono|apply hs_err; hmono|apply hs_none]). apply hs_none.
Qed.

Lemma h_bind_var : forall i t P, mono P ->
  hs P (bind (here (i_rng i)) (fun loc => scopes_add_variable (mkLeaf LVar (i_name i) t false loc))) anyv.
Proof. intros. eapply hs_bind; [assumption|apply hs_here|]. intros loc. apply hs_scopes_add_variable. Qed.

Lemma values_ok_all : forall n, values_ok n.
Proof.
  induction n as [|n (IHv & IHi & IHs & IHa & IHb & IHo)].
  - split; [|split; [|split; [|split; [|split]]]].
    + intros v P HP. apply hs_bad.
    + intros x P HP. apply hs_bad.
    + intros sv P HP. apply hs_bad.
    + intros a P HP. apply hs_bad.
    + intros op an vs r P HP. apply hs_bad.
    + intros op a vs r P HP. apply hs_bad.
  - assert (Hvals : forall vs P, mono P -> hs P (iterM (index_value n) vs) anyv)
      by (intros; apply hs_iterM; [assumption|intros; apply IHv; assumption]).
    assert (Hmap : forall vs P, mono P -> hs P (mapM_opt (index_value n) vs) anyv)
      by (intros; apply hs_mapM_opt; [assumption|intros; apply IHv; assumption]).
    split; [|split; [|split; [|split; [|split]]]].
    + (* index_value *)
      intros [r [|first rest]] P HP; cbn [index_value]; [apply hs_none|].
      eapply hs_bind; [exact HP|apply hs_try; apply IHi; exact HP|]. intros t1.
      eapply hs_seq; [hmono|apply hs_iterM; [hmono|intros; apply IHi; hmono]|].
      destruct rest; [apply hs_lift; intros; exact I|hret].
    + (* index_inner *)
      intros [sv sufs] P HP; cbn [index_inner].
      eapply hs_bind; [exact HP|apply IHs; exact HP|]. intros t0. apply h_sufs_loop. hmono.
    + (* index_simple *)
      intros sv P HP. destruct sv; cbn [index_simple]; try hret.
      * eapply hs_seq; [exact HP|apply Hvals; exact HP|hret].
      * eapply hs_bind; [exact HP|apply Hmap; exact HP|]. intros os. hret.
      * eapply hs_seq; [exact HP|apply Hvals; exact HP|hret].
      * (* SId *)
        eapply hs_bind; [exact HP|apply hs_here|]. intros loc.
        eapply hs_bind; [hmono|apply hs_state|]. intros x.
        destruct (resolve_id x (i_name i)) as [sym|] eqn:E.
        -- eapply hs_seq; [hmono|apply hs_add_reference; solve_ok|].
           eapply hs_bind; [hmono|apply hs_state|]. intros x'.
           destruct sym.
           ++ eapply hs_bind with (Q1 := anyv); [hmono|apply hs_lift; intros; exact I|]. intros rc.
              destruct (rc_class rc); [apply hs_none|].
              eapply hs_bind with (Q1 := anyv); [hmono|apply hs_lift; intros; exact I|]. intros d. hret.
           ++ apply hs_none.
           ++ eapply hs_bind with (Q1 := anyv); [hmono|apply hs_lift; intros; exact I|]. intros lf.
              destruct (lf_kind lf); try hret. apply hs_none.
        -- destruct (name_eqb (i_name i) name_NAME); [hret|].
           eapply hs_seq; [hmono|apply hs_error|apply hs_none].
      * (* SClassVal *)
        eapply hs_bind; [exact HP|apply hs_here|]. intros loc.
        eapply hs_bind; [hmono|apply hs_state|]. intros x.
        destruct (find_class x (i_name i)) as [cid|] eqn:E.
        -- eapply hs_seq; [hmono|apply hs_add_reference; solve_ok|].
           eapply hs_bind; [hmono|apply hs_state|]. intros x1.
           eapply hs_bind with (Q1 := anyv); [hmono|apply hs_lift; intros; exact I|]. intros rc.
           eapply hs_bind with (Q1 := anyv); [hmono|apply hs_mapM_opt; [hmono|intros; apply IHa; hmono]|]. intros avs.
           eapply hs_bind; [hmono|apply hs_state|]. intros x2.
           eapply hs_seq; [hmono|apply hs_emit; hmono|hret].
        -- eapply hs_seq; [hmono|apply hs_error|apply hs_none].
      * (* SBang *) apply IHb. exact HP.
      * eapply hs_seq; [exact HP|apply Hvals; exact HP|apply hs_none].
    + (* index_arg *)
      intros a P HP. destruct a; cbn [index_arg].
      * eapply hs_bind; [exact HP|apply hs_try; apply IHv; exact HP|]. intros o. hret.
      * eapply hs_bind; [exact HP|apply hs_try; apply IHv; exact HP|]. intros o. hret.
      * eapply hs_seq; [exact HP|apply hs_err; exact HP|apply hs_none].
    + (* index_bang *)
      intros op an vs r P HP. cbn [index_bang].
      eapply hs_bind; [exact HP|apply h_index_annot; exact HP|]. intros a.
      eapply hs_seq; [hmono|apply h_check_arity; hmono|apply IHo; hmono].
    + (* index_bang_ops *)
      intros op a vs r P HP. cbn [index_bang_ops].
      assert (Hl : forall (o : option value) (P0 : st -> Prop), hs P0 (lift o) anyv) by (intros; apply hs_lift; intros; exact I).
      assert (Hdflt :
        hs P (match bang_check_each op with
              | Some expected =>
                seq (iterM (fun v =>
                         bind (try_ (index_value n v)) (fun o =>
                         match o with
                         | Some t => bind state (fun s => if can_cast s t expected then ret tt else err (value_rng v) DOperand)
                         | None => ret tt
                         end)) vs)
                    (bind state (fun s => lift (snd (bang_post s op a []))))
              | None =>
                bind (mapM_opt (index_value n) vs) (fun os =>
                bind state (fun s =>
                let '(ds, t) := bang_post s op a (combine (map value_rng vs) os) in
                seq (iterM (fun d => err (fst d) DOperand) ds) (lift t)))
              end) anyv).
      { destruct (bang_check_each op) as [expected|].
        - eapply hs_seq; [exact HP| |].
          + apply hs_iterM; [exact HP|]. intros v _.
            eapply hs_bind; [exact HP|apply hs_try; apply IHv; exact HP|]. intros o.
            destruct o as [t|]; [|hret].
            eapply hs_bind; [hmono|apply hs_state|]. intros x.
            destruct (can_cast x t expected); [hret|apply hs_err; hmono].
          + eapply hs_bind; [exact HP|apply hs_state|]. intros x. apply hs_lift. intros; exact I.
        - eapply hs_bind; [exact HP|apply Hmap; exact HP|]. intros os.
          eapply hs_bind; [hmono|apply hs_state|]. intros x.
          destruct (bang_post x op a (combine (map value_rng vs) os)) as [ds t].
          eapply hs_seq; [hmono| |apply hs_lift; intros; exact I].
          apply hs_iterM; [hmono|]. intros d _. apply hs_err. hmono. }
      destruct op; try exact Hdflt; clear Hdflt.
      * (* XFilter *)
        eapply hs_bind; [exact HP|apply Hl|]. intros var.
        eapply hs_bind; [hmono|apply Hl|]. intros lst.
        eapply hs_bind; [hmono|apply Hl|]. intros pred.
        eapply hs_bind; [hmono|apply IHv; hmono|]. intros lt.
        eapply hs_bind with (Q1 := anyv); [hmono|apply hs_lift; intros; exact I|]. intros vt.
        eapply hs_bind with (Q1 := anyv); [hmono|apply hs_lift; intros; exact I|]. intros i.
        eapply hs_seq; [hmono| |hret].
        apply hs_scoped; [hmono|intros; hmono|solve_ok|].
        eapply hs_seq; [hmono|apply h_bind_var; hmono|apply IHv; hmono].
      * (* XFoldl *)
        eapply hs_bind; [exact HP|apply Hl|]. intros init.
        eapply hs_bind; [hmono|apply Hl|]. intros lst.
        eapply hs_bind; [hmono|apply Hl|]. intros acc.
        eapply hs_bind; [hmono|apply Hl|]. intros var.
        eapply hs_bind; [hmono|apply Hl|]. intros expr.
        eapply hs_bind; [hmono|apply IHv; hmono|]. intros it.
        eapply hs_bind; [hmono|apply IHv; hmono|]. intros lt.
        eapply hs_bind with (Q1 := anyv); [hmono|apply hs_lift; intros; exact I|]. intros et.
        eapply hs_bind with (Q1 := anyv); [hmono|apply hs_lift; intros; exact I|]. intros ia.
        eapply hs_bind with (Q1 := anyv); [hmono|apply hs_lift; intros; exact I|]. intros iv.
        eapply hs_seq; [hmono| |hret].
        apply hs_scoped; [hmono|intros; hmono|solve_ok|].
        eapply hs_seq; [hmono|apply h_bind_var; hmono|].
        eapply hs_seq; [hmono|apply h_bind_var; hmono|apply IHv; hmono].
      * (* XForEach *)
        eapply hs_bind; [exact HP|apply Hl|]. intros var.
        eapply hs_bind; [hmono|apply Hl|]. intros sq.
        eapply hs_bind; [hmono|apply Hl|]. intros expr.
        eapply hs_bind; [hmono|apply IHv; hmono|]. intros st_.
        eapply hs_bind with (Q1 := anyv); [hmono|apply hs_lift; intros; exact I|]. intros vt.
        eapply hs_bind with (Q1 := anyv); [hmono|apply hs_lift; intros; exact I|]. intros i.
        eapply hs_bind; [hmono| |intros et; hret].
        apply hs_try. apply hs_scoped; [hmono|intros; hmono|solve_ok|].
        eapply hs_seq; [hmono|apply h_bind_var; hmono|apply IHv; hmono].
Qed.

Lemma h_index_value : forall n v P, mono P -> hs P (index_value n v) anyv.
Proof. intros n. apply (values_ok_all n). Qed.
Lemma h_index_arg : forall n a P, mono P -> hs P (index_arg n a) anyv.
Proof. intros n. apply (values_ok_all n). Qed.
Lemma h_index_args : forall n l P, mono P -> hs P (index_args n l) anyv.
Proof. intros. unfold index_args. apply hs_mapM_opt; [assumption|]. intros. apply h_index_arg. assumption. Qed.
Lemma h_values : forall n vs P, mono P -> hs P (iterM (index_value n) vs) anyv.
Proof. intros. apply hs_iterM; [assumption|]. intros. apply h_index_value. assumption. Qed.

Lemma h_resolve_class : forall n c P, mono P -> hs P (resolve_class_ref_as_class n c) (fun cid s => cid < nrec s).
Proof.
  intros n [i args r] P HP. cbn [resolve_class_ref_as_class].
  eapply hs_bind; [exact HP|apply hs_here|]. intros loc.
  eapply hs_bind; [hmono|apply hs_state|]. intros x.
  destruct (find_class x (i_name i)) as [cid|] eqn:E.
  - eapply hs_seq; [hmono|apply hs_add_reference; solve_ok|].
    eapply hs_bind; [hmono|apply hs_state|]. intros x1.
    eapply hs_bind with (Q1 := anyv); [hmono|apply hs_lift; intros; exact I|]. intros rc.
    eapply hs_bind with (Q1 := anyv); [hmono|apply h_index_args; hmono|]. intros avs.
    eapply hs_bind; [hmono|apply hs_state|]. intros x2.
    eapply hs_seq; [hmono|apply hs_emit; hmono|]. apply hs_ret. solve_ok.
  - eapply hs_seq; [hmono|apply hs_error|apply hs_none].
Qed.
Lemma h_resolve_multiclass : forall n c P, mono P -> hs P (resolve_class_ref_as_multiclass n c) (fun mid s => mid < nmc s).
Proof.
  intros n [i args r] P HP. cbn [resolve_class_ref_as_multiclass].
  eapply hs_bind; [exact HP|apply hs_here|]. intros loc.
  eapply hs_bind; [hmono|apply hs_state|]. intros x.
  destruct (find_multiclass x (i_name i)) as [mid|] eqn:E.
  - eapply hs_seq; [hmono|apply hs_add_reference; solve_ok|].
    eapply hs_bind; [hmono|apply hs_state|]. intros x1.
    eapply hs_bind with (Q1 := anyv); [hmono|apply hs_lift; intros; exact I|]. intros rc.
    eapply hs_bind with (Q1 := anyv); [hmono|apply h_index_args; hmono|]. intros avs.
    eapply hs_bind; [hmono|apply hs_state|]. intros x2.
    eapply hs_seq; [hmono|apply hs_emit; hmono|]. apply hs_ret. solve_ok.
  - eapply hs_seq; [hmono|apply hs_error|apply hs_none].
Qed.

Lemma h_index_parents : forall n ps P, mono P -> hs P (index_parents n ps) anyv.
Proof.
  intros n ps P HP. unfold index_parents.
  eapply hs_bind; [exact HP|apply hs_state|]. intros x.
  destruct (current_record_id x) as [rid|] eqn:Er.
  - apply hs_iterM; [hmono|]. intros cr _.
    eapply hs_bind; [hmono|apply hs_try; apply h_resolve_class; hmono|]. intros o.
    destruct o as [cid|]; [|hret].
    destruct (cid =? rid); [apply hs_err; hmono; intros s s' He Hq y Hy; inversion Hy; subst; specialize (Hq _ eq_refl); cbn in *; destruct He; lia|].
    apply hs_rec_add_parent. intros s Hv [_ Hq]. apply (Hq cid eq_refl).
  - destruct (current_multiclass_id x) as [mid|] eqn:Em.
    + apply hs_iterM; [hmono|]. intros cr _.
      eapply hs_bind; [hmono|apply hs_try; apply h_resolve_multiclass; hmono|]. intros o.
      destruct o as [p|]; [|hret].
      apply hs_mc_add_parent. intros s Hv [_ Hq]. apply (Hq p eq_refl).
    + destruct (current_defm_id x); [|apply hs_bad].
      apply hs_iterM; [hmono|]. intros cr _. eapply hs_any. apply h_resolve_multiclass. hmono.
Qed.

Lemma h_index_targ : forall n a P, mono P -> hs P (index_targ n a) anyv.
Proof.
  intros n [t i dflt] P HP. cbn [index_targ].
  eapply hs_bind; [exact HP|apply hs_here|]. intros loc.
  eapply hs_bind; [hmono|apply h_index_ty; hmono|]. intros typ.
  eapply hs_bind; [hmono|apply hs_add_leaf|]. intros tid.
  eapply hs_bind; [hmono|apply hs_state|]. intros x.
  eapply hs_seq; [hmono| |].
  - destruct (current_record_id x) as [rid|]; [apply hs_rec_add_targ; solve_ok|].
    destruct (current_multiclass_id x) as [mid|]; [apply hs_mc_add_targ; solve_ok|apply hs_bad].
  - destruct dflt as [v|]; [|apply hs_none].
    eapply hs_seq; [hmono|apply h_index_value; hmono|apply hs_none].
Qed.

Lemma h_index_name_value : forall v P, mono P -> hs P (index_name_value v) anyv.
Proof.
  intros [r [|[[] sufs] rest]] P HP; cbn [index_name_value]; try apply hs_none.
  eapply hs_bind; [exact HP|apply hs_here|]. intros loc. hret.
Qed.

Lemma h_index_defvar : forall n i v P, mono P -> hs P (index_defvar n i v) anyv.
Proof.
  intros n i v P HP. unfold index_defvar.
  eapply hs_bind; [exact HP|apply hs_here|]. intros loc.
  eapply hs_bind; [hmono|apply hs_try; apply h_index_value; hmono|]. intros o.
  apply hs_scopes_add_variable.
Qed.

Lemma h_index_item : forall n it P, mono P -> hs P (index_item n it) anyv.
Proof.
  intros n it P HP. destruct it as [t i v|i v|i v|c m|v]; cbn [index_item].
  - eapply hs_bind; [exact HP|apply hs_state|]. intros x.
    destruct (current_record_id x) as [rid|]; [|apply hs_bad].
    eapply hs_bind; [hmono|apply hs_here|]. intros loc.
    eapply hs_bind; [hmono|apply h_index_ty; hmono|]. intros typ.
    eapply hs_bind; [hmono|apply hs_add_leaf|]. intros fid.
    eapply hs_seq; [hmono|apply hs_rec_add_field; solve_ok|].
    eapply hs_bind with (Q1 := anyv); [hmono|apply hs_lift; intros; exact I|]. intros v'.
    eapply hs_bind; [hmono|apply h_index_value; hmono|]. intros vt.
    eapply hs_bind; [hmono|apply hs_state|]. intros x'.
    destruct (can_cast x' vt typ); [apply hs_none|apply hs_err; hmono].
  - eapply hs_bind; [exact HP|apply hs_here|]. intros loc.
    eapply hs_bind; [hmono|apply hs_state|]. intros x.
    destruct (current_record_id x) as [rid|]; [|apply hs_bad].
    eapply hs_bind with (Q1 := fun fid s => fid < nleaf s); [hmono|apply hs_lift; solve_ok|]. intros fid.
    eapply hs_bind; [hmono|apply h_leaf_of; hmono|]. intros f.
    eapply hs_bind; [hmono|apply hs_add_leaf|]. intros nid.
    eapply hs_seq; [hmono|apply hs_rec_add_field; solve_ok|].
    eapply hs_seq; [hmono|apply hs_add_reference; solve_ok|].
    eapply hs_bind; [hmono|apply h_index_value; hmono|]. intros vt.
    eapply hs_bind; [hmono|apply hs_state|]. intros x'.
    destruct (can_cast x' vt (lf_ty f)); [apply hs_none|apply hs_err; hmono].
  - apply h_index_defvar. exact HP.
  - eapply hs_seq; [exact HP|apply h_index_value; exact HP|].
    eapply hs_seq; [exact HP|apply h_index_value; exact HP|apply hs_none].
  - eapply hs_seq; [exact HP|apply h_index_value; exact HP|apply hs_none].
Qed.

Lemma h_record_body : forall n ps b P, mono P -> hs P (index_record_body n ps b) anyv.
Proof.
  intros n ps b P HP. unfold index_record_body.
  eapply hs_seq; [exact HP|apply h_index_parents; exact HP|].
  apply hs_iterM; [exact HP|]. intros it _. apply h_index_item. exact HP.
Qed.
Lemma h_targs : forall n (o : option (list targ)) P, mono P ->
  hs P (match o with Some l => iterM (index_targ n) l | None => ret tt end) anyv.
Proof.
  intros n [l|] P HP; [|hret]. apply hs_iterM; [exact HP|]. intros a _. apply h_index_targ. exact HP.
Qed.

Lemma h_index_stmt : forall files n x P, mono P -> hs P (index_stmt files n x) anyv.
Proof.
  intros files n. induction n as [|n IH]; intros x P HP; [apply hs_bad|].
  assert (Hl : forall l P0, mono P0 -> hs P0 (iterM (index_stmt files n) l) anyv)
    by (intros l P0 HP0; apply hs_iterM; [exact HP0|]; intros y _; apply IH; exact HP0).
  destruct x; cbn [index_stmt].
  - (* include *)
    destruct target as [f|]; [|eapply hs_seq; [exact HP|apply hs_err; exact HP|apply hs_none]].
    eapply hs_bind; [exact HP|apply hs_state|]. intros x.
    destruct (existsb (N.eqb f) (s_indexed x)); [apply hs_none|].
    eapply hs_seq; [hmono|apply hs_mark_indexed|].
    eapply hs_bind with (Q1 := anyv); [hmono|apply hs_lift; intros; exact I|]. intros body.
    eapply hs_seq; [hmono|apply hs_push_file|].
    eapply hs_seq; [hmono|apply Hl; hmono|apply hs_pop_file].
  - eapply hs_seq; [exact HP|apply h_index_value; exact HP|].
    eapply hs_seq; [exact HP|apply h_index_value; exact HP|apply hs_none].
  - (* class *)
    eapply hs_bind; [exact HP|apply hs_here|]. intros loc.
    eapply hs_bind; [hmono|apply hs_add_record|]. intros rid.
    apply hs_scoped; [hmono|intros; hmono|solve_ok|].
    eapply hs_seq; [hmono|apply h_targs; hmono|apply h_record_body; hmono].
  - (* def *)
    eapply hs_bind with (Q1 := fun did s => did < nrec s); [exact HP| |].
    + destruct nm as [v|].
      * eapply hs_bind; [exact HP|apply h_index_name_value; exact HP|]. intros p. apply hs_add_record.
      * eapply hs_seq; [exact HP|apply hs_next_anonymous|].
        eapply hs_bind; [exact HP|apply hs_here|]. intros loc. apply hs_add_anonymous_def.
    + intros did. apply hs_scoped; [hmono|intros; hmono|solve_ok|]. apply h_record_body. hmono.
  - (* defm *)
    eapply hs_bind with (Q1 := fun did s => did < nleaf s); [exact HP| |].
    + destruct nm as [v|].
      * eapply hs_bind; [exact HP|apply h_index_name_value; exact HP|]. intros p. apply hs_add_leaf.
      * eapply hs_seq; [exact HP|apply hs_next_anonymous|].
        eapply hs_bind; [exact HP|apply hs_here|]. intros loc. apply hs_add_leaf_nopos.
    + intros did. apply hs_scoped; [hmono|intros; hmono|solve_ok|]. apply h_index_parents. hmono.
  - (* defset *)
    eapply hs_bind; [exact HP|apply hs_here|]. intros loc.
    eapply hs_bind; [hmono|apply h_index_ty; hmono|]. intros typ.
    eapply hs_bind; [hmono|apply hs_add_defset|]. intros did.
    apply hs_scoped; [hmono|intros; hmono|solve_ok|]. apply Hl. hmono.
  - apply h_index_defvar. exact HP.
  - eapply hs_seq; [exact HP|apply h_index_value; exact HP|apply hs_none].
  - (* foreach *)
    eapply hs_bind; [exact HP|apply hs_here|]. intros loc.
    eapply hs_bind with (Q1 := anyv); [hmono| |].
    + eapply hs_any. apply (hs_try mty _ _ anyv). destruct init as [|v]; [hret|].
      eapply hs_bind; [hmono|apply h_index_value; hmono|]. intros t. apply hs_lift. intros; exact I.
    + intros o. eapply hs_bind; [hmono|apply hs_add_leaf|]. intros vid.
      apply hs_scoped; [hmono|intros; hmono|solve_ok|]. apply Hl. hmono.
  - (* if *)
    eapply hs_seq; [exact HP|apply h_index_value; exact HP|].
    apply hs_iterM; [exact HP|]. intros body _.
    apply hs_scoped; [exact HP|intros; hmono|solve_ok|]. apply Hl. exact HP.
  - (* let *)
    eapply hs_seq; [exact HP|apply h_values; exact HP|].
    apply hs_scoped; [exact HP|intros; hmono|solve_ok|]. apply Hl. exact HP.
  - (* multiclass *)
    eapply hs_bind; [exact HP|apply hs_here|]. intros loc.
    eapply hs_bind; [hmono|apply hs_add_multiclass|]. intros mid.
    apply hs_scoped; [hmono|intros; hmono|solve_ok|].
    eapply hs_seq; [hmono|apply h_targs; hmono|].
    eapply hs_seq; [hmono|apply h_index_parents; hmono|apply Hl; hmono].
Qed.

(** ---- every state the indexer model reaches from a valid state is valid; in particular the final state of
    EVERY workspace *)
Theorem index_stmts_valid : forall files n l s, Valid s -> Valid (snd (iterM (index_stmt files n) l s)).
Proof.
  intros files n l s Hv.
  assert (H : hs top (iterM (index_stmt files n) l) anyv).
  { apply hs_iterM; [apply mono_top|]. intros x _. apply h_index_stmt. apply mono_top. }
  apply (H s Hv I).
Qed.

Theorem index_ws_valid : forall w, Valid (index_ws w).
Proof.
  intros w. unfold index_ws. destruct (ws_files w) as [|root rest]; [apply valid_st0|].
  apply index_stmts_valid. apply valid_st0.
Qed.
