(** GenAstMethodsEq: the rendering of the hand-written accessor methods of crates/syntax/src/ast.rs that
    tools/translate/t_astmethods.py regenerates on every run (gen/GenAstMethods.v, over model/RowanApi.v) computes
    exactly what b-bridge's hand models in model/AstToCore.v compute, for every located tree, and never panics.
    (`Integer::value` calls the GENERATED lexer function g_interpret_number: its equality with the bridge's own
    [interpret_number] is proved here from lexprep's digit lemmas.) *)
From Coq Require Import List NArith ZArith Bool String Lia.
From TG.Gen Require Import GenTokens GenAst GenLexer GenAstMethods.
From TG.Model Require Import Chars Lexer Tree ScanMonad CoreAst AstAccess AstToCore RowanApi.
From TG.Proofs Require Import GenLexerEq.
Import ListNotations.
Open Scope N_scope.

(** * first_token yields a token *)
Lemma first_tok_is_tok : forall t off y, first_tok off t = Some y -> exists k txt, y = (off, Tok k txt).
Proof.
  fix IH 1. intros [k cs|k txt] off y H; cbn [first_tok] in H.
  - destruct cs as [|c r]; [discriminate|]. eapply IH. exact H.
  - inversion H; subst. eauto.
Qed.

(** * Identifier::value / range, BangOperator::kind *)
Theorem identifier_value_eq c x : gam_Identifier_value x = Some (option_map i_name (m_identifier c x)).
Proof.
  unfold gam_Identifier_value, m_identifier, rw_first_token, first_token.
  destruct (first_tok (fst x) (snd x)) as [y|] eqn:F; [|reflexivity].
  destruct (first_tok_is_tok _ _ _ F) as (k & txt & ->). reflexivity.
Qed.
Theorem identifier_range_eq c x :
  gam_Identifier_range x = Some (option_map (fun i => (r_lo (i_rng i), r_hi (i_rng i))) (m_identifier c x)).
Proof.
  unfold gam_Identifier_range, m_identifier, rw_first_token, first_token.
  destruct (first_tok (fst x) (snd x)) as [y|] eqn:F; [|reflexivity].
  destruct (first_tok_is_tok _ _ _ F) as (k & txt & ->). reflexivity.
Qed.
Theorem bang_kind_eq x : gam_BangOperator_kind x = Some (m_bang_kind x).
Proof. unfold gam_BangOperator_kind, m_bang_kind, rw_first_token. destruct (first_token x); reflexivity. Qed.

(** * SliceSuffix::is_single_element *)
Theorem is_single_element_eq x : gam_SliceSuffix_is_single_element x = Some (m_is_single_element x).
Proof.
  unfold gam_SliceSuffix_is_single_element, m_is_single_element, acc_opt, acc_list, rw_children_with_tokens, rw_kind, am_ret.
  destruct (field x "element_list") as [|l r]; [reflexivity|]. cbn [hd_error].
  destruct (field l "elements") as [|e [|e2 r2]]; try reflexivity.
  cbn [List.length Nat.eqb nth_error]. destruct (field e "end"); reflexivity.
Qed.

(** * String::value *)
Lemma trim_start_quotes s : str_trim_start_char 34 s = drop_quotes s.
Proof.
  induction s as [|d r IH]; [reflexivity|]. cbn [str_trim_start_char].
  destruct (N.eqb_spec d 34) as [->|NE]; [rewrite IH; reflexivity|].
  destruct d as [|p]; [reflexivity|]. do 7 (try destruct p as [p|p|]); try reflexivity. contradiction.
Qed.
Lemma trim_quotes_eq s : str_trim_end_char 34 (str_trim_start_char 34 s) = trim_quotes s.
Proof. unfold str_trim_end_char, trim_quotes. rewrite !trim_start_quotes. reflexivity. Qed.
Lemma str_join_nil l : str_join [] l = List.concat l.
Proof.
  destruct l as [|x r]; [reflexivity|]. cbn [str_join List.concat]. f_equal.
  induction r as [|y r IH]; [reflexivity|]. cbn [map]. rewrite !concat_cons, IH. reflexivity.
Qed.
Theorem string_value_eq x : gam_String_value x = Some (m_string_value x).
Proof.
  unfold gam_String_value, m_string_value, rw_children_with_tokens, am_ret. f_equal. rewrite str_join_nil. f_equal.
  induction (lchildren x) as [|c r IH]; [reflexivity|]. cbn [List.filter]. unfold rw_kind, l_kind.
  destruct (sk_eqb (kind_of (snd c)) S_StrVal); cbn [andb]; [|exact IH].
  destruct c as [o [k cs|k txt]]; cbn [snd is_node negb iter_filter_map rw_as_token option_map map]; [exact IH|].
  cbn [rw_text snd]. rewrite trim_quotes_eq, <- IH. reflexivity.
Qed.

(** * Integer::value: the generated lexer's interpret_number is the bridge's *)
Lemma dv_gen radix (valid : N -> bool) :
  (forall c, valid c = true -> digit_of radix c = Some (digit_val c)) ->
  (forall c, valid c = false -> digit_of radix c = None) ->
  forall ds bound acc, digits_value radix bound acc ds = if forallb valid ds then parse_digits radix bound acc ds else None.
Proof.
  intros H1 H2. induction ds as [|d ds IH]; intros bound acc; cbn [digits_value parse_digits forallb]; [reflexivity|].
  destruct (valid d) eqn:V; cbn [andb].
  - rewrite (H1 d V). cbv zeta. destruct (bound <=? acc * radix + digit_val d); [destruct (forallb valid ds); reflexivity|apply IH].
  - rewrite (H2 d V). reflexivity.
Qed.

Lemma digit_of_dec_none c : is_ascii_digit c = false -> digit_of 10 c = None.
Proof.
  intros D. unfold digit_of. rewrite D.
  destruct ((97 <=? c) && (c <=? 122)) eqn:A.
  - apply andb_prop in A. destruct A as [A1 A2]. apply N.leb_le in A1. destruct (c - 97 + 10 <? 10) eqn:L; [apply N.ltb_lt in L; lia|reflexivity].
  - destruct ((65 <=? c) && (c <=? 90)) eqn:B; [|reflexivity].
    apply andb_prop in B. destruct B as [B1 B2]. apply N.leb_le in B1. destruct (c - 65 + 10 <? 10) eqn:L; [apply N.ltb_lt in L; lia|reflexivity].
Qed.
Lemma digit_of_bin_none c : is_bin_digit c = false -> digit_of 2 c = None.
Proof.
  intros D. unfold digit_of, is_bin_digit in *. apply orb_false_iff in D. destruct D as [D0 D1].
  apply N.eqb_neq in D0, D1.
  destruct (is_ascii_digit c) eqn:A.
  - unfold is_ascii_digit in A. apply andb_prop in A. destruct A as [A1 A2]. apply N.leb_le in A1.
    destruct (c - 48 <? 2) eqn:L; [apply N.ltb_lt in L; lia|reflexivity].
  - destruct ((97 <=? c) && (c <=? 122)) eqn:X.
    + apply andb_prop in X. destruct X as [X1 _]. apply N.leb_le in X1. destruct (c - 97 + 10 <? 2) eqn:L; [apply N.ltb_lt in L; lia|reflexivity].
    + destruct ((65 <=? c) && (c <=? 90)) eqn:Y; [|reflexivity].
      apply andb_prop in Y. destruct Y as [Y1 _]. apply N.leb_le in Y1. destruct (c - 65 + 10 <? 2) eqn:L; [apply N.ltb_lt in L; lia|reflexivity].
Qed.
Lemma digit_of_hex_none c : is_ascii_hexdigit c = false -> digit_of 16 c = None.
Proof.
  unfold is_ascii_hexdigit, digit_of. intros D. apply orb_false_iff in D. destruct D as [D Df].
  apply orb_false_iff in D. destruct D as [D DF]. rewrite D.
  destruct ((97 <=? c) && (c <=? 122)) eqn:X.
  - apply andb_prop in X. destruct X as [X1 X2]. apply N.leb_le in X1, X2.
    destruct (c - 97 + 10 <? 16) eqn:L; [|reflexivity]. apply N.ltb_lt in L.
    assert (c <= 102) by lia. assert ((97 <=? c) && (c <=? 102) = true) by (apply andb_true_intro; split; apply N.leb_le; lia). congruence.
  - destruct ((65 <=? c) && (c <=? 90)) eqn:Y; [|reflexivity].
    apply andb_prop in Y. destruct Y as [Y1 Y2]. apply N.leb_le in Y1, Y2.
    destruct (c - 65 + 10 <? 16) eqn:L; [|reflexivity]. apply N.ltb_lt in L.
    assert ((65 <=? c) && (c <=? 70) = true) by (apply andb_true_intro; split; apply N.leb_le; lia). congruence.
Qed.

Definition validb (base : N) (d : N) : bool :=
  if base =? 2 then is_bin_digit d else if base =? 10 then is_ascii_digit d else is_ascii_hexdigit d.

Lemma dv_base base bound acc ds : (base = 2 \/ base = 10 \/ base = 16) ->
  digits_value base bound acc ds = if forallb (validb base) ds then parse_digits base bound acc ds else None.
Proof.
  intros [->|[->| ->]]; apply dv_gen; unfold validb; cbn [N.eqb Pos.eqb];
    auto using digit_of_bin, digit_of_bin_none, digit_of_dec, digit_of_dec_none, digit_of_hex, digit_of_hex_none.
Qed.

Lemma from_str_radix_eq base s : (base = 2 \/ base = 10 \/ base = 16) ->
  u64_from_str_radix s base = AstToCore.parse_u64 base s.
Proof.
  intros B. unfold u64_from_str_radix, AstToCore.parse_u64, digits_ok.
  set (ds := match s with 43 :: r => r | _ => s end).
  destruct ds as [|d r]; [reflexivity|]. rewrite (dv_base base _ _ _ B). fold (validb base). reflexivity.
Qed.

(** the literal-pattern match of the bridge's interpret_number, as tests *)
Lemma hd48 (a : N) {A} (x y : A) : a <> 48 -> match a with 48 => x | _ => y end = y.
Proof. intros NE. destruct a as [|p]; [reflexivity|]. do 7 (try destruct p as [p|p|]); try reflexivity. contradiction. Qed.

(** the two copies of `as i64` (lexprep's ScanMonad, the bridge's AstToCore); stated explicitly: the conversion test
    on the eta-expanded closure is very slow *)
Lemma t64 : ScanMonad.two64 = Lexer.two64. Proof. reflexivity. Qed.
Lemma t63 : ScanMonad.two63 = Lexer.two63. Proof. reflexivity. Qed.
Lemma as_i64_eq v : u64_as_i64 v = as_i64 v.
Proof. unfold u64_as_i64, as_i64. rewrite t63, t64. reflexivity. Qed.
Lemma omap_i64 o : option_map (fun i => u64_as_i64 i) o = option_map as_i64 o.
Proof. destruct o; cbn [option_map]; [rewrite as_i64_eq|]; reflexivity. Qed.

Theorem interpret_number_eq s : g_interpret_number s = AstToCore.interpret_number s.
Proof.
  unfold g_interpret_number, AstToCore.interpret_number, ScanMonad.parse_u64.
  destruct s as [|a t]; [vm_compute; reflexivity|].
  destruct (N.eq_dec a 48) as [->|N48].
  - (* "0.." *)
    destruct t as [|b r].
    + cbn [strip_prefix]. cbn. reflexivity.
    + destruct (N.eq_dec b 120) as [->|NX].
      * cbn [strip_prefix]. cbn -[u64_from_str_radix AstToCore.parse_u64 u64_as_i64 as_i64].
        rewrite from_str_radix_eq by auto. rewrite omap_i64. reflexivity.
      * destruct (N.eq_dec b 98) as [->|NB].
        -- cbn -[u64_from_str_radix AstToCore.parse_u64 u64_as_i64 as_i64]. rewrite from_str_radix_eq by auto. rewrite omap_i64. reflexivity.
        -- assert (S1 : strip_prefix [48; 120] (48 :: b :: r) = None).
           { cbn. destruct b as [|q]; [reflexivity|]. destruct (Pos.eqb_spec 120 q) as [<-|]; [congruence|reflexivity]. }
           assert (S2 : strip_prefix [48; 98] (48 :: b :: r) = None).
           { cbn. destruct b as [|q]; [reflexivity|]. destruct (Pos.eqb_spec 98 q) as [<-|]; [congruence|reflexivity]. }
           rewrite S1, S2. cbn [str_starts_with_char]. cbn [N.eqb Pos.eqb].
           rewrite from_str_radix_eq by auto. rewrite omap_i64.
           destruct b as [|p]; [reflexivity|]. do 8 (try destruct p as [p|p|]); try reflexivity; contradiction.
  - assert (S1 : strip_prefix [48; 120] (a :: t) = None).
    { cbn. destruct a as [|q]; [reflexivity|]. destruct (Pos.eqb_spec 48 q) as [<-|]; [congruence|reflexivity]. }
    assert (S2 : strip_prefix [48; 98] (a :: t) = None).
    { cbn. destruct a as [|q]; [reflexivity|]. destruct (Pos.eqb_spec 48 q) as [<-|]; [congruence|reflexivity]. }
    rewrite S1, S2. cbn [str_starts_with_char].
    destruct (N.eqb_spec a 45) as [->|N45].
    + (* "-digits" *)
      cbn [parse_i64]. unfold digits_ok. destruct t as [|d r]; [reflexivity|].
      rewrite (dv_base 10 _ _ _ ltac:(auto)). unfold validb. cbn [N.eqb Pos.eqb]. rewrite t63.
      destruct (forallb _ _); reflexivity.
    + rewrite from_str_radix_eq by auto. rewrite omap_i64.
      destruct a as [|p]; [reflexivity|]. do 7 (try destruct p as [p|p|]); try reflexivity; contradiction.
Qed.

Theorem integer_value_eq x : gam_Integer_value x = Some (m_integer_value x).
Proof.
  unfold gam_Integer_value, m_integer_value, rw_first_token, first_token, am_ret.
  destruct (first_tok (fst x) (snd x)) as [y|] eqn:F; [|reflexivity].
  destruct (first_tok_is_tok _ _ _ F) as (k & txt & ->). cbn [rw_text snd]. rewrite interpret_number_eq. reflexivity.
Qed.

(** * The methods without a hand model never panic either *)
Theorem other_methods_total x :
  gam_Code_value x <> None /\ gam_Boolean_value x <> None /\ gam_VarName_value x <> None.
Proof.
  unfold gam_Code_value, gam_Boolean_value, gam_VarName_value, am_ret. repeat split; try discriminate.
  - destruct (rw_first_token x); [|discriminate]. destruct (str_eqb _ _); [discriminate|]. destruct (str_eqb _ _); discriminate.
  - destruct (rw_first_token x); discriminate.
Qed.
