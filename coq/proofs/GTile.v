(** G-tile, program level: the tiling invariant is preserved by EVERY program of the grammar DSL
    (GInterp.v), whatever the translator generates: a grammar function can reach the token stream and
    the builder only through the primitives, each of which preserves [Tile] (ParserTile.v).
    Consequence: losslessness of the syntax tree for every program, every text and every fuel. *)
From Coq Require Import List Arith NArith Bool Lia.
From TG.Gen Require Import GenTokens GenLexTables.
From TG.Model Require Import Chars Lexer Prep Tree ParserPrims GInterp.
From TG.Proofs Require Import LexBasics PrepBasics ParserTile.
Import ListNotations.
Open Scope N_scope.

Definition res_inv (P : pst -> Prop) (r : res) : Prop :=
  match r with
  | RVal _ _ s | RBrk _ s | RRet _ _ s => P s
  | RPanic | ROOF => True
  end.

Lemma lift_inv (P : pst -> Prop) o en : (forall s, o = Some s -> P s) -> res_inv P (lift o en).
Proof. destruct o; cbn; auto. Qed.

Lemma exec_prim_tile txt p pr en s : Tile txt s -> res_inv (Tile txt) (exec_prim p pr en s).
Proof.
  intros T. destruct pr; cbn [exec_prim].
  - cbn. apply p_start_node_tile, T.
  - apply lift_inv. intros s'. apply p_finish_node_tile, T.
  - cbn. exact T.
  - destruct (env_get en x) as [[b|cp]|]; cbn; auto. apply lift_inv. intros s'. apply p_start_node_at_tile, T.
  - apply lift_inv. intros s'. apply p_assert_tile, T.
  - destruct (p_expect_tile txt s k m T) as (s' & -> & T'). cbn. exact T'.
  - destruct (p_eat_tile txt s T) as (s' & -> & T' & _). cbn. exact T'.
  - destruct (p_eat_if_tile txt s k T) as (b & s' & -> & T' & _). cbn. exact T'.
  - destruct (p_skip_all_tile txt s T) as (s' & -> & T' & _). cbn. exact T'.
  - cbn. apply p_error_tile, T.
  - apply lift_inv. intros s'. apply p_error_and_eat_tile, T.
  - apply lift_inv. intros s'. apply p_error_and_recover_tile, T.
  - cbn. exact T.
Qed.

Theorem gexec_tile txt p : forall n e en s, Tile txt s -> res_inv (Tile txt) (gexec n p e en s).
Proof.
  induction n as [|n IH]; intros e en s T; [exact I|].
  destruct e as [b|x|a|pr|f arg|a b|c a b|c b| |a|x a]; cbn [gexec].
  - exact T.
  - destruct (env_get en x); cbn; auto.
  - pose proof (IH a en s T) as H. destruct (gexec n p a en s) as [[b|m] en1 s1| | | |]; cbn in *; auto.
  - apply exec_prim_tile, T.
  - destruct (fn_body p f) as [body|]; [|exact I].
    destruct (match arg with Some (x, _) => match env_get en x with Some v => Some [v] | None => None end | None => Some [] end) as [cen0|]; [|exact I].
    pose proof (IH body cen0 s T) as H.
    destruct (gexec n p body cen0 s) as [v cen1 s1|cen1 s1|v cen1 s1| |]; cbn in *; auto;
      destruct arg as [[x [|]]|]; cbn; auto; destruct cen1; cbn; auto.
  - pose proof (IH a en s T) as H. destruct (gexec n p a en s) as [v en1 s1| | | |]; cbn in *; auto.
  - pose proof (IH c en s T) as H. destruct (gexec n p c en s) as [[[|]|m] en1 s1| | | |]; cbn in *; auto.
  - pose proof (IH c en s T) as H. destruct (gexec n p c en s) as [[[|]|m] en1 s1| | | |]; cbn in *; auto.
    pose proof (IH b en1 s1 H) as H2. destruct (gexec n p b en1 s1) as [v en2 s2|en2 s2| | |]; cbn in *; auto.
  - exact T.
  - pose proof (IH a en s T) as H. destruct (gexec n p a en s) as [v en1 s1| | | |]; cbn in *; auto.
  - pose proof (IH a en s T) as H. destruct (gexec n p a en s) as [v en1 s1| | | |]; cbn in *; auto.
Qed.

(** * Losslessness for every program *)

Theorem parse_with_tile p entry fuel txt t errs st :
  parse_with fuel p entry txt = ParseOk t errs st ->
  Tile txt st /\ tree_text t = pushed (bld st) /\ errs = rev (ParserPrims.errs st).
Proof.
  unfold parse_with. intros H.
  pose proof (gexec_tile txt p fuel (ECall entry None) [] (p_new txt) (p_new_tile txt)) as T.
  destruct (gexec fuel p (ECall entry None) [] (p_new txt)) as [v en s|en s|v en s| |]; try discriminate;
    cbn in T; destruct (p_finish s) as [[t0 es]|] eqn:F; try discriminate;
    inversion H; subst; destruct (p_finish_text _ _ _ F) as (F1 & F2); auto.
Qed.

Definition lossless (txt : text) (t : tree) : Prop :=
  tree_text t = txt /\
  concat (map leaf_text (leaves t)) = txt /\
  running 0 (leaves t) /\
  Forall (leaf_on_boundary txt) (leaves t).

Lemma lossless_of_text txt t : tree_text t = txt -> lossless txt t.
Proof.
  intros E. unfold lossless. destruct (leaves_from_spec t 0) as (C & R & _). fold (leaves t) in C, R.
  repeat split; [exact E|rewrite C; exact E|exact R|rewrite <- E; apply leaves_boundary].
Qed.

(** every program, every text, every fuel: if the parse ends with the look-ahead at Eof, the tree is lossless *)
Theorem lossless_any_program p entry fuel txt t errs st :
  parse_with fuel p entry txt = ParseOk t errs st -> cur st = T_Eof -> lossless txt t.
Proof.
  intros H E. destruct (parse_with_tile _ _ _ _ _ _ _ H) as (T & TT & _).
  apply lossless_of_text. rewrite TT. apply tile_eof_pushed; assumption.
Qed.

(** without the Eof hypothesis: the tree text is a PREFIX of the input and what is missing is exactly
    the look-ahead text and the unread source (nothing is dropped, duplicated or reordered) *)
Theorem prefix_any_program p entry fuel txt t errs st :
  parse_with fuel p entry txt = ParseOk t errs st -> tree_text t ++ cur_text st ++ src st = txt.
Proof.
  intros H. destruct (parse_with_tile _ _ _ _ _ _ _ H) as (T & TT & _). rewrite TT. apply (t_text _ _ T).
Qed.

(** error ranges: inside the text, on character boundaries, lo <= hi (every program) *)
Definition range_ok (txt : text) (e : N * N * parse_msg) : Prop :=
  let '(lo, hi, _) := e in lo <= hi /\ hi <= bytes txt /\ on_char_boundary txt lo /\ on_char_boundary txt hi.

Lemma err_ok_range txt e : err_ok txt e -> range_ok txt e.
Proof.
  destruct e as [[lo hi] m]. intros (a & b & c & -> & -> & ->). unfold range_ok.
  assert (B2 : on_char_boundary (a ++ b ++ c) (bytes a + bytes b)).
  { rewrite <- bytes_app, app_assoc. apply boundary_prefix. }
  repeat split; [lia|apply boundary_le; exact B2|apply boundary_prefix|exact B2].
Qed.

Theorem error_ranges_any_program p entry fuel txt t errs st :
  parse_with fuel p entry txt = ParseOk t errs st -> Forall (range_ok txt) errs.
Proof.
  intros H. destruct (parse_with_tile _ _ _ _ _ _ _ H) as (T & _ & ->).
  apply Forall_rev. eapply Forall_impl; [|exact (t_errs _ _ T)]. intros e. apply err_ok_range.
Qed.
