(** Top-level consequences of the generic theorems, for every program/certificate accepted by the
    reflective checks, and their instance for the regenerated grammar (the checks are evaluated by
    vm_compute on gen/GenGrammar.v + gen/GenGrammarCert.v on every build). *)
From Coq Require Import List Arith NArith Bool Lia.
From TG.Gen Require Import GenTokens GenLexTables GenGrammar GenGrammarCert.
From TG.Model Require Import Chars Lexer Prep Tree ParserPrims GInterp.
From TG.Proofs Require Import LexBasics PrepBasics ParserTile GTile LookProg LookProgBase LookProgSound.
Import ListNotations.
Open Scope nat_scope.

Section TOP.
Variable p : prog.
Variable ce : cert.
Variable entry : nat.
Hypothesis CHK : chk_all p ce entry = true.

Lemma chk_all_cert : cert_ok p ce.
Proof. unfold chk_all in CHK. apply andb_prop in CHK. apply chk_fns_cert_ok. tauto. Qed.
Lemma chk_all_pre : ksub kall (pre (cert_of ce entry)) = true.
Proof. unfold chk_all in CHK. apply andb_prop in CHK. tauto. Qed.

Definition top_fact : fact := {| L := kall; cs := false |}.
Lemma top_sat s : sat (msr s) top_fact s.
Proof. repeat split; cbn [L cs top_fact]; [lia|discriminate|apply kmem_kall]. Qed.
Lemma top_ok : ok (an p ce true (S (rank (cert_of ce entry))) (ECall entry None) top_fact) = true.
Proof.
  cbn [an ok top_fact L cs]. rewrite chk_all_pre. cbn [andb negb orb].
  apply Nat.ltb_lt. lia.
Qed.

(** A-prog: the parser terminates on every text *)
Theorem parse_terminates : forall txt, exists fuel, parse_with fuel p entry txt <> ParseOOF.
Proof.
  intros txt. set (s0 := p_new txt).
  destruct (term_main p ce chk_all_cert (msr s0) _ (msr s0) (ECall entry None) top_fact [] s0 (le_n _) (top_sat s0) top_ok) as (n & N).
  exists n. unfold parse_with. fold s0.
  destruct (gexec n p (ECall entry None) [] s0) as [v en s|en s|v en s| |]; try congruence;
    destruct (p_finish s) as [[t es]|]; congruence.
Qed.

(** A-eof: when the entry function's exit look-ahead set is {Eof}, a completed parse stops at Eof *)
Hypothesis EOF : chk_eof ce entry = true.

Theorem parse_ends_at_eof : forall fuel txt t errs st,
  parse_with fuel p entry txt = ParseOk t errs st -> cur st = T_Eof.
Proof.
  intros fuel txt t errs st H. unfold parse_with in H. set (s0 := p_new txt) in *.
  pose proof (facts_sound p ce chk_all_cert fuel true _ (ECall entry None) top_fact [] s0 (msr s0) (top_sat s0) top_ok) as F.
  assert (K : forall o s, osat (msr s0) o s -> (exists x, o = Some x /\ L x = post (cert_of ce entry)) -> cur s = T_Eof).
  { intros o s (a & -> & (_ & _ & M)) (x & X & LX). inversion X; subst x. rewrite LX in M.
    apply kmem_single_eq. eapply ksub_spec; [exact EOF|exact M]. }
  cbn [an rt rf rb qt qf] in F.
  destruct (gexec fuel p (ECall entry None) [] s0) as [v en s|en s|v en s| |]; try discriminate;
    destruct (p_finish s) as [[t0 es]|]; try discriminate; inversion H; subst.
  - destruct v as [[|]|m]; cbn in F; (eapply K; [exact F|eexists; split; reflexivity]).
  - destruct v as [[|]|m]; cbn in F; destruct F as (a & X & _); discriminate.
Qed.

(** C01 for every accepted program *)
Theorem lossless_checked : forall fuel txt t errs st,
  parse_with fuel p entry txt = ParseOk t errs st -> lossless txt t.
Proof. intros. eapply lossless_any_program; [eassumption|eapply parse_ends_at_eof; eassumption]. Qed.

End TOP.

(** * The regenerated grammar *)
Lemma grammar_chk_all : chk_all grammar_prog grammar_cert grammar_entry = true.
Proof. vm_compute. reflexivity. Qed.
Lemma grammar_chk_eof : chk_eof grammar_cert grammar_entry = true.
Proof. vm_compute. reflexivity. Qed.

Theorem grammar_lossless : forall fuel txt t errs st,
  parse_with fuel grammar_prog grammar_entry txt = ParseOk t errs st -> lossless txt t.
Proof. exact (lossless_checked _ _ _ grammar_chk_all grammar_chk_eof). Qed.

Theorem grammar_terminates : forall txt, exists fuel, parse_with fuel grammar_prog grammar_entry txt <> ParseOOF.
Proof. exact (parse_terminates _ _ _ grammar_chk_all). Qed.

(** * C02 (iv): errors of the regenerated grammar *)
From TG.Proofs Require Import ParserMsgs.
From Coq Require Import String.

Lemma grammar_msgs_ok : prog_msgs_ok grammar_prog = true.
Proof. vm_compute. reflexivity. Qed.

Definition error_wf (txt : text) (e : N * N * parse_msg) : Prop :=
  let '(lo, hi, m) := e in
  msg_text m <> EmptyString /\ (lo <= hi)%N /\ (hi <= bytes txt)%N /\ on_char_boundary txt lo /\ on_char_boundary txt hi.

Theorem errors_wf_checked (p : prog) (entry : nat) : prog_msgs_ok p = true ->
  forall fuel txt t errs st, parse_with fuel p entry txt = ParseOk t errs st -> Forall (error_wf txt) errs.
Proof.
  intros PM fuel txt t errs st H.
  pose proof (parse_msgs_nonempty p entry PM _ _ _ _ _ H) as M.
  pose proof (error_ranges_any_program _ _ _ _ _ _ _ H) as R.
  rewrite Forall_forall in *. intros [[lo hi] m] IN. specialize (M _ IN). specialize (R _ IN). cbn in M, R. cbn. tauto.
Qed.

Theorem grammar_errors_wf : forall fuel txt t errs st,
  parse_with fuel grammar_prog grammar_entry txt = ParseOk t errs st -> Forall (error_wf txt) errs.
Proof. exact (errors_wf_checked _ _ grammar_msgs_ok). Qed.

(** the token stream never panics in a reachable state: no `expect("error token without message")`, the
    fuel of the trivia loop never runs out *)
Theorem stream_total txt s : Tile txt s ->
  (exists s', p_eat s = Some s') /\ (exists s', p_skip_all s = Some s') /\ (forall k m, exists s', p_expect s k m = Some s').
Proof.
  intros T. split; [|split].
  - destruct (p_eat_tile txt s T) as (s' & E & _). eauto.
  - destruct (p_skip_all_tile txt s T) as (s' & E & _). eauto.
  - intros k m. destruct (p_expect_tile txt s k m T) as (s' & E & _). eauto.
Qed.

(** * C02: totality (termination + no panic) for every program accepted by the three reflective checks *)
From TG.Proofs Require Import BldAn BldBase SafeSound.

Section TOTAL.
Variable p : prog.
Variable ce : cert.
Variable sigs : list fsig.
Variable entry : nat.
Hypothesis CHK : chk_all p ce entry = true.
Hypothesis BCHK : bchk_all p sigs entry = true.

Theorem parse_total : forall txt, exists fuel t errs st, parse_with fuel p entry txt = ParseOk t errs st.
Proof.
  intros txt.
  pose proof (chk_all_cert p ce entry CHK) as CERT.
  unfold bchk_all in BCHK. apply andb_prop in BCHK. destruct BCHK as [BF BE].
  pose proof (bchk_fns_sigs_ok p sigs BF) as SIGS.
  destruct (nth_error (fns p) entry) as [body|] eqn:FB; [|discriminate].
  destruct (nth_error sigs entry) as [[| |]|] eqn:SG; try discriminate.
  destruct (parse_terminates p ce entry CHK txt) as (fuel & NO).
  exists fuel. unfold parse_with in *. set (s0 := p_new txt) in *.
  destruct fuel as [|n]; [cbn in NO; congruence|].
  cbn [gexec] in *. unfold fn_body in *. rewrite FB in *.
  (* the body of the entry function, run on the empty builder *)
  set (a0 := {| dep := 0; sta := SZero; tys := [] |}).
  assert (G0 : BG [] 0 a0 [] (bld s0)).
  { assert (B0 : bld s0 = builder_init).
    { unfold s0, p_new. rewrite p_lex_bld. reflexivity. }
    rewrite B0. constructor.
    - cbn. lia.
    - reflexivity.
    - reflexivity.
    - unfold NPof, nc. cbn. lia.
    - unfold NPof, nc. reflexivity.
    - intros x. cbn [a0 tys]. rewrite ty_at_nil. exact I. }
  assert (PRE : kmem (cur s0) (pre (cert_of ce entry)) = true).
  { eapply ksub_spec; [apply (chk_all_pre p ce entry CHK)|apply kmem_kall]. }
  destruct (CERT entry body (cur s0) FB PRE) as (OKB & _ & _).
  unfold bchk_entry in BE.
  apply andb_prop in BE. destruct BE as [BE EXR]. apply andb_prop in BE. destruct BE as [BE EXN].
  apply andb_prop in BE. destruct BE as [BE NOB]. apply andb_prop in BE. destruct BE as [BOKB IBB].
  fold a0 in BOKB, IBB, NOB, EXN, EXR.
  pose proof (safe_sound p ce sigs txt CERT SIGS n true _ body {| L := kof [cur s0]; cs := false |} a0 [] s0 [] 0 (kmem_self (cur s0)) OKB (p_new_tile txt) G0 BOKB) as P1.
  assert (FIN : forall a1 en1 s1, BG [] 0 a1 en1 (bld s1) -> exit_one (Some a1) = true -> exists t es, p_finish s1 = Some (t, es)).
  { intros a1 en1 s1 G1 EX. cbn in EX. apply andb_prop in EX. destruct EX as [ED ES].
    apply Nat.eqb_eq in ED. apply sta_eqb_eq in ES.
    destruct (BG_finish _ _ _ G1 ED ES) as (t & F). unfold p_finish. rewrite F. eauto. }
  destruct (gexec n p body [] s0) as [v en1 s1|en1 s1|v en1 s1| |]; cbn [bpost] in P1.
  - destruct P1 as (a1 & vt & B1 & G1 & V1). rewrite B1 in EXN. cbn [option_map fst] in EXN.
    destruct (FIN a1 en1 s1 G1 EXN) as (t & es & F). rewrite F. eauto.
  - destruct P1 as (a1 & B1 & _). rewrite B1 in NOB. discriminate.
  - destruct P1 as (a1 & B1 & G1 & _). rewrite B1 in EXR.
    destruct (FIN a1 en1 s1 G1 EXR) as (t & es & F). rewrite F. eauto.
  - contradiction.
  - congruence.
Qed.

End TOTAL.

Lemma grammar_bchk_all : bchk_all grammar_prog grammar_sigs grammar_entry = true.
Proof. vm_compute. reflexivity. Qed.

Theorem grammar_total : forall txt, exists fuel t errs st, parse_with fuel grammar_prog grammar_entry txt = ParseOk t errs st.
Proof. exact (parse_total _ _ _ _ grammar_chk_all grammar_bchk_all). Qed.

(** * C02 (iii): parser work is linear in the number of raw tokens *)
From TG.Proofs Require Import CostAn CostSound.

Section LINEAR.
Variable p : prog.
Variable ce : cert.
Variable entry : nat.
Variable k : cconsts.
Hypothesis CHK : chk_all p ce entry = true.
Hypothesis CCHK : cchk p ce k = true.

Lemma cchk_fns_spec : forall l f0, cchk_fns ce (c_zf k) (c_D k) (c_RM k) f0 l = true ->
  forall i body, nth_error l i = Some body -> cchk_fn ce (c_zf k) (c_D k) (c_RM k) (f0 + i) body = true.
Proof.
  induction l as [|b l IH]; intros f0 H i body N; [destruct i; discriminate|].
  cbn [cchk_fns] in H. apply andb_prop in H. destruct H as [H1 H2].
  destruct i as [|i]; cbn in N.
  - inversion N; subst. rewrite Nat.add_0_r. exact H1.
  - replace (f0 + S i) with (S f0 + i) by lia. eapply IH; eauto.
Qed.

Lemma cchk_tab : forall f body, fn_body p f = Some body ->
  znull ce (c_zf k) (rk ce f) body <= zfn (c_zf k) f /\ zc (c_zf k) body <= c_D k /\
  loops_ok (c_zf k) (c_D k) body = true /\ rk ce f < c_RM k.
Proof.
  intros f body FB. unfold cchk in CCHK. apply andb_prop in CCHK. destruct CCHK as [C _].
  pose proof (cchk_fns_spec _ _ C f body FB) as H. rewrite Nat.add_0_l in H. unfold cchk_fn in H.
  apply andb_prop in H. destruct H as [H H4]. apply andb_prop in H. destruct H as [H H3].
  apply andb_prop in H. destruct H as [H1 H2].
  apply Nat.leb_le in H1, H2. apply Nat.ltb_lt in H4. auto.
Qed.
Lemma cchk_B : 2 + sigma (c_D k) (c_RM k) 0 <= c_B k.
Proof. unfold cchk in CCHK. apply andb_prop in CCHK. destruct CCHK as [_ C]. apply Nat.leb_le in C. exact C. Qed.

Theorem parse_linear : forall fuel txt t errs st,
  parse_with fuel p entry txt = ParseOk t errs st ->
  W st <= lin_K k entry * (List.length (raw_lex txt) + 1).
Proof.
  intros fuel txt t errs st H.
  pose proof (chk_all_cert p ce entry CHK) as CERT.
  unfold parse_with in H. set (s0 := p_new txt) in *.
  destruct (fn_body p entry) as [body|] eqn:FB.
  2:{ destruct fuel as [|n]; cbn [gexec] in H; [discriminate|]. rewrite FB in H. discriminate. }
  destruct (cchk_tab entry body FB) as (_ & _ & _ & RK).
  pose proof (cost_sound p ce k CERT cchk_tab cchk_B fuel (S (rk ce entry)) (ECall entry None) (top_fact) [] s0
                (kmem_kall (cur s0)) (top_ok p ce entry CHK) eq_refl RK) as C.
  assert (W0 : W s0 = 1).
  { unfold s0, p_new. rewrite W_lex. reflexivity. }
  assert (M0 : msr s0 <= 2 * List.length (raw_lex txt)).
  { unfold s0, p_new. eapply Nat.le_trans; [apply p_lex_msr|]. unfold msr_pre, obit. cbn. lia. }
  assert (K : forall s, claim ce k top_fact (S (rk ce entry)) (ECall entry None) s0 s ->
            W s <= lin_K k entry * (List.length (raw_lex txt) + 1)).
  { intros s (A & _ & P). cbn [zc] in P. unfold pot in P. unfold lin_K. fold (zfn (c_zf k) entry).
    assert (X : c_B k * msr s0 <= c_B k * (2 * List.length (raw_lex txt))) by (apply Nat.mul_le_mono_l; exact M0).
    set (n := List.length (raw_lex txt)) in *. set (BB := c_B k) in *. set (z := zfn (c_zf k) entry) in *.
    assert (Y : W s <= 1 + BB * (2 * n) + z) by lia.
    replace (BB * (2 * n)) with (2 * BB * n) in Y by lia.
    rewrite Nat.mul_add_distr_l, Nat.mul_1_r. rewrite !Nat.mul_add_distr_r.
    set (u := 2 * BB * n) in *. set (v := z * n). set (w := 1 * n). lia. }
  destruct (gexec fuel p (ECall entry None) [] s0) as [v en s|en s|v en s| |]; try discriminate;
    cbn [rclaim] in C; destruct (p_finish s) as [[t0 es]|]; try discriminate; inversion H; subst; apply K; exact C.
Qed.
End LINEAR.

Definition grammar_cost : cconsts := Eval vm_compute in cost_consts grammar_prog grammar_cert.
Lemma grammar_cchk : cchk grammar_prog grammar_cert grammar_cost = true.
Proof. vm_compute. reflexivity. Qed.
Definition grammar_K : nat := lin_K grammar_cost grammar_entry.

Theorem grammar_linear : forall fuel txt t errs st,
  parse_with fuel grammar_prog grammar_entry txt = ParseOk t errs st ->
  W st <= grammar_K * (List.length (raw_lex txt) + 1).
Proof. exact (parse_linear _ _ _ _ grammar_chk_all grammar_cchk). Qed.

(** * Capstone: everything C01 + C02 say about one parse *)
Theorem grammar_parse_spec : forall txt, exists fuel t errs st,
  parse_with fuel grammar_prog grammar_entry txt = ParseOk t errs st /\
  lossless txt t /\
  Forall (error_wf txt) errs /\
  W st <= grammar_K * (List.length (raw_lex txt) + 1).
Proof.
  intros txt. destruct (grammar_total txt) as (fuel & t & errs & st & H).
  exists fuel, t, errs, st. split; [exact H|]. split; [eapply grammar_lossless; exact H|].
  split; [eapply grammar_errors_wf; exact H|eapply grammar_linear; exact H].
Qed.
