(** Top-level consequences of the generic theorems, for every program/certificate accepted by the
    reflective checks, and their instance for the regenerated grammar (the checks are evaluated by
    vm_compute on gen/GenGrammar.v + gen/GenGrammarCert.v on every build). *)
From Coq Require Import List Arith NArith Bool Lia.
From TG.Gen Require Import GenTokens GenLexTables GenGrammar GenGrammarCert.
From TG.Model Require Import Chars Lexer Prep Tree ParserPrims GInterp.
From TG.Proofs Require Import LexBasics PrepBasics ParserTile GTile LookProg LookProgBase LookProgSound.
Import ListNotations.
Open Scope nat_scope.

Section TOP.
Variable p : prog.
Variable ce : cert.
Variable entry : nat.
Hypothesis CHK : chk_all p ce entry = true.

Lemma chk_all_cert : cert_ok p ce.
Proof. unfold chk_all in CHK. apply andb_prop in CHK. apply chk_fns_cert_ok. tauto. Qed.
Lemma chk_all_pre : ksub kall (pre (cert_of ce entry)) = true.
Proof. unfold chk_all in CHK. apply andb_prop in CHK. tauto. Qed.

Definition top_fact : fact := {| L := kall; cs := false |}.
Lemma top_sat s : sat (msr s) top_fact s.
Proof. repeat split; cbn [L cs top_fact]; [lia|discriminate|apply kmem_kall]. Qed.
Lemma top_ok : ok (an p ce true (S (rank (cert_of ce entry))) (ECall entry None) top_fact) = true.
Proof.
  cbn [an ok top_fact L cs]. rewrite chk_all_pre. cbn [andb negb orb].
  apply Nat.ltb_lt. lia.
Qed.

(** A-prog: the parser terminates on every text *)
Theorem parse_terminates : forall txt, exists fuel, parse_with fuel p entry txt <> ParseOOF.
Proof.
  intros txt. set (s0 := p_new txt).
  destruct (term_main p ce chk_all_cert (msr s0) _ (msr s0) (ECall entry None) top_fact [] s0 (le_n _) (top_sat s0) top_ok) as (n & N).
  exists n. unfold parse_with. fold s0.
  destruct (gexec n p (ECall entry None) [] s0) as [v en s|en s|v en s| |]; try congruence;
    destruct (p_finish s) as [[t es]|]; congruence.
Qed.

(** A-eof: when the entry function's exit look-ahead set is {Eof}, a completed parse stops at Eof *)
Hypothesis EOF : chk_eof ce entry = true.

Theorem parse_ends_at_eof : forall fuel txt t errs st,
  parse_with fuel p entry txt = ParseOk t errs st -> cur st = T_Eof.
Proof.
  intros fuel txt t errs st H. unfold parse_with in H. set (s0 := p_new txt) in *.
  pose proof (facts_sound p ce chk_all_cert fuel true _ (ECall entry None) top_fact [] s0 (msr s0) (top_sat s0) top_ok) as F.
  assert (K : forall o s, osat (msr s0) o s -> (exists x, o = Some x /\ L x = post (cert_of ce entry)) -> cur s = T_Eof).
  { intros o s (a & -> & (_ & _ & M)) (x & X & LX). inversion X; subst x. rewrite LX in M.
    apply kmem_single_eq. eapply ksub_spec; [exact EOF|exact M]. }
  cbn [an rt rf rb qt qf] in F.
  destruct (gexec fuel p (ECall entry None) [] s0) as [v en s|en s|v en s| |]; try discriminate;
    destruct (p_finish s) as [[t0 es]|]; try discriminate; inversion H; subst.
  - destruct v as [[|]|m]; cbn in F; (eapply K; [exact F|eexists; split; reflexivity]).
  - destruct v as [[|]|m]; cbn in F; destruct F as (a & X & _); discriminate.
Qed.

(** C01 for every accepted program *)
Theorem lossless_checked : forall fuel txt t errs st,
  parse_with fuel p entry txt = ParseOk t errs st -> lossless txt t.
Proof. intros. eapply lossless_any_program; [eassumption|eapply parse_ends_at_eof; eassumption]. Qed.

End TOP.

(** * The regenerated grammar *)
Lemma grammar_chk_all : chk_all grammar_prog grammar_cert grammar_entry = true.
Proof. vm_compute. reflexivity. Qed.
Lemma grammar_chk_eof : chk_eof grammar_cert grammar_entry = true.
Proof. vm_compute. reflexivity. Qed.

Theorem grammar_lossless : forall fuel txt t errs st,
  parse_with fuel grammar_prog grammar_entry txt = ParseOk t errs st -> lossless txt t.
Proof. exact (lossless_checked _ _ _ grammar_chk_all grammar_chk_eof). Qed.

Theorem grammar_terminates : forall txt, exists fuel, parse_with fuel grammar_prog grammar_entry txt <> ParseOOF.
Proof. exact (parse_terminates _ _ _ grammar_chk_all). Qed.

(** * C02 (iv): errors of the regenerated grammar *)
From TG.Proofs Require Import ParserMsgs.
From Coq Require Import String.

Lemma grammar_msgs_ok : prog_msgs_ok grammar_prog = true.
Proof. vm_compute. reflexivity. Qed.

Definition error_wf (txt : text) (e : N * N * parse_msg) : Prop :=
  let '(lo, hi, m) := e in
  msg_text m <> EmptyString /\ (lo <= hi)%N /\ (hi <= bytes txt)%N /\ on_char_boundary txt lo /\ on_char_boundary txt hi.

Theorem errors_wf_checked (p : prog) (entry : nat) : prog_msgs_ok p = true ->
  forall fuel txt t errs st, parse_with fuel p entry txt = ParseOk t errs st -> Forall (error_wf txt) errs.
Proof.
  intros PM fuel txt t errs st H.
  pose proof (parse_msgs_nonempty p entry PM _ _ _ _ _ H) as M.
  pose proof (error_ranges_any_program _ _ _ _ _ _ _ H) as R.
  rewrite Forall_forall in *. intros [[lo hi] m] IN. specialize (M _ IN). specialize (R _ IN). cbn in M, R. cbn. tauto.
Qed.

Theorem grammar_errors_wf : forall fuel txt t errs st,
  parse_with fuel grammar_prog grammar_entry txt = ParseOk t errs st -> Forall (error_wf txt) errs.
Proof. exact (errors_wf_checked _ _ grammar_msgs_ok). Qed.

(** the token stream never panics in a reachable state: no `expect("error token without message")`, the
    fuel of the trivia loop never runs out *)
Theorem stream_total txt s : Tile txt s ->
  (exists s', p_eat s = Some s') /\ (exists s', p_skip_all s = Some s') /\ (forall k m, exists s', p_expect s k m = Some s').
Proof.
  intros T. split; [|split].
  - destruct (p_eat_tile txt s T) as (s' & E & _). eauto.
  - destruct (p_skip_all_tile txt s T) as (s' & E & _). eauto.
  - intros k m. destruct (p_expect_tile txt s k m T) as (s' & E & _). eauto.
Qed.
