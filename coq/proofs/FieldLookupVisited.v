(** FieldLookupVisited: `Record::find_field` as the code has it since 1b571ae - one set of visited ancestors shared
    by the whole search, an ancestor reached along several inheritance paths is searched once - returns what the
    plain depth-first search of the model ([Scope.find_field]) returns, whenever parents are older records
    ([REC], which the indexer maintains: a class reference resolves to an existing class and a record does not
    inherit from itself). *)
From Coq Require Import List NArith Bool Lia Arith.
From TG.Model Require Import CoreAst Scope.
From TG.Proofs Require Import ScopeSimRec.
Import ListNotations.
Open Scope N_scope.

Definition vmem (p : N) (vis : list N) : bool := existsb (N.eqb p) vis.

(** the loop over the parent list: `if !visited.insert(p) { continue }` *)
Fixpoint vgo (F : N -> list N -> option N * list N) (ps : list N) (vis : list N) : option N * list N :=
  match ps with
  | [] => (None, vis)
  | p :: ps' =>
    if vmem p vis then vgo F ps' vis
    else match F p (p :: vis) with
         | (Some f, v') => (Some f, v')
         | (None, v') => vgo F ps' v'
         end
  end.
(** `find_field_in(&self, symbol_map, name, visited)` *)
Fixpoint find_field_in (fuel : nat) (recs : list recd) (id : N) (nm : name) (vis : list N) : option N * list N :=
  match fuel with
  | O => (None, vis)
  | S k =>
    match nthN recs id with
    | None => (None, vis)
    | Some r =>
      match alookup nm (rc_fields r) with
      | Some f => (Some f, vis)
      | None => vgo (fun p v => find_field_in k recs p nm v) (rc_parents r) vis
      end
    end
  end.
(** `find_field(&self, symbol_map, name) = self.find_field_in(symbol_map, name, &mut HashSet::new())` *)
Definition find_field_visited (fuel : nat) (recs : list recd) (id : N) (nm : name) : option N :=
  fst (find_field_in fuel recs id nm []).

Section Eq.
  Variable recs : list recd.
  Variable nm : name.
  Hypothesis HR : REC recs.

  (** nothing named [nm] in or above record [v] *)
  Definition Dead (v : N) : Prop := find_field (S (N.to_nat v)) recs v nm = None.
  Lemma dead_none : forall v k, Dead v -> (N.to_nat v < k)%nat -> find_field k recs v nm = None.
  Proof. intros v k H Hk. rewrite (ff_fuel recs nm HR k (S (N.to_nat v)) v) by lia. exact H. Qed.
  Lemma none_dead : forall v k, find_field k recs v nm = None -> (N.to_nat v < k)%nat -> Dead v.
  Proof. intros v k H Hk. unfold Dead. rewrite (ff_fuel recs nm HR (S (N.to_nat v)) k v) by lia. exact H. Qed.

  Lemma vmem_In : forall p vis, vmem p vis = true -> In p vis.
  Proof.
    intros p vis H. unfold vmem in H. apply existsb_exists in H. destruct H as [x [Hin Hx]].
    apply N.eqb_eq in Hx. now subst.
  Qed.

  Definition call_ok (k : nat) : Prop := forall p V,
      (N.to_nat p < k)%nat -> (forall v, In v V -> Dead v \/ p <= v) ->
      fst (find_field_in k recs p nm V) = find_field k recs p nm /\
      (fst (find_field_in k recs p nm V) = None -> forall v, In v (snd (find_field_in k recs p nm V)) -> In v V \/ Dead v).

  Lemma vgo_spec : forall k c, call_ok k -> (N.to_nat c <= k)%nat ->
      forall ps V, (forall p, In p ps -> p < c) -> (forall v, In v V -> Dead v \/ c <= v) ->
      fst (vgo (fun p v => find_field_in k recs p nm v) ps V) = ff_par k recs nm ps /\
      (fst (vgo (fun p v => find_field_in k recs p nm v) ps V) = None ->
       forall v, In v (snd (vgo (fun p v => find_field_in k recs p nm v) ps V)) -> In v V \/ Dead v).
  Proof.
    intros k c IH Hk. induction ps as [|p ps IHp]; intros V Hps HV; simpl.
    - split; [reflexivity|]. intros _ v Hv. now left.
    - assert (Hp : p < c) by (apply Hps; now left).
      assert (Hps' : forall q, In q ps -> q < c) by (intros q Hq; apply Hps; now right).
      destruct (vmem p V) eqn:Em.
      + (* seen before: it is not on the current path (those are younger), so it has been searched in vain *)
        destruct (HV p (vmem_In _ _ Em)) as [Hd|Hle]; [|lia].
        rewrite (dead_none p k Hd) by lia. apply IHp; assumption.
      + assert (Hpre : forall v, In v (p :: V) -> Dead v \/ p <= v).
        { intros v [<-|Hv]; [right; lia|]. destruct (HV v Hv) as [Hd|Hle]; [now left|right; lia]. }
        destruct (IH p (p :: V)) as [E1 E2]; [lia|exact Hpre|].
        destruct (find_field_in k recs p nm (p :: V)) as [[f|] V'] eqn:Ec; simpl in E1, E2 |- *.
        * rewrite <- E1. split; [reflexivity|discriminate].
        * rewrite <- E1.
          assert (Hd : Dead p) by (apply (none_dead p k); [now rewrite <- E1|lia]).
          assert (HV' : forall v, In v V' -> Dead v \/ c <= v).
          { intros v Hv. destruct (E2 eq_refl v Hv) as [[<-|Hin]|Hdv]; [now left|now apply HV|now left]. }
          destruct (IHp V' Hps' HV') as [F1 F2]. split; [exact F1|].
          intros Hn v Hv. destruct (F2 Hn v Hv) as [Hin|Hdv]; [|now right].
          destruct (E2 eq_refl v Hin) as [[<-|Hin']|Hdv]; [now right|now left|now right].
  Qed.

  Lemma call_ok_all : forall k, call_ok k.
  Proof.
    induction k as [|k IH]; intros p V Hk HV; [lia|].
    rewrite find_field_S. cbn [find_field_in].
    destruct (nthN recs p) as [r|] eqn:E; [|split; [reflexivity|intros _ v Hv; now left]].
    destruct (alookup nm (rc_fields r)); [split; [reflexivity|discriminate]|].
    apply (vgo_spec k p IH); [lia| |exact HV].
    intros q Hq. apply (HR p r E q Hq).
  Qed.

  Theorem find_field_visited_eq : forall fuel id,
      (N.to_nat id < fuel)%nat -> find_field_visited fuel recs id nm = find_field fuel recs id nm.
  Proof.
    intros fuel id H. unfold find_field_visited.
    destruct (call_ok_all fuel id [] H) as [E _]; [intros v []|exact E].
  Qed.
End Eq.

(** ---- the same for `Record::is_subclass_of` *)
Fixpoint sgo (F : N -> list N -> bool * list N) (ps : list N) (vis : list N) : bool * list N :=
  match ps with
  | [] => (false, vis)
  | p :: ps' =>
    if vmem p vis then sgo F ps' vis
    else match F p (p :: vis) with
         | (true, v') => (true, v')
         | (false, v') => sgo F ps' v'
         end
  end.
Fixpoint is_subclass_of_in (fuel : nat) (recs : list recd) (id other : N) (vis : list N) : bool * list N :=
  match fuel with
  | O => (false, vis)
  | S k =>
    match nthN recs id with
    | None => (false, vis)
    | Some r =>
      if existsb (N.eqb other) (rc_parents r) then (true, vis)
      else sgo (fun p v => is_subclass_of_in k recs p other v) (rc_parents r) vis
    end
  end.
Definition is_subclass_of_visited (fuel : nat) (recs : list recd) (id other : N) : bool :=
  fst (is_subclass_of_in fuel recs id other []).

Lemma existsb_ext_in : forall A (f g : A -> bool) l, (forall x, In x l -> f x = g x) -> existsb f l = existsb g l.
Proof.
  intros A f g l H. induction l as [|x r IH]; [reflexivity|]. simpl.
  rewrite (H x (or_introl eq_refl)), IH; [reflexivity|]. intros y Hy. apply H. now right.
Qed.

Section EqSub.
  Variable recs : list recd.
  Variable other : N.
  Hypothesis HR : REC recs.

  Lemma isub_fuel : forall k1 k2 id,
      (N.to_nat id < k1)%nat -> (N.to_nat id < k2)%nat -> is_subclass_of k1 recs id other = is_subclass_of k2 recs id other.
  Proof.
    induction k1 as [|k1 IH]; intros k2 id H1 H2; [lia|]. destruct k2 as [|k2]; [lia|]. simpl.
    destruct (nthN recs id) as [r|] eqn:E; [|reflexivity]. f_equal.
    apply existsb_ext_in. intros p Hp. pose proof (HR id r E p Hp). apply IH; lia.
  Qed.

  Definition DeadS (v : N) : Prop := is_subclass_of (S (N.to_nat v)) recs v other = false.
  Lemma deadS_false : forall v k, DeadS v -> (N.to_nat v < k)%nat -> is_subclass_of k recs v other = false.
  Proof. intros v k H Hk. rewrite (isub_fuel k (S (N.to_nat v)) v) by lia. exact H. Qed.
  Lemma false_deadS : forall v k, is_subclass_of k recs v other = false -> (N.to_nat v < k)%nat -> DeadS v.
  Proof. intros v k H Hk. unfold DeadS. rewrite (isub_fuel (S (N.to_nat v)) k v) by lia. exact H. Qed.

  Definition scall_ok (k : nat) : Prop := forall p V,
      (N.to_nat p < k)%nat -> (forall v, In v V -> DeadS v \/ p <= v) ->
      fst (is_subclass_of_in k recs p other V) = is_subclass_of k recs p other /\
      (fst (is_subclass_of_in k recs p other V) = false ->
       forall v, In v (snd (is_subclass_of_in k recs p other V)) -> In v V \/ DeadS v).

  Lemma sgo_spec : forall k c, scall_ok k -> (N.to_nat c <= k)%nat ->
      forall ps V, (forall p, In p ps -> p < c) -> (forall v, In v V -> DeadS v \/ c <= v) ->
      fst (sgo (fun p v => is_subclass_of_in k recs p other v) ps V)
      = existsb (fun p => is_subclass_of k recs p other) ps /\
      (fst (sgo (fun p v => is_subclass_of_in k recs p other v) ps V) = false ->
       forall v, In v (snd (sgo (fun p v => is_subclass_of_in k recs p other v) ps V)) -> In v V \/ DeadS v).
  Proof.
    intros k c IH Hk. induction ps as [|p ps IHp]; intros V Hps HV; simpl.
    - split; [reflexivity|]. intros _ v Hv. now left.
    - assert (Hp : p < c) by (apply Hps; now left).
      assert (Hps' : forall q, In q ps -> q < c) by (intros q Hq; apply Hps; now right).
      destruct (vmem p V) eqn:Em.
      + destruct (HV p (vmem_In _ _ Em)) as [Hd|Hle]; [|lia].
        rewrite (deadS_false p k Hd) by lia. simpl. apply IHp; assumption.
      + assert (Hpre : forall v, In v (p :: V) -> DeadS v \/ p <= v).
        { intros v [<-|Hv]; [right; lia|]. destruct (HV v Hv) as [Hd|Hle]; [now left|right; lia]. }
        destruct (IH p (p :: V)) as [E1 E2]; [lia|exact Hpre|].
        destruct (is_subclass_of_in k recs p other (p :: V)) as [[|] V'] eqn:Ec; simpl in E1, E2 |- *.
        * rewrite <- E1. split; [reflexivity|discriminate].
        * rewrite <- E1. simpl.
          assert (Hd : DeadS p) by (apply (false_deadS p k); [now rewrite <- E1|lia]).
          assert (HV' : forall v, In v V' -> DeadS v \/ c <= v).
          { intros v Hv. destruct (E2 eq_refl v Hv) as [[<-|Hin]|Hdv]; [now left|now apply HV|now left]. }
          destruct (IHp V' Hps' HV') as [F1 F2]. split; [exact F1|].
          intros Hn v Hv. destruct (F2 Hn v Hv) as [Hin|Hdv]; [|now right].
          destruct (E2 eq_refl v Hin) as [[<-|Hin']|Hdv]; [now right|now left|now right].
  Qed.

  Lemma scall_ok_all : forall k, scall_ok k.
  Proof.
    induction k as [|k IH]; intros p V Hk HV; [lia|]. cbn [is_subclass_of_in is_subclass_of].
    destruct (nthN recs p) as [r|] eqn:E; [|split; [reflexivity|intros _ v Hv; now left]].
    destruct (existsb (N.eqb other) (rc_parents r)); [split; [reflexivity|discriminate]|]. simpl.
    apply (sgo_spec k p IH); [lia| |exact HV].
    intros q Hq. apply (HR p r E q Hq).
  Qed.

  Theorem is_subclass_of_visited_eq : forall fuel id,
      (N.to_nat id < fuel)%nat -> is_subclass_of_visited fuel recs id other = is_subclass_of fuel recs id other.
  Proof.
    intros fuel id H. unfold is_subclass_of_visited.
    destruct (scall_ok_all fuel id [] H) as [E _]; [intros v []|exact E].
  Qed.
End EqSub.
