(** The rendering of the CURRENT source of handlers/document_symbol.rs (exec, symbol_to_document_symbol) in
    coq/gen/GenHandlers.v equals the hand model Outline.document_symbol for ALL symbol-map states and files.
    Modelled (trusted): SymbolMap.v (group symmap) and the view / accessor vocabulary of HandlerSymApi.v. *)
From Coq Require Import List NArith Bool Lia.
From TG.Gen Require Import GenTokens GenHandlers.
From TG.Model Require Import Chars Tree TreeNav SymbolMap DocComments Outline HandlerApi HandlerSymApi.
Import ListNotations.
Open Scope N_scope.

(** ================= monad / iterator facts ================= *)
Lemma hbind_val_r {R B A} (m : hm R B A) : (x <- m ;; Val x) = m.
Proof. destruct m; reflexivity. Qed.

Lemma hmapM_ext {R B X Y} (f g : X -> hm R B Y) : (forall x, f x = g x) -> forall l, hmapM f l = hmapM g l.
Proof. intros H. induction l as [|x r IH]; [reflexivity|]. cbn [hmapM]. now rewrite H, IH. Qed.

Lemma hmapM_sres {R B X Y} (f : X -> sres Y) : forall l, @hmapM R B X Y (fun x => hsres (f x)) l = hsres (smap f l).
Proof.
  induction l as [|x r IH]; [reflexivity|]. cbn [hmapM smap]. destruct (f x) as [y|e]; [|reflexivity].
  cbn [hsres hbind sbind]. rewrite IH. destruct (smap f r); reflexivity.
Qed.

Lemma smap_post {X Y Z} (f : X -> sres Y) (g : Y -> Z) : forall l,
  smap (fun x => sbind (f x) (fun y => SOk (g y))) l = sbind (smap f l) (fun ys => SOk (map g ys)).
Proof.
  induction l as [|x r IH]; [reflexivity|]. cbn [smap]. destruct (f x) as [y|e]; [|reflexivity]. cbn [sbind].
  rewrite IH. destruct (smap f r); reflexivity.
Qed.

(** ================= the leaf entries (template arguments, fields) ================= *)
Lemma hmapM_lookup : forall (R B : Type) M k ids,
  @hmapM R B N entry (fun id => t <- hsres (symbol M (k, id)) ;; Val t) ids = hsres (smap (fun id => symbol M (k, id)) ids).
Proof.
  intros. rewrite (hmapM_ext _ (fun id => hsres (symbol M (k, id)))) by (intros; apply hbind_val_r). apply hmapM_sres.
Qed.

(** ================= symbol_to_document_symbol: the record arms ================= *)
Lemma src_record_docsym : forall f M e,
  src_symbol_to_document_symbol (S f) M (SvRecord e) = outcome_of_sres (record_docsym M e).
Proof.
  intros f M e. cbn [src_symbol_to_document_symbol]. unfold record_docsym, en_rkind, en_iter_template_arg, en_iter_field,
    targ_docsyms, field_docsyms, sm_template_arg, sm_record_field, template_arg, record_field, leaf_docsym.
  destruct (e_payload e) as [k targs fields ps|t|t p|t|t ds|ts ps|ps]; try reflexivity.
  destruct k; cbn [p_record_kind opt_rk_eqb p_targs p_fields]; rewrite !hmapM_lookup, !smap_post.
  - destruct (smap (fun id => symbol M (KTemplateArg, id)) (amap_values targs)) as [ts|err]; [|reflexivity].
    cbn [hsres hbind sbind].
    destruct (smap (fun id => symbol M (KRecordField, id)) (amap_values fields)) as [fs|err]; reflexivity.
  - destruct (smap (fun id => symbol M (KRecordField, id)) (amap_values fields)) as [fs|err]; reflexivity.
Qed.

(** ================= the defset arm: filter by file, look the defs up as symbols, recurse ================= *)
Fixpoint keep_ids (e : entry) (ids : list N) (des : list entry) : list N :=
  match ids, des with
  | id :: r, de :: r' => if same_file_as e de then id :: keep_ids e r r' else keep_ids e r r'
  | _, _ => []
  end.

Lemma stage1 : forall (R B : Type) M e ids,
  @hfilterM R B N (fun v_id => t <- hsres (sm_record M v_id) ;;
                               Val (N.eqb (fr_file (en_define_loc t)) (fr_file (en_define_loc e)))) ids =
  match smap (record M) ids with SOk des => Val (keep_ids e ids des) | SErr _ => Panic end.
Proof.
  intros R B M e. induction ids as [|id r IH]; [reflexivity|]. cbn [hfilterM smap]. unfold sm_record at 1.
  destruct (record M id) as [de|err]; [|reflexivity]. cbn [hsres hbind sbind]. rewrite IH.
  destruct (smap (record M) r) as [des|err]; [|reflexivity]. cbn [hbind sbind keep_ids]. unfold same_file_as, en_define_loc.
  reflexivity.
Qed.

Lemma stage2 : forall (R B : Type) M e ids des, smap (record M) ids = SOk des ->
  @hmapM R B N symview (fun v_id => t <- hsres (sm_symbol M (sid_of_record v_id)) ;; Val t) (keep_ids e ids des) =
  Val (map SvRecord (filter (same_file_as e) des)).
Proof.
  intros R B M e. induction ids as [|id r IH]; intros des H; cbn [smap] in H.
  - injection H as <-. reflexivity.
  - destruct (record M id) as [de|err] eqn:Hr; [|discriminate]. cbn [sbind] in H.
    destruct (smap (record M) r) as [des'|err] eqn:Hs; [|discriminate]. injection H as <-.
    cbn [keep_ids filter]. destruct (same_file_as e de); [|now apply IH].
    cbn [hmapM map]. rewrite (IH des' eq_refl). unfold sm_symbol, sid_of_record. cbn [fst]. unfold record in Hr. rewrite Hr.
    reflexivity.
Qed.

Lemma stage3 : forall f M des,
  @hfilter_mapM (option docsym) Empty_set symview docsym
     (fun v_symbol => t <- hcall (src_symbol_to_document_symbol (S f) M v_symbol) ;; Val t) (map SvRecord des) =
  match smap (record_docsym M) des with SOk ds => Val (filter_some ds) | SErr _ => Panic end.
Proof.
  intros f M. induction des as [|de r IH]; [reflexivity|]. cbn [map hfilter_mapM smap]. rewrite src_record_docsym.
  destruct (record_docsym M de) as [o|err]; [|reflexivity]. cbn [outcome_of_sres hcall hbind sbind]. rewrite IH.
  destruct (smap (record_docsym M) r) as [ds|err]; [|reflexivity]. cbn [hbind sbind filter_some]. destruct o; reflexivity.
Qed.

(** ================= symbol_to_document_symbol ================= *)
Theorem src_symbol_to_document_symbol_eq : forall M s e, symbol M s = SOk e ->
  src_symbol_to_document_symbol 2 M (sv_of (fst s) e) = outcome_of_sres (symbol_to_document_symbol M s).
Proof.
  intros M s e H. unfold symbol_to_document_symbol. rewrite H. cbn [sbind].
  destruct (fst s); cbn [sv_of]; try reflexivity.
  - apply src_record_docsym.
  - (* defset *)
    change 2%nat with (S 1). remember 1%nat as f1 eqn:Hf1. cbn [src_symbol_to_document_symbol]. subst f1.
    unfold en_def_list. rewrite stage1.
    destruct (smap (record M) (p_defs (e_payload e))) as [des|err] eqn:Hs; [|reflexivity].
    cbn [hbind sbind]. rewrite (stage2 _ _ M e _ des Hs). cbn [hbind]. rewrite stage3.
    destruct (smap (record_docsym M) (filter (same_file_as e) des)); reflexivity.
  - (* multiclass *)
    cbn [src_symbol_to_document_symbol]. unfold en_iter_template_arg, targ_docsyms, sm_template_arg, template_arg, leaf_docsym.
    rewrite hmapM_lookup, smap_post.
    destruct (smap (fun id => symbol M (KTemplateArg, id)) (amap_values (p_targs (e_payload e)))); reflexivity.
Qed.

(** ================= exec ================= *)
(** the loop body is described pointwise (the hypothesis is discharged by case analysis for the rendered body) *)
Lemma docsym_for : forall M (body : symbol_id -> list docsym -> hm (option (list docsym)) (list docsym) (list docsym)),
  (forall s acc, body s acc =
     (t33 <- hsres (sm_symbol M s) ;;
      t34 <- hcall (src_symbol_to_document_symbol 2 M t33) ;;
      match t34 with Some d => Val (acc ++ [d]) | None => Val acc end)) ->
  forall ids acc,
  @hfor (option (list docsym)) Empty_set symbol_id (list docsym) ids body acc =
    match smap (symbol_to_document_symbol M) ids with
    | SOk l => Val (acc ++ filter_some l)
    | SErr _ => Panic
    end.
Proof.
  intros M body Hb. induction ids as [|s r IH]; intros acc; [cbn; now rewrite app_nil_r|].
  cbn [hfor smap]. rewrite Hb. unfold sm_symbol at 1. destruct (symbol M s) as [e|err] eqn:Hs.
  - cbn [sbind hsres hbind]. rewrite (src_symbol_to_document_symbol_eq M s e Hs).
    destruct (symbol_to_document_symbol M s) as [o|err]; [|reflexivity].
    cbn [outcome_of_sres hcall hbind sbind]. destruct o as [d|]; cbn [hbind].
    + rewrite IH. destruct (smap (symbol_to_document_symbol M) r); [|reflexivity]. cbn [sbind filter_some].
      now rewrite <- app_assoc.
    + rewrite IH. destruct (smap (symbol_to_document_symbol M) r); reflexivity.
  - unfold symbol_to_document_symbol. rewrite Hs. reflexivity.
Qed.

Theorem src_document_symbol_exec_eq : forall M trees f,
  src_document_symbol_exec (mkIdb M trees) f = outcome_of_sres (document_symbol M f).
Proof.
  intros M trees f. unfold src_document_symbol_exec, document_symbol, db_index, index_symbol_map, sm_iter_symbols_in_file.
  cbn [idb_sm]. destruct (iter_symbols_in_file M f) as [ids|]; [|reflexivity].
  match goal with |- context [hfor ids ?b []] => rewrite (docsym_for M b) end.
  - destruct (smap (symbol_to_document_symbol M) ids); reflexivity.
  - intros s acc. destruct (sm_symbol M s) as [v|err]; [|reflexivity]. cbn [hsres hbind].
    destruct (src_symbol_to_document_symbol 2 M v) as [[d|]| |]; reflexivity.
Qed.

Theorem c18_outline_model_is_source :
  (forall M s e, symbol M s = SOk e ->
     src_symbol_to_document_symbol 2 M (sv_of (fst s) e) = outcome_of_sres (symbol_to_document_symbol M s)) /\
  (forall M trees f, src_document_symbol_exec (mkIdb M trees) f = outcome_of_sres (document_symbol M f)).
Proof. split; [exact src_symbol_to_document_symbol_eq|exact src_document_symbol_exec_eq]. Qed.

(** ================================================================================================================
    handlers/inlay_hint.rs
    ================================================================================================================ *)
From TG.Proofs Require Import GenHandlersEq.

Definition olist {A : Type} (o : option (list A)) : list A := match o with Some l => l | None => [] end.
Definition outcome_map {A B : Type} (f : A -> B) (o : outcome A) : outcome B :=
  match o with Done a => Done (f a) | OutOfFuel => OutOfFuel | Panicked => Panicked end.

Lemma parent_is_node : forall c p, parent c = Some p -> is_node (fst p) = true.
Proof. intros [t ctx] p H. unfold parent in H. cbn [snd fst] in H. destruct ctx as [|f r]; [discriminate|]. injection H as <-. reflexivity. Qed.

Lemma covering_cursor_eq : forall t loc,
  rw_covering_element (rw_syntax_node t) (fr_range loc) = covering_element t (fr_lo loc) (fr_hi loc).
Proof. intros t loc. apply covering_root_eq. Qed.

(** ---- inlay_hint_record_field ---- *)
Theorem src_inlay_hint_record_field_eq : forall M trees fld loc,
  outcome_map olist (src_inlay_hint_record_field (mkIdb M trees) fld loc) =
    match covering_element (trees (fr_file loc)) (fr_lo loc) (fr_hi loc) with
    | None => Panicked
    | Some _ => Done (inlay_hint_record_field (trees (fr_file loc)) (en_typ fld) (fr_lo loc) (fr_hi loc))
    end.
Proof.
  intros M trees fld loc. unfold src_inlay_hint_record_field, inlay_hint_record_field, identifier_node, idb_parse. cbn [idb_trees].
  rewrite covering_cursor_eq. destruct (covering_element _ _ _) as [idn|]; [|reflexivity].
  cbn [hassert hbind]. unfold rw_kind, rw_parent.
  assert (match kind_of (fst idn) with
          | S_Id => parent idn
          | S_Identifier => if false && is_node (fst idn) then Some idn else None
          | _ => None
          end = if sk_eqb (kind_of (fst idn)) S_Id then parent idn else None) as -> by (destruct (kind_of (fst idn)); reflexivity).
  destruct (sk_eqb (kind_of (fst idn)) S_Id); [|reflexivity].
  destruct (parent idn) as [idc|]; [|reflexivity]. cbn [htry hbind].
  destruct (parent idc) as [fl|]; [|reflexivity]. cbn [htry hbind].
  destruct (sk_eqb (kind_of (fst fl)) S_FieldLet); reflexivity.
Qed.

(** ---- inlay_hint_class ---- *)
Lemma hfor_push : forall (R B X Y : Type) (f : X -> Y) (xs : list X) (acc : list Y),
  @hfor R B X (list Y) xs (fun it v_hints => Val (v_hints ++ [f it])) acc = Val (acc ++ map f xs).
Proof.
  intros R B X Y f. induction xs as [|x r IH]; intros acc; cbn [hfor map]; [now rewrite app_nil_r|].
  rewrite IH, <- app_assoc. reflexivity.
Qed.

Lemma combine_map_l : forall (A A' C : Type) (g : A -> A') (l : list A) (ns : list C),
  combine (map g l) ns = map (fun p => (g (fst p), snd p)) (combine l ns).
Proof. intros A A' C g. induction l as [|x r IH]; intros [|n ns]; cbn [map combine]; try reflexivity. now rewrite IH. Qed.

Theorem src_inlay_hint_class_eq : forall M trees cls loc,
  outcome_map olist (src_inlay_hint_class (mkIdb M trees) M cls loc) =
    match covering_element (trees (fr_file loc)) (fr_lo loc) (fr_hi loc) with
    | None => Panicked
    | Some _ => outcome_of_sres (inlay_hint_class M (trees (fr_file loc)) (p_targs (e_payload cls)) (fr_lo loc) (fr_hi loc))
    end.
Proof.
  intros M trees cls loc. unfold src_inlay_hint_class, inlay_hint_class, class_arg_list, identifier_node, idb_parse. cbn [idb_trees].
  rewrite covering_cursor_eq. destruct (covering_element _ _ _) as [idn|]; [|reflexivity].
  cbn [hassert hbind]. unfold rw_kind, rw_parent, rw_into_node. rewrite kind_chain2. cbn [andb].
  assert (forall idc : cursor,
    outcome_map olist (hrun (
      t41 <- htry (parent idc) ;;
      t46 <- (if sk_eqb (kind_of (fst t41)) S_ClassRef
              then t42 <- htry (ast_cast S_ClassRef t41) ;; t43 <- htry (ast_arg_value_list t42) ;; Val t43
              else if sk_eqb (kind_of (fst t41)) S_ClassValue
                   then t44 <- htry (ast_cast S_ClassValue t41) ;; t45 <- htry (ast_arg_value_list t44) ;; Val t45
                   else Ret None) ;;
      t48 <- hmapM (fun v_arg_id => t47 <- hsres (sm_template_arg M v_arg_id) ;; Val t47) (en_iter_template_arg cls) ;;
      t49 <- hfor (combine (map (fun v_value => rw_text_range v_value)
                              (it_take_while (fun v_it => sk_eqb (kind_of (fst v_it)) S_PositionalArgValue) (ast_arg_values t46)))
                           (map (fun v_arg => en_name v_arg) t48))
                  (fun it v_hints => Val (v_hints ++ [mk_inlay_hint (rg_start (fst it)) (snd it ++ [58]) HKTemplateArg])) [] ;;
      Val (Some t49))) =
    outcome_of_sres
      match (match parent idc with
             | Some cn => if sk_eqb (kind_of (fst cn)) S_ClassRef || sk_eqb (kind_of (fst cn)) S_ClassValue
                          then arg_value_list cn else None
             | None => None
             end) with
      | Some al => sbind (smap (fun id => sbind (template_arg M id) (fun a => SOk (e_name a))) (amap_values (p_targs (e_payload cls))))
                     (fun names => SOk (zip_hints (positional_arg_starts al) names))
      | None => SOk []
      end) as Hrest.
  { intros idc. destruct (parent idc) as [cn|] eqn:Hp; [|reflexivity]. cbn [htry hbind].
    pose proof (parent_is_node _ _ Hp) as Hn. unfold ast_cast, ast_arg_value_list. rewrite Hn. cbn [andb].
    assert (forall al : cursor,
      outcome_map olist (hrun (
        t48 <- @hmapM (option (list hint)) Empty_set N entry
                 (fun v_arg_id => t47 <- hsres (sm_template_arg M v_arg_id) ;; Val t47) (en_iter_template_arg cls) ;;
        t49 <- hfor (combine (map (fun v_value => rw_text_range v_value)
                                (it_take_while (fun v_it => sk_eqb (kind_of (fst v_it)) S_PositionalArgValue) (ast_arg_values al)))
                             (map (fun v_arg => en_name v_arg) t48))
                    (fun it v_hints => Val (v_hints ++ [mk_inlay_hint (rg_start (fst it)) (snd it ++ [58]) HKTemplateArg])) [] ;;
        Val (Some t49))) =
      outcome_of_sres (sbind (smap (fun id => sbind (template_arg M id) (fun a => SOk (e_name a))) (amap_values (p_targs (e_payload cls))))
                         (fun names => SOk (zip_hints (positional_arg_starts al) names)))) as Hal.
    { intros al. unfold sm_template_arg, template_arg, en_iter_template_arg. rewrite hmapM_lookup, smap_post.
      destruct (smap (fun id => symbol M (KTemplateArg, id)) (amap_values (p_targs (e_payload cls)))) as [es|err]; [|reflexivity].
      cbn [hsres hbind sbind]. rewrite (hfor_push _ _ _ _ (fun it => mk_inlay_hint (rg_start (fst it)) (snd it ++ [58]) HKTemplateArg)).
      cbn [hbind hrun outcome_map olist app outcome_of_sres]. f_equal.
      unfold zip_hints, positional_arg_starts, it_take_while, ast_arg_values. rewrite !combine_map_l, !map_map.
      change (map (fun v_arg : entry => en_name v_arg) es) with (map e_name es).
      apply map_ext. intros [c n]. reflexivity. }
    destruct (sk_eqb (kind_of (fst cn)) S_ClassRef) eqn:K1.
    - cbn [orb htry hbind]. destruct (arg_value_list cn) as [al|]; [|reflexivity]. cbn [htry hbind]. apply Hal.
    - cbn [orb]. destruct (sk_eqb (kind_of (fst cn)) S_ClassValue).
      + cbn [htry hbind]. destruct (arg_value_list cn) as [al|]; [|reflexivity]. cbn [htry hbind]. apply Hal.
      + reflexivity. }
  destruct (sk_eqb (kind_of (fst idn)) S_Id).
  - destruct (parent idn) as [idc|]; [|reflexivity]. cbn [htry hbind]. apply Hrest.
  - destruct (sk_eqb (kind_of (fst idn)) S_Identifier); [|reflexivity].
    destruct (is_node (fst idn)); [|reflexivity]. cbn [htry hbind]. apply Hrest.
Qed.

(** ---- exec ---- *)
(** every entry of the record-field arena is a record field (arena / payload coherence; holds in every replayed state:
    [kinded_run_ops] below) *)
Definition fields_kinded (M : symbol_map) : Prop :=
  forall id e, get_entry M (KRecordField, id) = Some e -> exists typ p, e_payload e = PRecordField typ p.

Lemma hcall_olist : forall (R B : Type) (o : outcome (option (list hint))) (acc : list hint),
  (t <- @hcall R B _ o ;; match t with Some n => Val (acc ++ n) | None => Val acc end) =
  (l <- hcall (outcome_map olist o) ;; Val (acc ++ l)).
Proof. intros R B [[n|]| |] acc; cbn; try reflexivity. now rewrite app_nil_r. Qed.

Lemma iter_range_files : forall M loc l, iter_symbols_in_range M loc = SOk (Some l) ->
  Forall (fun x : file_range * symbol_id => fr_file (fst x) = fr_file loc) l.
Proof.
  intros M loc l H. unfold iter_symbols_in_range, iter_symbols_in_range_g in H.
  destruct (true && fr_is_empty loc); [discriminate|].
  destruct (fmap_get (sm_pos M) (fr_file loc)) as [m|]; [|discriminate].
  destruct (ivl_iter m (fr_lo loc) (fr_hi loc)) as [es|err]; [|discriminate]. cbn [sbind] in H. injection H as <-.
  apply Forall_forall. intros x Hx. apply in_map_iff in Hx. destruct Hx as ([[lo hi] v] & <- & _). reflexivity.
Qed.

Definition hfor_k {R B St : Type} (m : hm R St St) (k : St -> hm R B St) : hm R B St :=
  match m with Val st' => k st' | Brk st' => Val st' | Ret r0 => Ret r0 | Fuel => Fuel | Panic => Panic end.
Lemma hfor_cons : forall (R B X St : Type) (x : X) r (body : X -> St -> hm R St St) st,
  @hfor R B X St (x :: r) body st = hfor_k (body x st) (hfor r body).
Proof. reflexivity. Qed.

Theorem src_inlay_hint_exec_eq : forall M trees loc, fields_kinded M ->
  (forall l, iter_symbols_in_range M loc = SOk (Some l) ->
     Forall (fun x : file_range * symbol_id =>
               covering_element (trees (fr_file loc)) (fr_lo (fst x)) (fr_hi (fst x)) <> None) l) ->
  src_inlay_hint_exec (mkIdb M trees) loc = outcome_of_sres (inlay_hint M (fun f => Some (trees f)) loc).
Proof.
  intros M trees loc Hk Hcov. unfold src_inlay_hint_exec, inlay_hint, db_index, index_symbol_map, sm_iter_symbols_in_range.
  cbn [idb_sm]. destruct (iter_symbols_in_range M loc) as [[l|]|err] eqn:Hi; try reflexivity.
  cbn [hsres hbind sbind]. specialize (Hcov l eq_refl). pose proof (iter_range_files M loc l Hi) as Hf.
  set (t := trees (fr_file loc)) in *.
  assert (forall l acc,
    Forall (fun x : file_range * symbol_id => fr_file (fst x) = fr_file loc) l ->
    Forall (fun x : file_range * symbol_id => covering_element t (fr_lo (fst x)) (fr_hi (fst x)) <> None) l ->
    forall body : file_range * symbol_id -> list hint -> hm (option (list hint)) (list hint) (list hint),
    (forall x acc, body x acc =
       (t55 <- hsres (sm_symbol M (snd x)) ;;
        match t55 with
        | SvRecord v_record =>
            if opt_rk_eqb (en_rkind v_record) (Some RKClass)
            then l <- hcall (outcome_map olist (src_inlay_hint_class (mkIdb M trees) M v_record (fst x))) ;; Val (acc ++ l)
            else Val acc
        | SvRecordField v_record_field =>
            l <- hcall (outcome_map olist (src_inlay_hint_record_field (mkIdb M trees) v_record_field (fst x))) ;; Val (acc ++ l)
        | _ => Val acc
        end)) ->
    @hfor (option (list hint)) Empty_set _ _ l body acc =
    match smap (hints_of_symbol M t) l with SOk hs => Val (acc ++ List.concat hs) | SErr _ => Panic end) as Hfor.
  { clear l Hi Hcov Hf. induction l as [|[sloc sid] r IH]; intros acc Hf Hc body Hb; [cbn; now rewrite app_nil_r|].
    inversion Hf as [|? ? Hf1 Hf2]; subst. inversion Hc as [|? ? Hc1 Hc2]; subst. cbn [fst] in Hf1, Hc1.
    rewrite hfor_cons. cbn [smap hints_of_symbol]. rewrite Hb. cbn [fst snd]. unfold sm_symbol.
    destruct (symbol M sid) as [e|err] eqn:Hs; [|reflexivity]. cbn [sbind hsres hbind].
    assert (forall hs0 : sres (list hint),
      @hfor_k (option (list hint)) Empty_set (list hint)
         (l0 <- hcall (outcome_of_sres hs0) ;; Val (acc ++ l0)) (hfor r body) =
      match sbind hs0 (fun y => sbind (smap (hints_of_symbol M t) r) (fun ys => SOk (y :: ys))) with
      | SOk hs => Val (acc ++ List.concat hs) | SErr _ => Panic end) as Hstep.
    { intros [h0|err]; [|reflexivity]. cbn [outcome_of_sres hcall hbind sbind hfor_k]. rewrite (IH _ Hf2 Hc2 body Hb).
      destruct (smap (hints_of_symbol M t) r) as [hs|err]; [|reflexivity]. cbn [sbind List.concat]. now rewrite app_assoc. }
    assert (@hfor_k (option (list hint)) Empty_set (list hint) (Val acc) (hfor r body) =
            match sbind (SOk []) (fun y => sbind (smap (hints_of_symbol M t) r) (fun ys => SOk (y :: ys))) with
            | SOk hs => Val (acc ++ List.concat hs) | SErr _ => Panic end) as Hskip.
    { cbn [sbind hfor_k]. rewrite (IH _ Hf2 Hc2 body Hb). destruct (smap (hints_of_symbol M t) r); reflexivity. }
    destruct sid as [k id]. destruct k; cbn [fst snd sv_of]; try exact Hskip.
    - (* record *)
      unfold en_rkind. destruct (e_payload e) as [rk targs fields ps|ty|ty p|ty|ty ds|ts ps|ps] eqn:Hp;
        cbn [p_record_kind opt_rk_eqb]; try exact Hskip.
      destruct rk; cbn [opt_rk_eqb]; [|exact Hskip].
      rewrite src_inlay_hint_class_eq. rewrite Hf1. fold t. destruct (covering_element t (fr_lo sloc) (fr_hi sloc)); [|congruence].
      rewrite Hp. cbn [p_targs]. apply Hstep.
    - (* record field *)
      rewrite src_inlay_hint_record_field_eq. rewrite Hf1. fold t. destruct (covering_element t (fr_lo sloc) (fr_hi sloc)); [|congruence].
      unfold symbol in Hs. destruct (get_entry M (KRecordField, id)) as [e'|] eqn:Hg; [|discriminate]. injection Hs as ->.
      destruct (Hk id e Hg) as (typ & p & Hp). rewrite Hp. unfold en_typ. rewrite Hp. cbn [p_typ].
      apply (Hstep (SOk (inlay_hint_record_field t typ (fr_lo sloc) (fr_hi sloc)))). }
  match goal with |- context [hfor l ?b []] =>
    rewrite (Hfor l [] Hf Hcov b) end.
  - destruct (smap (hints_of_symbol M t) l) as [hs|err]; [|reflexivity]. cbn [hbind hrun sbind outcome_of_sres app].
    reflexivity.
  - intros [sloc sid] acc. cbn [fst snd]. destruct (sm_symbol M sid) as [v|err]; [|reflexivity]. cbn [hsres hbind].
    destruct v; try reflexivity.
    + destruct (opt_rk_eqb (en_rkind e) (Some RKClass)); [|reflexivity].
      rewrite <- hcall_olist. destruct (src_inlay_hint_class _ _ _ _) as [[n|]| |]; reflexivity.
    + rewrite <- hcall_olist. destruct (src_inlay_hint_record_field _ _ _) as [[n|]| |]; reflexivity.
Qed.

(** [fields_kinded] holds in every state reached by replaying ops (hence in every state the indexer builds) *)
From TG.Proofs Require Import OutlineProofs SymbolMapBasics SymbolOps OutlineIndexProofs.

Lemma fields_kinded_step : forall M o M', apply_op M o = SOk M' -> fields_kinded M -> fields_kinded M'.
Proof.
  intros M o M' H Hk id e He. apply apply_op_spec in H. destruct H as (Ha & _ & _). unfold arenas_after in Ha.
  destruct (op_alloc o) as [[[k e0] keyed]|] eqn:Eo.
  - destruct Ha as (Hg & _). rewrite Hg in He. destruct (sid_eqb (KRecordField, id) (k, next_id M k)) eqn:Q.
    + injection He as <-. apply sid_eqb_eq in Q. injection Q as <- _.
      destruct o; cbn [op_alloc] in Eo; try discriminate; injection Eo as Ek <-; try discriminate. subst e0. cbn [e_payload]. eauto.
    + eauto.
  - destruct (op_update M o) as [[t g]|] eqn:Eu.
    + destruct Ha as (_ & Hg & _). rewrite Hg in He. destruct (sid_eqb t (KRecordField, id)); [|eauto].
      destruct (get_entry M (KRecordField, id)) as [e1|] eqn:H1; [|discriminate]. cbn [option_map] in He. injection He as <-.
      destruct (Hk id e1 H1) as (typ & p & Hp).
      destruct o; cbn [op_update] in Eu; try discriminate;
        try (destruct (cur_target M _); [|discriminate]; cbn [option_map] in Eu; injection Eu as _ <-);
        try (injection Eu as _ <-); unfold upd_payload, push_ref; cbn [e_payload]; rewrite Hp; cbn; eauto.
    + rewrite (same_arenas_get_entry _ _ (KRecordField, id) Ha) in He. eauto.
Qed.

Theorem kinded_run_ops : forall ops M, run_ops ops = SOk M -> fields_kinded M.
Proof.
  intros ops. unfold run_ops.
  assert (forall l M0 M, fields_kinded M0 -> run_ops_from M0 l = SOk M -> fields_kinded M) as H.
  { induction l as [|o r IH]; intros M0 M H0 H; cbn [run_ops_from] in H; [replace M with M0 by congruence; exact H0|].
    destruct (apply_op M0 o) as [M1|err] eqn:Ea; [|discriminate]. cbn [sbind] in H.
    eapply IH; [|exact H]. eapply fields_kinded_step; eauto. }
  intros M HM. apply (H ops sm_empty M); [|exact HM].
  intros id e He. unfold get_entry, nth_N, sm_empty in He. cbn in He. destruct (N.to_nat id); discriminate.
Qed.

Theorem c19_inlay_model_is_source :
  (forall M trees fld loc,
     outcome_map olist (src_inlay_hint_record_field (mkIdb M trees) fld loc) =
       match covering_element (trees (fr_file loc)) (fr_lo loc) (fr_hi loc) with
       | None => Panicked
       | Some _ => Done (inlay_hint_record_field (trees (fr_file loc)) (en_typ fld) (fr_lo loc) (fr_hi loc))
       end) /\
  (forall M trees cls loc,
     outcome_map olist (src_inlay_hint_class (mkIdb M trees) M cls loc) =
       match covering_element (trees (fr_file loc)) (fr_lo loc) (fr_hi loc) with
       | None => Panicked
       | Some _ => outcome_of_sres (inlay_hint_class M (trees (fr_file loc)) (p_targs (e_payload cls)) (fr_lo loc) (fr_hi loc))
       end) /\
  (forall M trees loc, fields_kinded M ->
     (forall l, iter_symbols_in_range M loc = SOk (Some l) ->
        Forall (fun x : file_range * symbol_id =>
                  covering_element (trees (fr_file loc)) (fr_lo (fst x)) (fr_hi (fst x)) <> None) l) ->
     src_inlay_hint_exec (mkIdb M trees) loc = outcome_of_sres (inlay_hint M (fun f => Some (trees f)) loc)) /\
  (forall ops M, run_ops ops = SOk M -> fields_kinded M).
Proof.
  split; [exact src_inlay_hint_record_field_eq|]. split; [exact src_inlay_hint_class_eq|].
  split; [exact src_inlay_hint_exec_eq|exact kinded_run_ops].
Qed.

(** ================================================================================================================
    handlers/goto_definition.rs, handlers/references.rs, handlers/hover.rs (exec, extract_symbol_signature)
    ================================================================================================================ *)
Lemma sv_entry_of : forall k e, sv_entry (sv_of k e) = e.
Proof. destruct k; reflexivity. Qed.

Theorem src_goto_definition_exec_eq : forall M trees pos,
  src_goto_definition_exec (mkIdb M trees) pos = outcome_of_sres (goto_definition M (fst pos) (snd pos)).
Proof.
  intros M trees pos. unfold src_goto_definition_exec, goto_definition, db_index, index_symbol_map, sm_find_symbol_at. cbn [idb_sm].
  destruct (find_symbol_at M (fst pos) (snd pos)) as [[[s e]|]|err]; try reflexivity.
  cbn. unfold sv_define_loc. now rewrite sv_entry_of.
Qed.

Theorem src_references_exec_eq : forall M trees pos,
  src_references_exec (mkIdb M trees) pos = outcome_of_sres (references M (fst pos) (snd pos)).
Proof.
  intros M trees pos. unfold src_references_exec, references, db_index, index_symbol_map, sm_find_symbol_at. cbn [idb_sm].
  destruct (find_symbol_at M (fst pos) (snd pos)) as [[[s e]|]|err]; try reflexivity.
  cbn. unfold sv_reference_locs. now rewrite sv_entry_of.
Qed.

(** ---- arena / payload coherence, all arenas ---- *)
Definition tag_ok (k : sym_kind) (p : payload) : Prop :=
  match k, p with
  | KRecord, PRecord _ _ _ _ | KTemplateArg, PTemplateArg _ | KRecordField, PRecordField _ _ | KVariable, PVariable _
  | KDefset, PDefset _ _ | KMulticlass, PMulticlass _ _ | KDefm, PDefm _ => True
  | _, _ => False
  end.
Definition kinded (M : symbol_map) : Prop := forall k id e, get_entry M (k, id) = Some e -> tag_ok k (e_payload e).

Lemma kinded_fields : forall M, kinded M -> fields_kinded M.
Proof. intros M H id e He. specialize (H _ _ _ He). destruct (e_payload e); try contradiction. eauto. Qed.

Lemma kinded_step : forall M o M', apply_op M o = SOk M' -> kinded M -> kinded M'.
Proof.
  intros M o M' H Hk k0 id e He. apply apply_op_spec in H. destruct H as (Ha & _ & _). unfold arenas_after in Ha.
  destruct (op_alloc o) as [[[k e0] keyed]|] eqn:Eo.
  - destruct Ha as (Hg & _). rewrite Hg in He. destruct (sid_eqb (k0, id) (k, next_id M k)) eqn:Q.
    + injection He as <-. apply sid_eqb_eq in Q. injection Q as -> _.
      destruct o; cbn [op_alloc] in Eo; try discriminate; injection Eo as <- <-; exact I.
    + eauto.
  - destruct (op_update M o) as [[t g]|] eqn:Eu.
    + destruct Ha as (_ & Hg & _). rewrite Hg in He. destruct (sid_eqb t (k0, id)); [|eauto].
      destruct (get_entry M (k0, id)) as [e1|] eqn:H1; [|discriminate]. cbn [option_map] in He. injection He as <-.
      pose proof (Hk _ _ _ H1) as Ht.
      destruct o; cbn [op_update] in Eu; try discriminate;
        try (destruct (cur_target M _); [|discriminate]; cbn [option_map] in Eu; injection Eu as _ <-);
        try (injection Eu as _ <-); unfold upd_payload, push_ref; cbn [e_payload]; try exact Ht;
        destruct k0; destruct (e_payload e1); try contradiction; exact I.
    + rewrite (same_arenas_get_entry _ _ (k0, id) Ha) in He. eauto.
Qed.

Theorem kinded_run_ops_all : forall ops M, run_ops ops = SOk M -> kinded M.
Proof.
  intros ops. unfold run_ops.
  assert (forall l M0 M, kinded M0 -> run_ops_from M0 l = SOk M -> kinded M) as H.
  { induction l as [|o r IH]; intros M0 M H0 H; cbn [run_ops_from] in H; [replace M with M0 by congruence; exact H0|].
    destruct (apply_op M0 o) as [M1|err] eqn:Ea; [|discriminate]. cbn [sbind] in H.
    eapply IH; [|exact H]. eapply kinded_step; eauto. }
  intros M HM. apply (H ops sm_empty M); [|exact HM].
  intros k id e He. unfold get_entry, nth_N, sm_empty in He. destruct k; cbn in He; destruct (N.to_nat id); discriminate.
Qed.

(** ---- extract_symbol_signature ---- *)
Lemma st_join_eq : forall sep l, st_join sep l = join_with sep l.
Proof. intros sep. induction l as [|x r IH]; [reflexivity|]. destruct r as [|y r']; [reflexivity|]. cbn [st_join join_with] in *. now rewrite IH. Qed.

Lemma find_symbol_at_entry : forall M f p s e, find_symbol_at M f p = SOk (Some (s, e)) -> get_entry M s = Some e.
Proof.
  intros M f p s e H. unfold find_symbol_at in H. destruct (find_symbol_id_at M f p) as [s0|]; [|discriminate].
  unfold symbol in H. destruct (get_entry M s0) as [e0|] eqn:Hg; [|discriminate]. cbn [sbind] in H. injection H as <- <-. exact Hg.
Qed.

Theorem src_extract_symbol_signature_eq : forall M pos, kinded M ->
  src_extract_symbol_signature M pos = outcome_of_sres (extract_symbol_signature M (fst pos) (snd pos)).
Proof.
  intros M pos Hk. unfold src_extract_symbol_signature, extract_symbol_signature, sm_find_symbol_at.
  destruct (find_symbol_at M (fst pos) (snd pos)) as [[[[k id] e]|]|err] eqn:Hf; try reflexivity.
  pose proof (Hk _ _ _ (find_symbol_at_entry _ _ _ _ _ Hf)) as Ht.
  cbn [sbind option_map hsres hbind htry fst snd]. unfold sv_define_loc. rewrite sv_entry_of. unfold signature. cbn [fst].
  destruct k; destruct (e_payload e) as [rk targs fields ps|ty|ty pr|ty|ty ds|ts ps|ps] eqn:Hp; try contradiction; cbn [sv_of].
  - (* record *)
    unfold en_rkind. rewrite Hp. cbn [p_record_kind]. destruct rk; cbn [opt_rk_eqb].
    + unfold en_iter_template_arg, sm_template_arg, template_arg. rewrite Hp. cbn [p_targs].
      rewrite hmapM_lookup, (smap_post (fun id => symbol M (KTemplateArg, id))).
      destruct (smap (fun id => symbol M (KTemplateArg, id)) (amap_values targs)) as [es|err]; [|reflexivity].
      cbn [hsres hbind sbind hrun outcome_of_sres]. rewrite st_join_eq. unfold en_typ, en_name.
      match goal with |- context [if st_is_empty ?x then _ else _] => remember x as ta eqn:Eta end.
      match goal with |- context [is_nil ?y] => replace y with ta by (subst ta; reflexivity) end.
      destruct ta; reflexivity.
    + reflexivity.
  - unfold en_typ. rewrite Hp. reflexivity.
  - unfold en_field_parent, en_typ, sm_record. rewrite Hp. cbn [p_field_parent p_typ].
    destruct (record M pr) as [pe|err]; reflexivity.
  - unfold en_typ. rewrite Hp. reflexivity.
  - unfold en_typ. rewrite Hp. reflexivity.
  - reflexivity.
  - reflexivity.
Qed.

(** ---- hover::exec ---- *)
Theorem src_hover_exec_eq : forall M trees pos, kinded M ->
  (forall sig loc, extract_symbol_signature M (fst pos) (snd pos) = SOk (Some (sig, loc)) ->
     covering_element (trees (fr_file loc)) (fr_lo loc) (fr_hi loc) <> None) ->
  src_hover_exec (mkIdb M trees) pos =
    match hover M (fun f => Some (trees f)) (fst pos) (snd pos) with
    | SOk None => Done None
    | SOk (Some (sig, DocSome t)) => Done (Some (sig, Some t))
    | SOk (Some (sig, DocNone)) => Done (Some (sig, None))
    | SOk (Some (sig, DocOutOfFuel)) => OutOfFuel
    | SErr _ => Panicked
    end.
Proof.
  intros M trees pos Hk Hcov. unfold src_hover_exec, hover, db_index, index_symbol_map, idb_parse. cbn [idb_sm idb_trees].
  rewrite (src_extract_symbol_signature_eq M pos Hk).
  destruct (extract_symbol_signature M (fst pos) (snd pos)) as [[[sig loc]|]|err]; try reflexivity.
  specialize (Hcov sig loc eq_refl). cbn [outcome_of_sres hcall hbind htry sbind fst snd].
  change (rw_syntax_node (trees (fr_file loc))) with (cur_root (trees (fr_file loc))).
  change (fr_range loc) with (fr_lo loc, fr_hi loc). rewrite src_extract_doc_comments_eq.
  destruct (covering_element (trees (fr_file loc)) (fr_lo loc) (fr_hi loc)); [|congruence].
  destruct (extract_doc_comments (trees (fr_file loc)) (fr_lo loc) (fr_hi loc)); reflexivity.
Qed.

Theorem c19_hover_model_is_source :
  (forall M pos, kinded M ->
     src_extract_symbol_signature M pos = outcome_of_sres (extract_symbol_signature M (fst pos) (snd pos))) /\
  (forall M trees pos, kinded M ->
     (forall sig loc, extract_symbol_signature M (fst pos) (snd pos) = SOk (Some (sig, loc)) ->
        covering_element (trees (fr_file loc)) (fr_lo loc) (fr_hi loc) <> None) ->
     src_hover_exec (mkIdb M trees) pos =
       match hover M (fun f => Some (trees f)) (fst pos) (snd pos) with
       | SOk None => Done None
       | SOk (Some (sig, DocSome t)) => Done (Some (sig, Some t))
       | SOk (Some (sig, DocNone)) => Done (Some (sig, None))
       | SOk (Some (sig, DocOutOfFuel)) => OutOfFuel
       | SErr _ => Panicked
       end) /\
  (forall ops M, run_ops ops = SOk M -> kinded M).
Proof. split; [exact src_extract_symbol_signature_eq|]. split; [exact src_hover_exec_eq|exact kinded_run_ops_all]. Qed.
