(** Completeness direction of C04 for the nonterminals with a FINITE language (token-level rules): every word of the
    documented rule, in every context whose next token is an admissible follower, is consumed exactly and without error
    by the grammar function - first at the token level (model/TokSem.v: enumeration of the finitely many words x followers
    by vm_compute, generalised to arbitrary contexts by the frame theorem), then for the full parser model through the
    refinement theorem (proofs/TokRefine.v). *)
From Coq Require Import List NArith Bool Lia PeanoNat Arith String.
From TG.Gen Require Import GenTokens GenGrammar GenDocGrammar.
From TG.Model Require Import Chars Lexer Prep Tree ParserPrims GInterp DocGrammar GramAbs TokSem.
From TG.Proofs Require Import GramRx GramSound TokRefine TokFrame.
Import ListNotations.
Close Scope string_scope.
Close Scope N_scope.
Open Scope nat_scope.
Open Scope list_scope.

(** * All words of a star-free right-hand side *)
Definition word := list TokenKind.
Fixpoint enum (G : grammar) (fuel : nat) (r : rx) : option (list word) :=
  match fuel with
  | O => None
  | S n =>
    match r with
    | RNone => Some []
    | REps => Some [[]]
    | RSym (DTok ks) => Some (map (fun k => [k]) ks)
    | RSym (DNT m) => match nth_error G m with Some rhs => enum G n rhs | None => Some [] end
    | RSeq a b => match enum G n a, enum G n b with
                  | Some la, Some lb => Some (flat_map (fun u => map (fun v => u ++ v) lb) la)
                  | _, _ => None
                  end
    | RAlt a b => match enum G n a, enum G n b with Some la, Some lb => Some (la ++ lb) | _, _ => None end
    | RStar _ => None
    end
  end.

Lemma enum_complete G : forall fuel r ws, enum G fuel r = Some ws -> forall w, rmatch G r w -> In w ws.
Proof.
  induction fuel as [|n IH]; intros r ws H w Hm; [discriminate|].
  destruct r; cbn [enum] in H.
  - inversion Hm.
  - inversion H. inversion Hm. now left.
  - destruct s as [ks|m].
    + inversion H. inversion Hm; subst. apply in_map_iff. eauto.
    + inversion Hm as [| |m' rhs w' Hn Hr| | | | |]; subst. rewrite Hn in H. eapply IH; eauto.
  - destruct (enum G n r1) as [la|] eqn:E1; [|discriminate]. destruct (enum G n r2) as [lb|] eqn:E2; [|discriminate].
    inversion H. subst ws. inversion Hm; subst. apply in_flat_map. exists u. split; [eapply IH; eauto|].
    apply in_map_iff. exists v. split; auto. eapply IH; eauto.
  - destruct (enum G n r1) as [la|] eqn:E1; [|discriminate]. destruct (enum G n r2) as [lb|] eqn:E2; [|discriminate].
    inversion H. subst ws. apply in_or_app. inversion Hm; subst; [left|right]; eapply IH; eauto.
  - discriminate.
Qed.

(** * Running one grammar function on a token list *)
Definition cfuel : nat := 200.
Definition mk_ts (l : word) (e : nat) : tst := {| tks := l; terr := e; tafter := false |}.
Notation run_fn f l := (texec cfuel grammar_prog (ECall f None) [] (mk_ts l 0)) (only parsing).

(** the run returned true having consumed exactly the word: the unread tokens are [rest], no error was recorded *)
Definition is_done (r : tres) (rest : word) : bool :=
  match r with
  | TVal (VB true) [] ts => kinds_eqb (tks ts) rest && Nat.eqb (terr ts) 0 && negb (tafter ts)
  | _ => false
  end.
Lemma is_done_sound r rest : is_done r rest = true -> r = TVal (VB true) [] (mk_ts rest 0).
Proof.
  unfold is_done. destruct r as [[[|]|] [|? ?] [l e a]| | | |]; try discriminate. cbn.
  intros H. apply andb_true_iff in H as [H H3]. apply andb_true_iff in H as [H1 H2].
  apply kinds_eqb_eq in H1. apply Nat.eqb_eq in H2. apply negb_true_iff in H3. subst. reflexivity.
Qed.

(** from the bounded run on  w ++ [k]  to every context  w ++ k :: rest  and every initial error count *)
Lemma mk_ts_frame w k rest e : frame rest e (mk_ts (w ++ [k]) 0) = mk_ts (w ++ k :: rest) e.
Proof. unfold frame, mk_ts. cbn [tks terr tafter]. rewrite <- app_assoc. reflexivity. Qed.
Lemma mk_ts_frame1 k rest e : frame rest e (mk_ts [k] 0) = mk_ts (k :: rest) e.
Proof. reflexivity. Qed.

Lemma done_any_context f w k rest e : is_done (run_fn f (w ++ [k])) [k] = true ->
  texec cfuel grammar_prog (ECall f None) [] (mk_ts (w ++ k :: rest) e) = TVal (VB true) [] (mk_ts (k :: rest) e).
Proof.
  intros H. apply is_done_sound in H.
  assert (Hne : tks (mk_ts [k] 0) <> []) by discriminate.
  pose proof (frame_done grammar_prog rest e cfuel (ECall f None) [] (mk_ts (w ++ [k]) 0) (VB true) [] (mk_ts [k] 0) H Hne) as F.
  rewrite mk_ts_frame in F. exact F.
Qed.

(** * Finite-language nonterminals *)
Definition efuel : nat := 14.
(** follower tokens after which EVERY word of the rule is consumed exactly (computed, not guessed) *)
Definition fol_ok (f : nat) (ws : list word) (k : TokenKind) : bool :=
  forallb (fun w => is_done (run_fn f (w ++ [k])) [k]) ws.
Definition followers (G : grammar) (n f : nat) : list TokenKind :=
  match enum G efuel (RSym (DNT n)) with
  | Some ws => filter (fol_ok f ws) all_token_kinds
  | None => []
  end.

Theorem fin_complete_tok G n f w k rest e :
  derives G n w -> In k (followers G n f) ->
  texec cfuel grammar_prog (ECall f None) [] (mk_ts (w ++ k :: rest) e) = TVal (VB true) [] (mk_ts (k :: rest) e).
Proof.
  unfold followers. intros Hd Hk. destruct (enum G efuel (RSym (DNT n))) as [ws|] eqn:E; [|destruct Hk].
  apply filter_In in Hk as [_ Hk]. unfold fol_ok in Hk. rewrite forallb_forall in Hk.
  apply done_any_context. apply Hk. eapply enum_complete; eauto.
Qed.

(** the same for the full parser model: from any state whose upcoming tokens are  w ++ k :: rest  the function either
    panics (excluded by C02) or returns true in a state whose upcoming tokens are  k :: rest, with no new error *)
Theorem fin_complete_model G n f w k rest s :
  derives G n w -> In k (followers G n f) -> Toks s (w ++ k :: rest) -> after_err s = false ->
  match gexec cfuel grammar_prog (ECall f None) [] s with
  | RPanic => True
  | RVal v _ s' => v = VB true /\ Toks s' (k :: rest) /\ nerr s' = nerr s /\ after_err s' = false
  | _ => False
  end.
Proof.
  intros Hd Hk HT Ha.
  pose proof (fin_complete_tok G n f w k rest (nerr s) Hd Hk) as Ht.
  assert (R0 : TR s (mk_ts (w ++ k :: rest) (nerr s))) by (repeat split; auto).
  exact (refine_done grammar_prog cfuel (ECall f None) s (mk_ts (w ++ k :: rest) (nerr s)) (mk_ts (k :: rest) (nerr s)) R0 Ht).
Qed.
